import Vflow.Model.Sflow
import Vflow.Model.IpText
import Vflow.Model.JsonOut
import Vflow.Spec.Json
/-!
# `json.Marshal(*SFDatagram)` as `encoding/json` renders it — as a JSON tree

The datagram is first mapped to a `Vflow.Spec.Json` tree (`sflowTree`), and the published text is the
compact rendering `Spec.render (sflowTree d)` (`sflowJson?`).  Struct fields in declaration order,
map keys sorted as `encoding/json` sorts them, `[]byte` as a base64 string, `net.IP` through
`MarshalText` (empty string for no address, dotted quad, RFC 5952 text, IPv4-mapped addresses as dotted
quad; any other length is a marshal error: nothing is published), the MAC and address *strings* as
`fmt.Sprintf` / `net.IP.String` produce them (address strings pass through `encoding/json`'s string
escaping, which is the identity on address text), numbers as their decimal text, `null` for absent
layers, the members of an embedded struct pointer (`sflow.RawHeader` embeds `*packet.Packet`, F33) promoted into the
enclosing object behind its own fields and left out altogether when the pointer is nil.  `ColTime` is rendered as 0 (the harness zeroes it on the Go side).

That this rendering equals what `encoding/json` (library code) emits is established by the
correspondence (kinds `sflow`, `sflowf`, `dissect`), not proved; what is proved
(`Vflow.Props.C05`) is that it is valid JSON deriving exactly `sflowTree d`.
-/
namespace Vflow.Sflow.Json
open Vflow Vflow.Sflow Vflow.Packet Vflow.Spec

/-! ## builders -/

/-- the octets of a key name -/
def kb (s : String) : Bytes := s.toUTF8.toList

def listOf : List Json → JList
  | [] => .nil
  | x :: xs => .cons x (listOf xs)

def membersOf : List (String × Json) → JMembers
  | [] => .nil
  | (k, v) :: ms => .cons (kb k) v (membersOf ms)

/-- an object with the given members, in order -/
def obj (fields : List (String × Json)) : Json := .obj (membersOf fields)

/-- a JSON number carrying the exact decimal text of `n` -/
def num (n : Nat) : Json := .num (natDigits n)

/-- an object of numbers: the i-th name shows the i-th value -/
def numObj (names : List String) (vals : List Nat) : Json :=
  obj ((names.zip vals).map fun (n, v) => (n, num v))

/-! ## leaves -/

/-- the standard base64 alphabet -/
def b64 (n : Nat) : UInt8 :=
  let m := n % 64
  if m < 26 then UInt8.ofNat (65 + m) else if m < 52 then UInt8.ofNat (71 + m)
  else if m < 62 then UInt8.ofNat (m - 4) else if m = 62 then 43 else 47

/-- `base64.StdEncoding` (how `encoding/json` renders a `[]byte`) -/
def base64 : Bytes → Bytes
  | [] => []
  | [a] => let n := a.toNat * 65536
           [b64 (n / 262144), b64 (n / 4096), 61, 61]
  | [a, b] => let n := a.toNat * 65536 + b.toNat * 256
              [b64 (n / 262144), b64 (n / 4096), b64 (n / 64), 61]
  | a :: b :: c :: t => let n := a.toNat * 65536 + b.toNat * 256 + c.toNat
              b64 (n / 262144) :: b64 (n / 4096) :: b64 (n / 64) :: b64 n :: base64 t

/-- a `[]byte` field -/
def bytesLeaf (b : Bytes) : Json := .str (base64 b)

/-- a `net.IP` field (`MarshalText`): the empty string for no address, else `net.IP.String` -/
def ipLeaf (b : Bytes) : Json := .str (if b.length == 0 then [] else ipBytes b)

/-- `MarshalText` succeeds (an address of 0, 4 or 16 octets) -/
def ipOk (b : Bytes) : Bool := b.length == 0 || b.length == 4 || b.length == 16

/-- a `string` field holding `net.IP.String()`: through `encoding/json`'s string escaping -/
def ipStringLeaf (b : Bytes) : Json := .str (escString (ipBytes b))

/-- a `string` field holding `fmt.Sprintf("%0.2x:…")` of the MAC octets; empty when not set -/
def macLeaf (b : Bytes) : Json := .str (macBytes b)

/-! ## the sampled packet -/

def l2Tree (d : L2) : Json :=
  obj [("SrcMAC", macLeaf d.srcMAC), ("DstMAC", macLeaf d.dstMAC), ("Vlan", num d.vlan), ("EtherType", num d.etherType)]

def l3Tree : L3 → Json
  | .none => .null
  | .v4 h => obj [("Version", num h.version), ("TOS", num h.tos), ("TotalLen", num h.totalLen),
      ("ID", num h.id), ("Flags", num h.flags), ("FragOff", num h.fragOff), ("TTL", num h.ttl),
      ("Protocol", num h.protocol), ("Checksum", num h.checksum),
      ("Src", ipStringLeaf h.src), ("Dst", ipStringLeaf h.dst)]
  | .v6 h => obj [("Version", num h.version), ("TrafficClass", num h.trafficClass),
      ("FlowLabel", num h.flowLabel), ("PayloadLen", num h.payloadLen), ("NextHeader", num h.nextHeader),
      ("HopLimit", num h.hopLimit), ("Src", ipStringLeaf h.src), ("Dst", ipStringLeaf h.dst)]

def l4Tree : L4 → Json
  | .none => .null
  | .icmp t c rest => obj [("Type", num t), ("Code", num c), ("RestHeader", bytesLeaf rest)]
  | .tcp s d off res fl => numObj ["SrcPort", "DstPort", "DataOffset", "Reserved", "Flags"] [s, d, off, res, fl]
  | .udp s d => numObj ["SrcPort", "DstPort"] [s, d]

/-- the members of a `packet.Packet` (the unexported `data` is not rendered) -/
def pktMembers (p : Pkt) : List (String × Json) := [("L2", l2Tree p.l2), ("L3", l3Tree p.l3), ("L4", l4Tree p.l4)]

def pktTree (p : Pkt) : Json := obj (pktMembers p)

/-- the four words of the raw-header record, as `sflow.RawHeader` declares them -/
def rawHeaderWords (h : RawHeader) : List (String × Json) :=
  [("Protocol", num h.protocol), ("FrameLength", num h.frameLength), ("Stripped", num h.stripped),
   ("HeaderLength", num h.headerLength)]

/-- `sflow.RawHeader` (F33): the four words, then the members of the embedded `*packet.Packet` — `encoding/json`
promotes the fields of an embedded struct into the enclosing object and leaves them out when the pointer is nil -/
def rawHeaderTree (h : RawHeader) : Json :=
  obj (rawHeaderWords h ++ (match h.pkt with | none => [] | some p => pktMembers p))

/-! ## samples -/

def extRouterTree (x : ExtRouter) : Json :=
  obj [("NextHop", ipLeaf x.nextHop), ("SrcMask", num x.srcMask), ("DstMask", num x.dstMask)]

def extSwitchTree (s : ExtSwitch) : Json :=
  numObj ["SrcVlan", "SrcPriority", "DstVlan", "DstPriority"] [s.srcVlan, s.srcPriority, s.dstVlan, s.dstPriority]

/-- a map entry that is present -/
def entry {α : Type} (k : String) (f : α → Json) : Option α → List (String × Json)
  | none => []
  | some x => [(k, f x)]

/-- keys of an `encoding/json` map are sorted: ExtRouter < ExtSwitch < RawHeader -/
def flowRecsTree (m : FlowRecs) : Json :=
  obj (entry "ExtRouter" extRouterTree m.rtr ++ entry "ExtSwitch" extSwitchTree m.sw ++ entry "RawHeader" rawHeaderTree m.raw)

def flowSampleTree (s : FlowSample) : Json :=
  obj [("SequenceNo", num s.seqNo), ("SourceID", num s.sourceID), ("SourceIDIdx", num s.sourceIDIdx),
    ("SamplingRate", num s.samplingRate), ("SamplePool", num s.samplePool), ("Drops", num s.drops),
    ("Input", num s.input), ("Output", num s.output), ("RecordsNo", num s.recordsNo),
    ("Records", flowRecsTree s.recs)]

def names (l : Layout) : List String := l.map (·.1)

/-- sorted keys: EthInt < GenInt < Proc < TRInt < VGInt < Vlan -/
def counterRecsTree (m : CounterRecs) : Json :=
  obj (entry "EthInt" (numObj (names ethIntLayout)) m.ethInt ++ entry "GenInt" (numObj (names genIntLayout)) m.genInt ++
       entry "Proc" (numObj (names procLayout)) m.proc ++ entry "TRInt" (numObj (names trIntLayout)) m.trInt ++
       entry "VGInt" (numObj (names vgIntLayout)) m.vgInt ++ entry "Vlan" (numObj (names vlanLayout)) m.vlan)

def counterSampleTree (c : CounterSample) : Json :=
  obj [("SequenceNo", num c.seqNo), ("SourceIDType", num c.sourceIDType),
    ("SourceIDIdx", num c.sourceIDIdx), ("RecordsNo", num c.recordsNo), ("Records", counterRecsTree c.recs)]

/-- **the sFlow message**: the datagram header fields, the flow samples and the counter samples in decode
order, the agent address, and `ColTime` (= 0 here) -/
def sflowTree (d : Datagram) : Json :=
  obj [("Version", num d.version), ("IPVersion", num d.ipVersion),
    ("AgentSubID", num d.agentSubID), ("SequenceNo", num d.seqNo), ("SysUpTime", num d.sysUpTime),
    ("SamplesNo", num d.samplesNo), ("Samples", .arr (listOf (d.samples.map flowSampleTree))),
    ("Counters", .arr (listOf (d.counters.map counterSampleTree))),
    ("IPAddress", ipLeaf d.ip), ("ColTime", num 0)]

/-- every `net.IP` in the datagram can be marshalled (the agent address and the next hops) -/
def marshalOk (d : Datagram) : Bool :=
  ipOk d.ip && d.samples.all fun s => match s.recs.rtr with | none => true | some x => ipOk x.nextHop

/-- `json.Marshal(datagram)` with `ColTime` = 0; `none` = marshal error (nothing is published) -/
def sflowJson? (d : Datagram) : Option Bytes :=
  if marshalOk d then some (render (sflowTree d)) else none

/-- the rendered octets as text (all ASCII) — driver only -/
def text (b : Bytes) : String := String.ofList (b.map fun x => Char.ofNat x.toNat)

def errClass : Err → String
  | .eof => "eof" | .version => "version" | .noLen => "nolen" | .hdrLen => "hdrlen" | .rtrLen => "rtrlen"
  | .ethShort => "ethshort" | .ieeeShort => "ieeeshort" | .ip4Short => "ip4short" | .ip6Short => "ip6short"
  | .tcpShort => "tcpshort" | .udpShort => "udpshort" | .icmpShort => "icmpshort" | .l4Unknown => "l4unknown"
  | .etherType => "ethertype" | .hdrProto => "hdrproto"

end Vflow.Sflow.Json
