import Vflow.Model.Sflow
/-!
# `json.Marshal(*SFDatagram)` as `encoding/json` renders it

Struct fields in declaration order, map keys sorted, `[]byte` as base64, `net.IP` through
`MarshalText` (dotted quad, RFC 5952 text, IPv4-mapped addresses as dotted quad), the MAC and
address strings as `fmt.Sprintf` / `net.IP.String` produce them.  `ColTime` is rendered as 0
(the harness zeroes it on the Go side).  Used by the driver only.
-/
namespace Vflow.Sflow.Json
open Vflow Vflow.Sflow Vflow.Packet

def hexDigits : Array Char := "0123456789abcdef".toList.toArray
def hex2 (n : Nat) : String := String.ofList [hexDigits[(n / 16) % 16]!, hexDigits[n % 16]!]
def hexNoLead (n : Nat) : String := String.ofList (Nat.toDigits 16 n)
def at! (b : Bytes) (i : Nat) : Nat := (b.getD i 0).toNat

def ip4String (b : Bytes) : String := ".".intercalate (b.map fun x => toString x.toNat)

/-- groups of an IPv6 address -/
def groups (b : Bytes) : List Nat := (List.range 8).map fun i => at! b (2*i) * 256 + at! b (2*i+1)

/-- longest run of zero groups (length ≥ 2), leftmost on ties: (start, len) -/
def longestZeroRun (g : List Nat) : Nat × Nat := Id.run do
  let arr := g.toArray
  let mut best := (0, 0)
  let mut i := 0
  while i < 8 do
    let mut j := i
    while j < 8 && arr[j]! == 0 do j := j + 1
    let l := j - i
    if l ≥ 2 && l > best.2 then best := (i, l)
    i := if j == i then i + 1 else j
  return best

def ip6String (b : Bytes) : String :=
  let g := groups b
  let (s, l) := longestZeroRun g
  if l == 0 then ":".intercalate (g.map hexNoLead) else
  ":".intercalate ((g.take s).map hexNoLead) ++ "::" ++ ":".intercalate ((g.drop (s + l)).map hexNoLead)

def isV4Mapped (b : Bytes) : Bool :=
  b.length == 16 && (b.take 10).all (· == 0) && at! b 10 == 255 && at! b 11 == 255

/-- `net.IP.String` -/
def ipString (b : Bytes) : String :=
  if b.length == 0 then "<nil>" else
  if b.length == 4 then ip4String b else
  if b.length == 16 then (if isV4Mapped b then ip4String (b.drop 12) else ip6String b) else
  "?" ++ "".intercalate (b.map fun x => hex2 x.toNat)

/-- `net.IP.MarshalText` as a JSON string; `none` = marshal error -/
def ipJson (b : Bytes) : Option String :=
  if b.length == 0 then some "\"\"" else
  if b.length == 4 || b.length == 16 then some ("\"" ++ ipString b ++ "\"") else none

def b64chars : Array Char := "ABCDEFGHIJKLMNOPQRSTUVWXYZabcdefghijklmnopqrstuvwxyz0123456789+/".toList.toArray
def base64 : Bytes → String
  | [] => ""
  | [a] => let n := a.toNat * 65536
           String.ofList [b64chars[n / 262144]!, b64chars[(n / 4096) % 64]!, '=', '=']
  | [a, b] => let n := a.toNat * 65536 + b.toNat * 256
              String.ofList [b64chars[n / 262144]!, b64chars[(n / 4096) % 64]!, b64chars[(n / 64) % 64]!, '=']
  | a :: b :: c :: t => let n := a.toNat * 65536 + b.toNat * 256 + c.toNat
              String.ofList [b64chars[n / 262144]!, b64chars[(n / 4096) % 64]!, b64chars[(n / 64) % 64]!, b64chars[n % 64]!] ++ base64 t

/-- `fmt.Sprintf("%0.2x:…")` of six octets; the empty string when not set -/
def macString (b : Bytes) : String :=
  if b.length == 0 then "" else ":".intercalate (b.map fun x => hex2 x.toNat)

def objJson (fields : List (String × String)) : String :=
  "{" ++ ",".intercalate (fields.map fun (n, v) => s!"\"{n}\":{v}") ++ "}"

def numObj (names : List String) (vals : List Nat) : String :=
  objJson ((names.zip vals).map fun (n, v) => (n, toString v))

def l2Json (d : L2) : String :=
  objJson [("SrcMAC", s!"\"{macString d.srcMAC}\""), ("DstMAC", s!"\"{macString d.dstMAC}\""),
           ("Vlan", toString d.vlan), ("EtherType", toString d.etherType)]

def l3Json : L3 → String
  | .none => "null"
  | .v4 h => objJson [("Version", toString h.version), ("TOS", toString h.tos), ("TotalLen", toString h.totalLen),
      ("ID", toString h.id), ("Flags", toString h.flags), ("FragOff", toString h.fragOff), ("TTL", toString h.ttl),
      ("Protocol", toString h.protocol), ("Checksum", toString h.checksum),
      ("Src", s!"\"{ipString h.src}\""), ("Dst", s!"\"{ipString h.dst}\"")]
  | .v6 h => objJson [("Version", toString h.version), ("TrafficClass", toString h.trafficClass),
      ("FlowLabel", toString h.flowLabel), ("PayloadLen", toString h.payloadLen), ("NextHeader", toString h.nextHeader),
      ("HopLimit", toString h.hopLimit), ("Src", s!"\"{ipString h.src}\""), ("Dst", s!"\"{ipString h.dst}\"")]

def l4Json : L4 → String
  | .none => "null"
  | .icmp t c rest => objJson [("Type", toString t), ("Code", toString c), ("RestHeader", s!"\"{base64 rest}\"")]
  | .tcp s d off res fl => numObj ["SrcPort", "DstPort", "DataOffset", "Reserved", "Flags"] [s, d, off, res, fl]
  | .udp s d => numObj ["SrcPort", "DstPort"] [s, d]

def pktJson (p : Pkt) : String := objJson [("L2", l2Json p.l2), ("L3", l3Json p.l3), ("L4", l4Json p.l4)]

/-- keys of an `encoding/json` map are sorted: ExtRouter < ExtSwitch < RawHeader -/
def flowRecsJson (m : FlowRecs) : Option String := do
  let rtr ← match m.rtr with
    | none => some []
    | some x => (ipJson x.nextHop).map fun ip =>
        [("ExtRouter", objJson [("NextHop", ip), ("SrcMask", toString x.srcMask), ("DstMask", toString x.dstMask)])]
  let sw := match m.sw with
    | none => []
    | some s => [("ExtSwitch", numObj ["SrcVlan", "SrcPriority", "DstVlan", "DstPriority"]
        [s.srcVlan, s.srcPriority, s.dstVlan, s.dstPriority])]
  let raw := match m.raw with
    | none => []
    | some p => [("RawHeader", pktJson p)]
  pure (objJson (rtr ++ sw ++ raw))

def flowSampleJson (s : FlowSample) : Option String := do
  let recs ← flowRecsJson s.recs
  pure (objJson [("SequenceNo", toString s.seqNo), ("SourceID", toString s.sourceID),
    ("SamplingRate", toString s.samplingRate), ("SamplePool", toString s.samplePool), ("Drops", toString s.drops),
    ("Input", toString s.input), ("Output", toString s.output), ("RecordsNo", toString s.recordsNo),
    ("Records", recs)])

def names (l : Layout) : List String := l.map (·.1)

/-- sorted keys: EthInt < GenInt < Proc < TRInt < VGInt < Vlan -/
def counterRecsJson (m : CounterRecs) : String :=
  let one (k : String) (l : Layout) (o : Option (List Nat)) : List (String × String) :=
    match o with
    | none => []
    | some vs => [(k, numObj (names l) vs)]
  objJson (one "EthInt" ethIntLayout m.ethInt ++ one "GenInt" genIntLayout m.genInt ++ one "Proc" procLayout m.proc ++
           one "TRInt" trIntLayout m.trInt ++ one "VGInt" vgIntLayout m.vgInt ++ one "Vlan" vlanLayout m.vlan)

def counterSampleJson (c : CounterSample) : String :=
  objJson [("SequenceNo", toString c.seqNo), ("SourceIDType", toString c.sourceIDType),
    ("SourceIDIdx", toString c.sourceIDIdx), ("RecordsNo", toString c.recordsNo), ("Records", counterRecsJson c.recs)]

/-- `json.Marshal(datagram)` with `ColTime` = 0; `none` = marshal error -/
def datagramJson (d : Datagram) : Option String := do
  let ss ← d.samples.mapM flowSampleJson
  let ip ← ipJson d.ip
  pure (objJson [("Version", toString d.version), ("IPVersion", toString d.ipVersion),
    ("AgentSubID", toString d.agentSubID), ("SequenceNo", toString d.seqNo), ("SysUpTime", toString d.sysUpTime),
    ("SamplesNo", toString d.samplesNo), ("Samples", "[" ++ ",".intercalate ss ++ "]"),
    ("Counters", "[" ++ ",".intercalate (d.counters.map counterSampleJson) ++ "]"),
    ("IPAddress", ip), ("ColTime", "0")])

def errClass : Err → String
  | .eof => "eof" | .version => "version" | .noLen => "nolen" | .hdrLen => "hdrlen" | .rtrLen => "rtrlen"
  | .ethShort => "ethshort" | .ieeeShort => "ieeeshort" | .ip4Short => "ip4short" | .ip6Short => "ip6short"
  | .tcpShort => "tcpshort" | .udpShort => "udpshort" | .icmpShort => "icmpshort" | .l4Unknown => "l4unknown"
  | .etherType => "ethertype" | .hdrProto => "hdrproto"

end Vflow.Sflow.Json
