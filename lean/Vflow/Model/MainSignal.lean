import Vflow.Model.Shutdown
/-!
# Model of `main` and of the signal (F32): when is SIGTERM / SIGINT a clean stop?

`main` (statements regenerated into `Vflow.Gen.ShutdownIR.mainSteps`) runs next to the goroutines it starts — the
`run()` of a protocol (the reader of `Vflow.Model.Shutdown`, started by `spawnRunsCounted`) and, after it has received a
signal from its channel, that protocol's `shutdown()` (started by `spawnShutdownsCounted`) — and next to the
environment, which may send SIGTERM / SIGINT at ANY moment from the first statement of `main` on (`sigsLeft` times).

What the operating system and package `os/signal` do with a signal:
* before `signal.Notify` has run, the signal has its default action: the process ends, its wait status is the signal
  (`killed`; the statement `main` was at is kept in the ghost `killedAt`);
* after it, the signal is relayed to the channel WITHOUT blocking: it is put into the buffer if there is room, handed
  to `main` directly if `main` is blocked in `<-signalCh`, and dropped otherwise (`lost`).
The instants before `main` runs (exec, start of the Go runtime) are not modelled: they are the operating system's.

`waitAll` (`wg.Wait()`) is enabled when every goroutine that was started and counted has returned (`wgDone`); falling
off the end of `main` is exit status 0 (`exited0`).  The four protocols share no state in the model, so the system
(`Sys`) is `main` with ONE protocol program at a time, for each of the four.  "Every interleaving" is the inductive
predicate `SysReach`; nothing bounds the number of steps.

The product of `main` and a protocol program is not enumerated (the kernel needs minutes for it). Instead
`Proofs/MainSignal` shows that every reachable `Sys` state is a pair of a state of `main` ALONE, run with both outcomes
of the wait (`amReachable`, enumerated), and a state of the protocol-level enumeration (`reachable`), and `Props/C15`
lets the kernel check an inductive invariant and the claimed properties on all such pairs.
-/
namespace Vflow.Shutdown

/-- `main`, the signal disposition and the channel -/
structure MSt where
  mpc : Nat := 0               -- index of the statement of `main` that is executed next (or is being executed)
  chanCap : Option Nat := none -- capacity of `signalCh` once it has been made
  handler : Bool := false      -- `signal.Notify` has returned: SIGINT / SIGTERM are relayed to `signalCh`
  pending : Nat := 0           -- signals waiting in the buffer of `signalCh`
  sigsLeft : Nat := 1          -- signals the environment may still send
  caught : Bool := false       -- a signal has been put into the channel or handed to `main` (ghost)
  lost : Bool := false         -- a relayed signal found no room and no receiver and was dropped (ghost)
  killed : Bool := false       -- the process was ended by the default action of the signal
  killedAt : Nat := 0          -- the statement `main` was at when that happened (ghost)
  optsRead : Bool := false     -- `GetOptions` has returned: the pid file holds this process's PID
  sigInOptions : Bool := false -- a signal arrived while `main` was at `opts = GetOptions()` (ghost)
  runsStarted : Bool := false
  stopsStarted : Bool := false
  waited : Bool := false       -- `wg.Wait()` has returned (ghost)
  exited0 : Bool := false      -- `main` has returned: exit status 0
deriving Repr, DecidableEq

/-- the process is gone -/
def MSt.over (m : MSt) : Bool := m.killed || m.exited0

/-- the environment sends SIGTERM / SIGINT -/
def mSignal (ms : List MStep) (m : MSt) : List MSt :=
  if m.over || m.sigsLeft == 0 then [] else
  let m := { m with sigsLeft := m.sigsLeft - 1, sigInOptions := m.sigInOptions || decide (ms[m.mpc]? = some MStep.getOptions) }
  if !m.handler then [{ m with killed := true, killedAt := m.mpc }]
  else if m.pending < m.chanCap.getD 0 then [{ m with pending := m.pending + 1, caught := true }]
  else if ms[m.mpc]? = some MStep.awaitSignal then [{ m with mpc := m.mpc + 1, caught := true }]
  else [{ m with lost := true }]

/-- the next statement of `main`; `done`: every goroutine that was started and counted has returned -/
def mMain (ms : List MStep) (done : Bool) (m : MSt) : List MSt :=
  if m.over then [] else
  match ms[m.mpc]? with
  | none => [{ m with exited0 := true }]
  | some (.makeSignalChan c) => [{ m with mpc := m.mpc + 1, chanCap := some c }]
  | some .notifySigintSigterm =>
    -- `signal.Notify` on a nil channel panics: no step (no theorem accepts a `main` that gets stuck)
    if m.chanCap.isNone then [] else [{ m with mpc := m.mpc + 1, handler := true }]
  | some .getOptions => [{ m with mpc := m.mpc + 1, optsRead := true }]
  | some .spawnRunsCounted => [{ m with mpc := m.mpc + 1, runsStarted := true }]
  | some .awaitSignal => if m.pending = 0 then [] else [{ m with mpc := m.mpc + 1, pending := m.pending - 1 }]
  | some .spawnShutdownsCounted => [{ m with mpc := m.mpc + 1, stopsStarted := true }]
  | some .waitAll => if done then [{ m with mpc := m.mpc + 1, waited := true }] else []
  | some (.unrecognised _) => []
  | some _ => [{ m with mpc := m.mpc + 1 }]

/-- the whole system: `main` + one protocol's `run()` / `shutdown()` pair -/
structure Sys where
  m : MSt := {}
  s : St := {}
deriving Repr

/-- `wg.Wait()` returns: `run()` (if started) and `shutdown()` (if started) have returned -/
def wgDone (p : Prog) (x : Sys) : Bool :=
  (!x.m.runsStarted || decide (x.s.rpc = .exited)) && (!x.m.stopsStarted || decide (x.s.spc = p.shutdown.length))

/-- all steps of the system: a signal, the next statement of `main`, a step of a goroutine `main` has started -/
def sysNext (ms : List MStep) (p : Prog) (a : Assume) (x : Sys) : List Sys :=
  (mSignal ms x.m).map (fun m' => ⟨m', x.s⟩) ++
  (mMain ms (wgDone p x) x.m).map (fun m' => ⟨m', x.s⟩) ++
  (if !x.m.over && x.m.runsStarted then (readerSteps p x.s).map (fun t => ⟨x.m, t⟩) else []) ++
  (if !x.m.over && x.m.stopsStarted then (shutdownSteps p a x.s).map (fun t => ⟨x.m, t⟩) else [])

/-- every state of every interleaving of `main`, the goroutines it starts and `sigs` signals sent at any moments -/
inductive SysReach (ms : List MStep) (p : Prog) (a : Assume) (sigs : Nat) : Sys → Prop
  | init : SysReach ms p a sigs ⟨{ sigsLeft := sigs }, {}⟩
  | step {x t : Sys} : SysReach ms p a sigs x → t ∈ sysNext ms p a x → SysReach ms p a sigs t

/-! ## `main` alone, with both outcomes of the wait -/

def amNext (ms : List MStep) (m : MSt) : List MSt := mSignal ms m ++ mMain ms true m ++ mMain ms false m

def amReach (ms : List MStep) : Nat → List MSt → List MSt → List MSt
  | 0, seen, _ => seen
  | fuel + 1, seen, frontier =>
    let new := ((frontier.flatMap (amNext ms)).filter (fun s => !seen.contains s)).eraseDups
    if new.isEmpty then seen else amReach ms fuel (seen ++ new) new

def amReachable (ms : List MStep) (sigs : Nat) : List MSt := amReach ms 64 [{ sigsLeft := sigs }] [{ sigsLeft := sigs }]

/-- the enumeration holds the initial state and is closed under every step -/
def amClosed (ms : List MStep) (sigs : Nat) : Bool :=
  (amReachable ms sigs).contains { sigsLeft := sigs } &&
  (amReachable ms sigs).all fun m => (amNext ms m).all fun t => (amReachable ms sigs).contains t

/-- remaining work once `stop` is set: what is left of `main` + of the protocol's goroutines + the signals still to come -/
def sysMeasure (ms : List MStep) (p : Prog) (x : Sys) : Nat :=
  (if x.m.exited0 then 0 else 1 + (ms.length - x.m.mpc)) +
  (match x.s.rpc with
    | .exited => 0 | .leaving k => 1 + (p.afterLoop.length - k)
    | .starting k => 3 + p.afterLoop.length + (p.beforeLoop.length - k)
    | .atCheck => 2 + p.afterLoop.length | .havePacket => 3 + p.afterLoop.length | .inRead => 4 + p.afterLoop.length)
  + (p.shutdown.length - x.s.spc) + x.m.sigsLeft

/-- what is left of `main`, of `shutdown()` and of the signals: no step of the read loop changes it -/
def ctlMeasure (ms : List MStep) (p : Prog) (x : Sys) : Nat :=
  (if x.m.exited0 then 0 else 1 + (ms.length - x.m.mpc)) + (p.shutdown.length - x.s.spc) + x.m.sigsLeft

end Vflow.Shutdown
