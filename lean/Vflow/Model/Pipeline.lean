import Vflow.Model.Base
/-!
# The UDP → workers → message-queue pipeline (C12, C13)

An executable small-step model of `vflow/{ipfix,netflow_v9,netflow_v5,sflow}.go`:

* receive buffers have identities (`BufId`); `mem` is their content; `pool` is the `sync.Pool`
  (`Get` returns any pooled buffer or a fresh one);
* the read loop of `run()` is the fixed state machine `RxPhase` (`Get` → `ReadFromUDP` →
  `UDPCount++` → enqueue); the generated read-loop IR is compared with `canonicalRx` for equality;
* the UDP channel, the mirror channel and the MQ channel are bounded FIFO lists;
* every worker interprets the *generated* instruction list (`Instr`, extracted from the Go source by
  `factgen`) — one instruction per step, so every interleaving of workers, read loop, mirror and
  MQ consumer is a sequence of `step`s;
* ghost state: datagram ids, the event `log`, the list `fin` of datagrams whose iteration is over.

The decoder is a parameter (`Codec`): `decode cache addr octets` returns the message (or none) and
the new template cache; a decoded message may alias the receive buffer (ipfix `Interpret` returns
sub-slices), which the model over-approximates by treating the message as a *view*: `marshal`
re-reads the buffer with the cache snapshot taken at decode time.

Core Lean only (linked into `vfmodel`).
-/
namespace Vflow.Pipeline
open Vflow

abbrev BufId := Nat

/-- the decoder/encoder of one protocol, abstractly -/
structure Codec where
  Cache : Type
  Msg : Type
  /-- `Decode`: message (none = the code's "no message": nil message resp. sFlow error) and new cache -/
  decode : Cache → Bytes → Bytes → Option Msg × Cache
  /-- the worker's own "has data" test (`len(DataSets) > 0`, `DataSets != nil`, `Flows != nil`,
  sFlow: at least one counter or sample) -/
  hasData : Msg → Bool
  /-- `JSONMarshal` / `json.Marshal` (none = error) -/
  marshal : Msg → Option Bytes

/-- a received datagram; `id` is ghost (arrival index), `bytes` is ghost (what was written) -/
structure Dgram where
  id : Nat
  addr : Bytes
  bytes : Bytes
deriving DecidableEq, Repr

/-- conditions of the `if … { [Put]; continue }` statements of the worker loops -/
inductive Cond
  | noMsg            -- `decodedMsg == nil`
  | noData           -- `!(len(decodedMsg.DataSets) > 0)` etc.
  | noMsgOrNoData    -- sFlow: `err != nil || (len(Counters) < 1 && len(Samples) < 1)`
  | marshalErr       -- `err != nil` after the marshal call
deriving DecidableEq, Repr

/-- the worker-loop IR emitted by `factgen` (`go/cmd/factgen/worker_ir.go`) -/
inductive Instr
  | putBack                        -- `xBuffer.Put(msg.body[:size])`
  | resetEnc                       -- `buf.Reset()`
  | recvOrQuit                     -- `select { case <-wQuit: break LOOP; case msg, ok = <-xUDPCh: if !ok { break LOOP } }`
  | log                            -- logging only
  | mirrorCopy                     -- `if mirrorEnabled { m := Get(); m = append(m[:0], msg.body...); select { case ch <- m: default: } }`
  | mirrorAlias                    -- (mutant) the mirror is handed `msg.body` itself
  | decode                         -- `d := NewDecoder(raddr.IP, msg.body); decodedMsg, err = d.Decode(cache)`
  | contIf (c : Cond) (put : Bool) -- `if c { [Put(msg.body)]; continue }`
  | countDecoded                   -- `atomic.AddUint64(&stats.DecodedCount, 1)`
  | marshal (own : Bool)           -- `b, err = decodedMsg.JSONMarshal(buf)` (own) / `b, err = json.Marshal(datagram)`
  | publishCopy                    -- `select { case xMQCh <- append([]byte{}, b...): default: }`
  | publishAlias                   -- (mutant) `select { case xMQCh <- b: default: }`
  | unrecognised (s : String)      -- anything else: accepted by no theorem
deriving DecidableEq, Repr

/-- a worker function: does it `Get` a buffer before the loop, and the loop body -/
structure Prog where
  initGet : Bool
  loop : List Instr
deriving DecidableEq, Repr

/-- the read-loop IR emitted by `factgen` -/
inductive RInstr
  | getBuf | deadline | readUDP | contIfErr | countUDP | enqueueUDP | log
  | closeUDP                       -- after the loop: `close(xUDPCh)` (the workers' receive then reports `!ok`)
  | unrecognised (s : String)
deriving DecidableEq, Repr

/-- the read loop the model implements (`RxPhase`): `b := Get(); SetReadDeadline; n, raddr, err :=
ReadFromUDP(b); if err != nil { continue }; UDPCount++; ch <- {raddr, b[:n]}` -/
def canonicalRx : List RInstr := [.getBuf, .deadline, .readUDP, .contIfErr, .countUDP, .enqueueUDP]

/-- what follows the read loop in `run()`: once the stop flag ends the loop the reader closes the UDP channel
it alone sends on (F21 repair; before it `shutdown()` closed the channel, under a send possibly in flight).
For the workers this is the `quit` branch of `recvOrQuit` (`msg, ok = <-ch; if !ok { break LOOP }`), which the
model lets any worker take at any `recvOrQuit`; no datagram is touched after it. -/
def canonicalRxTail : List RInstr := [.closeUDP]

/-- where the read loop is in its iteration -/
inductive RxPhase
  | idle
  | got (b : BufId)
  | read (b : BufId) (d : Dgram)
  | counted (b : BufId) (d : Dgram)
deriving DecidableEq, Repr

/-- an element of the MQ channel: a private copy, or (mutants only) a reference to worker `w`'s
reusable encode buffer -/
inductive MQItem
  | val (id : Nat) (p : Bytes)
  | ref (id : Nat) (w : Nat)
deriving DecidableEq, Repr

/-- the worker's `b, err` after the marshal call -/
inductive Mar
  | none | err | okEnc | okVal (p : Bytes)
deriving DecidableEq, Repr

structure Worker (K : Codec) where
  pc : List Instr                              -- rest of the current iteration
  halted : Bool := false
  msg : Option BufId := none                   -- `msg.body` (a reference; dangling after `Put`)
  owns : Bool := false                         -- ghost: the reference is live
  cur : Option Dgram := none                   -- the datagram of this iteration (`msg.raddr`; id/bytes ghost)
  enc : Bytes := []                            -- contents of the encode buffer `buf`
  dec : Option (K.Cache × Option K.Msg) := none -- cache snapshot at decode time and `decodedMsg`
  mar : Mar := .none
  nDec : Nat := 0                              -- ghost: decode / countDecoded / publish steps taken for `cur`
  nCnt : Nat := 0
  nPub : Nat := 0

inductive Event (K : Codec)
  | received (d : Dgram)
  | countUDP (id : Nat)
  | decoded (id : Nat) (c : K.Cache) (r : Option K.Msg)
  | countDecoded (id : Nat)
  | published (id : Nat) (p : Bytes)
  | dropped (id : Nat) (p : Bytes)
  | mirrored (id : Nat) (p : Bytes)

structure State (K : Codec) where
  mem : BufId → Bytes
  next : BufId                     -- buffers ≥ next were never allocated
  pool : List BufId
  rx : RxPhase
  nextId : Nat
  udpq : List (BufId × Dgram)
  workers : List (Worker K)
  mirq : List (BufId × Dgram)
  mq : List MQItem
  cache : K.Cache
  udpCount : Nat
  decCount : Nat
  fin : List Dgram                 -- ghost: datagrams whose iteration has ended
  log : List (Event K)             -- ghost, newest first
  delivered : List (Nat × Bytes)   -- what the MQ consumer (producer goroutine) has read, newest first

structure Cfg where
  prog : Prog
  udpCap : Nat := 1000
  mqCap : Nat := 1000
  mirCap : Nat := 1000

/-- the scheduler's choices: every `Action` is one atomic step of one goroutine -/
inductive Action
  | spawn (b : Option BufId)                     -- a new worker starts (its initial `Get`: pooled `b` or fresh)
  | rxGetPool (b : BufId) | rxGetNew
  | rxRead (dg : Option (Bytes × Bytes))         -- `ReadFromUDP`: error, or (source address, octets)
  | rxCount | rxEnqueue
  | work (i : Nat) (quit : Bool) (mb : Option (Option BufId))
      -- worker `i` executes its next instruction; `quit`: the quit/closed branch of its select is taken;
      -- `mb`: mirror off / mirror on with a fresh / a pooled buffer
  | mirConsume | mqConsume
deriving Repr

variable {K : Codec}

def State.setW (s : State K) (i : Nat) (w : Worker K) : State K :=
  { s with workers := s.workers.set i w }

/-- what the datagram yields: the payload, if it decodes to a message with data that marshals -/
def outcome (K : Codec) (r : Option K.Msg) : Option Bytes :=
  r.bind (fun m => if K.hasData m then K.marshal m else none)

def Worker.cond (w : Worker K) : Cond → Option Bool
  | .noMsg => match w.dec with
      | some (_, r) => some r.isNone
      | none => none
  | .noData => match w.dec with
      | some (_, some m) => some (!K.hasData m)
      | _ => none
  | .noMsgOrNoData => match w.dec with
      | some (_, some m) => some (!K.hasData m)
      | some (_, none) => some true
      | none => none
  | .marshalErr => match w.mar with
      | .none => none
      | .err => some true
      | _ => some false

/-- the value of `b` -/
def Worker.payload (w : Worker K) : Option Bytes :=
  match w.mar with
  | .okEnc => some w.enc
  | .okVal p => some p
  | _ => none

def resolve (s : State K) : MQItem → Nat × Bytes
  | .val id p => (id, p)
  | .ref id w => (id, match s.workers[w]? with | some x => x.enc | none => [])

/-- one instruction of worker `i` (whose state is `w`) -/
def wstep (cfg : Cfg) (s : State K) (i : Nat) (w : Worker K) (quit : Bool) (mb : Option (Option BufId)) :
    Option (State K) :=
  match w.pc with
  | [] =>
      -- end of the iteration (`continue` / fall through): back to the loop head
      some { s.setW i { w with pc := cfg.prog.loop, cur := none, dec := none, mar := .none, nDec := 0, nCnt := 0, nPub := 0 } with
             fin := w.cur.toList ++ s.fin }
  | .putBack :: rest =>
      match w.msg with
      | some b => some { s.setW i { w with pc := rest, owns := false } with pool := b :: s.pool }
      | none => none
  | .resetEnc :: rest => some (s.setW i { w with pc := rest, enc := [] })
  | .recvOrQuit :: rest =>
      if quit then some (s.setW i { w with halted := true })
      else match s.udpq with
        | (b, d) :: q =>
            some { s.setW i { w with pc := rest, msg := some b, owns := true, cur := some d,
                                     dec := none, mar := .none, nDec := 0, nCnt := 0, nPub := 0 } with udpq := q }
        | [] => none
  | .log :: rest => some (s.setW i { w with pc := rest })
  | .mirrorCopy :: rest =>
      match mb with
      | none => some (s.setW i { w with pc := rest })
      | some g =>
        match w.msg, w.cur with
        | some b, some d =>
            let s1 := s.setW i { w with pc := rest }
            match g with
            | some b' =>
                if b' ∈ s.pool then
                  let s2 := { s1 with pool := s.pool.erase b', mem := fun x => if x = b' then s.mem b else s.mem x }
                  some (if s.mirq.length < cfg.mirCap then { s2 with mirq := s.mirq ++ [(b', d)] } else s2)
                else none
            | none =>
                let s2 := { s1 with next := s.next + 1, mem := fun x => if x = s.next then s.mem b else s.mem x }
                some (if s.mirq.length < cfg.mirCap then { s2 with mirq := s.mirq ++ [(s.next, d)] } else s2)
        | _, _ => none
  | .mirrorAlias :: rest =>
      match w.msg, w.cur with
      | some b, some d =>
          let s1 := s.setW i { w with pc := rest }
          some (if s.mirq.length < cfg.mirCap then { s1 with mirq := s.mirq ++ [(b, d)] } else s1)
      | _, _ => none
  | .decode :: rest =>
      match w.msg, w.cur with
      | some b, some d =>
          some { s.setW i { w with pc := rest, dec := some (s.cache, (K.decode s.cache d.addr (s.mem b)).1), nDec := w.nDec + 1 } with
                 cache := (K.decode s.cache d.addr (s.mem b)).2,
                 log := .decoded d.id s.cache (K.decode s.cache d.addr (s.mem b)).1 :: s.log }
      | _, _ => none
  | .contIf c put :: rest =>
      match w.cond c with
      | none => none
      | some false => some (s.setW i { w with pc := rest })
      | some true =>
          if put then
            match w.msg with
            | some b => some { s.setW i { w with pc := [], owns := false } with pool := b :: s.pool }
            | none => none
          else some (s.setW i { w with pc := [] })
  | .countDecoded :: rest =>
      match w.cur with
      | some d => some { s.setW i { w with pc := rest, nCnt := w.nCnt + 1 } with
                         decCount := s.decCount + 1, log := .countDecoded d.id :: s.log }
      | none => none
  | .marshal own :: rest =>
      match w.msg, w.cur, w.dec with
      | some b, some d, some (c, some _) =>
          -- the message is a view of the receive buffer: re-read it
          match (K.decode c d.addr (s.mem b)).1.bind K.marshal with
          | none => some (s.setW i { w with pc := rest, mar := .err })
          | some p =>
              if own then some (s.setW i { w with pc := rest, enc := w.enc ++ p, mar := .okEnc })
              else some (s.setW i { w with pc := rest, mar := .okVal p })
      | _, _, _ => none
  | .publishCopy :: rest =>
      match w.cur, w.payload with
      | some d, some p =>
          let s1 := s.setW i { w with pc := rest, nPub := w.nPub + 1 }
          some (if s.mq.length < cfg.mqCap
                then { s1 with mq := s.mq ++ [.val d.id p], log := .published d.id p :: s.log }
                else { s1 with log := .dropped d.id p :: s.log })
      | _, _ => none
  | .publishAlias :: rest =>
      match w.cur, w.payload with
      | some d, some p =>
          let s1 := s.setW i { w with pc := rest, nPub := w.nPub + 1 }
          let item := match w.mar with
            | .okEnc => MQItem.ref d.id i
            | _ => MQItem.val d.id p
          some (if s.mq.length < cfg.mqCap
                then { s1 with mq := s.mq ++ [item], log := .published d.id p :: s.log }
                else { s1 with log := .dropped d.id p :: s.log })
      | _, _ => none
  | .unrecognised _ :: _ => none

/-- the global step function; `none` = the action is not enabled -/
def step (cfg : Cfg) (s : State K) : Action → Option (State K)
  | .spawn g =>
      if cfg.prog.initGet then
        match g with
        | some b =>
            if b ∈ s.pool then
              some { s with pool := s.pool.erase b,
                            workers := s.workers ++ [{ pc := cfg.prog.loop, msg := some b, owns := true }] }
            else none
        | none =>
            some { s with next := s.next + 1,
                          workers := s.workers ++ [{ pc := cfg.prog.loop, msg := some s.next, owns := true }] }
      else some { s with workers := s.workers ++ [{ pc := cfg.prog.loop }] }
  | .rxGetPool b =>
      match s.rx with
      | .idle => if b ∈ s.pool then some { s with pool := s.pool.erase b, rx := .got b } else none
      | _ => none
  | .rxGetNew =>
      match s.rx with
      | .idle => some { s with next := s.next + 1, rx := .got s.next }
      | _ => none
  | .rxRead dg =>
      match s.rx with
      | .got b =>
          match dg with
          | none => some { s with rx := .idle }          -- read error: `continue` (the buffer is dropped)
          | some (addr, bytes) =>
              some { s with mem := fun x => if x = b then bytes else s.mem x,
                            rx := .read b ⟨s.nextId, addr, bytes⟩, nextId := s.nextId + 1,
                            log := .received ⟨s.nextId, addr, bytes⟩ :: s.log }
      | _ => none
  | .rxCount =>
      match s.rx with
      | .read b d => some { s with rx := .counted b d, udpCount := s.udpCount + 1, log := .countUDP d.id :: s.log }
      | _ => none
  | .rxEnqueue =>
      match s.rx with
      | .counted b d =>
          if s.udpq.length < cfg.udpCap then some { s with rx := .idle, udpq := s.udpq ++ [(b, d)] } else none
      | _ => none
  | .work i quit mb =>
      match s.workers[i]? with
      | some w => if w.halted then none else wstep cfg s i w quit mb
      | none => none
  | .mirConsume =>
      match s.mirq with
      | (b, d) :: q => some { s with mirq := q, pool := b :: s.pool, log := .mirrored d.id (s.mem b) :: s.log }
      | [] => none
  | .mqConsume =>
      match s.mq with
      | item :: q => some { s with mq := q, delivered := resolve s item :: s.delivered }
      | [] => none

def init (K : Codec) (c : K.Cache) (mem0 : BufId → Bytes) : State K :=
  { mem := mem0, next := 0, pool := [], rx := .idle, nextId := 0, udpq := [], workers := [], mirq := [],
    mq := [], cache := c, udpCount := 0, decCount := 0, fin := [], log := [], delivered := [] }

/-- one step under some scheduler choice -/
def Step (cfg : Cfg) (s s' : State K) : Prop := ∃ a, step cfg s a = some s'

/-- reachability: every schedule is a `Reach` derivation -/
inductive Reach (cfg : Cfg) : State K → State K → Prop
  | refl (s) : Reach cfg s s
  | step {a b c} : Reach cfg a b → Step cfg b c → Reach cfg a c

/-- run a list of actions (disabled actions are skipped) -/
def run (cfg : Cfg) (s : State K) : List Action → State K
  | [] => s
  | a :: as => match step cfg s a with
      | some s' => run cfg s' as
      | none => run cfg s as

/-! ## `Canonical`: the abstract ownership/accounting checker -/

/-- what is statically known at a program point -/
structure Abs where
  owns : Bool := false        -- the worker owns `msg.body`
  cur : Bool := false         -- a datagram has been received in this iteration
  clean : Bool := false       -- the encode buffer is empty
  decoded : Bool := false
  kMsg : Option Bool := none  -- known: the decode yielded a message
  kData : Option Bool := none -- known: the message has data
  marshalled : Bool := false
  kMar : Option Bool := none  -- known: the marshal succeeded
  benc : Bool := false        -- `b` aliases the encode buffer
  kYield : Option Bool := none -- known: message ∧ data ∧ marshals
  counted : Bool := false     -- `DecodedCount` incremented in this iteration
  pubd : Bool := false        -- publish attempted in this iteration
deriving DecidableEq, Repr

/-- the code's own notion of "decoded": ipfix/v9/v5 count when `Decode` returned a message;
sFlow counts when the datagram decoded, has a sample and marshalled.  (NetFlow v5: since the F29 repair `Decode`
returns a message exactly when it reports no error — `C08.decode_ok_iff`, `C13.v5_counted_iff_decodes`.) -/
inductive CountSpec | onMsg | onYield
deriving DecidableEq, Repr

def headAbs (p : Prog) : Abs := { owns := p.initGet }

/-- admissible end of an iteration: ownership as at the loop head, one datagram handled, and its
accounting complete -/
def atEnd (spec : CountSpec) (h a : Abs) : Bool :=
  a.owns == h.owns && a.cur &&
  (match a.kYield with
   | none => false
   | some y => a.pubd == y &&
      (match spec with
       | .onMsg => a.kMsg == some a.counted
       | .onYield => a.counted == y))

def trans : Instr → Abs → Option Abs
  | .putBack, a => if a.owns then some { a with owns := false } else none
  | .resetEnc, a => if a.marshalled then none else some { a with clean := true }
  | .recvOrQuit, a => if a.cur then none else some { owns := true, cur := true, clean := a.clean }
  | .log, a => some a
  | .mirrorCopy, a => if a.owns && a.cur then some a else none
  | .mirrorAlias, _ => none
  | .decode, a => if a.owns && a.cur && !a.decoded then some { a with decoded := true } else none
  | .countDecoded, a => if a.cur && !a.counted then some { a with counted := true } else none
  | .marshal own, a =>
      if a.owns && a.cur && a.kMsg == some true && !a.marshalled && (!own || a.clean)
      then some { a with marshalled := true, benc := own, clean := a.clean && !own } else none
  | .publishCopy, a => if a.cur && a.kYield == some true && a.kMar == some true && !a.pubd then some { a with pubd := true } else none
  | .publishAlias, a =>
      if a.cur && a.kYield == some true && a.kMar == some true && !a.pubd && !a.benc then some { a with pubd := true } else none
  | .contIf _ _, _ => none
  | .unrecognised _, _ => none

def assume : Cond → Bool → Abs → Option Abs
  | .noMsg, true, a => if a.decoded then some { a with kMsg := some false, kYield := some false } else none
  | .noMsg, false, a => if a.decoded then some { a with kMsg := some true } else none
  | .noData, true, a => if a.kMsg == some true then some { a with kData := some false, kYield := some false } else none
  | .noData, false, a => if a.kMsg == some true then some { a with kData := some true } else none
  | .noMsgOrNoData, true, a => if a.decoded then some { a with kYield := some false } else none
  | .noMsgOrNoData, false, a => if a.decoded then some { a with kMsg := some true, kData := some true } else none
  | .marshalErr, true, a => if a.marshalled then some { a with kMar := some false, kYield := some false } else none
  | .marshalErr, false, a =>
      if a.marshalled then
        some { a with kMar := some true,
                      kYield := if a.kMsg == some true && a.kData == some true then some true else a.kYield }
      else none

def check (spec : CountSpec) (h : Abs) : List Instr → Abs → Bool
  | [], a => atEnd spec h a
  | .contIf c put :: rest, a =>
      (match assume c true a with
       | none => false
       | some aT => if put then aT.owns && atEnd spec h { aT with owns := false } else atEnd spec h aT) &&
      (match assume c false a with
       | none => false
       | some aF => check spec h rest aF)
  | i :: rest, a =>
      match trans i a with
      | none => false
      | some a' => check spec h rest a'

/-- **Canonical worker programs**: those the checker accepts from the loop head. Both shapes of the
repository (put-back-at-loop-head: ipfix, v9, v5; put-back-at-loop-end: sFlow) are instances. -/
def Canonical (spec : CountSpec) (p : Prog) : Prop := check spec (headAbs p) p.loop (headAbs p) = true

instance (spec : CountSpec) (p : Prog) : Decidable (Canonical spec p) := by
  unfold Canonical; infer_instance

end Vflow.Pipeline
