import Vflow.Model.Base
/-!
# Model of `packet/*.go` — the sampled-header dissector

Every Go operation that can panic (index `b[i]`, slice `b[i:j]`, `b[i:]`) is an explicit check
(`at?`, `slice?`, `from?`) that yields `Res.panic` when out of range; the guards of the Go code
(`len(p.data) < 14` …) are transcribed as they are.  The model describes the code after the
`fix:` commits F7 (802.1Q tag needs 18 octets), F8 (IPv4 `Flags`/`FragOff` from the right bits),
F15 (`Vlan` is the 12-bit VLAN identifier), F17 (the IPv4 header length is the IHL field's, so the
transport layer is read after the IPv4 options) and F19c (TCP `Reserved` is the three bits between the data
offset and the NS flag).

Core Lean only.
-/
namespace Vflow.Sflow

/-- error classes of `sflow/*.go` and `packet/*.go` (compared with the Go error by class) -/
inductive Err where
  | eof        -- io.EOF / io.ErrUnexpectedEOF from binary.Read / bytes.Reader.Read
  | version    -- errSFVersionNotSupport
  | noLen      -- errDataLengthUnknown
  | hdrLen     -- errMaxOutEthernetLength
  | rtrLen     -- extended router record with a length other than 16 / 28 (F5 repair)
  | ethShort   -- errShortEthernetHeaderLength
  | ieeeShort  -- errShortEthernetLength
  | ip4Short | ip6Short | tcpShort | udpShort | icmpShort
  | l4Unknown  -- errUnknownTransportLayer
  | etherType  -- errUnknownEtherType
  | hdrProto   -- errUnknownHeaderProtocol
deriving DecidableEq, Repr

/-- outcome of a model function: value, Go `error`, Go panic, or loop fuel exhausted -/
inductive Res (α : Type) where
  | ok (a : α)
  | err (e : Err)
  | panic
  | fuel
deriving DecidableEq, Repr

def Res.bind {α β : Type} : Res α → (α → Res β) → Res β
  | .ok a, f => f a
  | .err e, _ => .err e
  | .panic, _ => .panic
  | .fuel, _ => .fuel

instance : Monad Res where
  pure := .ok
  bind := Res.bind

end Vflow.Sflow

namespace Vflow.Packet
open Vflow Vflow.Sflow

/-- `b[i]` -/
def at? (b : Bytes) (i : Nat) : Res Nat :=
  if i < b.length then .ok (b.getD i 0).toNat else .panic

/-- octet `i` of `b` as a number (0 when out of range; only used under a length guard) -/
def oct (b : Bytes) (i : Nat) : Nat := (b.getD i 0).toNat

/-- `b[i:j]` (checked against the length; under the Go guards length and capacity checks agree) -/
def slice? (b : Bytes) (i j : Nat) : Res Bytes :=
  if i ≤ j ∧ j ≤ b.length then .ok ((b.drop i).take (j - i)) else .panic

/-- `b[i:]` -/
def from? (b : Bytes) (i : Nat) : Res Bytes :=
  if i ≤ b.length then .ok (b.drop i) else .panic

/-- `packet.Datalink`; the MAC strings are kept as their 6 octets (`[]` = the empty string) -/
structure L2 where
  srcMAC : Bytes := []
  dstMAC : Bytes := []
  vlan : Nat := 0
  etherType : Nat := 0
deriving DecidableEq, Repr

structure IPv4Hdr where
  version : Nat
  tos : Nat
  totalLen : Nat
  id : Nat
  flags : Nat
  fragOff : Nat
  ttl : Nat
  protocol : Nat
  checksum : Nat
  src : Bytes
  dst : Bytes
deriving DecidableEq, Repr

structure IPv6Hdr where
  version : Nat
  trafficClass : Nat
  flowLabel : Nat
  payloadLen : Nat
  nextHeader : Nat
  hopLimit : Nat
  src : Bytes
  dst : Bytes
deriving DecidableEq, Repr

inductive L3 where
  | none
  | v4 (h : IPv4Hdr)
  | v6 (h : IPv6Hdr)
deriving DecidableEq, Repr

inductive L4 where
  | none
  | icmp (type code : Nat) (rest : Bytes)
  | tcp (srcPort dstPort dataOffset reserved flags : Nat)
  | udp (srcPort dstPort : Nat)
deriving DecidableEq, Repr

/-- the exported part of `packet.Packet` -/
structure Pkt where
  l2 : L2
  l3 : L3
  l4 : L4
deriving DecidableEq, Repr

/-- `decodeIEEE802` -/
def decodeIEEE802 (b : Bytes) : Res L2 :=
  if b.length < 14 then .err .ieeeShort else do
    let e0 ← at? b 12
    let e1 ← at? b 13
    let et := e0 * 256 + e1
    if et ≠ 0x8100 then do
      let dst ← slice? b 0 6     -- b[0] … b[5]
      let src ← slice? b 6 12    -- b[6] … b[11]
      pure { srcMAC := src, dstMAC := dst, vlan := 0, etherType := et }
    else pure { srcMAC := [], dstMAC := [], vlan := 0, etherType := et }

/-- the 802.1Q branch of `decodeEthernet` (after the F7 repair: a length check first) -/
def decodeVlan (d : Bytes) : Res (L2 × Bytes) :=
  if d.length < 18 then .err .ethShort else do
    let v0 ← at? d 14
    let v1 ← at? d 15
    let ty ← slice? d 16 18      -- p.data[12], p.data[13] = p.data[16], p.data[17]
    let hd ← slice? d 0 12
    let tl ← from? d 18          -- append(p.data[:14], p.data[18:]...)
    let d' := hd ++ ty ++ tl
    let l2 ← decodeIEEE802 d'
    let rest ← from? d' 14
    pure ({ l2 with vlan := (v0 * 256 + v1) % 4096 }, rest)   -- VLAN id: low 12 bits of the tag (F15 repair)

/-- `decodeEthernet`: the datalink fields and the octets after the Ethernet header -/
def decodeEthernet (d : Bytes) : Res (L2 × Bytes) :=
  if d.length < 14 then .err .ethShort else do
    let l2 ← decodeIEEE802 d
    if l2.etherType = 0x8100 then decodeVlan d
    else do
      let rest ← from? d 14
      pure (l2, rest)

/-- the IPv4 header length in octets from the first octet `b0` (after the F17 repair):
`hlen := int(p.data[0]&0x0f) * 4; if hlen < IPv4HLen { hlen = IPv4HLen }` — the IHL nibble counts
32-bit words, options included; an IHL below 5 is malformed and is treated as 5 -/
def ihlOctets (b0 : Nat) : Nat :=
  if (b0 % 16) * 4 < 20 then 20 else (b0 % 16) * 4

/-- `decodeIPv4Header` (after the F8 repair: flags = top 3 bits of octet 6, offset = the other 13; and
the F17 repair: the header is `ihlOctets` long — a sampled header shorter than that is
`errShortIPv4HeaderLength` — and the transport layer starts after the options, `p.data[hlen:]`) -/
def decodeIPv4 (d : Bytes) : Res (IPv4Hdr × Bytes) :=
  if d.length < 20 then .err .ip4Short else do
    let i0 ← at? d 0             -- p.data[0]&0x0f
    let hlen := ihlOctets i0
    if d.length < hlen then .err .ip4Short else do
      let src ← slice? d 12 16
      let dst ← slice? d 16 20
      let b0 ← at? d 0
      let b1 ← at? d 1
      let b2 ← at? d 2
      let b3 ← at? d 3
      let b4 ← at? d 4
      let b5 ← at? d 5
      let b6 ← at? d 6
      let b7 ← at? d 7
      let b8 ← at? d 8
      let b9 ← at? d 9
      let b10 ← at? d 10
      let b11 ← at? d 11
      let rest ← from? d hlen    -- p.data[hlen:]
      pure ({ version := b0 / 16, tos := b1, totalLen := b2 * 256 + b3, id := b4 * 256 + b5,
              flags := b6 / 32, fragOff := (b6 % 32) * 256 + b7, ttl := b8, protocol := b9,
              checksum := b10 * 256 + b11, src := src, dst := dst }, rest)

/-- `decodeIPv6Header` -/
def decodeIPv6 (d : Bytes) : Res (IPv6Hdr × Bytes) :=
  if d.length < 40 then .err .ip6Short else do
    let src ← slice? d 8 24
    let dst ← slice? d 24 40
    let b0 ← at? d 0
    let b1 ← at? d 1
    let b2 ← at? d 2
    let b3 ← at? d 3
    let b4 ← at? d 4
    let b5 ← at? d 5
    let b6 ← at? d 6
    let b7 ← at? d 7
    let rest ← from? d 40
    pure ({ version := b0 / 16, trafficClass := (b0 % 16) * 16 + b1 / 16,
            flowLabel := (b1 % 16) * 65536 + b2 * 256 + b3, payloadLen := b4 * 256 + b5,
            nextHeader := b6, hopLimit := b7, src := src, dst := dst }, rest)

/-- `decodeICMP` -/
def decodeICMP (b : Bytes) : Res L4 :=
  if b.length < 5 then .err .icmpShort else do
    let t ← at? b 0
    let c ← at? b 1
    let rest ← from? b 4
    pure (.icmp t c rest)

/-- `decodeTCP` (after the F19c repair: `Reserved: int(b[12]>>1) & 0x7`; octet 12 is
data offset (4) | reserved (3) | NS (1), and `Flags` is NS followed by the eight bits of octet 13) -/
def decodeTCP (b : Bytes) : Res L4 :=
  if b.length < 20 then .err .tcpShort else do
    let b0 ← at? b 0
    let b1 ← at? b 1
    let b2 ← at? b 2
    let b3 ← at? b 3
    let b12 ← at? b 12
    let b13 ← at? b 13
    pure (.tcp (b0 * 256 + b1) (b2 * 256 + b3) (b12 / 16) (b12 / 2 % 8) ((b12 * 256 + b13) % 512))

/-- `decodeUDP` -/
def decodeUDP (b : Bytes) : Res L4 :=
  if b.length < 8 then .err .udpShort else do
    let b0 ← at? b 0
    let b1 ← at? b 1
    let b2 ← at? b 2
    let b3 ← at? b 3
    pure (.udp (b0 * 256 + b1) (b2 * 256 + b3))

/-- `decodeNextLayer`: dispatch on the L3 protocol, then `p.data = p.data[len:]` -/
def decodeNext (proto : Nat) (d : Bytes) : Res L4 :=
  if proto = 1 ∨ proto = 58 then do
    let l4 ← decodeICMP d
    let _ ← from? d 4
    pure l4
  else if proto = 6 then do
    let l4 ← decodeTCP d
    let _ ← from? d 20
    pure l4
  else if proto = 17 then do
    let l4 ← decodeUDP d
    let _ ← from? d 8
    pure l4
  else .err .l4Unknown

/-- IPv4 header then next layer -/
def dissectV4 (l2 : L2) (d : Bytes) : Res Pkt := do
  let r ← decodeIPv4 d
  let l4 ← decodeNext r.1.protocol r.2
  pure ⟨l2, .v4 r.1, l4⟩

/-- IPv6 header then next layer -/
def dissectV6 (l2 : L2) (d : Bytes) : Res Pkt := do
  let r ← decodeIPv6 d
  let l4 ← decodeNext r.1.nextHeader r.2
  pure ⟨l2, .v6 r.1, l4⟩

/-- `decodeEthernetHeader` -/
def dissectEth (hdr : Bytes) : Res Pkt := do
  let r ← decodeEthernet hdr
  if r.1.etherType = 0x0800 then dissectV4 r.1 r.2
  else if r.1.etherType = 0x86DD then dissectV6 r.1 r.2
  else .err .etherType

/-- `Packet.Decoder(data, protocol)`; on an error `decodeSampledHeader` returns no packet (and, since the
F19a repair, no error: the raw-header record is left out of the sample) -/
def dissect (hdr : Bytes) (proto : Nat) : Res Pkt :=
  if proto = 1 then dissectEth hdr
  else if proto = 11 then dissectV4 {} hdr
  else if proto = 12 then dissectV6 {} hdr
  else .err .hdrProto

end Vflow.Packet
