import Vflow.Gen.V9IR
import Vflow.Model.V9
/-!
# The translated functions of `netflow/v9/decoder.go`, linked

As `Model/IpfixProg.lean`, for the NetFlow v9 decoder: each definition is the meaning (`Func.sem`, the interpreter of
`Model/IpfixIR.lean`) of one function `go/cmd/factgen/ipfix_ir.go` regenerates on every run (`Vflow.Gen.V9IR`), with
exactly the functions it may call linked in by name.
-/
namespace Vflow.V9Prog
open Vflow Vflow.IpfixIR

def minRecordLen (addr : Bytes) (fuel : Nat) : FnSem := Gen.V9IR.minRecordLen.sem addr [] fuel
def decodeData (addr : Bytes) (fuel : Nat) : FnSem := Gen.V9IR.decodeData.sem addr [] fuel
def fieldSpecUnmarshal (addr : Bytes) (fuel : Nat) : FnSem := Gen.V9IR.fieldSpecUnmarshal.sem addr [] fuel
def tplHeaderUnmarshal (addr : Bytes) (fuel : Nat) : FnSem := Gen.V9IR.tplHeaderUnmarshal.sem addr [] fuel
def tplHeaderUnmarshalOpts (addr : Bytes) (fuel : Nat) : FnSem := Gen.V9IR.tplHeaderUnmarshalOpts.sem addr [] fuel
def tplRecordUnmarshal (addr : Bytes) (fuel : Nat) : FnSem :=
  Gen.V9IR.tplRecordUnmarshal.sem addr
    [("tplHeaderUnmarshal", tplHeaderUnmarshal addr fuel), ("fieldSpecUnmarshal", fieldSpecUnmarshal addr fuel)] fuel
def tplRecordUnmarshalOpts (addr : Bytes) (fuel : Nat) : FnSem :=
  Gen.V9IR.tplRecordUnmarshalOpts.sem addr
    [("tplHeaderUnmarshalOpts", tplHeaderUnmarshalOpts addr fuel), ("fieldSpecUnmarshal", fieldSpecUnmarshal addr fuel)] fuel
def setHeaderUnmarshal (addr : Bytes) (fuel : Nat) : FnSem := Gen.V9IR.setHeaderUnmarshal.sem addr [] fuel
def pktHeaderUnmarshal (addr : Bytes) (fuel : Nat) : FnSem := Gen.V9IR.pktHeaderUnmarshal.sem addr [] fuel
def pktHeaderValidate (addr : Bytes) (fuel : Nat) : FnSem := Gen.V9IR.pktHeaderValidate.sem addr [] fuel
def decodeSet (addr : Bytes) (fuel : Nat) : FnSem :=
  Gen.V9IR.decodeSet.sem addr
    [("setHeaderUnmarshal", setHeaderUnmarshal addr fuel), ("minRecordLen", minRecordLen addr fuel),
     ("tplRecordUnmarshal", tplRecordUnmarshal addr fuel), ("tplRecordUnmarshalOpts", tplRecordUnmarshalOpts addr fuel),
     ("decodeData", decodeData addr fuel)] fuel
def decode (addr : Bytes) (fuel : Nat) : FnSem :=
  Gen.V9IR.decode.sem addr
    [("pktHeaderUnmarshal", pktHeaderUnmarshal addr fuel), ("pktHeaderValidate", pktHeaderValidate addr fuel),
     ("decodeSet", decodeSet addr fuel)] fuel

/-! ## how the model's results read as Go result lists -/

/-- Go's `err` slot: `nil`, or the error — wrapped in `nonfatalError{…}` exactly for the classes of `Err.nonfatal` -/
def errV : Option Err → V
  | none => .nil
  | some e => .err ⟨e.nonfatal, e⟩

/-- `([]DecodedField, error)` of `decodeData` -/
def recResult : Except Err Record → List V
  | .ok fs => [.drec fs, .nil]
  | .error e => [.nil, .err ⟨e.nonfatal, e⟩]

/-- `(*Message, error)` of `Decode` -/
def decodeResult (addr : Bytes) : V9.Result → List V
  | .ok (h, recs, errs) => [.msg9 addr (PHdr.ofHdr h) recs, .errs (errs.map fun e => ⟨true, e⟩)]
  | .error e => [.nil, .err ⟨false, e⟩]

end Vflow.V9Prog
