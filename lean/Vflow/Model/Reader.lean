import Vflow.Model.Base
/-!
# Model of `reader/reader.go`

`Rd` mirrors `reader.Reader` (`data` = the remaining octets, `count` = octets consumed).
`Read`/`Peek` take a Go `int`, so the model takes `n : Int`.  A failing operation
returns the state unchanged.  (After the F1 repair a negative length is a failed read;
before it the Go code panicked in `r.data[:n]`.)
-/
namespace Vflow

structure Rd where
  rem : Bytes
  cnt : Nat
deriving DecidableEq, Repr

/-- the eight public operations of `reader.Reader` (+ `Len`) -/
inductive ROp where
  | u8 | u16 | u32 | u64
  | read (n : Int) | peek (n : Int) | peekU16 | len | readCount
deriving Repr, DecidableEq

inductive ROut where
  | fail
  | bytes (b : Bytes)
  | num (n : Nat)
deriving DecidableEq, Repr

/-- the guard `len(r.data) < n` (and, since the F1 repair, `n < 0`) followed by `r.data[:n]` -/
def Rd.take? (r : Rd) (n : Int) : Option Bytes :=
  if n < 0 then none else if r.rem.length < n.toNat then none else some (r.rem.take n.toNat)

/-- `advance` -/
def Rd.adv (r : Rd) (k : Nat) : Rd := ⟨r.rem.drop k, r.cnt + k⟩

def Rd.step (r : Rd) : ROp → Rd × ROut
  | .u8 => match r.take? 1 with | some b => (r.adv 1, .num (beN b)) | none => (r, .fail)
  | .u16 => match r.take? 2 with | some b => (r.adv 2, .num (beN b)) | none => (r, .fail)
  | .u32 => match r.take? 4 with | some b => (r.adv 4, .num (beN b)) | none => (r, .fail)
  | .u64 => match r.take? 8 with | some b => (r.adv 8, .num (beN b)) | none => (r, .fail)
  | .read n => match r.take? n with | some b => (r.adv n.toNat, .bytes b) | none => (r, .fail)
  | .peek n => match r.take? n with | some b => (r, .bytes b) | none => (r, .fail)
  | .peekU16 => match r.take? 2 with | some b => (r, .num (beN b)) | none => (r, .fail)
  | .len => (r, .num r.rem.length)
  | .readCount => (r, .num r.cnt)

/-- state after a sequence of operations -/
def Rd.run (r : Rd) : List ROp → Rd
  | [] => r
  | o :: os => Rd.run (r.step o).1 os

/-- outputs of a sequence of operations -/
def Rd.outs (r : Rd) : List ROp → List ROut
  | [] => []
  | o :: os => (r.step o).2 :: Rd.outs (r.step o).1 os

/-! ## The `Nat`-indexed forms the decoders use (`Read(int(x))` with `x` unsigned) -/

def Rd.readN (r : Rd) (n : Nat) : Option (Bytes × Rd) :=
  if r.rem.length < n then none else some (r.rem.take n, ⟨r.rem.drop n, r.cnt + n⟩)
def Rd.rU8 (r : Rd) : Option (Nat × Rd) := (r.readN 1).map fun (b, r') => (beN b, r')
def Rd.rU16 (r : Rd) : Option (Nat × Rd) := (r.readN 2).map fun (b, r') => (beN b, r')
def Rd.rU32 (r : Rd) : Option (Nat × Rd) := (r.readN 4).map fun (b, r') => (beN b, r')
def Rd.rU64 (r : Rd) : Option (Nat × Rd) := (r.readN 8).map fun (b, r') => (beN b, r')
def Rd.peek16 (r : Rd) : Option Nat := (r.readN 2).map fun (b, _) => beN b

end Vflow
