import Vflow.Model.ProducerIR
/-!
# The kafka (sarama) send loop (`producer/sarama.go`, `KafkaSarama.inputMsg`) against an arm script

```
for {
    msg, ok = <-mCh
    if !ok { break }
offer:
    for {
        select {
        case k.producer.Input() <- &sarama.ProducerMessage{Topic: topic, Value: sarama.ByteEncoder(msg)}:
            break offer
        case err := <-k.producer.Errors():
            k.logger.Println(err)
            *ec++
        }
    }
}
```

The model does not transcribe this text: it *interprets* the loop description `KLoop` that `factgen`
regenerates from the source (`Vflow.Gen.saramaLoop`), so the same definitions give a meaning to the
loop as it was before the F20 repair (`saramaLoopBeforeF20`: one `select` per message, the error arm
leaves it too) — where the property is false.

The client library and the Go scheduler are an *arm script*: the `j`-th `select` the loop executes
takes the arm `sc[j]` (`input` = the library accepted the value sent on `Input()`, `error` = an error
report was received from `Errors()`). Which arm can be taken is the library's (and, when both are
ready, the scheduler's) choice; the theorems hold for every script. A script that ends is a run
observed up to that point. Core Lean only.
-/
namespace Vflow
namespace Producer

/-- the arm of the `select` that is taken -/
inductive Arm where | input | error
deriving DecidableEq, Repr

/-- where control goes after the body of an arm -/
inductive After where
  /-- on to `msg, ok = <-mCh`: the message in hand is done with -/
  | next
  /-- the `select` is executed again with the same message in hand -/
  | same
  /-- the description gives no meaning -/
  | undefined
deriving DecidableEq, Repr

/-- Go's control flow for the end of an arm: without an enclosing labelled loop, falling out of the
    `select` reaches the end of the receive loop's body; inside `label: for { select … }` it reaches
    the end of that loop's body, which repeats the `select`, and `break label` leaves it -/
def armAfter (loopLabel : Option String) (a : KArm) : After :=
  if !a.junk.isEmpty then .undefined else
  match loopLabel, a.exit with
  | none, .fallOut => .next
  | some _, .fallOut => .same
  | some l, .breakLabel l' => if l = l' then .next else .undefined
  | _, _ => .undefined

/-- the body of the arm taken and where control goes after it; `none`: the description is not one
    the model gives a meaning to -/
def KLoop.step (lp : KLoop) (a : Arm) : Option (KArm × After) :=
  if !lp.recvFirst || !lp.extra.isEmpty then none else
  match lp.offer with
  | .selectOnce i e => let b := if a = .input then i else e; some (b, armAfter none b)
  | .selectLoop l i e => let b := if a = .input then i else e; some (b, armAfter (some l) b)
  | .unrecognised _ => none

/-- what a run has done -/
structure KRun (α : Type) where
  /-- the values sent on `Input()` and accepted by the library, oldest first -/
  offered : List α := []
  /-- `MQErrorCount` -/
  ec : Nat := 0
  /-- error reports logged -/
  logged : Nat := 0
  /-- `select`s executed (script entries consumed) -/
  steps : Nat := 0
  /-- the run reached something the model gives no meaning to -/
  stuck : Bool := false
deriving Repr, DecidableEq

/-- the loop `lp` run on the handed-over messages `ms` against the arm script `sc`. The messages are
    of any type: the loop never looks inside one. -/
def runK {α : Type} (lp : KLoop) : List Arm → List α → KRun α
  | [], _ => {}
  | _ :: _, [] => {}
  | a :: sc, m :: ms =>
    match lp.step a with
    | none => { stuck := true }
    | some (b, aft) =>
      let rest : KRun α :=
        match aft with
        | .next => runK lp sc ms
        | .same => runK lp sc (m :: ms)
        | .undefined => { stuck := true }
      { offered := (if a = .input then [m] else []) ++ rest.offered,
        ec := b.incs + rest.ec,
        logged := b.logs + rest.logged,
        steps := rest.steps + 1,
        stuck := rest.stuck }

/-- number of `select`s of the script in which the library accepts an input -/
def inputArms (sc : List Arm) : Nat := sc.countP (· = .input)

/-- number of `select`s of the script in which an error report is taken -/
def errorArms (sc : List Arm) : Nat := sc.countP (· = .error)

/-- **the loop retries until accepted**: the input arm moves on to the next message and neither logs
    nor counts; the error arm logs once, counts once and repeats the `select` with the same message -/
def KLoop.retriesUntilAccepted (lp : KLoop) : Prop :=
  (∃ b, lp.step .input = some (b, .next) ∧ b.incs = 0 ∧ b.logs = 0) ∧
  (∃ b, lp.step .error = some (b, .same) ∧ b.incs = 1 ∧ b.logs = 1)

end Producer
end Vflow
