import Vflow.Model.Flow
/-!
# Model of `netflow/v9/decoder.go` (as it is after the F2, F4 and the padding repairs)

Differences from IPFIX: no enterprise numbers, no variable-length fields, option template lengths in
octets (`/4`), the field is read *before* the element is looked up, `Int` length arithmetic, the
record loop never returns directly (every error is followed by the skip of the rest of the flowset),
template flowset ids are 0 and 1.
-/
namespace Vflow.V9
open Vflow

/-- `TemplateFieldSpecifier.unmarshal` -/
def readSpec (r : Rd) : Except Err Spec × Rd :=
  match r.rU16 with
  | none => (.error .short, r)
  | some (id, r1) =>
    match r1.rU16 with
    | none => (.error .short, r1)
    | some (len, r2) => (.ok ⟨id, len, 0⟩, r2)

def readSpecs : Nat → Rd → List Spec → (Except Err (List Spec) × Rd)
  | 0, r, acc => (.ok acc, r)
  | n+1, r, acc =>
    match readSpec r with
    | (.error e, r') => (.error e, r')
    | (.ok s, r') => readSpecs n r' (acc ++ [s])

/-- `TemplateRecord.unmarshal` -/
def parseTpl (r : Rd) : Except Err Template × Rd :=
  match r.rU16 with
  | none => (.error .short, r)
  | some (tid, r1) =>
    match r1.rU16 with
    | none => (.error .short, r1)
    | some (n, r2) =>
      match readSpecs n r2 [] with
      | (.ok fs, r3) => (.ok ⟨tid, n, 0, [], fs⟩, r3)
      | (.error e, r3) => (.error e, r3)

/-- `TemplateRecord.unmarshalOpts` (scope / option lengths in octets; FieldCount stays 0) -/
def parseOptTpl (r : Rd) : Except Err Template × Rd :=
  match r.rU16 with
  | none => (.error .short, r)
  | some (tid, r1) =>
    match r1.rU16 with
    | none => (.error .short, r1)
    | some (sl, r2) =>
      match r2.rU16 with
      | none => (.error .short, r2)
      | some (ol, r3) =>
        match readSpecs (sl / 4) r3 [] with
        | (.error e, r4) => (.error e, r4)
        | (.ok scs, r4) =>
          match readSpecs (ol / 4) r4 [] with
          | (.error e, r5) => (.error e, r5)
          | (.ok fs, r5) => (.ok ⟨tid, 0, 0, scs, fs⟩, r5)

/-- the two field loops of `decodeData`: read, then look the element up -/
def decFields : List Spec → Rd → Record → (Except Err Record × Rd)
  | [], r, acc => (.ok acc, r)
  | f :: fs, r, acc =>
    match r.readN f.len with
    | none => (.error .short, r)
    | some (b, r1) =>
      match lookupElem 0 f.id with
      | none => (.error .unknownElem, r1)
      | some (fid, t) => decFields fs r1 (acc ++ [⟨fid, 0, interpret b t⟩])

def decodeData (tr : Template) (r : Rd) : Except Err Record × Rd :=
  decFields (tr.scope ++ tr.fields) r []

structure St where
  r : Rd
  cache : Cache
  recs : List Record

structure Ctx where
  addr : Bytes
  setId : Nat
  len : Nat
  start : Nat
  tr : Template

/-- `int(setHeader.Length) - (ReadCount() - startCount)` -/
def leftInt (ctx : Ctx) (r : Rd) : Int := (ctx.len : Int) - ((r.cnt : Int) - (ctx.start : Int))

/-- `TemplateRecord.minRecordLen` (padding repair): the length of the data records the template
describes (scope specifiers, then field specifiers), at least 1 -/
def minRecLen (tr : Template) : Nat :=
  let n := ((tr.scope ++ tr.fields).map (·.len)).sum
  if n < 1 then 1 else n

/-- `minLen` of `decodeSet`: what is left of a flowset and is shorter than this is padding — 5 octets
(the former `> 4`) for template flowsets and ids ≤ 255, the template's record length for data flowsets -/
def minLeft (ctx : Ctx) : Nat := if ctx.setId > 255 then minRecLen ctx.tr else 5

def contCond (ctx : Ctx) (r : Rd) : Bool :=
  decide (leftInt ctx r ≥ (minLeft ctx : Int)) && decide (r.rem.length ≥ minLeft ctx)

/-- the record loop of `decodeSet`; result: state and Go's `err` slot -/
def setLoop (ctx : Ctx) : Nat → St → (St × Option Err)
  | 0, st => (st, some .fuel)
  | fuel+1, st =>
    if contCond ctx st.r then
      if ctx.setId = 0 ∨ ctx.setId = 1 then
        match (if ctx.setId = 0 then parseTpl st.r else parseOptTpl st.r) with
        | (.ok t, r') => setLoop ctx fuel { st with r := r', cache := st.cache.insert ctx.addr t.tid t }
        | (.error e, r') => ({ st with r := r' }, some e)
      else if 4 ≤ ctx.setId ∧ ctx.setId ≤ 255 then (st, none)
      else
        match decodeData ctx.tr st.r with
        | (.ok fs, r') =>
          -- F2 repair: a record that consumed no octets ends the flowset with a non-fatal error
          if r'.cnt = st.r.cnt then ({ st with r := r' }, some .zeroRec)
          else setLoop ctx fuel { st with r := r', recs := st.recs ++ [fs] }
        | (.error e, r') => ({ st with r := r' }, some e)
    else (st, none)

def emptyTpl : Template := ⟨0, 0, 0, [], []⟩

/-- the leftover skip at the end of `decodeSet`; `fuel` is sticky -/
def skipRest (ctx : Ctx) (st1 : St) (e1 : Option Err) : St × Option Err :=
  if e1 = some .fuel then (st1, e1) else
  let leftover := leftInt ctx st1.r
  if leftover > 0 then
    match st1.r.readN leftover.toNat with
    | none => (st1, some .short)
    | some (_, r') => ({ st1 with r := r' }, e1)
  else (st1, e1)

def lookupTpl (c : Cache) (addr : Bytes) (sid : Nat) : Option Template × Option Err :=
  if sid > 255 then
    match c.lookup addr sid with
    | some t => (some t, none)
    | none => (none, some .unknownTpl)
  else (none, none)

def setBody (addr : Bytes) (sid len start fuel : Nat) (st : St) : St × Option Err :=
  let look := lookupTpl st.cache addr sid
  let ctx : Ctx := ⟨addr, sid, len, start, look.1.getD emptyTpl⟩
  match look.2 with
  | some e => skipRest ctx st (some e)
  | none =>
    let res := setLoop ctx fuel st
    skipRest ctx res.1 res.2

def decodeSet (addr : Bytes) (fuel : Nat) (st : St) : St × Option Err :=
  match st.r.rU16 with
  | none => (st, some .short)
  | some (sid, r1) =>
    match r1.rU16 with
    | none => ({ st with r := r1 }, some .short)
    | some (len, r2) =>
      if len < 4 then ({ st with r := r2 }, some .badSetLen)
      else setBody addr sid len st.r.cnt fuel { st with r := r2 }

def outer (addr : Bytes) : Nat → St → List Err → (St × Option Err × List Err)
  | 0, st, errs => (st, some .fuel, errs)
  | fuel+1, st, errs =>
    if st.r.rem.length > 4 then
      match decodeSet addr (st.r.rem.length + 1) st with
      | (st', none) => outer addr fuel st' errs
      | (st', some e) => if e.nonfatal then outer addr fuel st' (errs ++ [e]) else (st', some e, errs)
    else (st, none, errs)

/-- `PacketHeader.unmarshal`: Version, Count, SysUpTime, UNIXSecs, SeqNum, SrcID -/
def readHeader (r : Rd) : Option (Hdr × Rd) :=
  match r.rU16 with
  | none => none
  | some (ver, r1) =>
  match r1.rU16 with
  | none => none
  | some (cnt, r2) =>
  match r2.rU32 with
  | none => none
  | some (up, r3) =>
  match r3.rU32 with
  | none => none
  | some (secs, r4) =>
  match r4.rU32 with
  | none => none
  | some (sq, r5) =>
  match r5.rU32 with
  | none => none
  | some (src, r6) => some ([ver, cnt, up, secs, sq, src], r6)

abbrev Result := Except Err (Hdr × List Record × List Err)

def decode (c : Cache) (addr : Bytes) (bs : Bytes) : Result × Cache :=
  match readHeader ⟨bs, 0⟩ with
  | none => (.error .short, c)
  | some (h, r6) =>
    if h.headD 0 ≠ 9 then (.error .badVersion, c) else
    match outer addr (bs.length + 1) ⟨r6, c, []⟩ [] with
    | (st, some e, _) => (.error e, st.cache)
    | (st, none, errs) => (.ok (h, st.recs, errs), st.cache)

def recordsOf (x : Result) : List Record :=
  match x with
  | .ok (_, recs, _) => recs
  | .error _ => []

end Vflow.V9
