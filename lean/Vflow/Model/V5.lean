import Vflow.Model.Reader
import Vflow.Model.IpText
import Vflow.Model.JsonW
import Vflow.Gen.Layouts
import Vflow.Gen.JsonWrites
/-!
# Model of `netflow/v5/decoder.go` and `netflow/v5/marshal.go`

The two `unmarshal` functions are plain read chains; the model *instantiates a generic field reader
with the layouts regenerated from the source* (`Vflow.Gen.Layouts.v5Header/v5Record`), and the JSON
encoder *interprets the write programs regenerated from the source* (`Vflow.Gen.JsonWrites`).
The property theorems are proved for the specification layouts/programs (Cisco's v5 format), and
`Props/C08.lean` carries the obligations `Gen.… = Spec.…`.
-/
namespace Vflow.V5
open Vflow

/-- read big-endian fields of the given widths, in order (`if x.F, err = r.UintN(); err != nil { return err }` …) -/
def readFields : List Nat → Rd → Option (List Nat × Rd)
  | [], r => some ([], r)
  | w :: ws, r =>
    match r.readN w with
    | none => none
    | some (b, r') =>
      match readFields ws r' with
      | none => none
      | some (vs, r'') => some (beN b :: vs, r'')

def widths (l : List (String × Nat)) : List Nat := l.map (·.2)

/-- value of the i-th field (in read order) of a decoded structure -/
def fieldAt (vals : List Nat) (i : Nat) : Nat := vals.getD i 0

inductive V5Err where
  | short | badVersion | badCount | shortFlows
deriving Repr, DecidableEq

def V5Err.name : V5Err → String
  | .short => "short" | .badVersion => "badver" | .badCount => "badcount" | .shortFlows => "shortflows"

/-- the loop of `decodeFlows`: stops at the first record that cannot be read, keeping the earlier ones -/
def readFlows (rec : List Nat) : Nat → Rd → List (List Nat) → (List (List Nat) × Bool)
  | 0, _, acc => (acc, true)
  | n+1, r, acc =>
    match readFields rec r with
    | none => (acc, false)
    | some (f, r') => readFlows rec n r' (acc ++ [f])

/-- a decoded message: header values and flows.  (Until the F29 repair the model carried a third component, the
error `Decode` returned TOGETHER with the message: `type nonfatalError error` made the type switch in `Decode`
match every error.  `nonfatalError` is now a struct type that nothing constructs: every error is fatal.) -/
structure Msg where
  hdr : List Nat
  flows : List (List Nat)
deriving Repr, DecidableEq

/-- `Decoder.Decode`, generic in the two layouts: `error e` = `(nil, err)`, `ok m` = `(msg, nil)` — a message and
an error are never returned together (F29 repair: a packet that carries fewer octets than its header announces
is rejected as a whole) -/
def decodeWith (hl rl : List (String × Nat)) (bs : Bytes) : Except V5Err Msg :=
  match readFields (widths hl) ⟨bs, 0⟩ with
  | none => .error .short
  | some (h, r) =>
    let ver := fieldAt h 0    -- Version (position checked against the generated layout in Props.C08)
    let cnt := fieldAt h 1    -- Count
    if ver ≠ 5 then .error .badVersion else
    if cnt < 1 ∨ cnt > 30 then .error .badCount else
    if cnt * 48 > r.rem.length then .error .shortFlows else
    match readFlows (widths rl) cnt r [] with
    | (fs, true) => .ok ⟨h, fs⟩
    | (_, false) => .error .short

/-- the decoder of the current source -/
def decode (bs : Bytes) : Except V5Err Msg :=
  decodeWith Gen.Layouts.v5Header Gen.Layouts.v5Record bs

/-! ## JSONMarshal -/

/-- run a write program against a structure given by its values in read order -/
def runWrites (agent : Bytes) (vals : List Nat) : List W → Bytes
  | [] => []
  | .lit b :: ws => b ++ runWrites agent vals ws
  | .num i :: ws => natDigits (fieldAt vals i) ++ runWrites agent vals ws
  | .ip i :: ws => ip4Bytes (encBE 4 (fieldAt vals i)) ++ runWrites agent vals ws
  | .agent :: ws => agent ++ runWrites agent vals ws
  | .unrecognised _ :: ws => runWrites agent vals ws

/-- `encodeFlows`: `{` flow `}` joined by commas -/
def flowsJson (agent : Bytes) (prog : List W) : List (List Nat) → Bytes
  | [] => []
  | [f] => [123] ++ runWrites agent f prog ++ [125]
  | f :: fs => [123] ++ runWrites agent f prog ++ [125, 44] ++ flowsJson agent prog fs

/-- `"Flows":` -/
def flowsKey : Bytes := [34, 70, 108, 111, 119, 115, 34, 58]

/-- `Message.JSONMarshal`, generic in the write programs -/
def marshalWith (pa ph pf : List W) (agent : Bytes) (m : Msg) : Bytes :=
  [123] ++ runWrites agent m.hdr pa ++ runWrites agent m.hdr ph ++
    flowsKey ++ [91] ++ flowsJson agent pf m.flows ++ [93] ++ [125]

def marshal (agent : Bytes) (m : Msg) : Bytes :=
  marshalWith Gen.JsonWrites.v5Agent Gen.JsonWrites.v5Header Gen.JsonWrites.v5Flow agent m

end Vflow.V5
