import Vflow.Model.Reader
import Vflow.Model.IpText
import Vflow.Model.JsonW
import Vflow.Gen.Layouts
import Vflow.Gen.JsonWrites
/-!
# Model of `netflow/v5/decoder.go` and `netflow/v5/marshal.go`

The two `unmarshal` functions are plain read chains; the model *instantiates a generic field reader
with the layouts regenerated from the source* (`Vflow.Gen.Layouts.v5Header/v5Record`), and the JSON
encoder *interprets the write programs regenerated from the source* (`Vflow.Gen.JsonWrites`).
The property theorems are proved for the specification layouts/programs (Cisco's v5 format), and
`Props/C08.lean` carries the obligations `Gen.… = Spec.…`.
-/
namespace Vflow.V5
open Vflow

/-- read big-endian fields of the given widths, in order (`if x.F, err = r.UintN(); err != nil { return err }` …) -/
def readFields : List Nat → Rd → Option (List Nat × Rd)
  | [], r => some ([], r)
  | w :: ws, r =>
    match r.readN w with
    | none => none
    | some (b, r') =>
      match readFields ws r' with
      | none => none
      | some (vs, r'') => some (beN b :: vs, r'')

def widths (l : List (String × Nat)) : List Nat := l.map (·.2)

/-- value of a named field of a decoded structure (0 if the name is not in the layout, like a Go zero value) -/
def fieldVal (layout : List (String × Nat)) (vals : List Nat) (name : String) : Nat :=
  match layout, vals with
  | (n, _) :: ls, v :: vs => if n = name then v else fieldVal ls vs name
  | _, _ => 0

inductive V5Err where
  | short | badVersion | badCount | shortFlows
deriving Repr, DecidableEq

def V5Err.name : V5Err → String
  | .short => "short" | .badVersion => "badver" | .badCount => "badcount" | .shortFlows => "shortflows"

/-- the loop of `decodeFlows`: stops at the first record that cannot be read, keeping the earlier ones -/
def readFlows (rec : List Nat) : Nat → Rd → List (List Nat) → (List (List Nat) × Bool)
  | 0, _, acc => (acc, true)
  | n+1, r, acc =>
    match readFields rec r with
    | none => (acc, false)
    | some (f, r') => readFlows rec n r' (acc ++ [f])

/-- a decoded message: header values, flows, and the (non-fatal, by `type nonfatalError error`) error slot -/
structure Msg where
  hdr : List Nat
  flows : List (List Nat)
  err : Option V5Err
deriving Repr, DecidableEq

/-- `Decoder.Decode`, generic in the two layouts -/
def decodeWith (hl rl : List (String × Nat)) (bs : Bytes) : Except V5Err Msg :=
  match readFields (widths hl) ⟨bs, 0⟩ with
  | none => .error .short
  | some (h, r) =>
    let ver := fieldVal hl h "Version"
    let cnt := fieldVal hl h "Count"
    if ver ≠ 5 then .error .badVersion else
    if cnt < 1 ∨ cnt > 30 then .error .badCount else
    if cnt * 48 > r.rem.length then .ok ⟨h, [], some .shortFlows⟩ else
    match readFlows (widths rl) cnt r [] with
    | (fs, true) => .ok ⟨h, fs, none⟩
    | (fs, false) => .ok ⟨h, fs, some .short⟩

/-- the decoder of the current source -/
def decode (bs : Bytes) : Except V5Err Msg :=
  decodeWith Gen.Layouts.v5Header Gen.Layouts.v5Record bs

/-! ## JSONMarshal -/

/-- run a write program against a structure given by its layout and values -/
def runWrites (agent : String) (layout : List (String × Nat)) (vals : List Nat) : List W → Bytes
  | [] => []
  | .lit s :: ws => str s ++ runWrites agent layout vals ws
  | .num f :: ws => str (natToDec (fieldVal layout vals f)) ++ runWrites agent layout vals ws
  | .ip f :: ws => str (ip4String (encBE 4 (fieldVal layout vals f))) ++ runWrites agent layout vals ws
  | .agent :: ws => str agent ++ runWrites agent layout vals ws
  | .unrecognised _ :: ws => runWrites agent layout vals ws

/-- `encodeFlows`: `{` flow `}` joined by commas inside `"Flows":[ … ]` -/
def flowsJson (agent : String) (rl : List (String × Nat)) (prog : List W) : List (List Nat) → Bytes
  | [] => []
  | [f] => str "{" ++ runWrites agent rl f prog ++ str "}"
  | f :: fs => str "{" ++ runWrites agent rl f prog ++ str "}," ++ flowsJson agent rl prog fs

/-- `Message.JSONMarshal`, generic in layouts and write programs -/
def marshalWith (hl rl : List (String × Nat)) (pa ph pf : List W) (agent : String) (m : Msg) : Bytes :=
  str "{" ++ runWrites agent hl m.hdr pa ++ runWrites agent hl m.hdr ph ++
    str "\"Flows\":[" ++ flowsJson agent rl pf m.flows ++ str "]" ++ str "}"

def marshal (agent : String) (m : Msg) : Bytes :=
  marshalWith Gen.Layouts.v5Header Gen.Layouts.v5Record
    Gen.JsonWrites.v5Agent Gen.JsonWrites.v5Header Gen.JsonWrites.v5Flow agent m

end Vflow.V5
