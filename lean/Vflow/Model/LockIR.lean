import Vflow.Model.Locks
/-!
# Lock regions as extracted from the Go source, and their instantiation as thread programs

`factgen` (`go/cmd/factgen/lock_regions.go`) emits, for each function that touches
`.Templates`, a `Region`: the sequence of mutex calls and map accesses in source order, on the
function's own shard variable (`once`) or inside `for _, shard := range m { … }` (`each`).
Whatever it does not recognise becomes `.unrecognised`, for which `expandS` yields `none`, which
no obligation accepts. Core Lean only.
-/
namespace Vflow
namespace Locks

inductive LOp where
  | lock | rlock | unlock | runlock       -- shard.Lock() …
  | deferUnlock | deferRUnlock            -- defer shard.Unlock() …
  | read                                  -- v, ok := shard.Templates[key]
  | write                                 -- shard.Templates[key] = …
  | iter                                  -- for … := range shard.Templates
  | len                                   -- len(shard.Templates)
  | marshalAll                            -- json.Marshal of the whole cache: iterates every shard's map
  | call (fn : String)                    -- a call of another cache method (insert / retrieve / Dump)
  | unrecognised (go : String)
deriving DecidableEq, Repr

inductive Seg where
  | once (ops : List LOp)
  | each (ops : List LOp)
deriving DecidableEq, Repr

abbrev Region := List Seg

/-- actions without key and value (the lock discipline does not depend on them) -/
inductive Sh where
  | lock (s : Nat) | unlock (s : Nat) | rlock (s : Nat) | runlock (s : Nat)
  | read (s : Nat) | write (s : Nat) | iter (s : Nat)
deriving DecidableEq, Repr

def fill (k : Nat) (v : Val) : Sh → Act
  | .lock s => .lock s | .unlock s => .unlock s | .rlock s => .rlock s | .runlock s => .runlock s
  | .read s => .rd s k | .write s => .wr s k v | .iter s => .iter s

/-- one source operation on shard `s` of an `n`-shard cache: (actions now, actions deferred) -/
def opSh (n s : Nat) : LOp → Option (List Sh × List Sh)
  | .lock => some ([.lock s], [])
  | .rlock => some ([.rlock s], [])
  | .unlock => some ([.unlock s], [])
  | .runlock => some ([.runlock s], [])
  | .deferUnlock => some ([], [.unlock s])
  | .deferRUnlock => some ([], [.runlock s])
  | .read => some ([.read s], [])
  | .write => some ([.write s], [])
  | .iter => some ([.iter s], [])
  | .len => some ([.iter s], [])
  | .marshalAll => some ((List.range n).map .iter, [])
  | .call _ => none
  | .unrecognised _ => none

/-- run the operations in order; deferred actions are stacked (last deferred runs first) -/
def opsSh (n s : Nat) : List LOp → List Sh × List Sh → Option (List Sh × List Sh)
  | [], acc => some acc
  | o :: os, acc =>
    match opSh n s o with
    | none => none
    | some (now, dfr) => opsSh n s os (acc.1 ++ now, dfr ++ acc.2)

def eachSh (n : Nat) (ops : List LOp) : List Nat → List Sh × List Sh → Option (List Sh × List Sh)
  | [], acc => some acc
  | j :: js, acc =>
    match opsSh n j ops acc with
    | none => none
    | some acc' => eachSh n ops js acc'

def segsSh (n s : Nat) : Region → List Sh × List Sh → Option (List Sh × List Sh)
  | [], acc => some acc
  | .once ops :: r, acc =>
    match opsSh n s ops acc with
    | none => none
    | some acc' => segsSh n s r acc'
  | .each ops :: r, acc =>
    match eachSh n ops (List.range n) acc with
    | none => none
    | some acc' => segsSh n s r acc'

/-- the function's action sequence when its shard variable is shard `s` of `n`:
    the body, then the deferred calls -/
def expandS (n s : Nat) (r : Region) : Option (List Sh) :=
  (segsSh n s r ([], [])).map fun acc => acc.1 ++ acc.2

/-- the thread program of one call: region `r` on shard `s`, key `k`, value `v` -/
def progOf (n s k : Nat) (v : Val) (r : Region) : Option (List Act) :=
  (expandS n s r).map (·.map (fill k v))

/-- the obligation on a generated region: for every shard it may be called on, the program is
    well bracketed -/
def wbRegion (n : Nat) (r : Region) : Bool :=
  (List.range n).all fun s =>
    match progOf n s 0 0 r with
    | some p => wb ⟨[], []⟩ p
    | none => false

/-- two-phase shape: all lock acquisitions first, then only reads, iterations and releases -/
def twoPhase (p : List Act) : Bool := (p.dropWhile isAcq).all quiet

def twoPhaseRegion (n : Nat) (r : Region) : Bool :=
  (List.range n).all fun s =>
    match progOf n s 0 0 r with
    | some p => twoPhase p
    | none => false

/-- the repaired `Dump`: read-lock every shard in order, iterate every shard, release -/
def dumpShape (n : Nat) : List Sh :=
  (List.range n).map .rlock ++ ((List.range n).map .iter ++ (List.range n).map .runlock)

def dumpProg (n : Nat) : List Act :=
  (List.range n).map .rlock ++ ((List.range n).map .iter ++ (List.range n).map .runlock)

/-- the region expands to `dumpShape` whatever shard it is "called on" -/
def isDumpRegion (n : Nat) (r : Region) : Bool :=
  (List.range n).all fun s => expandS n s r == some (dumpShape n)

end Locks
end Vflow
