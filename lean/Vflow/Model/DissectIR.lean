import Vflow.Model.Sflow
/-!
# The extraction IR: what `factgen` translates the field expressions of `packet/*.go` and the
fixed-layout readers of `sflow/*.go` into

`go/cmd/factgen/dissect_ir.go` walks the composite literals / assignments in which the dissector builds its
header structs and translates every right-hand side into an `Expr`; `go/cmd/factgen/sflow_layouts.go` translates
the read chains of the sFlow decoder into `Row`s (whose lengths and assigned values are `Expr`s again).  This file
gives both a meaning: `Expr.eval` / `Expr.octets` (total) and `run` (the interpreter of a row list over the
`bytes.Reader` state of `Model/Sflow.lean`).  `Proofs/DissectTie.lean` and `Proofs/SflowTie.lean` prove the
hand-written models equal to the meaning of the REGENERATED terms, for every input.

Go semantics transcribed here (the trusted part of the translation):
* `b[i]` is octet `i` as a number.  **An octet beyond the end is 0** (`Packet.oct`, as in the closed forms of
  the model); in Go it is a panic, which the length guards exclude — the guards are regenerated too, and the
  panic-freedom of the model under them is C01.
* arithmetic in an unsigned Go type of `w` bits wraps: the translator wraps every `<<`, `+`, `*` at such a type in
  `wrap w`, renders `-` as `subw w`, and a narrowing conversion `uintW(e)` as `wrap w e`.  `subw w a b` is
  `a - b` when `b ≤ a` and `a + 2^w - b` otherwise: the difference modulo `2^w` of two values of the type (its
  operands are values of that type, `< 2^w`, by the translator's typing).  It is written with a comparison rather
  than as `(a + 2^w - b) % 2^w` because the Lean kernel evaluates the latter in unary when it meets it in the
  discriminant of a `match` (minutes for `w = 32`).  `int` (64 bits, signed) is
  not wrapped: the translator computes an upper bound of every `int`-typed subterm and emits `unrecognised` when
  it does not stay below 2^63 (and for every `int` subtraction).
* `>>`, `&`, `|` cannot overflow.  `%` by zero is a Go panic; here `Nat`'s `a % 0 = a`.
* `ite op a b t e` stands for `if a op b { t } else { e }`; the translator uses it for `x := e; if x < K { x = K }`
  (the IPv4 header length clamp), for a field assigned under an `if` (else: the zero value) and for a condition
  used as a number (1 / 0).
* slice-valued terms: `octs i j` = `b[i:j]`, `octsFrom i` = `b[i:]`, `cat` = what `append` / element-wise
  assignment make of the buffer; **octets beyond the end are absent** (`List.drop` / `List.take`), in Go a panic
  excluded by the guards.  `ipText e` = `net.IP(e).String()`, `hwText e` = the MAC text
  `fmt.Sprintf("%0.2x:…", b[i], …, b[i+5])` (both kept by the model as their octets; the text rendering is
  `Model/IpText.lean`, compared with `encoding/json`'s output by correspondence).
* `unrecognised go` is what the translator emits for anything else: it evaluates to 0 / no octets, and
  `Expr.known` is false for it — every obligation over a generated list asks for `known`.

Core Lean only.
-/
namespace Vflow.DissectIR
open Vflow Vflow.Packet Vflow.Sflow

inductive Cmp where
  | lt | le | eq | ne | gt | ge
deriving DecidableEq, Repr

/-- Bool-valued on purpose (`Nat.blt` / `Nat.ble` / `Nat.beq`, no `Decidable` instance that depends on the
operands): the proofs unfold the evaluator by definitional rewriting, which must not leave a stale instance behind -/
def Cmp.holds : Cmp → Nat → Nat → Bool
  | .lt, a, b => Nat.blt a b
  | .le, a, b => Nat.ble a b
  | .eq, a, b => Nat.beq a b
  | .ne, a, b => !(Nat.beq a b)
  | .gt, a, b => Nat.blt b a
  | .ge, a, b => Nat.ble b a

inductive Expr where
  | lit (n : Nat)                          -- integer literal / resolved named constant
  | byte (i : Nat)                         -- `b[i]`
  | var (x : String)                       -- a field read earlier / a parameter (sFlow rows only)
  | be (i w : Nat)                         -- `binary.BigEndian.Uint{8w}(b[i:i+w])`
  | shl (e : Expr) (k : Nat)               -- `e << k`
  | shr (e : Expr) (k : Nat)               -- `e >> k`
  | band (a b : Expr)                      -- `a & b`
  | bor (a b : Expr)                       -- `a | b`
  | add (a b : Expr)
  | mul (a b : Expr)
  | mod (a b : Expr)
  | subw (bits : Nat) (a b : Expr)         -- `a - b` in an unsigned type of `bits` bits
  | wrap (bits : Nat) (e : Expr)           -- the value as an unsigned type of `bits` bits holds it
  | ite (op : Cmp) (a b t e : Expr)        -- `if a op b { t } else { e }`
  | octs (i j : Expr)                      -- `b[i:j]`
  | octsFrom (i : Expr)                    -- `b[i:]`
  | cat (a b : Expr)                       -- octets of `a` followed by octets of `b`
  | ipText (e : Expr)                      -- `net.IP(e).String()`
  | hwText (e : Expr)                      -- `fmt.Sprintf("%0.2x:%0.2x:%0.2x:%0.2x:%0.2x:%0.2x", …)` of the six octets
  | unrecognised (go : String)
deriving DecidableEq, Repr

/-- big-endian value of the `w` octets from `i` (absent octets count as 0) -/
def beAt (d : Bytes) (i : Nat) : Nat → Nat
  | 0 => 0
  | w + 1 => beAt d i w * 256 + oct d (i + w)

/-- the number an expression denotes over the buffer `d`, fields read so far `ρ` -/
def Expr.evalWith (ρ : String → Nat) (d : Bytes) : Expr → Nat
  | .lit n => n
  | .byte i => oct d i
  | .var x => ρ x
  | .be i w => beAt d i w
  | .shl e k => e.evalWith ρ d <<< k
  | .shr e k => e.evalWith ρ d >>> k
  | .band a b => a.evalWith ρ d &&& b.evalWith ρ d
  | .bor a b => a.evalWith ρ d ||| b.evalWith ρ d
  | .add a b => a.evalWith ρ d + b.evalWith ρ d
  | .mul a b => a.evalWith ρ d * b.evalWith ρ d
  | .mod a b => a.evalWith ρ d % b.evalWith ρ d
  | .subw bits a b =>
    bif Nat.ble (b.evalWith ρ d) (a.evalWith ρ d) then a.evalWith ρ d - b.evalWith ρ d
    else a.evalWith ρ d + 2 ^ bits - b.evalWith ρ d
  | .wrap bits e => e.evalWith ρ d % 2 ^ bits
  | .ite op a b t e => bif op.holds (a.evalWith ρ d) (b.evalWith ρ d) then t.evalWith ρ d else e.evalWith ρ d
  | .octs _ _ => 0
  | .octsFrom _ => 0
  | .cat _ _ => 0
  | .ipText _ => 0
  | .hwText _ => 0
  | .unrecognised _ => 0

/-- the octets a slice-valued expression denotes -/
def Expr.octetsWith (ρ : String → Nat) (d : Bytes) : Expr → Bytes
  | .octs i j => (d.drop (i.evalWith ρ d)).take (j.evalWith ρ d - i.evalWith ρ d)
  | .octsFrom i => d.drop (i.evalWith ρ d)
  | .cat a b => a.octetsWith ρ d ++ b.octetsWith ρ d
  | .ipText e => e.octetsWith ρ d
  | .hwText e => e.octetsWith ρ d
  | .ite op a b t e => bif op.holds (a.evalWith ρ d) (b.evalWith ρ d) then t.octetsWith ρ d else e.octetsWith ρ d
  | _ => []

/-- no fields in scope (the dissector's expressions mention none) -/
def noVars : String → Nat := fun _ => 0

/-- `Expr.eval e d`: the value of a dissector expression on the octets `d` -/
abbrev Expr.eval (e : Expr) (d : Bytes) : Nat := e.evalWith noVars d
/-- `Expr.octets e d`: the octets of a slice-valued dissector expression on `d` -/
abbrev Expr.octets (e : Expr) (d : Bytes) : Bytes := e.octetsWith noVars d

/-- nothing in the term is `unrecognised` -/
def Expr.known : Expr → Bool
  | .lit _ | .byte _ | .var _ | .be _ _ => true
  | .shl e _ | .shr e _ | .wrap _ e | .octsFrom e | .ipText e | .hwText e => e.known
  | .band a b | .bor a b | .add a b | .mul a b | .mod a b | .subw _ a b | .octs a b | .cat a b => a.known && b.known
  | .ite _ a b t e => a.known && b.known && t.known && e.known
  | .unrecognised _ => false

/-- the field is the text `net.IP.String` makes of its octets -/
def Expr.isIpText : Expr → Bool
  | .ipText _ => true
  | _ => false

/-- the field is the MAC text of its octets (possibly set under a condition) -/
def Expr.isHwText : Expr → Bool
  | .hwText _ => true
  | .ite _ _ _ (.hwText _) _ => true
  | _ => false

/-- a literal bound -/
def Expr.litOr0 : Expr → Nat
  | .lit n => n
  | _ => 0

/-- how many octets of the buffer the term touches through constant indices and constant slice bounds (`b[i]`
needs `i + 1`, `b[i:j]` needs `j`, `b[i:]` needs `i`): to be compared with the bound of the length guard in front -/
def Expr.need : Expr → Nat
  | .lit _ | .var _ | .unrecognised _ => 0
  | .byte i => i + 1
  | .be i w => i + w
  | .shl e _ | .shr e _ | .wrap _ e | .ipText e | .hwText e => e.need
  | .octsFrom e => max e.need e.litOr0
  | .band a b | .bor a b | .add a b | .mul a b | .mod a b | .subw _ a b | .cat a b => max a.need b.need
  | .octs a b => max (max a.need b.need) (max a.litOr0 b.litOr0)
  | .ite _ a b t e => max (max a.need b.need) (max t.need e.need)

/-- the octets a field list touches -/
def needOf (l : List (String × Expr)) : Nat := l.foldl (fun m p => max m p.2.need) 0

/-- the translated right-hand side of field `n` (a field the source does not set is `unrecognised`) -/
def field (l : List (String × Expr)) (n : String) : Expr :=
  match l.lookup n with
  | some e => e
  | none => .unrecognised ("no field " ++ n)

/-- every field of the list is translated -/
def allKnown (l : List (String × Expr)) : Bool := l.all (fun p => p.2.known)

/-! ## read chains of `sflow/*.go` -/

inductive Row where
  /-- `read(r, &x.F)` with `F` an unsigned field of `octets` octets (`binary.Read`, big endian: all of them or an
  error); `onErr = "err"` when the error is handed on, else the name of the error returned instead -/
  | num (field : String) (octets : Nat) (onErr : String)
  /-- `v := make([]byte, len); read(r, &v)`: `binary.Read` into a byte slice -/
  | buf (var : String) (len : Expr)
  /-- `v := make([]byte, len); r.Read(v)`: `bytes.Reader.Read` (`io.EOF` iff nothing is left, else what is there);
  `guarded`: inside `if len(v) > 0 { … }` -/
  | raw (var : String) (len : Expr) (guarded : Bool)
  /-- `x.F = e`, a number; `byte i` in `e` is `base[i]` -/
  | set (field : String) (base : String) (e : Expr)
  /-- `x.F = e`, octets of the buffer `base` -/
  | setOctets (field : String) (base : String) (e : Expr)
  /-- `if cond { return err }` -/
  | failIf (cond : Expr) (err : String)
  /-- `if cond { r.Seek(int64(len), 1); return err }` -/
  | skipIf (cond : Expr) (len : Expr) (err : String)
  | unrecognised (go : String)
deriving DecidableEq, Repr

def Row.known : Row → Bool
  | .num _ _ _ => true
  | .buf _ l => l.known
  | .raw _ l _ => l.known
  | .set _ _ e => e.known
  | .setOctets _ _ e => e.known
  | .failIf c _ => c.known
  | .skipIf c l _ => c.known && l.known
  | .unrecognised _ => false

/-- what has been read / assigned so far: numbers and buffers by name (latest first) -/
structure Env where
  nums : List (String × Nat) := []
  bufs : List (String × Bytes) := []
deriving DecidableEq, Repr

def Env.num (ρ : Env) (x : String) : Nat := (ρ.nums.lookup x).getD 0
def Env.octets (ρ : Env) (x : String) : Bytes := (ρ.bufs.lookup x).getD []

inductive Outcome where
  | done (ρ : Env) (rest : Bytes)
  | fail (err : String)                 -- `"io"`: a read error handed on (`io.EOF` / `io.ErrUnexpectedEOF`)
  | skip (err : String) (rest : Bytes)  -- the `skipIf` exit
  | stuck                               -- an unrecognised row
deriving DecidableEq, Repr

/-- a read of `n` octets with `rd`, then `k` on what was read and what is left.  (A function of its own so that
the computed length is an ordinary argument, not the discriminant of a `match`: the proofs rewrite it there, and a
rewrite inside a discriminant is checked by the kernel by evaluation — with lengths like `(l + 2^32 - 8) % 2^32`.) -/
def readThen (rd : Nat → Bytes → Option (Bytes × Bytes)) (n : Nat) (bs : Bytes) (onErr : String)
    (k : Bytes → Bytes → Outcome) : Outcome :=
  match rd n bs with
  | none => .fail onErr
  | some (b, r) => k b r

/-- go on iff the condition is 0 -/
def unless0 (c : Nat) (otherwise : Outcome) (k : Outcome) : Outcome := bif Nat.beq c 0 then k else otherwise

/-- the interpreter of a row list over the remaining octets of the reader -/
def run : List Row → Env → Bytes → Outcome
  | [], ρ, bs => .done ρ bs
  | .num f w onErr :: rows, ρ, bs =>
    readThen full w bs (bif onErr == "err" then "io" else onErr)
      (fun b r => run rows { ρ with nums := (f, beN b) :: ρ.nums } r)
  | .buf v len :: rows, ρ, bs =>
    readThen full (len.evalWith ρ.num []) bs "io" (fun b r => run rows { ρ with bufs := (v, b) :: ρ.bufs } r)
  | .raw v len guarded :: rows, ρ, bs =>
    readThen (bif guarded then readHdr else rawRead) (len.evalWith ρ.num []) bs "io"
      (fun b r => run rows { ρ with bufs := (v, b) :: ρ.bufs } r)
  | .set f base e :: rows, ρ, bs => run rows { ρ with nums := (f, e.evalWith ρ.num (ρ.octets base)) :: ρ.nums } bs
  | .setOctets f base e :: rows, ρ, bs =>
    run rows { ρ with bufs := (f, e.octetsWith ρ.num (ρ.octets base)) :: ρ.bufs } bs
  | .failIf c err :: rows, ρ, bs => unless0 (c.evalWith ρ.num []) (.fail err) (run rows ρ bs)
  | .skipIf c len err :: rows, ρ, bs =>
    unless0 (c.evalWith ρ.num []) (.skip err (bs.drop (len.evalWith ρ.num []))) (run rows ρ bs)
  | .unrecognised _ :: _, _, _ => .stuck

/-- the error class of a Go error variable of `sflow/*.go` (`"io"` = a read error) -/
def errClass (n : String) : Option Err :=
  if n = "io" then some .eof
  else if n = "errSFVersionNotSupport" then some .version
  else if n = "errDataLengthUnknown" then some .noLen
  else if n = "errMaxOutEthernetLength" then some .hdrLen
  else if n = "errExtRouterDataLength" then some .rtrLen
  else none

/-- a failed row list as the model's outcome; an error variable the model has no class for is `panic`
(which the model never returns: C01) -/
def failAs {α : Type} (n : String) : Res α :=
  match errClass n with
  | some e => .err e
  | none => .panic

end Vflow.DissectIR
