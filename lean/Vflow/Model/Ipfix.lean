import Vflow.Model.Flow
/-!
# Model of `ipfix/decoder.go` (as it is after the F2, the padding, the F23 and the F30 repairs)

One small function per Go block.  Composite reads return `Except Err α × Rd` so that the reader
position after a failure is available (the Go code uses it to compute how much of the set to skip).
16-bit arithmetic of the set loop (`uint16(ReadCount()-start)`, wrapping `Length - consumed`) is
reproduced with explicit `% 65536`.
-/
namespace Vflow.Ipfix
open Vflow

/-- `TemplateFieldSpecifier.unmarshal` -/
def readSpec (r : Rd) : Except Err Spec × Rd :=
  match r.rU16 with
  | none => (.error .short, r)
  | some (id, r1) =>
    match r1.rU16 with
    | none => (.error .short, r1)
    | some (len, r2) =>
      if id > 0x8000 then
        match r2.rU32 with
        | none => (.error .short, r2)
        | some (ent, r3) => (.ok ⟨id % 0x8000, len, ent⟩, r3)
      else (.ok ⟨id, len, 0⟩, r2)

/-- `for i := n; i > 0; i-- { tf.unmarshal; append }` -/
def readSpecs : Nat → Rd → List Spec → (Except Err (List Spec) × Rd)
  | 0, r, acc => (.ok acc, r)
  | n+1, r, acc =>
    match readSpec r with
    | (.error e, r') => (.error e, r')
    | (.ok s, r') => readSpecs n r' (acc ++ [s])

/-- `TemplateRecord.unmarshal` -/
def parseTpl (r : Rd) : Except Err Template × Rd :=
  match r.rU16 with
  | none => (.error .short, r)
  | some (tid, r1) =>
    match r1.rU16 with
    | none => (.error .short, r1)
    | some (n, r2) =>
      match readSpecs n r2 [] with
      | (.ok fs, r3) => (.ok ⟨tid, n, 0, [], fs⟩, r3)
      | (.error e, r3) => (.error e, r3)

/-- `TemplateRecord.unmarshalOpts` (`FieldCount - ScopeFieldCount` wraps in uint16) -/
def parseOptTpl (r : Rd) : Except Err Template × Rd :=
  match r.rU16 with
  | none => (.error .short, r)
  | some (tid, r1) =>
    match r1.rU16 with
    | none => (.error .short, r1)
    | some (n, r2) =>
      match r2.rU16 with
      | none => (.error .short, r2)
      | some (sc, r3) =>
        match readSpecs sc r3 [] with
        | (.error e, r4) => (.error e, r4)
        | (.ok scs, r4) =>
          match readSpecs ((n + 65536 - sc) % 65536) r4 [] with
          | (.error e, r5) => (.error e, r5)
          | (.ok fs, r5) => (.ok ⟨tid, n, sc, scs, fs⟩, r5)

/-- `getDataLength`: the length 65535 is the variable-length marker for an element of ANY type (RFC 7011 §7;
until the F23 repair the code honoured it only for string / octetArray elements and otherwise tried to read
65535 octets) -/
def dataLen (r : Rd) (specLen : Nat) : Except Err Nat × Rd :=
  if specLen = 65535 then
    match r.rU8 with
    | none => (.error .short, r)
    | some (l8, r1) =>
      if l8 = 255 then
        match r1.rU16 with
        | none => (.error .short, r1)
        | some (l, r2) => (.ok l, r2)
      else (.ok l8, r1)
  else (.ok specLen, r)

/-- the two field loops of `decodeData` (scope specifiers first) -/
def decFields : List Spec → Rd → Record → (Except Err Record × Rd)
  | [], r, acc => (.ok acc, r)
  | f :: fs, r, acc =>
    match lookupElem f.ent f.id with
    | none => (.error .unknownElem, r)
    | some (fid, t) =>
      match dataLen r f.len with
      | (.error e, r1) => (.error e, r1)
      | (.ok n, r1) =>
        match r1.readN n with
        | none => (.error .short, r1)
        | some (b, r2) => decFields fs r2 (acc ++ [⟨fid, f.ent, interpret b t⟩])

/-- the error classes the IPFIX decoder wraps in `nonfatalError{…}` (the type switches of `decodeSet` and `Decode`
let the decoding go on): the three it shares with NetFlow v9 (`Err.nonfatal`) and, since the F30 repair,
"failed to decodeData" — a data set for a template without fields (a template record with field count 0, which
`decodeSet` installs like any other) is skipped by its declared length instead of making `Decode` return
`(nil, err)` -/
def nonfatalErr (e : Err) : Bool := e.nonfatal || e == .emptyRec

/-- `decodeData` -/
def decodeData (tr : Template) (r : Rd) : Except Err Record × Rd :=
  match decFields (tr.scope ++ tr.fields) r [] with
  | (.error e, r') => (.error e, r')
  | (.ok fs, r') => if fs.isEmpty then (.error .emptyRec, r') else (.ok fs, r')

/-- decoder state threaded through the loops -/
structure St where
  r : Rd
  cache : Cache
  recs : List Record

/-- per-set constants -/
structure Ctx where
  addr : Bytes
  setId : Nat
  len : Nat
  start : Nat
  tr : Template

/-- `uint16(d.reader.ReadCount()-startCount)` -/
def consumed16 (ctx : Ctx) (r : Rd) : Nat := (r.cnt - ctx.start) % 65536

/-- one term of `minRecordLen`: a variable-length field takes at least its one-octet length prefix -/
def specMin (s : Spec) : Nat := if s.len = 65535 then 1 else s.len

/-- `TemplateRecord.minRecordLen` (padding repair): the shortest data record the template can describe
(scope specifiers, then field specifiers), at least 1 -/
def minRecLen (tr : Template) : Nat :=
  let n := ((tr.scope ++ tr.fields).map specMin).sum
  if n < 1 then 1 else n

/-- `minLen` of `decodeSet`: what is left of a set and is shorter than this is padding — 5 octets
(the former `> 4`) for template sets and the reserved ids, the template's minimum record length for
data sets -/
def minLeft (ctx : Ctx) : Nat := if ctx.setId > 255 then minRecLen ctx.tr else 5

/-- the loop condition of `decodeSet` (without `err == nil`) -/
def contCond (ctx : Ctx) (r : Rd) : Bool :=
  decide (ctx.len > consumed16 ctx r) && decide (r.rem.length ≥ minLeft ctx) &&
  decide ((ctx.len + 65536 - consumed16 ctx r) % 65536 ≥ minLeft ctx)

/-- the record loop of `decodeSet`.  Result: state, Go's `err` slot, and whether `decodeSet`
returned directly (`true`: no skip of the rest of the set). -/
def setLoop (ctx : Ctx) : Nat → St → (St × Option Err × Bool)
  | 0, st => (st, some .fuel, true)
  | fuel+1, st =>
    if contCond ctx st.r then
      if ctx.setId = 2 ∨ ctx.setId = 3 then
        if st.r.peek16 = some 0 then (st, none, false) else
        match (if ctx.setId = 2 then parseTpl st.r else parseOptTpl st.r) with
        | (.ok t, r') => setLoop ctx fuel { st with r := r', cache := st.cache.insert ctx.addr t.tid t }
        | (.error e, r') => ({ st with r := r' }, some e, false)
      else if 4 ≤ ctx.setId ∧ ctx.setId ≤ 255 then (st, none, false)
      else if ctx.setId = 0 then (st, some .invalidSet, true)
      else
        match decodeData ctx.tr st.r with
        | (.ok fs, r') =>
          -- F2 repair: a record that consumed no octets ends the set with a non-fatal error
          if r'.cnt = st.r.cnt then ({ st with r := r' }, some .zeroRec, false)
          else setLoop ctx fuel { st with r := r', recs := st.recs ++ [fs] }
        | (.error e, r') => if nonfatalErr e then ({ st with r := r' }, some e, false) else ({ st with r := r' }, some e, true)
    else (st, none, false)

def emptyTpl : Template := ⟨0, 0, 0, [], []⟩

/-- the leftover skip at the end of `decodeSet` -/
def skipRest (ctx : Ctx) (st1 : St) (e1 : Option Err) : St × Option Err :=
  let leftover := (ctx.len + 65536 - consumed16 ctx st1.r) % 65536
  if leftover > 0 then
    match st1.r.readN leftover with
    | none => (st1, some .short)
    | some (_, r') => ({ st1 with r := r' }, e1)
  else (st1, e1)

/-- `mem.retrieve` for data sets (id > 255) -/
def lookupTpl (c : Cache) (addr : Bytes) (sid : Nat) : Option Template × Option Err :=
  if sid > 255 then
    match c.lookup addr sid with
    | some t => (some t, none)
    | none => (none, some .unknownTpl)
  else (none, none)

/-- everything in `decodeSet` after the set header -/
def setBody (addr : Bytes) (sid len start fuel : Nat) (st : St) : St × Option Err :=
  let look := lookupTpl st.cache addr sid
  let ctx : Ctx := ⟨addr, sid, len, start, look.1.getD emptyTpl⟩
  match look.2 with
  | some e => skipRest ctx st (some e)
  | none =>
    let res := setLoop ctx fuel st
    if res.2.2 then (res.1, res.2.1) else skipRest ctx res.1 res.2.1

/-- `decodeSet` -/
def decodeSet (addr : Bytes) (fuel : Nat) (st : St) : St × Option Err :=
  match st.r.rU16 with
  | none => (st, some .short)
  | some (sid, r1) =>
    match r1.rU16 with
    | none => ({ st with r := r1 }, some .short)
    | some (len, r2) =>
      if len < 4 then ({ st with r := r2 }, some .badSetLen)
      else setBody addr sid len st.r.cnt fuel { st with r := r2 }

/-- the `for d.reader.Len() > 4` loop of `Decode`; the middle component is the fatal error with
which `Decode` returned `(nil, err)`.  The cache keeps whatever was inserted before the failure. -/
def outer (addr : Bytes) : Nat → St → List Err → (St × Option Err × List Err)
  | 0, st, errs => (st, some .fuel, errs)
  | fuel+1, st, errs =>
    if st.r.rem.length > 4 then
      match decodeSet addr (st.r.rem.length + 1) st with
      | (st', none) => outer addr fuel st' errs
      | (st', some e) => if nonfatalErr e then outer addr fuel st' (errs ++ [e]) else (st', some e, errs)
    else (st, none, errs)

/-- `MessageHeader.unmarshal`: Version, Length, ExportTime, SequenceNo, DomainID -/
def readHeader (r : Rd) : Option (Hdr × Rd) :=
  match r.rU16 with
  | none => none
  | some (ver, r1) =>
  match r1.rU16 with
  | none => none
  | some (len, r2) =>
  match r2.rU32 with
  | none => none
  | some (et, r3) =>
  match r3.rU32 with
  | none => none
  | some (sq, r4) =>
  match r4.rU32 with
  | none => none
  | some (dom, r5) => some ([ver, len, et, sq, dom], r5)

/-- result of `Decode`: `error e` = `(nil, err)`; `ok (hdr, records, non-fatal errors)` -/
abbrev Result := Except Err (Hdr × List Record × List Err)

/-- `Decoder.Decode` -/
def decode (c : Cache) (addr : Bytes) (bs : Bytes) : Result × Cache :=
  match readHeader ⟨bs, 0⟩ with
  | none => (.error .short, c)
  | some (h, r5) =>
    if h.headD 0 ≠ 10 then (.error .badVersion, c) else
    match outer addr (bs.length + 1) ⟨r5, c, []⟩ [] with
    | (st, some e, _) => (.error e, st.cache)
    | (st, none, errs) => (.ok (h, st.recs, errs), st.cache)

def recordsOf (x : Result) : List Record :=
  match x with
  | .ok (_, recs, _) => recs
  | .error _ => []

end Vflow.Ipfix
