import Vflow.Gen.IpfixIR
/-!
# The translated functions of `ipfix/decoder.go`, linked

Each definition is the meaning (`Func.sem`) of one function `go/cmd/factgen/ipfix_ir.go` regenerates on every run,
with exactly the functions it may call linked in by name.  A call of anything else has no meaning.
`addr` is the exporter address (`d.raddr`), `fuel` the bound on the iterations of every `for` loop.
-/
namespace Vflow.IpfixProg
open Vflow Vflow.IpfixIR

def getDataLength (addr : Bytes) (fuel : Nat) : FnSem := Gen.IpfixIR.getDataLength.sem addr [] fuel
def minRecordLen (addr : Bytes) (fuel : Nat) : FnSem := Gen.IpfixIR.minRecordLen.sem addr [] fuel

/-! ## how the model's results read as Go result lists -/

/-- `(uint16, error)` of `getDataLength`: the length and `nil`, or 0 and the (fatal) error -/
def lenResult : Except Err Nat → List V
  | .ok n => [.int n, .nil]
  | .error e => [.int 0, .err ⟨false, e⟩]

end Vflow.IpfixProg
