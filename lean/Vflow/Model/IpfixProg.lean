import Vflow.Gen.IpfixIR
/-!
# The translated functions of `ipfix/decoder.go`, linked

Each definition is the meaning (`Func.sem`) of one function `go/cmd/factgen/ipfix_ir.go` regenerates on every run,
with exactly the functions it may call linked in by name.  A call of anything else has no meaning.
`addr` is the exporter address (`d.raddr`), `fuel` the bound on the iterations of every `for` loop.
-/
namespace Vflow.IpfixProg
open Vflow Vflow.IpfixIR

def getDataLength (addr : Bytes) (fuel : Nat) : FnSem := Gen.IpfixIR.getDataLength.sem addr [] fuel
def minRecordLen (addr : Bytes) (fuel : Nat) : FnSem := Gen.IpfixIR.minRecordLen.sem addr [] fuel
def decodeData (addr : Bytes) (fuel : Nat) : FnSem :=
  Gen.IpfixIR.decodeData.sem addr [("getDataLength", getDataLength addr fuel)] fuel
def fieldSpecUnmarshal (addr : Bytes) (fuel : Nat) : FnSem := Gen.IpfixIR.fieldSpecUnmarshal.sem addr [] fuel
def tplHeaderUnmarshal (addr : Bytes) (fuel : Nat) : FnSem := Gen.IpfixIR.tplHeaderUnmarshal.sem addr [] fuel
def tplHeaderUnmarshalOpts (addr : Bytes) (fuel : Nat) : FnSem := Gen.IpfixIR.tplHeaderUnmarshalOpts.sem addr [] fuel
def tplRecordUnmarshal (addr : Bytes) (fuel : Nat) : FnSem :=
  Gen.IpfixIR.tplRecordUnmarshal.sem addr
    [("tplHeaderUnmarshal", tplHeaderUnmarshal addr fuel), ("fieldSpecUnmarshal", fieldSpecUnmarshal addr fuel)] fuel
def tplRecordUnmarshalOpts (addr : Bytes) (fuel : Nat) : FnSem :=
  Gen.IpfixIR.tplRecordUnmarshalOpts.sem addr
    [("tplHeaderUnmarshalOpts", tplHeaderUnmarshalOpts addr fuel), ("fieldSpecUnmarshal", fieldSpecUnmarshal addr fuel)] fuel
def setHeaderUnmarshal (addr : Bytes) (fuel : Nat) : FnSem := Gen.IpfixIR.setHeaderUnmarshal.sem addr [] fuel
def msgHeaderUnmarshal (addr : Bytes) (fuel : Nat) : FnSem := Gen.IpfixIR.msgHeaderUnmarshal.sem addr [] fuel
def msgHeaderValidate (addr : Bytes) (fuel : Nat) : FnSem := Gen.IpfixIR.msgHeaderValidate.sem addr [] fuel
def decodeSet (addr : Bytes) (fuel : Nat) : FnSem :=
  Gen.IpfixIR.decodeSet.sem addr
    [("setHeaderUnmarshal", setHeaderUnmarshal addr fuel), ("minRecordLen", minRecordLen addr fuel),
     ("tplRecordUnmarshal", tplRecordUnmarshal addr fuel), ("tplRecordUnmarshalOpts", tplRecordUnmarshalOpts addr fuel),
     ("decodeData", decodeData addr fuel)] fuel
def decode (addr : Bytes) (fuel : Nat) : FnSem :=
  Gen.IpfixIR.decode.sem addr
    [("msgHeaderUnmarshal", msgHeaderUnmarshal addr fuel), ("msgHeaderValidate", msgHeaderValidate addr fuel),
     ("decodeSet", decodeSet addr fuel)] fuel

/-! ## how the model's results read as Go result lists -/

/-- `(uint16, error)` of `getDataLength`: the length and `nil`, or 0 and the (fatal) error -/
def lenResult : Except Err Nat → List V
  | .ok n => [.int n, .nil]
  | .error e => [.int 0, .err ⟨false, e⟩]

/-- `([]DecodedField, error)` of `decodeData`: the record and `nil`, or `nil` and the error — wrapped in
`nonfatalError{…}` exactly for the classes the model treats as non-fatal (`Ipfix.nonfatalErr`) -/
def recResult : Except Err Record → List V
  | .ok fs => [.drec fs, .nil]
  | .error e => [.nil, .err ⟨Ipfix.nonfatalErr e, e⟩]

/-- Go's `err` slot: `nil`, or the error — wrapped in `nonfatalError{…}` exactly for the classes of `Ipfix.nonfatalErr` -/
def errV : Option Err → V
  | none => .nil
  | some e => .err ⟨Ipfix.nonfatalErr e, e⟩

/-- `(*Message, error)` of `Decode`: the message (AgentID = the exporter address, header, data sets) with the collected
non-fatal errors (`combineErrors` only renders them), or `nil` and the fatal error -/
def decodeResult (addr : Bytes) : Ipfix.Result → List V
  | .ok (h, recs, errs) => [.msg addr (MHdr.ofHdr h) recs, .errs (errs.map fun e => ⟨true, e⟩)]
  | .error e => [.nil, .err ⟨false, e⟩]

end Vflow.IpfixProg
