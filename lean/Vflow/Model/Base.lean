/-!
# Shared base of the vflow model: octet strings, big-endian integers, hex text.

Core Lean only (no Mathlib): everything under `Vflow/Model` is linked into the
`vfmodel` line-protocol driver that the correspondence harness runs against the
real Go code.
-/
namespace Vflow

abbrev Bytes := List UInt8

/-- big-endian value of an octet string (`binary.BigEndian.UintN`) -/
def beN (bs : Bytes) : Nat := bs.foldl (fun a x => a * 256 + x.toNat) 0

def hexDigit (n : Nat) : Char :=
  if n < 10 then Char.ofNat (48 + n) else Char.ofNat (87 + n)

/-- lower-case hex text of an octet string -/
def hex (bs : Bytes) : String :=
  String.ofList (bs.foldr (fun b acc => hexDigit (b.toNat / 16) :: hexDigit (b.toNat % 16) :: acc) [])

def hexVal (c : UInt8) : UInt8 :=
  if c ≥ 48 && c ≤ 57 then c - 48 else if c ≥ 97 && c ≤ 102 then c - 87 else 0

/-- inverse of `hex` on well-formed input (used by the driver only) -/
def unhex (s : String) : Bytes :=
  let b := s.toUTF8
  let rec go (i : Nat) (fuel : Nat) (acc : Bytes) : Bytes :=
    match fuel with
    | 0 => acc.reverse
    | f+1 => if i + 1 < b.size then go (i+2) f ((hexVal b[i]! * 16 + hexVal b[i+1]!) :: acc) else acc.reverse
  go 0 b.size []

/-- the octets of an ASCII string literal -/
def str (s : String) : Bytes := s.toUTF8.toList

/-- n-octet big-endian encoding (n = 1, 2, 4, 8 in the wire formats) -/
def encBE : Nat → Nat → Bytes
  | 0, _ => []
  | k+1, v => encBE k (v / 256) ++ [UInt8.ofNat (v % 256)]

end Vflow
