import Vflow.Model.Base
/-!
# Model of the mirror path (`vflow/ipfix_unix.go: mirrorIPFIX`, `vflow/sflow_unix.go: mirrorSFlow`,
`mirror/ipv4.go`, `mirror/udp.go`) — IPv4 target branch

The mirror worker (set-up, one loop iteration, a sequence of iterations on the reused buffers) and the
dispatcher in front of it, statement by statement, after the `fix:` commits for F13 (buffer sized for the
headers; `SetAddrs` normalises the source with `To4`) and F25 (a failed `Send` is logged and the loop goes
on with the next datagram; the dispatcher drops a datagram whose address family no worker serves).
Every Go operation that can panic is an explicit check (`make` with a negative length, every slice
expression).  `conn.Send` is a parameter `send : Bytes → Bool` (does the kernel take the packet?):
the worker's behaviour is stated for every such function; `linkSend mtu` is the Linux raw-socket rule
the correspondence runs against.  Core Lean only.

Go value conventions: `max` (= `opts.IPFIXUDPSize` / `opts.SFlowUDPSize`) is a Go `int`, hence `Int`;
`port` is taken as a `Nat` (the model applies `uint16(port)` = `% 65536`); `src`/`dst` are `net.IP`
values, i.e. octet strings of any length.
-/
namespace Vflow.Mirror
open Vflow

/-- outcome of a piece of Go code -/
inductive Res (α : Type) where
  | ok (a : α)
  | panic (what : String)
  /-- the target is not an IPv4 address: the IPv6 branch is taken (outside this model) -/
  | v6
deriving Repr, DecidableEq

@[inline] def Res.bind {α β : Type} (r : Res α) (f : α → Res β) : Res β :=
  match r with
  | .ok a => f a
  | .panic w => .panic w
  | .v6 => .v6

instance : Monad Res where
  pure := .ok
  bind := Res.bind

/-! ## constants of package `mirror` (tied to the source by `Vflow.Gen.MirrorFacts`) -/
def ipv4HLen : Nat := 20
def ipv6HLen : Nat := 40
def udpHLen : Nat := 8
def udpProto : Nat := 17
def ipfixSrcPort : Nat := 55117
def sflowSrcPort : Nat := 55118

/-- extra room the packet buffer has beyond `max`:
`make([]byte, mirror.IPv6HLen+mirror.UDPHLen+opts.XUDPSize)` -/
def bufExtra : Nat := ipv6HLen + udpHLen

/-! ## Go primitives -/

/-- `make([]byte, n)` -/
def makeBytes (n : Int) : Res Bytes :=
  if n < 0 then .panic "makeslice: len out of range" else .ok (List.replicate n.toNat 0)

/-- `copy(buf[lo:hi], src)` seen on the backing array: the slice expression panics unless
`lo ≤ hi ≤ len(buf)` (here `cap = len`); `copy` moves `min(hi-lo, len(src))` octets -/
def copyInto (buf : Bytes) (lo hi : Nat) (src : Bytes) : Res Bytes :=
  if lo ≤ hi ∧ hi ≤ buf.length then
    let s := src.take (hi - lo)
    .ok (buf.take lo ++ s ++ buf.drop (lo + s.length))
  else .panic "slice bounds out of range"

/-- `buf[lo:hi]` as a value -/
def slice (buf : Bytes) (lo hi : Nat) : Res Bytes :=
  if lo ≤ hi ∧ hi ≤ buf.length then .ok ((buf.drop lo).take (hi - lo))
  else .panic "slice bounds out of range"

/-- `binary.BigEndian.PutUint16(b[off:], uint16(v))` -/
def putU16 (b : Bytes) (off : Nat) (v : Nat) : Res Bytes :=
  if off + 2 ≤ b.length then
    .ok (b.take off ++ encBE 2 (v % 65536) ++ b.drop (off + 2))
  else .panic "index out of range"

/-- `b[i] = v` -/
def setAt (b : Bytes) (i : Nat) (v : UInt8) : Res Bytes :=
  if i < b.length then .ok (b.take i ++ [v] ++ b.drop (i + 1)) else .panic "index out of range"

/-- `net.IP.To4`: a 4-octet address is itself; a 16-octet address with the IPv4-mapped prefix
`00×10 ff ff` yields its last four octets; anything else is `nil` -/
def to4 (ip : Bytes) : Option Bytes :=
  if ip.length = 4 then some ip
  else if ip.length = 16 ∧ ip.take 10 = List.replicate 10 0 ∧ (ip.drop 10).take 2 = [0xff, 0xff] then
    some (ip.drop 12)
  else none

/-! ## package mirror -/

/-- `NewIPv4HeaderTpl(proto).Marshal()`: version/IHL, TOS, length 0, id 0, flags/fragment 0, TTL 64,
protocol, checksum 0, addresses 0.  (The header checksum is left 0: a raw socket with `IP_HDRINCL`
has the kernel fill it in.) -/
def ipv4Tpl (proto : Nat) : Res Bytes := do
  let b ← makeBytes ipv4HLen
  let b ← setAt b 0 (UInt8.ofNat ((4 <<< 4) ||| 5))
  let b ← setAt b 1 0
  let b ← putU16 b 2 0
  let b ← setAt b 6 0
  let b ← setAt b 7 0
  let b ← setAt b 8 64
  setAt b 9 (UInt8.ofNat proto)

/-- `IPv4.SetAddrs(b, src, dst)` (after the fix): `copy(b[12:16], src.To4()); copy(b[16:20], dst.To4())` -/
def setAddrs (b src dst : Bytes) : Res Bytes := do
  let b ← copyInto b 12 16 ((to4 src).getD [])
  copyInto b 16 20 ((to4 dst).getD [])

/-- `IPv4.SetLen(b, n)`: `PutUint16(b[2:], IPv4HLen+uint16(n))` (16-bit wrap-around as in Go) -/
def setLen4 (b : Bytes) (n : Nat) : Res Bytes := putU16 b 2 (ipv4HLen + n % 65536)

/-- `UDP{src, dst, 0, 0}.Marshal()` -/
def udpMarshal (sport dport : Nat) : Res Bytes := do
  let b ← makeBytes udpHLen
  let b ← putU16 b 0 sport
  let b ← putU16 b 2 dport
  let b ← putU16 b 4 (udpHLen + 0)
  putU16 b 6 0

/-- `UDP.SetLen(b, n)` -/
def udpSetLen (b : Bytes) (n : Nat) : Res Bytes := putU16 b 4 (udpHLen + n)

/-! ## the worker -/

/-- capacity of `msg.body` as the worker hands it over: a pool buffer of `max` octets (longer only
if the payload is) -/
def bodyCap (max : Int) (len : Nat) : Int := if max < len then len else max

/-- what a mirror worker keeps across messages: the two header buffers and the packet buffer -/
structure Worker where
  ipHdr : Bytes
  udpHdr : Bytes
  packet : Bytes
deriving Repr, DecidableEq

/-- the part of `mirrorIPFIX`/`mirrorSFlow` before the loop (IPv4 target) -/
def Worker.init (sport : Nat) (max : Int) (dst : Bytes) (port : Nat) : Res Worker := do
  -- packet = make([]byte, mirror.IPv6HLen+mirror.UDPHLen+opts.XUDPSize)
  let packet ← makeBytes (bufExtra + max)
  -- udpHdr := udp.Marshal()
  let udpHdr ← udpMarshal sport port
  -- if dst.To4() != nil { ipv4 = true }
  if (to4 dst).isNone then .v6 else
  let ipHdr ← ipv4Tpl udpProto
  .ok ⟨ipHdr, udpHdr, packet⟩

/-- one iteration of the loop for the message `(src, payload)`: the new buffers and the octets handed
to `conn.Send` -/
def Worker.step (w : Worker) (max : Int) (dst src payload : Bytes) : Res (Worker × Bytes) := do
  let ipHLen := ipv4HLen
  -- msg = <-ch ; pLen = len(msg.body)
  let pLen := payload.length
  let ipHdr ← setAddrs w.ipHdr src dst
  let ipHdr ← setLen4 ipHdr (pLen + udpHLen)
  let udpHdr ← udpSetLen w.udpHdr pLen
  let packet ← copyInto w.packet 0 ipHLen ipHdr
  let packet ← copyInto packet ipHLen (ipHLen + 8) udpHdr
  let packet ← copyInto packet (ipHLen + 8) packet.length payload
  -- xBuffer.Put(msg.body[:opts.XUDPSize])
  if max < 0 ∨ bodyCap max pLen < max then .panic "slice bounds out of range" else
  -- conn.Send(packet[0 : ipHLen+8+pLen])
  let out ← slice packet 0 (ipHLen + 8 + pLen)
  .ok (⟨ipHdr, udpHdr, packet⟩, out)

/-- `conn.Send` on a Linux raw socket with `IP_HDRINCL` over a path of MTU `mtu`: a packet longer than
the MTU is refused with `EMSGSIZE` (such a socket never fragments), and so is anything longer than the
65535 octets an IPv4 datagram can have -/
def linkSend (mtu : Nat) (b : Bytes) : Bool := decide (b.length ≤ mtu ∧ b.length ≤ 65535)

/-- the loop over a sequence of messages `(src, payload)`: the packets that went out.
`if err = conn.Send(packet[…]); err != nil { logger.Println(err) }`: a packet the kernel refuses is
lost (and logged), the loop goes on with the next message on the same buffers (F25; before that
repair the worker returned here and nothing was mirrored any more) -/
def Worker.run (send : Bytes → Bool) (w : Worker) (max : Int) (dst : Bytes) : List (Bytes × Bytes) → Res (List Bytes)
  | [] => .ok []
  | (src, payload) :: rest => do
    let (w', out) ← w.step max dst src payload
    let outs ← Worker.run send w' max dst rest
    .ok (if send out then out :: outs else outs)

/-- a whole worker life: start, then the messages in order -/
def mirrorSeq (send : Bytes → Bool) (sport : Nat) (max : Int) (dst : Bytes) (port : Nat)
    (msgs : List (Bytes × Bytes)) : Res (List Bytes) := do
  let w ← Worker.init sport max dst port
  w.run send max dst msgs

/-! ## the dispatcher (`mirrorIPFIXDispatcher` / `mirrorSFlowDispatcher`) -/

/-- where the dispatcher puts a datagram -/
inductive Route where
  | ch4
  | ch6
  /-- no worker serves the datagram's address family: the buffer goes back to the pool -/
  | drop
deriving Repr, DecidableEq

/-- the dispatcher's loop body (after the F25 repair): `has4` / `has6` say whether a worker reads `ch4` / `ch6`;
`switch v4 := msg.raddr.IP.To4() != nil; { case v4 && has4: ch4 <- msg; case !v4 && has6: ch6 <- msg; default: Put }` -/
def route (has4 has6 : Bool) (src : Bytes) : Route :=
  let v4 := (to4 src).isSome
  if v4 && has4 then .ch4 else if !v4 && has6 then .ch6 else .drop

/-- the workers the dispatcher starts: `workers` of them, all for the target's family
(`if dst.To4() != nil { go mirrorX(dst, port, ch4); has4 = true } else { go mirrorX(dst, port, ch6); has6 = true }`) -/
def has4Of (workers : Nat) (dst : Bytes) : Bool := decide (0 < workers) && (to4 dst).isSome
def has6Of (workers : Nat) (dst : Bytes) : Bool := decide (0 < workers) && (to4 dst).isNone

/-- the stream the IPv4 workers read from `ch4` -/
def toCh4 (has4 has6 : Bool) (msgs : List (Bytes × Bytes)) : List (Bytes × Bytes) :=
  msgs.filter (fun x => route has4 has6 x.1 = .ch4)

/-- dispatcher and worker together: what leaves towards an IPv4 target for a stream of datagrams from
any exporters (one worker; with several, each reads a subsequence of the same stream) -/
def mirrorAll (send : Bytes → Bool) (sport : Nat) (max : Int) (dst : Bytes) (port workers : Nat)
    (msgs : List (Bytes × Bytes)) : Res (List Bytes) :=
  if workers = 0 then .ok [] else
  mirrorSeq send sport max dst port (toCh4 (has4Of workers dst) (has6Of workers dst) msgs)

/-- the first message of a fresh worker: the octets handed to `conn.Send`.
`sport` is 55117 (IPFIX) or 55118 (sFlow). -/
def assembleFrom (sport : Nat) (max : Int) (src dst : Bytes) (port : Nat) (payload : Bytes) : Res Bytes := do
  let w ← Worker.init sport max dst port
  let (_, out) ← w.step max dst src payload
  .ok out

/-- the IPFIX mirror worker (`assemble` of DESIGN.md) -/
def assemble (max : Int) (src dst : Bytes) (port : Nat) (payload : Bytes) : Res Bytes :=
  assembleFrom ipfixSrcPort max src dst port payload

/-- the sFlow mirror worker -/
def assembleSFlow (max : Int) (src dst : Bytes) (port : Nat) (payload : Bytes) : Res Bytes :=
  assembleFrom sflowSrcPort max src dst port payload

/-! ## specification: RFC 791 / RFC 768 layout, written independently of the code above -/

/-- IPv4 header (no options) + UDP header + payload, RFC 791 §3.1 and RFC 768, with the field values
the mirror uses for what the property does not constrain (TOS 0, id 0, flags/fragment 0, TTL 64,
header checksum 0 = left to the kernel, UDP checksum 0 = none) -/
def ipv4udp (src dst : Bytes) (sport dport : Nat) (payload : Bytes) : Bytes :=
  [0x45, 0x00] ++ encBE 2 (20 + 8 + payload.length) ++      -- version/IHL, TOS, total length
  [0, 0, 0, 0] ++                                            -- identification, flags/fragment offset
  [64, 17, 0, 0] ++                                          -- TTL, protocol, header checksum
  src ++ dst ++
  encBE 2 sport ++ encBE 2 dport ++ encBE 2 (8 + payload.length) ++ [0, 0] ++
  payload

/-- the 16-octet IPv4-mapped form `::ffff:a.b.c.d` of a 4-octet address (what `net.ParseIP` and a
dual-stack socket deliver) -/
def mapped (a : Bytes) : Bytes := List.replicate 10 0 ++ [0xff, 0xff] ++ a

/-- `ip` is the IPv4 address `a` in 4-octet or in 16-octet form -/
def IsV4 (ip a : Bytes) : Prop := a.length = 4 ∧ (ip = a ∨ ip = mapped a)

/-- the last four octets of an address: the IPv4 address of either form -/
def v4of (ip : Bytes) : Bytes := ip.drop (ip.length - 4)

/-- what a receiver reads off an IPv4/UDP datagram -/
structure Pkt4 where
  src : Bytes
  dst : Bytes
  sport : Nat
  dport : Nat
  totalLen : Nat
  udpLen : Nat
  payload : Bytes
deriving Repr, DecidableEq

/-- independent parser: accepts only a version-4 datagram carrying UDP whose IP total length is the
datagram's length and whose UDP length is the IP payload's length (the "consistent" of C16) -/
def parse4 (b : Bytes) : Option Pkt4 :=
  if b.length < 20 then none else
  let vihl := (b.getD 0 0).toNat
  let ihl := (vihl % 16) * 4
  if vihl / 16 ≠ 4 ∨ ihl < 20 ∨ b.length < ihl + 8 then none else
  let totalLen := beN ((b.drop 2).take 2)
  if (b.getD 9 0).toNat ≠ 17 ∨ totalLen ≠ b.length then none else
  let u := b.drop ihl
  let udpLen := beN ((u.drop 4).take 2)
  if udpLen ≠ totalLen - ihl then none else
  some { src := (b.drop 12).take 4, dst := (b.drop 16).take 4,
         sport := beN (u.take 2), dport := beN ((u.drop 2).take 2),
         totalLen := totalLen, udpLen := udpLen, payload := (u.drop 8).take (udpLen - 8) }

end Vflow.Mirror
