/-!
# Sharded template cache under `sync.RWMutex`: threads, locks, shard maps, every schedule

`ipfix/memcache.go` / `netflow/v9/memcache.go`: the cache is `shardNo` shards, each a Go map
guarded by its own `RWMutex`. A thread is a straight-line program over

* `lock s` / `unlock s` / `rlock s` / `runlock s` — the shard's mutex,
* `rd s k` — `v, ok := shard.Templates[k]`, `wr s k v` — `shard.Templates[k] = v`,
* `iter s` — iterate the whole map of shard `s` (`range`, `len`, `json.Marshal`).

The system state is the thread table and the shard maps; a step is one action of one thread;
"every schedule" is every sequence of steps. `RWMutex` semantics: `Lock` needs no holder at all,
`RLock` needs no writer (Go additionally makes `RLock` wait for a *waiting* writer; that only removes
schedules — it is the stricter relation `StepStrict`, used for deadlock freedom).
Threads record what they read (`Obs`). Core Lean only.
-/
namespace Vflow
namespace Locks

/-- a template as far as the cache is concerned: an opaque value (the harness puts a version
    number and the key in it) -/
abbrev Val := Nat

inductive Act where
  | lock (s : Nat) | unlock (s : Nat) | rlock (s : Nat) | runlock (s : Nat)
  | rd (s k : Nat) | wr (s k : Nat) (v : Val) | iter (s : Nat)
deriving DecidableEq, Repr

/-- what a thread holds: write-locked shards and read-locked shards -/
structure Held where
  w : List Nat
  r : List Nat
deriving DecidableEq, Repr

/-- what a thread has read: the result of a map lookup, or the whole map of a shard -/
inductive Obs where
  | got (s k : Nat) (v : Option Val)
  | snap (s : Nat) (m : Nat → Option Val)

structure Thread where
  held : Held := ⟨[], []⟩
  prog : List Act
  obs : List Obs := []     -- newest first

/-- shard maps: shard → key → value -/
abbrev Mem := Nat → Nat → Option Val

structure Sys where
  threads : List Thread
  mem : Mem

/-- decidable lock discipline of a straight-line program started holding `h`:
    every map access happens under the right lock (write: the write lock; read / iterate: either),
    locks are acquired in increasing shard order (so never twice), released only when held, and
    nothing is held at the end -/
def wb : Held → List Act → Bool
  | h, [] => h.w.isEmpty && h.r.isEmpty
  | h, .lock s :: p => (h.w ++ h.r).all (· < s) && wb ⟨s :: h.w, h.r⟩ p
  | h, .unlock s :: p => h.w.contains s && wb ⟨h.w.erase s, h.r⟩ p
  | h, .rlock s :: p => (h.w ++ h.r).all (· < s) && wb ⟨h.w, s :: h.r⟩ p
  | h, .runlock s :: p => h.r.contains s && wb ⟨h.w, h.r.erase s⟩ p
  | h, .rd s _ :: p => (h.w.contains s || h.r.contains s) && wb h p
  | h, .iter s :: p => (h.w.contains s || h.r.contains s) && wb h p
  | h, .wr s _ _ :: p => h.w.contains s && wb h p

def writerHeld (σ : Sys) (s : Nat) : Prop := ∃ t ∈ σ.threads, s ∈ t.held.w
def readerHeld (σ : Sys) (s : Nat) : Prop := ∃ t ∈ σ.threads, s ∈ t.held.r
/-- some thread's next action is `Lock()` on shard `s` (a writer that may already be queued) -/
def writerWaiting (σ : Sys) (s : Nat) : Prop := ∃ t ∈ σ.threads, t.prog.head? = some (.lock s)

def heldAfter (h : Held) : Act → Held
  | .lock s => ⟨s :: h.w, h.r⟩
  | .unlock s => ⟨h.w.erase s, h.r⟩
  | .rlock s => ⟨h.w, s :: h.r⟩
  | .runlock s => ⟨h.w, h.r.erase s⟩
  | _ => h

def memAfter (m : Mem) : Act → Mem
  | .wr s k v => fun s' k' => if s' = s ∧ k' = k then some v else m s' k'
  | _ => m

/-- what an action reads from the shard maps `m`, if anything -/
def obsOf (m : Mem) : Act → Option Obs
  | .rd s k => some (.got s k (m s k))
  | .iter s => some (.snap s (m s))
  | _ => none

def obsAfter (m : Mem) (o : List Obs) (a : Act) : List Obs :=
  match obsOf m a with
  | some x => x :: o
  | none => o

/-- taking a lock -/
def isAcq : Act → Bool
  | .lock _ => true | .rlock _ => true | _ => false

/-- neither takes a lock nor writes (what a thread does after its lock point when it only reads) -/
def quiet : Act → Bool
  | .lock _ => false | .rlock _ => false | .wr _ _ _ => false | _ => true

/-- `RWMutex`: `Lock` needs no holder, `RLock` needs no writer; everything else never blocks -/
def Enabled (σ : Sys) : Act → Prop
  | .lock s => ¬ writerHeld σ s ∧ ¬ readerHeld σ s
  | .rlock s => ¬ writerHeld σ s
  | _ => True

/-- Go's writer preference on top: `RLock` also waits while a writer is waiting -/
def EnabledStrict (σ : Sys) : Act → Prop
  | .lock s => ¬ writerHeld σ s ∧ ¬ readerHeld σ s
  | .rlock s => ¬ writerHeld σ s ∧ ¬ writerWaiting σ s
  | _ => True

/-- the state after thread `i` (currently `t`, next action `a`, rest `p`) has done `a` -/
def after (σ : Sys) (i : Nat) (t : Thread) (a : Act) (p : List Act) : Sys :=
  ⟨σ.threads.set i ⟨heldAfter t.held a, p, obsAfter σ.mem t.obs a⟩, memAfter σ.mem a⟩

/-- thread `i` performs its next action `a` -/
def Step (σ : Sys) (i : Nat) (a : Act) (σ' : Sys) : Prop :=
  ∃ t p, σ.threads[i]? = some t ∧ t.prog = a :: p ∧ Enabled σ a ∧ σ' = after σ i t a p

def StepStrict (σ : Sys) (i : Nat) (a : Act) (σ' : Sys) : Prop :=
  ∃ t p, σ.threads[i]? = some t ∧ t.prog = a :: p ∧ EnabledStrict σ a ∧ σ' = after σ i t a p

/-- one step of the history: the state before it, who moved, what it did -/
structure Ev where
  pre : Sys
  tid : Nat
  act : Act

/-- a run from `init`: the steps taken (newest first) and the current state — any schedule -/
inductive Run (init : Sys) : List Ev → Sys → Prop where
  | start : Run init [] init
  | step {hist : List Ev} {cur nxt : Sys} {i : Nat} {a : Act} :
      Run init hist cur → Step cur i a nxt → Run init (⟨cur, i, a⟩ :: hist) nxt

/-- a data race: two different threads about to touch the same shard map, one of them writing -/
def conflict : Act → Act → Prop
  | .wr s _ _, .wr s' _ _ => s = s'
  | .wr s _ _, .rd s' _ => s = s'
  | .wr s _ _, .iter s' => s = s'
  | _, _ => False

def Race (σ : Sys) : Prop :=
  ∃ (i j : Nat) (ti tj : Thread) (a b : Act), i ≠ j ∧ σ.threads[i]? = some ti ∧ σ.threads[j]? = some tj ∧
    ti.prog.head? = some a ∧ tj.prog.head? = some b ∧ conflict a b

/-- where every thread starts: nothing held, nothing observed, a well-bracketed program -/
def Init (σ : Sys) : Prop :=
  ∀ t ∈ σ.threads, t.held = ⟨[], []⟩ ∧ t.obs = [] ∧ wb ⟨[], []⟩ t.prog = true

/-! ## Executable twin (used by the driver) -/

def writerHeldB (σ : Sys) (s : Nat) : Bool := σ.threads.any (·.held.w.contains s)
def readerHeldB (σ : Sys) (s : Nat) : Bool := σ.threads.any (·.held.r.contains s)

def enabledB (σ : Sys) : Act → Bool
  | .lock s => !writerHeldB σ s && !readerHeldB σ s
  | .rlock s => !writerHeldB σ s
  | _ => true

def step? (σ : Sys) (i : Nat) : Option Sys :=
  match σ.threads[i]? with
  | some t =>
    match t.prog with
    | a :: p => if enabledB σ a then some (after σ i t a p) else none
    | [] => none
  | none => none

def conflictB : Act → Act → Bool
  | .wr s _ _, .wr s' _ _ => s == s'
  | .wr s _ _, .rd s' _ => s == s'
  | .wr s _ _, .iter s' => s == s'
  | _, _ => false

def raceB (σ : Sys) : Bool :=
  let heads := σ.threads.map (·.prog.head?)
  (List.range heads.length).any fun i => (List.range heads.length).any fun j =>
    i != j && (match heads[i]?, heads[j]? with
      | some (some a), some (some b) => conflictB a b
      | _, _ => false)

inductive Verdict where | ok | race | deadlock | fuel
deriving DecidableEq, Repr

/-- deterministic scheduler: from thread `from`, the first thread (cyclically) that can move, moves;
    `pick` perturbs the starting point so that different schedules can be requested -/
def schedule (pick : Nat → Nat) : Nat → Nat → Sys → Verdict × Sys
  | 0, _, σ => (.fuel, σ)
  | fuel+1, n, σ =>
    if raceB σ then (.race, σ) else
    if σ.threads.all (·.prog.isEmpty) then (.ok, σ) else
    let k := σ.threads.length
    let start := pick n % k
    match (List.range k).findSome? (fun d => (step? σ ((start + d) % k)).map (fun σ' => σ')) with
    | some σ' => schedule pick fuel (n + 1) σ'
    | none => (.deadlock, σ)

/-- adversarial scheduler: thread `i` runs until it is about to write, then waits there as long as
    any other thread can move (so every access of the others that is not excluded by a lock meets
    the pending write), then continues -/
def scheduleFreeze (i : Nat) : Nat → Sys → Verdict × Sys
  | 0, σ => (.fuel, σ)
  | fuel+1, σ =>
    if raceB σ then (.race, σ) else
    if σ.threads.all (·.prog.isEmpty) then (.ok, σ) else
    let k := σ.threads.length
    let aboutToWrite := match (σ.threads[i]?).bind (·.prog.head?) with
      | some (.wr _ _ _) => true
      | _ => false
    let others := (List.range k).findSome? (fun j => if j = i then none else step? σ j)
    let next := if aboutToWrite then (others <|> step? σ i) else (step? σ i <|> others)
    match next with
    | some σ' => scheduleFreeze i fuel σ'
    | none => (.deadlock, σ)

end Locks
end Vflow
