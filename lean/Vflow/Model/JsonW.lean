import Vflow.Model.Base
/-!
# Straight-line JSON "write programs"

The fixed parts of the three hand-written encoders (`encodeAgent`, `encodeHeader`, v5 `encodeFlow`)
are sequences of buffer writes; factgen extracts them as `List W` and the model *interprets* them.
-/
namespace Vflow

inductive W where
  | lit (b : Bytes)           -- b.WriteString("…") / b.WriteByte('…'), as octets
  | num (field : Nat)         -- strconv.FormatInt(int64(x.Field), 10); field = index in the structure's read layout
  | ip (field : Nat)          -- PutUint32(ip, r.Field); ip.String()
  | agent                     -- m.AgentID
  | unrecognised (go : String)
deriving Repr, DecidableEq

end Vflow
