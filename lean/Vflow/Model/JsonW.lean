import Vflow.Model.Base
/-!
# Straight-line JSON "write programs"

The fixed parts of the three hand-written encoders (`encodeAgent`, `encodeHeader`, v5 `encodeFlow`)
are sequences of buffer writes; factgen extracts them as `List W` and the model *interprets* them.
-/
namespace Vflow

inductive W where
  | lit (s : String)          -- b.WriteString("…") / b.WriteByte('…')
  | num (field : String)      -- strconv.FormatInt(int64(x.Field), 10)
  | ip (field : String)       -- PutUint32(ip, r.Field); ip.String()
  | agent                     -- m.AgentID
  | unrecognised (go : String)
deriving Repr, DecidableEq

end Vflow
