import Vflow.Proofs.JsonScan
import Vflow.Proofs.JsonLex
import Vflow.Model.CacheFile
/-!
# The cache file is the rendering of a well-formed JSON object; so it is accepted and no proper prefix is

`dumpTree ipfix ts c` is the *meaning* of the file `Dump` writes for cache `c` (entry `k` stamped `ts k`):
`{"Cache":[{"Templates":{"<key>":{"Template":{…},"Timestamp":<ts key>},…}},… 32 shards …],"ShardNo":32}`.
`dumpJsonTs_eq_render`: the model's octets are exactly `render (dumpTree …)`; `dumpTree_wf`, `dumpTree_depth`:
the tree is well-formed (keys are string bodies, numbers are RFC 8259 numbers) and nested 8 deep at most.
With `JsonScan.render_valid` / `render_prefix_rejected`: `dump_valid`, `dump_prefix_rejected`.
-/
namespace Vflow.JsonPrefix
open Vflow Vflow.Spec Vflow.CacheFile Vflow.JsonScan Vflow.JsonLex

/-! ## Tree builders and their renderings -/

def listOf : List Json → JList
  | [] => .nil
  | x :: xs => .cons x (listOf xs)

def objOf : List (Bytes × Json) → JMembers
  | [] => .nil
  | (k, v) :: ms => .cons k v (objOf ms)

/-- `"k":v` -/
def memberText (kv : Bytes × Json) : Bytes := q :: kv.1 ++ [q] ++ [58] ++ render kv.2

theorem renderList_listOf : ∀ (l : List Json), renderList (listOf l) = joinSep 44 (l.map render)
  | [] => rfl
  | [x] => rfl
  | x :: y :: ys => by
    have ih := renderList_listOf (y :: ys)
    simp only [listOf, renderList, List.map, joinSep] at ih ⊢
    rw [ih]

theorem renderMembers_objOf : ∀ (l : List (Bytes × Json)), renderMembers (objOf l) = joinSep 44 (l.map memberText)
  | [] => rfl
  | [(k, v)] => rfl
  | (k, v) :: (k', v') :: ms => by
    have ih := renderMembers_objOf ((k', v') :: ms)
    simp only [objOf, renderMembers, List.map, joinSep, memberText] at ih ⊢
    rw [ih]

theorem wfl_listOf : ∀ (l : List Json), (∀ x ∈ l, WF x) → WFL (listOf l)
  | [], _ => trivial
  | x :: xs, h => ⟨h x (List.mem_cons_self ..), wfl_listOf xs fun y hy => h y (List.mem_cons_of_mem _ hy)⟩

theorem wfm_objOf : ∀ (l : List (Bytes × Json)), (∀ kv ∈ l, isStrBody kv.1 = true ∧ WF kv.2) → WFM (objOf l)
  | [], _ => trivial
  | (k, v) :: ms, h =>
    ⟨(h (k, v) (List.mem_cons_self ..)).1, (h (k, v) (List.mem_cons_self ..)).2,
      wfm_objOf ms fun y hy => h y (List.mem_cons_of_mem _ hy)⟩

theorem depthL_listOf (n : Nat) : ∀ (l : List Json), (∀ x ∈ l, depth x ≤ n) → depthL (listOf l) ≤ n
  | [], _ => Nat.zero_le _
  | x :: xs, h => by
    have h1 := h x (List.mem_cons_self ..)
    have h2 := depthL_listOf n xs fun y hy => h y (List.mem_cons_of_mem _ hy)
    simp only [listOf, depthL]; omega

theorem depthM_objOf (n : Nat) : ∀ (l : List (Bytes × Json)), (∀ kv ∈ l, depth kv.2 ≤ n) → depthM (objOf l) ≤ n
  | [], _ => Nat.zero_le _
  | (k, v) :: ms, h => by
    have h1 : depth v ≤ n := h (k, v) (List.mem_cons_self ..)
    have h2 := depthM_objOf n ms fun y hy => h y (List.mem_cons_of_mem _ hy)
    simp only [objOf, depthM]; omega

/-! ## The tree of the cache file -/

def jnum (n : Nat) : Json := .num (natDigits n)

/-- `{"ElementID":i,"Length":l}` plus `,"EnterpriseNo":e` for IPFIX -/
def specTree (ipfix : Bool) (s : Spec) : Json :=
  .obj (objOf ([(str "ElementID", jnum s.id), (str "Length", jnum s.len)] ++
    (if ipfix then [(str "EnterpriseNo", jnum s.ent)] else [])))

/-- a nil slice is `null`, anything else the array of its specifiers -/
def specsTree (ipfix : Bool) : List Spec → Json
  | [] => .null
  | s :: l => .arr (listOf ((s :: l).map (specTree ipfix)))

def templateTree (ipfix : Bool) (t : Template) : Json :=
  .obj (objOf [
    (str "TemplateID", jnum t.tid),
    (str "FieldCount", jnum t.cnt),
    (str "FieldSpecifiers", specsTree ipfix t.fields),
    (str "ScopeFieldCount", jnum t.scnt),
    (str "ScopeFieldSpecifiers", specsTree ipfix t.scope)])

/-- `"<key>":{"Template":{…},"Timestamp":<ts key>}` -/
def entryMember (ipfix : Bool) (ts : CKey → Int) (e : CKey × Template) : Bytes × Json :=
  (escString e.1.2, .obj (objOf [
    (str "Template", templateTree ipfix e.2),
    (str "Timestamp", .num (intDigits (ts e.1)))]))

/-- shard `i`: `{"Templates":{…the entries of shard i, keys in string order, escaped as `encoding/json` does…}}` -/
def shardTree (ipfix : Bool) (ts : CKey → Int) (c : Cache) (i : Nat) : Json :=
  .obj (objOf [(str "Templates",
    .obj (objOf ((sortEntries (c.filter fun e => e.1.1 = i)).map (entryMember ipfix ts))))])

/-- **the cache file**: `{"Cache":[shard 0,…,shard 31],"ShardNo":32}` -/
def dumpTree (ipfix : Bool) (ts : CKey → Int) (c : Cache) : Json :=
  .obj (objOf [
    (str "Cache", .arr (listOf ((List.range 32).map (shardTree ipfix ts c)))),
    (str "ShardNo", .num (str "32"))])

/-! ## The model's octets are the rendering of the tree -/

theorem render_obj_objOf (l : List (Bytes × Json)) :
    render (.obj (objOf l)) = [123] ++ joinSep 44 (l.map memberText) ++ [125] := by
  simp only [render, renderMembers_objOf]

theorem render_arr_listOf (l : List Json) :
    render (.arr (listOf l)) = [91] ++ joinSep 44 (l.map render) ++ [93] := by
  simp only [render, renderList_listOf]

theorem str_null : str "null" = [110, 117, 108, 108] := by decide +kernel

theorem render_specTree (ipfix : Bool) (s : Spec) : render (specTree ipfix s) = specJson ipfix s := by
  cases ipfix <;>
    simp [specTree, render_obj_objOf, joinSep, memberText, specJson, kw, jnum, render, q]

theorem render_specsTree (ipfix : Bool) (l : List Spec) : render (specsTree ipfix l) = specsJson ipfix l := by
  cases l with
  | nil => simp only [specsTree, specsJson, render, str_null]
  | cons s l =>
    have hm : (render ∘ specTree ipfix) = specJson ipfix := by
      funext x; exact render_specTree ipfix x
    simp only [specsTree, specsJson, render_arr_listOf, List.map_map, hm]

theorem render_templateTree (ipfix : Bool) (t : Template) : render (templateTree ipfix t) = templateJson ipfix t := by
  simp [templateTree, render_obj_objOf, joinSep, memberText, templateJson, kw, jnum, render, q, render_specsTree]

theorem memberText_entryMember (ipfix : Bool) (ts : CKey → Int) (e : CKey × Template) :
    memberText (entryMember ipfix ts e) = entryJsonTs ipfix ts e := by
  simp [entryMember, render_obj_objOf, joinSep, memberText, entryJsonTs, kw, render, q, render_templateTree]

theorem render_shardTree (ipfix : Bool) (ts : CKey → Int) (c : Cache) (i : Nat) :
    render (shardTree ipfix ts c i) = shardJsonTs ipfix ts c i := by
  have hm : (memberText ∘ entryMember ipfix ts) = entryJsonTs ipfix ts := by
    funext e; exact memberText_entryMember ipfix ts e
  simp [shardTree, render_obj_objOf, joinSep, memberText, shardJsonTs, kw, q, List.map_map, hm]

/-- **the file is the rendering of its tree** -/
theorem dumpJsonTs_eq_render (ipfix : Bool) (ts : CKey → Int) (c : Cache) :
    dumpJsonTs ipfix ts c = render (dumpTree ipfix ts c) := by
  have hm : (render ∘ shardTree ipfix ts c) = shardJsonTs ipfix ts c := by
    funext i; exact render_shardTree ipfix ts c i
  simp [dumpTree, render_obj_objOf, renderList_listOf, joinSep, memberText, dumpJsonTs, kw, q, List.map_map, hm, render]

/-- with all timestamps 0 this is the canonical dump the correspondence compares -/
theorem dumpJsonTs_zero (ipfix : Bool) (c : Cache) : dumpJson ipfix c = dumpJsonTs ipfix (fun _ => 0) c := by
  have h0 : intDigits 0 = [48] := by decide +kernel
  have he : entryJsonTs ipfix (fun _ => 0) = entryJson ipfix := by
    funext e; simp only [entryJsonTs, entryJson, h0]
  have hs : shardJsonTs ipfix (fun _ => 0) c = shardJson ipfix c := by
    funext i; simp only [shardJsonTs, shardJson, he]
  simp only [dumpJson, dumpJsonTs, hs]

/-! ## The tree is well-formed -/

theorem wf_jnum (n : Nat) : WF (jnum n) := by
  simp only [jnum, WF]; exact natDigits_isNumber n

theorem wf_specTree (ipfix : Bool) (s : Spec) : WF (specTree ipfix s) := by
  cases ipfix
  · simp only [specTree, objOf, WF, WFM, List.append_nil, Bool.false_eq_true, if_false]
    exact ⟨by decide +kernel, wf_jnum _, by decide +kernel, wf_jnum _, trivial⟩
  · simp only [specTree, objOf, WF, WFM, if_true, List.cons_append, List.nil_append]
    exact ⟨by decide +kernel, wf_jnum _, by decide +kernel, wf_jnum _, by decide +kernel, wf_jnum _, trivial⟩

theorem wf_specsTree (ipfix : Bool) (l : List Spec) : WF (specsTree ipfix l) := by
  cases l with
  | nil => simp only [specsTree, WF]
  | cons s l =>
    simp only [specsTree, WF]
    apply wfl_listOf
    intro x hx
    obtain ⟨y, _, rfl⟩ := List.mem_map.mp hx
    exact wf_specTree ipfix y

theorem wf_templateTree (ipfix : Bool) (t : Template) : WF (templateTree ipfix t) := by
  simp only [templateTree, objOf, WF, WFM]
  exact ⟨by decide +kernel, wf_jnum _, by decide +kernel, wf_jnum _, by decide +kernel, wf_specsTree _ _,
    by decide +kernel, wf_jnum _, by decide +kernel, wf_specsTree _ _, trivial⟩

theorem wf_entryMember (ipfix : Bool) (ts : CKey → Int) (e : CKey × Template) :
    isStrBody (entryMember ipfix ts e).1 = true ∧ WF (entryMember ipfix ts e).2 := by
  refine ⟨escString_isStrBody e.1.2, ?_⟩
  simp only [entryMember, objOf, WF, WFM]
  exact ⟨by decide +kernel, wf_templateTree _ _, by decide +kernel, intDigits_isNumber _, trivial⟩

theorem wf_shardTree (ipfix : Bool) (ts : CKey → Int) (c : Cache) (i : Nat) : WF (shardTree ipfix ts c i) := by
  simp only [shardTree, objOf, WF, WFM]
  refine ⟨by decide +kernel, ?_, trivial⟩
  apply wfm_objOf
  intro kv hkv
  obtain ⟨e, _, rfl⟩ := List.mem_map.mp hkv
  exact wf_entryMember ipfix ts e

theorem dumpTree_wf (ipfix : Bool) (ts : CKey → Int) (c : Cache) : WF (dumpTree ipfix ts c) := by
  simp only [dumpTree, objOf, WF, WFM]
  refine ⟨by decide +kernel, ?_, by decide +kernel, by decide +kernel, trivial⟩
  apply wfl_listOf
  intro x hx
  obtain ⟨i, _, rfl⟩ := List.mem_map.mp hx
  exact wf_shardTree ipfix ts c i

/-! ## The tree is 8 deep at most -/

theorem depth_specTree (ipfix : Bool) (s : Spec) : depth (specTree ipfix s) ≤ 1 := by
  cases ipfix <;> simp [specTree, objOf, depth, depthM, jnum]

theorem depth_specsTree (ipfix : Bool) (l : List Spec) : depth (specsTree ipfix l) ≤ 2 := by
  cases l with
  | nil => simp [specsTree, depth]
  | cons s l =>
    simp only [specsTree, depth]
    have := depthL_listOf 1 ((s :: l).map (specTree ipfix)) (by
      intro x hx
      obtain ⟨y, _, rfl⟩ := List.mem_map.mp hx
      exact depth_specTree ipfix y)
    omega

theorem depth_templateTree (ipfix : Bool) (t : Template) : depth (templateTree ipfix t) ≤ 3 := by
  have h1 := depth_specsTree ipfix t.fields
  have h2 := depth_specsTree ipfix t.scope
  simp only [templateTree, objOf, depth, depthM, jnum]
  omega

theorem depth_entryMember (ipfix : Bool) (ts : CKey → Int) (e : CKey × Template) :
    depth (entryMember ipfix ts e).2 ≤ 4 := by
  have h1 := depth_templateTree ipfix e.2
  simp only [entryMember, objOf, depth, depthM]
  omega

theorem depth_shardTree (ipfix : Bool) (ts : CKey → Int) (c : Cache) (i : Nat) : depth (shardTree ipfix ts c i) ≤ 6 := by
  have := depthM_objOf 4 ((sortEntries (c.filter fun e => e.1.1 = i)).map (entryMember ipfix ts)) (by
    intro kv hkv
    obtain ⟨e, _, rfl⟩ := List.mem_map.mp hkv
    exact depth_entryMember ipfix ts e)
  simp only [shardTree, objOf, depth, depthM]
  omega

theorem dumpTree_depth (ipfix : Bool) (ts : CKey → Int) (c : Cache) : depth (dumpTree ipfix ts c) ≤ 8 := by
  have := depthL_listOf 6 ((List.range 32).map (shardTree ipfix ts c)) (by
    intro x hx
    obtain ⟨i, _, rfl⟩ := List.mem_map.mp hx
    exact depth_shardTree ipfix ts c i)
  simp only [dumpTree, objOf, depth, depthM]
  omega

/-! ## The cache file is accepted; no proper prefix of it is -/

/-- **the file `Dump` writes is accepted by the scanner**, whatever the cache and the timestamps -/
theorem dump_valid (ipfix : Bool) (ts : CKey → Int) (c : Cache) : jsonValid (dumpJsonTs ipfix ts c) = true := by
  rw [dumpJsonTs_eq_render]
  exact render_valid _ (dumpTree_wf ipfix ts c)
    (Nat.le_trans (dumpTree_depth ipfix ts c) (by decide))

/-- **every proper prefix of the file `Dump` writes is rejected by the scanner** -/
theorem dump_prefix_rejected (ipfix : Bool) (ts : CKey → Int) (c : Cache) (n : Nat)
    (h : n < (dumpJsonTs ipfix ts c).length) : jsonValid ((dumpJsonTs ipfix ts c).take n) = false := by
  rw [dumpJsonTs_eq_render] at h ⊢
  exact render_prefix_rejected _ (dumpTree_wf ipfix ts c)
    (Nat.le_trans (dumpTree_depth ipfix ts c) (by decide)) rfl n h

end Vflow.JsonPrefix
