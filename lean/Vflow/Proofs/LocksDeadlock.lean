import Vflow.Proofs.Locks
/-! Deadlock freedom under ordered lock acquisition (also under Go's writer preference), and
termination of every schedule. Core Lean only. -/
namespace Vflow
namespace Locks

theorem exists_max {α : Type} (f : α → Nat) (P : α → Prop) :
    ∀ l : List α, (∃ x ∈ l, P x) → ∃ x ∈ l, P x ∧ ∀ y ∈ l, P y → f y ≤ f x := by
  intro l
  induction l with
  | nil => rintro ⟨x, hx, _⟩; simp at hx
  | cons a l ih =>
    intro h
    by_cases ht : ∃ x ∈ l, P x
    · obtain ⟨m, hm, hpm, hmax⟩ := ih ht
      by_cases hpa : P a
      · by_cases hle : f a ≤ f m
        · refine ⟨m, List.mem_cons_of_mem _ hm, hpm, ?_⟩
          intro y hy hpy
          rcases List.mem_cons.mp hy with rfl | hy
          · exact hle
          · exact hmax y hy hpy
        · refine ⟨a, List.mem_cons_self, hpa, ?_⟩
          intro y hy hpy
          rcases List.mem_cons.mp hy with rfl | hy
          · exact Nat.le_refl _
          · exact Nat.le_trans (hmax y hy hpy) (by omega)
      · refine ⟨m, List.mem_cons_of_mem _ hm, hpm, ?_⟩
        intro y hy hpy
        rcases List.mem_cons.mp hy with rfl | hy
        · exact absurd hpy hpa
        · exact hmax y hy hpy
    · obtain ⟨x, hx, hpx⟩ := h
      rcases List.mem_cons.mp hx with rfl | hx
      · refine ⟨x, List.mem_cons_self, hpx, ?_⟩
        intro y hy hpy
        rcases List.mem_cons.mp hy with rfl | hy
        · exact Nat.le_refl _
        · exact absurd ⟨y, hy, hpy⟩ ht
      · exact absurd ⟨x, hx, hpx⟩ ht

/-- the shard a thread is about to lock (0 when its next action is not an acquisition) -/
def tgt (t : Thread) : Nat :=
  match t.prog with
  | .lock s :: _ => s
  | .rlock s :: _ => s
  | _ => 0

theorem enabledStrict_enabled {σ : Sys} {a : Act} (h : EnabledStrict σ a) : Enabled σ a := by
  cases a <;> simp only [EnabledStrict, Enabled] at * <;> first | exact h | exact h.1

/-- a step allowed under writer preference is a step -/
theorem stepStrict_step {σ σ' : Sys} {i : Nat} {a : Act} (h : StepStrict σ i a σ') : Step σ i a σ' := by
  obtain ⟨t, p, hi, hp, hen, rfl⟩ := h
  exact ⟨t, p, hi, hp, enabledStrict_enabled hen, rfl⟩

theorem mk_step {σ : Sys} {t : Thread} {a : Act} {p : List Act} (ht : t ∈ σ.threads) (hp : t.prog = a :: p)
    (hen : EnabledStrict σ a) : ∃ i a σ', StepStrict σ i a σ' := by
  obtain ⟨i, hi⟩ := List.getElem?_of_mem ht
  exact ⟨i, a, _, t, p, hi, hp, hen, rfl⟩

/-- **deadlock freedom**: under the invariant (locks taken in increasing shard order, nothing held
at the end) a state with an unfinished thread always has an enabled step — even when `RLock` is
additionally blocked by waiting writers, as in Go -/
theorem deadlock_free {σ : Sys} (h : LInv σ) (hne : ∃ t ∈ σ.threads, t.prog ≠ []) :
    ∃ i a σ', StepStrict σ i a σ' := by
  -- 1. some thread's next action is not an acquisition: it never blocks
  by_cases h1 : ∃ t ∈ σ.threads, ∃ a p, t.prog = a :: p ∧ isAcq a = false
  · obtain ⟨t, ht, a, p, hp, ha⟩ := h1
    refine mk_step ht hp ?_
    cases a <;> simp [isAcq] at ha <;> simp [EnabledStrict]
  -- 2. every unfinished thread is about to lock; take one whose target shard is maximal
  have hall : ∀ t ∈ σ.threads, ∀ a p, t.prog = a :: p → isAcq a = true := by
    intro t ht a p hp
    cases hq : isAcq a with
    | true => rfl
    | false => exact absurd ⟨t, ht, a, p, hp, hq⟩ h1
  obtain ⟨m, hm, hpm, hmax⟩ := exists_max tgt (fun t => t.prog ≠ []) σ.threads hne
  -- nobody holds the maximal target
  have hfree : ∀ u ∈ σ.threads, tgt m ∉ u.held.w ∧ tgt m ∉ u.held.r := by
    intro u hu
    have key : ∀ x, (x ∈ u.held.w ∨ x ∈ u.held.r) → x < tgt m ∨ x ≠ tgt m := by
      intro x hx
      have wu := h.wbAll u hu
      cases hpu : u.prog with
      | nil =>
        rw [hpu] at wu
        have := wb_nil wu
        rcases hx with hx | hx
        · rw [this.1] at hx; simp at hx
        · rw [this.2] at hx; simp at hx
      | cons b q =>
        have hb := hall u hu b q hpu
        have hle := hmax u hu (by rw [hpu]; simp)
        rw [hpu] at wu
        cases b <;> simp [isAcq] at hb
        case lock s =>
          have ht : tgt u = s := by simp [tgt, hpu]
          have := wb_lock wu
          left
          rcases hx with hx | hx
          · have := this.1 x hx; omega
          · have := this.2 x hx; omega
        case rlock s =>
          have ht : tgt u = s := by simp [tgt, hpu]
          have := wb_rlock wu
          left
          rcases hx with hx | hx
          · have := this.1 x hx; omega
          · have := this.2 x hx; omega
    constructor
    · intro hc
      rcases key _ (Or.inl hc) with h' | h'
      · exact Nat.lt_irrefl _ h'
      · exact h' rfl
    · intro hc
      rcases key _ (Or.inr hc) with h' | h'
      · exact Nat.lt_irrefl _ h'
      · exact h' rfl
  have hnw : ¬ writerHeld σ (tgt m) := fun ⟨u, hu, hc⟩ => (hfree u hu).1 hc
  have hnr : ¬ readerHeld σ (tgt m) := fun ⟨u, hu, hc⟩ => (hfree u hu).2 hc
  cases hpm' : m.prog with
  | nil => exact absurd hpm' hpm
  | cons a p =>
    have ha := hall m hm a p hpm'
    cases a <;> simp [isAcq] at ha
    case lock s =>
      have ht : tgt m = s := by simp [tgt, hpm']
      refine mk_step hm hpm' ?_
      rw [← ht]
      exact ⟨hnw, hnr⟩
    case rlock s =>
      have ht : tgt m = s := by simp [tgt, hpm']
      by_cases hww : writerWaiting σ s
      · -- a writer waits for the same shard: it can take it
        obtain ⟨w, hw, hhead⟩ := hww
        cases hpw : w.prog with
        | nil => rw [hpw] at hhead; simp at hhead
        | cons b q =>
          rw [hpw] at hhead
          simp at hhead
          subst hhead
          refine mk_step hw hpw ?_
          rw [← ht]
          exact ⟨hnw, hnr⟩
      · refine mk_step hm hpm' ?_
        rw [← ht] at hww ⊢
        exact ⟨hnw, hww⟩

/-! ### every schedule terminates -/

/-- actions still to be executed, over all threads -/
def remaining (σ : Sys) : Nat := (σ.threads.map (·.prog.length)).sum

theorem sum_map_set {α : Type} (f : α → Nat) : ∀ (l : List α) (i : Nat) (t x : α), l[i]? = some t →
    ((l.set i x).map f).sum + f t = (l.map f).sum + f x := by
  intro l
  induction l with
  | nil => intro i t x h; simp at h
  | cons a l ih =>
    intro i t x h
    cases i with
    | zero =>
      simp at h
      subst h
      simp [List.set]
      omega
    | succ i =>
      simp at h
      have := ih i t x h
      simp only [List.set, List.map_cons, List.sum_cons]
      omega

theorem step_remaining {σ σ' : Sys} {i : Nat} {a : Act} (st : Step σ i a σ') :
    remaining σ' + 1 = remaining σ := by
  obtain ⟨t, p, hi, hp, _, rfl⟩ := st
  have := sum_map_set (fun t : Thread => t.prog.length) σ.threads i t
    ⟨heldAfter t.held a, p, obsAfter σ.mem t.obs a⟩ hi
  simp only [remaining, after]
  rw [hp] at this
  simp only [List.length_cons] at this
  omega

/-- the number of steps taken plus the actions still to do is constant: no schedule is longer than
the total program length -/
theorem run_length {init cur : Sys} {hist : List Ev} (hr : Run init hist cur) :
    hist.length + remaining cur = remaining init := by
  induction hr with
  | start => simp
  | step _ st ih =>
    have := step_remaining st
    simp only [List.length_cons]
    omega

end Locks
end Vflow
