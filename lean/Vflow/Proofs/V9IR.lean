import Vflow.Model.V9Prog
import Vflow.Proofs.IpfixIR
import Vflow.Proofs.EqnsV9
import Vflow.Proofs.FuelV9
/-!
# Lemmas: the interpreted translation of `netflow/v9/decoder.go` is the model (`Vflow.V9`)

Same method as `Proofs/IpfixIR*.lean` (the IR, the interpreter, `ir_simp` and the reader / field lemmas are shared):
`minRecordLen`, `decodeData` (read first, then the element lookup; no variable-length fields), the `unmarshal`
functions.
-/
set_option linter.unusedSimpArgs false
namespace Vflow.V9IR
open Vflow Vflow.IpfixIR
attribute [local irreducible] Vflow.lookupElem

/-! ## `minRecordLen` -/

def mrl (i : Nat) : Stmt := Gen.V9IR.minRecordLen.body.nth i

theorem mrl_body : Gen.V9IR.minRecordLen.body = blk [mrl 0, mrl 1, mrl 2, mrl 3, mrl 4] := rfl
theorem mrl1_shape : mrl 1 = .range 2 (.field (.var 0) "ScopeFieldSpecifiers") (mrl 1).loopBody := rfl
theorem mrl2_shape : mrl 2 = .range 3 (.field (.var 0) "FieldSpecifiers") (mrl 2).loopBody := rfl

section
variable (addr : Bytes) (fuel : Nat) (st : St) (t : Template)

theorem mrl1_body (s : Spec) (n : Nat) (y : V) :
    exec addr [] fuel (mrl 1).loopBody st [.tpl t, .int n, .spec s, y] =
      some (.norm, st, [.tpl t, .int (n + s.len), .spec s, y]) := by
  ir_simp [mrl, Stmt.nth, Stmt.items, Stmt.loopBody, Gen.V9IR.minRecordLen]

theorem mrl2_body (s : Spec) (n : Nat) (x : V) :
    exec addr [] fuel (mrl 2).loopBody st [.tpl t, .int n, x, .spec s] =
      some (.norm, st, [.tpl t, .int (n + s.len), x, .spec s]) := by
  ir_simp [mrl, Stmt.nth, Stmt.items, Stmt.loopBody, Gen.V9IR.minRecordLen]

theorem mrl_range1 (y : V) (l : List Spec) (n : Nat) (x : V) :
    ∃ x', rangeF 2 (exec addr [] fuel (mrl 1).loopBody) (l.map .spec) st [.tpl t, .int n, x, y] =
      some (.norm, st, [.tpl t, .int (n + (l.map (·.len)).sum), x', y]) := by
  induction l generalizing n x with
  | nil => exact ⟨x, by simp [rangeF]⟩
  | cons s l ih =>
    obtain ⟨x', hx⟩ := ih (n + s.len) (.spec s)
    refine ⟨x', ?_⟩
    simp only [List.map_cons, rangeF, List.length_cons, List.length_nil, List.set_cons_succ, List.set_cons_zero,
      mrl1_body, List.sum_cons]
    simp only [show (2 < 0 + 1 + 1 + 1 + 1) from by omega, if_true, hx, Nat.add_assoc]

theorem mrl_range2 (x : V) (l : List Spec) (n : Nat) (y : V) :
    ∃ y', rangeF 3 (exec addr [] fuel (mrl 2).loopBody) (l.map .spec) st [.tpl t, .int n, x, y] =
      some (.norm, st, [.tpl t, .int (n + (l.map (·.len)).sum), x, y']) := by
  induction l generalizing n y with
  | nil => exact ⟨y, by simp [rangeF]⟩
  | cons s l ih =>
    obtain ⟨y', hy⟩ := ih (n + s.len) (.spec s)
    refine ⟨y', ?_⟩
    simp only [List.map_cons, rangeF, List.length_cons, List.length_nil, List.set_cons_succ, List.set_cons_zero,
      mrl2_body, List.sum_cons]
    simp only [show (3 < 0 + 1 + 1 + 1 + 1) from by omega, if_true, hy, Nat.add_assoc]

end

theorem minRecordLen_sem (addr : Bytes) (fuel : Nat) (st : St) (t : Template) :
    V9Prog.minRecordLen addr fuel [.tpl t] st = some (st, [.tpl t], [.int (V9.minRecLen t)]) := by
  unfold V9Prog.minRecordLen Func.sem
  have henv : ([V.tpl t] ++ List.replicate (Gen.V9IR.minRecordLen.nslots - [V.tpl t].length) V.unset) =
      [.tpl t, .unset, .unset, .unset] := rfl
  rw [henv, mrl_body]
  obtain ⟨x1, h1⟩ := mrl_range1 addr fuel st t .unset t.scope 0 .unset
  obtain ⟨x2, h2⟩ := mrl_range2 addr fuel st t x1 t.fields (t.scope.map (·.len)).sum .unset
  rw [Nat.zero_add] at h1
  have e0 : exec addr [] fuel (mrl 0) st [.tpl t, .unset, .unset, .unset] = some (.norm, st, [.tpl t, .int 0, .unset, .unset]) := by
    ir_simp [mrl, Stmt.nth, Stmt.items, Gen.V9IR.minRecordLen]
  have e1 : exec addr [] fuel (mrl 1) st [.tpl t, .int 0, .unset, .unset] =
      some (.norm, st, [.tpl t, .int ((t.scope.map (·.len)).sum), x1, .unset]) := by
    rw [mrl1_shape]; simp only [exec, eval, List.getElem?_cons_zero, Option.bind_some, f_tpl_scope, elemsV, h1]
  have e2 : exec addr [] fuel (mrl 2) st [.tpl t, .int ((t.scope.map (·.len)).sum), x1, .unset] =
      some (.norm, st, [.tpl t, .int ((t.scope.map (·.len)).sum + (t.fields.map (·.len)).sum), x1, x2]) := by
    rw [mrl2_shape]; simp only [exec, eval, List.getElem?_cons_zero, Option.bind_some, f_tpl_fields, elemsV, h2]
  have e3 : ∀ n, exec addr [] fuel (mrl 3) st [.tpl t, .int n, x1, x2] =
      some (.norm, st, [.tpl t, .int (if n < 1 then 1 else n), x1, x2]) := by
    intro n
    by_cases h : n < 1 <;> ir_simp [mrl, Stmt.nth, Stmt.items, Gen.V9IR.minRecordLen, h]
  have e4 : ∀ n, exec addr [] fuel (mrl 4) st [.tpl t, .int n, x1, x2] = some (.ret [.int n], st, [.tpl t, .int n, x1, x2]) := by
    intro n
    ir_simp [mrl, Stmt.nth, Stmt.items, Gen.V9IR.minRecordLen]
  simp only [blk, exec, e0, e1, e2, e3, e4]
  simp [Gen.V9IR.minRecordLen, readSlots, refSlots, V9.minRecLen, List.sum_append, List.filter, ParamKind.hasSlot]

/-! ## `decodeData` -/

/-- one step of `V9.decFields`: the read, then the element lookup -/
def decField (f : Spec) (r : Rd) : Except Err DField × Rd :=
  match r.readN f.len with
  | none => (.error .short, r)
  | some (b, r1) =>
    match lookupElem 0 f.id with
    | none => (.error .unknownElem, r1)
    | some (fid, ty) => (.ok ⟨fid, 0, interpret b ty⟩, r1)

theorem decFields_cons (f : Spec) (fs : List Spec) (r : Rd) (acc : Record) :
    V9.decFields (f :: fs) r acc =
      match decField f r with
      | (.error e, r') => (.error e, r')
      | (.ok d, r') => V9.decFields fs r' (acc ++ [d]) := by
  unfold decField
  rw [V9.decFields_cons]
  rcases r.readN f.len with _ | ⟨b, r1⟩
  · rfl
  · simp only []
    generalize lookupElem 0 f.id = o
    rcases o with _ | ⟨fid, ty⟩ <;> rfl

theorem decFields_append (a b : List Spec) (r : Rd) (acc : Record) :
    V9.decFields (a ++ b) r acc =
      match V9.decFields a r acc with
      | (.error e, r') => (.error e, r')
      | (.ok acc', r') => V9.decFields b r' acc' := by
  induction a generalizing r acc with
  | nil => simp [V9.decFields_nil]
  | cons f fs ih =>
    rw [List.cons_append, decFields_cons, decFields_cons]
    rcases decField f r with ⟨e | d, r'⟩
    · rfl
    · exact ih r' _

def dd (i : Nat) : Stmt := Gen.V9IR.decodeData.body.nth i
theorem dd_body : Gen.V9IR.decodeData.body = blk [dd 0, dd 1, dd 2, dd 3, dd 4, dd 5, dd 6, dd 7] := rfl

section
variable (addr : Bytes) (fuel : Nat) (c : Cache) (t : Template)

/-- outcome of one iteration of the first loop (slots 4, 5, 6 are its `i`, `m`, `ok`) -/
def Body1Out (res : Except Err DField × Rd) (acc : Record) (i : Nat) (x7 x8 x9 : V) (out : Res) : Prop :=
  match res with
  | (.ok d, r') => ∃ j2 j3 j5 j6,
      out = some (.norm, ⟨r', c⟩, [.tpl t, .drec (acc ++ [d]), j2, j3, .int i, j5, j6, x7, x8, x9])
  | (.error e, r') => ∃ env', out = some (.ret [.nil, .err ⟨e.nonfatal, e⟩], ⟨r', c⟩, env')

theorem dd_body1 (r : Rd) (acc : Record) (i : Nat) (f : Spec) (e2 e3 e5 e6 x7 x8 x9 : V)
    (hf : t.scope[i]? = some f) :
    Body1Out c t (decField f r) acc i x7 x8 x9
      (exec addr [] fuel (dd 4).loopBody ⟨r, c⟩ [.tpl t, .drec acc, e2, e3, .int i, e5, e6, x7, x8, x9]) := by
  unfold decField Body1Out
  rcases hr : r.readN f.len with _ | ⟨b, r1⟩
  · simp only []
    rw [exists_env_iff]
    ir_simp [dd, Stmt.nth, Stmt.items, Stmt.loopBody, Gen.V9IR.decodeData, hf, hr, Err.nonfatal]
  · simp only []
    generalize hl : lookupElem 0 f.id = o
    rcases o with _ | ⟨fid, ty⟩
    · simp only []
      rw [exists_env_iff]
      ir_simp [dd, Stmt.nth, Stmt.items, Stmt.loopBody, Gen.V9IR.decodeData, hf, hr, hl, builtin_infoModel, Err.nonfatal]
    · refine ⟨.nil, .bytes b, .elem fid ty, .bool true, ?_⟩
      ir_simp [dd, Stmt.nth, Stmt.items, Stmt.loopBody, Gen.V9IR.decodeData, hf, hr, hl, builtin_infoModel]

theorem dd4_shape : dd 4 = .loop (dd 4).loopCond (dd 4).loopBody (dd 4).loopPost := rfl

theorem dd4_cond (st : St) (acc : Record) (i : Nat) (e2 e3 e5 e6 x7 x8 x9 : V) :
    eval addr st [.tpl t, .drec acc, e2, e3, .int i, e5, e6, x7, x8, x9] (dd 4).loopCond =
      some (.bool (decide (i < t.scope.length))) := by
  ir_simp [dd, Stmt.nth, Stmt.items, Stmt.loopCond, Gen.V9IR.decodeData]

theorem dd4_post (st : St) (acc : Record) (i : Nat) (e2 e3 e5 e6 x7 x8 x9 : V) :
    exec addr [] fuel (dd 4).loopPost st [.tpl t, .drec acc, e2, e3, .int i, e5, e6, x7, x8, x9] =
      some (.norm, st, [.tpl t, .drec acc, e2, e3, .int (i + 1), e5, e6, x7, x8, x9]) := by
  ir_simp [dd, Stmt.nth, Stmt.items, Stmt.loopPost, Gen.V9IR.decodeData]

/-- outcome of the first loop -/
def Loop1Out (res : Except Err Record × Rd) (x7 x8 x9 : V) (out : Res) : Prop :=
  match res with
  | (.ok acc', r') => ∃ j2 j3 j5 j6,
      out = some (.norm, ⟨r', c⟩, [.tpl t, .drec acc', j2, j3, .int t.scope.length, j5, j6, x7, x8, x9])
  | (.error e, r') => ∃ env', out = some (.ret [.nil, .err ⟨e.nonfatal, e⟩], ⟨r', c⟩, env')

theorem dd_loop1 (x7 x8 x9 : V) : ∀ (m i k : Nat) (r : Rd) (acc : Record) (e2 e3 e5 e6 : V),
    i + m = t.scope.length → m < k →
    Loop1Out c t (V9.decFields (t.scope.drop i) r acc) x7 x8 x9
      (loopF (fun st env => eval addr st env (dd 4).loopCond) (exec addr [] fuel (dd 4).loopBody)
        (exec addr [] fuel (dd 4).loopPost) k ⟨r, c⟩ [.tpl t, .drec acc, e2, e3, .int i, e5, e6, x7, x8, x9]) := by
  intro m
  induction m with
  | zero =>
    intro i k r acc e2 e3 e5 e6 hi hk
    obtain ⟨k, rfl⟩ : ∃ k', k = k' + 1 := ⟨k - 1, by omega⟩
    have hd : t.scope.drop i = [] := List.drop_eq_nil_of_le (by omega)
    rw [hd, V9.decFields_nil]
    have : ¬ (i < t.scope.length) := by omega
    simp only [Loop1Out, loopF, dd4_cond, this, decide_false]
    exact ⟨e2, e3, e5, e6, by rw [show i = t.scope.length from by omega]⟩
  | succ m ih =>
    intro i k r acc e2 e3 e5 e6 hi hk
    obtain ⟨k, rfl⟩ : ∃ k', k = k' + 1 := ⟨k - 1, by omega⟩
    have hlt : i < t.scope.length := by omega
    have hd : t.scope.drop i = t.scope[i] :: t.scope.drop (i + 1) := List.drop_eq_getElem_cons hlt
    have hf : t.scope[i]? = some t.scope[i] := List.getElem?_eq_getElem hlt
    rw [hd, decFields_cons]
    have hb := dd_body1 addr fuel c t r acc i t.scope[i] e2 e3 e5 e6 x7 x8 x9 hf
    simp only [loopF, dd4_cond, hlt, decide_true]
    rcases hdf : decField t.scope[i] r with ⟨e | d, r'⟩
    · simp only [hdf, Body1Out] at hb
      obtain ⟨env', hb⟩ := hb
      simp only [hb, Loop1Out]
      exact ⟨env', rfl⟩
    · simp only [hdf, Body1Out] at hb
      obtain ⟨j2, j3, j5, j6, hb⟩ := hb
      simp only [hb, dd4_post]
      exact ih (i + 1) k r' (acc ++ [d]) j2 j3 j5 j6 (by omega) (by omega)

/-- outcome of one iteration of the second loop (slots 7, 8, 9 are its `i`, `m`, `ok`) -/
def Body2Out (res : Except Err DField × Rd) (acc : Record) (i : Nat) (x4 x5 x6 : V) (out : Res) : Prop :=
  match res with
  | (.ok d, r') => ∃ j2 j3 j8 j9,
      out = some (.norm, ⟨r', c⟩, [.tpl t, .drec (acc ++ [d]), j2, j3, x4, x5, x6, .int i, j8, j9])
  | (.error e, r') => ∃ env', out = some (.ret [.nil, .err ⟨e.nonfatal, e⟩], ⟨r', c⟩, env')

theorem dd_body2 (r : Rd) (acc : Record) (i : Nat) (f : Spec) (e2 e3 e8 e9 x4 x5 x6 : V)
    (hf : t.fields[i]? = some f) :
    Body2Out c t (decField f r) acc i x4 x5 x6
      (exec addr [] fuel (dd 6).loopBody ⟨r, c⟩ [.tpl t, .drec acc, e2, e3, x4, x5, x6, .int i, e8, e9]) := by
  unfold decField Body2Out
  rcases hr : r.readN f.len with _ | ⟨b, r1⟩
  · simp only []
    rw [exists_env_iff]
    ir_simp [dd, Stmt.nth, Stmt.items, Stmt.loopBody, Gen.V9IR.decodeData, hf, hr, Err.nonfatal]
  · simp only []
    generalize hl : lookupElem 0 f.id = o
    rcases o with _ | ⟨fid, ty⟩
    · simp only []
      rw [exists_env_iff]
      ir_simp [dd, Stmt.nth, Stmt.items, Stmt.loopBody, Gen.V9IR.decodeData, hf, hr, hl, builtin_infoModel, Err.nonfatal]
    · refine ⟨.nil, .bytes b, .elem fid ty, .bool true, ?_⟩
      ir_simp [dd, Stmt.nth, Stmt.items, Stmt.loopBody, Gen.V9IR.decodeData, hf, hr, hl, builtin_infoModel]

theorem dd6_shape : dd 6 = .loop (dd 6).loopCond (dd 6).loopBody (dd 6).loopPost := rfl

theorem dd6_cond (st : St) (acc : Record) (i : Nat) (e2 e3 e8 e9 x4 x5 x6 : V) :
    eval addr st [.tpl t, .drec acc, e2, e3, x4, x5, x6, .int i, e8, e9] (dd 6).loopCond =
      some (.bool (decide (i < t.fields.length))) := by
  ir_simp [dd, Stmt.nth, Stmt.items, Stmt.loopCond, Gen.V9IR.decodeData]

theorem dd6_post (st : St) (acc : Record) (i : Nat) (e2 e3 e8 e9 x4 x5 x6 : V) :
    exec addr [] fuel (dd 6).loopPost st [.tpl t, .drec acc, e2, e3, x4, x5, x6, .int i, e8, e9] =
      some (.norm, st, [.tpl t, .drec acc, e2, e3, x4, x5, x6, .int (i + 1), e8, e9]) := by
  ir_simp [dd, Stmt.nth, Stmt.items, Stmt.loopPost, Gen.V9IR.decodeData]

/-- outcome of the second loop -/
def Loop2Out (res : Except Err Record × Rd) (x4 x5 x6 : V) (out : Res) : Prop :=
  match res with
  | (.ok acc', r') => ∃ j2 j3 j8 j9,
      out = some (.norm, ⟨r', c⟩, [.tpl t, .drec acc', j2, j3, x4, x5, x6, .int t.fields.length, j8, j9])
  | (.error e, r') => ∃ env', out = some (.ret [.nil, .err ⟨e.nonfatal, e⟩], ⟨r', c⟩, env')

theorem dd_loop2 (x4 x5 x6 : V) : ∀ (m i k : Nat) (r : Rd) (acc : Record) (e2 e3 e8 e9 : V),
    i + m = t.fields.length → m < k →
    Loop2Out c t (V9.decFields (t.fields.drop i) r acc) x4 x5 x6
      (loopF (fun st env => eval addr st env (dd 6).loopCond) (exec addr [] fuel (dd 6).loopBody)
        (exec addr [] fuel (dd 6).loopPost) k ⟨r, c⟩ [.tpl t, .drec acc, e2, e3, x4, x5, x6, .int i, e8, e9]) := by
  intro m
  induction m with
  | zero =>
    intro i k r acc e2 e3 e8 e9 hi hk
    obtain ⟨k, rfl⟩ : ∃ k', k = k' + 1 := ⟨k - 1, by omega⟩
    have hd : t.fields.drop i = [] := List.drop_eq_nil_of_le (by omega)
    rw [hd, V9.decFields_nil]
    have : ¬ (i < t.fields.length) := by omega
    simp only [Loop2Out, loopF, dd6_cond, this, decide_false]
    exact ⟨e2, e3, e8, e9, by rw [show i = t.fields.length from by omega]⟩
  | succ m ih =>
    intro i k r acc e2 e3 e8 e9 hi hk
    obtain ⟨k, rfl⟩ : ∃ k', k = k' + 1 := ⟨k - 1, by omega⟩
    have hlt : i < t.fields.length := by omega
    have hd : t.fields.drop i = t.fields[i] :: t.fields.drop (i + 1) := List.drop_eq_getElem_cons hlt
    have hf : t.fields[i]? = some t.fields[i] := List.getElem?_eq_getElem hlt
    rw [hd, decFields_cons]
    have hb := dd_body2 addr fuel c t r acc i t.fields[i] e2 e3 e8 e9 x4 x5 x6 hf
    simp only [loopF, dd6_cond, hlt, decide_true]
    rcases hdf : decField t.fields[i] r with ⟨e | d, r'⟩
    · simp only [hdf, Body2Out] at hb
      obtain ⟨env', hb⟩ := hb
      simp only [hb, Loop2Out]
      exact ⟨env', rfl⟩
    · simp only [hdf, Body2Out] at hb
      obtain ⟨j2, j3, j8, j9, hb⟩ := hb
      simp only [hb, dd6_post]
      exact ih (i + 1) k r' (acc ++ [d]) j2 j3 j8 j9 (by omega) (by omega)

end

theorem decodeData_sem (addr : Bytes) (fuel : Nat) (r : Rd) (c : Cache) (t : Template)
    (hs : t.scope.length < fuel) (hf : t.fields.length < fuel) :
    V9Prog.decodeData addr fuel [.tpl t] ⟨r, c⟩ =
      some (⟨(V9.decodeData t r).2, c⟩, [], V9Prog.recResult (V9.decodeData t r).1) := by
  unfold V9Prog.decodeData Func.sem
  have henv : ([V.tpl t] ++ List.replicate (Gen.V9IR.decodeData.nslots - [V.tpl t].length) V.unset) =
      [.tpl t, .unset, .unset, .unset, .unset, .unset, .unset, .unset, .unset, .unset] := rfl
  rw [henv, dd_body]
  have e0 : ∀ (st : St) x1 x2 x3 x4 x5 x6 x7 x8 x9, exec addr [] fuel (dd 0) st [.tpl t, x1, x2, x3, x4, x5, x6, x7, x8, x9] =
      some (.norm, st, [.tpl t, .drec [], x2, x3, x4, x5, x6, x7, x8, x9]) := by
    intros; ir_simp [dd, Stmt.nth, Stmt.items, Gen.V9IR.decodeData]
  have e1 : ∀ (st : St) x1 x2 x3 x4 x5 x6 x7 x8 x9, exec addr [] fuel (dd 1) st [.tpl t, x1, x2, x3, x4, x5, x6, x7, x8, x9] =
      some (.norm, st, [.tpl t, x1, .nil, x3, x4, x5, x6, x7, x8, x9]) := by
    intros; ir_simp [dd, Stmt.nth, Stmt.items, Gen.V9IR.decodeData]
  have e2 : ∀ (st : St) x1 x2 x3 x4 x5 x6 x7 x8 x9, exec addr [] fuel (dd 2) st [.tpl t, x1, x2, x3, x4, x5, x6, x7, x8, x9] =
      some (.norm, st, [.tpl t, x1, x2, .bytes [], x4, x5, x6, x7, x8, x9]) := by
    intros; ir_simp [dd, Stmt.nth, Stmt.items, Gen.V9IR.decodeData]
  have e3 : ∀ (st : St) x1 x2 x3 x4 x5 x6 x7 x8 x9, exec addr [] fuel (dd 3) st [.tpl t, x1, x2, x3, x4, x5, x6, x7, x8, x9] =
      some (.norm, st, [.tpl t, x1, x2, x3, .int 0, x5, x6, x7, x8, x9]) := by
    intros; ir_simp [dd, Stmt.nth, Stmt.items, Gen.V9IR.decodeData]
  have e5 : ∀ (st : St) x1 x2 x3 x4 x5 x6 x7 x8 x9, exec addr [] fuel (dd 5) st [.tpl t, x1, x2, x3, x4, x5, x6, x7, x8, x9] =
      some (.norm, st, [.tpl t, x1, x2, x3, x4, x5, x6, .int 0, x8, x9]) := by
    intros; ir_simp [dd, Stmt.nth, Stmt.items, Gen.V9IR.decodeData]
  have e7 : ∀ (st : St) (fs : Record) x2 x3 x4 x5 x6 x7 x8 x9, exec addr [] fuel (dd 7) st [.tpl t, .drec fs, x2, x3, x4, x5, x6, x7, x8, x9] =
      some (.ret [.drec fs, .nil], st, [.tpl t, .drec fs, x2, x3, x4, x5, x6, x7, x8, x9]) := by
    intros; ir_simp [dd, Stmt.nth, Stmt.items, Gen.V9IR.decodeData]
  have l1 := dd_loop1 addr fuel c t .unset .unset .unset t.scope.length 0 fuel r [] .nil (.bytes []) .unset .unset (by omega) hs
  simp only [blk, exec, e0, e1, e2, e3]
  rw [dd4_shape]
  simp only [exec]
  unfold V9.decodeData
  rw [decFields_append]
  rw [List.drop_zero] at l1
  rcases h1 : V9.decFields t.scope r [] with ⟨e | acc1, r1⟩
  · simp only [h1, Loop1Out] at l1
    obtain ⟨env', l1⟩ := l1
    simp [l1, V9Prog.recResult, Gen.V9IR.decodeData, readSlots, refSlots, List.filter, ParamKind.hasSlot]
  · simp only [h1, Loop1Out] at l1
    obtain ⟨j2, j3, j5, j6, l1⟩ := l1
    have l2 := dd_loop2 addr fuel c t (.int t.scope.length) j5 j6 t.fields.length 0 fuel r1 acc1 j2 j3 .unset .unset (by omega) hf
    rw [List.drop_zero] at l2
    simp only [l1, e5]
    rw [dd6_shape]
    simp only [exec]
    rcases h2 : V9.decFields t.fields r1 acc1 with ⟨e | acc2, r2⟩
    · simp only [h2, Loop2Out] at l2
      obtain ⟨env', l2⟩ := l2
      simp [l2, V9Prog.recResult, Gen.V9IR.decodeData, readSlots, refSlots, List.filter, ParamKind.hasSlot]
    · simp only [h2, Loop2Out] at l2
      obtain ⟨k2, k3, k8, k9, l2⟩ := l2
      simp [l2, e7, V9Prog.recResult, Gen.V9IR.decodeData, readSlots, refSlots, List.filter, ParamKind.hasSlot]

end Vflow.V9IR
