import Vflow.Model.SflowCost
import Vflow.Proofs.SflowSafe
/-!
# The allocation count is linear in the datagram length
-/
namespace Vflow.Sflow
open Vflow Vflow.Packet

/-- a step is `(K, B)`-bounded: a successful step pays for its units with the octets it consumes,
a failing step costs at most `B` more than the octets that are left -/
def CostOK {α : Type} (K B : Nat) (stepCost : Bytes → Nat) (step : Bytes → Res (α × Bytes)) : Prop :=
  ∀ bs, (∀ a r, step bs = .ok (a, r) → stepCost bs + K * r.length ≤ K * bs.length) ∧
        stepCost bs ≤ K * bs.length + B

theorem loopCost_le {α : Type} {K B : Nat} {stepCost : Bytes → Nat} {step : Bytes → Res (α × Bytes)}
    (h : CostOK K B stepCost step) :
    ∀ fuel n bs, loopCost stepCost step fuel n bs ≤ K * bs.length + B ∧
      ∀ as r, loopN step fuel n bs = .ok (as, r) → loopCost stepCost step fuel n bs + K * r.length ≤ K * bs.length := by
  intro fuel
  induction fuel with
  | zero =>
    intro n bs
    cases n with
    | zero => simp [loopCost, loopN_zero]
    | succ n => simp [loopCost, loopN]
  | succ fuel ih =>
    intro n bs
    cases n with
    | zero => simp [loopCost, loopN_zero]
    | succ n =>
      obtain ⟨hok, hany⟩ := h bs
      simp only [loopCost, loopN]
      cases hs : step bs with
      | ok p =>
        obtain ⟨a, r⟩ := p
        have h1 := hok a r hs
        obtain ⟨i1, i2⟩ := ih n r
        simp only
        refine ⟨by omega, ?_⟩
        intro as r' hl
        cases hl2 : loopN step fuel n r with
        | ok q =>
          obtain ⟨as', r''⟩ := q
          rw [hl2] at hl
          simp at hl
          obtain ⟨_, rfl⟩ := hl
          have := i2 as' r'' hl2
          omega
        | err e => rw [hl2] at hl; simp at hl
        | panic => rw [hl2] at hl; simp at hl
        | fuel => rw [hl2] at hl; simp at hl
      | err e => simp; omega
      | panic => simp; omega
      | fuel => simp; omega

theorem hdrCost_le (bs : Bytes) : hdrCost bs ≤ 1503 := by
  unfold hdrCost
  split
  · split <;> omega
  · omega

theorem hdrCost_ok (bs r : Bytes) (p : RawHeader) (h : decodeSampledHeader bs = .ok (p, r)) :
    hdrCost bs + 64 * r.length + 2 ≤ 64 * (bs.length + 8) := by
  unfold decodeSampledHeader at h
  unfold hdrCost
  split at h
  · rename_i proto fl st hl r3 hrf
    simp only [hrf]
    obtain ⟨_, hlen, _⟩ := readFields_some hrf
    split at h
    · simp at h
    · rename_i hle
      simp only [hle, if_false]
      split at h
      · simp at h
      · rename_i buf r' hrr
        obtain ⟨_, hr'⟩ := readHdr_some hrr
        have hr : r = r' := by
          split at h
          · split at h <;> simp at h
            · exact h.2.symm
            · exact h.2.symm
          all_goals simp at h
        subst hr hr'
        have hsum : ([4, 4, 4, 4] : List Nat).sum = 16 := by decide
        rw [hsum] at hlen
        have hpad : (4 - hl % 4) % 4 ≤ 3 := by omega
        generalize (4 - hl % 4) % 4 = pd at *
        rw [List.length_drop]
        omega
  · simp at h

theorem mapFst_ok {α β : Type} {g : α → β} {x : Res (α × Bytes)} {b : β} {r : Bytes}
    (h : x.mapFst g = .ok (b, r)) : ∃ a, x = .ok (a, r) := by
  cases x with
  | ok p => obtain ⟨a, r'⟩ := p; simp [Res.mapFst] at h; exact ⟨a, by rw [h.2]⟩
  | err e => simp [Res.mapFst] at h
  | panic => simp [Res.mapFst] at h
  | fuel => simp [Res.mapFst] at h

theorem flowRecord_cost : CostOK 64 1505 flowRecordCost flowRecord := by
  intro bs
  unfold flowRecordCost flowRecord
  cases h1 : u32 bs with
  | none => exact ⟨by intro a r h; simp at h, by simp⟩
  | some p1 =>
    obtain ⟨fmt, r1⟩ := p1
    simp only
    cases h2 : u32 r1 with
    | none => exact ⟨by intro a r h; simp at h, by simp⟩
    | some p2 =>
      obtain ⟨len, r2⟩ := p2
      simp only
      have l1 := u32_some_length h1
      have l2 := u32_some_length h2
      by_cases f1 : fmt = 1
      · simp only [f1, if_true]
        refine ⟨?_, by have := hdrCost_le r2; omega⟩
        intro a r h
        obtain ⟨p, hp⟩ := mapFst_ok h
        have := hdrCost_ok r2 r p hp
        omega
      · by_cases f2 : fmt = 1001
        · subst f2
          simp only [show ¬ ((1001 : Nat) = 1) by decide, if_true, if_false]
          refine ⟨?_, by omega⟩
          intro a r h
          obtain ⟨p, hp⟩ := mapFst_ok h
          have := (decodeExtSwitch_good r2).2 p r hp
          omega
        · by_cases f3 : fmt = 1002
          · subst f3
            simp only [show ¬ ((1002 : Nat) = 1) by decide, show ¬ ((1002 : Nat) = 1001) by decide, if_true, if_false]
            split
            · refine ⟨?_, by omega⟩
              intro a r h
              simp at h
              obtain ⟨_, rfl⟩ := h
              rw [List.length_drop]; omega
            · refine ⟨?_, by omega⟩
              intro a r h
              obtain ⟨p, hp⟩ := mapFst_ok h
              have := (decodeExtRouter_good len r2).2 p r hp
              omega
          · simp only [f1, f2, f3, if_false]
            refine ⟨?_, by omega⟩
            intro a r h
            simp at h
            obtain ⟨_, rfl⟩ := h
            rw [List.length_drop]; omega

theorem counterRecord_cost : CostOK 64 1505 counterRecordCost counterRecord := by
  intro bs
  refine ⟨?_, by simp [counterRecordCost]⟩
  intro a r h
  have := (counterRecord_good bs).2 a r h
  simp [counterRecordCost]; omega

theorem flowSample_cost (bs : Bytes) :
    (∀ s r, decodeFlowSample bs = .ok (s, r) → flowSampleCost bs + 64 * r.length ≤ 64 * bs.length) ∧
    flowSampleCost bs ≤ 64 * bs.length + 1508 := by
  have hg := (decodeFlowSample_good bs).2
  unfold flowSampleCost
  split
  · rename_i seq sid idx rate pool drops inp out n r1 h1
    obtain ⟨_, hl1, _⟩ := readFields_some h1
    obtain ⟨c1, c2⟩ := loopCost_le flowRecord_cost (r1.length + 1) n r1
    have s1 : ([4, 1, 3, 4, 4, 4, 4, 4, 4] : List Nat).sum = 32 := by decide
    rw [s1] at hl1
    refine ⟨?_, by omega⟩
    intro s r h
    unfold decodeFlowSample at h
    simp only [h1] at h
    cases hx : loopN flowRecord (r1.length + 1) n r1 with
    | ok q =>
      obtain ⟨items, r2⟩ := q
      rw [hx] at h
      simp at h
      obtain ⟨_, rfl⟩ := h
      have := c2 items r2 hx
      omega
    | err e => rw [hx] at h; simp at h
    | panic => rw [hx] at h; simp at h
    | fuel => rw [hx] at h; simp at h
  · exact ⟨by intro s r h; have := hg s r h; omega, by omega⟩

theorem counterSample_cost (bs : Bytes) :
    (∀ s r, decodeCounterSample bs = .ok (s, r) → counterSampleCost bs + 64 * r.length ≤ 64 * bs.length) ∧
    counterSampleCost bs ≤ 64 * bs.length + 1508 := by
  have hg := (decodeCounterSample_good bs).2
  unfold counterSampleCost
  split
  · rename_i seq ty idx n r1 h1
    obtain ⟨_, hl1, _⟩ := readFields_some h1
    obtain ⟨c1, c2⟩ := loopCost_le counterRecord_cost (r1.length + 1) n r1
    have s1 : ([4, 1, 3, 4] : List Nat).sum = 12 := by decide
    rw [s1] at hl1
    refine ⟨?_, by omega⟩
    intro s r h
    unfold decodeCounterSample at h
    simp only [h1] at h
    cases hx : loopN counterRecord (r1.length + 1) n r1 with
    | ok q =>
      obtain ⟨items, r2⟩ := q
      rw [hx] at h
      simp at h
      obtain ⟨_, rfl⟩ := h
      have := c2 items r2 hx
      omega
    | err e => rw [hx] at h; simp at h
    | panic => rw [hx] at h; simp at h
    | fuel => rw [hx] at h; simp at h
  · exact ⟨by intro s r h; have := hg s r h; omega, by omega⟩

theorem sampleStep_cost (f : List Nat) : CostOK 64 1509 (sampleStepCost f) (sampleStep f) := by
  intro bs
  unfold sampleStepCost sampleStep
  cases hx : sampleInfo bs with
  | ok p =>
    obtain ⟨⟨ent, fmt, len⟩, r⟩ := p
    have hr := (sampleInfo_good bs).2 _ _ hx
    have skip : ∀ (a : Option Sample) (r' : Bytes), (Res.ok ((none : Option Sample), r.drop len)) = .ok (a, r') →
        1 + 0 + 64 * r'.length ≤ 64 * bs.length := by
      intro a r' h
      simp at h
      obtain ⟨_, rfl⟩ := h
      simp; omega
    simp only
    split
    · exact ⟨skip, by omega⟩
    · split
      · exact ⟨skip, by omega⟩
      · split
        · obtain ⟨c1, c2⟩ := flowSample_cost r
          refine ⟨?_, by omega⟩
          intro a r' h
          obtain ⟨s, hs⟩ := mapFst_ok h
          have := c1 s r' hs
          omega
        · split
          · obtain ⟨c1, c2⟩ := counterSample_cost r
            refine ⟨?_, by omega⟩
            intro a r' h
            obtain ⟨s, hs⟩ := mapFst_ok h
            have := c1 s r' hs
            omega
          · exact ⟨skip, by omega⟩
  | err e => exact ⟨by intro a r h; simp at h, by simp⟩
  | panic => exact ⟨by intro a r h; simp at h, by simp⟩
  | fuel => exact ⟨by intro a r h; simp at h, by simp⟩

/-- the allocation count of one decode call is at most `64 * length + 1525` units -/
theorem decodeCost_le (f : List Nat) (bs : Bytes) : decodeCost f bs ≤ 64 * bs.length + 1525 := by
  unfold decodeCost
  cases hx : decodeHeader bs with
  | ok p =>
    obtain ⟨h, r⟩ := p
    have hr := (decodeHeader_good bs).2 _ _ hx
    have := (loopCost_le (sampleStep_cost f) (bs.length + 1) h.samplesNo r).1
    simp only
    omega
  | err e => simp
  | panic => simp
  | fuel => simp

end Vflow.Sflow
