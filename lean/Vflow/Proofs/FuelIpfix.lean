import Vflow.Model.Ipfix
import Vflow.Proofs.RdLemmas
import Vflow.Proofs.EqnsIpfix
/-!
# C02 (model part) for the IPFIX model: fuel, record bound

Same invariant as for NetFlow v9 (`Adv`: `cnt + rem.length` constant, `cnt` monotone).  A successful
template parse consumes ≥ 4 octets, a kept record ≥ 1 (the `zeroRec` rule), every `decodeSet` that
does not fail with `short` consumes ≥ 4 octets.
-/
namespace Vflow.Ipfix
open Vflow

theorem adv_rU8 {r r' : Rd} {v : Nat} (h : r.rU8 = some (v, r')) :
    Adv r r' ∧ r'.cnt = r.cnt + 1 := by
  have := rU8_tot h; simp only [Rd.tot] at this; exact ⟨⟨this.1, by omega⟩, this.2⟩

theorem readSpec_adv {r r' : Rd} {res : Except Err Spec} (h : readSpec r = (res, r')) :
    Adv r r' ∧ ∀ s, res = .ok s → r.cnt + 4 ≤ r'.cnt := by
  simp only [readSpec] at h
  split at h
  · simp at h; rw [← h.2, ← h.1]; exact ⟨Adv.refl _, by intro s hs; simp at hs⟩
  · rename_i id r1 h1
    have t1 := adv_rU16 h1
    split at h
    · simp at h; rw [← h.2, ← h.1]; exact ⟨t1.1, by intro s hs; simp at hs⟩
    · rename_i len r2 h2
      have t2 := adv_rU16 h2
      split at h
      · split at h
        · simp at h; rw [← h.2, ← h.1]; exact ⟨t1.1.trans t2.1, by intro s hs; simp at hs⟩
        · rename_i ent r3 h3
          have t3 := adv_rU32 h3
          simp at h; rw [← h.2]
          exact ⟨(t1.1.trans t2.1).trans t3.1, by intro _ _; omega⟩
      · simp at h; rw [← h.2]
        exact ⟨t1.1.trans t2.1, by intro _ _; omega⟩

theorem readSpecs_adv : ∀ (n : Nat) (r : Rd) (acc : List Spec) (res : Except Err (List Spec)) (r' : Rd),
    readSpecs n r acc = (res, r') →
    Adv r r' ∧ ∀ l, res = .ok l → r.cnt + 4 * n ≤ r'.cnt ∧ l.length = acc.length + n := by
  intro n
  induction n with
  | zero =>
    intro r acc res r' h
    simp [readSpecs] at h; rw [← h.2, ← h.1]
    exact ⟨Adv.refl _, by intro l hl; simp at hl; subst hl; simp⟩
  | succ n ih =>
    intro r acc res r' h
    simp only [readSpecs] at h
    split at h
    · rename_i e r1 h1
      have t1 := readSpec_adv h1
      simp at h; rw [← h.2, ← h.1]; exact ⟨t1.1, by intro l hl; simp at hl⟩
    · rename_i s r1 h1
      have t1 := readSpec_adv h1
      have t2 := ih _ _ _ _ h
      refine ⟨t1.1.trans t2.1, ?_⟩
      intro l hl
      have := t2.2 l hl
      have := t1.2 s rfl
      simp only [List.length_append, List.length_singleton] at *
      omega

/-- number of field specifiers of a template -/
def nfields (t : Template) : Nat := t.scope.length + t.fields.length

theorem parseTpl_adv {r r' : Rd} {res : Except Err Template} (h : parseTpl r = (res, r')) :
    Adv r r' ∧ ∀ t, res = .ok t → r.cnt + 4 + 4 * nfields t ≤ r'.cnt := by
  simp only [parseTpl] at h
  split at h
  · simp at h; rw [← h.2, ← h.1]; exact ⟨Adv.refl _, by intro t ht; simp at ht⟩
  · rename_i tid r1 h1
    have t1 := adv_rU16 h1
    split at h
    · simp at h; rw [← h.2, ← h.1]; exact ⟨t1.1, by intro t ht; simp at ht⟩
    · rename_i n r2 h2
      have t2 := adv_rU16 h2
      split at h
      · rename_i fs r3 h3
        have t3 := readSpecs_adv _ _ _ _ _ h3
        simp at h; rw [← h.2, ← h.1]
        refine ⟨(t1.1.trans t2.1).trans t3.1, ?_⟩
        intro t ht; simp at ht; subst ht
        have := t3.2 fs rfl
        simp only [nfields, List.length_nil] at *
        omega
      · rename_i e r3 h3
        have t3 := readSpecs_adv _ _ _ _ _ h3
        simp at h; rw [← h.2, ← h.1]
        exact ⟨(t1.1.trans t2.1).trans t3.1, by intro t ht; simp at ht⟩

theorem parseOptTpl_adv {r r' : Rd} {res : Except Err Template} (h : parseOptTpl r = (res, r')) :
    Adv r r' ∧ ∀ t, res = .ok t → r.cnt + 4 + 4 * nfields t ≤ r'.cnt := by
  simp only [parseOptTpl] at h
  split at h
  · simp at h; rw [← h.2, ← h.1]; exact ⟨Adv.refl _, by intro t ht; simp at ht⟩
  · rename_i tid r1 h1
    have t1 := adv_rU16 h1
    split at h
    · simp at h; rw [← h.2, ← h.1]; exact ⟨t1.1, by intro t ht; simp at ht⟩
    · rename_i n r2 h2
      have t2 := adv_rU16 h2
      split at h
      · simp at h; rw [← h.2, ← h.1]; exact ⟨t1.1.trans t2.1, by intro t ht; simp at ht⟩
      · rename_i sc r3 h3
        have t3 := adv_rU16 h3
        split at h
        · rename_i e r4 h4
          have t4 := readSpecs_adv _ _ _ _ _ h4
          simp at h; rw [← h.2, ← h.1]
          exact ⟨((t1.1.trans t2.1).trans t3.1).trans t4.1, by intro t ht; simp at ht⟩
        · rename_i scs r4 h4
          have t4 := readSpecs_adv _ _ _ _ _ h4
          split at h
          · rename_i e r5 h5
            have t5 := readSpecs_adv _ _ _ _ _ h5
            simp at h; rw [← h.2, ← h.1]
            exact ⟨(((t1.1.trans t2.1).trans t3.1).trans t4.1).trans t5.1, by intro t ht; simp at ht⟩
          · rename_i fs r5 h5
            have t5 := readSpecs_adv _ _ _ _ _ h5
            simp at h; rw [← h.2, ← h.1]
            refine ⟨(((t1.1.trans t2.1).trans t3.1).trans t4.1).trans t5.1, ?_⟩
            intro t ht; simp at ht; subst ht
            have := t4.2 scs rfl
            have := t5.2 fs rfl
            simp only [nfields, List.length_nil] at *
            omega

theorem dataLen_adv {r r' : Rd} {sl : Nat} {res : Except Err Nat} (h : dataLen r sl = (res, r')) :
    Adv r r' ∧ ∀ e, res = .error e → e = .short := by
  simp only [dataLen] at h
  split at h
  · split at h
    · simp at h; rw [← h.2, ← h.1]; exact ⟨Adv.refl _, by intro e he; simp at he; exact he.symm⟩
    · rename_i l8 r1 h1
      have t1 := adv_rU8 h1
      split at h
      · split at h
        · simp at h; rw [← h.2, ← h.1]; exact ⟨t1.1, by intro e he; simp at he; exact he.symm⟩
        · rename_i l r2 h2
          simp at h; rw [← h.2, ← h.1]
          exact ⟨t1.1.trans (adv_rU16 h2).1, by intro e he; simp at he⟩
      · simp at h; rw [← h.2, ← h.1]; exact ⟨t1.1, by intro e he; simp at he⟩
  · simp at h; rw [← h.2, ← h.1]; exact ⟨Adv.refl _, by intro e he; simp at he⟩

theorem decFields_adv : ∀ (fs : List Spec) (r : Rd) (acc : Record) (res : Except Err Record) (r' : Rd),
    decFields fs r acc = (res, r') →
    Adv r r' ∧ (∀ l, res = .ok l → l.length = acc.length + fs.length) ∧
      (∀ e, res = .error e → e = .short ∨ e = .unknownElem) := by
  intro fs
  induction fs with
  | nil =>
    intro r acc res r' h
    simp [decFields_nil] at h; rw [← h.2, ← h.1]
    exact ⟨Adv.refl _, by intro l hl; simp at hl; subst hl; simp, by intro e he; simp at he⟩
  | cons f fs ih =>
    intro r acc res r' h
    rw [decFields_cons] at h
    generalize hle : lookupElem f.ent f.id = le at h
    cases le with
    | none =>
      simp at h; rw [← h.2, ← h.1]
      exact ⟨Adv.refl _, by intro l hl; simp at hl, by intro e he; simp at he; exact Or.inr he.symm⟩
    | some p =>
      obtain ⟨fid, t⟩ := p
      simp only at h
      generalize hdl : dataLen r f.len = dl at h
      obtain ⟨dres, r1⟩ := dl
      have t1 := dataLen_adv hdl
      cases dres with
      | error e1 =>
        simp at h; rw [← h.2, ← h.1]
        exact ⟨t1.1, by intro l hl; simp at hl,
          by intro e he; simp at he; subst he; exact Or.inl (t1.2 e1 rfl)⟩
      | ok n =>
        simp only at h
        split at h
        · simp at h; rw [← h.2, ← h.1]
          exact ⟨t1.1, by intro l hl; simp at hl, by intro e he; simp at he; exact Or.inl he.symm⟩
        · rename_i b r2 h2
          have t2 := adv_readN h2
          have t3 := ih _ _ _ _ h
          refine ⟨(t1.1.trans t2.1).trans t3.1, ?_, t3.2.2⟩
          intro l hl
          have := t3.2.1 l hl
          simp only [List.length_append, List.length_cons, List.length_nil] at *
          omega

theorem decodeData_adv {tr : Template} {r r' : Rd} {res : Except Err Record}
    (h : decodeData tr r = (res, r')) :
    Adv r r' ∧ (∀ l, res = .ok l → l.length = nfields tr) ∧ res ≠ .error .fuel := by
  simp only [decodeData] at h
  generalize hd : decFields (tr.scope ++ tr.fields) r [] = dr at h
  obtain ⟨res1, r1⟩ := dr
  have t := decFields_adv _ _ _ _ _ hd
  cases res1 with
  | error e =>
    simp at h; rw [← h.2, ← h.1]
    refine ⟨t.1, by intro l hl; simp at hl, ?_⟩
    intro hx; simp at hx; subst hx
    have := t.2.2 _ rfl; simp at this
  | ok fs =>
    simp only at h
    split at h
    · simp at h; rw [← h.2, ← h.1]
      exact ⟨t.1, by intro l hl; simp at hl, by simp⟩
    · simp at h; rw [← h.2, ← h.1]
      refine ⟨t.1, ?_, by simp⟩
      intro l hl; simp at hl; subst hl
      have := t.2.1 _ rfl
      simpa [nfields] using this

theorem readSpec_err {r r' : Rd} {e : Err} (h : readSpec r = (.error e, r')) : e = .short := by
  simp only [readSpec] at h
  split at h
  · simp at h; exact h.1.symm
  · split at h
    · simp at h; exact h.1.symm
    · split at h
      · split at h
        · simp at h; exact h.1.symm
        · simp at h
      · simp at h

theorem readSpecs_err : ∀ (n : Nat) (r : Rd) (acc : List Spec) (e : Err) (r' : Rd),
    readSpecs n r acc = (.error e, r') → e = .short := by
  intro n
  induction n with
  | zero => intro r acc e r' h; simp [readSpecs] at h
  | succ n ih =>
    intro r acc e r' h
    simp only [readSpecs] at h
    split at h
    · rename_i e1 r1 h1
      simp at h; rw [← h.1]; exact readSpec_err h1
    · exact ih _ _ _ _ h

theorem parseTpl_err {r r' : Rd} {e : Err} (h : parseTpl r = (.error e, r')) : e = .short := by
  simp only [parseTpl] at h
  split at h
  · simp at h; exact h.1.symm
  · split at h
    · simp at h; exact h.1.symm
    · split at h
      · simp at h
      · rename_i e1 r3 h3
        simp at h; rw [← h.1]; exact readSpecs_err _ _ _ _ _ h3

theorem parseOptTpl_err {r r' : Rd} {e : Err} (h : parseOptTpl r = (.error e, r')) : e = .short := by
  simp only [parseOptTpl] at h
  split at h
  · simp at h; exact h.1.symm
  · split at h
    · simp at h; exact h.1.symm
    · split at h
      · simp at h; exact h.1.symm
      · split at h
        · rename_i e1 r4 h4
          simp at h; rw [← h.1]; exact readSpecs_err _ _ _ _ _ h4
        · split at h
          · rename_i e1 r5 h5
            simp at h; rw [← h.1]; exact readSpecs_err _ _ _ _ _ h5
          · simp at h

/-- what every function from `setLoop` up preserves: the reader advanced inside the same buffer and
every record added was paid for by at least one octet -/
def Step (st st' : St) : Prop :=
  Adv st.r st'.r ∧ st'.recs.length + st'.r.rem.length ≤ st.recs.length + st.r.rem.length

theorem Step.refl (st : St) : Step st st := ⟨Adv.refl _, Nat.le_refl _⟩
theorem Step.trans {a b c : St} (h1 : Step a b) (h2 : Step b c) : Step a c :=
  ⟨h1.1.trans h2.1, Nat.le_trans h2.2 h1.2⟩

/-- a step that only moves the reader -/
theorem Step.of_adv {st st' : St} (h : Adv st.r st'.r) (hr : st'.recs = st.recs) : Step st st' := by
  refine ⟨h, ?_⟩
  have := h.1; have := h.2; rw [hr]; omega

/-- **fuel lemma for the record loop**: with more fuel than octets left the loop never reports
`fuel`, and it is a `Step` -/
theorem setLoop_fuel (ctx : Ctx) : ∀ (fuel : Nat) (st st' : St) (e : Option Err) (d : Bool),
    st.r.rem.length < fuel → setLoop ctx fuel st = (st', e, d) → e ≠ some .fuel ∧ Step st st' := by
  intro fuel
  induction fuel with
  | zero => intro st st' e d hlt; omega
  | succ n ih =>
    intro st st' e d hlt h
    simp only [setLoop] at h
    split at h
    · split at h
      · -- template set
        split at h
        · simp at h; rw [← h.1, ← h.2.1]; exact ⟨by simp, Step.refl _⟩
        · generalize hp : (if ctx.setId = 2 then parseTpl st.r else parseOptTpl st.r) = pr at h
          obtain ⟨res, r'⟩ := pr
          have ht : Adv st.r r' ∧ ∀ t, res = .ok t → st.r.cnt + 4 + 4 * nfields t ≤ r'.cnt := by
            by_cases h0 : ctx.setId = 2
            · simp only [h0, if_true] at hp; exact parseTpl_adv hp
            · simp only [h0, if_false] at hp; exact parseOptTpl_adv hp
          cases res with
          | error x =>
            simp at h; rw [← h.1, ← h.2.1]
            refine ⟨?_, Step.of_adv ht.1 rfl⟩
            intro hx; simp at hx; subst hx
            by_cases h0 : ctx.setId = 2
            · simp only [h0, if_true] at hp; exact absurd (parseTpl_err hp) (by simp)
            · simp only [h0, if_false] at hp; exact absurd (parseOptTpl_err hp) (by simp)
          | ok t =>
            simp only at h
            have hc := ht.2 t rfl
            have ha := ht.1
            have hl : r'.rem.length < n := by have := ha.1; omega
            have := ih _ _ _ _ (by simpa using hl) h
            refine ⟨this.1, Step.trans (Step.of_adv (st' := { st with r := r', cache := st.cache.insert ctx.addr t.tid t }) ha rfl) this.2⟩
      · split at h
        · simp at h; rw [← h.1, ← h.2.1]; exact ⟨by simp, Step.refl _⟩
        · split at h
          · simp at h; rw [← h.1, ← h.2.1]; exact ⟨by simp, Step.refl _⟩
          · generalize hd : decodeData ctx.tr st.r = dr at h
            obtain ⟨res, r'⟩ := dr
            have ht := decodeData_adv hd
            cases res with
            | error x =>
              simp only at h
              have hx : x ≠ .fuel := by intro hx; subst hx; exact ht.2.2 rfl
              split at h
              · simp at h; rw [← h.1, ← h.2.1]
                exact ⟨by simpa using hx, Step.of_adv ht.1 rfl⟩
              · simp at h; rw [← h.1, ← h.2.1]
                exact ⟨by simpa using hx, Step.of_adv ht.1 rfl⟩
            | ok fs =>
              simp only at h
              split at h
              · simp at h; rw [← h.1, ← h.2.1]; exact ⟨by simp, Step.of_adv ht.1 rfl⟩
              · rename_i hne
                have ha := ht.1
                have hl : r'.rem.length < n := by have := ha.1; have := ha.2; omega
                have := ih _ _ _ _ (by simpa using hl) h
                refine ⟨this.1, Step.trans ?_ this.2⟩
                refine ⟨ha, ?_⟩
                have := ha.1; have := ha.2
                simp only [List.length_append, List.length_singleton]
                omega
    · simp at h; rw [← h.1, ← h.2.1]; exact ⟨by simp, Step.refl _⟩

theorem skipRest_step {ctx : Ctx} {st st' : St} {e e' : Option Err}
    (h : skipRest ctx st e = (st', e')) :
    (e ≠ some .fuel → e' ≠ some .fuel) ∧ Step st st' ∧ st'.recs = st.recs ∧ st'.cache = st.cache := by
  simp only [skipRest] at h
  split at h
  · split at h
    · simp at h; rw [← h.1, ← h.2]; exact ⟨fun _ => by simp, Step.refl _, rfl, rfl⟩
    · rename_i b r' hr
      simp at h; rw [← h.1, ← h.2]
      exact ⟨id, Step.of_adv (adv_readN hr).1 rfl, rfl, rfl⟩
  · simp at h; rw [← h.1, ← h.2]; exact ⟨id, Step.refl _, rfl, rfl⟩

theorem setBody_fuel {addr : Bytes} {sid len start fuel : Nat} {st st' : St} {e : Option Err}
    (hlt : st.r.rem.length < fuel) (h : setBody addr sid len start fuel st = (st', e)) :
    e ≠ some .fuel ∧ Step st st' := by
  simp only [setBody] at h
  split at h
  · rename_i e0 he0
    have := skipRest_step h
    refine ⟨this.1 ?_, this.2.1⟩
    simp only [lookupTpl] at he0
    split at he0
    · split at he0
      · simp at he0
      · simp at he0; rw [← he0]; simp
    · simp at he0
  · generalize hl : setLoop _ fuel st = res at h
    obtain ⟨st1, e1, d⟩ := res
    have t1 := setLoop_fuel _ _ _ _ _ _ hlt hl
    simp only at h
    split at h
    · simp at h; rw [← h.1, ← h.2]; exact t1
    · have t2 := skipRest_step h
      exact ⟨t2.1 t1.1, t1.2.trans t2.2.1⟩

/-- `decodeSet` with more fuel than octets left: no `fuel`, a `Step`, and unless it failed with
`short` it consumed the 4-octet set header -/
theorem decodeSet_fuel {addr : Bytes} {fuel : Nat} {st st' : St} {e : Option Err}
    (hlt : st.r.rem.length < fuel) (h : decodeSet addr fuel st = (st', e)) :
    e ≠ some .fuel ∧ Step st st' ∧ (e = some .short ∨ st.r.cnt + 4 ≤ st'.r.cnt) := by
  simp only [decodeSet] at h
  split at h
  · simp at h; rw [← h.1, ← h.2]; exact ⟨by simp, Step.refl _, Or.inl rfl⟩
  · rename_i sid r1 h1
    have t1 := adv_rU16 h1
    split at h
    · simp at h; rw [← h.1, ← h.2]
      exact ⟨by simp, Step.of_adv t1.1 rfl, Or.inl rfl⟩
    · rename_i len r2 h2
      have t2 := adv_rU16 h2
      have a12 := t1.1.trans t2.1
      split at h
      · simp at h; rw [← h.1, ← h.2]
        exact ⟨by simp, Step.of_adv a12 rfl, Or.inr (by simp only; omega)⟩
      · have hlt' : ({ st with r := r2 } : St).r.rem.length < fuel := by
          have := a12.1; have := a12.2; simp only; omega
        have t3 := setBody_fuel hlt' h
        refine ⟨t3.1, Step.trans (Step.of_adv (st' := { st with r := r2 }) a12 rfl) t3.2, Or.inr ?_⟩
        have := t3.2.1.2
        simp only at this
        omega

/-- **fuel lemma for the set loop of `Decode`** -/
theorem outer_fuel (addr : Bytes) : ∀ (fuel : Nat) (st : St) (errs : List Err) (st' : St)
    (e : Option Err) (errs' : List Err),
    st.r.rem.length < fuel → outer addr fuel st errs = (st', e, errs') →
    e ≠ some .fuel ∧ Step st st' := by
  intro fuel
  induction fuel with
  | zero => intro st errs st' e errs' hlt; omega
  | succ n ih =>
    intro st errs st' e errs' hlt h
    simp only [outer] at h
    split at h
    · rename_i hgt
      generalize hd : decodeSet addr (st.r.rem.length + 1) st = res at h
      obtain ⟨st1, e1⟩ := res
      have t1 := decodeSet_fuel (Nat.lt_succ_self _) hd
      have hadv := t1.2.1.1
      cases e1 with
      | none =>
        simp only at h
        have hc : st.r.cnt + 4 ≤ st1.r.cnt := by
          rcases t1.2.2 with h0 | h0
          · simp at h0
          · exact h0
        have hl : st1.r.rem.length < n := by have := hadv.1; omega
        have t2 := ih _ _ _ _ _ hl h
        exact ⟨t2.1, t1.2.1.trans t2.2⟩
      | some e0 =>
        simp only at h
        split at h
        · rename_i hnf
          have hc : st.r.cnt + 4 ≤ st1.r.cnt := by
            rcases t1.2.2 with h0 | h0
            · simp at h0; subst h0; simp [nonfatalErr, Err.nonfatal] at hnf
            · exact h0
          have hl : st1.r.rem.length < n := by have := hadv.1; omega
          have t2 := ih _ _ _ _ _ hl h
          exact ⟨t2.1, t1.2.1.trans t2.2⟩
        · simp at h; rw [← h.1, ← h.2.1]
          exact ⟨t1.1, t1.2.1⟩
    · simp at h; rw [← h.1, ← h.2.1]; exact ⟨by simp, Step.refl _⟩

theorem readHeader_adv {r r' : Rd} {h : Hdr} (hh : readHeader r = some (h, r')) : Adv r r' := by
  simp only [readHeader] at hh
  split at hh
  · simp at hh
  · rename_i _ r1 h1
    split at hh
    · simp at hh
    · rename_i _ r2 h2
      split at hh
      · simp at hh
      · rename_i _ r3 h3
        split at hh
        · simp at hh
        · rename_i _ r4 h4
          split at hh
          · simp at hh
          · rename_i _ r5 h5
            simp at hh; rw [← hh.2]
            exact (((((adv_rU16 h1).1.trans (adv_rU16 h2).1).trans (adv_rU32 h3).1).trans
              (adv_rU32 h4).1).trans (adv_rU32 h5).1)

/-- termination with the supplied fuel and the record bound, for every cache, address, datagram -/
theorem decode_fuel_records (c : Cache) (addr bs : Bytes) :
    (decode c addr bs).1 ≠ .error .fuel ∧ (recordsOf (decode c addr bs).1).length ≤ bs.length := by
  simp only [decode]
  split
  · exact ⟨by simp, by simp [recordsOf]⟩
  · rename_i h r6 hh
    split
    · exact ⟨by simp, by simp [recordsOf]⟩
    · have ha := readHeader_adv hh
      generalize ho : outer addr (bs.length + 1) ⟨r6, c, []⟩ [] = res
      obtain ⟨st, e, errs⟩ := res
      have hlt : (⟨r6, c, []⟩ : St).r.rem.length < bs.length + 1 := by
        have := ha.1; simp only at this ⊢; omega
      have t := outer_fuel addr _ _ _ _ _ _ hlt ho
      cases e with
      | some e0 =>
        simp only
        refine ⟨?_, by simp [recordsOf]⟩
        intro hx; simp at hx; subst hx; exact t.1 rfl
      | none =>
        simp only
        refine ⟨by simp, ?_⟩
        simp only [recordsOf]
        have := t.2.2
        have := ha.1
        simp only [List.length_nil] at *
        omega

end Vflow.Ipfix
