import Vflow.Model.Sflow
/-!
# Helper lemmas for the sFlow model: big-endian codec, reader operations, field lists, the loop
-/
namespace Vflow.Sflow
open Vflow

/-! ## big-endian codec -/

theorem beN_append_singleton (bs : Bytes) (x : UInt8) : beN (bs ++ [x]) = beN bs * 256 + x.toNat := by
  simp [beN, List.foldl_append]

theorem encBE_length (k v : Nat) : (encBE k v).length = k := by
  induction k generalizing v with
  | zero => simp [encBE]
  | succ k ih => simp [encBE, ih]

theorem beN_encBE (k v : Nat) (h : v < 256 ^ k) : beN (encBE k v) = v := by
  induction k generalizing v with
  | zero => simp [encBE, beN] at *; omega
  | succ k ih =>
    have h' : v / 256 < 256 ^ k := by
      rw [Nat.pow_succ] at h
      exact Nat.div_lt_of_lt_mul (by omega)
    simp only [encBE, beN_append_singleton, ih _ h']
    have : (UInt8.ofNat (v % 256)).toNat = v % 256 := by
      simp [UInt8.toNat_ofNat']
    rw [this]; omega

theorem beN_foldl_lt (bs : Bytes) (a : Nat) :
    bs.foldl (fun a x => a * 256 + x.toNat) a < (a + 1) * 256 ^ bs.length := by
  induction bs generalizing a with
  | nil => simp
  | cons x t ih =>
    simp only [List.foldl_cons, List.length_cons, Nat.pow_succ]
    have h1 := ih (a * 256 + x.toNat)
    have hx := x.toNat_lt
    have h2 : (a * 256 + x.toNat + 1) * 256 ^ t.length ≤ ((a + 1) * 256) * 256 ^ t.length :=
      Nat.mul_le_mul_right _ (by omega)
    calc _ < _ := h1
      _ ≤ _ := h2
      _ = _ := by rw [Nat.mul_assoc, Nat.mul_comm 256]

theorem beN_lt (bs : Bytes) : beN bs < 256 ^ bs.length := by
  have := beN_foldl_lt bs 0
  simpa [beN] using this

/-! ## reader operations -/

theorem full_append (x t : Bytes) (n : Nat) (h : x.length = n) : full n (x ++ t) = some (x, t) := by
  subst h
  simp [full]

theorem full_some {n : Nat} {bs b r : Bytes} (h : full n bs = some (b, r)) :
    b = bs.take n ∧ r = bs.drop n ∧ n ≤ bs.length := by
  unfold full at h
  split at h
  · simp at h
  · simp at h; exact ⟨h.1.symm, h.2.symm, by omega⟩

theorem full_some_length {n : Nat} {bs b r : Bytes} (h : full n bs = some (b, r)) :
    r.length + n = bs.length ∧ b.length = n := by
  obtain ⟨h1, h2, h3⟩ := full_some h
  subst h1 h2
  simp; omega

theorem u32_append (x t : Bytes) (h : x.length = 4) : u32 (x ++ t) = some (beN x, t) := by
  simp [u32, full_append x t 4 h]

theorem u32_enc (v : Nat) (t : Bytes) (h : v < 256 ^ 4) : u32 (encBE 4 v ++ t) = some (v, t) := by
  rw [u32_append _ _ (encBE_length 4 v), beN_encBE 4 v h]

theorem u32_some {bs r : Bytes} {v : Nat} (h : u32 bs = some (v, r)) : r = bs.drop 4 ∧ 4 ≤ bs.length := by
  unfold u32 at h
  split at h
  · simp at h
  · rename_i b r' hf
    simp at h
    obtain ⟨_, h2, h3⟩ := full_some hf
    exact ⟨by rw [← h.2, h2], h3⟩

theorem u32_some_length {bs r : Bytes} {v : Nat} (h : u32 bs = some (v, r)) : r.length + 4 = bs.length := by
  obtain ⟨h1, h2⟩ := u32_some h
  subst h1; simp; omega

/-! ## field lists -/

/-- spec encoder of a field list: each value big-endian in its width -/
def encFields : List Nat → List Nat → Bytes
  | w :: ws, v :: vs => encBE w v ++ encFields ws vs
  | _, _ => []

/-- every value fits its width -/
def Fits : List Nat → List Nat → Prop
  | [], [] => True
  | w :: ws, v :: vs => v < 256 ^ w ∧ Fits ws vs
  | _, _ => False

theorem encFields_length (ws vs : List Nat) (h : Fits ws vs) : (encFields ws vs).length = ws.sum := by
  induction ws generalizing vs with
  | nil => cases vs <;> simp [encFields]
  | cons w ws ih =>
    cases vs with
    | nil => simp [Fits] at h
    | cons v vs => simp [encFields, encBE_length, ih vs h.2]

/-- **generic field-list round trip**: reading the widths `ws` from the encoding of `vs` returns
exactly `vs` and leaves exactly the tail -/
theorem readFields_enc (ws vs : List Nat) (t : Bytes) (h : Fits ws vs) :
    readFields ws (encFields ws vs ++ t) = some (vs, t) := by
  induction ws generalizing vs with
  | nil => cases vs <;> simp [Fits] at h; simp [readFields, encFields]
  | cons w ws ih =>
    cases vs with
    | nil => simp [Fits] at h
    | cons v vs =>
      obtain ⟨hv, hr⟩ := h
      simp only [encFields, readFields, List.append_assoc]
      rw [full_append _ _ w (encBE_length w v)]
      simp only [ih vs hr, beN_encBE w v hv]

theorem readFields_some {ws : List Nat} {bs r : Bytes} {vs : List Nat} (h : readFields ws bs = some (vs, r)) :
    vs.length = ws.length ∧ r.length + ws.sum = bs.length ∧ r = bs.drop ws.sum := by
  induction ws generalizing bs vs with
  | nil => simp [readFields] at h; obtain ⟨rfl, rfl⟩ := h; simp
  | cons w ws ih =>
    simp only [readFields] at h
    split at h
    · simp at h
    · rename_i b r1 hf
      split at h
      · simp at h
      · rename_i vs' r' hr
        simp at h
        obtain ⟨rfl, rfl⟩ := h
        obtain ⟨h1, h2, h3⟩ := ih hr
        obtain ⟨hb, hr1, hl⟩ := full_some hf
        subst hr1
        refine ⟨by simp [h1], ?_, ?_⟩
        · simp at h2 ⊢; omega
        · rw [h3, List.drop_drop]; simp

end Vflow.Sflow
