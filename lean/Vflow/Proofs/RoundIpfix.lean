import Vflow.Model.Ipfix
import Vflow.Proofs.WireLemmas
import Vflow.Proofs.EqnsIpfix
/-!
# C03 — IPFIX round trip: what the RFC 7011 encoder of `Spec/Wire.lean` writes, the decoder model
reads back exactly

Levels: field (incl. variable length) → record → record loop → set → message.
-/
namespace Vflow.Ipfix
open Vflow Vflow.Wire
open Vflow.Wire.Ipfix (VVal)

attribute [local irreducible] Vflow.lookupElem

/-! ## Level 1: one data record -/

theorem expectedField_of_lookup {s : Spec} {v : Bytes} {fid ty : Nat}
    (h : lookupElem s.ent s.id = some (fid, ty)) :
    expectedField s v = ⟨fid, s.ent, interpret v ty⟩ := by
  unfold expectedField
  rw [h]

/-- what `wfField` says once the element is known to be in the information model -/
theorem wfField_of_lookup {s : Spec} {v : VVal} {fid ty : Nat}
    (h : lookupElem s.ent s.id = some (fid, ty)) (hw : Wire.Ipfix.wfField s v = true) :
    if s.len = 65535 then
      (if v.long = true then v.octets.length < 65536 else v.octets.length < 255)
    else v.octets.length = s.len := by
  unfold Wire.Ipfix.wfField at hw
  rw [h] at hw
  simp only at hw
  split at hw
  · rename_i h1
    rw [if_pos h1]
    split at hw <;> rename_i h2
    · rw [if_pos h2]; simpa using hw
    · rw [if_neg h2]; simpa using hw
  · rename_i h1
    rw [if_neg h1]
    simpa using hw

theorem wfField_lookup {s : Spec} {v : VVal} (hw : Wire.Ipfix.wfField s v = true) :
    ∃ fid ty, lookupElem s.ent s.id = some (fid, ty) := by
  unfold Wire.Ipfix.wfField at hw
  generalize hle : lookupElem s.ent s.id = le at hw
  cases le with
  | none => simp at hw
  | some p => exact ⟨p.1, p.2, rfl⟩

/-- the length prefix of a field on the wire -/
def prefixOf (s : Spec) (v : VVal) : Bytes :=
  if s.len = 65535 then
    (if v.long then [255] ++ be16 v.octets.length else [UInt8.ofNat v.octets.length])
  else []

theorem encodeField_eq (s : Spec) (v : VVal) :
    Wire.Ipfix.encodeField s v = prefixOf s v ++ v.octets := by
  unfold Wire.Ipfix.encodeField prefixOf
  split <;> simp

/-- `getDataLength` reads the prefix the encoder wrote and returns the value's length -/
theorem dataLen_roundtrip {s : Spec} {v : VVal} {fid ty : Nat}
    (h : lookupElem s.ent s.id = some (fid, ty)) (hw : Wire.Ipfix.wfField s v = true)
    (tail : Bytes) (c : Nat) :
    dataLen ⟨prefixOf s v ++ tail, c⟩ s.len =
      (.ok v.octets.length, ⟨tail, c + (prefixOf s v).length⟩) := by
  have hf := wfField_of_lookup h hw
  unfold dataLen prefixOf
  by_cases h1 : s.len = 65535
  · rw [if_pos h1] at hf
    have hlen := hf
    rw [if_pos h1, if_pos h1]
    by_cases h2 : v.long = true
    · rw [if_pos h2] at hlen
      rw [if_pos h2]
      have e1 : ([255] ++ be16 v.octets.length ++ tail : Bytes) =
          UInt8.ofNat 255 :: (be16 v.octets.length ++ tail) := by
        simp only [List.cons_append]; rfl
      rw [e1, rU8_byte 255 (by decide)]
      simp only [if_true]
      rw [rU16_be16 _ hlen]
      simp [be16_length, Nat.add_assoc]
    · rw [if_neg h2] at hlen
      rw [if_neg h2]
      rw [List.singleton_append, rU8_byte _ (by omega)]
      have : ¬ v.octets.length = 255 := by omega
      simp [this]
  · rw [if_neg h1] at hf
    rw [if_neg h1, if_neg h1]
    simp [hf]

/-- the field loop reads back a conforming list of values -/
theorem decFields_roundtrip : ∀ (specs : List Spec) (vals : List VVal) (rest : Bytes) (c : Nat)
    (acc : Record),
    specs.length = vals.length → (List.zipWith Wire.Ipfix.wfField specs vals).all id = true →
    decFields specs ⟨(List.zipWith Wire.Ipfix.encodeField specs vals).flatten ++ rest, c⟩ acc =
      (.ok (acc ++ List.zipWith expectedField specs (vals.map (·.octets))),
       ⟨rest, c + (List.zipWith Wire.Ipfix.encodeField specs vals).flatten.length⟩) := by
  intro specs
  induction specs with
  | nil =>
    intro vals rest c acc hl _
    cases vals with
    | nil => simp [decFields_nil]
    | cons v vs => simp at hl
  | cons f fs ih =>
    intro vals rest c acc hl hw
    cases vals with
    | nil => simp at hl
    | cons v vs =>
      simp only [List.zipWith_cons_cons, List.all_cons, id, Bool.and_eq_true] at hw
      obtain ⟨hwf, hws⟩ := hw
      obtain ⟨fid, ty, hlk⟩ := wfField_lookup hwf
      have hdl := dataLen_roundtrip hlk hwf
        (v.octets ++ ((List.zipWith Wire.Ipfix.encodeField fs vs).flatten ++ rest)) c
      have hread := readN_append v.octets ((List.zipWith Wire.Ipfix.encodeField fs vs).flatten ++ rest)
        (c + (prefixOf f v).length)
      rw [decFields_cons]
      simp only [List.zipWith_cons_cons, List.flatten_cons, encodeField_eq f v, List.append_assoc]
      simp only [hlk]
      rw [hdl]
      simp only
      rw [hread]
      simp only
      rw [ih vs rest _ _ (by simpa using hl) hws]
      rw [List.map_cons, List.zipWith_cons_cons, expectedField_of_lookup (v := v.octets) hlk]
      simp [Nat.add_assoc]

/-- **C03 level 1 (record)**: a conforming data record — fixed- and variable-length fields, scope
fields first — is decoded exactly as its template describes, the reader ends right behind it -/
theorem decodeData_roundtrip (t : Template) (vals : List VVal) (rest : Bytes) (c : Nat)
    (hw : Wire.Ipfix.wfRecord t vals = true) :
    decodeData t ⟨Wire.Ipfix.encodeRecord t vals ++ rest, c⟩ =
      (.ok (Wire.Ipfix.expectedRecord t vals), ⟨rest, c + (Wire.Ipfix.encodeRecord t vals).length⟩) := by
  simp only [Wire.Ipfix.wfRecord, Bool.and_eq_true, beq_iff_eq, decide_eq_true_eq] at hw
  obtain ⟨⟨hl, hwf⟩, hlen⟩ := hw
  have := decFields_roundtrip (specsOf t) vals rest c [] hl hwf
  have hs : t.scope ++ t.fields = specsOf t := rfl
  unfold decodeData
  rw [hs]
  unfold Wire.Ipfix.encodeRecord at hlen ⊢
  rw [this]
  simp only [List.nil_append]
  have hne : (List.zipWith expectedField (specsOf t) (vals.map (·.octets))).isEmpty = false := by
    cases hsp : specsOf t with
    | nil => rw [hsp] at hlen; simp at hlen
    | cons f fs =>
      cases vals with
      | nil => simp at hlen
      | cons v vs => simp
  rw [hne]
  simp [Wire.Ipfix.expectedRecord, Wire.expectedRecord]

/-! ## Level 2: the record loop and a whole data set -/

/-- octets of a list of records -/
def body (t : Template) (records : List (List VVal)) : Bytes :=
  (records.map (Wire.Ipfix.encodeRecord t)).flatten

theorem body_nil (t : Template) : body t [] = [] := rfl
theorem body_cons (t : Template) (x : List VVal) (xs : List (List VVal)) :
    body t (x :: xs) = Wire.Ipfix.encodeRecord t x ++ body t xs := by
  simp [body]

theorem wfRecord_pos {t : Template} {x : List VVal} (h : Wire.Ipfix.wfRecord t x = true) :
    0 < (Wire.Ipfix.encodeRecord t x).length := by
  simp only [Wire.Ipfix.wfRecord, Bool.and_eq_true, decide_eq_true_eq] at h
  exact h.2

/-- a conforming field occupies at least what `minRecLen` counts for its specifier: its fixed length, or
the 1-octet length prefix of a variable-length field -/
theorem encodeField_length_ge {s : Spec} {v : VVal} (hw : Wire.Ipfix.wfField s v = true) :
    (if s.len = 65535 then 1 else s.len) ≤ (Wire.Ipfix.encodeField s v).length := by
  obtain ⟨fid, ty, hlk⟩ := wfField_lookup hw
  have hf := wfField_of_lookup hlk hw
  rw [encodeField_eq]
  unfold prefixOf
  by_cases h1 : s.len = 65535
  · rw [if_pos h1, if_pos h1]
    by_cases h2 : v.long = true
    · rw [if_pos h2]; simp only [List.length_append, List.length_cons, List.length_nil]; omega
    · rw [if_neg h2]; simp only [List.length_append, List.length_cons, List.length_nil]; omega
  · rw [if_neg h1] at hf
    rw [if_neg h1, if_neg h1]
    simp only [List.nil_append]; omega

theorem fields_length_ge : ∀ (specs : List Spec) (vals : List VVal), specs.length = vals.length →
    (List.zipWith Wire.Ipfix.wfField specs vals).all id = true →
    (specs.map (fun s => if s.len = 65535 then 1 else s.len)).sum ≤
      (List.zipWith Wire.Ipfix.encodeField specs vals).flatten.length := by
  intro specs
  induction specs with
  | nil => intro vals _ _; simp
  | cons f fs ih =>
    intro vals hl hw
    cases vals with
    | nil => simp at hl
    | cons v vs =>
      simp only [List.zipWith_cons_cons, List.all_cons, id, Bool.and_eq_true] at hw
      have h1 := encodeField_length_ge hw.1
      have h2 := ih vs (by simpa using hl) hw.2
      simp only [List.map_cons, List.sum_cons, List.zipWith_cons_cons, List.flatten_cons,
        List.length_append]
      omega

/-- **RFC 7011 §3.3.1 made precise**: no conforming record is shorter than `minRecLen` of its template -/
theorem wfRecord_minRecLen {t : Template} {x : List VVal} (h : Wire.Ipfix.wfRecord t x = true) :
    Wire.Ipfix.minRecLen t ≤ (Wire.Ipfix.encodeRecord t x).length := by
  simp only [Wire.Ipfix.wfRecord, Bool.and_eq_true, beq_iff_eq, decide_eq_true_eq] at h
  exact fields_length_ge (specsOf t) x h.1.1 h.1.2

/-- the decoder's `minRecordLen` is the RFC's shortest record, clamped to 1 -/
theorem minRecLen_spec (t : Template) :
    minRecLen t = if Wire.Ipfix.minRecLen t < 1 then 1 else Wire.Ipfix.minRecLen t := rfl

theorem minRecLen_ge (t : Template) : Wire.Ipfix.minRecLen t ≤ minRecLen t := by
  rw [minRecLen_spec]; split <;> omega

/-- a conforming record is at least as long as the decoder's loop bound -/
theorem wfRecord_ge_min {t : Template} {x : List VVal} (h : Wire.Ipfix.wfRecord t x = true) :
    minRecLen t ≤ (Wire.Ipfix.encodeRecord t x).length := by
  have h1 := wfRecord_minRecLen h
  have h2 := wfRecord_pos h
  rw [minRecLen_spec]; split <;> omega

/-- **C03 level 2a (record loop)**: over `records ++ pad ++ rest`, with the set header announcing
exactly `records ++ pad` (16-bit arithmetic: the set length is below 65536), the loop yields all records
in order, stops in front of the padding, reports no error and does not return directly -/
theorem setLoop_data (ctx : Ctx) (hsid : 255 < ctx.setId) (hlen16 : ctx.len < 65536) :
    ∀ (records : List (List VVal)) (pad rest : Bytes) (fuel : Nat) (st : St),
      (∀ x ∈ records, Wire.Ipfix.wfRecord ctx.tr x = true) →
      pad.length < Wire.Ipfix.minRecLen ctx.tr →
      st.r.rem = body ctx.tr records ++ (pad ++ rest) →
      ctx.start ≤ st.r.cnt →
      (st.r.cnt - ctx.start) + ((body ctx.tr records).length + pad.length) = ctx.len →
      records.length < fuel →
      setLoop ctx fuel st =
        ({ st with r := ⟨pad ++ rest, st.r.cnt + (body ctx.tr records).length⟩,
                   recs := st.recs ++ records.map (Wire.Ipfix.expectedRecord ctx.tr) }, none, false) := by
  intro records
  induction records with
  | nil =>
    intro pad rest fuel st _ hpad hrem hstart hlen hfuel
    cases fuel with
    | zero => omega
    | succ n =>
      simp only [setLoop]
      have hc : contCond ctx st.r = false := by
        have hmin := minRecLen_ge ctx.tr
        simp only [contCond, consumed16, minLeft, if_pos hsid, Bool.and_eq_false_iff, decide_eq_false_iff_not]
        right
        rw [body_nil] at hlen; simp only [List.length_nil] at hlen
        omega
      rw [hc]
      simp only [body_nil, List.nil_append, List.length_nil, Nat.add_zero, List.map_nil,
        List.append_nil] at hrem ⊢
      cases st with
      | mk r cache rs =>
        cases r with
        | mk rem cnt => simp at hrem ⊢; exact hrem
  | cons x xs ih =>
    intro pad rest fuel st hm hpad hrem hstart hlen hfuel
    cases fuel with
    | zero => simp at hfuel
    | succ n =>
      have hmx : Wire.Ipfix.wfRecord ctx.tr x = true := hm x (by simp)
      have hxlen := wfRecord_pos hmx
      have hxmin := wfRecord_ge_min hmx
      simp only [setLoop]
      rw [body_cons] at hrem hlen
      simp only [List.length_append] at hlen
      have hc : contCond ctx st.r = true := by
        simp only [contCond, consumed16, minLeft, if_pos hsid, Bool.and_eq_true, decide_eq_true_eq]
        refine ⟨⟨?_, ?_⟩, ?_⟩
        · apply decide_eq_true; omega
        · rw [hrem]; simp only [List.length_append]; omega
        · omega
      rw [if_pos hc]
      have hn23 : ¬ (ctx.setId = 2 ∨ ctx.setId = 3) := by omega
      have hnres : ¬ (4 ≤ ctx.setId ∧ ctx.setId ≤ 255) := by omega
      have hn0 : ¬ (ctx.setId = 0) := by omega
      rw [if_neg hn23, if_neg hnres, if_neg hn0]
      have hrem' : st.r = ⟨Wire.Ipfix.encodeRecord ctx.tr x ++ (body ctx.tr xs ++ (pad ++ rest)), st.r.cnt⟩ := by
        cases hst : st.r with
        | mk rem cnt =>
          rw [hst] at hrem
          simp only at hrem ⊢
          rw [hrem, List.append_assoc]
      rw [hrem', decodeData_roundtrip ctx.tr x _ _ hmx]
      simp only
      have hne : ¬ (st.r.cnt + (Wire.Ipfix.encodeRecord ctx.tr x).length = st.r.cnt) := by omega
      rw [if_neg hne]
      have := ih pad rest n
        { st with r := ⟨body ctx.tr xs ++ (pad ++ rest), st.r.cnt + (Wire.Ipfix.encodeRecord ctx.tr x).length⟩,
                  recs := st.recs ++ [Wire.Ipfix.expectedRecord ctx.tr x] }
        (fun r hr => hm r (by simp [hr])) hpad rfl
        (by show ctx.start ≤ st.r.cnt + _; omega)
        (by show st.r.cnt + _ - ctx.start + _ = ctx.len; omega)
        (by simp only [List.length_cons] at hfuel; omega)
      rw [this]
      simp only [body_cons, List.length_append, List.map_cons, List.append_assoc,
        List.singleton_append, Nat.add_assoc]

/-- the leftover skip eats exactly the padding the loop stopped in front of -/
theorem skipRest_pad (ctx : Ctx) (st : St) (pad rest : Bytes) (c : Nat)
    (hr : st.r = ⟨pad ++ rest, c⟩) (hlen16 : ctx.len < 65536) (_hstart : ctx.start ≤ c)
    (hleft : (c - ctx.start) + pad.length = ctx.len) :
    skipRest ctx st none = ({ st with r := ⟨rest, c + pad.length⟩ }, none) := by
  have hl : (ctx.len + 65536 - consumed16 ctx st.r) % 65536 = pad.length := by
    simp only [consumed16, hr]; omega
  simp only [skipRest, hl]
  by_cases hp : pad.length = 0
  · have : pad = [] := List.eq_nil_of_length_eq_zero hp
    subst this
    simp only [List.length_nil, Nat.lt_irrefl, if_false, Nat.add_zero]
    cases st with
    | mk r cache rs => simp at hr ⊢; exact hr
  · rw [if_pos (by omega), hr, readN_append]

theorem body_length_ge (t : Template) :
    ∀ (records : List (List VVal)), (∀ x ∈ records, Wire.Ipfix.wfRecord t x = true) →
      records.length ≤ (body t records).length := by
  intro records
  induction records with
  | nil => intro _; simp
  | cons x xs ih =>
    intro h
    have := ih (fun r hr => h r (by simp [hr]))
    have hx := wfRecord_pos (h x (by simp))
    simp only [body_cons, List.length_append, List.length_cons]
    omega

theorem encodeSet_length (id : Nat) (b pad : Bytes) :
    (Wire.Ipfix.encodeSet id b pad).length = 4 + (b.length + pad.length) := by
  simp [Wire.Ipfix.encodeSet, be16_length]; omega

/-- reading the 4-octet set header -/
theorem decodeSet_header (addr : Bytes) (fuel id : Nat) (b pad rest : Bytes) (c : Nat)
    (cache : Cache) (recs : List Record) (hid : id < 65536)
    (hlen : 4 + (b ++ pad).length < 65536) :
    decodeSet addr fuel ⟨⟨Wire.Ipfix.encodeSet id b pad ++ rest, c⟩, cache, recs⟩ =
      setBody addr id (4 + (b ++ pad).length) c fuel ⟨⟨b ++ (pad ++ rest), c + 4⟩, cache, recs⟩ := by
  simp only [decodeSet, Wire.Ipfix.encodeSet, List.append_assoc]
  rw [rU16_be16 id hid]
  simp only
  rw [rU16_be16 _ (by simpa using hlen)]
  simp only
  rw [if_neg (by omega)]

/-- **C03 level 2b (data set)**: `decodeSet` consumes the whole encoded data set (padding included),
appends exactly the expected records, leaves the cache unchanged, reports no error -/
theorem decodeSet_data (addr : Bytes) (t : Template) (records : List (List VVal)) (pad rest : Bytes)
    (c fuel : Nat) (cache : Cache) (recs : List Record)
    (hw : Wire.Ipfix.wfSet addr cache (.data t records pad) = true) (hfuel : records.length < fuel) :
    decodeSet addr fuel ⟨⟨Wire.Ipfix.encodeDataSet t records pad ++ rest, c⟩, cache, recs⟩ =
      (⟨⟨rest, c + (Wire.Ipfix.encodeDataSet t records pad).length⟩, cache,
        recs ++ records.map (Wire.Ipfix.expectedRecord t)⟩, none) := by
  simp only [Wire.Ipfix.wfSet, Wire.Ipfix.wfSetLen, Wire.Ipfix.wfDataPad, Bool.and_eq_true, decide_eq_true_eq,
    beq_iff_eq, List.all_eq_true] at hw
  obtain ⟨⟨⟨⟨⟨h255, h64k⟩, hlk⟩, _⟩, hrec⟩, hpad, hlen⟩ := hw
  unfold Wire.Ipfix.encodeDataSet
  rw [decodeSet_header addr fuel t.tid _ pad rest c cache recs h64k hlen]
  simp only [setBody, lookupTpl, if_pos h255, hlk, Option.getD_some]
  have hb : (records.map (Wire.Ipfix.encodeRecord t)).flatten = body t records := rfl
  rw [hb] at hlen ⊢
  simp only [List.length_append] at hlen
  have hloop := setLoop_data ⟨addr, t.tid, 4 + (body t records ++ pad).length, c, t⟩ h255
    (by simp only [List.length_append]; omega)
    records pad rest fuel ⟨⟨body t records ++ (pad ++ rest), c + 4⟩, cache, recs⟩
    hrec hpad rfl (by simp only; omega) (by simp only [List.length_append]; omega) hfuel
  rw [hloop]
  simp only [Bool.false_eq_true, if_false]
  rw [skipRest_pad _ _ pad rest (c + 4 + (body t records).length) rfl
    (by simp only [List.length_append]; omega) (by simp only; omega)
    (by simp only [List.length_append]; omega)]
  simp only [encodeSet_length]
  have e : c + 4 + (body t records).length + pad.length = c + (4 + ((body t records).length + pad.length)) := by omega
  rw [e]

/-! ## Level 2: template records and template sets -/

theorem wfSpec_iff (s : Spec) :
    Wire.Ipfix.wfSpec s = true ↔
      s.len < 65536 ∧ s.id < 32768 ∧ s.ent < 4294967296 ∧ (s.ent = 0 ∨ 1 ≤ s.id) := by
  simp only [Wire.Ipfix.wfSpec, Bool.and_eq_true, Bool.or_eq_true, decide_eq_true_eq, beq_iff_eq,
    and_assoc]

theorem readSpec_roundtrip (s : Spec) (hw : Wire.Ipfix.wfSpec s = true) (rest : Bytes) (c : Nat) :
    readSpec ⟨Wire.Ipfix.encodeSpec s ++ rest, c⟩ =
      (.ok s, ⟨rest, c + (Wire.Ipfix.encodeSpec s).length⟩) := by
  obtain ⟨h1, h2, h3, h4⟩ := (wfSpec_iff s).1 hw
  unfold Wire.Ipfix.encodeSpec
  by_cases he : s.ent = 0
  · rw [if_pos he]
    simp only [readSpec, List.append_assoc]
    rw [rU16_be16 _ (by omega)]
    simp only
    rw [rU16_be16 _ h1]
    simp only
    rw [if_neg (by omega)]
    simp only [List.length_append, be16_length, Nat.add_assoc]
    cases s with
    | mk id len ent => simp only at he; subst he; rfl
  · rw [if_neg he]
    have hid : 1 ≤ s.id := by rcases h4 with h | h; exact absurd h he; exact h
    simp only [readSpec, List.append_assoc]
    rw [rU16_be16 _ (by omega)]
    simp only
    rw [rU16_be16 _ h1]
    simp only
    rw [if_pos (by omega)]
    rw [rU32_be32 _ h3]
    simp only [List.length_append, be16_length, be32_length, Nat.add_assoc]
    have : (32768 + s.id) % 32768 = s.id := by omega
    rw [this]

/-- octets of a list of field specifiers -/
def sbytes (specs : List Spec) : Bytes := (specs.map Wire.Ipfix.encodeSpec).flatten

theorem sbytes_cons (s : Spec) (ss : List Spec) :
    sbytes (s :: ss) = Wire.Ipfix.encodeSpec s ++ sbytes ss := by simp [sbytes]

theorem encodeSpec_length_ge (s : Spec) : 4 ≤ (Wire.Ipfix.encodeSpec s).length := by
  unfold Wire.Ipfix.encodeSpec
  split <;> simp [be16_length, be32_length]

theorem sbytes_length_ge (specs : List Spec) : 4 * specs.length ≤ (sbytes specs).length := by
  induction specs with
  | nil => simp
  | cons s ss ih =>
    have := encodeSpec_length_ge s
    simp only [sbytes_cons, List.length_append, List.length_cons]; omega

theorem readSpecs_roundtrip : ∀ (specs : List Spec) (rest : Bytes) (c : Nat) (acc : List Spec),
    specs.all Wire.Ipfix.wfSpec = true →
    readSpecs specs.length ⟨sbytes specs ++ rest, c⟩ acc =
      (.ok (acc ++ specs), ⟨rest, c + (sbytes specs).length⟩) := by
  intro specs
  induction specs with
  | nil => intro rest c acc _; simp [readSpecs, sbytes]
  | cons s ss ih =>
    intro rest c acc hw
    simp only [List.all_cons, Bool.and_eq_true] at hw
    simp only [List.length_cons, readSpecs, sbytes_cons, List.append_assoc]
    rw [readSpec_roundtrip s hw.1]
    simp only
    rw [ih rest _ (acc ++ [s]) hw.2]
    simp only [List.append_assoc, List.singleton_append, List.length_append, Nat.add_assoc]

theorem wfTemplate_iff (t : Template) :
    Wire.Ipfix.wfTemplate t = true ↔
      0 < t.tid ∧ t.tid < 65536 ∧ t.scope = [] ∧ t.cnt = t.fields.length ∧ t.scnt = 0 ∧
      1 ≤ t.fields.length ∧ t.fields.length < 65536 ∧ t.fields.all Wire.Ipfix.wfSpec = true := by
  simp only [Wire.Ipfix.wfTemplate, Bool.and_eq_true, decide_eq_true_eq, beq_iff_eq, and_assoc]

theorem encodeTemplate_eq (t : Template) :
    Wire.Ipfix.encodeTemplate t = be16 t.tid ++ (be16 t.fields.length ++ sbytes t.fields) := by
  simp [Wire.Ipfix.encodeTemplate, sbytes]

/-- a template record is parsed back to the template it encodes -/
theorem parseTpl_roundtrip (t : Template) (hw : Wire.Ipfix.wfTemplate t = true) (rest : Bytes) (c : Nat) :
    parseTpl ⟨Wire.Ipfix.encodeTemplate t ++ rest, c⟩ =
      (.ok t, ⟨rest, c + (Wire.Ipfix.encodeTemplate t).length⟩) := by
  obtain ⟨_, h1, h2, h3, h4, _, h6, h7⟩ := (wfTemplate_iff t).1 hw
  rw [encodeTemplate_eq]
  simp only [parseTpl, List.append_assoc]
  rw [rU16_be16 _ h1]
  simp only
  rw [rU16_be16 _ h6]
  simp only
  rw [readSpecs_roundtrip t.fields rest _ [] h7]
  simp only [List.nil_append, List.length_append, be16_length, Nat.add_assoc]
  cases t with
  | mk tid cnt scnt scope fields =>
    simp only at h2 h3 h4
    subst h2 h3 h4
    rfl

theorem wfOptTemplate_iff (t : Template) :
    Wire.Ipfix.wfOptTemplate t = true ↔
      0 < t.tid ∧ t.tid < 65536 ∧ t.cnt = t.scope.length + t.fields.length ∧
      t.scnt = t.scope.length ∧ t.scope.length + t.fields.length < 65536 ∧
      t.scope.all Wire.Ipfix.wfSpec = true ∧ t.fields.all Wire.Ipfix.wfSpec = true := by
  simp only [Wire.Ipfix.wfOptTemplate, Bool.and_eq_true, decide_eq_true_eq, beq_iff_eq, and_assoc]

theorem encodeOptTemplate_eq (t : Template) :
    Wire.Ipfix.encodeOptTemplate t =
      be16 t.tid ++ (be16 (t.scope.length + t.fields.length) ++ (be16 t.scope.length ++
        (sbytes t.scope ++ sbytes t.fields))) := by
  simp [Wire.Ipfix.encodeOptTemplate, sbytes]

/-- an options template record is parsed back to the template it encodes -/
theorem parseOptTpl_roundtrip (t : Template) (hw : Wire.Ipfix.wfOptTemplate t = true) (rest : Bytes)
    (c : Nat) :
    parseOptTpl ⟨Wire.Ipfix.encodeOptTemplate t ++ rest, c⟩ =
      (.ok t, ⟨rest, c + (Wire.Ipfix.encodeOptTemplate t).length⟩) := by
  obtain ⟨_, h1, h2, h3, h4, h5, h6⟩ := (wfOptTemplate_iff t).1 hw
  rw [encodeOptTemplate_eq]
  simp only [parseOptTpl, List.append_assoc]
  rw [rU16_be16 _ h1]
  simp only
  rw [rU16_be16 _ h4]
  simp only
  rw [rU16_be16 _ (by omega)]
  simp only
  rw [readSpecs_roundtrip t.scope _ _ [] h5]
  simp only
  have e : (t.scope.length + t.fields.length + 65536 - t.scope.length) % 65536 = t.fields.length := by
    omega
  rw [e, readSpecs_roundtrip t.fields rest _ [] h6]
  simp only [List.nil_append, List.length_append, be16_length, Nat.add_assoc]
  cases t with
  | mk tid cnt scnt scope fields =>
    simp only at h2 h3
    subst h2 h3
    rfl

theorem peek16_be16 (n : Nat) (h : n < 65536) (rest : Bytes) (c : Nat) :
    Rd.peek16 ⟨be16 n ++ rest, c⟩ = some n := by
  simp only [Rd.peek16, readN_append' (be16 n) rest c 2 (be16_length n), Option.map_some]
  rw [be16, beN_encBE 2 n (by simpa using h)]

/-- octets of a list of (options) template records under an encoder `enc` -/
def tbody (enc : Template → Bytes) (ts : List Template) : Bytes := (ts.map enc).flatten

theorem tbody_cons (enc : Template → Bytes) (t : Template) (ts : List Template) :
    tbody enc (t :: ts) = enc t ++ tbody enc ts := by simp [tbody]

/-- **C03 level 2c (template loop)**: the loop of a template set (id 2: `enc = encodeTemplate`,
id 3: `enc = encodeOptTemplate`) inserts exactly the announced templates, in order, adds no record,
stops in front of the padding -/
theorem setLoop_tpl (ctx : Ctx) (enc : Template → Bytes) (hsid : ctx.setId = 2 ∨ ctx.setId = 3)
    (hlen16 : ctx.len < 65536) :
    ∀ (ts : List Template) (pad rest : Bytes) (fuel : Nat) (st : St),
      (∀ t ∈ ts, 4 < (enc t).length ∧ ∀ rest c,
        Rd.peek16 ⟨enc t ++ rest, c⟩ ≠ some 0 ∧
        (if ctx.setId = 2 then parseTpl ⟨enc t ++ rest, c⟩ else parseOptTpl ⟨enc t ++ rest, c⟩) =
          (.ok t, ⟨rest, c + (enc t).length⟩)) →
      pad.length ≤ 4 →
      st.r.rem = tbody enc ts ++ (pad ++ rest) →
      ctx.start ≤ st.r.cnt →
      (st.r.cnt - ctx.start) + ((tbody enc ts).length + pad.length) = ctx.len →
      ts.length < fuel →
      setLoop ctx fuel st =
        ({ st with r := ⟨pad ++ rest, st.r.cnt + (tbody enc ts).length⟩,
                   cache := insertAll ctx.addr st.cache ts }, none, false) := by
  intro ts
  induction ts with
  | nil =>
    intro pad rest fuel st _ hpad hrem hstart hlen hfuel
    cases fuel with
    | zero => omega
    | succ n =>
      simp only [setLoop]
      have hc : contCond ctx st.r = false := by
        simp only [contCond, consumed16, minLeft, if_neg (by omega : ¬ ctx.setId > 255), Bool.and_eq_false_iff]
        right
        simp only [tbody, List.map_nil, List.flatten_nil, List.length_nil] at hlen
        apply decide_eq_false; omega
      rw [hc]
      simp only [tbody, List.map_nil, List.flatten_nil, List.nil_append, List.length_nil,
        Nat.add_zero, insertAll, List.foldl_nil] at hrem ⊢
      cases st with
      | mk r cache rs =>
        cases r with
        | mk rem cnt => simp at hrem ⊢; exact hrem
  | cons t ts ih =>
    intro pad rest fuel st hm hpad hrem hstart hlen hfuel
    cases fuel with
    | zero => simp at hfuel
    | succ n =>
      obtain ⟨hbig, hparse⟩ := hm t (by simp)
      simp only [setLoop]
      rw [tbody_cons] at hrem hlen
      simp only [List.length_append] at hlen
      have hc : contCond ctx st.r = true := by
        simp only [contCond, consumed16, minLeft, if_neg (by omega : ¬ ctx.setId > 255), Bool.and_eq_true]
        refine ⟨⟨?_, ?_⟩, ?_⟩
        · apply decide_eq_true; omega
        · apply decide_eq_true; rw [hrem]; simp only [List.length_append]; omega
        · apply decide_eq_true; omega
      rw [if_pos hc, if_pos hsid]
      have hrem' : st.r = ⟨enc t ++ (tbody enc ts ++ (pad ++ rest)), st.r.cnt⟩ := by
        cases hst : st.r with
        | mk rem cnt =>
          rw [hst] at hrem
          simp only at hrem ⊢
          rw [hrem, List.append_assoc]
      obtain ⟨hpk, hp⟩ := hparse (tbody enc ts ++ (pad ++ rest)) st.r.cnt
      rw [← hrem'] at hp hpk
      rw [if_neg hpk]
      have hp' : (if ctx.setId = 2 then parseTpl st.r else parseOptTpl st.r) =
          (.ok t, ⟨tbody enc ts ++ (pad ++ rest), st.r.cnt + (enc t).length⟩) := by
        split
        · rename_i h0; rw [if_pos h0] at hp; exact hp
        · rename_i h0; rw [if_neg h0] at hp; exact hp
      rw [hp']
      simp only
      have := ih pad rest n
        { st with r := ⟨tbody enc ts ++ (pad ++ rest), st.r.cnt + (enc t).length⟩,
                  cache := st.cache.insert ctx.addr t.tid t }
        (fun r hr => hm r (by simp [hr])) hpad rfl
        (by show ctx.start ≤ st.r.cnt + _; omega)
        (by show st.r.cnt + _ - ctx.start + _ = ctx.len; omega)
        (by simp only [List.length_cons] at hfuel; omega)
      rw [this]
      simp only [tbody_cons, List.length_append, insertAll, List.foldl_cons, Nat.add_assoc]

theorem tbody_length_ge (enc : Template → Bytes) :
    ∀ (ts : List Template), (∀ t ∈ ts, 4 < (enc t).length) → ts.length ≤ (tbody enc ts).length := by
  intro ts
  induction ts with
  | nil => intro _; simp
  | cons x xs ih =>
    intro h
    have := ih (fun r hr => h r (by simp [hr]))
    have hx := h x (by simp)
    simp only [tbody_cons, List.length_append, List.length_cons]
    omega

theorem encodeTemplate_big (t : Template) (hw : Wire.Ipfix.wfTemplate t = true) :
    4 < (Wire.Ipfix.encodeTemplate t).length := by
  obtain ⟨_, _, _, _, _, h5, _, _⟩ := (wfTemplate_iff t).1 hw
  have := sbytes_length_ge t.fields
  rw [encodeTemplate_eq]; simp only [List.length_append, be16_length]; omega

theorem encodeOptTemplate_big (t : Template) : 4 < (Wire.Ipfix.encodeOptTemplate t).length := by
  rw [encodeOptTemplate_eq]; simp only [List.length_append, be16_length]; omega

/-- **C03 level 2d (template set)**: `decodeSet` consumes the whole encoded template set, inserts
exactly its templates (in order, a later one overriding an earlier one with the same id), adds no
record, reports no error -/
theorem decodeSet_tpl (addr : Bytes) (ts : List Template) (pad rest : Bytes)
    (c fuel : Nat) (cache : Cache) (recs : List Record)
    (hw : Wire.Ipfix.wfSet addr cache (.tpl ts pad) = true) (hfuel : ts.length < fuel) :
    decodeSet addr fuel ⟨⟨Wire.Ipfix.encodeTemplateSet ts pad ++ rest, c⟩, cache, recs⟩ =
      (⟨⟨rest, c + (Wire.Ipfix.encodeTemplateSet ts pad).length⟩, insertAll addr cache ts, recs⟩, none) := by
  simp only [Wire.Ipfix.wfSet, Wire.Ipfix.wfSetLen, Wire.Ipfix.wfTplPad, Bool.and_eq_true, decide_eq_true_eq,
    List.all_eq_true] at hw
  obtain ⟨⟨_, hts⟩, hpad, hlen⟩ := hw
  unfold Wire.Ipfix.encodeTemplateSet
  rw [decodeSet_header addr fuel 2 _ pad rest c cache recs (by decide) hlen]
  simp only [setBody, lookupTpl, if_neg (by decide : ¬ (2 > 255)), Option.getD_none]
  have hb : (ts.map Wire.Ipfix.encodeTemplate).flatten = tbody Wire.Ipfix.encodeTemplate ts := rfl
  rw [hb] at hlen ⊢
  simp only [List.length_append] at hlen
  have hloop := setLoop_tpl ⟨addr, 2, 4 + (tbody Wire.Ipfix.encodeTemplate ts ++ pad).length, c, emptyTpl⟩
    Wire.Ipfix.encodeTemplate (Or.inl rfl) (by simp only [List.length_append]; omega) ts pad rest fuel
    ⟨⟨tbody Wire.Ipfix.encodeTemplate ts ++ (pad ++ rest), c + 4⟩, cache, recs⟩
    (by
      intro t ht
      have hwt := hts t ht
      obtain ⟨h0, h1, _⟩ := (wfTemplate_iff t).1 hwt
      refine ⟨encodeTemplate_big t hwt, ?_⟩
      intro rest c
      refine ⟨?_, ?_⟩
      · rw [encodeTemplate_eq, List.append_assoc, peek16_be16 _ h1]
        intro hx; simp at hx; omega
      · simp only [if_true]
        exact parseTpl_roundtrip t hwt rest c)
    hpad rfl (by show c ≤ c + 4; omega)
    (by show c + 4 - c + _ = 4 + _; simp only [List.length_append]; omega) hfuel
  rw [hloop]
  simp only [Bool.false_eq_true, if_false]
  rw [skipRest_pad _ _ pad rest (c + 4 + (tbody Wire.Ipfix.encodeTemplate ts).length) rfl
    (by simp only [List.length_append]; omega) (by show c ≤ _; omega)
    (by simp only [List.length_append]; omega)]
  simp only [encodeSet_length]
  have e : c + 4 + (tbody Wire.Ipfix.encodeTemplate ts).length + pad.length =
      c + (4 + ((tbody Wire.Ipfix.encodeTemplate ts).length + pad.length)) := by omega
  rw [e]

theorem decodeSet_optTpl (addr : Bytes) (ts : List Template) (pad rest : Bytes)
    (c fuel : Nat) (cache : Cache) (recs : List Record)
    (hw : Wire.Ipfix.wfSet addr cache (.optTpl ts pad) = true) (hfuel : ts.length < fuel) :
    decodeSet addr fuel ⟨⟨Wire.Ipfix.encodeOptTemplateSet ts pad ++ rest, c⟩, cache, recs⟩ =
      (⟨⟨rest, c + (Wire.Ipfix.encodeOptTemplateSet ts pad).length⟩, insertAll addr cache ts, recs⟩, none) := by
  simp only [Wire.Ipfix.wfSet, Wire.Ipfix.wfSetLen, Wire.Ipfix.wfTplPad, Bool.and_eq_true, decide_eq_true_eq,
    List.all_eq_true] at hw
  obtain ⟨⟨_, hts⟩, hpad, hlen⟩ := hw
  unfold Wire.Ipfix.encodeOptTemplateSet
  rw [decodeSet_header addr fuel 3 _ pad rest c cache recs (by decide) hlen]
  simp only [setBody, lookupTpl, if_neg (by decide : ¬ (3 > 255)), Option.getD_none]
  have hb : (ts.map Wire.Ipfix.encodeOptTemplate).flatten = tbody Wire.Ipfix.encodeOptTemplate ts := rfl
  rw [hb] at hlen ⊢
  simp only [List.length_append] at hlen
  have hloop := setLoop_tpl ⟨addr, 3, 4 + (tbody Wire.Ipfix.encodeOptTemplate ts ++ pad).length, c, emptyTpl⟩
    Wire.Ipfix.encodeOptTemplate (Or.inr rfl) (by simp only [List.length_append]; omega) ts pad rest fuel
    ⟨⟨tbody Wire.Ipfix.encodeOptTemplate ts ++ (pad ++ rest), c + 4⟩, cache, recs⟩
    (by
      intro t ht
      have hwt := hts t ht
      obtain ⟨h0, h1, _⟩ := (wfOptTemplate_iff t).1 hwt
      refine ⟨encodeOptTemplate_big t, ?_⟩
      intro rest c
      refine ⟨?_, ?_⟩
      · rw [encodeOptTemplate_eq, List.append_assoc, peek16_be16 _ h1]
        intro hx; simp at hx; omega
      · simp only [if_neg (by decide : ¬ ((3 : Nat) = 2))]
        exact parseOptTpl_roundtrip t hwt rest c)
    hpad rfl (by show c ≤ c + 4; omega)
    (by show c + 4 - c + _ = 4 + _; simp only [List.length_append]; omega) hfuel
  rw [hloop]
  simp only [Bool.false_eq_true, if_false]
  rw [skipRest_pad _ _ pad rest (c + 4 + (tbody Wire.Ipfix.encodeOptTemplate ts).length) rfl
    (by simp only [List.length_append]; omega) (by show c ≤ _; omega)
    (by simp only [List.length_append]; omega)]
  simp only [encodeSet_length]
  have e : c + 4 + (tbody Wire.Ipfix.encodeOptTemplate ts).length + pad.length =
      c + (4 + ((tbody Wire.Ipfix.encodeOptTemplate ts).length + pad.length)) := by omega
  rw [e]

/-! ## Level 3: the whole message -/

theorem applySet_acc (addr : Bytes) (recs : List Record) (c : Cache) (s : Wire.Ipfix.FlowSet) :
    Wire.Ipfix.applySet addr (recs, c) s =
      (recs ++ (Wire.Ipfix.applySet addr ([], c) s).1, (Wire.Ipfix.applySet addr ([], c) s).2) := by
  cases s <;> simp [Wire.Ipfix.applySet]

theorem tpl_items_le (ts : List Template) (h : ∀ t ∈ ts, Wire.Ipfix.wfTemplate t = true) :
    ts.length ≤ ((ts.map Wire.Ipfix.encodeTemplate).flatten).length :=
  tbody_length_ge Wire.Ipfix.encodeTemplate ts (fun t ht => encodeTemplate_big t (h t ht))

theorem optTpl_items_le (ts : List Template) :
    ts.length ≤ ((ts.map Wire.Ipfix.encodeOptTemplate).flatten).length :=
  tbody_length_ge Wire.Ipfix.encodeOptTemplate ts (fun t _ => encodeOptTemplate_big t)

/-- a well-formed set is longer than its header -/
theorem wfSet_length (addr : Bytes) (cache : Cache) (s : Wire.Ipfix.FlowSet)
    (hw : Wire.Ipfix.wfSet addr cache s = true) : 4 < (Wire.Ipfix.encodeFlowSet s).length := by
  cases s with
  | tpl ts pad =>
    simp only [Wire.Ipfix.wfSet, Bool.and_eq_true, List.all_eq_true] at hw
    obtain ⟨⟨hne, hts⟩, _⟩ := hw
    have := tpl_items_le ts hts
    cases ts with
    | nil => simp at hne
    | cons t ts =>
      simp only [Wire.Ipfix.encodeFlowSet, Wire.Ipfix.encodeTemplateSet, encodeSet_length]
      simp only [List.length_cons] at this
      omega
  | optTpl ts pad =>
    simp only [Wire.Ipfix.wfSet, Bool.and_eq_true, List.all_eq_true] at hw
    obtain ⟨⟨hne, hts⟩, _⟩ := hw
    have := optTpl_items_le ts
    cases ts with
    | nil => simp at hne
    | cons t ts =>
      simp only [Wire.Ipfix.encodeFlowSet, Wire.Ipfix.encodeOptTemplateSet, encodeSet_length]
      simp only [List.length_cons] at this
      omega
  | data t records pad =>
    simp only [Wire.Ipfix.wfSet, Bool.and_eq_true, decide_eq_true_eq, List.all_eq_true] at hw
    obtain ⟨⟨⟨_, hne⟩, hrec⟩, _⟩ := hw
    have := body_length_ge t records hrec
    cases records with
    | nil => simp at hne
    | cons x xs =>
      simp only [Wire.Ipfix.encodeFlowSet, Wire.Ipfix.encodeDataSet, encodeSet_length]
      simp only [body, List.length_cons] at this
      omega

/-- **C03 level 2 (any set)**: with more fuel than octets in the set, `decodeSet` consumes it entirely
and has exactly the effect `applySet` specifies -/
theorem decodeSet_flowSet (addr : Bytes) (s : Wire.Ipfix.FlowSet) (rest : Bytes) (c fuel : Nat)
    (cache : Cache) (recs : List Record)
    (hw : Wire.Ipfix.wfSet addr cache s = true) (hfuel : (Wire.Ipfix.encodeFlowSet s).length < fuel) :
    decodeSet addr fuel ⟨⟨Wire.Ipfix.encodeFlowSet s ++ rest, c⟩, cache, recs⟩ =
      (⟨⟨rest, c + (Wire.Ipfix.encodeFlowSet s).length⟩, (Wire.Ipfix.applySet addr (recs, cache) s).2,
        (Wire.Ipfix.applySet addr (recs, cache) s).1⟩, none) := by
  cases s with
  | tpl ts pad =>
    have hw' := hw
    simp only [Wire.Ipfix.wfSet, Bool.and_eq_true, List.all_eq_true] at hw'
    have := tpl_items_le ts hw'.1.2
    simp only [Wire.Ipfix.encodeFlowSet, Wire.Ipfix.encodeTemplateSet, encodeSet_length] at hfuel
    exact decodeSet_tpl addr ts pad rest c fuel cache recs hw (by omega)
  | optTpl ts pad =>
    have := optTpl_items_le ts
    simp only [Wire.Ipfix.encodeFlowSet, Wire.Ipfix.encodeOptTemplateSet, encodeSet_length] at hfuel
    exact decodeSet_optTpl addr ts pad rest c fuel cache recs hw (by omega)
  | data t records pad =>
    have hw' := hw
    simp only [Wire.Ipfix.wfSet, Bool.and_eq_true, decide_eq_true_eq, List.all_eq_true] at hw'
    obtain ⟨⟨_, hrec⟩, _⟩ := hw'
    have := body_length_ge t records hrec
    simp only [Wire.Ipfix.encodeFlowSet, Wire.Ipfix.encodeDataSet, encodeSet_length] at hfuel
    simp only [body] at this
    exact decodeSet_data addr t records pad rest c fuel cache recs hw (by omega)

/-- octets of a list of sets -/
def setsBytes (sets : List Wire.Ipfix.FlowSet) : Bytes := (sets.map Wire.Ipfix.encodeFlowSet).flatten

theorem setsBytes_cons (s : Wire.Ipfix.FlowSet) (ss : List Wire.Ipfix.FlowSet) :
    setsBytes (s :: ss) = Wire.Ipfix.encodeFlowSet s ++ setsBytes ss := by simp [setsBytes]

/-- the set loop of `Decode` over a well-formed list of sets: every set is consumed, the result is the
fold of `applySet`, no error of either kind -/
theorem outer_roundtrip (addr : Bytes) : ∀ (sets : List Wire.Ipfix.FlowSet) (cache : Cache)
    (recs : List Record) (c fuel : Nat) (errs : List Err),
    Wire.Ipfix.wfSets addr cache sets = true → sets.length < fuel →
    outer addr fuel ⟨⟨setsBytes sets, c⟩, cache, recs⟩ errs =
      (⟨⟨[], c + (setsBytes sets).length⟩, (sets.foldl (Wire.Ipfix.applySet addr) (recs, cache)).2,
        (sets.foldl (Wire.Ipfix.applySet addr) (recs, cache)).1⟩, none, errs) := by
  intro sets
  induction sets with
  | nil =>
    intro cache recs c fuel errs _ hf
    cases fuel with
    | zero => omega
    | succ n => simp [outer, setsBytes]
  | cons s ss ih =>
    intro cache recs c fuel errs hw hf
    cases fuel with
    | zero => omega
    | succ n =>
      simp only [Wire.Ipfix.wfSets, Bool.and_eq_true] at hw
      obtain ⟨hws, hwss⟩ := hw
      have hlen := wfSet_length addr cache s hws
      simp only [outer, setsBytes_cons]
      rw [if_pos (by simp only [List.length_append]; omega)]
      rw [decodeSet_flowSet addr s (setsBytes ss) c _ cache recs hws
        (by simp only [List.length_append]; omega)]
      simp only
      rw [applySet_acc]
      rw [ih _ _ _ n errs hwss (by simp only [List.length_cons] at hf; omega)]
      simp only [List.foldl_cons, List.length_append, Nat.add_assoc]
      rw [applySet_acc addr recs cache s]

theorem readHeader_roundtrip (m : Wire.Ipfix.Msg) (rest : Bytes)
    (h1 : Wire.Ipfix.msgLen m < 65536) (h2 : m.exportTime < 4294967296)
    (h3 : m.seq < 4294967296) (h4 : m.domain < 4294967296) :
    readHeader ⟨Wire.Ipfix.encodeHeader m ++ rest, 0⟩ = some (Wire.Ipfix.expectedHdr m, ⟨rest, 16⟩) := by
  simp only [readHeader, Wire.Ipfix.encodeHeader, List.append_assoc]
  rw [rU16_be16 10 (by decide)]
  simp only
  rw [rU16_be16 _ h1]
  simp only
  rw [rU32_be32 _ h2]
  simp only
  rw [rU32_be32 _ h3]
  simp only
  rw [rU32_be32 _ h4]
  rfl

theorem setsBytes_length_ge (addr : Bytes) : ∀ (sets : List Wire.Ipfix.FlowSet) (cache : Cache),
    Wire.Ipfix.wfSets addr cache sets = true → sets.length ≤ (setsBytes sets).length := by
  intro sets
  induction sets with
  | nil => intro _ _; simp
  | cons s ss ih =>
    intro cache hw
    simp only [Wire.Ipfix.wfSets, Bool.and_eq_true] at hw
    have := ih _ hw.2
    have := wfSet_length addr cache s hw.1
    simp only [setsBytes_cons, List.length_append, List.length_cons]
    omega

/-- **C03 level 3 (message)**: a well-formed IPFIX message is decoded to its header, exactly the
expected records in order, no non-fatal error, and the cache updated with the message's templates -/
theorem decode_roundtrip (c : Cache) (addr : Bytes) (m : Wire.Ipfix.Msg)
    (hw : Wire.Ipfix.wfMsg addr c m = true) :
    decode c addr (Wire.Ipfix.encodeMsg m) =
      (.ok (Wire.Ipfix.expectedHdr m, (Wire.Ipfix.expected addr c m).1, []),
       (Wire.Ipfix.expected addr c m).2) := by
  simp only [Wire.Ipfix.wfMsg, Bool.and_eq_true, decide_eq_true_eq] at hw
  obtain ⟨⟨⟨⟨h1, h2⟩, h3⟩, h4⟩, hsets⟩ := hw
  have hb : Wire.Ipfix.setsBytes m = setsBytes m.sets := rfl
  simp only [decode, Wire.Ipfix.encodeMsg, hb]
  rw [readHeader_roundtrip m _ h1 h2 h3 h4]
  simp only [Wire.Ipfix.expectedHdr, List.headD_cons, ne_eq, not_true_eq_false, if_false]
  have hl := setsBytes_length_ge addr m.sets c hsets
  rw [outer_roundtrip addr m.sets c [] 16 _ [] hsets
    (by simp only [List.length_append]; omega)]
  simp only [Wire.Ipfix.expected]

end Vflow.Ipfix
