import Vflow.Model.Ipfix
import Vflow.Proofs.WireLemmas
import Vflow.Proofs.EqnsIpfix
/-!
# C03 — IPFIX round trip: what the RFC 7011 encoder of `Spec/Wire.lean` writes, the decoder model
reads back exactly

Levels: field (incl. variable length) → record → record loop → set → message.
-/
namespace Vflow.Ipfix
open Vflow Vflow.Wire
open Vflow.Wire.Ipfix (VVal)

attribute [local irreducible] Vflow.lookupElem

/-! ## Level 1: one data record -/

theorem expectedField_of_lookup {s : Spec} {v : Bytes} {fid ty : Nat}
    (h : lookupElem s.ent s.id = some (fid, ty)) :
    expectedField s v = ⟨fid, s.ent, interpret v ty⟩ := by
  unfold expectedField
  rw [h]

/-- what `wfField` says once the element's type is known -/
theorem wfField_of_lookup {s : Spec} {v : VVal} {fid ty : Nat}
    (h : lookupElem s.ent s.id = some (fid, ty)) (hw : Wire.Ipfix.wfField s v = true) :
    if s.len = 65535 then
      (ty = tString ∨ ty = tOctets) ∧
        (if v.long = true then v.octets.length < 65536 else v.octets.length < 255)
    else v.octets.length = s.len := by
  unfold Wire.Ipfix.wfField at hw
  rw [h] at hw
  simp only at hw
  split at hw
  · rename_i h1
    rw [if_pos h1]
    simp only [Bool.and_eq_true, Bool.or_eq_true, beq_iff_eq] at hw
    refine ⟨hw.1, ?_⟩
    split at hw <;> rename_i h2
    · rw [if_pos h2]; simpa using hw.2
    · rw [if_neg h2]; simpa using hw.2
  · rename_i h1
    rw [if_neg h1]
    simpa using hw

theorem wfField_lookup {s : Spec} {v : VVal} (hw : Wire.Ipfix.wfField s v = true) :
    ∃ fid ty, lookupElem s.ent s.id = some (fid, ty) := by
  unfold Wire.Ipfix.wfField at hw
  generalize hle : lookupElem s.ent s.id = le at hw
  cases le with
  | none => simp at hw
  | some p => exact ⟨p.1, p.2, rfl⟩

/-- the length prefix of a field on the wire -/
def prefixOf (s : Spec) (v : VVal) : Bytes :=
  if s.len = 65535 then
    (if v.long then [255] ++ be16 v.octets.length else [UInt8.ofNat v.octets.length])
  else []

theorem encodeField_eq (s : Spec) (v : VVal) :
    Wire.Ipfix.encodeField s v = prefixOf s v ++ v.octets := by
  unfold Wire.Ipfix.encodeField prefixOf
  split <;> simp

/-- `getDataLength` reads the prefix the encoder wrote and returns the value's length -/
theorem dataLen_roundtrip {s : Spec} {v : VVal} {fid ty : Nat}
    (h : lookupElem s.ent s.id = some (fid, ty)) (hw : Wire.Ipfix.wfField s v = true)
    (tail : Bytes) (c : Nat) :
    dataLen ⟨prefixOf s v ++ tail, c⟩ s.len ty =
      (.ok v.octets.length, ⟨tail, c + (prefixOf s v).length⟩) := by
  have hf := wfField_of_lookup h hw
  unfold dataLen prefixOf
  by_cases h1 : s.len = 65535
  · rw [if_pos h1] at hf
    obtain ⟨hty, hlen⟩ := hf
    rw [if_pos ⟨hty, h1⟩, if_pos h1]
    by_cases h2 : v.long = true
    · rw [if_pos h2] at hlen
      rw [if_pos h2]
      have e1 : ([255] ++ be16 v.octets.length ++ tail : Bytes) =
          UInt8.ofNat 255 :: (be16 v.octets.length ++ tail) := by
        simp only [List.cons_append]; rfl
      rw [e1, rU8_byte 255 (by decide)]
      simp only [if_true]
      rw [rU16_be16 _ hlen]
      simp [be16_length, Nat.add_assoc]
    · rw [if_neg h2] at hlen
      rw [if_neg h2]
      rw [List.singleton_append, rU8_byte _ (by omega)]
      have : ¬ v.octets.length = 255 := by omega
      simp [this]
  · rw [if_neg h1] at hf
    rw [if_neg (fun hh => h1 hh.2), if_neg h1]
    simp [hf]

/-- the field loop reads back a conforming list of values -/
theorem decFields_roundtrip : ∀ (specs : List Spec) (vals : List VVal) (rest : Bytes) (c : Nat)
    (acc : Record),
    specs.length = vals.length → (List.zipWith Wire.Ipfix.wfField specs vals).all id = true →
    decFields specs ⟨(List.zipWith Wire.Ipfix.encodeField specs vals).flatten ++ rest, c⟩ acc =
      (.ok (acc ++ List.zipWith expectedField specs (vals.map (·.octets))),
       ⟨rest, c + (List.zipWith Wire.Ipfix.encodeField specs vals).flatten.length⟩) := by
  intro specs
  induction specs with
  | nil =>
    intro vals rest c acc hl _
    cases vals with
    | nil => simp [decFields_nil]
    | cons v vs => simp at hl
  | cons f fs ih =>
    intro vals rest c acc hl hw
    cases vals with
    | nil => simp at hl
    | cons v vs =>
      simp only [List.zipWith_cons_cons, List.all_cons, id, Bool.and_eq_true] at hw
      obtain ⟨hwf, hws⟩ := hw
      obtain ⟨fid, ty, hlk⟩ := wfField_lookup hwf
      have hdl := dataLen_roundtrip hlk hwf
        (v.octets ++ ((List.zipWith Wire.Ipfix.encodeField fs vs).flatten ++ rest)) c
      have hread := readN_append v.octets ((List.zipWith Wire.Ipfix.encodeField fs vs).flatten ++ rest)
        (c + (prefixOf f v).length)
      rw [decFields_cons]
      simp only [List.zipWith_cons_cons, List.flatten_cons, encodeField_eq f v, List.append_assoc]
      simp only [hlk]
      rw [hdl]
      simp only
      rw [hread]
      simp only
      rw [ih vs rest _ _ (by simpa using hl) hws]
      rw [List.map_cons, List.zipWith_cons_cons, expectedField_of_lookup (v := v.octets) hlk]
      simp [Nat.add_assoc]

/-- **C03 level 1 (record)**: a conforming data record — fixed- and variable-length fields, scope
fields first — is decoded exactly as its template describes, the reader ends right behind it -/
theorem decodeData_roundtrip (t : Template) (vals : List VVal) (rest : Bytes) (c : Nat)
    (hw : Wire.Ipfix.wfRecord t vals = true) :
    decodeData t ⟨Wire.Ipfix.encodeRecord t vals ++ rest, c⟩ =
      (.ok (Wire.Ipfix.expectedRecord t vals), ⟨rest, c + (Wire.Ipfix.encodeRecord t vals).length⟩) := by
  simp only [Wire.Ipfix.wfRecord, Bool.and_eq_true, beq_iff_eq, decide_eq_true_eq] at hw
  obtain ⟨⟨hl, hwf⟩, hlen⟩ := hw
  have := decFields_roundtrip (specsOf t) vals rest c [] hl hwf
  have hs : t.scope ++ t.fields = specsOf t := rfl
  unfold decodeData
  rw [hs]
  unfold Wire.Ipfix.encodeRecord at hlen ⊢
  rw [this]
  simp only [List.nil_append]
  have hne : (List.zipWith expectedField (specsOf t) (vals.map (·.octets))).isEmpty = false := by
    cases hsp : specsOf t with
    | nil => rw [hsp] at hlen; simp at hlen
    | cons f fs =>
      cases vals with
      | nil => simp at hlen
      | cons v vs => simp
  rw [hne]
  simp [Wire.Ipfix.expectedRecord, Wire.expectedRecord]

end Vflow.Ipfix
