import Vflow.Spec.Json
import Vflow.Model.JsonOut
/-!
# Lexical lemmas for C05: the text the encoders emit is in the RFC 8259 lexical classes

* `natDigits n` / `intDigits i` are JSON numbers, and `decode10 (natDigits n) = n` (exact decimal text);
* `escString s` (Go's `encoding/json` escaping, HTML-safe) is a JSON string body for *every* octet
  string `s`, and is the identity on plain ASCII text;
* the address / hex texts (`ipBytes`, `ip4Bytes`, `macBytes`, `hexBytes`) consist of octets that need
  no escaping, hence are JSON string bodies.
-/
namespace Vflow.JsonLex
open Vflow Vflow.Spec

/-! ## UInt8 arithmetic helpers -/

theorem toNat_ofNat_lt {n : Nat} (h : n < 256) : (UInt8.ofNat n).toNat = n := by
  simp [UInt8.toNat_ofNat']; omega

theorem isDigit_iff (c : UInt8) : isDigit c = true ↔ 48 ≤ c.toNat ∧ c.toNat ≤ 57 := by
  simp [isDigit, UInt8.le_iff_toNat_le]

theorem isDigit_ofNat {n : Nat} (h : n < 10) : isDigit (UInt8.ofNat (48 + n)) = true := by
  rw [isDigit_iff, toNat_ofNat_lt (by omega)]; omega

/-! ## Decimal text -/

/-- every octet of `natDigits n` is a decimal digit -/
theorem natDigits_digits (n : Nat) : ∀ c ∈ natDigits n, isDigit c = true := by
  fun_induction natDigits n with
  | case1 n h => intro c hc; rw [List.mem_singleton.mp hc]; exact isDigit_ofNat h
  | case2 n h ih =>
    intro c hc
    rw [List.mem_append] at hc
    rcases hc with hc | hc
    · exact ih c hc
    · rw [List.mem_singleton.mp hc]; exact isDigit_ofNat (by omega)

/-- shape of `natDigits`: `"0"`, or a non-zero leading digit followed by digits -/
theorem natDigits_shape (n : Nat) :
    ∃ c t, natDigits n = c :: t ∧ (∀ x ∈ t, isDigit x = true) ∧
      ((n = 0 ∧ c = 48 ∧ t = []) ∨ (0 < n ∧ 49 ≤ c.toNat ∧ c.toNat ≤ 57)) := by
  fun_induction natDigits n with
  | case1 n h =>
    refine ⟨_, [], rfl, by simp, ?_⟩
    by_cases h0 : n = 0
    · left; subst h0; exact ⟨rfl, rfl, rfl⟩
    · right; rw [toNat_ofNat_lt (by omega)]; omega
  | case2 n h ih =>
    obtain ⟨c, t, he, ht, hc⟩ := ih
    refine ⟨c, t ++ [UInt8.ofNat (48 + n % 10)], by rw [he]; rfl, ?_, ?_⟩
    · intro x hx
      rw [List.mem_append] at hx
      rcases hx with hx | hx
      · exact ht x hx
      · rw [List.mem_singleton.mp hx]; exact isDigit_ofNat (by omega)
    · right
      rcases hc with ⟨h0, _, _⟩ | ⟨_, h1, h2⟩
      · omega
      · exact ⟨by omega, h1, h2⟩

theorem dropWhile_digits {t : Bytes} (h : ∀ x ∈ t, isDigit x = true) : t.dropWhile isDigit = [] := by
  induction t with
  | nil => rfl
  | cons a t ih =>
    rw [List.dropWhile_cons, if_pos (h a (by simp))]
    exact ih (fun x hx => h x (by simp [hx]))

theorem isUnsigned_natDigits (n : Nat) : isUnsignedNumber (natDigits n) = true ∧ (natDigits n).head? ≠ some 45 := by
  obtain ⟨c, t, he, ht, hc⟩ := natDigits_shape n
  rw [he]
  rcases hc with ⟨_, hc, ht0⟩ | ⟨_, h1, h2⟩
  · subst hc; subst ht0; exact ⟨by decide, by decide⟩
  · have hne : c ≠ 48 := by intro h; subst h; simp at h1
    have h45 : c ≠ 45 := by intro h; subst h; simp at h1
    refine ⟨?_, by simpa using h45⟩
    rw [isUnsignedNumber]
    · simp [dropWhile_digits ht, isFracExpOpt, isExpOpt, UInt8.le_iff_toNat_le, h1, h2]
    · intro h; exact hne h

theorem isNumber_of_unsigned {l : Bytes} (h : isUnsignedNumber l = true) (h45 : l.head? ≠ some 45) :
    isNumber l = true := by
  rw [isNumber]
  · exact h
  · intro t ht; subst ht; simp at h45

/-- **exact JSON number**: the decimal text of a natural number is an RFC 8259 `number` -/
theorem natDigits_isNumber (n : Nat) : isNumber (natDigits n) = true :=
  isNumber_of_unsigned (isUnsigned_natDigits n).1 (isUnsigned_natDigits n).2

/-- the decimal text of an integer (`strconv.FormatInt`) is an RFC 8259 `number` -/
theorem intDigits_isNumber (i : Int) : isNumber (intDigits i) = true := by
  unfold intDigits
  split
  · simp only [isNumber]; exact (isUnsigned_natDigits _).1
  · exact natDigits_isNumber _

/-- value of a digit string read in base 10 -/
def decode10 (l : Bytes) : Nat := l.foldl (fun a c => a * 10 + (c.toNat - 48)) 0

/-- **numbers are exact**: reading the emitted digits back in base 10 gives the number -/
theorem decode10_natDigits (n : Nat) : decode10 (natDigits n) = n := by
  fun_induction natDigits n with
  | case1 n h => simp [decode10]; omega
  | case2 n h ih =>
    unfold decode10 at ih ⊢
    rw [List.foldl_append, ih]
    simp
    omega

theorem natDigits_injective {a b : Nat} (h : natDigits a = natDigits b) : a = b := by
  rw [← decode10_natDigits a, ← decode10_natDigits b, h]

/-! ## String bodies -/

/-- an octet that may appear unescaped in a JSON string -/
def safeOctet (c : UInt8) : Bool := c != 34 && c != 92 && 32 ≤ c

/-- simple escapes `\" \\ \/ \b \f \n \r \t` -/
def isEscChar (e : UInt8) : Bool :=
  e == 34 || e == 92 || e == 47 || e == 98 || e == 102 || e == 110 || e == 114 || e == 116

theorem isStrBody_cons_of_ne {c : UInt8} (t : Bytes) (h : c ≠ 92) :
    isStrBody (c :: t) = (safeOctet c && isStrBody t) := by
  rw [isStrBody]
  all_goals simp_all [safeOctet]

theorem isStrBody_esc {e : UInt8} (t : Bytes) (h : e ≠ 117) :
    isStrBody (92 :: e :: t) = (isEscChar e && isStrBody t) := by
  rw [isStrBody]
  all_goals simp_all [isEscChar]

theorem isStrBody_u (a b c d : UInt8) (t : Bytes) :
    isStrBody (92 :: 117 :: a :: b :: c :: d :: t) =
      (isHexDigit a && isHexDigit b && isHexDigit c && isHexDigit d && isStrBody t) := by
  rw [isStrBody]

/-- concatenation of string bodies is a string body -/
theorem isStrBody_append {a b : Bytes} (ha : isStrBody a = true) (hb : isStrBody b = true) :
    isStrBody (a ++ b) = true := by
  fun_induction isStrBody a with
  | case1 => simpa using hb
  | case2 x y z w t ih =>
    simp only [Bool.and_eq_true] at ha
    simp only [List.cons_append, isStrBody_u, Bool.and_eq_true]
    exact ⟨ha.1, ih ha.2⟩
  | case3 e t hne ih =>
    simp only [Bool.and_eq_true] at ha
    have h117 : e ≠ 117 := by
      intro h; subst h; exact absurd ha.1 (by decide)
    simp only [List.cons_append, isStrBody_esc _ h117, Bool.and_eq_true]
    exact ⟨ha.1, ih ha.2⟩
  | case4 c t h1 h2 ih =>
    simp only [Bool.and_eq_true] at ha
    have h92 : c ≠ 92 := by simpa using ha.1.1.2
    simp only [List.cons_append, isStrBody_cons_of_ne _ h92, Bool.and_eq_true, safeOctet]
    exact ⟨ha.1, ih ha.2⟩

theorem isStrBody_of_safe' {l : Bytes} (h : l.all safeOctet = true) : isStrBody l = true := by
  induction l with
  | nil => rfl
  | cons c t ih =>
    simp only [List.all_cons, Bool.and_eq_true] at h
    have h92 : c ≠ 92 := by
      intro hc; subst hc; exact absurd h.1 (by decide)
    rw [isStrBody_cons_of_ne _ h92, h.1, ih h.2]; rfl

/-- octets other than `"`, `\` and controls need no escaping -/
theorem isStrBody_of_safe {l : Bytes} (h : ∀ c ∈ l, c ≠ 34 ∧ c ≠ 92 ∧ 32 ≤ c) : isStrBody l = true := by
  apply isStrBody_of_safe'
  rw [List.all_eq_true]
  intro c hc
  obtain ⟨h1, h2, h3⟩ := h c hc
  simp [safeOctet, h1, h2, h3]

theorem isStrBody_append_safe {a b : Bytes} (ha : ∀ c ∈ a, c ≠ 34 ∧ c ≠ 92 ∧ 32 ≤ c)
    (hb : isStrBody b = true) : isStrBody (a ++ b) = true :=
  isStrBody_append (isStrBody_of_safe ha) hb

/-! ## Go's string escaping -/

theorem byte_cases (P : UInt8 → Prop) (h : ∀ n, n < 256 → P (UInt8.ofNat n)) (b : UInt8) : P b := by
  have := h b.toNat b.toNat_lt
  simpa using this

theorem escAscii_isStrBody (b : UInt8) : isStrBody (escAscii b) = true := by
  apply byte_cases (fun b => isStrBody (escAscii b) = true)
  decide +kernel

theorem high_safe {c : UInt8} (h : 0x80 ≤ c) : safeOctet c = true := by
  rw [UInt8.le_iff_toNat_le] at h
  simp [safeOctet, UInt8.le_iff_toNat_le]
  refine ⟨⟨?_, ?_⟩, ?_⟩
  · intro hc; subst hc; simp at h
  · intro hc; subst hc; simp at h
  · simp at h; omega

/-- a valid multi-octet UTF-8 sequence consists of octets ≥ 0x80 only -/
theorem utf8Len_high (b : UInt8) (rest : Bytes) (hb : ¬ b < 0x80) :
    ∀ c ∈ (b :: rest).take (utf8Len (b :: rest)), 0x80 ≤ c := by
  have hb' : 0x80 ≤ b := by simpa [UInt8.lt_iff_toNat_lt, UInt8.le_iff_toNat_le] using hb
  simp only [utf8Len, if_neg hb]
  repeat' split
  all_goals try (simp; done)
  all_goals intro c hc; simp only [List.take, List.mem_cons, List.not_mem_nil, or_false] at hc
  all_goals simp only [isCont, Bool.and_eq_true, decide_eq_true_eq, UInt8.le_iff_toNat_le] at *
  all_goals simp only [UInt8.toNat_ofNat] at *
  all_goals rcases hc with rfl | rfl | rfl | rfl
  all_goals omega

/-- `escBody` emits string bodies only — for every fuel and every octet string -/
theorem escBody_isStrBody (f : Nat) (s : Bytes) : isStrBody (escBody f s) = true := by
  induction f generalizing s with
  | zero => simp only [escBody]; rfl
  | succ f ih =>
    cases s with
    | nil => simp only [escBody]; rfl
    | cons b rest =>
      simp only [escBody]
      split
      · exact isStrBody_append (escAscii_isStrBody b) (ih _)
      · rename_i hb
        split
        · exact isStrBody_append (by decide) (ih _)
        · split
          · exact isStrBody_append (by decide) (ih _)
          · split
            · exact isStrBody_append (by decide) (ih _)
            · refine isStrBody_append (isStrBody_of_safe' ?_) (ih _)
              rw [List.all_eq_true]
              intro c hc
              exact high_safe (utf8Len_high b rest hb c hc)

/-- **every string value is a JSON string body**: Go's escaping of an arbitrary octet string
(quotes, backslashes, controls, `<`, `>`, `&`, invalid UTF-8, U+2028/9) -/
theorem escString_isStrBody (s : Bytes) : isStrBody (escString s) = true :=
  escBody_isStrBody _ _

/-- plain ASCII text (printable, none of `" \ < > &`) -/
def plainOctet (c : UInt8) : Bool := 32 ≤ c && c < 127 && !(c == 34 || c == 92 || c == 60 || c == 62 || c == 38)

theorem escAscii_plain (c : UInt8) : plainOctet c = true → escAscii c = [c] ∧ c < 0x80 := by
  apply byte_cases (fun c => plainOctet c = true → escAscii c = [c] ∧ c < 0x80)
  decide +kernel

theorem escBody_id_of_plain (f : Nat) (s : Bytes) (hf : s.length ≤ f) (h : s.all plainOctet = true) :
    escBody f s = s := by
  induction f generalizing s with
  | zero => cases s with
    | nil => rfl
    | cons _ _ => simp at hf
  | succ f ih =>
    cases s with
    | nil => rfl
    | cons b rest =>
      simp only [List.all_cons, Bool.and_eq_true] at h
      obtain ⟨h1, h2⟩ := escAscii_plain b h.1
      simp only [escBody, if_pos h2, h1]
      rw [ih rest (by simpa using hf) h.2]; rfl

/-- **plain text is carried verbatim**: printable ASCII without `" \ < > &` is not changed by the escaping -/
theorem escString_id_of_plain {s : Bytes}
    (h : ∀ c ∈ s, 32 ≤ c ∧ c < 127 ∧ c ∉ [34, 92, 60, 62, 38]) : escString s = s := by
  apply escBody_id_of_plain _ _ (Nat.le_refl _)
  rw [List.all_eq_true]
  intro c hc
  obtain ⟨h1, h2, h3⟩ := h c hc
  simp only [List.mem_cons, List.not_mem_nil, or_false, not_or] at h3
  simp [plainOctet, h1, h2, h3]

/-! ## Address and hex text -/

/-- the alphabet of the address / hex texts: digits, `a`–`f`, `.`, `:`, `?`, and `<`, `n`, `i`, `l`, `>` -/
def txtOctet (c : UInt8) : Bool :=
  isDigit c || (97 ≤ c && c ≤ 102) || c == 46 || c == 58 || c == 63 ||
    c == 60 || c == 110 || c == 105 || c == 108 || c == 62

/-- all octets are in the address-text alphabet -/
def AllTxt (l : Bytes) : Prop := ∀ c ∈ l, txtOctet c = true

theorem txt_safe (c : UInt8) : txtOctet c = true → safeOctet c = true := by
  apply byte_cases (fun c => txtOctet c = true → safeOctet c = true)
  decide +kernel

theorem AllTxt.isStrBody {l : Bytes} (h : AllTxt l) : isStrBody l = true := by
  apply isStrBody_of_safe'
  rw [List.all_eq_true]
  exact fun c hc => txt_safe c (h c hc)

theorem AllTxt.nil : AllTxt [] := by intro c hc; simp at hc
theorem AllTxt.append {a b : Bytes} (ha : AllTxt a) (hb : AllTxt b) : AllTxt (a ++ b) := by
  intro c hc; rw [List.mem_append] at hc; exact hc.elim (ha c) (hb c)
theorem AllTxt.cons {c : UInt8} {l : Bytes} (hc : txtOctet c = true) (hl : AllTxt l) : AllTxt (c :: l) := by
  intro x hx; rw [List.mem_cons] at hx; rcases hx with rfl | hx; exact hc; exact hl x hx

theorem hexLower_txt : ∀ n, n < 16 → txtOctet (hexLower n) = true := by decide +kernel

theorem natDigits_txt (n : Nat) : AllTxt (natDigits n) := by
  intro c hc; simp [txtOctet, natDigits_digits n c hc]

theorem hexDigits_txt (n : Nat) : AllTxt (hexDigits n) := by
  fun_induction hexDigits n with
  | case1 n h => exact AllTxt.cons (hexLower_txt n h) AllTxt.nil
  | case2 n h ih => exact ih.append (AllTxt.cons (hexLower_txt _ (by omega)) AllTxt.nil)

theorem hexBytes_txt (b : Bytes) : AllTxt (hexBytes b) := by
  induction b with
  | nil => exact AllTxt.nil
  | cons x t ih =>
    have := x.toNat_lt
    exact AllTxt.cons (hexLower_txt _ (by omega)) (AllTxt.cons (hexLower_txt _ (by omega)) ih)

theorem joinSep_txt {sep : UInt8} (hs : txtOctet sep = true) (xs : List Bytes) (h : ∀ x ∈ xs, AllTxt x) :
    AllTxt (joinSep sep xs) := by
  fun_induction joinSep sep xs with
  | case1 => exact AllTxt.nil
  | case2 x => exact h x (by simp)
  | case3 x xs hne ih =>
    exact ((h x (by simp)).append (AllTxt.cons hs AllTxt.nil)).append (ih (fun y hy => h y (by simp [hy])))

theorem ip4Bytes_txt (b : Bytes) : AllTxt (ip4Bytes b) := by
  apply joinSep_txt (by decide)
  intro x hx
  rw [List.mem_map] at hx
  obtain ⟨y, _, rfl⟩ := hx
  exact natDigits_txt _

theorem map_hexDigits_txt (g : List Nat) : ∀ x ∈ g.map hexDigits, AllTxt x := by
  intro x hx
  rw [List.mem_map] at hx
  obtain ⟨y, _, rfl⟩ := hx
  exact hexDigits_txt _

theorem ip6Bytes_txt (b : Bytes) : AllTxt (ip6Bytes b) := by
  simp only [ip6Bytes]
  split
  · exact joinSep_txt (by decide) _ (map_hexDigits_txt _)
  · exact ((joinSep_txt (by decide) _ (map_hexDigits_txt _)).append
      (AllTxt.cons (by decide) (AllTxt.cons (by decide) AllTxt.nil))).append
      (joinSep_txt (by decide) _ (map_hexDigits_txt _))

/-- `net.IP.String` of any octet string (any length) is plain address text -/
theorem ipBytes_txt (b : Bytes) : AllTxt (ipBytes b) := by
  simp only [ipBytes]
  split
  · intro c hc; revert c; decide
  · split
    · exact ip4Bytes_txt _
    · split
      · split
        · exact ip4Bytes_txt _
        · exact ip6Bytes_txt _
      · exact AllTxt.cons (by decide) (hexBytes_txt _)

theorem macBytes_txt (b : Bytes) : AllTxt (macBytes b) := by
  apply joinSep_txt (by decide)
  intro x hx
  rw [List.mem_map] at hx
  obtain ⟨y, _, rfl⟩ := hx
  exact hexBytes_txt _

theorem ipBytes_isStrBody (b : Bytes) : isStrBody (ipBytes b) = true := (ipBytes_txt b).isStrBody
theorem ip4Bytes_isStrBody (b : Bytes) : isStrBody (ip4Bytes b) = true := (ip4Bytes_txt b).isStrBody
theorem macBytes_isStrBody (b : Bytes) : isStrBody (macBytes b) = true := (macBytes_txt b).isStrBody
theorem hexBytes_isStrBody (b : Bytes) : isStrBody (hexBytes b) = true := (hexBytes_txt b).isStrBody
theorem natDigits_isStrBody (n : Nat) : isStrBody (natDigits n) = true := (natDigits_txt n).isStrBody

/-- `0x…` text of an uninterpreted value -/
theorem rawText_isStrBody (b : Bytes) : isStrBody (48 :: 120 :: hexBytes b) = true := by
  rw [isStrBody_cons_of_ne _ (by decide), isStrBody_cons_of_ne _ (by decide), hexBytes_isStrBody]; decide

end Vflow.JsonLex
