import Vflow.Model.Producer
/-! Helper lemmas for C14 (core Lean only). -/
namespace Vflow
namespace Producer

/-- number of `j < n` whose write outcome satisfies `p` -/
def countTo (p : WOut → Bool) (wo : Nat → WOut) : Nat → Nat
  | 0 => 0
  | n+1 => countTo p wo n + (if p (wo n) then 1 else 0)

/-- number of successful dials among the first `n` -/
def dialsOk (dl : Nat → DOut) : Nat → Nat
  | 0 => 0
  | n+1 => dialsOk dl n + (if dl n = .ok then 1 else 0)

def isOk : WOut → Bool | .ok => true | _ => false
def isErr : WOut → Bool | .errPipe => true | .errOther => true | _ => false
def isPipe : WOut → Bool | .errPipe => true | _ => false
/-- outcomes after which the sink does not have the message -/
def notDelivered : WOut → Bool | .ok => false | _ => true

/-- the counters of the state are exactly the counts over the consumed part of the script -/
structure Acct (wo : Nat → WOut) (dl : Nat → DOut) (s : PS) : Prop where
  ec : s.ec = countTo isErr wo s.wi
  di : s.di = countTo isPipe wo s.wi
  conn : s.conn = dialsOk dl s.di
  dlv : s.delivered.length = countTo isOk wo s.wi

theorem acct_init (wo : Nat → WOut) (dl : Nat → DOut) : Acct wo dl {} :=
  ⟨rfl, rfl, rfl, rfl⟩

theorem countTo_split (wo : Nat → WOut) (n : Nat) :
    countTo isOk wo n + countTo notDelivered wo n = n := by
  induction n with
  | zero => rfl
  | succ n ih =>
    simp only [countTo]
    cases wo n <;> simp [isOk, notDelivered] <;> omega

theorem countTo_err_le (wo : Nat → WOut) (n : Nat) :
    countTo isErr wo n ≤ countTo notDelivered wo n := by
  induction n with
  | zero => exact Nat.le_refl _
  | succ n ih =>
    simp only [countTo]
    cases wo n <;> simp [isErr, notDelivered] <;> omega

/-- state after a failed write that is not a broken pipe -/
def afterErr (s : PS) : PS := { s with wi := s.wi + 1, ec := s.ec + 1 }
/-- state after a broken-pipe write and the redial it triggers -/
def afterPipe (dl : Nat → DOut) (s : PS) : PS :=
  if dl s.di = .ok then { s with wi := s.wi + 1, ec := s.ec + 1, di := s.di + 1, conn := s.conn + 1 }
  else { s with wi := s.wi + 1, ec := s.ec + 1, di := s.di + 1 }

theorem sendOne_ok {wo : Nat → WOut} {dl : Nat → DOut} {idx : Nat} {m : Bytes} {left : Nat} {s : PS}
    (h : wo s.wi = .ok) : sendOne wo dl idx m left s =
      { s with wi := s.wi + 1, delivered := s.delivered ++ [⟨s.conn, idx, frame m⟩] } := by
  unfold sendOne; rw [h]
theorem sendOne_lost {wo : Nat → WOut} {dl : Nat → DOut} {idx : Nat} {m : Bytes} {left : Nat} {s : PS}
    (h : wo s.wi = .lost) : sendOne wo dl idx m left s = { s with wi := s.wi + 1 } := by
  unfold sendOne; rw [h]
theorem sendOne_errOther_zero {wo : Nat → WOut} {dl : Nat → DOut} {idx : Nat} {m : Bytes} {s : PS}
    (h : wo s.wi = .errOther) : sendOne wo dl idx m 0 s = afterErr s := by
  unfold sendOne; rw [h]; rfl
theorem sendOne_errOther_succ {wo : Nat → WOut} {dl : Nat → DOut} {idx : Nat} {m : Bytes} {l : Nat} {s : PS}
    (h : wo s.wi = .errOther) : sendOne wo dl idx m (l+1) s = sendOne wo dl idx m l (afterErr s) := by
  rw [sendOne, h]; rfl
theorem sendOne_errPipe_zero {wo : Nat → WOut} {dl : Nat → DOut} {idx : Nat} {m : Bytes} {s : PS}
    (h : wo s.wi = .errPipe) : sendOne wo dl idx m 0 s = afterPipe dl s := by
  unfold sendOne; rw [h]; simp only [afterPipe]
theorem sendOne_errPipe_succ {wo : Nat → WOut} {dl : Nat → DOut} {idx : Nat} {m : Bytes} {l : Nat} {s : PS}
    (h : wo s.wi = .errPipe) : sendOne wo dl idx m (l+1) s = sendOne wo dl idx m l (afterPipe dl s) := by
  rw [sendOne, h]; simp only [afterPipe]

theorem acct_ok {wo : Nat → WOut} {dl : Nat → DOut} {s : PS} (c : Chunk) (h : Acct wo dl s) (hw : wo s.wi = .ok) :
    Acct wo dl { s with wi := s.wi + 1, delivered := s.delivered ++ [c] } :=
  ⟨by simp [countTo, hw, isErr, h.ec], by simp [countTo, hw, isPipe, h.di], h.conn,
   by simp [countTo, hw, isOk, h.dlv]⟩
theorem acct_lost {wo : Nat → WOut} {dl : Nat → DOut} {s : PS} (h : Acct wo dl s) (hw : wo s.wi = .lost) :
    Acct wo dl { s with wi := s.wi + 1 } :=
  ⟨by simp [countTo, hw, isErr, h.ec], by simp [countTo, hw, isPipe, h.di], h.conn,
   by simp [countTo, hw, isOk, h.dlv]⟩
theorem acct_err {wo : Nat → WOut} {dl : Nat → DOut} {s : PS} (h : Acct wo dl s) (hw : wo s.wi = .errOther) :
    Acct wo dl (afterErr s) :=
  ⟨by simp [afterErr, countTo, hw, isErr, h.ec], by simp [afterErr, countTo, hw, isPipe, h.di], h.conn,
   by simpa [afterErr, countTo, hw, isOk] using h.dlv⟩
theorem acct_pipe {wo : Nat → WOut} {dl : Nat → DOut} {s : PS} (h : Acct wo dl s) (hw : wo s.wi = .errPipe) :
    Acct wo dl (afterPipe dl s) := by
  unfold afterPipe
  split
  · rename_i hd
    exact ⟨by simp [countTo, hw, isErr, h.ec], by simp [countTo, hw, isPipe, h.di],
      by simp [dialsOk, hd, h.conn], by simp [countTo, hw, isOk, h.dlv]⟩
  · rename_i hd
    exact ⟨by simp [countTo, hw, isErr, h.ec], by simp [countTo, hw, isPipe, h.di],
      by simp [dialsOk, hd, h.conn], by simp [countTo, hw, isOk, h.dlv]⟩

theorem afterErr_wi (s : PS) : (afterErr s).wi = s.wi + 1 := rfl
theorem afterPipe_wi (dl : Nat → DOut) (s : PS) : (afterPipe dl s).wi = s.wi + 1 := by
  unfold afterPipe; split <;> rfl
theorem afterErr_delivered (s : PS) : (afterErr s).delivered = s.delivered := rfl
theorem afterPipe_delivered (dl : Nat → DOut) (s : PS) : (afterPipe dl s).delivered = s.delivered := by
  unfold afterPipe; split <;> rfl

/-- one message: accounting is kept, at least one write is made, at most `left+1` -/
theorem sendOne_acct (wo : Nat → WOut) (dl : Nat → DOut) (idx : Nat) (m : Bytes) :
    ∀ left s, Acct wo dl s →
      Acct wo dl (sendOne wo dl idx m left s) ∧ s.wi < (sendOne wo dl idx m left s).wi ∧
      (sendOne wo dl idx m left s).wi ≤ s.wi + left + 1 := by
  intro left
  induction left with
  | zero =>
    intro s h
    cases hw : wo s.wi
    · rw [sendOne_ok hw]; exact ⟨acct_ok _ h hw, by simp, by simp⟩
    · rw [sendOne_lost hw]; exact ⟨acct_lost h hw, by simp, by simp⟩
    · rw [sendOne_errPipe_zero hw]; exact ⟨acct_pipe h hw, by simp [afterPipe_wi], by simp [afterPipe_wi]⟩
    · rw [sendOne_errOther_zero hw]; exact ⟨acct_err h hw, by simp [afterErr_wi], by simp [afterErr_wi]⟩
  | succ l ih =>
    intro s h
    cases hw : wo s.wi
    · rw [sendOne_ok hw]; exact ⟨acct_ok _ h hw, by simp, by simp⟩
    · rw [sendOne_lost hw]; exact ⟨acct_lost h hw, by simp, by simp⟩
    · rw [sendOne_errPipe_succ hw]
      obtain ⟨a, b, c⟩ := ih _ (acct_pipe h hw)
      rw [afterPipe_wi] at b c
      exact ⟨a, by omega, by omega⟩
    · rw [sendOne_errOther_succ hw]
      obtain ⟨a, b, c⟩ := ih _ (acct_err h hw)
      rw [afterErr_wi] at b c
      exact ⟨a, by omega, by omega⟩

/-- the channel loop: accounting is kept and every message costs at least one write -/
theorem sendAll_acct (wo : Nat → WOut) (dl : Nat → DOut) (rm : Nat) :
    ∀ (ms : List Bytes) (idx : Nat) (s : PS), Acct wo dl s →
      Acct wo dl (sendAll wo dl rm ms idx s) ∧ s.wi + ms.length ≤ (sendAll wo dl rm ms idx s).wi ∧
      (sendAll wo dl rm ms idx s).wi ≤ s.wi + ms.length * (rm + 1) := by
  intro ms
  induction ms with
  | nil => intro idx s h; exact ⟨h, by simp [sendAll], by simp [sendAll]⟩
  | cons m ms ih =>
    intro idx s h
    simp only [sendAll]
    obtain ⟨h1, h2, h3⟩ := sendOne_acct wo dl idx m rm s h
    obtain ⟨g1, g2, g3⟩ := ih (idx + 1) _ h1
    refine ⟨g1, ?_, ?_⟩
    · simp only [List.length_cons]; omega
    · simp only [List.length_cons, Nat.add_mul, Nat.one_mul]; omega

/-- what one message's loop does to the delivered list: nothing, or exactly this message once,
    framed, on the then-current connection -/
theorem sendOne_delivered (wo : Nat → WOut) (dl : Nat → DOut) (idx : Nat) (m : Bytes) :
    ∀ left s, (sendOne wo dl idx m left s).delivered = s.delivered ∨
      ∃ c, (sendOne wo dl idx m left s).delivered = s.delivered ++ [⟨c, idx, frame m⟩] := by
  intro left
  induction left with
  | zero =>
    intro s
    cases hw : wo s.wi
    · rw [sendOne_ok hw]; right; exact ⟨s.conn, rfl⟩
    · rw [sendOne_lost hw]; left; rfl
    · rw [sendOne_errPipe_zero hw]; left; exact afterPipe_delivered dl s
    · rw [sendOne_errOther_zero hw]; left; rfl
  | succ l ih =>
    intro s
    cases hw : wo s.wi
    · rw [sendOne_ok hw]; right; exact ⟨s.conn, rfl⟩
    · rw [sendOne_lost hw]; left; rfl
    · rw [sendOne_errPipe_succ hw]
      have := ih (afterPipe dl s)
      rw [afterPipe_delivered] at this
      exact this
    · rw [sendOne_errOther_succ hw]; exact ih (afterErr s)

/-- indices of delivered messages, in delivery order -/
def idxs (s : PS) : List Nat := s.delivered.map (·.idx)

theorem sendAll_ordered (wo : Nat → WOut) (dl : Nat → DOut) (rm : Nat) :
    ∀ (ms : List Bytes) (idx : Nat) (s : PS),
      (idxs s).Pairwise (· < ·) → (∀ i ∈ idxs s, i < idx) →
      (idxs (sendAll wo dl rm ms idx s)).Pairwise (· < ·) ∧
      (∀ e ∈ (sendAll wo dl rm ms idx s).delivered, e ∈ s.delivered ∨
          ∃ m, ms[e.idx - idx]? = some m ∧ idx ≤ e.idx ∧ e.data = frame m) := by
  intro ms
  induction ms with
  | nil => intro idx s hp _; exact ⟨hp, fun e he => Or.inl he⟩
  | cons m ms ih =>
    intro idx s hp hlt
    simp only [sendAll]
    have hone := sendOne_delivered wo dl idx m rm s
    have hp' : (idxs (sendOne wo dl idx m rm s)).Pairwise (· < ·) ∧
        ∀ i ∈ idxs (sendOne wo dl idx m rm s), i < idx + 1 := by
      rcases hone with h | ⟨c, h⟩
      · simp only [idxs, h]; exact ⟨hp, fun i hi => Nat.lt_succ_of_lt (hlt i hi)⟩
      · simp only [idxs, h, List.map_append, List.map_cons, List.map_nil]
        refine ⟨List.pairwise_append.mpr ⟨hp, by simp, ?_⟩, ?_⟩
        · intro a ha b hb; simp at hb; subst hb; exact hlt a ha
        · intro i hi; simp at hi
          rcases hi with hi | rfl
          · exact Nat.lt_succ_of_lt (hlt i (by simpa [idxs] using hi))
          · exact Nat.lt_succ_self _
    obtain ⟨h1, h2⟩ := ih (idx + 1) _ hp'.1 hp'.2
    refine ⟨h1, ?_⟩
    intro e he
    rcases h2 e he with hin | ⟨m', hm', hle, heq⟩
    · rcases hone with h | ⟨c, h⟩
      · left; rw [h] at hin; exact hin
      · rw [h] at hin
        simp at hin
        rcases hin with hin | rfl
        · left; exact hin
        · right; exact ⟨m, by simp, Nat.le_refl _, rfl⟩
    · right
      refine ⟨m', ?_, by omega, heq⟩
      have : e.idx - idx = (e.idx - (idx + 1)) + 1 := by omega
      rw [this]; simpa using hm'

/-- the octet stream the sink sees is the framing of a sublist of the handed-over list -/
theorem sendAll_sublist (wo : Nat → WOut) (dl : Nat → DOut) (rm : Nat) :
    ∀ (ms : List Bytes) (idx : Nat) (s : PS),
      ∃ sub : List Bytes, sub.Sublist ms ∧
        (sendAll wo dl rm ms idx s).delivered.map (·.data) = s.delivered.map (·.data) ++ sub.map frame := by
  intro ms
  induction ms with
  | nil => intro idx s; exact ⟨[], List.Sublist.refl _, by simp [sendAll]⟩
  | cons m ms ih =>
    intro idx s
    simp only [sendAll]
    obtain ⟨sub, hs, he⟩ := ih (idx + 1) (sendOne wo dl idx m rm s)
    rcases sendOne_delivered wo dl idx m rm s with h | ⟨c, h⟩
    · exact ⟨sub, hs.cons _, by rw [he, h]⟩
    · refine ⟨m :: sub, hs.cons_cons _, ?_⟩
      rw [he, h]; simp

theorem sendAll_append (wo : Nat → WOut) (dl : Nat → DOut) (rm : Nat) :
    ∀ (ms1 ms2 : List Bytes) (idx : Nat) (s : PS),
      sendAll wo dl rm (ms1 ++ ms2) idx s = sendAll wo dl rm ms2 (idx + ms1.length) (sendAll wo dl rm ms1 idx s) := by
  intro ms1
  induction ms1 with
  | nil => intro ms2 idx s; simp [sendAll]
  | cons m ms ih =>
    intro ms2 idx s
    simp only [List.cons_append, sendAll, List.length_cons]
    rw [ih]
    congr 1
    omega

/-- the messages `ms`, framed, all on connection `c`, numbered from `idx` -/
def framesFrom (c : Nat) : Nat → List Bytes → List Chunk
  | _, [] => []
  | idx, m :: ms => ⟨c, idx, frame m⟩ :: framesFrom c (idx + 1) ms

/-- resumption: once the script has no failure left, every message is delivered, in order, on the
    current connection, with one write each and no error counted -/
theorem sendAll_all_ok (wo : Nat → WOut) (dl : Nat → DOut) (rm : Nat) :
    ∀ (ms : List Bytes) (idx : Nat) (s : PS), (∀ j, s.wi ≤ j → wo j = .ok) →
      (sendAll wo dl rm ms idx s).delivered = s.delivered ++ framesFrom s.conn idx ms ∧
      (sendAll wo dl rm ms idx s).ec = s.ec ∧ (sendAll wo dl rm ms idx s).wi = s.wi + ms.length ∧
      (sendAll wo dl rm ms idx s).conn = s.conn := by
  intro ms
  induction ms with
  | nil => intro idx s _; simp [sendAll, framesFrom]
  | cons m ms ih =>
    intro idx s h
    simp only [sendAll]
    have h1 : sendOne wo dl idx m rm s =
        { s with wi := s.wi + 1, delivered := s.delivered ++ [⟨s.conn, idx, frame m⟩] } := by
      unfold sendOne
      rw [h s.wi (Nat.le_refl _)]
    rw [h1]
    obtain ⟨a, b, c, d⟩ := ih (idx + 1)
      { s with wi := s.wi + 1, delivered := s.delivered ++ [⟨s.conn, idx, frame m⟩] }
      (fun j hj => h j (by simp at hj; omega))
    refine ⟨?_, ?_, ?_, ?_⟩
    · rw [a]; simp [framesFrom]
    · rw [b]
    · rw [c]; simp only [List.length_cons]; omega
    · rw [d]

end Producer
end Vflow
