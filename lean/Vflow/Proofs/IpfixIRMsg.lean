import Vflow.Proofs.IpfixIRSet
/-!
# The translated `Decoder.decodeSet` / `Decoder.Decode` as functions: `decodeSet_sem`, `decode_sem`

`dc_loop5` is the loop lemma of `Decode` (`for d.reader.Len() > 4`) against `Ipfix.outer`: a round that continues has
consumed the 4-octet set header; the invariant `Ipfix.Inv` (position accounting, every cached template smaller than the
fuel) is the one the allocation bound of C02 already maintains.
-/
set_option linter.unusedSimpArgs false
namespace Vflow.IpfixIR
open Vflow
attribute [local irreducible] Vflow.lookupElem

theorem decodeSet_sem (addr : Bytes) (fuel f' K : Nat) (st : Ipfix.St) (agent : Bytes) (hdr : MHdr)
    (hfuel : st.r.rem.length < fuel) (hf' : st.r.rem.length < f') (hc : Ipfix.CacheB K st.cache) (hK : K < fuel) :
    IpfixProg.decodeSet addr fuel [.msg agent hdr st.recs] ⟨st.r, st.cache⟩ =
      some (⟨(Ipfix.decodeSet addr f' st).1.r, (Ipfix.decodeSet addr f' st).1.cache⟩,
        [.msg agent hdr (Ipfix.decodeSet addr f' st).1.recs], [IpfixProg.errV (Ipfix.decodeSet addr f' st).2]) := by
  have h := ds_exec addr fuel f' K st agent hdr hfuel hf' hc hK
  unfold IpfixProg.decodeSet Func.sem
  have henv : ([V.msg agent hdr st.recs] ++ List.replicate (Gen.IpfixIR.decodeSet.nslots - [V.msg agent hdr st.recs].length) V.unset) =
      [.msg agent hdr st.recs, .unset, .unset, .unset, .unset, .unset, .unset, .unset, .unset, .unset, .unset, .unset,
       .unset, .unset, .unset, .unset] := rfl
  rw [henv]
  simp only [RetOut, S] at h
  rcases hout : exec addr (dsLink addr fuel) fuel Gen.IpfixIR.decodeSet.body ⟨st.r, st.cache⟩
      [.msg agent hdr st.recs, .unset, .unset, .unset, .unset, .unset, .unset, .unset, .unset, .unset, .unset, .unset,
       .unset, .unset, .unset, .unset] with _ | ⟨f, s', env'⟩
  · simp [hout] at h
  · simp only [hout, Option.map_some, Option.some.injEq, Prod.mk.injEq] at h
    obtain ⟨rfl, rfl, henv0⟩ := h
    simp [Gen.IpfixIR.decodeSet, List.filter, ParamKind.hasSlot, readSlots, refSlots, henv0]

/-! ## `Decode` -/

def dc (i : Nat) : Stmt := Gen.IpfixIR.decode.body.nth i
theorem dc_body : Gen.IpfixIR.decode.body = blk [dc 0, dc 1, dc 2, dc 3, dc 4, dc 5, dc 6] := rfl
theorem dc5_shape : dc 5 = .loop (dc 5).loopCond (dc 5).loopBody .skip := rfl

/-- the collected non-fatal errors as Go values -/
def nfErrs (errs : List Err) : List GErr := errs.map fun e => ⟨true, e⟩

section
variable (addr : Bytes) (fuel : Nat)

abbrev dcLink : Linkage :=
  [("msgHeaderUnmarshal", IpfixProg.msgHeaderUnmarshal addr fuel), ("msgHeaderValidate", IpfixProg.msgHeaderValidate addr fuel),
   ("decodeSet", IpfixProg.decodeSet addr fuel)]

theorem dc5_cond (st : St) (m e1 e2 l e4 : V) :
    eval addr st [m, e1, e2, l, e4] (dc 5).loopCond = some (.bool (decide (st.r.rem.length > 4))) := by
  ir_simp [dc, Stmt.nth, Stmt.items, Stmt.loopCond, Gen.IpfixIR.decode]

/-- one round of the set loop of `Decode` -/
theorem dc_body5 (agent : Bytes) (hdr : MHdr) (st : Ipfix.St) (f' K : Nat) (errs : List Err) (e1 e2 e4 : V)
    (hfuel : st.r.rem.length < fuel) (hf' : st.r.rem.length < f') (hc : Ipfix.CacheB K st.cache) (hK : K < fuel) :
    exec addr (dcLink addr fuel) fuel (dc 5).loopBody ⟨st.r, st.cache⟩ [.msg agent hdr st.recs, e1, e2, .errs (nfErrs errs), e4] =
      match Ipfix.decodeSet addr f' st with
      | (st', none) => some (.norm, ⟨st'.r, st'.cache⟩, [.msg agent hdr st'.recs, e1, e2, .errs (nfErrs errs), .nil])
      | (st', some e) =>
        if Ipfix.nonfatalErr e then
          some (.norm, ⟨st'.r, st'.cache⟩, [.msg agent hdr st'.recs, e1, e2, .errs (nfErrs (errs ++ [e])), .err ⟨true, e⟩])
        else some (.ret [.nil, .err ⟨false, e⟩], ⟨st'.r, st'.cache⟩, [.msg agent hdr st'.recs, e1, e2, .errs (nfErrs errs), .err ⟨false, e⟩]) := by
  have hs := decodeSet_sem addr fuel f' K st agent hdr hfuel hf' hc hK
  rcases hd : Ipfix.decodeSet addr f' st with ⟨st', _ | e⟩
  · simp only [hd, IpfixProg.errV] at hs
    ir_simp [dc, Stmt.nth, Stmt.items, Stmt.loopBody, Gen.IpfixIR.decode, hs]
  · simp only [hd, IpfixProg.errV] at hs
    by_cases hn : Ipfix.nonfatalErr e = true
    · ir_simp [dc, Stmt.nth, Stmt.items, Stmt.loopBody, Gen.IpfixIR.decode, hs, hn, nfErrs]
    · ir_simp [dc, Stmt.nth, Stmt.items, Stmt.loopBody, Gen.IpfixIR.decode, hs, hn]

/-- outcome of the set loop of `Decode` against `Ipfix.outer` -/
def DcLoopOut (agent : Bytes) (hdr : MHdr) (e1 e2 : V) (res : Ipfix.St × Option Err × List Err) (out : Res) : Prop :=
  match res with
  | (st', none, errs') => ∃ e4', out = some (.norm, ⟨st'.r, st'.cache⟩, [.msg agent hdr st'.recs, e1, e2, .errs (nfErrs errs'), e4'])
  | (st', some e, _) => ∃ env', out = some (.ret [.nil, .err ⟨false, e⟩], ⟨st'.r, st'.cache⟩, env')

theorem dc_loop5 (agent : Bytes) (hdr : MHdr) (e1 e2 : V) (K L : Nat) (hKL : L / 4 ≤ K) (hK : K < fuel) :
    ∀ (k k' : Nat) (st : Ipfix.St) (errs : List Err) (e4 : V),
    st.r.rem.length < k → st.r.rem.length < k' → st.r.rem.length < fuel → Ipfix.Inv K L st →
    DcLoopOut agent hdr e1 e2 (Ipfix.outer addr k' st errs)
      (loopF (fun st env => eval addr st env (dc 5).loopCond) (exec addr (dcLink addr fuel) fuel (dc 5).loopBody)
        (exec addr (dcLink addr fuel) fuel .skip) k ⟨st.r, st.cache⟩ [.msg agent hdr st.recs, e1, e2, .errs (nfErrs errs), e4]) := by
  intro k
  induction k with
  | zero => intro k' st _ _ hk; omega
  | succ k ih =>
    intro k' st errs e4 hk hk' hfuel hinv
    obtain ⟨k', rfl⟩ : ∃ n, k' = n + 1 := ⟨k' - 1, by omega⟩
    simp only [Ipfix.outer, loopF, dc5_cond]
    by_cases hgt : st.r.rem.length > 4
    · simp only [hgt, decide_true, if_true]
      rw [dc_body5 addr fuel agent hdr st (st.r.rem.length + 1) K errs e1 e2 e4 hfuel (Nat.lt_succ_self _) hinv.2.1 hK]
      rcases hd : Ipfix.decodeSet addr (st.r.rem.length + 1) st with ⟨st', _ | e⟩
      · have t1 := Ipfix.decodeSet_fuel (Nat.lt_succ_self _) hd
        have hi' := Ipfix.decodeSet_inv hKL hinv hd
        have hadv := t1.2.1.1
        have hc4 : st.r.cnt + 4 ≤ st'.r.cnt := by
          rcases t1.2.2 with h0 | h0
          · simp at h0
          · exact h0
        have := hadv.1
        simp only [exec_skip_eq]
        exact ih k' st' errs .nil (by omega) (by omega) (by omega) hi'
      · have t1 := Ipfix.decodeSet_fuel (Nat.lt_succ_self _) hd
        have hi' := Ipfix.decodeSet_inv hKL hinv hd
        have hadv := t1.2.1.1
        by_cases hn : Ipfix.nonfatalErr e = true
        · have hc4 : st.r.cnt + 4 ≤ st'.r.cnt := by
            rcases t1.2.2 with h0 | h0
            · simp at h0; subst h0; simp [Ipfix.nonfatalErr, Err.nonfatal] at hn
            · exact h0
          have := hadv.1
          simp only [hn, if_true, exec_skip_eq]
          exact ih k' st' (errs ++ [e]) _ (by omega) (by omega) (by omega) hi'
        · simp only [hn, Bool.false_eq_true, if_false, DcLoopOut]
          exact ⟨_, rfl⟩
    · simp only [hgt, decide_false, if_false, DcLoopOut, Bool.false_eq_true]
      exact ⟨e4, rfl⟩
end
theorem ofHdr_toHdr (h : MHdr) : MHdr.ofHdr h.toHdr = h := rfl

theorem decode_sem (c : Cache) (addr bs : Bytes) (fuel : Nat) (hfuel : bs.length < fuel)
    (hc : ∀ e ∈ c, e.2.scope.length + e.2.fields.length < fuel) :
    ∃ r', IpfixProg.decode addr fuel [] ⟨⟨bs, 0⟩, c⟩ =
      some (⟨r', (Ipfix.decode c addr bs).2⟩, [], IpfixProg.decodeResult addr (Ipfix.decode c addr bs).1) := by
  unfold IpfixProg.decode Func.sem
  have henv : (([] : List V) ++ List.replicate (Gen.IpfixIR.decode.nslots - ([] : List V).length) V.unset) =
      [.unset, .unset, .unset, .unset, .unset] := rfl
  rw [henv, dc_body]
  have e0 : ∀ (st : St) x0 x1 x2 x3 x4, exec addr (dcLink addr fuel) fuel (dc 0) st [x0, x1, x2, x3, x4] =
      some (.norm, st, [.msg [] {} [], x1, x2, x3, x4]) := by
    intros; ir_simp [dc, Stmt.nth, Stmt.items, Gen.IpfixIR.decode]
  have e3 : ∀ (st : St) a h s x1 x2 x3 x4, exec addr (dcLink addr fuel) fuel (dc 3) st [.msg a h s, x1, x2, x3, x4] =
      some (.norm, st, [.msg addr h s, x1, x2, x3, x4]) := by
    intros; ir_simp [dc, Stmt.nth, Stmt.items, Gen.IpfixIR.decode]
  have e4 : ∀ (st : St) x0 x1 x2 x3 x4, exec addr (dcLink addr fuel) fuel (dc 4) st [x0, x1, x2, x3, x4] =
      some (.norm, st, [x0, x1, x2, .errs [], x4]) := by
    intros; ir_simp [dc, Stmt.nth, Stmt.items, Gen.IpfixIR.decode]
  have e6 : ∀ (st : St) a h s x1 x2 l x4, exec addr (dcLink addr fuel) fuel (dc 6) st [.msg a h s, x1, x2, .errs l, x4] =
      some (.ret [.msg a h s, .errs l], st, [.msg a h s, x1, x2, .errs l, x4]) := by
    intros; ir_simp [dc, Stmt.nth, Stmt.items, Gen.IpfixIR.decode]
  have hmh := msgHeaderUnmarshal_sem addr fuel ⟨bs, 0⟩ c {}
  unfold Ipfix.decode
  rcases hrh : Ipfix.readHeader ⟨bs, 0⟩ with _ | ⟨h, r5⟩
  · simp only [hrh] at hmh
    obtain ⟨r', h1, hmh⟩ := hmh
    have e1 : ∀ x1 x2 x3 x4, exec addr (dcLink addr fuel) fuel (dc 1) ⟨⟨bs, 0⟩, c⟩ [.msg [] {} [], x1, x2, x3, x4] =
        some (.ret [.nil, errReader], ⟨r', c⟩, [.msg [] h1 [], errReader, x2, x3, x4]) := by
      intros; ir_simp [dc, Stmt.nth, Stmt.items, Gen.IpfixIR.decode, hmh]
    refine ⟨r', ?_⟩
    simp only [blk, exec_seq_eq, e0, e1]
    simp [Gen.IpfixIR.decode, List.filter, ParamKind.hasSlot, readSlots, refSlots, IpfixProg.decodeResult, errReader]
  · simp only [hrh] at hmh
    simp only []
    obtain ⟨h1, hh1, hmh⟩ := hmh
    have e1 : ∀ x1 x2 x3 x4, exec addr (dcLink addr fuel) fuel (dc 1) ⟨⟨bs, 0⟩, c⟩ [.msg [] {} [], x1, x2, x3, x4] =
        some (.norm, ⟨r5, c⟩, [.msg [] h1 [], .nil, x2, x3, x4]) := by
      intros; ir_simp [dc, Stmt.nth, Stmt.items, Gen.IpfixIR.decode, hmh]
    have hval := msgHeaderValidate_sem addr fuel ⟨r5, c⟩ h1
    by_cases hv : h.headD 0 ≠ 10
    · have e2 : ∀ x1 x2 x3 x4, exec addr (dcLink addr fuel) fuel (dc 2) ⟨r5, c⟩ [.msg [] h1 [], x1, x2, x3, x4] =
          some (.ret [.nil, .err ⟨false, .badVersion⟩], ⟨r5, c⟩, [.msg [] h1 [], x1, .err ⟨false, .badVersion⟩, x3, x4]) := by
        intros
        rw [hh1, if_pos hv] at hval
        ir_simp [dc, Stmt.nth, Stmt.items, Gen.IpfixIR.decode, hval]
      refine ⟨r5, ?_⟩
      rw [if_pos hv]
      simp only [blk, exec_seq_eq, e0, e1, e2]
      simp [Gen.IpfixIR.decode, List.filter, ParamKind.hasSlot, readSlots, refSlots, IpfixProg.decodeResult]
    · have e2 : ∀ x1 x2 x3 x4, exec addr (dcLink addr fuel) fuel (dc 2) ⟨r5, c⟩ [.msg [] h1 [], x1, x2, x3, x4] =
          some (.norm, ⟨r5, c⟩, [.msg [] h1 [], x1, .nil, x3, x4]) := by
        intros
        rw [hh1, if_neg hv] at hval
        ir_simp [dc, Stmt.nth, Stmt.items, Gen.IpfixIR.decode, hval]
      have ha := Ipfix.readHeader_adv hrh
      have hK : fuel - 1 < fuel := by omega
      have hcb : Ipfix.CacheB (fuel - 1) c := by
        intro e he; have := hc e he; simp only [Ipfix.nfields]; omega
      have hinv : Ipfix.Inv (fuel - 1) bs.length ⟨r5, c, []⟩ :=
        ⟨by have := ha.1; simpa using this, hcb, by simp⟩
      have hlen : r5.rem.length ≤ bs.length := by have := ha.1; have := ha.2; simp only at *; omega
      have hl := dc_loop5 addr fuel addr h1 .nil .nil (fuel - 1) bs.length (by omega) hK fuel (bs.length + 1) ⟨r5, c, []⟩ [] .unset
        (by simp only; omega) (by simp only; omega) (by simp only; omega) hinv
      simp only [blk, exec_seq_eq, e0, e1, e2, e3, e4]
      rw [dc5_shape, exec_loop_eq]
      simp only [nfErrs, List.map_nil] at hl
      rw [if_neg hv]
      rcases ho : Ipfix.outer addr (bs.length + 1) ⟨r5, c, []⟩ [] with ⟨st', _ | e, errs'⟩
      · simp only [ho, DcLoopOut] at hl
        obtain ⟨e4', hl⟩ := hl
        refine ⟨st'.r, ?_⟩
        simp only [hl, exec_skip_eq, e6]
        simp [Gen.IpfixIR.decode, List.filter, ParamKind.hasSlot, readSlots, refSlots, IpfixProg.decodeResult, nfErrs,
          ← hh1, ofHdr_toHdr]
      · simp only [ho, DcLoopOut] at hl
        obtain ⟨env', hl⟩ := hl
        refine ⟨st'.r, ?_⟩
        simp only [hl]
        simp [Gen.IpfixIR.decode, List.filter, ParamKind.hasSlot, readSlots, refSlots, IpfixProg.decodeResult]

end Vflow.IpfixIR
