import Vflow.Proofs.PacketSafe
import Vflow.Gen.DissectIR
/-!
# The dissector model computes what the CURRENT source computes

`Gen.DissectIR.*` is the translation (by `go/cmd/factgen/dissect_ir.go`, on every run) of the right-hand sides
with which `packet/{ethernet,network,transport,icmp}.go` fill `Datalink`, `IPv4Header`, `IPv6Header`,
`TCPHeader`, `UDPHeader` and `ICMP`, of their length guards, and of what each function hands to the next layer.
Here every field of the hand-written model (`ipv4At`, `ipv6At`, `l2At`, `untag`, `ihlOctets`, the closed forms of
`decodeTCP` / `decodeUDP` / `decodeICMP`) is proved equal to `Expr.eval` / `Expr.octets` of the regenerated
expression — for EVERY octet string `d`, with no length hypothesis (both sides read an absent octet as 0) — and
each model decoder is proved equal to "guards, then the struct of the evaluated expressions".

These are proofs about all inputs: the evaluator is unfolded on the generated term and the bit operations are
turned into arithmetic (`x << k = x * 2^k`, `x >> k = x / 2^k`, `x & (2^k - 1) = x % 2^k`, `a | b = a + b` when
`2^k ∣ a` and `b < 2^k`), the rest is linear arithmetic over octets `< 256`.  A changed offset, shift, mask or
width in the source changes the generated term and the proof of that field breaks.
-/
set_option linter.unusedSimpArgs false
namespace Vflow.DissectTie
open Vflow Vflow.Packet Vflow.Sflow Vflow.DissectIR

/-! ## bit operations as arithmetic -/

theorem or_eq_add (a b k : Nat) (hb : b < 2 ^ k) (ha : a % 2 ^ k = 0) : a ||| b = a + b := by
  have : a = (a / 2 ^ k) <<< k := by
    rw [Nat.shiftLeft_eq]; have := Nat.div_add_mod a (2 ^ k); rw [ha] at this; rw [Nat.mul_comm]; omega
  rw [this, ← Nat.shiftLeft_add_eq_or_of_lt hb]

theorem and_7 (x : Nat) : x &&& 7 = x % 8 := Nat.and_two_pow_sub_one_eq_mod x 3
theorem and_15 (x : Nat) : x &&& 15 = x % 16 := Nat.and_two_pow_sub_one_eq_mod x 4
theorem and_31 (x : Nat) : x &&& 31 = x % 32 := Nat.and_two_pow_sub_one_eq_mod x 5
theorem and_511 (x : Nat) : x &&& 511 = x % 512 := Nat.and_two_pow_sub_one_eq_mod x 9
theorem and_4095 (x : Nat) : x &&& 4095 = x % 4096 := Nat.and_two_pow_sub_one_eq_mod x 12

/-- `b & 0xf0 >> 4` -/
theorem and_240_shr (x : Nat) : (x &&& 240) >>> 4 = x / 16 % 16 := by
  rw [Nat.shiftRight_and_distrib, show 240 >>> 4 = 15 from rfl, and_15, Nat.shiftRight_eq_div_pow]

/-- `int(hi)<<8 | int(lo)` -/
theorem be16 (x y : Nat) (hy : y < 256) : x <<< 8 ||| y = x * 256 + y := by
  rw [← Nat.shiftLeft_add_eq_or_of_lt (by simpa using hy), Nat.shiftLeft_eq]

/-! ## conditionals of the IR as `if … then … else` -/
section
variable {α : Type} (a b : Nat) (t e : α)

theorem beq_decide : Nat.beq a b = decide (a = b) := by
  rw [Bool.eq_iff_iff]; simp

theorem cond_lt : (bif Cmp.holds .lt a b then t else e) = if a < b then t else e := by
  have : Cmp.holds .lt a b = decide (a < b) := by rw [Bool.eq_iff_iff]; simp [Cmp.holds]
  rw [this, Bool.cond_decide]

theorem cond_le : (bif Cmp.holds .le a b then t else e) = if a ≤ b then t else e := by
  have : Cmp.holds .le a b = decide (a ≤ b) := by rw [Bool.eq_iff_iff]; simp [Cmp.holds]
  rw [this, Bool.cond_decide]

theorem cond_eq : (bif Cmp.holds .eq a b then t else e) = if a = b then t else e := by
  rw [show Cmp.holds .eq a b = Nat.beq a b from rfl, beq_decide, Bool.cond_decide]

theorem cond_ne : (bif Cmp.holds .ne a b then t else e) = if a = b then e else t := by
  rw [show Cmp.holds .ne a b = !(Nat.beq a b) from rfl, beq_decide]
  by_cases h : a = b <;> simp [h]

theorem cond_gt : (bif Cmp.holds .gt a b then t else e) = if b < a then t else e := by
  have : Cmp.holds .gt a b = decide (b < a) := by rw [Bool.eq_iff_iff]; simp [Cmp.holds]
  rw [this, Bool.cond_decide]

theorem cond_ge : (bif Cmp.holds .ge a b then t else e) = if b ≤ a then t else e := by
  have : Cmp.holds .ge a b = decide (b ≤ a) := by rw [Bool.eq_iff_iff]; simp [Cmp.holds]
  rw [this, Bool.cond_decide]

theorem cond_ble : (bif Nat.ble a b then t else e) = if a ≤ b then t else e := by
  have : Nat.ble a b = decide (a ≤ b) := by rw [Bool.eq_iff_iff]; simp
  rw [this, Bool.cond_decide]

/-- `failIf` / `skipIf`: the row goes on iff the condition evaluates to 0 -/
theorem cond_beq0 : (bif Nat.beq a 0 then t else e) = if a = 0 then t else e := by
  rw [beq_decide, Bool.cond_decide]

end

/-- unfold the evaluator on a generated field -/
macro "ir_unfold" : tactic => `(tactic|
  simp only [field, Gen.DissectIR.ipv4, Gen.DissectIR.ipv6, Gen.DissectIR.tcp, Gen.DissectIR.udp, Gen.DissectIR.icmp,
    Gen.DissectIR.ieee802, Gen.DissectIR.vlan, Gen.DissectIR.vlanData, Gen.DissectIR.ethRest, Gen.DissectIR.ipv4Rest,
    Gen.DissectIR.ipv6Rest, Gen.DissectIR.ethTagged,
    List.lookup_cons, String.reduceBEq, Expr.eval, Expr.octets, Expr.evalWith, Expr.octetsWith,
    cond_lt, cond_le, cond_eq, cond_ne, cond_gt, cond_ge, ipv4At, ipv6At, l2At])

/-- shifts and masks as arithmetic -/
macro "bits" : tactic => `(tactic|
  simp only [Nat.shiftLeft_eq, Nat.shiftRight_eq_div_pow, and_7, and_15, and_31, and_511, and_4095, Nat.reducePow])

/-! ## IPv4 (`Packet.decodeIPv4Header`) -/
section
variable (d : Bytes)

theorem ipv4_version : (ipv4At d).version = (field Gen.DissectIR.ipv4 "Version").eval d := by
  have := oct_lt d 0
  ir_unfold; rw [and_240_shr]; omega

theorem ipv4_tos : (ipv4At d).tos = (field Gen.DissectIR.ipv4 "TOS").eval d := by ir_unfold

theorem ipv4_totalLen : (ipv4At d).totalLen = (field Gen.DissectIR.ipv4 "TotalLen").eval d := by
  ir_unfold; exact (be16 _ _ (oct_lt d 3)).symm

theorem ipv4_id : (ipv4At d).id = (field Gen.DissectIR.ipv4 "ID").eval d := by
  ir_unfold; exact (be16 _ _ (oct_lt d 5)).symm

theorem ipv4_flags : (ipv4At d).flags = (field Gen.DissectIR.ipv4 "Flags").eval d := by
  ir_unfold; bits

theorem ipv4_fragOff : (ipv4At d).fragOff = (field Gen.DissectIR.ipv4 "FragOff").eval d := by
  ir_unfold; rw [be16 _ _ (oct_lt d 7), and_31]

theorem ipv4_ttl : (ipv4At d).ttl = (field Gen.DissectIR.ipv4 "TTL").eval d := by ir_unfold

theorem ipv4_protocol : (ipv4At d).protocol = (field Gen.DissectIR.ipv4 "Protocol").eval d := by ir_unfold

theorem ipv4_checksum : (ipv4At d).checksum = (field Gen.DissectIR.ipv4 "Checksum").eval d := by
  ir_unfold; exact (be16 _ _ (oct_lt d 11)).symm

theorem ipv4_src : (ipv4At d).src = (field Gen.DissectIR.ipv4 "Src").octets d := by ir_unfold

theorem ipv4_dst : (ipv4At d).dst = (field Gen.DissectIR.ipv4 "Dst").octets d := by ir_unfold

/-- the addresses are rendered by `net.IP.String` -/
theorem ipv4_addr_text :
    (field Gen.DissectIR.ipv4 "Src").isIpText = true ∧ (field Gen.DissectIR.ipv4 "Dst").isIpText = true := by
  constructor <;> (ir_unfold; rfl)

/-- the two guards: `len(p.data) < IPv4HLen`, then `len(p.data) < hlen` with
`hlen := int(p.data[0]&0x0f) * 4; if hlen < IPv4HLen { hlen = IPv4HLen }` (F17) -/
theorem ipv4_guards : Gen.DissectIR.ipv4Guards.map (fun g => g.eval d) = [20, ihlOctets (oct d 0)] := by
  simp only [Gen.DissectIR.ipv4Guards, List.map, Expr.eval, Expr.evalWith, cond_lt, ihlOctets, and_15,
    decide_eq_true_eq]

/-- what the transport layer gets: `p.data[hlen:]` with the same `hlen` -/
theorem ipv4_rest : Gen.DissectIR.ipv4Rest.octets d = d.drop (ihlOctets (oct d 0)) := by
  ir_unfold
  simp only [ihlOctets, and_15, decide_eq_true_eq]

/-- the IPv4 header as the regenerated expressions compute it -/
def irIPv4 : IPv4Hdr :=
  { version := (field Gen.DissectIR.ipv4 "Version").eval d, tos := (field Gen.DissectIR.ipv4 "TOS").eval d,
    totalLen := (field Gen.DissectIR.ipv4 "TotalLen").eval d, id := (field Gen.DissectIR.ipv4 "ID").eval d,
    flags := (field Gen.DissectIR.ipv4 "Flags").eval d, fragOff := (field Gen.DissectIR.ipv4 "FragOff").eval d,
    ttl := (field Gen.DissectIR.ipv4 "TTL").eval d, protocol := (field Gen.DissectIR.ipv4 "Protocol").eval d,
    checksum := (field Gen.DissectIR.ipv4 "Checksum").eval d, src := (field Gen.DissectIR.ipv4 "Src").octets d,
    dst := (field Gen.DissectIR.ipv4 "Dst").octets d }

theorem ipv4At_eq : ipv4At d = irIPv4 d := by
  rw [irIPv4, ← ipv4_version, ← ipv4_tos, ← ipv4_totalLen, ← ipv4_id, ← ipv4_flags, ← ipv4_fragOff, ← ipv4_ttl,
    ← ipv4_protocol, ← ipv4_checksum, ← ipv4_src, ← ipv4_dst]

/-- no `len(buf) < e` guard of the list fires on `d` -/
def pass (gs : List Expr) : Bool := (gs.map (fun g => g.eval d)).all (fun k => decide (k ≤ d.length))

/-- **the model's IPv4 decoder is the regenerated guards, fields and hand-over** -/
theorem decodeIPv4_ir :
    decodeIPv4 d = if pass d Gen.DissectIR.ipv4Guards then .ok (irIPv4 d, Gen.DissectIR.ipv4Rest.octets d)
      else .err .ip4Short := by
  unfold pass
  rw [ipv4_guards, ← ipv4At_eq, ipv4_rest]
  simp only [List.all_cons, List.all_nil, Bool.and_true, Bool.and_eq_true, decide_eq_true_eq]
  by_cases h : d.length < 20
  · rw [decodeIPv4_short d h, if_neg (by omega)]
  · by_cases h2 : d.length < ihlOctets (oct d 0)
    · rw [decodeIPv4_shortOpts d (by omega) h2, if_neg (by omega)]
    · rw [decodeIPv4_eq d (by omega) (by omega), if_pos ⟨by omega, by omega⟩]

/-! ## IPv6 (`Packet.decodeIPv6Header`) -/

theorem ipv6_version : (ipv6At d).version = (field Gen.DissectIR.ipv6 "Version").eval d := by
  ir_unfold; bits

theorem ipv6_trafficClass : (ipv6At d).trafficClass = (field Gen.DissectIR.ipv6 "TrafficClass").eval d := by
  have := oct_lt d 1
  ir_unfold; bits
  rw [or_eq_add _ _ 4 (by omega) (by omega)]

theorem ipv6_flowLabel : (ipv6At d).flowLabel = (field Gen.DissectIR.ipv6 "FlowLabel").eval d := by
  have := oct_lt d 2; have := oct_lt d 3
  ir_unfold; bits
  rw [or_eq_add (oct d 1 % 16 * 65536) _ 16 (by omega) (by omega), or_eq_add _ _ 8 (by omega) (by omega)]

theorem ipv6_payloadLen : (ipv6At d).payloadLen = (field Gen.DissectIR.ipv6 "PayloadLen").eval d := by
  have := oct_lt d 4; have := oct_lt d 5
  ir_unfold; bits
  rw [or_eq_add _ _ 8 (by omega) (by omega)]; omega

theorem ipv6_nextHeader : (ipv6At d).nextHeader = (field Gen.DissectIR.ipv6 "NextHeader").eval d := by ir_unfold

theorem ipv6_hopLimit : (ipv6At d).hopLimit = (field Gen.DissectIR.ipv6 "HopLimit").eval d := by ir_unfold

theorem ipv6_src : (ipv6At d).src = (field Gen.DissectIR.ipv6 "Src").octets d := by ir_unfold

theorem ipv6_dst : (ipv6At d).dst = (field Gen.DissectIR.ipv6 "Dst").octets d := by ir_unfold

theorem ipv6_addr_text :
    (field Gen.DissectIR.ipv6 "Src").isIpText = true ∧ (field Gen.DissectIR.ipv6 "Dst").isIpText = true := by
  constructor <;> (ir_unfold; rfl)

theorem ipv6_guards : Gen.DissectIR.ipv6Guards.map (fun g => g.eval d) = [40] := by
  simp only [Gen.DissectIR.ipv6Guards, List.map, Expr.eval, Expr.evalWith]

theorem ipv6_rest : Gen.DissectIR.ipv6Rest.octets d = d.drop 40 := by ir_unfold

def irIPv6 : IPv6Hdr :=
  { version := (field Gen.DissectIR.ipv6 "Version").eval d,
    trafficClass := (field Gen.DissectIR.ipv6 "TrafficClass").eval d,
    flowLabel := (field Gen.DissectIR.ipv6 "FlowLabel").eval d,
    payloadLen := (field Gen.DissectIR.ipv6 "PayloadLen").eval d,
    nextHeader := (field Gen.DissectIR.ipv6 "NextHeader").eval d,
    hopLimit := (field Gen.DissectIR.ipv6 "HopLimit").eval d,
    src := (field Gen.DissectIR.ipv6 "Src").octets d, dst := (field Gen.DissectIR.ipv6 "Dst").octets d }

theorem ipv6At_eq : ipv6At d = irIPv6 d := by
  rw [irIPv6, ← ipv6_version, ← ipv6_trafficClass, ← ipv6_flowLabel, ← ipv6_payloadLen, ← ipv6_nextHeader,
    ← ipv6_hopLimit, ← ipv6_src, ← ipv6_dst]

theorem decodeIPv6_ir :
    decodeIPv6 d = if pass d Gen.DissectIR.ipv6Guards then .ok (irIPv6 d, Gen.DissectIR.ipv6Rest.octets d)
      else .err .ip6Short := by
  unfold pass
  rw [ipv6_guards, ← ipv6At_eq, ipv6_rest]
  simp only [List.all_cons, List.all_nil, Bool.and_true, decide_eq_true_eq]
  by_cases h : d.length < 40
  · rw [decodeIPv6_short d h, if_neg (by omega)]
  · rw [decodeIPv6_eq d (by omega), if_pos (by omega)]

/-! ## TCP, UDP, ICMP (`decodeTCP`, `decodeUDP`, `decodeICMP`) -/

theorem tcp_srcPort : oct d 0 * 256 + oct d 1 = (field Gen.DissectIR.tcp "SrcPort").eval d := by
  ir_unfold; exact (be16 _ _ (oct_lt d 1)).symm

theorem tcp_dstPort : oct d 2 * 256 + oct d 3 = (field Gen.DissectIR.tcp "DstPort").eval d := by
  ir_unfold; exact (be16 _ _ (oct_lt d 3)).symm

theorem tcp_dataOffset : oct d 12 / 16 = (field Gen.DissectIR.tcp "DataOffset").eval d := by
  ir_unfold; bits

/-- F19c: the three bits between the data offset and NS -/
theorem tcp_reserved : oct d 12 / 2 % 8 = (field Gen.DissectIR.tcp "Reserved").eval d := by
  ir_unfold; bits

theorem tcp_flags : (oct d 12 * 256 + oct d 13) % 512 = (field Gen.DissectIR.tcp "Flags").eval d := by
  ir_unfold; rw [be16 _ _ (oct_lt d 13), and_511]

theorem tcp_guards : Gen.DissectIR.tcpGuards.map (fun g => g.eval d) = [20] := by
  simp only [Gen.DissectIR.tcpGuards, List.map, Expr.eval, Expr.evalWith]

def irTCP : L4 :=
  .tcp ((field Gen.DissectIR.tcp "SrcPort").eval d) ((field Gen.DissectIR.tcp "DstPort").eval d)
    ((field Gen.DissectIR.tcp "DataOffset").eval d) ((field Gen.DissectIR.tcp "Reserved").eval d)
    ((field Gen.DissectIR.tcp "Flags").eval d)

theorem decodeTCP_ir :
    decodeTCP d = if pass d Gen.DissectIR.tcpGuards then .ok (irTCP d) else .err .tcpShort := by
  unfold pass
  rw [tcp_guards, irTCP, ← tcp_srcPort, ← tcp_dstPort, ← tcp_dataOffset, ← tcp_reserved, ← tcp_flags]
  simp only [List.all_cons, List.all_nil, Bool.and_true, decide_eq_true_eq]
  by_cases h : d.length < 20
  · rw [if_neg (by omega)]; simp [decodeTCP, h]
  · rw [decodeTCP_eq d (by omega), if_pos (by omega)]

theorem udp_srcPort : oct d 0 * 256 + oct d 1 = (field Gen.DissectIR.udp "SrcPort").eval d := by
  ir_unfold; exact (be16 _ _ (oct_lt d 1)).symm

theorem udp_dstPort : oct d 2 * 256 + oct d 3 = (field Gen.DissectIR.udp "DstPort").eval d := by
  ir_unfold; exact (be16 _ _ (oct_lt d 3)).symm

theorem udp_guards : Gen.DissectIR.udpGuards.map (fun g => g.eval d) = [8] := by
  simp only [Gen.DissectIR.udpGuards, List.map, Expr.eval, Expr.evalWith]

def irUDP : L4 := .udp ((field Gen.DissectIR.udp "SrcPort").eval d) ((field Gen.DissectIR.udp "DstPort").eval d)

theorem decodeUDP_ir :
    decodeUDP d = if pass d Gen.DissectIR.udpGuards then .ok (irUDP d) else .err .udpShort := by
  unfold pass
  rw [udp_guards, irUDP, ← udp_srcPort, ← udp_dstPort]
  simp only [List.all_cons, List.all_nil, Bool.and_true, decide_eq_true_eq]
  by_cases h : d.length < 8
  · rw [if_neg (by omega)]; simp [decodeUDP, h]
  · rw [decodeUDP_eq d (by omega), if_pos (by omega)]

theorem icmp_type : oct d 0 = (field Gen.DissectIR.icmp "Type").eval d := by ir_unfold

theorem icmp_code : oct d 1 = (field Gen.DissectIR.icmp "Code").eval d := by ir_unfold

theorem icmp_restHeader : d.drop 4 = (field Gen.DissectIR.icmp "RestHeader").octets d := by ir_unfold

theorem icmp_guards : Gen.DissectIR.icmpGuards.map (fun g => g.eval d) = [5] := by
  simp only [Gen.DissectIR.icmpGuards, List.map, Expr.eval, Expr.evalWith]

def irICMP : L4 :=
  .icmp ((field Gen.DissectIR.icmp "Type").eval d) ((field Gen.DissectIR.icmp "Code").eval d)
    ((field Gen.DissectIR.icmp "RestHeader").octets d)

theorem decodeICMP_ir :
    decodeICMP d = if pass d Gen.DissectIR.icmpGuards then .ok (irICMP d) else .err .icmpShort := by
  unfold pass
  rw [icmp_guards, irICMP, ← icmp_type, ← icmp_code, ← icmp_restHeader]
  simp only [List.all_cons, List.all_nil, Bool.and_true, decide_eq_true_eq]
  by_cases h : d.length < 5
  · rw [if_neg (by omega)]; simp [decodeICMP, h]
  · rw [decodeICMP_eq d (by omega), if_pos (by omega)]

/-! ## Ethernet (`decodeIEEE802`, `Packet.decodeEthernet` and its 802.1Q branch) -/

/-- `uint16(b[13]) | uint16(b[12])<<8` -/
theorem et_bits : oct d 13 ||| oct d 12 <<< 8 % 2 ^ 16 = oct d 12 * 256 + oct d 13 := by
  have := oct_lt d 12; have := oct_lt d 13
  bits
  rw [Nat.or_comm, or_eq_add _ _ 8 (by omega) (by omega)]
  omega

theorem l2At_etherType : (l2At d).etherType = oct d 12 * 256 + oct d 13 := by
  unfold l2At; split <;> rfl

theorem ieee802_etherType : (l2At d).etherType = (field Gen.DissectIR.ieee802 "EtherType").eval d := by
  rw [l2At_etherType]
  ir_unfold
  exact (et_bits d).symm

/-- the value the MAC fields are conditioned on is the `EtherType` just assigned, and the constant is 0x8100 -/
theorem ieee802_dstMAC : (l2At d).dstMAC = (field Gen.DissectIR.ieee802 "DstMAC").octets d := by
  ir_unfold
  simp only [et_bits, decide_eq_true_eq]
  split <;> simp_all

theorem ieee802_srcMAC : (l2At d).srcMAC = (field Gen.DissectIR.ieee802 "SrcMAC").octets d := by
  ir_unfold
  simp only [et_bits, decide_eq_true_eq]
  split <;> simp_all

theorem ieee802_mac_text :
    (field Gen.DissectIR.ieee802 "DstMAC").isHwText = true ∧ (field Gen.DissectIR.ieee802 "SrcMAC").isHwText = true := by
  constructor <;> (ir_unfold; rfl)

theorem ieee802_guards : Gen.DissectIR.ieee802Guards.map (fun g => g.eval d) = [14] := by
  simp only [Gen.DissectIR.ieee802Guards, List.map, Expr.eval, Expr.evalWith]

/-- the `Datalink` of `decodeIEEE802` as the regenerated expressions compute it (`Vlan` is not set there) -/
def irL2 : L2 :=
  { srcMAC := (field Gen.DissectIR.ieee802 "SrcMAC").octets d, dstMAC := (field Gen.DissectIR.ieee802 "DstMAC").octets d,
    vlan := 0, etherType := (field Gen.DissectIR.ieee802 "EtherType").eval d }

theorem l2At_vlan : (l2At d).vlan = 0 := by
  unfold l2At; split <;> rfl

theorem l2At_eq : l2At d = irL2 d := by
  rw [irL2, ← ieee802_srcMAC, ← ieee802_dstMAC, ← ieee802_etherType, ← l2At_vlan d]

theorem decodeIEEE802_ir :
    decodeIEEE802 d = if pass d Gen.DissectIR.ieee802Guards then .ok (irL2 d) else .err .ieeeShort := by
  unfold pass
  rw [ieee802_guards, ← l2At_eq]
  simp only [List.all_cons, List.all_nil, Bool.and_true, decide_eq_true_eq]
  by_cases h : d.length < 14
  · rw [if_neg (by omega)]; simp [decodeIEEE802, h]
  · rw [decodeIEEE802_eq d (by omega), if_pos (by omega)]

/-- F15: the VLAN identifier is the low 12 bits of the tag control information -/
theorem vlan_id : (oct d 14 * 256 + oct d 15) % 4096 = (field Gen.DissectIR.vlan "Vlan").eval d := by
  ir_unfold; rw [be16 _ _ (oct_lt d 15), and_4095]

/-- the buffer after `p.data[12], p.data[13] = p.data[16], p.data[17]` and
`append(p.data[:14], p.data[18:]...)` is the model's `untag` -/
theorem vlan_data : untag d = Gen.DissectIR.vlanData.octets d := by
  ir_unfold
  unfold untag
  rw [List.append_assoc]
  congr 1
  have : d.drop 18 = (d.drop 16).drop 2 := by rw [List.drop_drop]
  rw [this, List.take_append_drop]

theorem vlan_guards : Gen.DissectIR.vlanGuards.map (fun g => g.eval d) = [18] := by
  simp only [Gen.DissectIR.vlanGuards, List.map, Expr.eval, Expr.evalWith]

theorem eth_guards : Gen.DissectIR.ethGuards.map (fun g => g.eval d) = [14] := by
  simp only [Gen.DissectIR.ethGuards, List.map, Expr.eval, Expr.evalWith]

theorem eth_rest : Gen.DissectIR.ethRest.octets d = d.drop 14 := by ir_unfold

/-- **the 802.1Q branch of the model is the regenerated one**: guard, rewritten buffer, `decodeIEEE802` on it,
`Vlan`, hand-over -/
theorem decodeVlan_ir :
    decodeVlan d =
      if pass d Gen.DissectIR.vlanGuards then
        .ok ({ irL2 (Gen.DissectIR.vlanData.octets d) with vlan := (field Gen.DissectIR.vlan "Vlan").eval d },
             Gen.DissectIR.ethRest.octets (Gen.DissectIR.vlanData.octets d))
      else .err .ethShort := by
  unfold pass
  rw [vlan_guards, ← vlan_data, ← l2At_eq, ← vlan_id, eth_rest]
  simp only [List.all_cons, List.all_nil, Bool.and_true, decide_eq_true_eq]
  by_cases h : d.length < 18
  · rw [if_neg (by omega)]; simp [decodeVlan, h]
  · rw [decodeVlan_eq d (by omega), if_pos (by omega)]

/-- **`Packet.decodeEthernet`**: guard, `decodeIEEE802`, the 802.1Q branch when the regenerated condition holds of
the `EtherType` it returned, else the hand-over -/
theorem decodeEthernet_ir :
    decodeEthernet d =
      if pass d Gen.DissectIR.ethGuards then
        if Gen.DissectIR.ethTagged.evalWith (fun _ => (irL2 d).etherType) d ≠ 0 then decodeVlan d
        else .ok (irL2 d, Gen.DissectIR.ethRest.octets d)
      else .err .ethShort := by
  unfold pass
  rw [eth_guards, ← l2At_eq, eth_rest]
  simp only [List.all_cons, List.all_nil, Bool.and_true, decide_eq_true_eq]
  unfold decodeEthernet
  by_cases h : d.length < 14
  · rw [if_pos h, if_neg (by omega)]
  · rw [if_neg h, if_pos (by omega), decodeIEEE802_eq d (by omega)]
    ir_unfold
    simp only [ok_bind]
    by_cases ht : (if oct d 12 * 256 + oct d 13 ≠ 0x8100 then
        ({ srcMAC := List.take 6 (List.drop 6 d), dstMAC := List.take 6 d, vlan := 0, etherType := oct d 12 * 256 + oct d 13 } : L2)
      else { srcMAC := [], dstMAC := [], vlan := 0, etherType := oct d 12 * 256 + oct d 13 }).etherType = 0x8100
    · simp (disch := omega) [ht, from?_le]
    · simp (disch := omega) [ht, from?_le]

/-! ## nothing unrecognised, nothing beyond the guards -/

/-- every field of every struct is translated; `decodeEthernet` holds no extraction outside its 802.1Q branch and
calls `decodeIEEE802(p.data)` once outside and once inside it -/
theorem all_known :
    allKnown Gen.DissectIR.ieee802 = true ∧ allKnown Gen.DissectIR.vlan = true ∧ allKnown Gen.DissectIR.ipv4 = true ∧
    allKnown Gen.DissectIR.ipv6 = true ∧ allKnown Gen.DissectIR.tcp = true ∧ allKnown Gen.DissectIR.udp = true ∧
    allKnown Gen.DissectIR.icmp = true ∧ Gen.DissectIR.eth = [] ∧ Gen.DissectIR.ethCalls = (1, 1) := by decide

/-- the struct fields of each function are exactly the fields of the Go struct, in source order -/
theorem field_names :
    Gen.DissectIR.ieee802.map (·.1) = ["EtherType", "DstMAC", "SrcMAC"] ∧ Gen.DissectIR.vlan.map (·.1) = ["Vlan"] ∧
    Gen.DissectIR.ipv4.map (·.1) =
      ["Version", "TOS", "TotalLen", "ID", "Flags", "FragOff", "TTL", "Protocol", "Checksum", "Src", "Dst"] ∧
    Gen.DissectIR.ipv6.map (·.1) =
      ["Version", "TrafficClass", "FlowLabel", "PayloadLen", "NextHeader", "HopLimit", "Src", "Dst"] ∧
    Gen.DissectIR.tcp.map (·.1) = ["SrcPort", "DstPort", "DataOffset", "Reserved", "Flags"] ∧
    Gen.DissectIR.udp.map (·.1) = ["SrcPort", "DstPort"] ∧
    Gen.DissectIR.icmp.map (·.1) = ["Type", "Code", "RestHeader"] := by decide

/-- every constant index / slice bound of a function lies below the bound of its first length guard: the octets
the expressions read are the ones the Go code has checked for -/
theorem within_guards :
    needOf Gen.DissectIR.ieee802 ≤ 14 ∧ needOf Gen.DissectIR.vlan ≤ 18 ∧ Gen.DissectIR.vlanData.need ≤ 18 ∧
    needOf Gen.DissectIR.ipv4 ≤ 20 ∧ needOf Gen.DissectIR.ipv6 ≤ 40 ∧ needOf Gen.DissectIR.tcp ≤ 20 ∧
    needOf Gen.DissectIR.udp ≤ 8 ∧ needOf Gen.DissectIR.icmp ≤ 5 ∧
    Gen.DissectIR.ethRest.need ≤ 14 ∧ Gen.DissectIR.ipv6Rest.need ≤ 40 ∧ Gen.DissectIR.ipv4Rest.need ≤ 20 := by decide

end
end Vflow.DissectTie
