import Vflow.Proofs.IpfixIR
import Vflow.Proofs.FuelIpfix
/-!
# The translated `unmarshal` functions of `ipfix/decoder.go` are the model's readers

`TemplateFieldSpecifier.unmarshal` = `Ipfix.readSpec`, `TemplateHeader.unmarshal` / `unmarshalOpts` and
`SetHeader.unmarshal` = the chains of 16-bit reads, `TemplateRecord.unmarshal` / `unmarshalOpts` = `Ipfix.parseTpl` /
`parseOptTpl` (count-down loops over the field count: one lemma per loop by induction on the counter; a successful
specifier read consumes at least 4 octets, so `fuel` = octets left + 1 suffices), `MessageHeader.unmarshal` =
`Ipfix.readHeader`, `MessageHeader.validate`.
-/
set_option linter.unusedSimpArgs false
namespace Vflow.IpfixIR
open Vflow

/-! ## the `unmarshal` functions -/

theorem band_7fff (id : Nat) : id &&& 32767 = id % 32768 := Nat.and_two_pow_sub_one_eq_mod id 15

/-- `TemplateFieldSpecifier.unmarshal` against `Ipfix.readSpec`: the specifier and `nil`, or the reader's error (the
specifier is then partly overwritten) -/
def SpecOut (res : Except Err Spec × Rd) (c : Cache) (out : Option (St × List V × List V)) : Prop :=
  match res with
  | (.ok s, r') => out = some (⟨r', c⟩, [.spec s], [.nil])
  | (.error e, r') => ∃ s', out = some (⟨r', c⟩, [.spec s'], [.err ⟨false, e⟩])

theorem fieldSpecUnmarshal_sem (addr : Bytes) (fuel : Nat) (r : Rd) (c : Cache) (s0 : Spec) :
    SpecOut (Ipfix.readSpec r) c (IpfixProg.fieldSpecUnmarshal addr fuel [.spec s0] ⟨r, c⟩) := by
  unfold IpfixProg.fieldSpecUnmarshal Func.sem Ipfix.readSpec SpecOut
  rcases h1 : r.rU16 with _ | ⟨id, r1⟩
  · exact ⟨{ s0 with id := 0 }, by ir_simp [Gen.IpfixIR.fieldSpecUnmarshal, h1]⟩
  · simp only []
    rcases h2 : r1.rU16 with _ | ⟨len, r2⟩
    · exact ⟨{ s0 with id := id, len := 0 }, by ir_simp [Gen.IpfixIR.fieldSpecUnmarshal, h1, h2]⟩
    · simp only []
      by_cases hid : id > 0x8000
      · simp only [hid, if_true]
        rcases h3 : r2.rU32 with _ | ⟨ent, r3⟩
        · exact ⟨⟨id % 0x8000, len, 0⟩, by ir_simp [Gen.IpfixIR.fieldSpecUnmarshal, h1, h2, h3, hid, band_7fff]⟩
        · ir_simp [Gen.IpfixIR.fieldSpecUnmarshal, h1, h2, h3, hid, band_7fff]
      · simp only [hid, if_false]
        ir_simp [Gen.IpfixIR.fieldSpecUnmarshal, h1, h2, hid]

/-- `TemplateHeader.unmarshal`: two 16-bit reads in this order into TemplateID, FieldCount; a failed read stores 0 and
returns the reader's error -/
theorem tplHeaderUnmarshal_sem (addr : Bytes) (fuel : Nat) (r : Rd) (c : Cache) (a b sc : Nat) :
    IpfixProg.tplHeaderUnmarshal addr fuel [.thdr a b sc] ⟨r, c⟩ =
      match r.rU16 with
      | none => some (⟨r, c⟩, [.thdr 0 b sc], [errReader])
      | some (tid, r1) =>
        match r1.rU16 with
        | none => some (⟨r1, c⟩, [.thdr tid 0 sc], [errReader])
        | some (n, r2) => some (⟨r2, c⟩, [.thdr tid n sc], [.nil]) := by
  unfold IpfixProg.tplHeaderUnmarshal Func.sem
  rcases h1 : r.rU16 with _ | ⟨tid, r1⟩
  · ir_simp [Gen.IpfixIR.tplHeaderUnmarshal, h1]
  · rcases h2 : r1.rU16 with _ | ⟨n, r2⟩ <;> ir_simp [Gen.IpfixIR.tplHeaderUnmarshal, h1, h2]

theorem tplHeaderUnmarshalOpts_sem (addr : Bytes) (fuel : Nat) (r : Rd) (c : Cache) (a b sc : Nat) :
    IpfixProg.tplHeaderUnmarshalOpts addr fuel [.thdr a b sc] ⟨r, c⟩ =
      match r.rU16 with
      | none => some (⟨r, c⟩, [.thdr 0 b sc], [errReader])
      | some (tid, r1) =>
        match r1.rU16 with
        | none => some (⟨r1, c⟩, [.thdr tid 0 sc], [errReader])
        | some (n, r2) =>
          match r2.rU16 with
          | none => some (⟨r2, c⟩, [.thdr tid n 0], [errReader])
          | some (m, r3) => some (⟨r3, c⟩, [.thdr tid n m], [.nil]) := by
  unfold IpfixProg.tplHeaderUnmarshalOpts Func.sem
  rcases h1 : r.rU16 with _ | ⟨tid, r1⟩
  · ir_simp [Gen.IpfixIR.tplHeaderUnmarshalOpts, h1]
  · rcases h2 : r1.rU16 with _ | ⟨n, r2⟩
    · ir_simp [Gen.IpfixIR.tplHeaderUnmarshalOpts, h1, h2]
    · rcases h3 : r2.rU16 with _ | ⟨m, r3⟩ <;> ir_simp [Gen.IpfixIR.tplHeaderUnmarshalOpts, h1, h2, h3]

theorem setHeaderUnmarshal_sem (addr : Bytes) (fuel : Nat) (r : Rd) (c : Cache) (a b : Nat) :
    IpfixProg.setHeaderUnmarshal addr fuel [.shdr a b] ⟨r, c⟩ =
      match r.rU16 with
      | none => some (⟨r, c⟩, [.shdr 0 b], [errReader])
      | some (sid, r1) =>
        match r1.rU16 with
        | none => some (⟨r1, c⟩, [.shdr sid 0], [errReader])
        | some (len, r2) => some (⟨r2, c⟩, [.shdr sid len], [.nil]) := by
  unfold IpfixProg.setHeaderUnmarshal Func.sem
  rcases h1 : r.rU16 with _ | ⟨tid, r1⟩
  · ir_simp [Gen.IpfixIR.setHeaderUnmarshal, h1]
  · rcases h2 : r1.rU16 with _ | ⟨n, r2⟩ <;> ir_simp [Gen.IpfixIR.setHeaderUnmarshal, h1, h2]

/-- `MessageHeader.unmarshal` against `Ipfix.readHeader` -/
theorem msgHeaderUnmarshal_sem (addr : Bytes) (fuel : Nat) (r : Rd) (c : Cache) (h0 : MHdr) :
    match Ipfix.readHeader r with
    | some (h, r') => ∃ h1 : MHdr, h1.toHdr = h ∧
        IpfixProg.msgHeaderUnmarshal addr fuel [.mhdr h0] ⟨r, c⟩ = some (⟨r', c⟩, [.mhdr h1], [.nil])
    | none => ∃ r' h1, IpfixProg.msgHeaderUnmarshal addr fuel [.mhdr h0] ⟨r, c⟩ = some (⟨r', c⟩, [.mhdr h1], [errReader]) := by
  unfold IpfixProg.msgHeaderUnmarshal Func.sem Ipfix.readHeader
  rcases h1 : r.rU16 with _ | ⟨ver, r1⟩
  · exact ⟨r, { h0 with ver := 0 }, by ir_simp [Gen.IpfixIR.msgHeaderUnmarshal, h1]⟩
  · simp only []
    rcases h2 : r1.rU16 with _ | ⟨len, r2⟩
    · exact ⟨r1, { h0 with ver := ver, len := 0 }, by ir_simp [Gen.IpfixIR.msgHeaderUnmarshal, h1, h2]⟩
    · simp only []
      rcases h3 : r2.rU32 with _ | ⟨et, r3⟩
      · exact ⟨r2, { h0 with ver := ver, len := len, et := 0 }, by ir_simp [Gen.IpfixIR.msgHeaderUnmarshal, h1, h2, h3]⟩
      · simp only []
        rcases h4 : r3.rU32 with _ | ⟨sq, r4⟩
        · exact ⟨r3, { h0 with ver := ver, len := len, et := et, sq := 0 }, by ir_simp [Gen.IpfixIR.msgHeaderUnmarshal, h1, h2, h3, h4]⟩
        · simp only []
          rcases h5 : r4.rU32 with _ | ⟨dom, r5⟩
          · exact ⟨r4, ⟨ver, len, et, sq, 0⟩, by ir_simp [Gen.IpfixIR.msgHeaderUnmarshal, h1, h2, h3, h4, h5]⟩
          · exact ⟨⟨ver, len, et, sq, dom⟩, rfl, by ir_simp [Gen.IpfixIR.msgHeaderUnmarshal, h1, h2, h3, h4, h5]⟩

/-- `MessageHeader.validate`: version 10 or the (fatal) version error; the header is not changed -/
theorem msgHeaderValidate_sem (addr : Bytes) (fuel : Nat) (st : St) (h : MHdr) :
    IpfixProg.msgHeaderValidate addr fuel [.mhdr h] st =
      some (st, [.mhdr h], [if h.toHdr.headD 0 ≠ 10 then .err ⟨false, .badVersion⟩ else .nil]) := by
  unfold IpfixProg.msgHeaderValidate Func.sem
  by_cases hv : h.ver = 10 <;> ir_simp [Gen.IpfixIR.msgHeaderValidate, hv, MHdr.toHdr]

/-! ### `TemplateRecord.unmarshal` -/

def tru (i : Nat) : Stmt := Gen.IpfixIR.tplRecordUnmarshal.body.nth i
theorem tru_body : Gen.IpfixIR.tplRecordUnmarshal.body = blk [tru 0, tru 1, tru 2, tru 3, tru 4, tru 5, tru 6, tru 7] := rfl
theorem tru6_shape : tru 6 = .loop (tru 6).loopCond (tru 6).loopBody (tru 6).loopPost := rfl

section
variable (addr : Bytes) (fuel : Nat) (c : Cache)

abbrev truLink : Linkage :=
  [("tplHeaderUnmarshal", IpfixProg.tplHeaderUnmarshal addr fuel), ("fieldSpecUnmarshal", IpfixProg.fieldSpecUnmarshal addr fuel)]

/-- an error return of a function whose first slot is the by-pointer template -/
def ErrOut (e : Err) (r' : Rd) (out : Res) : Prop :=
  ∃ t' rest, out = some (.ret [.err ⟨false, e⟩], ⟨r', c⟩, .tpl t' :: rest)

/-- one iteration of the specifier loop: the specifier read is appended to `fields` -/
def TruBodyOut (res : Except Err Spec × Rd) (tid cnt scnt : Nat) (scope acc : List Spec) (th e3 : V) (i : Nat) (out : Res) : Prop :=
  match res with
  | (.ok s, r') => out = some (.norm, ⟨r', c⟩, [.tpl ⟨tid, cnt, scnt, scope, acc ++ [s]⟩, th, .spec s, e3, .int i, .nil])
  | (.error e, r') => ErrOut c e r' out

theorem tru_body6 (r : Rd) (tid cnt scnt : Nat) (scope acc : List Spec) (th e3 e5 : V) (tf : Spec) (i : Nat) :
    TruBodyOut c (Ipfix.readSpec r) tid cnt scnt scope acc th e3 i
      (exec addr (truLink addr fuel) fuel (tru 6).loopBody ⟨r, c⟩
        [.tpl ⟨tid, cnt, scnt, scope, acc⟩, th, .spec tf, e3, .int i, e5]) := by
  have hs := fieldSpecUnmarshal_sem addr fuel r c tf
  rcases hrs : Ipfix.readSpec r with ⟨e | s, r'⟩
  · simp only [hrs, SpecOut] at hs
    obtain ⟨s', hs⟩ := hs
    refine ⟨⟨tid, cnt, scnt, scope, acc⟩, [th, .spec s', e3, .int i, .err ⟨false, e⟩], ?_⟩
    ir_simp [TruBodyOut, tru, Stmt.nth, Stmt.items, Stmt.loopBody, Gen.IpfixIR.tplRecordUnmarshal, hs]
  · simp only [hrs, SpecOut] at hs
    ir_simp [TruBodyOut, tru, Stmt.nth, Stmt.items, Stmt.loopBody, Gen.IpfixIR.tplRecordUnmarshal, hs]

theorem readSpec_ok_len {r r' : Rd} {s : Spec} (h : Ipfix.readSpec r = (.ok s, r')) : r'.rem.length + 4 ≤ r.rem.length := by
  have := Ipfix.readSpec_adv h
  have h2 := this.2 s rfl
  have h1 := this.1.1
  omega

theorem tru6_cond (st : St) (t th tf e3 e5 : V) (i : Nat) :
    eval addr st [t, th, tf, e3, .int i, e5] (tru 6).loopCond = some (.bool (decide (i > 0))) := by
  ir_simp [tru, Stmt.nth, Stmt.items, Stmt.loopCond, Gen.IpfixIR.tplRecordUnmarshal]

theorem tru6_post (st : St) (t th tf e3 e5 : V) (i : Nat) (hi : i + 1 < 65536) :
    exec addr (truLink addr fuel) fuel (tru 6).loopPost st [t, th, tf, e3, .int (i + 1), e5] =
      some (.norm, st, [t, th, tf, e3, .int i, e5]) := by
  ir_simp [tru, Stmt.nth, Stmt.items, Stmt.loopPost, Gen.IpfixIR.tplRecordUnmarshal, subAt_u16_pred i hi]

/-- the specifier loop against `Ipfix.readSpecs` -/
def TruLoopOut (res : Except Err (List Spec) × Rd) (tid cnt scnt : Nat) (scope : List Spec) (th e3 : V) (out : Res) : Prop :=
  match res with
  | (.ok fs, r') => ∃ tf' e5', out = some (.norm, ⟨r', c⟩, [.tpl ⟨tid, cnt, scnt, scope, fs⟩, th, .spec tf', e3, .int 0, e5'])
  | (.error e, r') => ErrOut c e r' out

theorem tru_loop6 (tid cnt scnt : Nat) (scope : List Spec) (th e3 : V) :
    ∀ (i k : Nat) (r : Rd) (acc : List Spec) (tf : Spec) (e5 : V), i < 65536 → r.rem.length < k →
    TruLoopOut c (Ipfix.readSpecs i r acc) tid cnt scnt scope th e3
      (loopF (fun st env => eval addr st env (tru 6).loopCond) (exec addr (truLink addr fuel) fuel (tru 6).loopBody)
        (exec addr (truLink addr fuel) fuel (tru 6).loopPost) k ⟨r, c⟩
        [.tpl ⟨tid, cnt, scnt, scope, acc⟩, th, .spec tf, e3, .int i, e5]) := by
  intro i
  induction i with
  | zero =>
    intro k r acc tf e5 _ hk
    obtain ⟨k, rfl⟩ : ∃ k', k = k' + 1 := ⟨k - 1, by omega⟩
    simp only [Ipfix.readSpecs, TruLoopOut, loopF, tru6_cond, Nat.lt_irrefl, gt_iff_lt, decide_false]
    exact ⟨tf, e5, rfl⟩
  | succ i ih =>
    intro k r acc tf e5 hi hk
    obtain ⟨k, rfl⟩ : ∃ k', k = k' + 1 := ⟨k - 1, by omega⟩
    have hb := tru_body6 addr fuel c r tid cnt scnt scope acc th e3 e5 tf (i + 1)
    simp only [Ipfix.readSpecs, loopF, tru6_cond, gt_iff_lt, Nat.zero_lt_succ, decide_true]
    rcases hrs : Ipfix.readSpec r with ⟨e | s, r'⟩
    · simp only [hrs, TruBodyOut] at hb
      obtain ⟨t', rest, hb⟩ := hb
      simp only [hb, TruLoopOut]
      exact ⟨t', rest, rfl⟩
    · simp only [hrs, TruBodyOut] at hb
      simp only [hb, tru6_post addr fuel _ _ _ _ _ _ i hi]
      exact ih k r' (acc ++ [s]) s .nil (by omega) (by have := readSpec_ok_len hrs; omega)
end

/-- `TemplateRecord.unmarshal` / `unmarshalOpts` against `Ipfix.parseTpl` / `parseOptTpl`: the template and `nil`, or the
reader's error (the template is then partly filled) -/
def TplOut (res : Except Err Template × Rd) (c : Cache) (out : Option (St × List V × List V)) : Prop :=
  match res with
  | (.ok t, r') => out = some (⟨r', c⟩, [.tpl t], [.nil])
  | (.error e, r') => ∃ t', out = some (⟨r', c⟩, [.tpl t'], [.err ⟨false, e⟩])

theorem tplRecordUnmarshal_sem (addr : Bytes) (fuel : Nat) (r : Rd) (c : Cache) (hfuel : r.rem.length < fuel) :
    TplOut (Ipfix.parseTpl r) c (IpfixProg.tplRecordUnmarshal addr fuel [.tpl Ipfix.emptyTpl] ⟨r, c⟩) := by
  unfold IpfixProg.tplRecordUnmarshal Func.sem
  have henv : ([V.tpl Ipfix.emptyTpl] ++ List.replicate (Gen.IpfixIR.tplRecordUnmarshal.nslots - [V.tpl Ipfix.emptyTpl].length) V.unset) =
      [.tpl ⟨0, 0, 0, [], []⟩, .unset, .unset, .unset, .unset, .unset] := rfl
  rw [henv, tru_body]
  have e0 : ∀ (st : St) x0 x1 x2 x3 x4 x5, exec addr (truLink addr fuel) fuel (tru 0) st [x0, x1, x2, x3, x4, x5] =
      some (.norm, st, [x0, .thdr 0 0 0, x2, x3, x4, x5]) := by
    intros; ir_simp [tru, Stmt.nth, Stmt.items, Gen.IpfixIR.tplRecordUnmarshal]
  have e1 : ∀ (st : St) x0 x1 x2 x3 x4 x5, exec addr (truLink addr fuel) fuel (tru 1) st [x0, x1, x2, x3, x4, x5] =
      some (.norm, st, [x0, x1, .spec ⟨0, 0, 0⟩, x3, x4, x5]) := by
    intros; ir_simp [tru, Stmt.nth, Stmt.items, Gen.IpfixIR.tplRecordUnmarshal]
  have e2 : ∀ x0 x2 x3 x4 x5, exec addr (truLink addr fuel) fuel (tru 2) ⟨r, c⟩ [x0, .thdr 0 0 0, x2, x3, x4, x5] =
      match r.rU16 with
      | none => some (.ret [errReader], ⟨r, c⟩, [x0, .thdr 0 0 0, x2, errReader, x4, x5])
      | some (tid, r1) =>
        match r1.rU16 with
        | none => some (.ret [errReader], ⟨r1, c⟩, [x0, .thdr tid 0 0, x2, errReader, x4, x5])
        | some (n, r2) => some (.norm, ⟨r2, c⟩, [x0, .thdr tid n 0, x2, .nil, x4, x5]) := by
    intros
    have hh := tplHeaderUnmarshal_sem addr fuel r c 0 0 0
    rcases h1 : r.rU16 with _ | ⟨tid, r1⟩
    · simp only [h1] at hh
      ir_simp [tru, Stmt.nth, Stmt.items, Gen.IpfixIR.tplRecordUnmarshal, hh]
    · simp only []
      rcases h2 : r1.rU16 with _ | ⟨n, r2⟩ <;> simp only [h1, h2] at hh <;>
        ir_simp [tru, Stmt.nth, Stmt.items, Gen.IpfixIR.tplRecordUnmarshal, hh]
  have e3 : ∀ (st : St) (t : Template) tid n sc x2 x3 x4 x5, exec addr (truLink addr fuel) fuel (tru 3) st [.tpl t, .thdr tid n sc, x2, x3, x4, x5] =
      some (.norm, st, [.tpl { t with tid := tid }, .thdr tid n sc, x2, x3, x4, x5]) := by
    intros; ir_simp [tru, Stmt.nth, Stmt.items, Gen.IpfixIR.tplRecordUnmarshal]
  have e4 : ∀ (st : St) (t : Template) tid n sc x2 x3 x4 x5, exec addr (truLink addr fuel) fuel (tru 4) st [.tpl t, .thdr tid n sc, x2, x3, x4, x5] =
      some (.norm, st, [.tpl { t with cnt := n }, .thdr tid n sc, x2, x3, x4, x5]) := by
    intros; ir_simp [tru, Stmt.nth, Stmt.items, Gen.IpfixIR.tplRecordUnmarshal]
  have e5 : ∀ (st : St) x0 tid n sc x2 x3 x4 x5, exec addr (truLink addr fuel) fuel (tru 5) st [x0, .thdr tid n sc, x2, x3, x4, x5] =
      some (.norm, st, [x0, .thdr tid n sc, x2, x3, .int n, x5]) := by
    intros; ir_simp [tru, Stmt.nth, Stmt.items, Gen.IpfixIR.tplRecordUnmarshal]
  have e7 : ∀ (st : St) env, exec addr (truLink addr fuel) fuel (tru 7) st env = some (.ret [.nil], st, env) := by
    intros; ir_simp [tru, Stmt.nth, Stmt.items, Gen.IpfixIR.tplRecordUnmarshal]
  simp only [blk, exec, e0, e1, e2]
  unfold Ipfix.parseTpl TplOut
  rcases h1 : r.rU16 with _ | ⟨tid, r1⟩
  · exact ⟨⟨0, 0, 0, [], []⟩, by simp [Gen.IpfixIR.tplRecordUnmarshal, readSlots, refSlots, List.filter, ParamKind.hasSlot, errReader]⟩
  · simp only []
    rcases h2 : r1.rU16 with _ | ⟨n, r2⟩
    · exact ⟨⟨0, 0, 0, [], []⟩, by simp [Gen.IpfixIR.tplRecordUnmarshal, readSlots, refSlots, List.filter, ParamKind.hasSlot, errReader]⟩
    · simp only [e3, e4, e5]
      rw [tru6_shape]
      simp only [exec]
      have hr2 : r2.rem.length < fuel := by
        have a1 := (adv_rU16 h1).1; have a2 := (adv_rU16 h2).1
        have := a1.1; have := a1.2; have := a2.1; have := a2.2; omega
      have hl := tru_loop6 addr fuel c tid n 0 [] (.thdr tid n 0) .nil n fuel r2 [] ⟨0, 0, 0⟩ .unset (rU16_lt h2) hr2
      rcases hrs : Ipfix.readSpecs n r2 [] with ⟨e | fs, r3⟩
      · simp only [hrs, TruLoopOut] at hl
        obtain ⟨t', rest, hl⟩ := hl
        have he := Ipfix.readSpecs_err _ _ _ _ _ hrs
        exact ⟨t', by simp [hl, Gen.IpfixIR.tplRecordUnmarshal, readSlots, refSlots, List.filter, ParamKind.hasSlot]⟩
      · simp only [hrs, TruLoopOut] at hl
        obtain ⟨tf', e5', hl⟩ := hl
        simp [hl, e7, Gen.IpfixIR.tplRecordUnmarshal, readSlots, refSlots, List.filter, ParamKind.hasSlot]

/-! ### `TemplateRecord.unmarshalOpts` -/

def truo (i : Nat) : Stmt := Gen.IpfixIR.tplRecordUnmarshalOpts.body.nth i
theorem truo_body : Gen.IpfixIR.tplRecordUnmarshalOpts.body =
    blk [truo 0, truo 1, truo 2, truo 3, truo 4, truo 5, truo 6, truo 7, truo 8, truo 9, truo 10] := rfl
theorem truo7_shape : truo 7 = .loop (truo 7).loopCond (truo 7).loopBody (truo 7).loopPost := rfl
theorem truo9_shape : truo 9 = .loop (truo 9).loopCond (truo 9).loopBody (truo 9).loopPost := rfl

section
variable (addr : Bytes) (fuel : Nat) (c : Cache)

abbrev truoLink : Linkage :=
  [("tplHeaderUnmarshalOpts", IpfixProg.tplHeaderUnmarshalOpts addr fuel), ("fieldSpecUnmarshal", IpfixProg.fieldSpecUnmarshal addr fuel)]

/-- one iteration of the scope loop of `unmarshalOpts`: the specifier read is appended to `scope` -/
def truo7BodyOut (res : Except Err Spec × Rd) (tid cnt scnt : Nat) (fields acc : List Spec) (th e3 x6 x7 : V) (i : Nat) (out : Res) : Prop :=
  match res with
  | (.ok s, r') => out = some (.norm, ⟨r', c⟩, [.tpl ⟨tid, cnt, scnt, acc ++ [s], fields⟩, th, .spec s, e3, .int i, .nil, x6, x7])
  | (.error e, r') => ErrOut c e r' out

theorem truo7_body (r : Rd) (tid cnt scnt : Nat) (fields acc : List Spec) (th e3 e5 x6 x7 : V) (tf : Spec) (i : Nat) :
    truo7BodyOut c (Ipfix.readSpec r) tid cnt scnt fields acc th e3 x6 x7 i
      (exec addr (truoLink addr fuel) fuel (truo 7).loopBody ⟨r, c⟩ [.tpl ⟨tid, cnt, scnt, acc, fields⟩, th, .spec tf, e3, .int i, e5, x6, x7]) := by
  have hs := fieldSpecUnmarshal_sem addr fuel r c tf
  rcases hrs : Ipfix.readSpec r with ⟨e | s, r'⟩
  · simp only [hrs, SpecOut] at hs
    obtain ⟨s', hs⟩ := hs
    refine ⟨⟨tid, cnt, scnt, acc, fields⟩, [th, .spec s', e3, .int i, .err ⟨false, e⟩, x6, x7], ?_⟩
    ir_simp [truo7BodyOut, truo, Stmt.nth, Stmt.items, Stmt.loopBody, Gen.IpfixIR.tplRecordUnmarshalOpts, hs]
  · simp only [hrs, SpecOut] at hs
    ir_simp [truo7BodyOut, truo, Stmt.nth, Stmt.items, Stmt.loopBody, Gen.IpfixIR.tplRecordUnmarshalOpts, hs]

theorem truo7_cond (st : St) (t th tf e3 e5 x6 x7 : V) (i : Nat) :
    eval addr st [t, th, tf, e3, .int i, e5, x6, x7] (truo 7).loopCond = some (.bool (decide (i > 0))) := by
  ir_simp [truo, Stmt.nth, Stmt.items, Stmt.loopCond, Gen.IpfixIR.tplRecordUnmarshalOpts]

theorem truo7_post (st : St) (t th tf e3 e5 x6 x7 : V) (i : Nat) (hi : i + 1 < 65536) :
    exec addr (truoLink addr fuel) fuel (truo 7).loopPost st [t, th, tf, e3, .int (i + 1), e5, x6, x7] =
      some (.norm, st, [t, th, tf, e3, .int i, e5, x6, x7]) := by
  ir_simp [truo, Stmt.nth, Stmt.items, Stmt.loopPost, Gen.IpfixIR.tplRecordUnmarshalOpts, subAt_u16_pred i hi]

/-- the scope loop of `unmarshalOpts` against `Ipfix.readSpecs` -/
def truo7LoopOut (res : Except Err (List Spec) × Rd) (tid cnt scnt : Nat) (fields : List Spec) (th e3 x6 x7 : V) (out : Res) : Prop :=
  match res with
  | (.ok fs, r') => ∃ tf' ej', out = some (.norm, ⟨r', c⟩, [.tpl ⟨tid, cnt, scnt, fs, fields⟩, th, .spec tf', e3, .int 0, ej', x6, x7])
  | (.error e, r') => ErrOut c e r' out

theorem truo7_loop (tid cnt scnt : Nat) (fields : List Spec) (th e3 x6 x7 : V) :
    ∀ (i k : Nat) (r : Rd) (acc : List Spec) (tf : Spec) (e5 : V), i < 65536 → r.rem.length < k →
    truo7LoopOut c (Ipfix.readSpecs i r acc) tid cnt scnt fields th e3 x6 x7
      (loopF (fun st env => eval addr st env (truo 7).loopCond) (exec addr (truoLink addr fuel) fuel (truo 7).loopBody)
        (exec addr (truoLink addr fuel) fuel (truo 7).loopPost) k ⟨r, c⟩ [.tpl ⟨tid, cnt, scnt, acc, fields⟩, th, .spec tf, e3, .int i, e5, x6, x7]) := by
  intro i
  induction i with
  | zero =>
    intro k r acc tf e5 _ hk
    obtain ⟨k, rfl⟩ : ∃ k', k = k' + 1 := ⟨k - 1, by omega⟩
    simp only [Ipfix.readSpecs, truo7LoopOut, loopF, truo7_cond, Nat.lt_irrefl, gt_iff_lt, decide_false]
    exact ⟨tf, e5, rfl⟩
  | succ i ih =>
    intro k r acc tf e5 hi hk
    obtain ⟨k, rfl⟩ : ∃ k', k = k' + 1 := ⟨k - 1, by omega⟩
    have hb := truo7_body addr fuel c r tid cnt scnt fields acc th e3 e5 x6 x7 tf (i + 1)
    simp only [Ipfix.readSpecs, loopF, truo7_cond, gt_iff_lt, Nat.zero_lt_succ, decide_true]
    rcases hrs : Ipfix.readSpec r with ⟨e | s, r'⟩
    · simp only [hrs, truo7BodyOut] at hb
      obtain ⟨t', rest, hb⟩ := hb
      simp only [hb, truo7LoopOut]
      exact ⟨t', rest, rfl⟩
    · simp only [hrs, truo7BodyOut] at hb
      simp only [hb, truo7_post addr fuel _ _ _ _ _ _ _ _ i hi]
      exact ih k r' (acc ++ [s]) s .nil (by omega) (by have := readSpec_ok_len hrs; omega)

/-- one iteration of the field loop of `unmarshalOpts`: the specifier read is appended to `fields` -/
def truo9BodyOut (res : Except Err Spec × Rd) (tid cnt scnt : Nat) (scope acc : List Spec) (th e3 x4 x5 : V) (i : Nat) (out : Res) : Prop :=
  match res with
  | (.ok s, r') => out = some (.norm, ⟨r', c⟩, [.tpl ⟨tid, cnt, scnt, scope, acc ++ [s]⟩, th, .spec s, e3, x4, x5, .int i, .nil])
  | (.error e, r') => ErrOut c e r' out

theorem truo9_body (r : Rd) (tid cnt scnt : Nat) (scope acc : List Spec) (th e3 e7 x4 x5 : V) (tf : Spec) (i : Nat) :
    truo9BodyOut c (Ipfix.readSpec r) tid cnt scnt scope acc th e3 x4 x5 i
      (exec addr (truoLink addr fuel) fuel (truo 9).loopBody ⟨r, c⟩ [.tpl ⟨tid, cnt, scnt, scope, acc⟩, th, .spec tf, e3, x4, x5, .int i, e7]) := by
  have hs := fieldSpecUnmarshal_sem addr fuel r c tf
  rcases hrs : Ipfix.readSpec r with ⟨e | s, r'⟩
  · simp only [hrs, SpecOut] at hs
    obtain ⟨s', hs⟩ := hs
    refine ⟨⟨tid, cnt, scnt, scope, acc⟩, [th, .spec s', e3, x4, x5, .int i, .err ⟨false, e⟩], ?_⟩
    ir_simp [truo9BodyOut, truo, Stmt.nth, Stmt.items, Stmt.loopBody, Gen.IpfixIR.tplRecordUnmarshalOpts, hs]
  · simp only [hrs, SpecOut] at hs
    ir_simp [truo9BodyOut, truo, Stmt.nth, Stmt.items, Stmt.loopBody, Gen.IpfixIR.tplRecordUnmarshalOpts, hs]

theorem truo9_cond (st : St) (t th tf e3 e7 x4 x5 : V) (i : Nat) :
    eval addr st [t, th, tf, e3, x4, x5, .int i, e7] (truo 9).loopCond = some (.bool (decide (i > 0))) := by
  ir_simp [truo, Stmt.nth, Stmt.items, Stmt.loopCond, Gen.IpfixIR.tplRecordUnmarshalOpts]

theorem truo9_post (st : St) (t th tf e3 e7 x4 x5 : V) (i : Nat) (hi : i + 1 < 65536) :
    exec addr (truoLink addr fuel) fuel (truo 9).loopPost st [t, th, tf, e3, x4, x5, .int (i + 1), e7] =
      some (.norm, st, [t, th, tf, e3, x4, x5, .int i, e7]) := by
  ir_simp [truo, Stmt.nth, Stmt.items, Stmt.loopPost, Gen.IpfixIR.tplRecordUnmarshalOpts, subAt_u16_pred i hi]

/-- the field loop of `unmarshalOpts` against `Ipfix.readSpecs` -/
def truo9LoopOut (res : Except Err (List Spec) × Rd) (tid cnt scnt : Nat) (scope : List Spec) (th e3 x4 x5 : V) (out : Res) : Prop :=
  match res with
  | (.ok fs, r') => ∃ tf' ej', out = some (.norm, ⟨r', c⟩, [.tpl ⟨tid, cnt, scnt, scope, fs⟩, th, .spec tf', e3, x4, x5, .int 0, ej'])
  | (.error e, r') => ErrOut c e r' out

theorem truo9_loop (tid cnt scnt : Nat) (scope : List Spec) (th e3 x4 x5 : V) :
    ∀ (i k : Nat) (r : Rd) (acc : List Spec) (tf : Spec) (e7 : V), i < 65536 → r.rem.length < k →
    truo9LoopOut c (Ipfix.readSpecs i r acc) tid cnt scnt scope th e3 x4 x5
      (loopF (fun st env => eval addr st env (truo 9).loopCond) (exec addr (truoLink addr fuel) fuel (truo 9).loopBody)
        (exec addr (truoLink addr fuel) fuel (truo 9).loopPost) k ⟨r, c⟩ [.tpl ⟨tid, cnt, scnt, scope, acc⟩, th, .spec tf, e3, x4, x5, .int i, e7]) := by
  intro i
  induction i with
  | zero =>
    intro k r acc tf e7 _ hk
    obtain ⟨k, rfl⟩ : ∃ k', k = k' + 1 := ⟨k - 1, by omega⟩
    simp only [Ipfix.readSpecs, truo9LoopOut, loopF, truo9_cond, Nat.lt_irrefl, gt_iff_lt, decide_false]
    exact ⟨tf, e7, rfl⟩
  | succ i ih =>
    intro k r acc tf e7 hi hk
    obtain ⟨k, rfl⟩ : ∃ k', k = k' + 1 := ⟨k - 1, by omega⟩
    have hb := truo9_body addr fuel c r tid cnt scnt scope acc th e3 e7 x4 x5 tf (i + 1)
    simp only [Ipfix.readSpecs, loopF, truo9_cond, gt_iff_lt, Nat.zero_lt_succ, decide_true]
    rcases hrs : Ipfix.readSpec r with ⟨e | s, r'⟩
    · simp only [hrs, truo9BodyOut] at hb
      obtain ⟨t', rest, hb⟩ := hb
      simp only [hb, truo9LoopOut]
      exact ⟨t', rest, rfl⟩
    · simp only [hrs, truo9BodyOut] at hb
      simp only [hb, truo9_post addr fuel _ _ _ _ _ _ _ _ i hi]
      exact ih k r' (acc ++ [s]) s .nil (by omega) (by have := readSpec_ok_len hrs; omega)
end
theorem subAt_u16_lt (a b : Nat) (hb : b < 65536) : subAt .u16 a b = some ((a + 65536 - b) % 65536) := by
  simp only [subAt, Nat.mod_eq_of_lt hb]

theorem tplRecordUnmarshalOpts_sem (addr : Bytes) (fuel : Nat) (r : Rd) (c : Cache) (hfuel : r.rem.length < fuel) :
    TplOut (Ipfix.parseOptTpl r) c (IpfixProg.tplRecordUnmarshalOpts addr fuel [.tpl Ipfix.emptyTpl] ⟨r, c⟩) := by
  unfold IpfixProg.tplRecordUnmarshalOpts Func.sem
  have henv : ([V.tpl Ipfix.emptyTpl] ++ List.replicate (Gen.IpfixIR.tplRecordUnmarshalOpts.nslots - [V.tpl Ipfix.emptyTpl].length) V.unset) =
      [.tpl ⟨0, 0, 0, [], []⟩, .unset, .unset, .unset, .unset, .unset, .unset, .unset] := rfl
  rw [henv, truo_body]
  have e0 : ∀ (st : St) x0 x1 x2 x3 x4 x5 x6 x7, exec addr (truoLink addr fuel) fuel (truo 0) st [x0, x1, x2, x3, x4, x5, x6, x7] =
      some (.norm, st, [x0, .thdr 0 0 0, x2, x3, x4, x5, x6, x7]) := by
    intros; ir_simp [truo, Stmt.nth, Stmt.items, Gen.IpfixIR.tplRecordUnmarshalOpts]
  have e1 : ∀ (st : St) x0 x1 x2 x3 x4 x5 x6 x7, exec addr (truoLink addr fuel) fuel (truo 1) st [x0, x1, x2, x3, x4, x5, x6, x7] =
      some (.norm, st, [x0, x1, .spec ⟨0, 0, 0⟩, x3, x4, x5, x6, x7]) := by
    intros; ir_simp [truo, Stmt.nth, Stmt.items, Gen.IpfixIR.tplRecordUnmarshalOpts]
  have e2 : ∀ x0 x2 x3 x4 x5 x6 x7, exec addr (truoLink addr fuel) fuel (truo 2) ⟨r, c⟩ [x0, .thdr 0 0 0, x2, x3, x4, x5, x6, x7] =
      match r.rU16 with
      | none => some (.ret [errReader], ⟨r, c⟩, [x0, .thdr 0 0 0, x2, errReader, x4, x5, x6, x7])
      | some (tid, r1) =>
        match r1.rU16 with
        | none => some (.ret [errReader], ⟨r1, c⟩, [x0, .thdr tid 0 0, x2, errReader, x4, x5, x6, x7])
        | some (n, r2) =>
          match r2.rU16 with
          | none => some (.ret [errReader], ⟨r2, c⟩, [x0, .thdr tid n 0, x2, errReader, x4, x5, x6, x7])
          | some (sc, r3) => some (.norm, ⟨r3, c⟩, [x0, .thdr tid n sc, x2, .nil, x4, x5, x6, x7]) := by
    intros
    have hh := tplHeaderUnmarshalOpts_sem addr fuel r c 0 0 0
    rcases h1 : r.rU16 with _ | ⟨tid, r1⟩
    · simp only [h1] at hh
      ir_simp [truo, Stmt.nth, Stmt.items, Gen.IpfixIR.tplRecordUnmarshalOpts, hh]
    · simp only []
      rcases h2 : r1.rU16 with _ | ⟨n, r2⟩
      · simp only [h1, h2] at hh
        ir_simp [truo, Stmt.nth, Stmt.items, Gen.IpfixIR.tplRecordUnmarshalOpts, hh]
      · simp only []
        rcases h3 : r2.rU16 with _ | ⟨sc, r3⟩ <;> simp only [h1, h2, h3] at hh <;>
          ir_simp [truo, Stmt.nth, Stmt.items, Gen.IpfixIR.tplRecordUnmarshalOpts, hh]
  have e3 : ∀ (st : St) (t : Template) tid n sc x2 x3 x4 x5 x6 x7, exec addr (truoLink addr fuel) fuel (truo 3) st [.tpl t, .thdr tid n sc, x2, x3, x4, x5, x6, x7] =
      some (.norm, st, [.tpl { t with tid := tid }, .thdr tid n sc, x2, x3, x4, x5, x6, x7]) := by
    intros; ir_simp [truo, Stmt.nth, Stmt.items, Gen.IpfixIR.tplRecordUnmarshalOpts]
  have e4 : ∀ (st : St) (t : Template) tid n sc x2 x3 x4 x5 x6 x7, exec addr (truoLink addr fuel) fuel (truo 4) st [.tpl t, .thdr tid n sc, x2, x3, x4, x5, x6, x7] =
      some (.norm, st, [.tpl { t with cnt := n }, .thdr tid n sc, x2, x3, x4, x5, x6, x7]) := by
    intros; ir_simp [truo, Stmt.nth, Stmt.items, Gen.IpfixIR.tplRecordUnmarshalOpts]
  have e5 : ∀ (st : St) (t : Template) tid n sc x2 x3 x4 x5 x6 x7, exec addr (truoLink addr fuel) fuel (truo 5) st [.tpl t, .thdr tid n sc, x2, x3, x4, x5, x6, x7] =
      some (.norm, st, [.tpl { t with scnt := sc }, .thdr tid n sc, x2, x3, x4, x5, x6, x7]) := by
    intros; ir_simp [truo, Stmt.nth, Stmt.items, Gen.IpfixIR.tplRecordUnmarshalOpts]
  have e6 : ∀ (st : St) x0 tid n sc x2 x3 x4 x5 x6 x7, exec addr (truoLink addr fuel) fuel (truo 6) st [x0, .thdr tid n sc, x2, x3, x4, x5, x6, x7] =
      some (.norm, st, [x0, .thdr tid n sc, x2, x3, .int sc, x5, x6, x7]) := by
    intros; ir_simp [truo, Stmt.nth, Stmt.items, Gen.IpfixIR.tplRecordUnmarshalOpts]
  have e8 : ∀ (st : St) x0 tid n sc x2 x3 x4 x5 x6 x7, sc < 65536 → exec addr (truoLink addr fuel) fuel (truo 8) st [x0, .thdr tid n sc, x2, x3, x4, x5, x6, x7] =
      some (.norm, st, [x0, .thdr tid n sc, x2, x3, x4, x5, .int ((n + 65536 - sc) % 65536), x7]) := by
    intro st x0 tid n sc x2 x3 x4 x5 x6 x7 hsc
    ir_simp [truo, Stmt.nth, Stmt.items, Gen.IpfixIR.tplRecordUnmarshalOpts, subAt_u16_lt n sc hsc]
  have e10 : ∀ (st : St) env, exec addr (truoLink addr fuel) fuel (truo 10) st env = some (.ret [.nil], st, env) := by
    intros; ir_simp [truo, Stmt.nth, Stmt.items, Gen.IpfixIR.tplRecordUnmarshalOpts]
  simp only [blk, exec, e0, e1, e2]
  unfold Ipfix.parseOptTpl TplOut
  rcases h1 : r.rU16 with _ | ⟨tid, r1⟩
  · exact ⟨⟨0, 0, 0, [], []⟩, by simp [Gen.IpfixIR.tplRecordUnmarshalOpts, readSlots, refSlots, List.filter, ParamKind.hasSlot, errReader]⟩
  · simp only []
    rcases h2 : r1.rU16 with _ | ⟨n, r2⟩
    · exact ⟨⟨0, 0, 0, [], []⟩, by simp [Gen.IpfixIR.tplRecordUnmarshalOpts, readSlots, refSlots, List.filter, ParamKind.hasSlot, errReader]⟩
    · simp only []
      rcases h3 : r2.rU16 with _ | ⟨sc, r3⟩
      · exact ⟨⟨0, 0, 0, [], []⟩, by simp [Gen.IpfixIR.tplRecordUnmarshalOpts, readSlots, refSlots, List.filter, ParamKind.hasSlot, errReader]⟩
      · simp only [e3, e4, e5, e6]
        rw [truo7_shape]
        simp only [exec]
        have hr3 : r3.rem.length < fuel := by
          have a1 := (adv_rU16 h1).1; have a2 := (adv_rU16 h2).1; have a3 := (adv_rU16 h3).1
          have := a1.1; have := a1.2; have := a2.1; have := a2.2; have := a3.1; have := a3.2; omega
        have hl := truo7_loop addr fuel c tid n sc [] (.thdr tid n sc) .nil .unset .unset sc fuel r3 [] ⟨0, 0, 0⟩ .unset (rU16_lt h3) hr3
        rcases hrs : Ipfix.readSpecs sc r3 [] with ⟨e | scs, r4⟩
        · simp only [hrs, truo7LoopOut] at hl
          obtain ⟨t', rest, hl⟩ := hl
          exact ⟨t', by simp [hl, Gen.IpfixIR.tplRecordUnmarshalOpts, readSlots, refSlots, List.filter, ParamKind.hasSlot]⟩
        · simp only [hrs, truo7LoopOut] at hl
          obtain ⟨tf', e5', hl⟩ := hl
          simp only [hl, e8 _ _ _ _ _ _ _ _ _ _ _ (rU16_lt h3)]
          rw [truo9_shape]
          simp only [exec]
          have hr4 : r4.rem.length < fuel := by
            obtain ⟨ha, hb⟩ := (Ipfix.readSpecs_adv sc r3 [] _ _ hrs).1
            omega
          have hl2 := truo9_loop addr fuel c tid n sc scs (.thdr tid n sc) .nil (.int 0) e5' ((n + 65536 - sc) % 65536) fuel r4 [] tf' .unset
            (Nat.mod_lt _ (by omega)) hr4
          rcases hrs2 : Ipfix.readSpecs ((n + 65536 - sc) % 65536) r4 [] with ⟨e | fs, r5⟩
          · simp only [hrs2, truo9LoopOut] at hl2
            obtain ⟨t', rest, hl2⟩ := hl2
            exact ⟨t', by simp [hl2, Gen.IpfixIR.tplRecordUnmarshalOpts, readSlots, refSlots, List.filter, ParamKind.hasSlot]⟩
          · simp only [hrs2, truo9LoopOut] at hl2
            obtain ⟨tf'', e7', hl2⟩ := hl2
            simp [hl2, e10, Gen.IpfixIR.tplRecordUnmarshalOpts, readSlots, refSlots, List.filter, ParamKind.hasSlot]

end Vflow.IpfixIR
