import Vflow.Model.SaramaLoop
/-! lemmas about `Producer.runK` for a loop that retries until accepted (C14, F20) -/
namespace Vflow
namespace Producer

theorem inputArms_cons_input (sc : List Arm) : inputArms (.input :: sc) = inputArms sc + 1 := by
  simp [inputArms]

theorem inputArms_cons_error (sc : List Arm) : inputArms (.error :: sc) = inputArms sc := by
  simp [inputArms]

theorem errorArms_cons_input (sc : List Arm) : errorArms (.input :: sc) = errorArms sc := by
  simp [errorArms]

theorem errorArms_cons_error (sc : List Arm) : errorArms (.error :: sc) = errorArms sc + 1 := by
  simp [errorArms]

/-- everything about a run of a loop that retries until accepted, for every script and every message
    list: what was offered, the counters, the number of selects executed -/
theorem runK_retrying {α : Type} (lp : KLoop) (h : lp.retriesUntilAccepted) :
    ∀ (sc : List Arm) (ms : List α),
      (runK lp sc ms).offered = ms.take (inputArms sc) ∧
      (runK lp sc ms).stuck = false ∧
      (runK lp sc ms).steps ≤ sc.length ∧
      (runK lp sc ms).ec = errorArms (sc.take (runK lp sc ms).steps) ∧
      (runK lp sc ms).logged = errorArms (sc.take (runK lp sc ms).steps) ∧
      (inputArms (sc.take (runK lp sc ms).steps) = min ms.length (inputArms sc)) := by
  obtain ⟨⟨bi, hi, hi1, hi2⟩, ⟨be, he, he1, he2⟩⟩ := h
  intro sc
  induction sc with
  | nil => intro ms; simp [runK, inputArms, errorArms]
  | cons a sc ih =>
    intro ms
    cases ms with
    | nil => simp [runK, inputArms, errorArms]
    | cons m ms =>
      cases a with
      | input =>
        obtain ⟨h1, h2, h3, h4, h5, h6⟩ := ih ms
        simp only [runK, hi, hi1, hi2, if_true, inputArms_cons_input, List.take_succ_cons,
          List.singleton_append, List.length_cons, errorArms_cons_input, Nat.zero_add]
        refine ⟨by rw [h1], h2, by omega, h4, h5, ?_⟩
        rw [h6]; omega
      | error =>
        obtain ⟨h1, h2, h3, h4, h5, h6⟩ := ih (m :: ms)
        simp only [runK, he, he1, he2, inputArms_cons_error, List.take_succ_cons,
          List.length_cons, errorArms_cons_error]
        refine ⟨by simpa using h1, h2, by omega, by rw [h4]; omega, by rw [h5]; omega, ?_⟩
        simpa using h6

end Producer
end Vflow
