import Vflow.Model.Ipfix
/-!
# Unfolding equations for `Ipfix.decFields`

Lean's automatically generated equation lemmas for `decFields` cannot be produced (their generation
tries to evaluate the 400-row information-model table behind `lookupElem`), so the two defining
equations are stated here and proved by `rfl` with `lookupElem` kept folded.
-/
namespace Vflow.Ipfix
open Vflow

attribute [local irreducible] Vflow.lookupElem

theorem decFields_nil (r : Rd) (acc : Record) : decFields [] r acc = (.ok acc, r) := rfl

theorem decFields_cons (f : Spec) (fs : List Spec) (r : Rd) (acc : Record) :
    decFields (f :: fs) r acc =
      match lookupElem f.ent f.id with
      | none => (.error .unknownElem, r)
      | some (fid, t) =>
        match dataLen r f.len with
        | (.error e, r1) => (.error e, r1)
        | (.ok n, r1) =>
          match r1.readN n with
          | none => (.error .short, r1)
          | some (b, r2) => decFields fs r2 (acc ++ [⟨fid, f.ent, interpret b t⟩]) := rfl

end Vflow.Ipfix
