import Vflow.Proofs.SflowLoop
import Vflow.Proofs.PacketSafe
/-!
# The sFlow decoder: every step returns a value or an error and consumes what it read
-/
namespace Vflow.Sflow
open Vflow Vflow.Packet

theorem rawRead_some {n : Nat} {bs buf r : Bytes} (h : rawRead n bs = some (buf, r)) :
    buf.length = n ∧ r = bs.drop n ∧ 0 < bs.length := by
  unfold rawRead at h
  split at h
  · simp at h
  · simp at h
    obtain ⟨rfl, rfl⟩ := h
    refine ⟨?_, rfl, by omega⟩
    simp; omega

/-- `x` is a value or an error, and on success the remainder is at most `bs` minus `k` octets -/
def Good {α : Type} (x : Res (α × Bytes)) (bs : Bytes) (k : Nat) : Prop :=
  Safe x ∧ ∀ a r, x = .ok (a, r) → r.length + k ≤ bs.length

theorem good_err {α : Type} (e : Err) (bs : Bytes) (k : Nat) : Good (Res.err e : Res (α × Bytes)) bs k :=
  ⟨safe_err e, by intro a r h; simp at h⟩

theorem good_mapFst {α β : Type} (f : α → β) {x : Res (α × Bytes)} {bs : Bytes} {k : Nat} (h : Good x bs k) :
    Good (x.mapFst f) bs k := by
  obtain ⟨hs, hr⟩ := h
  cases x with
  | ok p => obtain ⟨a, r⟩ := p
            exact ⟨safe_ok _, by intro a' r' h; simp [Res.mapFst] at h; obtain ⟨_, rfl⟩ := h; exact hr a r rfl⟩
  | err e => exact good_err e bs k
  | panic => exact absurd rfl hs.1
  | fuel => exact absurd rfl hs.2

theorem good_mono {α : Type} {x : Res (α × Bytes)} {bs bs' : Bytes} {k k' : Nat} (h : Good x bs k)
    (hl : bs.length + k' ≤ bs'.length + k) : Good x bs' k' :=
  ⟨h.1, fun a r hx => by have := h.2 a r hx; omega⟩

theorem readHdr_some {n : Nat} {bs buf r : Bytes} (h : readHdr n bs = some (buf, r)) :
    buf.length = n ∧ r = bs.drop n := by
  unfold readHdr at h
  split at h
  · rename_i h0
    simp at h
    obtain ⟨rfl, rfl⟩ := h
    subst h0
    simp
  · obtain ⟨h1, h2, _⟩ := rawRead_some h
    exact ⟨h1, h2⟩

theorem decodeSampledHeader_good (bs : Bytes) : Good (decodeSampledHeader bs) bs 16 := by
  unfold decodeSampledHeader
  split
  · rename_i proto fl st hl r hrf
    obtain ⟨_, hlen, _⟩ := readFields_some hrf
    split
    · exact good_err _ _ _
    · split
      · exact good_err _ _ _
      · rename_i buf r' hrr
        obtain ⟨hb, hr'⟩ := readHdr_some hrr
        rw [slice?_le (Nat.zero_le _) (by omega)]
        simp only
        have hd := dissect_safe ((buf.drop 0).take (hl - 0)) proto
        have hrem : r'.length + 16 ≤ bs.length := by
          subst hr'
          simp at hlen ⊢
          omega
        cases hx : dissect ((buf.drop 0).take (hl - 0)) proto with
        | ok p =>
          refine ⟨safe_ok _, ?_⟩
          intro a r2 h
          simp at h
          obtain ⟨_, rfl⟩ := h
          exact hrem
        | err e =>
          refine ⟨safe_ok _, ?_⟩
          intro a r2 h
          simp at h
          obtain ⟨_, rfl⟩ := h
          exact hrem
        | panic => exact absurd hx hd.1
        | fuel => exact absurd hx hd.2
  · exact good_err _ _ _

theorem decodeExtSwitch_good (bs : Bytes) : Good (decodeExtSwitch bs) bs 16 := by
  unfold decodeExtSwitch
  split
  · rename_i a b c d r hrf
    obtain ⟨_, hlen, _⟩ := readFields_some hrf
    refine ⟨safe_ok _, ?_⟩
    intro x r' h
    simp at h
    obtain ⟨_, rfl⟩ := h
    simp at hlen; omega
  · exact good_err _ _ _

theorem decodeExtRouter_good (l : Nat) (bs : Bytes) : Good (decodeExtRouter l bs) bs 16 := by
  unfold decodeExtRouter
  split
  · exact good_err _ _ _
  · rename_i hl
    split
    · exact good_err _ _ _
    · rename_i buf r hf
      obtain ⟨h1, h2⟩ := full_some_length hf
      rw [from?_le (by omega)]
      simp only
      split
      · rename_i sm dm r' hrf
        obtain ⟨_, hlen, _⟩ := readFields_some hrf
        refine ⟨safe_ok _, ?_⟩
        intro x r'' h
        simp at h
        obtain ⟨_, rfl⟩ := h
        simp at hlen; omega
      · exact good_err _ _ _

theorem flowRecord_good (bs : Bytes) : Good (flowRecord bs) bs 8 := by
  unfold flowRecord
  split
  · exact good_err _ _ _
  · rename_i fmt r1 h1
    split
    · exact good_err _ _ _
    · rename_i len r2 h2
      have l1 := u32_some_length h1
      have l2 := u32_some_length h2
      split
      · exact good_mono (good_mapFst _ (decodeSampledHeader_good r2)) (by omega)
      · split
        · exact good_mono (good_mapFst _ (decodeExtSwitch_good r2)) (by omega)
        · have skip : Good (Res.ok ((none : Option FlowRec), r2.drop len)) bs 8 := by
            refine ⟨safe_ok _, ?_⟩
            intro a r h
            simp at h
            obtain ⟨_, rfl⟩ := h
            simp; omega
          split
          · split
            · exact skip
            · exact good_mono (good_mapFst _ (decodeExtRouter_good len r2)) (by omega)
          · exact skip

theorem flowRecord_progress : Progress flowRecord := fun bs a r h => (flowRecord_good bs).2 a r h
theorem flowRecord_safe (bs : Bytes) : Safe (flowRecord bs) := (flowRecord_good bs).1

theorem counterRecord_good (bs : Bytes) : Good (counterRecord bs) bs 8 := by
  unfold counterRecord
  split
  · exact good_err _ _ _
  · rename_i fmt r1 h1
    split
    · exact good_err _ _ _
    · rename_i len r2 h2
      have l1 := u32_some_length h1
      have l2 := u32_some_length h2
      split
      · refine ⟨safe_ok _, ?_⟩
        intro a r h
        simp at h
        obtain ⟨_, rfl⟩ := h
        simp; omega
      · split
        · exact good_err _ _ _
        · rename_i vs r3 hrf
          obtain ⟨_, hlen, _⟩ := readFields_some hrf
          refine ⟨safe_ok _, ?_⟩
          intro a r h
          simp at h
          obtain ⟨_, rfl⟩ := h
          omega

theorem counterRecord_progress : Progress counterRecord := fun bs a r h => (counterRecord_good bs).2 a r h
theorem counterRecord_safe (bs : Bytes) : Safe (counterRecord bs) := (counterRecord_good bs).1

/-- a loop of good steps, started with more fuel than octets, is good -/
theorem loopN_good {α : Type} {step : Bytes → Res (α × Bytes)} (hg : ∀ bs, Good (step bs) bs 8)
    (fuel n : Nat) (bs : Bytes) (hf : bs.length < fuel) :
    Safe (loopN step fuel n bs) ∧
      ∀ as r, loopN step fuel n bs = .ok (as, r) → as.length = n ∧ r.length + 8 * n ≤ bs.length :=
  ⟨⟨loopN_ne_panic (fun b => (hg b).1.1) fuel n bs,
    loopN_ne_fuel (fun b a r h => (hg b).2 a r h) (fun b => (hg b).1.2) fuel n bs hf⟩,
   fun as r h => loopN_ok (fun b a r h => (hg b).2 a r h) fuel n bs as r h⟩

theorem decodeFlowSample_good (bs : Bytes) : Good (decodeFlowSample bs) bs 32 := by
  unfold decodeFlowSample
  split
  · rename_i seq sid idx rate pool drops inp out n r1 h1
    obtain ⟨_, hl1, _⟩ := readFields_some h1
    obtain ⟨hs, hk⟩ := loopN_good flowRecord_good (r1.length + 1) n r1 (by omega)
    cases hx : loopN flowRecord (r1.length + 1) n r1 with
    | ok p =>
      obtain ⟨items, r2⟩ := p
      refine ⟨safe_ok _, ?_⟩
      intro a r h
      simp at h
      obtain ⟨_, rfl⟩ := h
      have := (hk items r2 hx).2
      simp at hl1
      omega
    | err e => exact good_err _ _ _
    | panic => exact absurd hx hs.1
    | fuel => exact absurd hx hs.2
  · exact good_err _ _ _

theorem decodeCounterSample_good (bs : Bytes) : Good (decodeCounterSample bs) bs 12 := by
  unfold decodeCounterSample
  split
  · rename_i seq ty idx n r1 h1
    obtain ⟨_, hl1, _⟩ := readFields_some h1
    obtain ⟨hs, hk⟩ := loopN_good counterRecord_good (r1.length + 1) n r1 (by omega)
    cases hx : loopN counterRecord (r1.length + 1) n r1 with
    | ok p =>
      obtain ⟨items, r2⟩ := p
      refine ⟨safe_ok _, ?_⟩
      intro a r h
      simp at h
      obtain ⟨_, rfl⟩ := h
      have := (hk items r2 hx).2
      simp at hl1
      omega
    | err e => exact good_err _ _ _
    | panic => exact absurd hx hs.1
    | fuel => exact absurd hx hs.2
  · exact good_err _ _ _

theorem sampleInfo_good (bs : Bytes) : Good (sampleInfo bs) bs 8 := by
  unfold sampleInfo
  split
  · exact good_err _ _ _
  · rename_i ty r1 h1
    split
    · exact good_err _ _ _
    · rename_i len r2 h2
      have l1 := u32_some_length h1
      have l2 := u32_some_length h2
      refine ⟨safe_ok _, ?_⟩
      intro a r h
      simp at h
      obtain ⟨_, rfl⟩ := h
      omega

theorem sampleStep_good (f : List Nat) (bs : Bytes) : Good (sampleStep f bs) bs 8 := by
  unfold sampleStep
  obtain ⟨hs, hk⟩ := sampleInfo_good bs
  cases hx : sampleInfo bs with
  | ok p =>
    obtain ⟨⟨ent, fmt, len⟩, r⟩ := p
    have hr := hk _ _ hx
    have skip : Good (Res.ok ((none : Option Sample), r.drop len)) bs 8 := by
      refine ⟨safe_ok _, ?_⟩
      intro a r' h
      simp at h
      obtain ⟨_, rfl⟩ := h
      simp; omega
    simp only
    split
    · exact skip
    · split
      · exact skip
      · split
        · exact good_mono (good_mapFst _ (decodeFlowSample_good r)) (by omega)
        · split
          · exact good_mono (good_mapFst _ (decodeCounterSample_good r)) (by omega)
          · exact skip
  | err e => exact good_err _ _ _
  | panic => exact absurd hx hs.1
  | fuel => exact absurd hx hs.2

theorem decodeHeader_good (bs : Bytes) : Good (decodeHeader bs) bs 28 := by
  unfold decodeHeader
  split
  · exact good_err _ _ _
  · rename_i ver r1 h1
    split
    · exact good_err _ _ _
    · split
      · exact good_err _ _ _
      · rename_i ipv r2 h2
        split
        · exact good_err _ _ _
        · rename_i ip r3 h3
          split
          · rename_i sub seq up n r4 h4
            have l1 := u32_some_length h1
            have l2 := u32_some_length h2
            obtain ⟨_, hr3, _⟩ := rawRead_some h3
            obtain ⟨_, l4, hr4⟩ := readFields_some h4
            refine ⟨safe_ok _, ?_⟩
            intro a r h
            simp at h
            obtain ⟨_, rfl⟩ := h
            subst hr3
            simp at l4
            split at l4 <;> omega
          · exact good_err _ _ _

end Vflow.Sflow
