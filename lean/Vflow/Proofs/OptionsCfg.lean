import Vflow.Model.Options
/-!
# Locating the configuration file (`loadCfg`) against package `flag` (helper lemmas for C17)

* `cfgWord_eq_flagCfgWord`: the test `loadCfg` applies to a word of `os.Args` (two equalities, two prefix
  tests) accepts exactly the words package `flag` reads as the flag `config`, with the same inline value.
* `parseArgs_step`: one step of `FlagSet.Parse`, inverted.
* `cfgAssigns_le_cfgWords`, `findConfig_eq_first_assign`: every assignment package `flag` makes to `config`
  comes from a word that spells the config flag; when there is no other such word, the scan of `loadCfg`
  finds the value of the first assignment.
-/
namespace Vflow.Options
open Vflow

/-- how package `flag` reads one word, restricted to the flag `config`: `some none` = the flag without an
inline value, `some (some v)` = `config=v`, `none` = any other word -/
def flagCfgWord (s : String) : Option (Option String) :=
  match wordOf s with
  | .flag n v => if n = "config" then some v else none
  | _ => none

theorem dropPrefix?_eq_some {p cs v : List Char} : dropPrefix? p cs = some v ↔ cs = p ++ v := by
  induction p generalizing cs with
  | nil => simp [dropPrefix?, eq_comm]
  | cons a p ih =>
    cases cs with
    | nil => simp [dropPrefix?]
    | cons c cs =>
      by_cases h : a = c
      · subst h; simp [dropPrefix?, ih]
      · simp [dropPrefix?, h, Ne.symm h]

theorem dropPrefix?_append (p v : List Char) : dropPrefix? p (p ++ v) = some v :=
  dropPrefix?_eq_some.mpr rfl

/-- the text before the first `=` holds no `=`, and the word is name, `=`, value -/
theorem splitEq_spec (body : List Char) :
    '=' ∉ (splitEq body).1 ∧
    body = (splitEq body).1 ++ (match (splitEq body).2 with | none => [] | some v => '=' :: v) := by
  induction body with
  | nil => simp [splitEq]
  | cons c cs ih =>
    by_cases h : c = '='
    · subst h; simp [splitEq]
    · obtain ⟨h1, h2⟩ := ih
      refine ⟨?_, ?_⟩
      · simp only [splitEq, h, ↓reduceIte, List.mem_cons, not_or]
        exact ⟨fun e => h e.symm, h1⟩
      · simp only [splitEq, h, ↓reduceIte, List.cons_append]
        exact congrArg (c :: ·) h2

theorem splitEq_of_name {n : List Char} (hn : '=' ∉ n) : splitEq n = (n, none) := by
  induction n with
  | nil => rfl
  | cons c cs ih =>
    have hc : c ≠ '=' := fun e => hn (by simp [e])
    have ih' := ih (fun m => hn (List.mem_cons_of_mem _ m))
    simp [splitEq, hc, ih']

theorem splitEq_of_name_eq {n v : List Char} (hn : '=' ∉ n) : splitEq (n ++ '=' :: v) = (n, some v) := by
  induction n with
  | nil => simp [splitEq]
  | cons c cs ih =>
    have hc : c ≠ '=' := fun e => hn (by simp [e])
    have ih' := ih (fun m => hn (List.mem_cons_of_mem _ m))
    simp [splitEq, hc, ih']

theorem wordOfBody_flag {c : Char} {r : List Char} (h1 : c ≠ '-') (h2 : c ≠ '=') :
    wordOfBody (c :: r) = .flag (String.ofList (splitEq (c :: r)).1) ((splitEq (c :: r)).2.map String.ofList) := by
  unfold wordOfBody
  split
  · rename_i heq; simp only [List.cons.injEq] at heq; exact absurd heq.1 h1
  · rename_i heq; simp only [List.cons.injEq] at heq; exact absurd heq.1 h2
  · rfl

theorem wordOfBody_flag_inv {body : List Char} {n : String} {v : Option String}
    (h : wordOfBody body = .flag n v) :
    n = String.ofList (splitEq body).1 ∧ v = (splitEq body).2.map String.ofList := by
  unfold wordOfBody at h
  split at h
  · cases h
  · cases h
  · simp only [Word.flag.injEq] at h
    exact ⟨h.1.symm, h.2.symm⟩

/-- a word with one dash whose body does not begin with `-` or `=` is a flag -/
theorem wordOf_one_dash {s : String} {c : Char} {r : List Char} (hs : s.toList = '-' :: c :: r)
    (h1 : c ≠ '-') (h2 : c ≠ '=') :
    wordOf s = .flag (String.ofList (splitEq (c :: r)).1) ((splitEq (c :: r)).2.map String.ofList) := by
  unfold wordOf
  rw [hs]
  simp only [h1, ↓reduceIte]
  exact wordOfBody_flag h1 h2

/-- a word with two dashes whose body does not begin with `-` or `=` is a flag -/
theorem wordOf_two_dash {s : String} {c : Char} {r : List Char} (hs : s.toList = '-' :: '-' :: c :: r)
    (h1 : c ≠ '-') (h2 : c ≠ '=') :
    wordOf s = .flag (String.ofList (splitEq (c :: r)).1) ((splitEq (c :: r)).2.map String.ofList) := by
  unfold wordOf
  rw [hs]
  simp only [↓reduceIte, List.isEmpty_cons, Bool.false_eq_true]
  exact wordOfBody_flag h1 h2

/-- a flag word is one or two dashes followed by `name` or `name=value` -/
theorem wordOf_flag_inv {s : String} {n : String} {v : Option String} (h : wordOf s = .flag n v) :
    ∃ body : List Char, (s.toList = '-' :: body ∨ s.toList = '-' :: '-' :: body) ∧
      n = String.ofList (splitEq body).1 ∧ v = (splitEq body).2.map String.ofList := by
  unfold wordOf at h
  split at h
  · rename_i c1 more hs
    by_cases hc : c1 = '-'
    · simp only [hc, ↓reduceIte] at h
      by_cases hm : more.isEmpty = true
      · simp [hm] at h
      · simp only [hm, Bool.false_eq_true, ↓reduceIte] at h
        exact ⟨more, Or.inr (by rw [hs, hc]), wordOfBody_flag_inv h⟩
    · simp only [hc, ↓reduceIte] at h
      exact ⟨c1 :: more, Or.inl hs, wordOfBody_flag_inv h⟩
  · cases h

/-- the characters of the flag name -/
def cfgName : List Char := ['c', 'o', 'n', 'f', 'i', 'g']

theorem cfgName_noEq : '=' ∉ cfgName := by decide

/-- package `flag` reads a word as the flag `config` only if it is one or two dashes, `config`, and
nothing more or `=value` -/
theorem flagCfgWord_inv {s : String} {x : Option String} (h : flagCfgWord s = some x) :
    ∃ body : List Char, (s.toList = '-' :: body ∨ s.toList = '-' :: '-' :: body) ∧
      ((x = none ∧ body = cfgName) ∨ (∃ v, x = some (String.ofList v) ∧ body = cfgName ++ '=' :: v)) := by
  unfold flagCfgWord at h
  split at h
  · rename_i n v hw
    by_cases hn : n = "config"
    · simp only [hn, ↓reduceIte, Option.some.injEq] at h
      obtain ⟨body, hb, h1, h2⟩ := wordOf_flag_inv hw
      refine ⟨body, hb, ?_⟩
      have hname : (splitEq body).1 = cfgName := by
        have : String.ofList (splitEq body).1 = String.ofList cfgName := by rw [← h1, hn]; rfl
        exact String.ofList_inj.mp this
      have hsp := (splitEq_spec body).2
      rw [hname] at hsp
      cases hv : (splitEq body).2 with
      | none =>
        left
        rw [hv] at hsp h2
        simp only [List.append_nil] at hsp
        exact ⟨by rw [← h, h2]; rfl, hsp⟩
      | some val =>
        right
        rw [hv] at hsp h2
        exact ⟨val, by rw [← h, h2]; rfl, hsp⟩
    · simp [hn] at h
  · cases h

theorem flagCfgWord_bare {s : String}
    (h : s.toList = '-' :: cfgName ∨ s.toList = '-' :: '-' :: cfgName) : flagCfgWord s = some none := by
  have hsp : splitEq cfgName = (cfgName, none) := splitEq_of_name cfgName_noEq
  have hw : wordOf s = .flag "config" none := by
    rcases h with h | h
    · have := wordOf_one_dash (s := s) (c := 'c') (r := ['o', 'n', 'f', 'i', 'g']) h (by decide) (by decide)
      rw [this]; show Word.flag (String.ofList (splitEq cfgName).1) ((splitEq cfgName).2.map String.ofList) = _
      rw [hsp]; rfl
    · have := wordOf_two_dash (s := s) (c := 'c') (r := ['o', 'n', 'f', 'i', 'g']) h (by decide) (by decide)
      rw [this]; show Word.flag (String.ofList (splitEq cfgName).1) ((splitEq cfgName).2.map String.ofList) = _
      rw [hsp]; rfl
  simp [flagCfgWord, hw]

theorem flagCfgWord_eq {s : String} {v : List Char}
    (h : s.toList = '-' :: (cfgName ++ '=' :: v) ∨ s.toList = '-' :: '-' :: (cfgName ++ '=' :: v)) :
    flagCfgWord s = some (some (String.ofList v)) := by
  have hsp : splitEq (cfgName ++ '=' :: v) = (cfgName, some v) := splitEq_of_name_eq cfgName_noEq
  have hw : wordOf s = .flag "config" (some (String.ofList v)) := by
    rcases h with h | h
    · have := wordOf_one_dash (s := s) (c := 'c') (r := ['o', 'n', 'f', 'i', 'g'] ++ '=' :: v) h (by decide) (by decide)
      rw [this]
      show Word.flag (String.ofList (splitEq (cfgName ++ '=' :: v)).1)
        ((splitEq (cfgName ++ '=' :: v)).2.map String.ofList) = _
      rw [hsp]; rfl
    · have := wordOf_two_dash (s := s) (c := 'c') (r := ['o', 'n', 'f', 'i', 'g'] ++ '=' :: v) h (by decide) (by decide)
      rw [this]
      show Word.flag (String.ofList (splitEq (cfgName ++ '=' :: v)).1)
        ((splitEq (cfgName ++ '=' :: v)).2.map String.ofList) = _
      rw [hsp]; rfl
  simp [flagCfgWord, hw]

/-- **the spelling test of `loadCfg` is package `flag`'s**: a word of `os.Args` is taken for the config
flag by `loadCfg` exactly when package `flag` reads it as the flag `config`, with the same inline value -/
theorem cfgWord_eq_flagCfgWord (s : String) : cfgWord s = flagCfgWord s := by
  have e1 : "-config".toList = '-' :: cfgName := by rfl
  have e2 : "--config".toList = '-' :: '-' :: cfgName := by rfl
  have e3 : "-config=".toList = '-' :: (cfgName ++ ['=']) := by rfl
  have e4 : "--config=".toList = '-' :: '-' :: (cfgName ++ ['=']) := by rfl
  unfold cfgWord
  simp only []
  split
  · rename_i h
    rw [e1, e2] at h
    exact (flagCfgWord_bare h).symm
  · rename_i hbare
    rw [e1, e2] at hbare
    split
    · rename_i v hv
      rw [dropPrefix?_eq_some, e3] at hv
      exact (flagCfgWord_eq (v := v) (Or.inl (by rw [hv]; simp))).symm
    · rename_i h1
      split
      · rename_i v hv
        rw [dropPrefix?_eq_some, e4] at hv
        exact (flagCfgWord_eq (v := v) (Or.inr (by rw [hv]; simp))).symm
      · rename_i h2
        cases hx : flagCfgWord s with
        | none => rfl
        | some x =>
          exfalso
          obtain ⟨body, hb, hform⟩ := flagCfgWord_inv hx
          rcases hform with ⟨_, hbody⟩ | ⟨v, _, hbody⟩
          · subst hbody; exact hbare hb
          · subst hbody
            rcases hb with hb | hb
            · have : dropPrefix? "-config=".toList s.toList = some v := by
                rw [dropPrefix?_eq_some, e3, hb]; simp
              rw [h1] at this; cases this
            · have : dropPrefix? "--config=".toList s.toList = some v := by
                rw [dropPrefix?_eq_some, e4, hb]; simp
              rw [h2] at this; cases this

/-! ## one step of `FlagSet.Parse` -/

theorem continue_ok {regs : List FlagReg} {fuel : Nat} {rest' : List String} {t : Option String} {val : Val}
    {l : List (Option String × Val)}
    (h : (match parseArgs regs fuel rest' with
          | .ok l => Outcome.ok ((t, val) :: l)
          | o => o) = .ok l) :
    ∃ l', parseArgs regs fuel rest' = .ok l' ∧ l = (t, val) :: l' := by
  split at h
  · rename_i l' hp
    injection h with h
    exact ⟨l', hp, h.symm⟩
  · rename_i hne
    exact absurd h (fun e => hne l e)

/-- a successful parse of a non-empty command line: the first word ended the flags, or it was a registered
flag with a well-formed value (inline, implied `true`, or the next word) and the parse went on behind it -/
theorem parseArgs_step {regs : List FlagReg} {fuel : Nat} {s : String} {rest : List String}
    {l : List (Option String × Val)} (h : parseArgs regs (fuel + 1) (s :: rest) = .ok l) :
    ((wordOf s = .nonflag ∨ wordOf s = .terminator) ∧ l = []) ∨
    ∃ name v? reg val rest' l', wordOf s = .flag name v? ∧ regs.find? (fun r => r.name = name) = some reg ∧
      parseArgs regs fuel rest' = .ok l' ∧ l = (reg.target, val) :: l' ∧
      ((rest' = rest ∧ ((v? = none ∧ reg.kind = .bool ∧ val = .bool true) ∨
                        ∃ v, v? = some v ∧ flagValue reg.kind v = some val)) ∨
       (v? = none ∧ reg.kind ≠ .bool ∧ ∃ v, rest = v :: rest' ∧ flagValue reg.kind v = some val)) := by
  simp only [parseArgs] at h
  split at h
  · injection h with h; exact Or.inl ⟨Or.inl ‹_›, h.symm⟩
  · injection h with h; exact Or.inl ⟨Or.inr ‹_›, h.symm⟩
  · cases h
  · rename_i name v? hw
    right
    split at h
    · split at h <;> cases h
    · rename_i reg hreg
      split at h
      · -- bool flag without a value
        rename_i hk
        obtain ⟨l', hp, hl⟩ := continue_ok h
        exact ⟨name, none, reg, .bool true, rest, l', hw, hreg, hp, hl, Or.inl ⟨rfl, Or.inl ⟨rfl, hk, rfl⟩⟩⟩
      · -- inline value
        rename_i k v
        split at h
        · rename_i val hval
          obtain ⟨l', hp, hl⟩ := continue_ok h
          exact ⟨name, some v, reg, val, rest, l', hw, hreg, hp, hl, Or.inl ⟨rfl, Or.inr ⟨v, rfl, hval⟩⟩⟩
        · cases h
      · -- the value is the next word
        rename_i k hnb
        split at h
        · cases h
        · rename_i v rest'
          split at h
          · rename_i val hval
            obtain ⟨l', hp, hl⟩ := continue_ok h
            refine ⟨name, none, reg, val, rest', l', hw, hreg, hp, hl, Or.inr ⟨rfl, ?_, v, rfl, hval⟩⟩
            intro hk
            exact hnb hk
          · cases h

/-! ## the scan of `loadCfg` against the assignments package `flag` makes to `config` -/

/-- the word spells the config flag (for `loadCfg` and, by `cfgWord_eq_flagCfgWord`, for package `flag`) -/
def isCfgWord (w : String) : Bool := (cfgWord w).isSome

/-- how many words spell the config flag -/
def cfgWords (ws : List String) : Nat := ws.countP isCfgWord

/-- the flag `config` is the local string of `flagSet`, and it is the only flag without a target field -/
structure CfgRegs (regs : List FlagReg) : Prop where
  config : ∀ reg, regs.find? (fun r => r.name = "config") = some reg → reg = configReg
  others : ∀ name reg, regs.find? (fun r => r.name = name) = some reg → name ≠ "config" → reg.target ≠ none

theorem cfgRegs_table (tbl : List Row) : CfgRegs (configReg :: regsOf tbl) := by
  constructor
  · intro reg h
    simp [configReg] at h
    exact h.symm
  · intro name reg h hn
    have hne : ¬ (configReg.name = name) := fun e => hn (by rw [← e]; rfl)
    simp only [List.find?_cons, hne, decide_false] at h
    have hm := List.mem_of_find?_eq_some h
    simp only [regsOf, List.mem_map, List.mem_filter] at hm
    obtain ⟨r, _, hr⟩ := hm
    rw [← hr]; simp

theorem cfgWord_of_flag {s name : String} {v? : Option String} (hw : wordOf s = .flag name v?) :
    cfgWord s = if name = "config" then some v? else none := by
  rw [cfgWord_eq_flagCfgWord, flagCfgWord, hw]

theorem cfgWord_of_nonflag {s : String} (hw : wordOf s = .nonflag ∨ wordOf s = .terminator) : cfgWord s = none := by
  rw [cfgWord_eq_flagCfgWord, flagCfgWord]
  rcases hw with hw | hw <;> rw [hw]

theorem findConfig_cons_none {s : String} {rest : List String} (h : cfgWord s = none) :
    findConfig (s :: rest) = findConfig rest := by
  simp [findConfig, h]

theorem cfgWords_cons (s : String) (rest : List String) :
    cfgWords (s :: rest) = cfgWords rest + (if isCfgWord s then 1 else 0) := by
  simp [cfgWords, List.countP_cons]

theorem cfgWords_cons_none {s : String} {rest : List String} (h : cfgWord s = none) :
    cfgWords (s :: rest) = cfgWords rest := by
  simp [cfgWords_cons, isCfgWord, h]

theorem cfgWords_cons_some {s : String} {rest : List String} {x : Option String} (h : cfgWord s = some x) :
    cfgWords (s :: rest) = cfgWords rest + 1 := by
  simp [cfgWords_cons, isCfgWord, h]

theorem cfgWords_tail_le (s : String) (rest : List String) : cfgWords rest ≤ cfgWords (s :: rest) := by
  rw [cfgWords_cons]; exact Nat.le_add_right _ _

/-- no word spells the config flag: `loadCfg` finds none -/
theorem findConfig_none_of_cfgWords {ws : List String} (h : cfgWords ws = 0) : findConfig ws = none := by
  induction ws with
  | nil => rfl
  | cons w ws ih =>
    cases hw : cfgWord w with
    | none =>
      rw [cfgWords_cons_none hw] at h
      rw [findConfig_cons_none hw]; exact ih h
    | some x =>
      rw [cfgWords_cons_some hw] at h
      exact absurd h (Nat.succ_ne_zero _)

theorem cfgAssigns_cons_target {f : String} {val : Val} {l : List (Option String × Val)} :
    cfgAssigns ((some f, val) :: l) = cfgAssigns l := by
  simp [cfgAssigns]

theorem cfgAssigns_cons_str {v : String} {l : List (Option String × Val)} :
    cfgAssigns ((none, .str v) :: l) = v :: cfgAssigns l := by
  simp [cfgAssigns]

theorem cfgAssigns_cons_le (p : Option String × Val) (l : List (Option String × Val)) :
    (cfgAssigns (p :: l)).length ≤ (cfgAssigns l).length + 1 := by
  simp only [cfgAssigns, List.filterMap_cons]
  split <;> simp

/-- every assignment package `flag` makes to `config` comes from its own word spelling the config flag -/
theorem cfgAssigns_le_cfgWords {regs : List FlagReg} (hregs : CfgRegs regs) :
    ∀ (fuel : Nat) (args : List String) (l : List (Option String × Val)),
      parseArgs regs fuel args = .ok l → (cfgAssigns l).length ≤ cfgWords args := by
  intro fuel
  induction fuel with
  | zero => intro args l h; simp only [parseArgs] at h; injection h with h; subst h; simp [cfgAssigns]
  | succ fuel ih =>
    intro args l h
    cases args with
    | nil => simp only [parseArgs] at h; injection h with h; subst h; simp [cfgAssigns]
    | cons s rest =>
      rcases parseArgs_step h with ⟨_, hl⟩ | ⟨name, v?, reg, val, rest', l', hw, hreg, hp, hl, hshape⟩
      · subst hl; simp [cfgAssigns]
      · have ih' := ih rest' l' hp
        have hrest : cfgWords rest' ≤ cfgWords rest := by
          rcases hshape with ⟨e, _⟩ | ⟨_, _, v, e, _⟩
          · rw [e]; exact Nat.le_refl _
          · rw [e]; exact cfgWords_tail_le _ _
        have hcw := cfgWord_of_flag hw
        by_cases hn : name = "config"
        · simp only [hn, ↓reduceIte] at hcw
          rw [cfgWords_cons_some hcw, hl]
          exact Nat.le_trans (cfgAssigns_cons_le _ _) (Nat.succ_le_succ (Nat.le_trans ih' hrest))
        · simp only [hn, ↓reduceIte] at hcw
          rw [cfgWords_cons_none hcw, hl]
          cases ht : reg.target with
          | none => exact absurd ht (hregs.others name reg hreg hn)
          | some f => rw [cfgAssigns_cons_target]; exact Nat.le_trans ih' hrest

/-- **`loadCfg` finds the first value package `flag` binds to `config`**, provided every word that spells
the config flag is read by package `flag` as the config flag (no such word is `os.Args[0]`, the value of
another flag, or behind the end of the flags): then there are as many such words as assignments. -/
theorem findConfig_eq_first_assign {regs : List FlagReg} (hregs : CfgRegs regs) :
    ∀ (fuel : Nat) (args : List String) (l : List (Option String × Val)),
      parseArgs regs fuel args = .ok l → cfgWords args = (cfgAssigns l).length →
      findConfig args = (cfgAssigns l).head?.map some := by
  intro fuel
  induction fuel with
  | zero =>
    intro args l h hc; simp only [parseArgs] at h; injection h with h; subst h
    simpa [cfgAssigns] using findConfig_none_of_cfgWords (by simpa [cfgAssigns] using hc)
  | succ fuel ih =>
    intro args l h hc
    cases args with
    | nil => simp only [parseArgs] at h; injection h with h; subst h; simp [cfgAssigns, findConfig]
    | cons s rest =>
      rcases parseArgs_step h with ⟨_, hl⟩ | ⟨name, v?, reg, val, rest', l', hw, hreg, hp, hl, hshape⟩
      · subst hl
        simpa [cfgAssigns] using findConfig_none_of_cfgWords (by simpa [cfgAssigns] using hc)
      · have hcw := cfgWord_of_flag hw
        by_cases hn : name = "config"
        · -- the config flag itself
          simp only [hn, ↓reduceIte] at hcw
          have hr : reg = configReg := hregs.config reg (by rw [← hn]; exact hreg)
          subst hr
          rcases hshape with ⟨_, ⟨_, hk, _⟩ | ⟨v, hv, hval⟩⟩ | ⟨hv, _, v, hrest, hval⟩
          · cases hk
          · simp only [configReg, flagValue, Option.some.injEq] at hval
            subst hv; subst hval
            rw [hl]; simp only [configReg, cfgAssigns_cons_str]
            simp [findConfig, hcw]
          · simp only [configReg, flagValue, Option.some.injEq] at hval
            subst hv; subst hval; subst hrest
            rw [hl]; simp only [configReg, cfgAssigns_cons_str]
            simp [findConfig, hcw]
        · -- any other flag
          simp only [hn, ↓reduceIte] at hcw
          rw [findConfig_cons_none hcw]
          rw [cfgWords_cons_none hcw] at hc
          have hassign : cfgAssigns l = cfgAssigns l' := by
            rw [hl]
            cases ht : reg.target with
            | none => exact absurd ht (hregs.others name reg hreg hn)
            | some f => exact cfgAssigns_cons_target
          rw [hassign] at hc ⊢
          rcases hshape with ⟨e, _⟩ | ⟨_, _, v, e, _⟩
          · subst e; exact ih rest' l' hp hc
          · subst e
            have hle := cfgAssigns_le_cfgWords hregs fuel rest' l' hp
            cases hv : cfgWord v with
            | none =>
              rw [cfgWords_cons_none hv] at hc
              rw [findConfig_cons_none hv]; exact ih rest' l' hp hc
            | some x =>
              rw [cfgWords_cons_some hv] at hc
              omega

end Vflow.Options
