import Vflow.Model.IpfixProg
import Vflow.Proofs.RdLemmas
/-!
# Lemmas: the interpreted translation of `ipfix/decoder.go` is the model

The generated functions are concrete constants.  Straight-line code is executed symbolically by `simp` (the macro
`ir_simp` carries the evaluation rules of the interpreter); a loop gets one lemma, by induction on the list it
traverses or on its counter, that relates `loopF` / `rangeF` over the translated body to the model's recursive
function.  The parts of a generated body are named by position (`Stmt.nth`, `Stmt.loopBody`), never copied.
-/
set_option linter.unusedSimpArgs false
namespace Vflow.IpfixIR
open Vflow

/-! ## reader calls in the `Nat`-indexed forms of the model -/

theorem beN_foldl_lt (bs : Bytes) (a : Nat) :
    bs.foldl (fun a x => a * 256 + x.toNat) a < (a + 1) * 256 ^ bs.length := by
  induction bs generalizing a with
  | nil => simp
  | cons x t ih =>
    simp only [List.foldl_cons, List.length_cons, Nat.pow_succ]
    have h1 := ih (a * 256 + x.toNat)
    have hx := x.toNat_lt
    have h2 : (a * 256 + x.toNat + 1) * 256 ^ t.length ≤ ((a + 1) * 256) * 256 ^ t.length :=
      Nat.mul_le_mul_right _ (by omega)
    calc _ < _ := h1
      _ ≤ _ := h2
      _ = _ := by rw [Nat.mul_assoc, Nat.mul_comm 256]

theorem beN_lt (bs : Bytes) : beN bs < 256 ^ bs.length := by
  have := beN_foldl_lt bs 0
  simpa [beN] using this

theorem readN_beN_lt {r r' : Rd} {n : Nat} {b : Bytes} (h : r.readN n = some (b, r')) : beN b < 256 ^ n := by
  obtain ⟨h1, rfl, _⟩ := readN_some h
  have := beN_lt (r.rem.take n)
  rwa [List.length_take, Nat.min_eq_left h1] at this

theorem rU8_lt {r r' : Rd} {v : Nat} (h : r.rU8 = some (v, r')) : v < 256 := by
  simp only [Rd.rU8, Option.map_eq_some_iff] at h
  obtain ⟨⟨b, r1⟩, h1, h2⟩ := h
  simp at h2; obtain ⟨rfl, _⟩ := h2
  simpa using readN_beN_lt h1

theorem rU16_lt {r r' : Rd} {v : Nat} (h : r.rU16 = some (v, r')) : v < 65536 := by
  simp only [Rd.rU16, Option.map_eq_some_iff] at h
  obtain ⟨⟨b, r1⟩, h1, h2⟩ := h
  simp at h2; obtain ⟨rfl, _⟩ := h2
  simpa using readN_beN_lt h1

theorem rU32_lt {r r' : Rd} {v : Nat} (h : r.rU32 = some (v, r')) : v < 4294967296 := by
  simp only [Rd.rU32, Option.map_eq_some_iff] at h
  obtain ⟨⟨b, r1⟩, h1, h2⟩ := h
  simp at h2; obtain ⟨rfl, _⟩ := h2
  simpa using readN_beN_lt h1

theorem step_u8 (r : Rd) : r.step .u8 = match r.rU8 with | some (v, r') => (r', .num v) | none => (r, .fail) := by
  unfold Rd.step Rd.take? Rd.rU8 Rd.readN Rd.adv
  by_cases h : r.rem.length < 1 <;> simp [h]

theorem step_u16 (r : Rd) : r.step .u16 = match r.rU16 with | some (v, r') => (r', .num v) | none => (r, .fail) := by
  unfold Rd.step Rd.take? Rd.rU16 Rd.readN Rd.adv
  by_cases h : r.rem.length < 2 <;> simp [h]

theorem step_u32 (r : Rd) : r.step .u32 = match r.rU32 with | some (v, r') => (r', .num v) | none => (r, .fail) := by
  unfold Rd.step Rd.take? Rd.rU32 Rd.readN Rd.adv
  by_cases h : r.rem.length < 4 <;> simp [h]

theorem step_peekU16 (r : Rd) : r.step .peekU16 = match r.peek16 with | some v => (r, .num v) | none => (r, .fail) := by
  unfold Rd.step Rd.take? Rd.peek16 Rd.readN
  by_cases h : r.rem.length < 2 <;> simp [h]

theorem step_read (r : Rd) (n : Nat) :
    r.step (.read (n : Int)) = match r.readN n with | some (b, r') => (r', .bytes b) | none => (r, .fail) := by
  unfold Rd.step Rd.take? Rd.readN Rd.adv
  have h0 : ¬ ((n : Int) < 0) := by omega
  by_cases h : r.rem.length < n <;> simp [h, h0]

theorem builtin_rdU8 (st : St) : builtin .rdU8 [] st =
    match st.r.rU8 with
    | some (v, r') => some ({ st with r := r' }, [], [.int v, .nil])
    | none => some (st, [], [.int 0, errReader]) := by
  unfold builtin
  rw [step_u8]
  cases st.r.rU8 with
  | none => rfl
  | some p => rfl

theorem builtin_rdU16 (st : St) : builtin .rdU16 [] st =
    match st.r.rU16 with
    | some (v, r') => some ({ st with r := r' }, [], [.int v, .nil])
    | none => some (st, [], [.int 0, errReader]) := by
  unfold builtin
  rw [step_u16]
  cases st.r.rU16 with
  | none => rfl
  | some p => rfl

theorem builtin_rdU32 (st : St) : builtin .rdU32 [] st =
    match st.r.rU32 with
    | some (v, r') => some ({ st with r := r' }, [], [.int v, .nil])
    | none => some (st, [], [.int 0, errReader]) := by
  unfold builtin
  rw [step_u32]
  cases st.r.rU32 with
  | none => rfl
  | some p => rfl

theorem builtin_rdPeekU16 (st : St) : builtin .rdPeekU16 [] st =
    match st.r.peek16 with
    | some v => some (st, [], [.int v, .nil])
    | none => some (st, [], [.int 0, errReader]) := by
  unfold builtin
  rw [step_peekU16]
  cases st.r.peek16 with
  | none => rfl
  | some p => rfl

theorem builtin_rdRead (st : St) (n : Nat) : builtin .rdRead [.int n] st =
    match st.r.readN n with
    | some (b, r') => some ({ st with r := r' }, [], [.bytes b, .nil])
    | none => some (st, [], [.bytes [], errReader]) := by
  show (match st.r.step (.read (n : Int)) with
    | (_, .fail) => some (st, ([] : List V), [V.bytes [], errReader])
    | p => rdResult st p) = _
  rw [step_read]
  cases st.r.readN n with
  | none => rfl
  | some p => rfl

/-! ## field selection -/

section fields
variable (s : Spec) (t : Template) (h : MHdr) (tid cnt scnt id len fid ty : Nat)
@[simp] theorem f_spec_id : fieldOf (.spec s) "ElementID" = some (.int s.id) := by simp [fieldOf]
@[simp] theorem f_spec_len : fieldOf (.spec s) "Length" = some (.int s.len) := by simp [fieldOf]
@[simp] theorem f_spec_ent : fieldOf (.spec s) "EnterpriseNo" = some (.int s.ent) := by simp [fieldOf]
@[simp] theorem f_thdr_tid : fieldOf (.thdr tid cnt scnt) "TemplateID" = some (.int tid) := by simp [fieldOf]
@[simp] theorem f_thdr_cnt : fieldOf (.thdr tid cnt scnt) "FieldCount" = some (.int cnt) := by simp [fieldOf]
@[simp] theorem f_thdr_scnt : fieldOf (.thdr tid cnt scnt) "ScopeFieldCount" = some (.int scnt) := by simp [fieldOf]
@[simp] theorem f_tpl_tid : fieldOf (.tpl t) "TemplateID" = some (.int t.tid) := by simp [fieldOf]
@[simp] theorem f_tpl_cnt : fieldOf (.tpl t) "FieldCount" = some (.int t.cnt) := by simp [fieldOf]
@[simp] theorem f_tpl_scnt : fieldOf (.tpl t) "ScopeFieldCount" = some (.int t.scnt) := by simp [fieldOf]
@[simp] theorem f_tpl_fields : fieldOf (.tpl t) "FieldSpecifiers" = some (.specs t.fields) := by simp [fieldOf]
@[simp] theorem f_tpl_scope : fieldOf (.tpl t) "ScopeFieldSpecifiers" = some (.specs t.scope) := by simp [fieldOf]
@[simp] theorem f_shdr_id : fieldOf (.shdr id len) "SetID" = some (.int id) := by simp [fieldOf]
@[simp] theorem f_shdr_len : fieldOf (.shdr id len) "Length" = some (.int len) := by simp [fieldOf]
@[simp] theorem f_mhdr_ver : fieldOf (.mhdr h) "Version" = some (.int h.ver) := by simp [fieldOf]
@[simp] theorem f_elem_fid : fieldOf (.elem fid ty) "FieldID" = some (.int fid) := by simp [fieldOf]
@[simp] theorem f_elem_ty : fieldOf (.elem fid ty) "Type" = some (.int ty) := by simp [fieldOf]
end fields

/-- the evaluation rules of the interpreter, for `simp` -/
macro "ir_simp" "[" ls:Lean.Parser.Tactic.simpLemma,* "]" : tactic =>
  `(tactic| simp [blk, exec, eval, evalList, evalArgs, zero, wrap, subAt, binInt, veq, lenV, indexV, appendV, elemsV,
      readLHS, writeLHS, writeAll, getPath, setPath, readSlots, refSlots, errReader, List.replicate, List.filter,
      ParamKind.hasSlot, builtin_rdU8, builtin_rdU16, builtin_rdU32, builtin_rdPeekU16, builtin_rdRead, $ls,*])

/-! ## `getDataLength` -/

theorem getDataLength_sem (addr : Bytes) (fuel : Nat) (r : Rd) (c : Cache) (len : Nat) :
    IpfixProg.getDataLength addr fuel [.int len] ⟨r, c⟩ =
      some (⟨(Ipfix.dataLen r len).2, c⟩, [], IpfixProg.lenResult (Ipfix.dataLen r len).1) := by
  unfold IpfixProg.getDataLength Func.sem Ipfix.dataLen
  by_cases h : len = 65535
  · subst h
    rcases h1 : r.rU8 with _ | ⟨v, r1⟩
    · ir_simp [Gen.IpfixIR.getDataLength, h1, IpfixProg.lenResult]
    · by_cases h2 : v = 255
      · subst h2
        rcases h3 : r1.rU16 with _ | ⟨w, r2⟩
        · ir_simp [Gen.IpfixIR.getDataLength, h1, h3, IpfixProg.lenResult]
        · ir_simp [Gen.IpfixIR.getDataLength, h1, h3, IpfixProg.lenResult]
      · have := rU8_lt h1
        ir_simp [Gen.IpfixIR.getDataLength, h1, h2, IpfixProg.lenResult]
        omega
  · ir_simp [Gen.IpfixIR.getDataLength, h, IpfixProg.lenResult]

/-! ## `minRecordLen` -/

/-- the `i`-th statement of `minRecordLen` -/
def mrl (i : Nat) : Stmt := Gen.IpfixIR.minRecordLen.body.nth i

theorem mrl_body : Gen.IpfixIR.minRecordLen.body = blk [mrl 0, mrl 1, mrl 2, mrl 3, mrl 4] := rfl
theorem mrl1_shape : mrl 1 = .range 2 (.field (.var 0) "ScopeFieldSpecifiers") (mrl 1).loopBody := rfl
theorem mrl2_shape : mrl 2 = .range 3 (.field (.var 0) "FieldSpecifiers") (mrl 2).loopBody := rfl

section
variable (addr : Bytes) (fuel : Nat) (st : St) (t : Template)

theorem mrl1_body (s : Spec) (n : Nat) (y : V) :
    exec addr [] fuel (mrl 1).loopBody st [.tpl t, .int n, .spec s, y] =
      some (.norm, st, [.tpl t, .int (n + Ipfix.specMin s), .spec s, y]) := by
  by_cases h : s.len = 65535 <;>
    ir_simp [mrl, Stmt.nth, Stmt.items, Stmt.loopBody, Gen.IpfixIR.minRecordLen, h, Ipfix.specMin]

theorem mrl2_body (s : Spec) (n : Nat) (x : V) :
    exec addr [] fuel (mrl 2).loopBody st [.tpl t, .int n, x, .spec s] =
      some (.norm, st, [.tpl t, .int (n + Ipfix.specMin s), x, .spec s]) := by
  by_cases h : s.len = 65535 <;>
    ir_simp [mrl, Stmt.nth, Stmt.items, Stmt.loopBody, Gen.IpfixIR.minRecordLen, h, Ipfix.specMin]

theorem mrl_range1 (y : V) (l : List Spec) (n : Nat) (x : V) :
    ∃ x', rangeF 2 (exec addr [] fuel (mrl 1).loopBody) (l.map .spec) st [.tpl t, .int n, x, y] =
      some (.norm, st, [.tpl t, .int (n + (l.map Ipfix.specMin).sum), x', y]) := by
  induction l generalizing n x with
  | nil => exact ⟨x, by simp [rangeF]⟩
  | cons s l ih =>
    obtain ⟨x', hx⟩ := ih (n + Ipfix.specMin s) (.spec s)
    refine ⟨x', ?_⟩
    simp only [List.map_cons, rangeF, List.length_cons, List.length_nil, List.set_cons_succ, List.set_cons_zero,
      mrl1_body, List.sum_cons]
    simp only [show (2 < 0 + 1 + 1 + 1 + 1) from by omega, if_true, hx, Nat.add_assoc]

theorem mrl_range2 (x : V) (l : List Spec) (n : Nat) (y : V) :
    ∃ y', rangeF 3 (exec addr [] fuel (mrl 2).loopBody) (l.map .spec) st [.tpl t, .int n, x, y] =
      some (.norm, st, [.tpl t, .int (n + (l.map Ipfix.specMin).sum), x, y']) := by
  induction l generalizing n y with
  | nil => exact ⟨y, by simp [rangeF]⟩
  | cons s l ih =>
    obtain ⟨y', hy⟩ := ih (n + Ipfix.specMin s) (.spec s)
    refine ⟨y', ?_⟩
    simp only [List.map_cons, rangeF, List.length_cons, List.length_nil, List.set_cons_succ, List.set_cons_zero,
      mrl2_body, List.sum_cons]
    simp only [show (3 < 0 + 1 + 1 + 1 + 1) from by omega, if_true, hy, Nat.add_assoc]

end

theorem minRecordLen_sem (addr : Bytes) (fuel : Nat) (st : St) (t : Template) :
    IpfixProg.minRecordLen addr fuel [.tpl t] st = some (st, [.tpl t], [.int (Ipfix.minRecLen t)]) := by
  unfold IpfixProg.minRecordLen Func.sem
  have henv : ([V.tpl t] ++ List.replicate (Gen.IpfixIR.minRecordLen.nslots - [V.tpl t].length) V.unset) =
      [.tpl t, .unset, .unset, .unset] := rfl
  rw [henv, mrl_body]
  obtain ⟨x1, h1⟩ := mrl_range1 addr fuel st t .unset t.scope 0 .unset
  obtain ⟨x2, h2⟩ := mrl_range2 addr fuel st t x1 t.fields (t.scope.map Ipfix.specMin).sum .unset
  rw [Nat.zero_add] at h1
  have e0 : exec addr [] fuel (mrl 0) st [.tpl t, .unset, .unset, .unset] = some (.norm, st, [.tpl t, .int 0, .unset, .unset]) := by
    ir_simp [mrl, Stmt.nth, Stmt.items, Gen.IpfixIR.minRecordLen]
  have e1 : exec addr [] fuel (mrl 1) st [.tpl t, .int 0, .unset, .unset] =
      some (.norm, st, [.tpl t, .int ((t.scope.map Ipfix.specMin).sum), x1, .unset]) := by
    rw [mrl1_shape]; simp only [exec, eval, List.getElem?_cons_zero, Option.bind_some, f_tpl_scope, elemsV, h1]
  have e2 : exec addr [] fuel (mrl 2) st [.tpl t, .int ((t.scope.map Ipfix.specMin).sum), x1, .unset] =
      some (.norm, st, [.tpl t, .int ((t.scope.map Ipfix.specMin).sum + (t.fields.map Ipfix.specMin).sum), x1, x2]) := by
    rw [mrl2_shape]; simp only [exec, eval, List.getElem?_cons_zero, Option.bind_some, f_tpl_fields, elemsV, h2]
  have e3 : ∀ n, exec addr [] fuel (mrl 3) st [.tpl t, .int n, x1, x2] =
      some (.norm, st, [.tpl t, .int (if n < 1 then 1 else n), x1, x2]) := by
    intro n
    by_cases h : n < 1 <;> ir_simp [mrl, Stmt.nth, Stmt.items, Gen.IpfixIR.minRecordLen, h]
  have e4 : ∀ n, exec addr [] fuel (mrl 4) st [.tpl t, .int n, x1, x2] = some (.ret [.int n], st, [.tpl t, .int n, x1, x2]) := by
    intro n
    ir_simp [mrl, Stmt.nth, Stmt.items, Gen.IpfixIR.minRecordLen]
  simp only [blk, exec, e0, e1, e2, e3, e4]
  simp [Gen.IpfixIR.minRecordLen, readSlots, refSlots, Ipfix.minRecLen, List.sum_append, List.filter, ParamKind.hasSlot]

end Vflow.IpfixIR
