import Vflow.Model.IpfixProg
import Vflow.Proofs.RdLemmas
import Vflow.Proofs.EqnsIpfix
/-!
# Lemmas: the interpreted translation of `ipfix/decoder.go` is the model

The generated functions are concrete constants.  Straight-line code is executed symbolically by `simp` (the macro
`ir_simp` carries the evaluation rules of the interpreter); a loop gets one lemma, by induction on the list it
traverses or on its counter, that relates `loopF` / `rangeF` over the translated body to the model's recursive
function.  The parts of a generated body are named by position (`Stmt.nth`, `Stmt.loopBody`), never copied.
-/
set_option linter.unusedSimpArgs false
namespace Vflow.IpfixIR
open Vflow

/-! ## reader calls in the `Nat`-indexed forms of the model -/

theorem beN_foldl_lt (bs : Bytes) (a : Nat) :
    bs.foldl (fun a x => a * 256 + x.toNat) a < (a + 1) * 256 ^ bs.length := by
  induction bs generalizing a with
  | nil => simp
  | cons x t ih =>
    simp only [List.foldl_cons, List.length_cons, Nat.pow_succ]
    have h1 := ih (a * 256 + x.toNat)
    have hx := x.toNat_lt
    have h2 : (a * 256 + x.toNat + 1) * 256 ^ t.length ≤ ((a + 1) * 256) * 256 ^ t.length :=
      Nat.mul_le_mul_right _ (by omega)
    calc _ < _ := h1
      _ ≤ _ := h2
      _ = _ := by rw [Nat.mul_assoc, Nat.mul_comm 256]

theorem beN_lt (bs : Bytes) : beN bs < 256 ^ bs.length := by
  have := beN_foldl_lt bs 0
  simpa [beN] using this

theorem readN_beN_lt {r r' : Rd} {n : Nat} {b : Bytes} (h : r.readN n = some (b, r')) : beN b < 256 ^ n := by
  obtain ⟨h1, rfl, _⟩ := readN_some h
  have := beN_lt (r.rem.take n)
  rwa [List.length_take, Nat.min_eq_left h1] at this

theorem rU8_lt {r r' : Rd} {v : Nat} (h : r.rU8 = some (v, r')) : v < 256 := by
  simp only [Rd.rU8, Option.map_eq_some_iff] at h
  obtain ⟨⟨b, r1⟩, h1, h2⟩ := h
  simp at h2; obtain ⟨rfl, _⟩ := h2
  simpa using readN_beN_lt h1

theorem rU16_lt {r r' : Rd} {v : Nat} (h : r.rU16 = some (v, r')) : v < 65536 := by
  simp only [Rd.rU16, Option.map_eq_some_iff] at h
  obtain ⟨⟨b, r1⟩, h1, h2⟩ := h
  simp at h2; obtain ⟨rfl, _⟩ := h2
  simpa using readN_beN_lt h1

theorem rU32_lt {r r' : Rd} {v : Nat} (h : r.rU32 = some (v, r')) : v < 4294967296 := by
  simp only [Rd.rU32, Option.map_eq_some_iff] at h
  obtain ⟨⟨b, r1⟩, h1, h2⟩ := h
  simp at h2; obtain ⟨rfl, _⟩ := h2
  simpa using readN_beN_lt h1

theorem step_u8 (r : Rd) : r.step .u8 = match r.rU8 with | some (v, r') => (r', .num v) | none => (r, .fail) := by
  unfold Rd.step Rd.take? Rd.rU8 Rd.readN Rd.adv
  by_cases h : r.rem.length < 1 <;> simp [h]

theorem step_u16 (r : Rd) : r.step .u16 = match r.rU16 with | some (v, r') => (r', .num v) | none => (r, .fail) := by
  unfold Rd.step Rd.take? Rd.rU16 Rd.readN Rd.adv
  by_cases h : r.rem.length < 2 <;> simp [h]

theorem step_u32 (r : Rd) : r.step .u32 = match r.rU32 with | some (v, r') => (r', .num v) | none => (r, .fail) := by
  unfold Rd.step Rd.take? Rd.rU32 Rd.readN Rd.adv
  by_cases h : r.rem.length < 4 <;> simp [h]

theorem step_peekU16 (r : Rd) : r.step .peekU16 = match r.peek16 with | some v => (r, .num v) | none => (r, .fail) := by
  unfold Rd.step Rd.take? Rd.peek16 Rd.readN
  by_cases h : r.rem.length < 2 <;> simp [h]

theorem step_read (r : Rd) (n : Nat) :
    r.step (.read (n : Int)) = match r.readN n with | some (b, r') => (r', .bytes b) | none => (r, .fail) := by
  unfold Rd.step Rd.take? Rd.readN Rd.adv
  have h0 : ¬ ((n : Int) < 0) := by omega
  by_cases h : r.rem.length < n <;> simp [h, h0]

theorem builtin_rdU8 (st : St) : builtin .rdU8 [] st =
    match st.r.rU8 with
    | some (v, r') => some ({ st with r := r' }, [], [.int v, .nil])
    | none => some (st, [], [.int 0, errReader]) := by
  unfold builtin
  rw [step_u8]
  cases st.r.rU8 with
  | none => rfl
  | some p => rfl

theorem builtin_rdU16 (st : St) : builtin .rdU16 [] st =
    match st.r.rU16 with
    | some (v, r') => some ({ st with r := r' }, [], [.int v, .nil])
    | none => some (st, [], [.int 0, errReader]) := by
  unfold builtin
  rw [step_u16]
  cases st.r.rU16 with
  | none => rfl
  | some p => rfl

theorem builtin_rdU32 (st : St) : builtin .rdU32 [] st =
    match st.r.rU32 with
    | some (v, r') => some ({ st with r := r' }, [], [.int v, .nil])
    | none => some (st, [], [.int 0, errReader]) := by
  unfold builtin
  rw [step_u32]
  cases st.r.rU32 with
  | none => rfl
  | some p => rfl

theorem builtin_rdPeekU16 (st : St) : builtin .rdPeekU16 [] st =
    match st.r.peek16 with
    | some v => some (st, [], [.int v, .nil])
    | none => some (st, [], [.int 0, errReader]) := by
  unfold builtin
  rw [step_peekU16]
  cases st.r.peek16 with
  | none => rfl
  | some p => rfl

theorem builtin_rdRead (st : St) (n : Nat) : builtin .rdRead [.int n] st =
    match st.r.readN n with
    | some (b, r') => some ({ st with r := r' }, [], [.bytes b, .nil])
    | none => some (st, [], [.bytes [], errReader]) := by
  show (match st.r.step (.read (n : Int)) with
    | (_, .fail) => some (st, ([] : List V), [V.bytes [], errReader])
    | p => rdResult st p) = _
  rw [step_read]
  cases st.r.readN n with
  | none => rfl
  | some p => rfl

theorem builtin_insert (st : St) (id : Nat) (a : Bytes) (t : Template) :
    builtin .insert [.int id, .bytes a, .tpl t] st = some ({ st with cache := st.cache.insert a id t }, [], []) := rfl

theorem builtin_retrieve (st : St) (id : Nat) (a : Bytes) :
    builtin .retrieve [.int id, .bytes a] st =
      match st.cache.lookup a id with
      | some t => some (st, [], [.tpl t, .bool true])
      | none => some (st, [], [.tpl ⟨0, 0, 0, [], []⟩, .bool false]) := rfl

/-! ## field selection -/

section fields
variable (s : Spec) (t : Template) (h : MHdr) (tid cnt scnt id len fid ty : Nat)
@[simp] theorem f_spec_id : fieldOf (.spec s) "ElementID" = some (.int s.id) := by simp [fieldOf]
@[simp] theorem f_spec_len : fieldOf (.spec s) "Length" = some (.int s.len) := by simp [fieldOf]
@[simp] theorem f_spec_ent : fieldOf (.spec s) "EnterpriseNo" = some (.int s.ent) := by simp [fieldOf]
@[simp] theorem f_thdr_tid : fieldOf (.thdr tid cnt scnt) "TemplateID" = some (.int tid) := by simp [fieldOf]
@[simp] theorem f_thdr_cnt : fieldOf (.thdr tid cnt scnt) "FieldCount" = some (.int cnt) := by simp [fieldOf]
@[simp] theorem f_thdr_scnt : fieldOf (.thdr tid cnt scnt) "ScopeFieldCount" = some (.int scnt) := by simp [fieldOf]
@[simp] theorem f_tpl_tid : fieldOf (.tpl t) "TemplateID" = some (.int t.tid) := by simp [fieldOf]
@[simp] theorem f_tpl_cnt : fieldOf (.tpl t) "FieldCount" = some (.int t.cnt) := by simp [fieldOf]
@[simp] theorem f_tpl_scnt : fieldOf (.tpl t) "ScopeFieldCount" = some (.int t.scnt) := by simp [fieldOf]
@[simp] theorem f_tpl_fields : fieldOf (.tpl t) "FieldSpecifiers" = some (.specs t.fields) := by simp [fieldOf]
@[simp] theorem f_tpl_scope : fieldOf (.tpl t) "ScopeFieldSpecifiers" = some (.specs t.scope) := by simp [fieldOf]
@[simp] theorem f_shdr_id : fieldOf (.shdr id len) "SetID" = some (.int id) := by simp [fieldOf]
@[simp] theorem f_shdr_len : fieldOf (.shdr id len) "Length" = some (.int len) := by simp [fieldOf]
@[simp] theorem f_mhdr_ver : fieldOf (.mhdr h) "Version" = some (.int h.ver) := by simp [fieldOf]
@[simp] theorem f_elem_fid : fieldOf (.elem fid ty) "FieldID" = some (.int fid) := by simp [fieldOf]
@[simp] theorem f_elem_ty : fieldOf (.elem fid ty) "Type" = some (.int ty) := by simp [fieldOf]
end fields

section morefields
variable (h : MHdr) (a : Bytes) (s : List Record)
@[simp] theorem f_mhdr_len : fieldOf (.mhdr h) "Length" = some (.int h.len) := by simp [fieldOf]
@[simp] theorem f_mhdr_et : fieldOf (.mhdr h) "ExportTime" = some (.int h.et) := by simp [fieldOf]
@[simp] theorem f_mhdr_sq : fieldOf (.mhdr h) "SequenceNo" = some (.int h.sq) := by simp [fieldOf]
@[simp] theorem f_mhdr_dom : fieldOf (.mhdr h) "DomainID" = some (.int h.dom) := by simp [fieldOf]
@[simp] theorem f_msg_agent : fieldOf (.msg a h s) "AgentID" = some (.bytes a) := by simp [fieldOf]
@[simp] theorem f_msg_hdr : fieldOf (.msg a h s) "Header" = some (.mhdr h) := by simp [fieldOf]
@[simp] theorem f_msg_sets : fieldOf (.msg a h s) "DataSets" = some (.dsets s) := by simp [fieldOf]
@[simp] theorem sf_msg_agent (b : Bytes) : setField (.msg a h s) "AgentID" (.bytes b) = some (.msg b h s) := by simp [setField]
@[simp] theorem sf_msg_hdr (h' : MHdr) : setField (.msg a h s) "Header" (.mhdr h') = some (.msg a h' s) := by simp [setField]
@[simp] theorem sf_msg_sets (s' : List Record) : setField (.msg a h s) "DataSets" (.dsets s') = some (.msg a h s') := by simp [setField]
end morefields

section setters
variable (s : Spec) (t : Template) (h : MHdr) (tid cnt scnt id len n : Nat) (l : List Spec)
@[simp] theorem sf_spec_id : setField (.spec s) "ElementID" (.int n) = some (.spec { s with id := n }) := by simp [setField]
@[simp] theorem sf_spec_len : setField (.spec s) "Length" (.int n) = some (.spec { s with len := n }) := by simp [setField]
@[simp] theorem sf_spec_ent : setField (.spec s) "EnterpriseNo" (.int n) = some (.spec { s with ent := n }) := by simp [setField]
@[simp] theorem sf_thdr_tid : setField (.thdr tid cnt scnt) "TemplateID" (.int n) = some (.thdr n cnt scnt) := by simp [setField]
@[simp] theorem sf_thdr_cnt : setField (.thdr tid cnt scnt) "FieldCount" (.int n) = some (.thdr tid n scnt) := by simp [setField]
@[simp] theorem sf_thdr_scnt : setField (.thdr tid cnt scnt) "ScopeFieldCount" (.int n) = some (.thdr tid cnt n) := by simp [setField]
@[simp] theorem sf_tpl_tid : setField (.tpl t) "TemplateID" (.int n) = some (.tpl { t with tid := n }) := by simp [setField]
@[simp] theorem sf_tpl_cnt : setField (.tpl t) "FieldCount" (.int n) = some (.tpl { t with cnt := n }) := by simp [setField]
@[simp] theorem sf_tpl_scnt : setField (.tpl t) "ScopeFieldCount" (.int n) = some (.tpl { t with scnt := n }) := by simp [setField]
@[simp] theorem sf_tpl_fields : setField (.tpl t) "FieldSpecifiers" (.specs l) = some (.tpl { t with fields := l }) := by simp [setField]
@[simp] theorem sf_tpl_scope : setField (.tpl t) "ScopeFieldSpecifiers" (.specs l) = some (.tpl { t with scope := l }) := by simp [setField]
@[simp] theorem sf_shdr_id : setField (.shdr id len) "SetID" (.int n) = some (.shdr n len) := by simp [setField]
@[simp] theorem sf_shdr_len : setField (.shdr id len) "Length" (.int n) = some (.shdr id n) := by simp [setField]
@[simp] theorem sf_mhdr_ver : setField (.mhdr h) "Version" (.int n) = some (.mhdr { h with ver := n }) := by simp [setField]
@[simp] theorem sf_mhdr_len : setField (.mhdr h) "Length" (.int n) = some (.mhdr { h with len := n }) := by simp [setField]
@[simp] theorem sf_mhdr_et : setField (.mhdr h) "ExportTime" (.int n) = some (.mhdr { h with et := n }) := by simp [setField]
@[simp] theorem sf_mhdr_sq : setField (.mhdr h) "SequenceNo" (.int n) = some (.mhdr { h with sq := n }) := by simp [setField]
@[simp] theorem sf_mhdr_dom : setField (.mhdr h) "DomainID" (.int n) = some (.mhdr { h with dom := n }) := by simp [setField]
end setters

/-- `i--` on a 16-bit counter that is not 0 -/
theorem subAt_u16_pred (i : Nat) (hi : i + 1 < 65536) : subAt .u16 (i + 1) 1 = some i := by
  simp only [subAt, Option.some.injEq]
  omega

theorem subV_int (a b : Nat) (h : b ≤ a) : subV .int a b = some (.int (a - b)) := by
  simp only [subV, h, if_true]

@[simp] theorem subV_u16 (a b : Nat) : subV .u16 a b = (subAt .u16 a b).map .int := rfl
@[simp] theorem subV_u8 (a b : Nat) : subV .u8 a b = (subAt .u8 a b).map .int := rfl
@[simp] theorem subV_u32 (a b : Nat) : subV .u32 a b = (subAt .u32 a b).map .int := rfl

/-- the evaluation rules of the interpreter, for `simp` (`subAt` is rewritten by its own lemmas: `simp`'s arithmetic on
`65536` is expensive) -/
macro "ir_simp" "[" ls:Lean.Parser.Tactic.simpLemma,* "]" : tactic =>
  `(tactic| simp [blk, exec, eval, evalList, evalArgs, zero, wrap, binInt, veq, lenV, indexV, appendV, elemsV, cmpNeg,
      readLHS, writeLHS, writeAll, getPath, setPath, readSlots, refSlots, errReader, List.replicate, List.filter,
      errClasses, errConsts, List.lookup,
      ParamKind.hasSlot, builtin_rdU8, builtin_rdU16, builtin_rdU32, builtin_rdPeekU16, builtin_rdRead, builtin_insert, builtin_retrieve, $ls,*])

/-! ## `getDataLength` -/

theorem getDataLength_sem (addr : Bytes) (fuel : Nat) (r : Rd) (c : Cache) (len : Nat) :
    IpfixProg.getDataLength addr fuel [.int len] ⟨r, c⟩ =
      some (⟨(Ipfix.dataLen r len).2, c⟩, [], IpfixProg.lenResult (Ipfix.dataLen r len).1) := by
  unfold IpfixProg.getDataLength Func.sem Ipfix.dataLen
  by_cases h : len = 65535
  · subst h
    rcases h1 : r.rU8 with _ | ⟨v, r1⟩
    · ir_simp [Gen.IpfixIR.getDataLength, h1, IpfixProg.lenResult]
    · by_cases h2 : v = 255
      · subst h2
        rcases h3 : r1.rU16 with _ | ⟨w, r2⟩
        · ir_simp [Gen.IpfixIR.getDataLength, h1, h3, IpfixProg.lenResult]
        · ir_simp [Gen.IpfixIR.getDataLength, h1, h3, IpfixProg.lenResult]
      · have := rU8_lt h1
        ir_simp [Gen.IpfixIR.getDataLength, h1, h2, IpfixProg.lenResult]
        omega
  · ir_simp [Gen.IpfixIR.getDataLength, h, IpfixProg.lenResult]

/-! ## `minRecordLen` -/

/-- the `i`-th statement of `minRecordLen` -/
def mrl (i : Nat) : Stmt := Gen.IpfixIR.minRecordLen.body.nth i

theorem mrl_body : Gen.IpfixIR.minRecordLen.body = blk [mrl 0, mrl 1, mrl 2, mrl 3, mrl 4] := rfl
theorem mrl1_shape : mrl 1 = .range 2 (.field (.var 0) "ScopeFieldSpecifiers") (mrl 1).loopBody := rfl
theorem mrl2_shape : mrl 2 = .range 3 (.field (.var 0) "FieldSpecifiers") (mrl 2).loopBody := rfl

section
variable (addr : Bytes) (fuel : Nat) (st : St) (t : Template)

theorem mrl1_body (s : Spec) (n : Nat) (y : V) :
    exec addr [] fuel (mrl 1).loopBody st [.tpl t, .int n, .spec s, y] =
      some (.norm, st, [.tpl t, .int (n + Ipfix.specMin s), .spec s, y]) := by
  by_cases h : s.len = 65535 <;>
    ir_simp [mrl, Stmt.nth, Stmt.items, Stmt.loopBody, Gen.IpfixIR.minRecordLen, h, Ipfix.specMin]

theorem mrl2_body (s : Spec) (n : Nat) (x : V) :
    exec addr [] fuel (mrl 2).loopBody st [.tpl t, .int n, x, .spec s] =
      some (.norm, st, [.tpl t, .int (n + Ipfix.specMin s), x, .spec s]) := by
  by_cases h : s.len = 65535 <;>
    ir_simp [mrl, Stmt.nth, Stmt.items, Stmt.loopBody, Gen.IpfixIR.minRecordLen, h, Ipfix.specMin]

theorem mrl_range1 (y : V) (l : List Spec) (n : Nat) (x : V) :
    ∃ x', rangeF 2 (exec addr [] fuel (mrl 1).loopBody) (l.map .spec) st [.tpl t, .int n, x, y] =
      some (.norm, st, [.tpl t, .int (n + (l.map Ipfix.specMin).sum), x', y]) := by
  induction l generalizing n x with
  | nil => exact ⟨x, by simp [rangeF]⟩
  | cons s l ih =>
    obtain ⟨x', hx⟩ := ih (n + Ipfix.specMin s) (.spec s)
    refine ⟨x', ?_⟩
    simp only [List.map_cons, rangeF, List.length_cons, List.length_nil, List.set_cons_succ, List.set_cons_zero,
      mrl1_body, List.sum_cons]
    simp only [show (2 < 0 + 1 + 1 + 1 + 1) from by omega, if_true, hx, Nat.add_assoc]

theorem mrl_range2 (x : V) (l : List Spec) (n : Nat) (y : V) :
    ∃ y', rangeF 3 (exec addr [] fuel (mrl 2).loopBody) (l.map .spec) st [.tpl t, .int n, x, y] =
      some (.norm, st, [.tpl t, .int (n + (l.map Ipfix.specMin).sum), x, y']) := by
  induction l generalizing n y with
  | nil => exact ⟨y, by simp [rangeF]⟩
  | cons s l ih =>
    obtain ⟨y', hy⟩ := ih (n + Ipfix.specMin s) (.spec s)
    refine ⟨y', ?_⟩
    simp only [List.map_cons, rangeF, List.length_cons, List.length_nil, List.set_cons_succ, List.set_cons_zero,
      mrl2_body, List.sum_cons]
    simp only [show (3 < 0 + 1 + 1 + 1 + 1) from by omega, if_true, hy, Nat.add_assoc]

end

theorem minRecordLen_sem (addr : Bytes) (fuel : Nat) (st : St) (t : Template) :
    IpfixProg.minRecordLen addr fuel [.tpl t] st = some (st, [.tpl t], [.int (Ipfix.minRecLen t)]) := by
  unfold IpfixProg.minRecordLen Func.sem
  have henv : ([V.tpl t] ++ List.replicate (Gen.IpfixIR.minRecordLen.nslots - [V.tpl t].length) V.unset) =
      [.tpl t, .unset, .unset, .unset] := rfl
  rw [henv, mrl_body]
  obtain ⟨x1, h1⟩ := mrl_range1 addr fuel st t .unset t.scope 0 .unset
  obtain ⟨x2, h2⟩ := mrl_range2 addr fuel st t x1 t.fields (t.scope.map Ipfix.specMin).sum .unset
  rw [Nat.zero_add] at h1
  have e0 : exec addr [] fuel (mrl 0) st [.tpl t, .unset, .unset, .unset] = some (.norm, st, [.tpl t, .int 0, .unset, .unset]) := by
    ir_simp [mrl, Stmt.nth, Stmt.items, Gen.IpfixIR.minRecordLen]
  have e1 : exec addr [] fuel (mrl 1) st [.tpl t, .int 0, .unset, .unset] =
      some (.norm, st, [.tpl t, .int ((t.scope.map Ipfix.specMin).sum), x1, .unset]) := by
    rw [mrl1_shape]; simp only [exec, eval, List.getElem?_cons_zero, Option.bind_some, f_tpl_scope, elemsV, h1]
  have e2 : exec addr [] fuel (mrl 2) st [.tpl t, .int ((t.scope.map Ipfix.specMin).sum), x1, .unset] =
      some (.norm, st, [.tpl t, .int ((t.scope.map Ipfix.specMin).sum + (t.fields.map Ipfix.specMin).sum), x1, x2]) := by
    rw [mrl2_shape]; simp only [exec, eval, List.getElem?_cons_zero, Option.bind_some, f_tpl_fields, elemsV, h2]
  have e3 : ∀ n, exec addr [] fuel (mrl 3) st [.tpl t, .int n, x1, x2] =
      some (.norm, st, [.tpl t, .int (if n < 1 then 1 else n), x1, x2]) := by
    intro n
    by_cases h : n < 1 <;> ir_simp [mrl, Stmt.nth, Stmt.items, Gen.IpfixIR.minRecordLen, h]
  have e4 : ∀ n, exec addr [] fuel (mrl 4) st [.tpl t, .int n, x1, x2] = some (.ret [.int n], st, [.tpl t, .int n, x1, x2]) := by
    intro n
    ir_simp [mrl, Stmt.nth, Stmt.items, Gen.IpfixIR.minRecordLen]
  simp only [blk, exec, e0, e1, e2, e3, e4]
  simp [Gen.IpfixIR.minRecordLen, readSlots, refSlots, Ipfix.minRecLen, List.sum_append, List.filter, ParamKind.hasSlot]

/-! ## `decodeData` -/
attribute [local irreducible] Vflow.lookupElem


/-- one step of `Ipfix.decFields` -/
def decField (f : Spec) (r : Rd) : Except Err DField × Rd :=
  match lookupElem f.ent f.id with
  | none => (.error .unknownElem, r)
  | some (fid, ty) =>
    match Ipfix.dataLen r f.len with
    | (.error e, r1) => (.error e, r1)
    | (.ok n, r1) =>
      match r1.readN n with
      | none => (.error .short, r1)
      | some (b, r2) => (.ok ⟨fid, f.ent, interpret b ty⟩, r2)

theorem decFields_cons (f : Spec) (fs : List Spec) (r : Rd) (acc : Record) :
    Ipfix.decFields (f :: fs) r acc =
      match decField f r with
      | (.error e, r') => (.error e, r')
      | (.ok d, r') => Ipfix.decFields fs r' (acc ++ [d]) := by
  unfold decField
  rw [Ipfix.decFields_cons]
  generalize lookupElem f.ent f.id = o
  rcases o with _ | ⟨fid, ty⟩
  · rfl
  · simp only []
    generalize Ipfix.dataLen r f.len = o
    rcases o with ⟨_ | n, r1⟩
    · rfl
    · simp only []
      rcases r1.readN n with _ | ⟨b, r2⟩ <;> rfl

theorem exists_env_iff (out : Res) (f : Flow) (s : St) :
    (∃ env', out = some (f, s, env')) ↔ out.map (fun p => (p.1, p.2.1)) = some (f, s) := by
  constructor
  · rintro ⟨env', rfl⟩; rfl
  · intro h
    rcases out with _ | ⟨f', s', env'⟩
    · simp at h
    · simp at h; exact ⟨env', by rw [h.1, h.2]⟩

theorem dataLen_err {r r' : Rd} {l : Nat} {e : Err} (h : Ipfix.dataLen r l = (.error e, r')) : e = .short := by
  unfold Ipfix.dataLen at h
  split at h
  · rcases h1 : r.rU8 with _ | ⟨v, r1⟩
    · simp [h1] at h; exact h.1.symm
    · simp only [h1] at h
      split at h
      · rcases h2 : r1.rU16 with _ | ⟨w, r2⟩
        · simp [h2] at h; exact h.1.symm
        · simp [h2] at h
      · simp at h
  · simp at h

theorem builtin_infoModel (st : St) (ent id : Nat) : builtin .infoModel [.int ent, .int id] st =
    match lookupElem ent id with
    | some (fid, ty) => some (st, [], [.elem fid ty, .bool true])
    | none => some (st, [], [.elem 0 0, .bool false]) := rfl

def dd (i : Nat) : Stmt := Gen.IpfixIR.decodeData.body.nth i

theorem dd_body : Gen.IpfixIR.decodeData.body = blk [dd 0, dd 1, dd 2, dd 3, dd 4, dd 5, dd 6, dd 7, dd 8, dd 9] := rfl

section
variable (addr : Bytes) (fuel : Nat) (c : Cache) (t : Template)

/-- the functions `decodeData` calls -/
abbrev ddLink : Linkage := [("getDataLength", IpfixProg.getDataLength addr fuel)]

/-- outcome of one iteration of the first loop (slots 5, 6, 7 are its `i`, `m`, `ok`) -/
def Body1Out (res : Except Err DField × Rd) (acc : Record) (i : Nat) (x8 x9 x10 : V) (out : Res) : Prop :=
  match res with
  | (.ok d, r') => ∃ j2 j3 j4 j6 j7,
      out = some (.norm, ⟨r', c⟩, [.tpl t, .drec (acc ++ [d]), j2, j3, j4, .int i, j6, j7, x8, x9, x10])
  | (.error e, r') => ∃ env', out = some (.ret [.nil, .err ⟨Ipfix.nonfatalErr e, e⟩], ⟨r', c⟩, env')

theorem dd_body1 (r : Rd) (acc : Record) (i : Nat) (f : Spec) (e2 e3 e4 e6 e7 x8 x9 x10 : V)
    (hf : t.scope[i]? = some f) :
    Body1Out c t (decField f r) acc i x8 x9 x10
      (exec addr (ddLink addr fuel) fuel (dd 5).loopBody ⟨r, c⟩
        [.tpl t, .drec acc, e2, e3, e4, .int i, e6, e7, x8, x9, x10]) := by
  unfold decField Body1Out
  generalize hl : lookupElem f.ent f.id = o
  rcases o with _ | ⟨fid, ty⟩
  · simp only []
    rw [exists_env_iff]
    ir_simp [dd, Stmt.nth, Stmt.items, Stmt.loopBody, Gen.IpfixIR.decodeData, hf, hl, builtin_infoModel, errClasses, List.lookup, Ipfix.nonfatalErr, Err.nonfatal]
  · simp only []
    rcases hd : Ipfix.dataLen r f.len with ⟨e | n, r1⟩
    · simp only []
      have he := dataLen_err hd; subst he
      rw [exists_env_iff]
      ir_simp [dd, Stmt.nth, Stmt.items, Stmt.loopBody, Gen.IpfixIR.decodeData, hf, hl, builtin_infoModel, errClasses, List.lookup, Ipfix.nonfatalErr, Err.nonfatal, getDataLength_sem, hd, IpfixProg.lenResult]
    · simp only []
      rcases hr : r1.readN n with _ | ⟨b, r2⟩
      · simp only []
        rw [exists_env_iff]
        ir_simp [dd, Stmt.nth, Stmt.items, Stmt.loopBody, Gen.IpfixIR.decodeData, hf, hl, builtin_infoModel, errClasses, List.lookup, Ipfix.nonfatalErr, Err.nonfatal, getDataLength_sem, hd, IpfixProg.lenResult, hr]
      · refine ⟨.nil, .bytes b, .int n, .elem fid ty, .bool true, ?_⟩
        ir_simp [dd, Stmt.nth, Stmt.items, Stmt.loopBody, Gen.IpfixIR.decodeData, hf, hl, builtin_infoModel, errClasses, List.lookup, Ipfix.nonfatalErr, Err.nonfatal, getDataLength_sem, hd, IpfixProg.lenResult, hr]

theorem dd5_shape : dd 5 = .loop (dd 5).loopCond (dd 5).loopBody (dd 5).loopPost := rfl

theorem dd5_cond (st : St) (acc : Record) (i : Nat) (e2 e3 e4 e6 e7 x8 x9 x10 : V) :
    eval addr st [.tpl t, .drec acc, e2, e3, e4, .int i, e6, e7, x8, x9, x10] (dd 5).loopCond =
      some (.bool (decide (i < t.scope.length))) := by
  ir_simp [dd, Stmt.nth, Stmt.items, Stmt.loopCond, Gen.IpfixIR.decodeData]

theorem dd5_post (st : St) (acc : Record) (i : Nat) (e2 e3 e4 e6 e7 x8 x9 x10 : V) :
    exec addr (ddLink addr fuel) fuel (dd 5).loopPost st [.tpl t, .drec acc, e2, e3, e4, .int i, e6, e7, x8, x9, x10] =
      some (.norm, st, [.tpl t, .drec acc, e2, e3, e4, .int (i + 1), e6, e7, x8, x9, x10]) := by
  ir_simp [dd, Stmt.nth, Stmt.items, Stmt.loopPost, Gen.IpfixIR.decodeData]

/-- outcome of the first loop -/
def Loop1Out (res : Except Err Record × Rd) (x8 x9 x10 : V) (out : Res) : Prop :=
  match res with
  | (.ok acc', r') => ∃ j2 j3 j4 j6 j7,
      out = some (.norm, ⟨r', c⟩, [.tpl t, .drec acc', j2, j3, j4, .int t.scope.length, j6, j7, x8, x9, x10])
  | (.error e, r') => ∃ env', out = some (.ret [.nil, .err ⟨Ipfix.nonfatalErr e, e⟩], ⟨r', c⟩, env')

theorem dd_loop1 (x8 x9 x10 : V) : ∀ (m i k : Nat) (r : Rd) (acc : Record) (e2 e3 e4 e6 e7 : V),
    i + m = t.scope.length → m < k →
    Loop1Out c t (Ipfix.decFields (t.scope.drop i) r acc) x8 x9 x10
      (loopF (fun st env => eval addr st env (dd 5).loopCond) (exec addr (ddLink addr fuel) fuel (dd 5).loopBody)
        (exec addr (ddLink addr fuel) fuel (dd 5).loopPost) k ⟨r, c⟩
        [.tpl t, .drec acc, e2, e3, e4, .int i, e6, e7, x8, x9, x10]) := by
  intro m
  induction m with
  | zero =>
    intro i k r acc e2 e3 e4 e6 e7 hi hk
    obtain ⟨k, rfl⟩ : ∃ k', k = k' + 1 := ⟨k - 1, by omega⟩
    have hd : t.scope.drop i = [] := List.drop_eq_nil_of_le (by omega)
    rw [hd, Ipfix.decFields_nil]
    have : ¬ (i < t.scope.length) := by omega
    simp only [Loop1Out, loopF, dd5_cond, this, decide_false]
    exact ⟨e2, e3, e4, e6, e7, by rw [show i = t.scope.length from by omega]⟩
  | succ m ih =>
    intro i k r acc e2 e3 e4 e6 e7 hi hk
    obtain ⟨k, rfl⟩ : ∃ k', k = k' + 1 := ⟨k - 1, by omega⟩
    have hlt : i < t.scope.length := by omega
    have hd : t.scope.drop i = t.scope[i] :: t.scope.drop (i + 1) := List.drop_eq_getElem_cons hlt
    have hf : t.scope[i]? = some t.scope[i] := List.getElem?_eq_getElem hlt
    rw [hd, decFields_cons]
    have hb := dd_body1 addr fuel c t r acc i t.scope[i] e2 e3 e4 e6 e7 x8 x9 x10 hf
    simp only [loopF, dd5_cond, hlt, decide_true]
    rcases hdf : decField t.scope[i] r with ⟨e | d, r'⟩
    · simp only [hdf, Body1Out] at hb
      obtain ⟨env', hb⟩ := hb
      simp only [hb, Loop1Out]
      exact ⟨env', rfl⟩
    · simp only [hdf, Body1Out] at hb
      obtain ⟨j2, j3, j4, j6, j7, hb⟩ := hb
      simp only [hb, dd5_post]
      exact ih (i + 1) k r' (acc ++ [d]) j2 j3 j4 j6 j7 (by omega) (by omega)
/-- outcome of one iteration of the second loop (slots 8, 9, 10 are its `i`, `m`, `ok`) -/
def Body2Out (res : Except Err DField × Rd) (acc : Record) (i : Nat) (x5 x6 x7 : V) (out : Res) : Prop :=
  match res with
  | (.ok d, r') => ∃ j2 j3 j4 j9 j10,
      out = some (.norm, ⟨r', c⟩, [.tpl t, .drec (acc ++ [d]), j2, j3, j4, x5, x6, x7, .int i, j9, j10])
  | (.error e, r') => ∃ env', out = some (.ret [.nil, .err ⟨Ipfix.nonfatalErr e, e⟩], ⟨r', c⟩, env')

theorem dd_body2 (r : Rd) (acc : Record) (i : Nat) (f : Spec) (e2 e3 e4 e9 e10 x5 x6 x7 : V)
    (hf : t.fields[i]? = some f) :
    Body2Out c t (decField f r) acc i x5 x6 x7
      (exec addr (ddLink addr fuel) fuel (dd 7).loopBody ⟨r, c⟩
        [.tpl t, .drec acc, e2, e3, e4, x5, x6, x7, .int i, e9, e10]) := by
  unfold decField Body2Out
  generalize hl : lookupElem f.ent f.id = o
  rcases o with _ | ⟨fid, ty⟩
  · simp only []
    rw [exists_env_iff]
    ir_simp [dd, Stmt.nth, Stmt.items, Stmt.loopBody, Gen.IpfixIR.decodeData, hf, hl, builtin_infoModel, errClasses, List.lookup, Ipfix.nonfatalErr, Err.nonfatal]
  · simp only []
    rcases hd : Ipfix.dataLen r f.len with ⟨e | n, r1⟩
    · simp only []
      have he := dataLen_err hd; subst he
      rw [exists_env_iff]
      ir_simp [dd, Stmt.nth, Stmt.items, Stmt.loopBody, Gen.IpfixIR.decodeData, hf, hl, builtin_infoModel, errClasses, List.lookup, Ipfix.nonfatalErr, Err.nonfatal, getDataLength_sem, hd, IpfixProg.lenResult]
    · simp only []
      rcases hr : r1.readN n with _ | ⟨b, r2⟩
      · simp only []
        rw [exists_env_iff]
        ir_simp [dd, Stmt.nth, Stmt.items, Stmt.loopBody, Gen.IpfixIR.decodeData, hf, hl, builtin_infoModel, errClasses, List.lookup, Ipfix.nonfatalErr, Err.nonfatal, getDataLength_sem, hd, IpfixProg.lenResult, hr]
      · refine ⟨.nil, .bytes b, .int n, .elem fid ty, .bool true, ?_⟩
        ir_simp [dd, Stmt.nth, Stmt.items, Stmt.loopBody, Gen.IpfixIR.decodeData, hf, hl, builtin_infoModel, errClasses, List.lookup, Ipfix.nonfatalErr, Err.nonfatal, getDataLength_sem, hd, IpfixProg.lenResult, hr]

theorem dd7_shape : dd 7 = .loop (dd 7).loopCond (dd 7).loopBody (dd 7).loopPost := rfl

theorem dd7_cond (st : St) (acc : Record) (i : Nat) (e2 e3 e4 e9 e10 x5 x6 x7 : V) :
    eval addr st [.tpl t, .drec acc, e2, e3, e4, x5, x6, x7, .int i, e9, e10] (dd 7).loopCond =
      some (.bool (decide (i < t.fields.length))) := by
  ir_simp [dd, Stmt.nth, Stmt.items, Stmt.loopCond, Gen.IpfixIR.decodeData]

theorem dd7_post (st : St) (acc : Record) (i : Nat) (e2 e3 e4 e9 e10 x5 x6 x7 : V) :
    exec addr (ddLink addr fuel) fuel (dd 7).loopPost st [.tpl t, .drec acc, e2, e3, e4, x5, x6, x7, .int i, e9, e10] =
      some (.norm, st, [.tpl t, .drec acc, e2, e3, e4, x5, x6, x7, .int (i + 1), e9, e10]) := by
  ir_simp [dd, Stmt.nth, Stmt.items, Stmt.loopPost, Gen.IpfixIR.decodeData]

/-- outcome of the second loop -/
def Loop2Out (res : Except Err Record × Rd) (x5 x6 x7 : V) (out : Res) : Prop :=
  match res with
  | (.ok acc', r') => ∃ j2 j3 j4 j9 j10,
      out = some (.norm, ⟨r', c⟩, [.tpl t, .drec acc', j2, j3, j4, x5, x6, x7, .int t.fields.length, j9, j10])
  | (.error e, r') => ∃ env', out = some (.ret [.nil, .err ⟨Ipfix.nonfatalErr e, e⟩], ⟨r', c⟩, env')

theorem dd_loop2 (x5 x6 x7 : V) : ∀ (m i k : Nat) (r : Rd) (acc : Record) (e2 e3 e4 e9 e10 : V),
    i + m = t.fields.length → m < k →
    Loop2Out c t (Ipfix.decFields (t.fields.drop i) r acc) x5 x6 x7
      (loopF (fun st env => eval addr st env (dd 7).loopCond) (exec addr (ddLink addr fuel) fuel (dd 7).loopBody)
        (exec addr (ddLink addr fuel) fuel (dd 7).loopPost) k ⟨r, c⟩
        [.tpl t, .drec acc, e2, e3, e4, x5, x6, x7, .int i, e9, e10]) := by
  intro m
  induction m with
  | zero =>
    intro i k r acc e2 e3 e4 e9 e10 hi hk
    obtain ⟨k, rfl⟩ : ∃ k', k = k' + 1 := ⟨k - 1, by omega⟩
    have hd : t.fields.drop i = [] := List.drop_eq_nil_of_le (by omega)
    rw [hd, Ipfix.decFields_nil]
    have : ¬ (i < t.fields.length) := by omega
    simp only [Loop2Out, loopF, dd7_cond, this, decide_false]
    exact ⟨e2, e3, e4, e9, e10, by rw [show i = t.fields.length from by omega]⟩
  | succ m ih =>
    intro i k r acc e2 e3 e4 e9 e10 hi hk
    obtain ⟨k, rfl⟩ : ∃ k', k = k' + 1 := ⟨k - 1, by omega⟩
    have hlt : i < t.fields.length := by omega
    have hd : t.fields.drop i = t.fields[i] :: t.fields.drop (i + 1) := List.drop_eq_getElem_cons hlt
    have hf : t.fields[i]? = some t.fields[i] := List.getElem?_eq_getElem hlt
    rw [hd, decFields_cons]
    have hb := dd_body2 addr fuel c t r acc i t.fields[i] e2 e3 e4 e9 e10 x5 x6 x7 hf
    simp only [loopF, dd7_cond, hlt, decide_true]
    rcases hdf : decField t.fields[i] r with ⟨e | d, r'⟩
    · simp only [hdf, Body2Out] at hb
      obtain ⟨env', hb⟩ := hb
      simp only [hb, Loop2Out]
      exact ⟨env', rfl⟩
    · simp only [hdf, Body2Out] at hb
      obtain ⟨j2, j3, j4, j9, j10, hb⟩ := hb
      simp only [hb, dd7_post]
      exact ih (i + 1) k r' (acc ++ [d]) j2 j3 j4 j9 j10 (by omega) (by omega)
end

theorem decFields_append (a b : List Spec) (r : Rd) (acc : Record) :
    Ipfix.decFields (a ++ b) r acc =
      match Ipfix.decFields a r acc with
      | (.error e, r') => (.error e, r')
      | (.ok acc', r') => Ipfix.decFields b r' acc' := by
  induction a generalizing r acc with
  | nil => simp [Ipfix.decFields_nil]
  | cons f fs ih =>
    rw [List.cons_append, decFields_cons, decFields_cons]
    rcases decField f r with ⟨e | d, r'⟩
    · rfl
    · exact ih r' _

theorem decodeData_sem (addr : Bytes) (fuel : Nat) (r : Rd) (c : Cache) (t : Template)
    (hs : t.scope.length < fuel) (hf : t.fields.length < fuel) :
    IpfixProg.decodeData addr fuel [.tpl t] ⟨r, c⟩ =
      some (⟨(Ipfix.decodeData t r).2, c⟩, [], IpfixProg.recResult (Ipfix.decodeData t r).1) := by
  unfold IpfixProg.decodeData Func.sem
  have henv : ([V.tpl t] ++ List.replicate (Gen.IpfixIR.decodeData.nslots - [V.tpl t].length) V.unset) =
      [.tpl t, .unset, .unset, .unset, .unset, .unset, .unset, .unset, .unset, .unset, .unset] := rfl
  rw [henv, dd_body]
  have e0 : ∀ (st : St) x1 x2 x3 x4 x5 x6 x7 x8 x9 x10, exec addr (ddLink addr fuel) fuel (dd 0) st [.tpl t, x1, x2, x3, x4, x5, x6, x7, x8, x9, x10] =
      some (.norm, st, [.tpl t, .drec [], x2, x3, x4, x5, x6, x7, x8, x9, x10]) := by
    intros; ir_simp [dd, Stmt.nth, Stmt.items, Gen.IpfixIR.decodeData]
  have e1 : ∀ (st : St) x1 x2 x3 x4 x5 x6 x7 x8 x9 x10, exec addr (ddLink addr fuel) fuel (dd 1) st [.tpl t, x1, x2, x3, x4, x5, x6, x7, x8, x9, x10] =
      some (.norm, st, [.tpl t, x1, .nil, x3, x4, x5, x6, x7, x8, x9, x10]) := by
    intros; ir_simp [dd, Stmt.nth, Stmt.items, Gen.IpfixIR.decodeData]
  have e2 : ∀ (st : St) x1 x2 x3 x4 x5 x6 x7 x8 x9 x10, exec addr (ddLink addr fuel) fuel (dd 2) st [.tpl t, x1, x2, x3, x4, x5, x6, x7, x8, x9, x10] =
      some (.norm, st, [.tpl t, x1, x2, .bytes [], x4, x5, x6, x7, x8, x9, x10]) := by
    intros; ir_simp [dd, Stmt.nth, Stmt.items, Gen.IpfixIR.decodeData]
  have e3 : ∀ (st : St) x1 x2 x3 x4 x5 x6 x7 x8 x9 x10, exec addr (ddLink addr fuel) fuel (dd 3) st [.tpl t, x1, x2, x3, x4, x5, x6, x7, x8, x9, x10] =
      some (.norm, st, [.tpl t, x1, x2, x3, .int 0, x5, x6, x7, x8, x9, x10]) := by
    intros; ir_simp [dd, Stmt.nth, Stmt.items, Gen.IpfixIR.decodeData]
  have e4 : ∀ (st : St) x1 x2 x3 x4 x5 x6 x7 x8 x9 x10, exec addr (ddLink addr fuel) fuel (dd 4) st [.tpl t, x1, x2, x3, x4, x5, x6, x7, x8, x9, x10] =
      some (.norm, st, [.tpl t, x1, x2, x3, x4, .int 0, x6, x7, x8, x9, x10]) := by
    intros; ir_simp [dd, Stmt.nth, Stmt.items, Gen.IpfixIR.decodeData]
  have e6 : ∀ (st : St) x1 x2 x3 x4 x5 x6 x7 x8 x9 x10, exec addr (ddLink addr fuel) fuel (dd 6) st [.tpl t, x1, x2, x3, x4, x5, x6, x7, x8, x9, x10] =
      some (.norm, st, [.tpl t, x1, x2, x3, x4, x5, x6, x7, .int 0, x9, x10]) := by
    intros; ir_simp [dd, Stmt.nth, Stmt.items, Gen.IpfixIR.decodeData]
  have e8 : ∀ (st : St) (fs : Record) x2 x3 x4 x5 x6 x7 x8 x9 x10, exec addr (ddLink addr fuel) fuel (dd 8) st [.tpl t, .drec fs, x2, x3, x4, x5, x6, x7, x8, x9, x10] =
      if fs.isEmpty then some (.ret [.nil, .err ⟨true, .emptyRec⟩], st, [.tpl t, .drec fs, x2, x3, x4, x5, x6, x7, x8, x9, x10])
      else some (.norm, st, [.tpl t, .drec fs, x2, x3, x4, x5, x6, x7, x8, x9, x10]) := by
    intro st fs
    rcases fs with _ | ⟨d, fs⟩ <;> intros <;>
      ir_simp [dd, Stmt.nth, Stmt.items, Gen.IpfixIR.decodeData, errClasses, List.lookup]
  have e9 : ∀ (st : St) (fs : Record) x2 x3 x4 x5 x6 x7 x8 x9 x10, exec addr (ddLink addr fuel) fuel (dd 9) st [.tpl t, .drec fs, x2, x3, x4, x5, x6, x7, x8, x9, x10] =
      some (.ret [.drec fs, .nil], st, [.tpl t, .drec fs, x2, x3, x4, x5, x6, x7, x8, x9, x10]) := by
    intros; ir_simp [dd, Stmt.nth, Stmt.items, Gen.IpfixIR.decodeData]
  have l1 := dd_loop1 addr fuel c t .unset .unset .unset t.scope.length 0 fuel r [] .nil (.bytes []) (.int 0) .unset .unset (by omega) hs
  simp only [blk, exec, e0, e1, e2, e3, e4]
  rw [dd5_shape]
  simp only [exec]
  unfold Ipfix.decodeData
  rw [decFields_append]
  rw [List.drop_zero] at l1
  rcases h1 : Ipfix.decFields t.scope r [] with ⟨e | acc1, r1⟩
  · simp only [h1, Loop1Out] at l1
    obtain ⟨env', l1⟩ := l1
    simp [l1, IpfixProg.recResult, Gen.IpfixIR.decodeData, readSlots, refSlots, List.filter, ParamKind.hasSlot]
  · simp only [h1, Loop1Out] at l1
    obtain ⟨j2, j3, j4, j6, j7, l1⟩ := l1
    have l2 := dd_loop2 addr fuel c t (.int t.scope.length) j6 j7 t.fields.length 0 fuel r1 acc1 j2 j3 j4 .unset .unset (by omega) hf
    rw [List.drop_zero] at l2
    simp only [l1, e6]
    rw [dd7_shape]
    simp only [exec]
    rcases h2 : Ipfix.decFields t.fields r1 acc1 with ⟨e | acc2, r2⟩
    · simp only [h2, Loop2Out] at l2
      obtain ⟨env', l2⟩ := l2
      simp [l2, IpfixProg.recResult, Gen.IpfixIR.decodeData, readSlots, refSlots, List.filter, ParamKind.hasSlot]
    · simp only [h2, Loop2Out] at l2
      obtain ⟨k2, k3, k4, k9, k10, l2⟩ := l2
      simp only [l2, e8]
      by_cases hem : acc2.isEmpty
      · simp [hem, IpfixProg.recResult, Gen.IpfixIR.decodeData, readSlots, refSlots, List.filter, ParamKind.hasSlot, Ipfix.nonfatalErr]
      · simp [hem, e9, IpfixProg.recResult, Gen.IpfixIR.decodeData, readSlots, refSlots, List.filter, ParamKind.hasSlot]

end Vflow.IpfixIR
