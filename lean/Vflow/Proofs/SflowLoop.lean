import Vflow.Proofs.SflowBase
/-!
# The loop `loopN`: termination within fuel, no panic, counts and progress
-/
namespace Vflow.Sflow
open Vflow

/-- a successful step consumes at least 8 octets (the two `uint32` words every iteration reads first) -/
def Progress {α : Type} (step : Bytes → Res (α × Bytes)) : Prop :=
  ∀ bs a r, step bs = .ok (a, r) → r.length + 8 ≤ bs.length

theorem loopN_zero {α : Type} (step : Bytes → Res (α × Bytes)) (fuel : Nat) (bs : Bytes) :
    loopN step fuel 0 bs = .ok ([], bs) := by
  cases fuel <;> simp [loopN]

/-- a successful loop made exactly `n` iterations and consumed at least `8 * n` octets -/
theorem loopN_ok {α : Type} {step : Bytes → Res (α × Bytes)} (hp : Progress step) :
    ∀ fuel n bs as r, loopN step fuel n bs = .ok (as, r) → as.length = n ∧ r.length + 8 * n ≤ bs.length := by
  intro fuel
  induction fuel with
  | zero =>
    intro n bs as r h
    cases n with
    | zero => rw [loopN_zero] at h; simp at h; obtain ⟨rfl, rfl⟩ := h; simp
    | succ n => simp [loopN] at h
  | succ fuel ih =>
    intro n bs as r h
    cases n with
    | zero => rw [loopN_zero] at h; simp at h; obtain ⟨rfl, rfl⟩ := h; simp
    | succ n =>
      simp only [loopN] at h
      split at h
      · rename_i a r1 hs
        split at h
        · rename_i as' r' hl
          simp at h
          obtain ⟨rfl, rfl⟩ := h
          have h1 := ih n r1 as' r' hl
          have h2 := hp _ _ _ hs
          simp; omega
        all_goals simp at h
      all_goals simp at h

/-- **termination**: with more fuel than octets the loop never runs out of fuel -/
theorem loopN_ne_fuel {α : Type} {step : Bytes → Res (α × Bytes)} (hp : Progress step)
    (hnf : ∀ bs, step bs ≠ .fuel) :
    ∀ fuel n bs, bs.length < fuel → loopN step fuel n bs ≠ .fuel := by
  intro fuel
  induction fuel with
  | zero => intro n bs h; omega
  | succ fuel ih =>
    intro n bs h
    cases n with
    | zero => rw [loopN_zero]; simp
    | succ n =>
      simp only [loopN]
      split
      · rename_i a r1 hs
        have h2 := hp _ _ _ hs
        have h3 := ih n r1 (by omega)
        split <;> simp_all
      · simp
      · simp
      · rename_i hs; exact absurd hs (hnf bs)

/-- a loop of steps that cannot panic cannot panic -/
theorem loopN_ne_panic {α : Type} {step : Bytes → Res (α × Bytes)} (hnp : ∀ bs, step bs ≠ .panic) :
    ∀ fuel n bs, loopN step fuel n bs ≠ .panic := by
  intro fuel
  induction fuel with
  | zero => intro n bs; cases n <;> simp [loopN]
  | succ fuel ih =>
    intro n bs
    cases n with
    | zero => rw [loopN_zero]; simp
    | succ n =>
      simp only [loopN]
      split
      · rename_i a r1 hs
        have h3 := ih n r1
        split <;> simp_all
      · simp
      · rename_i hs; exact absurd hs (hnp bs)
      · simp

end Vflow.Sflow
