import Vflow.Proofs.FuelIpfix
/-!
# C02 (model part), allocation bound for the IPFIX model

`K` bounds the number of field specifiers of every template: those in the cache before the datagram
(hypothesis) and those parsed from the datagram (each specifier consumed at least 4 octets of it, so
`bs.length / 4 ≤ K` suffices).  Then every decoded record has at most `K` fields, every template in the
cache afterwards has at most `K` specifiers, and with the record bound of `FuelIpfix` the total number of
decoded fields is at most `bs.length * K`.
-/
namespace Vflow.Ipfix
open Vflow

/-- allocation units of a result: total number of decoded fields -/
def fieldCount (recs : List Record) : Nat := (recs.map List.length).sum

theorem fieldCount_le (K : Nat) : ∀ (recs : List Record), (∀ r ∈ recs, r.length ≤ K) →
    fieldCount recs ≤ recs.length * K := by
  intro recs
  induction recs with
  | nil => intro _; simp [fieldCount]
  | cons r rs ih =>
    intro h
    have h1 := h r (by simp)
    have h2 := ih (fun x hx => h x (by simp [hx]))
    simp only [fieldCount, List.map_cons, List.sum_cons, List.length_cons] at h2 ⊢
    rw [Nat.succ_mul]; omega

def CacheB (K : Nat) (c : Cache) : Prop := ∀ e ∈ c, nfields e.2 ≤ K

theorem CacheB.insert {K : Nat} {c : Cache} (h : CacheB K c) (addr : Bytes) (id : Nat) (t : Template)
    (ht : nfields t ≤ K) : CacheB K (c.insert addr id t) := by
  intro e he
  simp only [Cache.insert, List.mem_cons, List.mem_filter] at he
  rcases he with rfl | ⟨he, _⟩
  · exact ht
  · exact h e he

theorem CacheB.lookup {K : Nat} {c : Cache} (h : CacheB K c) {addr : Bytes} {id : Nat} {t : Template}
    (hl : c.lookup addr id = some t) : nfields t ≤ K := by
  simp only [Cache.lookup, Option.map_eq_some_iff] at hl
  obtain ⟨e, he, rfl⟩ := hl
  exact h e (List.mem_of_find?_eq_some he)

/-- the invariant: position accounting against the datagram length `L`, bounded cache, bounded records -/
def Inv (K L : Nat) (st : St) : Prop :=
  st.r.cnt + st.r.rem.length = L ∧ CacheB K st.cache ∧ ∀ r ∈ st.recs, r.length ≤ K

theorem Inv.move {K L : Nat} {st st' : St} (h : Inv K L st) (ha : Adv st.r st'.r)
    (hc : st'.cache = st.cache) (hr : st'.recs = st.recs) : Inv K L st' := by
  refine ⟨by rw [ha.1]; exact h.1, by rw [hc]; exact h.2.1, by rw [hr]; exact h.2.2⟩

theorem setLoop_inv (ctx : Ctx) (K L : Nat) (hK : L / 4 ≤ K) (htr : nfields ctx.tr ≤ K) :
    ∀ (fuel : Nat) (st st' : St) (e : Option Err) (d : Bool),
    Inv K L st → setLoop ctx fuel st = (st', e, d) → Inv K L st' := by
  intro fuel
  induction fuel with
  | zero => intro st st' e d hi h; simp [setLoop] at h; rw [← h.1]; exact hi
  | succ n ih =>
    intro st st' e d hi h
    simp only [setLoop] at h
    split at h
    · split at h
      · split at h
        · simp at h; rw [← h.1]; exact hi
        · generalize hp : (if ctx.setId = 2 then parseTpl st.r else parseOptTpl st.r) = pr at h
          obtain ⟨res, r'⟩ := pr
          have ht : Adv st.r r' ∧ ∀ t, res = .ok t → st.r.cnt + 4 + 4 * nfields t ≤ r'.cnt := by
            by_cases h0 : ctx.setId = 2
            · simp only [h0, if_true] at hp; exact parseTpl_adv hp
            · simp only [h0, if_false] at hp; exact parseOptTpl_adv hp
          cases res with
          | error x =>
            simp at h; rw [← h.1]
            exact hi.move (st' := { st with r := r' }) ht.1 rfl rfl
          | ok t =>
            simp only at h
            have hc := ht.2 t rfl
            have ha := ht.1
            have hnt : nfields t ≤ K := by
              have h1 := ha.1; have h2 := hi.1; omega
            refine ih _ _ _ _ ?_ h
            exact ⟨by simp only; rw [ha.1]; exact hi.1, hi.2.1.insert _ _ _ hnt, hi.2.2⟩
      · split at h
        · simp at h; rw [← h.1]; exact hi
        · split at h
          · simp at h; rw [← h.1]; exact hi
          · generalize hd : decodeData ctx.tr st.r = dr at h
            obtain ⟨res, r'⟩ := dr
            have ht := decodeData_adv hd
            cases res with
            | error x =>
              simp only at h
              split at h
              · simp at h; rw [← h.1]
                exact hi.move (st' := { st with r := r' }) ht.1 rfl rfl
              · simp at h; rw [← h.1]
                exact hi.move (st' := { st with r := r' }) ht.1 rfl rfl
            | ok fs =>
              simp only at h
              split at h
              · simp at h; rw [← h.1]
                exact hi.move (st' := { st with r := r' }) ht.1 rfl rfl
              · refine ih _ _ _ _ ?_ h
                refine ⟨by simp only; rw [ht.1.1]; exact hi.1, hi.2.1, ?_⟩
                intro r hr
                simp only [List.mem_append, List.mem_singleton] at hr
                rcases hr with hr | rfl
                · exact hi.2.2 r hr
                · rw [ht.2.1 r rfl]; exact htr
    · simp at h; rw [← h.1]; exact hi

theorem setBody_inv {K L : Nat} (hK : L / 4 ≤ K) {addr : Bytes} {sid len start fuel : Nat}
    {st st' : St} {e : Option Err}
    (hi : Inv K L st) (h : setBody addr sid len start fuel st = (st', e)) : Inv K L st' := by
  simp only [setBody] at h
  split at h
  · have t := skipRest_step h
    exact hi.move t.2.1.1 t.2.2.2 t.2.2.1
  · rename_i hnone
    generalize hl : setLoop _ fuel st = res at h
    obtain ⟨st1, e1, d⟩ := res
    have htr : nfields ((lookupTpl st.cache addr sid).1.getD emptyTpl) ≤ K := by
      simp only [lookupTpl]
      split
      · split
        · rename_i t hlk; simp only [Option.getD_some]; exact hi.2.1.lookup hlk
        · simp [emptyTpl, nfields]
      · simp [emptyTpl, nfields]
    have h1 := setLoop_inv _ K L hK htr _ _ _ _ _ hi hl
    simp only at h
    split at h
    · simp at h; rw [← h.1]; exact h1
    · have t := skipRest_step h
      exact h1.move t.2.1.1 t.2.2.2 t.2.2.1

theorem decodeSet_inv {K L : Nat} (hK : L / 4 ≤ K) {addr : Bytes} {fuel : Nat} {st st' : St}
    {e : Option Err} (hi : Inv K L st) (h : decodeSet addr fuel st = (st', e)) : Inv K L st' := by
  simp only [decodeSet] at h
  split at h
  · simp at h; rw [← h.1]; exact hi
  · rename_i sid r1 h1
    have t1 := adv_rU16 h1
    split at h
    · simp at h; rw [← h.1]
      exact hi.move (st' := { st with r := r1 }) t1.1 rfl rfl
    · rename_i len r2 h2
      have t2 := adv_rU16 h2
      have hi2 : Inv K L { st with r := r2 } := hi.move (st' := { st with r := r2 }) (t1.1.trans t2.1) rfl rfl
      split at h
      · simp at h; rw [← h.1]; exact hi2
      · exact setBody_inv hK hi2 h

theorem outer_inv {K L : Nat} (hK : L / 4 ≤ K) (addr : Bytes) : ∀ (fuel : Nat) (st : St)
    (errs : List Err) (st' : St) (e : Option Err) (errs' : List Err),
    Inv K L st → outer addr fuel st errs = (st', e, errs') → Inv K L st' := by
  intro fuel
  induction fuel with
  | zero => intro st errs st' e errs' hi h; simp [outer] at h; rw [← h.1]; exact hi
  | succ n ih =>
    intro st errs st' e errs' hi h
    simp only [outer] at h
    split at h
    · generalize hd : decodeSet addr (st.r.rem.length + 1) st = res at h
      obtain ⟨st1, e1⟩ := res
      have h1 := decodeSet_inv hK hi hd
      cases e1 with
      | none => exact ih _ _ _ _ _ h1 h
      | some e0 =>
        simp only at h
        split at h
        · exact ih _ _ _ _ _ h1 h
        · simp at h; rw [← h.1]; exact h1
    · simp at h; rw [← h.1]; exact hi

/-- **C02 allocation bound (IPFIX)**: if every cached template has at most `K` specifiers and
`bs.length / 4 ≤ K`, then after decoding `bs` every cached template still has at most `K` specifiers
and every decoded record has at most `K` fields -/
theorem decode_alloc (c : Cache) (addr bs : Bytes) (K : Nat) (hc : CacheB K c)
    (hK : bs.length / 4 ≤ K) :
    CacheB K (decode c addr bs).2 ∧ ∀ r ∈ recordsOf (decode c addr bs).1, r.length ≤ K := by
  simp only [decode]
  split
  · exact ⟨hc, by simp [recordsOf]⟩
  · rename_i h r6 hh
    split
    · exact ⟨hc, by simp [recordsOf]⟩
    · have ha := readHeader_adv hh
      generalize ho : outer addr (bs.length + 1) ⟨r6, c, []⟩ [] = res
      obtain ⟨st, e, errs⟩ := res
      have hi : Inv K bs.length ⟨r6, c, []⟩ := ⟨by have := ha.1; simpa using this, hc, by simp⟩
      have t := outer_inv hK addr _ _ _ _ _ _ hi ho
      cases e with
      | some e0 => exact ⟨t.2.1, by simp [recordsOf]⟩
      | none => exact ⟨t.2.1, by simpa [recordsOf] using t.2.2⟩

end Vflow.Ipfix
