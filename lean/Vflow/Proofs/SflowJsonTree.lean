import Vflow.Model.SflowJson
import Vflow.Proofs.JsonLex
/-!
# The sFlow message tree is well-formed

`Vflow.Sflow.Json.sflowTree` maps a decoded sFlow datagram to a `Spec.Json` tree (the model of what
`json.Marshal(datagram)` publishes is its rendering).  Here: every number leaf is an RFC 8259 number
(`natDigits`), every string leaf a string body (base64 alphabet; `net.IP` / MAC text; address strings
through `escString`, which is the identity on them), every key — the Go field names and map keys — a
string body; hence `WF (sflowTree d)` for every datagram value `d`.
-/
namespace Vflow.SflowJsonTree
open Vflow Vflow.Spec Vflow.Sflow Vflow.Packet Vflow.Sflow.Json Vflow.JsonLex

/-! ## leaves -/

theorem b64_safe (n : Nat) : safeOctet (b64 n) = true := by
  have h : ∀ m, m < 64 → safeOctet (b64 m) = true := by decide +kernel
  have e : b64 n = b64 (n % 64) := by simp [b64]
  rw [e]; exact h _ (Nat.mod_lt _ (by decide))

theorem base64_safe (b : Bytes) : (base64 b).all safeOctet = true := by
  fun_induction base64 b with
  | case1 => rfl
  | case2 a n => simp [b64_safe]; decide
  | case3 a b n => simp [b64_safe]; decide
  | case4 a b c t n ih => simp [b64_safe, ih]

theorem wf_num (n : Nat) : WF (num n) := by simp [num, WF, natDigits_isNumber]
theorem wf_bytesLeaf (b : Bytes) : WF (bytesLeaf b) := by
  simp only [bytesLeaf, WF]; exact isStrBody_of_safe' (base64_safe b)
theorem wf_ipLeaf (b : Bytes) : WF (ipLeaf b) := by
  simp only [ipLeaf, WF]; split
  · rfl
  · exact ipBytes_isStrBody b
theorem wf_ipStringLeaf (b : Bytes) : WF (ipStringLeaf b) := by
  simp only [ipStringLeaf, WF]; exact escString_isStrBody _
theorem wf_macLeaf (b : Bytes) : WF (macLeaf b) := by
  simp only [macLeaf, WF]; exact macBytes_isStrBody b

/-! ## address text needs no escaping -/

/-- the alphabet of the text of a non-empty address: digits, `a`–`f`, `.`, `:`, `?` -/
def addrOctet (c : UInt8) : Bool := isDigit c || (97 ≤ c && c ≤ 102) || c == 46 || c == 58 || c == 63
def AllAddr (l : Bytes) : Prop := ∀ c ∈ l, addrOctet c = true

theorem addr_plain (c : UInt8) : addrOctet c = true → plainOctet c = true := by
  apply byte_cases (fun c => addrOctet c = true → plainOctet c = true)
  decide +kernel

theorem AllAddr.nil : AllAddr [] := by intro c hc; simp at hc
theorem AllAddr.append {a b : Bytes} (ha : AllAddr a) (hb : AllAddr b) : AllAddr (a ++ b) := by
  intro c hc; rw [List.mem_append] at hc; exact hc.elim (ha c) (hb c)
theorem AllAddr.cons {c : UInt8} {l : Bytes} (hc : addrOctet c = true) (hl : AllAddr l) : AllAddr (c :: l) := by
  intro x hx; rw [List.mem_cons] at hx; rcases hx with rfl | hx; exact hc; exact hl x hx

theorem hexLower_addr : ∀ n, n < 16 → addrOctet (hexLower n) = true := by decide +kernel
theorem natDigits_addr (n : Nat) : AllAddr (natDigits n) := by
  intro c hc; simp [addrOctet, natDigits_digits n c hc]
theorem hexDigits_addr (n : Nat) : AllAddr (hexDigits n) := by
  fun_induction hexDigits n with
  | case1 n h => exact AllAddr.cons (hexLower_addr n h) AllAddr.nil
  | case2 n h ih => exact ih.append (AllAddr.cons (hexLower_addr _ (by omega)) AllAddr.nil)
theorem hexBytes_addr (b : Bytes) : AllAddr (hexBytes b) := by
  induction b with
  | nil => exact AllAddr.nil
  | cons x t ih =>
    have := x.toNat_lt
    exact AllAddr.cons (hexLower_addr _ (by omega)) (AllAddr.cons (hexLower_addr _ (by omega)) ih)
theorem joinSep_addr {sep : UInt8} (hs : addrOctet sep = true) (xs : List Bytes) (h : ∀ x ∈ xs, AllAddr x) :
    AllAddr (joinSep sep xs) := by
  fun_induction joinSep sep xs with
  | case1 => exact AllAddr.nil
  | case2 x => exact h x (by simp)
  | case3 x xs hne ih =>
    exact ((h x (by simp)).append (AllAddr.cons hs AllAddr.nil)).append (ih (fun y hy => h y (by simp [hy])))
theorem ip4Bytes_addr (b : Bytes) : AllAddr (ip4Bytes b) := by
  apply joinSep_addr (by decide)
  intro x hx
  rw [List.mem_map] at hx
  obtain ⟨y, _, rfl⟩ := hx
  exact natDigits_addr _
theorem map_hexDigits_addr (g : List Nat) : ∀ x ∈ g.map hexDigits, AllAddr x := by
  intro x hx
  rw [List.mem_map] at hx
  obtain ⟨y, _, rfl⟩ := hx
  exact hexDigits_addr _
theorem ip6Bytes_addr (b : Bytes) : AllAddr (ip6Bytes b) := by
  simp only [ip6Bytes]
  split
  · exact joinSep_addr (by decide) _ (map_hexDigits_addr _)
  · exact ((joinSep_addr (by decide) _ (map_hexDigits_addr _)).append
      (AllAddr.cons (by decide) (AllAddr.cons (by decide) AllAddr.nil))).append
      (joinSep_addr (by decide) _ (map_hexDigits_addr _))

/-- `net.IP.String` of a non-empty octet string is plain address text -/
theorem ipBytes_addr (b : Bytes) (h : b.length ≠ 0) : AllAddr (ipBytes b) := by
  simp only [ipBytes]
  split
  · rename_i h0; simp at h0; exact absurd h0 (by simpa using h)
  · split
    · exact ip4Bytes_addr _
    · split
      · split
        · exact ip4Bytes_addr _
        · exact ip6Bytes_addr _
      · exact AllAddr.cons (by decide) (hexBytes_addr _)

/-- **address strings are carried verbatim**: on the text of a non-empty address `encoding/json`'s escaping
is the identity, so the `Src` / `Dst` members are exactly `net.IP.String()` -/
theorem ipStringLeaf_verbatim (b : Bytes) (h : b.length ≠ 0) : ipStringLeaf b = .str (ipBytes b) := by
  simp only [ipStringLeaf]
  congr 1
  apply escBody_id_of_plain _ _ (Nat.le_refl _)
  rw [List.all_eq_true]
  exact fun c hc => addr_plain c (ipBytes_addr b h c hc)

/-! ## objects -/

theorem wf_obj (l : List (String × Json)) (h : ∀ p ∈ l, isStrBody (kb p.1) = true ∧ WF p.2) : WF (obj l) := by
  simp only [obj, WF]
  induction l with
  | nil => simp [membersOf, WFM]
  | cons p l ih =>
    obtain ⟨k, v⟩ := p
    simp only [membersOf, WFM]
    exact ⟨(h (k, v) (by simp)).1, (h (k, v) (by simp)).2, ih (fun q hq => h q (by simp [hq]))⟩

theorem wf_listOf (l : List Json) (h : ∀ x ∈ l, WF x) : WFL (listOf l) := by
  induction l with
  | nil => simp [listOf, WFL]
  | cons x xs ih =>
    simp only [listOf, WFL]
    exact ⟨h x (by simp), ih (fun y hy => h y (by simp [hy]))⟩

theorem wf_numObj (ns : List String) (vals : List Nat) (h : ∀ n ∈ ns, isStrBody (kb n) = true) :
    WF (numObj ns vals) := by
  apply wf_obj
  intro p hp
  rw [List.mem_map] at hp
  obtain ⟨⟨n, v⟩, hm, rfl⟩ := hp
  exact ⟨h n (List.of_mem_zip hm).1, wf_num v⟩

theorem mem_entry {α : Type} {k : String} {f : α → Json} {o : Option α} {p : String × Json}
    (h : p ∈ entry k f o) : ∃ x, p = (k, f x) := by
  cases o with
  | none => simp [entry] at h
  | some x => simp [entry] at h; exact ⟨x, h⟩

/-! ## the trees -/

theorem wf_l2Tree (d : L2) : WF (l2Tree d) := by
  simp only [l2Tree, obj, WF, membersOf, WFM, wf_num, wf_macLeaf, and_true, true_and]
  decide +kernel

theorem wf_l3Tree (x : L3) : WF (l3Tree x) := by
  cases x with
  | none => simp [l3Tree, WF]
  | v4 h =>
    simp only [l3Tree, obj, WF, membersOf, WFM, wf_num, wf_ipStringLeaf, and_true, true_and]
    decide +kernel
  | v6 h =>
    simp only [l3Tree, obj, WF, membersOf, WFM, wf_num, wf_ipStringLeaf, and_true, true_and]
    decide +kernel

theorem wf_l4Tree (x : L4) : WF (l4Tree x) := by
  cases x with
  | none => simp [l4Tree, WF]
  | icmp t c rest =>
    simp only [l4Tree, obj, WF, membersOf, WFM, wf_num, wf_bytesLeaf, and_true, true_and]
    decide +kernel
  | tcp s d off res fl => exact wf_numObj _ _ (by decide +kernel)
  | udp s d => exact wf_numObj _ _ (by decide +kernel)

theorem wf_pktMembers (p : Pkt) : ∀ q ∈ pktMembers p, isStrBody (kb q.1) = true ∧ WF q.2 := by
  intro q hq
  simp only [pktMembers, List.mem_cons, List.not_mem_nil, or_false] at hq
  rcases hq with rfl | rfl | rfl
  · exact ⟨by dsimp only; decide +kernel, wf_l2Tree _⟩
  · exact ⟨by dsimp only; decide +kernel, wf_l3Tree _⟩
  · exact ⟨by dsimp only; decide +kernel, wf_l4Tree _⟩

theorem wf_pktTree (p : Pkt) : WF (pktTree p) := wf_obj _ (wf_pktMembers p)

/-- the raw-header record (F33): four number members, then the packet's members when there is a packet -/
theorem wf_rawHeaderTree (h : RawHeader) : WF (rawHeaderTree h) := by
  apply wf_obj
  intro q hq
  rw [List.mem_append] at hq
  rcases hq with hq | hq
  · simp only [rawHeaderWords, List.mem_cons, List.not_mem_nil, or_false] at hq
    rcases hq with rfl | rfl | rfl | rfl
    all_goals exact ⟨by dsimp only; decide +kernel, wf_num _⟩
  · cases hp : h.pkt with
    | none => rw [hp] at hq; simp at hq
    | some p => rw [hp] at hq; exact wf_pktMembers p q hq

theorem wf_extRouterTree (x : ExtRouter) : WF (extRouterTree x) := by
  simp only [extRouterTree, obj, WF, membersOf, WFM, wf_num, wf_ipLeaf, and_true, true_and]
  decide +kernel

theorem wf_extSwitchTree (s : ExtSwitch) : WF (extSwitchTree s) := wf_numObj _ _ (by decide +kernel)

theorem wf_flowRecsTree (m : FlowRecs) : WF (flowRecsTree m) := by
  apply wf_obj
  intro p hp
  simp only [List.mem_append] at hp
  rcases hp with (hp | hp) | hp
  · obtain ⟨x, rfl⟩ := mem_entry hp; exact ⟨by dsimp only; decide +kernel, wf_extRouterTree x⟩
  · obtain ⟨x, rfl⟩ := mem_entry hp; exact ⟨by dsimp only; decide +kernel, wf_extSwitchTree x⟩
  · obtain ⟨x, rfl⟩ := mem_entry hp; exact ⟨by dsimp only; decide +kernel, wf_rawHeaderTree x⟩

theorem wf_flowSampleTree (s : FlowSample) : WF (flowSampleTree s) := by
  simp only [flowSampleTree, obj, WF, membersOf, WFM, wf_num, and_true, true_and]
  exact ⟨by decide +kernel, by decide +kernel, by decide +kernel, by decide +kernel, by decide +kernel,
    by decide +kernel, by decide +kernel, by decide +kernel, by decide +kernel, by decide +kernel, wf_flowRecsTree _⟩

theorem wf_counterRecsTree (m : CounterRecs) : WF (counterRecsTree m) := by
  apply wf_obj
  intro p hp
  simp only [List.mem_append] at hp
  rcases hp with ((((hp | hp) | hp) | hp) | hp) | hp
  all_goals obtain ⟨x, rfl⟩ := mem_entry hp
  all_goals exact ⟨by dsimp only; decide +kernel, wf_numObj _ _ (by decide +kernel)⟩

theorem wf_counterSampleTree (c : CounterSample) : WF (counterSampleTree c) := by
  simp only [counterSampleTree, obj, WF, membersOf, WFM, wf_num, and_true, true_and]
  exact ⟨by decide +kernel, by decide +kernel, by decide +kernel, by decide +kernel, by decide +kernel,
    wf_counterRecsTree _⟩

theorem wf_sflowTree (d : Datagram) : WF (sflowTree d) := by
  have hs : WFL (listOf (d.samples.map flowSampleTree)) := by
    apply wf_listOf; intro x hx; rw [List.mem_map] at hx
    obtain ⟨s, _, rfl⟩ := hx; exact wf_flowSampleTree s
  have hc : WFL (listOf (d.counters.map counterSampleTree)) := by
    apply wf_listOf; intro x hx; rw [List.mem_map] at hx
    obtain ⟨s, _, rfl⟩ := hx; exact wf_counterSampleTree s
  simp only [sflowTree, obj, WF, membersOf, WFM, wf_num, wf_ipLeaf, hs, hc, and_true, true_and]
  decide +kernel

end Vflow.SflowJsonTree
