import Vflow.Model.MainSignal
import Vflow.Proofs.ShutdownReach
/-!
# Every reachable state of `main` + a protocol program is a pair of enumerated states

`Vflow.Model.MainSignal.SysReach` (every interleaving of `main`, the goroutines it starts and the signals) is not
enumerated as a product. A step of the system changes either the `main` part — by a step `main` alone can take when run
with both outcomes of the wait (`amNext`) — or the protocol part — by a step of the protocol-level model (`next`) —, never
both (`sysNext_proj`). So every reachable state is a pair (state of `amReachable`, state of `reachable`), and a Boolean
predicate that holds initially and is preserved by every step from every such pair that satisfies it holds in every
reachable state (`sysReach_invariant`); `Props/C15` lets the kernel evaluate the premise on all pairs.
-/
namespace Vflow.Shutdown

theorem sysNext_proj (ms : List MStep) (p : Prog) (a : Assume) (x t : Sys) (h : t ∈ sysNext ms p a x) :
    (t.m = x.m ∨ t.m ∈ amNext ms x.m) ∧ (t.s = x.s ∨ t.s ∈ next p a x.s) := by
  simp only [sysNext, List.mem_append, List.mem_map] at h
  rcases h with ((⟨m', hm, rfl⟩ | ⟨m', hm, rfl⟩) | h) | h
  · exact ⟨Or.inr (by simp only [amNext, List.mem_append]; exact Or.inl (Or.inl hm)), Or.inl rfl⟩
  · refine ⟨Or.inr ?_, Or.inl rfl⟩
    simp only [amNext, List.mem_append]
    cases hd : wgDone p x
    · rw [hd] at hm; exact Or.inr hm
    · rw [hd] at hm; exact Or.inl (Or.inr hm)
  · split at h
    · obtain ⟨s', hs, rfl⟩ := List.mem_map.mp h
      exact ⟨Or.inl rfl, Or.inr (by simp only [next, List.mem_append]; exact Or.inl hs)⟩
    · simp at h
  · split at h
    · obtain ⟨s', hs, rfl⟩ := List.mem_map.mp h
      exact ⟨Or.inl rfl, Or.inr (by simp only [next, List.mem_append]; exact Or.inr hs)⟩
    · simp at h

/-- the invariant rule over pairs of enumerated states -/
theorem sysReach_invariant {ms : List MStep} {p : Prog} {a : Assume} {n : Nat}
    (hA : amClosed ms n = true) (hC : closedUnderNext p a = true) (inv : MSt → St → Bool)
    (hinit : inv { sigsLeft := n } {} = true)
    (hstep : ∀ m ∈ amReachable ms n, ∀ s ∈ reachable p a, inv m s = true →
      ∀ t ∈ sysNext ms p a ⟨m, s⟩, inv t.m t.s = true) :
    ∀ x, SysReach ms p a n x → x.m ∈ amReachable ms n ∧ x.s ∈ reachable p a ∧ inv x.m x.s = true := by
  have hA' := hA
  simp only [amClosed, Bool.and_eq_true, List.all_eq_true, List.contains_iff_mem] at hA'
  have hC' : ∀ s ∈ reachable p a, ∀ t ∈ next p a s, t ∈ reachable p a := by
    intro s hs t ht
    have := hC
    simp only [closedUnderNext, List.all_eq_true] at this
    exact List.contains_iff_mem.mp (this s hs t ht)
  intro x hx
  induction hx with
  | init => exact ⟨hA'.1, mem_reach_of_mem_seen _ _ _ _ (by simp), hinit⟩
  | @step x t _ ht ih =>
    obtain ⟨hm, hs, hi⟩ := ih
    have hp := sysNext_proj ms p a x t ht
    refine ⟨?_, ?_, hstep x.m hm x.s hs hi t ht⟩
    · rcases hp.1 with h | h
      · rw [h]; exact hm
      · exact hA'.2 x.m hm t.m h
    · rcases hp.2 with h | h
      · rw [h]; exact hs
      · exact hC' x.s hs t.s h

/-- a Boolean implication `!a || b` read as an implication -/
theorem imp_of_not_or {a b : Bool} (h : (!a || b) = true) : a = true → b = true := by
  cases a <;> simp_all

/-- a run given by the index of the step taken in each state -/
def follow (ms : List MStep) (p : Prog) (a : Assume) : Sys → List Nat → Option Sys
  | x, [] => some x
  | x, i :: r => match (sysNext ms p a x)[i]? with
    | some t => follow ms p a t r
    | none => none

/-- … ends in a reachable state -/
theorem follow_reach {ms : List MStep} {p : Prog} {a : Assume} {n : Nat} :
    ∀ (cs : List Nat) (x y : Sys), SysReach ms p a n x → follow ms p a x cs = some y → SysReach ms p a n y := by
  intro cs
  induction cs with
  | nil => intro x y hx h; simp only [follow, Option.some.injEq] at h; exact h ▸ hx
  | cons i r ih =>
    intro x y hx h
    simp only [follow] at h
    split at h
    · next t ht => exact ih t y (SysReach.step hx (List.mem_of_getElem? ht)) h
    · simp at h

/-- a state with property `P` at the end of the run `cs` from the initial state -/
theorem exists_of_follow {ms : List MStep} {p : Prog} {a : Assume} {n : Nat} (cs : List Nat) (P : Sys → Bool)
    (h : (follow ms p a ⟨{ sigsLeft := n }, {}⟩ cs).any P = true) : ∃ y, SysReach ms p a n y ∧ P y = true := by
  cases hf : follow ms p a ⟨{ sigsLeft := n }, {}⟩ cs with
  | none => rw [hf] at h; simp at h
  | some y => rw [hf] at h; exact ⟨y, follow_reach cs _ y SysReach.init hf, by simpa using h⟩

end Vflow.Shutdown
