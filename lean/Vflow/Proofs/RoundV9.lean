import Vflow.Model.V9
import Vflow.Proofs.WireLemmas
import Vflow.Proofs.EqnsV9
/-!
# C06 — NetFlow v9 round trip: what the RFC 3954 encoder of `Spec/Wire.lean` writes, the decoder
model reads back exactly

Levels: field list → record → record loop → flowset → packet.
-/
namespace Vflow.V9
open Vflow Vflow.Wire

attribute [local irreducible] Vflow.lookupElem

/-! ## Level 1: one data record -/

theorem wfField_iff (s : Spec) (v : Bytes) :
    Wire.V9.wfField s v = true ↔ s.ent = 0 ∧ (lookupElem s.ent s.id).isSome = true ∧ v.length = s.len := by
  simp only [Wire.V9.wfField, Bool.and_eq_true, beq_iff_eq, and_assoc]

theorem expectedField_of_lookup {s : Spec} {v : Bytes} {fid ty : Nat}
    (h : lookupElem s.ent s.id = some (fid, ty)) :
    expectedField s v = ⟨fid, s.ent, interpret v ty⟩ := by
  unfold expectedField
  rw [h]

/-- the field loop reads back a conforming list of values -/
theorem decFields_roundtrip : ∀ (specs : List Spec) (vals : List Bytes) (rest : Bytes) (c : Nat)
    (acc : Record),
    specs.length = vals.length → (List.zipWith Wire.V9.wfField specs vals).all id = true →
    decFields specs ⟨vals.flatten ++ rest, c⟩ acc =
      (.ok (acc ++ List.zipWith expectedField specs vals), ⟨rest, c + vals.flatten.length⟩) := by
  intro specs
  induction specs with
  | nil =>
    intro vals rest c acc hl _
    cases vals with
    | nil => simp [decFields_nil]
    | cons v vs => simp at hl
  | cons f fs ih =>
    intro vals rest c acc hl hw
    cases vals with
    | nil => simp at hl
    | cons v vs =>
      simp only [List.zipWith_cons_cons, List.all_cons, id, Bool.and_eq_true] at hw
      obtain ⟨hwf, hws⟩ := hw
      obtain ⟨hent, hsome, hlen⟩ := (wfField_iff f v).1 hwf
      obtain ⟨⟨fid, ty⟩, hlk⟩ := Option.isSome_iff_exists.1 hsome
      have hlk0 : lookupElem 0 f.id = some (fid, ty) := by rw [← hent]; exact hlk
      have hread : Rd.readN ⟨(v :: vs).flatten ++ rest, c⟩ f.len =
          some (v, ⟨vs.flatten ++ rest, c + f.len⟩) := by
        have := readN_append' v (vs.flatten ++ rest) c f.len hlen
        simpa [List.flatten_cons, List.append_assoc] using this
      rw [decFields_cons, hread]
      simp only [hlk0]
      rw [ih vs rest (c + f.len) _ (by simpa using hl) hws]
      rw [List.zipWith_cons_cons, expectedField_of_lookup (v := v) hlk, hent]
      simp [List.flatten_cons, hlen, Nat.add_assoc]

/-- **C06 level 1 (record)**: a conforming data record is decoded exactly as its template describes,
the reader ends right behind it -/
theorem decodeData_roundtrip (t : Template) (vals : List Bytes) (rest : Bytes) (c : Nat)
    (hw : Wire.V9.wfRecord t vals = true) :
    decodeData t ⟨Wire.V9.encodeRecord t vals ++ rest, c⟩ =
      (.ok (expectedRecord t vals), ⟨rest, c + (Wire.V9.encodeRecord t vals).length⟩) := by
  simp only [Wire.V9.wfRecord, Bool.and_eq_true, beq_iff_eq] at hw
  have := decFields_roundtrip (specsOf t) vals rest c [] hw.1 hw.2
  simpa [decodeData, Wire.V9.encodeRecord, expectedRecord, specsOf] using this

/-- a conforming record occupies exactly the length its template announces -/
theorem wf_flatten_length : ∀ (specs : List Spec) (vals : List Bytes),
    specs.length = vals.length → (List.zipWith Wire.V9.wfField specs vals).all id = true →
    vals.flatten.length = (specs.map (·.len)).sum := by
  intro specs
  induction specs with
  | nil => intro vals hl _; cases vals with
    | nil => rfl
    | cons v vs => simp at hl
  | cons f fs ih =>
    intro vals hl hw
    cases vals with
    | nil => simp at hl
    | cons v vs =>
      simp only [List.zipWith_cons_cons, List.all_cons, id, Bool.and_eq_true] at hw
      obtain ⟨hwf, hws⟩ := hw
      obtain ⟨_, _, hlen⟩ := (wfField_iff f v).1 hwf
      have := ih vs (by simpa using hl) hws
      simp [List.flatten_cons, hlen, this]

theorem encodeRecord_length (t : Template) (vals : List Bytes) (hw : Wire.V9.wfRecord t vals = true) :
    (Wire.V9.encodeRecord t vals).length = Wire.V9.recLen t := by
  simp only [Wire.V9.wfRecord, Bool.and_eq_true, beq_iff_eq] at hw
  exact wf_flatten_length _ _ hw.1 hw.2

end Vflow.V9
