import Vflow.Model.V9
import Vflow.Proofs.WireLemmas
import Vflow.Proofs.EqnsV9
/-!
# C06 — NetFlow v9 round trip: what the RFC 3954 encoder of `Spec/Wire.lean` writes, the decoder
model reads back exactly

Levels: field list → record → record loop → flowset → packet.
-/
namespace Vflow.V9
open Vflow Vflow.Wire

attribute [local irreducible] Vflow.lookupElem

/-! ## Level 1: one data record -/

theorem wfField_iff (s : Spec) (v : Bytes) :
    Wire.V9.wfField s v = true ↔ s.ent = 0 ∧ (lookupElem s.ent s.id).isSome = true ∧ v.length = s.len := by
  simp only [Wire.V9.wfField, Bool.and_eq_true, beq_iff_eq, and_assoc]

theorem expectedField_of_lookup {s : Spec} {v : Bytes} {fid ty : Nat}
    (h : lookupElem s.ent s.id = some (fid, ty)) :
    expectedField s v = ⟨fid, s.ent, interpret v ty⟩ := by
  unfold expectedField
  rw [h]

/-- the field loop reads back a conforming list of values -/
theorem decFields_roundtrip : ∀ (specs : List Spec) (vals : List Bytes) (rest : Bytes) (c : Nat)
    (acc : Record),
    specs.length = vals.length → (List.zipWith Wire.V9.wfField specs vals).all id = true →
    decFields specs ⟨vals.flatten ++ rest, c⟩ acc =
      (.ok (acc ++ List.zipWith expectedField specs vals), ⟨rest, c + vals.flatten.length⟩) := by
  intro specs
  induction specs with
  | nil =>
    intro vals rest c acc hl _
    cases vals with
    | nil => simp [decFields_nil]
    | cons v vs => simp at hl
  | cons f fs ih =>
    intro vals rest c acc hl hw
    cases vals with
    | nil => simp at hl
    | cons v vs =>
      simp only [List.zipWith_cons_cons, List.all_cons, id, Bool.and_eq_true] at hw
      obtain ⟨hwf, hws⟩ := hw
      obtain ⟨hent, hsome, hlen⟩ := (wfField_iff f v).1 hwf
      obtain ⟨⟨fid, ty⟩, hlk⟩ := Option.isSome_iff_exists.1 hsome
      have hlk0 : lookupElem 0 f.id = some (fid, ty) := by rw [← hent]; exact hlk
      have hread : Rd.readN ⟨(v :: vs).flatten ++ rest, c⟩ f.len =
          some (v, ⟨vs.flatten ++ rest, c + f.len⟩) := by
        have := readN_append' v (vs.flatten ++ rest) c f.len hlen
        simpa [List.flatten_cons, List.append_assoc] using this
      rw [decFields_cons, hread]
      simp only [hlk0]
      rw [ih vs rest (c + f.len) _ (by simpa using hl) hws]
      rw [List.zipWith_cons_cons, expectedField_of_lookup (v := v) hlk, hent]
      simp [List.flatten_cons, hlen, Nat.add_assoc]

/-- **C06 level 1 (record)**: a conforming data record is decoded exactly as its template describes,
the reader ends right behind it -/
theorem decodeData_roundtrip (t : Template) (vals : List Bytes) (rest : Bytes) (c : Nat)
    (hw : Wire.V9.wfRecord t vals = true) :
    decodeData t ⟨Wire.V9.encodeRecord t vals ++ rest, c⟩ =
      (.ok (expectedRecord t vals), ⟨rest, c + (Wire.V9.encodeRecord t vals).length⟩) := by
  simp only [Wire.V9.wfRecord, Bool.and_eq_true, beq_iff_eq] at hw
  have := decFields_roundtrip (specsOf t) vals rest c [] hw.1 hw.2
  simpa [decodeData, Wire.V9.encodeRecord, expectedRecord, specsOf] using this

/-- a conforming record occupies exactly the length its template announces -/
theorem wf_flatten_length : ∀ (specs : List Spec) (vals : List Bytes),
    specs.length = vals.length → (List.zipWith Wire.V9.wfField specs vals).all id = true →
    vals.flatten.length = (specs.map (·.len)).sum := by
  intro specs
  induction specs with
  | nil => intro vals hl _; cases vals with
    | nil => rfl
    | cons v vs => simp at hl
  | cons f fs ih =>
    intro vals hl hw
    cases vals with
    | nil => simp at hl
    | cons v vs =>
      simp only [List.zipWith_cons_cons, List.all_cons, id, Bool.and_eq_true] at hw
      obtain ⟨hwf, hws⟩ := hw
      obtain ⟨_, _, hlen⟩ := (wfField_iff f v).1 hwf
      have := ih vs (by simpa using hl) hws
      simp [List.flatten_cons, hlen, this]

theorem encodeRecord_length (t : Template) (vals : List Bytes) (hw : Wire.V9.wfRecord t vals = true) :
    (Wire.V9.encodeRecord t vals).length = Wire.V9.recLen t := by
  simp only [Wire.V9.wfRecord, Bool.and_eq_true, beq_iff_eq] at hw
  exact wf_flatten_length _ _ hw.1 hw.2

/-! ## Level 2: the record loop and a whole data flowset -/

/-- octets of a list of records -/
def body (t : Template) (records : List (List Bytes)) : Bytes :=
  (records.map (Wire.V9.encodeRecord t)).flatten

theorem body_nil (t : Template) : body t [] = [] := rfl
theorem body_cons (t : Template) (x : List Bytes) (xs : List (List Bytes)) :
    body t (x :: xs) = Wire.V9.encodeRecord t x ++ body t xs := by
  simp [body]

/-- the decoder's `minRecordLen` is the template's record length, clamped to 1 -/
theorem minRecLen_spec (t : Template) :
    minRecLen t = if Wire.V9.recLen t < 1 then 1 else Wire.V9.recLen t := rfl

theorem minRecLen_pos {t : Template} (h : 0 < Wire.V9.recLen t) : minRecLen t = Wire.V9.recLen t := by
  rw [minRecLen_spec, if_neg (by omega)]

/-- **C06 level 2a (record loop)**: over `records ++ pad ++ rest`, with the set header announcing
exactly `records ++ pad`, the loop yields all records in order, stops in front of the padding, reports
no error -/
theorem setLoop_data (ctx : Ctx) (hsid : 255 < ctx.setId) (hbig : 0 < Wire.V9.recLen ctx.tr) :
    ∀ (records : List (List Bytes)) (pad rest : Bytes) (fuel : Nat) (st : St),
      (∀ x ∈ records, Wire.V9.wfRecord ctx.tr x = true) →
      pad.length < Wire.V9.recLen ctx.tr →
      st.r.rem = body ctx.tr records ++ (pad ++ rest) →
      leftInt ctx st.r = (((body ctx.tr records).length + pad.length : Nat) : Int) →
      records.length < fuel →
      setLoop ctx fuel st =
        ({ st with r := ⟨pad ++ rest, st.r.cnt + (body ctx.tr records).length⟩,
                   recs := st.recs ++ records.map (expectedRecord ctx.tr) }, none) := by
  intro records
  induction records with
  | nil =>
    intro pad rest fuel st _ hpad hrem hlen hfuel
    cases fuel with
    | zero => omega
    | succ n =>
      simp only [setLoop]
      have hc : contCond ctx st.r = false := by
        simp only [contCond, minLeft, if_pos hsid, minRecLen_pos hbig, Bool.and_eq_false_iff,
          decide_eq_false_iff_not]
        left
        rw [hlen, body_nil]; simp only [List.length_nil]; omega
      rw [hc]
      simp only [body_nil, List.nil_append, List.length_nil, Nat.add_zero, List.map_nil,
        List.append_nil] at hrem ⊢
      cases st with
      | mk r cache rs =>
        cases r with
        | mk rem cnt => simp at hrem ⊢; exact hrem
  | cons x xs ih =>
    intro pad rest fuel st hm hpad hrem hlen hfuel
    cases fuel with
    | zero => simp at hfuel
    | succ n =>
      have hmx : Wire.V9.wfRecord ctx.tr x = true := hm x (by simp)
      have hxlen := encodeRecord_length _ x hmx
      simp only [setLoop]
      rw [body_cons] at hrem hlen
      have hc : contCond ctx st.r = true := by
        simp only [contCond, minLeft, if_pos hsid, minRecLen_pos hbig, Bool.and_eq_true, decide_eq_true_eq]
        constructor
        · rw [hlen]; simp only [List.length_append]; omega
        · rw [hrem]; simp only [List.length_append]; omega
      rw [if_pos hc]
      have hn01 : ¬ (ctx.setId = 0 ∨ ctx.setId = 1) := by omega
      have hnres : ¬ (4 ≤ ctx.setId ∧ ctx.setId ≤ 255) := by omega
      rw [if_neg hn01, if_neg hnres]
      have hrem' : st.r = ⟨Wire.V9.encodeRecord ctx.tr x ++ (body ctx.tr xs ++ (pad ++ rest)), st.r.cnt⟩ := by
        cases hst : st.r with
        | mk rem cnt =>
          rw [hst] at hrem
          simp only at hrem ⊢
          rw [hrem, List.append_assoc]
      rw [hrem', decodeData_roundtrip ctx.tr x _ _ hmx]
      simp only
      have hne : ¬ (st.r.cnt + (Wire.V9.encodeRecord ctx.tr x).length = st.r.cnt) := by omega
      rw [if_neg hne]
      have := ih pad rest n
        { st with r := ⟨body ctx.tr xs ++ (pad ++ rest), st.r.cnt + (Wire.V9.encodeRecord ctx.tr x).length⟩,
                  recs := st.recs ++ [expectedRecord ctx.tr x] }
        (fun r hr => hm r (by simp [hr])) hpad rfl
        (by simp only [List.length_append, leftInt] at hlen ⊢; omega)
        (by simp only [List.length_cons] at hfuel; omega)
      rw [this]
      simp only [body_cons, List.length_append, List.map_cons, List.append_assoc,
        List.singleton_append, Nat.add_assoc]

/-- the leftover skip eats exactly the padding the loop stopped in front of -/
theorem skipRest_pad (ctx : Ctx) (st : St) (pad rest : Bytes) (c : Nat)
    (hr : st.r = ⟨pad ++ rest, c⟩) (hleft : leftInt ctx st.r = (pad.length : Int)) :
    skipRest ctx st none = ({ st with r := ⟨rest, c + pad.length⟩ }, none) := by
  simp only [skipRest]
  rw [if_neg (by simp), hleft]
  by_cases hp : pad.length = 0
  · have : pad = [] := List.eq_nil_of_length_eq_zero hp
    subst this
    simp only [List.length_nil, Int.natCast_zero, Int.lt_irrefl, if_false, Nat.add_zero]
    cases st with
    | mk r cache rs => simp at hr ⊢; exact hr
  · have hpos : ((pad.length : Nat) : Int) > 0 := by omega
    rw [if_pos hpos, hr]
    simp only [Int.toNat_natCast]
    rw [readN_append]

theorem body_length_ge (t : Template) (hbig : 0 < Wire.V9.recLen t) :
    ∀ (records : List (List Bytes)), (∀ x ∈ records, Wire.V9.wfRecord t x = true) →
      records.length ≤ (body t records).length := by
  intro records
  induction records with
  | nil => intro _; simp
  | cons x xs ih =>
    intro h
    have := ih (fun r hr => h r (by simp [hr]))
    have hx := encodeRecord_length t x (h x (by simp))
    simp only [body_cons, List.length_append, List.length_cons]
    omega

theorem encodeSet_length (id : Nat) (b pad : Bytes) :
    (Wire.V9.encodeSet id b pad).length = 4 + (b.length + pad.length) := by
  simp [Wire.V9.encodeSet, be16_length]; omega

/-- reading the 4-octet flowset header -/
theorem decodeSet_header (addr : Bytes) (fuel id : Nat) (b pad rest : Bytes) (c : Nat)
    (cache : Cache) (recs : List Record) (hid : id < 65536)
    (hlen : 4 + (b ++ pad).length < 65536) :
    decodeSet addr fuel ⟨⟨Wire.V9.encodeSet id b pad ++ rest, c⟩, cache, recs⟩ =
      setBody addr id (4 + (b ++ pad).length) c fuel ⟨⟨b ++ (pad ++ rest), c + 4⟩, cache, recs⟩ := by
  simp only [decodeSet, Wire.V9.encodeSet, List.append_assoc]
  rw [rU16_be16 id hid]
  simp only
  rw [rU16_be16 _ (by simpa using hlen)]
  simp only
  rw [if_neg (by omega)]

/-- **C06 level 2b (data flowset)**: `decodeSet` consumes the whole encoded data flowset (padding
included), appends exactly the expected records, leaves the cache unchanged, reports no error -/
theorem decodeSet_data (addr : Bytes) (t : Template) (records : List (List Bytes)) (pad rest : Bytes)
    (c fuel : Nat) (cache : Cache) (recs : List Record)
    (hw : Wire.V9.wfSet addr cache (.data t records pad) = true) (hfuel : records.length < fuel) :
    decodeSet addr fuel ⟨⟨Wire.V9.encodeDataSet t records pad ++ rest, c⟩, cache, recs⟩ =
      (⟨⟨rest, c + (Wire.V9.encodeDataSet t records pad).length⟩, cache,
        recs ++ records.map (expectedRecord t)⟩, none) := by
  simp only [Wire.V9.wfSet, Wire.V9.wfSetLen, Wire.V9.wfDataPad, Bool.and_eq_true, decide_eq_true_eq, beq_iff_eq,
    List.all_eq_true] at hw
  obtain ⟨⟨⟨⟨⟨⟨h255, h64k⟩, hlk⟩, hbig⟩, _⟩, hrec⟩, hpad, hlen⟩ := hw
  unfold Wire.V9.encodeDataSet
  rw [decodeSet_header addr fuel t.tid _ pad rest c cache recs h64k hlen]
  simp only [setBody, lookupTpl, if_pos h255, hlk, Option.getD_some]
  have hb : (records.map (Wire.V9.encodeRecord t)).flatten = body t records := rfl
  rw [hb] at hlen ⊢
  have hloop := setLoop_data ⟨addr, t.tid, 4 + (body t records ++ pad).length, c, t⟩ h255 hbig
    records pad rest fuel ⟨⟨body t records ++ (pad ++ rest), c + 4⟩, cache, recs⟩
    hrec hpad rfl (by simp only [leftInt, List.length_append]; omega) hfuel
  rw [hloop]
  simp only
  rw [skipRest_pad _ _ pad rest (c + 4 + (body t records).length) rfl
    (by simp only [leftInt, List.length_append]; omega)]
  simp only [encodeSet_length, List.length_append] at hlen ⊢
  have e : c + 4 + (body t records).length + pad.length = c + (4 + ((body t records).length + pad.length)) := by omega
  rw [e]

/-! ## Level 2: template records and template flowsets -/

theorem wfSpec_iff (s : Spec) :
    Wire.V9.wfSpec s = true ↔ s.id < 65536 ∧ s.len < 65536 ∧ s.ent = 0 := by
  simp only [Wire.V9.wfSpec, Bool.and_eq_true, decide_eq_true_eq, beq_iff_eq, and_assoc]

theorem encodeSpec_length (s : Spec) : (Wire.V9.encodeSpec s).length = 4 := by
  simp [Wire.V9.encodeSpec, be16_length]

theorem specsBytes_length (specs : List Spec) :
    ((specs.map Wire.V9.encodeSpec).flatten).length = 4 * specs.length := by
  induction specs with
  | nil => rfl
  | cons s ss ih => simp only [List.map_cons, List.flatten_cons, List.length_append,
      encodeSpec_length, ih, List.length_cons]; omega

theorem readSpec_roundtrip (s : Spec) (hw : Wire.V9.wfSpec s = true) (rest : Bytes) (c : Nat) :
    readSpec ⟨Wire.V9.encodeSpec s ++ rest, c⟩ = (.ok s, ⟨rest, c + 4⟩) := by
  obtain ⟨h1, h2, h3⟩ := (wfSpec_iff s).1 hw
  simp only [readSpec, Wire.V9.encodeSpec, List.append_assoc]
  rw [rU16_be16 _ h1]
  simp only
  rw [rU16_be16 _ h2]
  simp only [Nat.add_assoc]
  cases s with
  | mk id len ent => simp only at h3; subst h3; rfl

theorem readSpecs_roundtrip : ∀ (specs : List Spec) (rest : Bytes) (c : Nat) (acc : List Spec),
    specs.all Wire.V9.wfSpec = true →
    readSpecs specs.length ⟨(specs.map Wire.V9.encodeSpec).flatten ++ rest, c⟩ acc =
      (.ok (acc ++ specs), ⟨rest, c + 4 * specs.length⟩) := by
  intro specs
  induction specs with
  | nil => intro rest c acc _; simp [readSpecs]
  | cons s ss ih =>
    intro rest c acc hw
    simp only [List.all_cons, Bool.and_eq_true] at hw
    simp only [List.length_cons, readSpecs, List.map_cons, List.flatten_cons, List.append_assoc]
    rw [readSpec_roundtrip s hw.1]
    simp only
    rw [ih rest (c + 4) (acc ++ [s]) hw.2]
    simp only [List.append_assoc, List.singleton_append, Prod.mk.injEq, Rd.mk.injEq, true_and]
    omega

theorem wfTemplate_iff (t : Template) :
    Wire.V9.wfTemplate t = true ↔
      t.tid < 65536 ∧ t.scope = [] ∧ t.cnt = t.fields.length ∧ t.scnt = 0 ∧ 1 ≤ t.fields.length ∧
      t.fields.length < 65536 ∧ t.fields.all Wire.V9.wfSpec = true := by
  simp only [Wire.V9.wfTemplate, Bool.and_eq_true, decide_eq_true_eq, beq_iff_eq, and_assoc]

theorem encodeTemplate_length (t : Template) :
    (Wire.V9.encodeTemplate t).length = 4 + 4 * t.fields.length := by
  simp only [Wire.V9.encodeTemplate, List.length_append, be16_length, specsBytes_length]

/-- a template record is parsed back to the template it encodes -/
theorem parseTpl_roundtrip (t : Template) (hw : Wire.V9.wfTemplate t = true) (rest : Bytes) (c : Nat) :
    parseTpl ⟨Wire.V9.encodeTemplate t ++ rest, c⟩ =
      (.ok t, ⟨rest, c + (Wire.V9.encodeTemplate t).length⟩) := by
  obtain ⟨h1, h2, h3, h4, _, h6, h7⟩ := (wfTemplate_iff t).1 hw
  rw [encodeTemplate_length]
  simp only [parseTpl, Wire.V9.encodeTemplate, List.append_assoc]
  rw [rU16_be16 _ h1]
  simp only
  rw [rU16_be16 _ h6]
  simp only
  rw [readSpecs_roundtrip t.fields rest _ [] h7]
  simp only [List.nil_append]
  cases t with
  | mk tid cnt scnt scope fields =>
    simp only at h2 h3 h4
    subst h2 h3 h4
    simp only [Prod.mk.injEq, Rd.mk.injEq, true_and]
    omega

theorem wfOptTemplate_iff (t : Template) :
    Wire.V9.wfOptTemplate t = true ↔
      t.tid < 65536 ∧ t.cnt = 0 ∧ t.scnt = 0 ∧ 4 * t.scope.length < 65536 ∧
      4 * t.fields.length < 65536 ∧ t.scope.all Wire.V9.wfSpec = true ∧
      t.fields.all Wire.V9.wfSpec = true := by
  simp only [Wire.V9.wfOptTemplate, Bool.and_eq_true, decide_eq_true_eq, beq_iff_eq, and_assoc]

theorem encodeOptTemplate_length (t : Template) :
    (Wire.V9.encodeOptTemplate t).length = 6 + 4 * t.scope.length + 4 * t.fields.length := by
  simp only [Wire.V9.encodeOptTemplate, List.length_append, be16_length, specsBytes_length]

/-- an options template record is parsed back to the template it encodes -/
theorem parseOptTpl_roundtrip (t : Template) (hw : Wire.V9.wfOptTemplate t = true) (rest : Bytes)
    (c : Nat) :
    parseOptTpl ⟨Wire.V9.encodeOptTemplate t ++ rest, c⟩ =
      (.ok t, ⟨rest, c + (Wire.V9.encodeOptTemplate t).length⟩) := by
  obtain ⟨h1, h2, h3, h4, h5, h6, h7⟩ := (wfOptTemplate_iff t).1 hw
  rw [encodeOptTemplate_length]
  simp only [parseOptTpl, Wire.V9.encodeOptTemplate, List.append_assoc]
  rw [rU16_be16 _ h1]
  simp only
  rw [rU16_be16 _ h4]
  simp only
  rw [rU16_be16 _ h5]
  simp only
  have e1 : 4 * t.scope.length / 4 = t.scope.length := by omega
  have e2 : 4 * t.fields.length / 4 = t.fields.length := by omega
  rw [e1, e2, readSpecs_roundtrip t.scope _ _ [] h6]
  simp only
  rw [readSpecs_roundtrip t.fields rest _ [] h7]
  simp only [List.nil_append]
  cases t with
  | mk tid cnt scnt scope fields =>
    simp only at h2 h3
    subst h2 h3
    simp only [Prod.mk.injEq, Rd.mk.injEq, true_and]
    omega

/-- octets of a list of (options) template records under an encoder `enc` -/
def tbody (enc : Template → Bytes) (ts : List Template) : Bytes := (ts.map enc).flatten

theorem tbody_cons (enc : Template → Bytes) (t : Template) (ts : List Template) :
    tbody enc (t :: ts) = enc t ++ tbody enc ts := by simp [tbody]

/-- **C06 level 2c (template loop)**: the loop of a template flowset (id 0: `enc = encodeTemplate`,
id 1: `enc = encodeOptTemplate`) inserts exactly the announced templates, in order, adds no record,
stops in front of the padding -/
theorem setLoop_tpl (ctx : Ctx) (enc : Template → Bytes) (hsid : ctx.setId = 0 ∨ ctx.setId = 1) :
    ∀ (ts : List Template) (pad rest : Bytes) (fuel : Nat) (st : St),
      (∀ t ∈ ts, 4 < (enc t).length ∧ ∀ rest c,
        (if ctx.setId = 0 then parseTpl ⟨enc t ++ rest, c⟩ else parseOptTpl ⟨enc t ++ rest, c⟩) =
          (.ok t, ⟨rest, c + (enc t).length⟩)) →
      pad.length ≤ 4 →
      st.r.rem = tbody enc ts ++ (pad ++ rest) →
      leftInt ctx st.r = (((tbody enc ts).length + pad.length : Nat) : Int) →
      ts.length < fuel →
      setLoop ctx fuel st =
        ({ st with r := ⟨pad ++ rest, st.r.cnt + (tbody enc ts).length⟩,
                   cache := insertAll ctx.addr st.cache ts }, none) := by
  intro ts
  induction ts with
  | nil =>
    intro pad rest fuel st _ hpad hrem hlen hfuel
    cases fuel with
    | zero => omega
    | succ n =>
      simp only [setLoop]
      have hc : contCond ctx st.r = false := by
        simp only [contCond, minLeft, if_neg (by omega : ¬ ctx.setId > 255), Bool.and_eq_false_iff,
          decide_eq_false_iff_not]
        left
        rw [hlen]; simp only [tbody, List.map_nil, List.flatten_nil, List.length_nil]; omega
      rw [hc]
      simp only [tbody, List.map_nil, List.flatten_nil, List.nil_append, List.length_nil,
        Nat.add_zero, insertAll, List.foldl_nil] at hrem ⊢
      cases st with
      | mk r cache rs =>
        cases r with
        | mk rem cnt => simp at hrem ⊢; exact hrem
  | cons t ts ih =>
    intro pad rest fuel st hm hpad hrem hlen hfuel
    cases fuel with
    | zero => simp at hfuel
    | succ n =>
      obtain ⟨hbig, hparse⟩ := hm t (by simp)
      simp only [setLoop]
      rw [tbody_cons] at hrem hlen
      have hc : contCond ctx st.r = true := by
        simp only [contCond, minLeft, if_neg (by omega : ¬ ctx.setId > 255), Bool.and_eq_true, decide_eq_true_eq]
        constructor
        · rw [hlen]; simp only [List.length_append]; omega
        · rw [hrem]; simp only [List.length_append]; omega
      rw [if_pos hc, if_pos hsid]
      have hrem' : st.r = ⟨enc t ++ (tbody enc ts ++ (pad ++ rest)), st.r.cnt⟩ := by
        cases hst : st.r with
        | mk rem cnt =>
          rw [hst] at hrem
          simp only at hrem ⊢
          rw [hrem, List.append_assoc]
      have hp := hparse (tbody enc ts ++ (pad ++ rest)) st.r.cnt
      rw [← hrem'] at hp
      have hp' : (if ctx.setId = 0 then parseTpl st.r else parseOptTpl st.r) =
          (.ok t, ⟨tbody enc ts ++ (pad ++ rest), st.r.cnt + (enc t).length⟩) := by
        split
        · rename_i h0; rw [if_pos h0] at hp; exact hp
        · rename_i h0; rw [if_neg h0] at hp; exact hp
      rw [hp']
      simp only
      have := ih pad rest n
        { st with r := ⟨tbody enc ts ++ (pad ++ rest), st.r.cnt + (enc t).length⟩,
                  cache := st.cache.insert ctx.addr t.tid t }
        (fun r hr => hm r (by simp [hr])) hpad rfl
        (by simp only [List.length_append, leftInt] at hlen ⊢; omega)
        (by simp only [List.length_cons] at hfuel; omega)
      rw [this]
      simp only [tbody_cons, List.length_append, insertAll, List.foldl_cons, Nat.add_assoc]

theorem tbody_length_ge (enc : Template → Bytes) :
    ∀ (ts : List Template), (∀ t ∈ ts, 4 < (enc t).length) → ts.length ≤ (tbody enc ts).length := by
  intro ts
  induction ts with
  | nil => intro _; simp
  | cons x xs ih =>
    intro h
    have := ih (fun r hr => h r (by simp [hr]))
    have hx := h x (by simp)
    simp only [tbody_cons, List.length_append, List.length_cons]
    omega

/-- **C06 level 2d (template flowset)**: `decodeSet` consumes the whole encoded template flowset,
inserts exactly its templates (in order, a later one overriding an earlier one with the same id),
adds no record, reports no error -/
theorem decodeSet_tpl (addr : Bytes) (ts : List Template) (pad rest : Bytes)
    (c fuel : Nat) (cache : Cache) (recs : List Record)
    (hw : Wire.V9.wfSet addr cache (.tpl ts pad) = true) (hfuel : ts.length < fuel) :
    decodeSet addr fuel ⟨⟨Wire.V9.encodeTemplateSet ts pad ++ rest, c⟩, cache, recs⟩ =
      (⟨⟨rest, c + (Wire.V9.encodeTemplateSet ts pad).length⟩, insertAll addr cache ts, recs⟩, none) := by
  simp only [Wire.V9.wfSet, Wire.V9.wfSetLen, Wire.V9.wfTplPad, Bool.and_eq_true, decide_eq_true_eq,
    List.all_eq_true] at hw
  obtain ⟨⟨_, hts⟩, hpad, hlen⟩ := hw
  unfold Wire.V9.encodeTemplateSet
  rw [decodeSet_header addr fuel 0 _ pad rest c cache recs (by decide) hlen]
  simp only [setBody, lookupTpl, if_neg (by decide : ¬ (0 > 255)), Option.getD_none]
  have hb : (ts.map Wire.V9.encodeTemplate).flatten = tbody Wire.V9.encodeTemplate ts := rfl
  rw [hb] at hlen ⊢
  have hloop := setLoop_tpl ⟨addr, 0, 4 + (tbody Wire.V9.encodeTemplate ts ++ pad).length, c, emptyTpl⟩
    Wire.V9.encodeTemplate (Or.inl rfl) ts pad rest fuel
    ⟨⟨tbody Wire.V9.encodeTemplate ts ++ (pad ++ rest), c + 4⟩, cache, recs⟩
    (by
      intro t ht
      have hwt := hts t ht
      obtain ⟨_, _, _, _, h5, _, _⟩ := (wfTemplate_iff t).1 hwt
      refine ⟨by rw [encodeTemplate_length]; omega, ?_⟩
      intro rest c
      simp only [if_true]
      exact parseTpl_roundtrip t hwt rest c)
    hpad rfl (by simp only [leftInt, List.length_append]; omega) hfuel
  rw [hloop]
  simp only
  rw [skipRest_pad _ _ pad rest (c + 4 + (tbody Wire.V9.encodeTemplate ts).length) rfl
    (by simp only [leftInt, List.length_append]; omega)]
  simp only [encodeSet_length, List.length_append] at hlen ⊢
  have e : c + 4 + (tbody Wire.V9.encodeTemplate ts).length + pad.length =
      c + (4 + ((tbody Wire.V9.encodeTemplate ts).length + pad.length)) := by omega
  rw [e]

theorem decodeSet_optTpl (addr : Bytes) (ts : List Template) (pad rest : Bytes)
    (c fuel : Nat) (cache : Cache) (recs : List Record)
    (hw : Wire.V9.wfSet addr cache (.optTpl ts pad) = true) (hfuel : ts.length < fuel) :
    decodeSet addr fuel ⟨⟨Wire.V9.encodeOptTemplateSet ts pad ++ rest, c⟩, cache, recs⟩ =
      (⟨⟨rest, c + (Wire.V9.encodeOptTemplateSet ts pad).length⟩, insertAll addr cache ts, recs⟩, none) := by
  simp only [Wire.V9.wfSet, Wire.V9.wfSetLen, Wire.V9.wfTplPad, Bool.and_eq_true, decide_eq_true_eq,
    List.all_eq_true] at hw
  obtain ⟨⟨_, hts⟩, hpad, hlen⟩ := hw
  unfold Wire.V9.encodeOptTemplateSet
  rw [decodeSet_header addr fuel 1 _ pad rest c cache recs (by decide) hlen]
  simp only [setBody, lookupTpl, if_neg (by decide : ¬ (1 > 255)), Option.getD_none]
  have hb : (ts.map Wire.V9.encodeOptTemplate).flatten = tbody Wire.V9.encodeOptTemplate ts := rfl
  rw [hb] at hlen ⊢
  have hloop := setLoop_tpl ⟨addr, 1, 4 + (tbody Wire.V9.encodeOptTemplate ts ++ pad).length, c, emptyTpl⟩
    Wire.V9.encodeOptTemplate (Or.inr rfl) ts pad rest fuel
    ⟨⟨tbody Wire.V9.encodeOptTemplate ts ++ (pad ++ rest), c + 4⟩, cache, recs⟩
    (by
      intro t ht
      have hwt := hts t ht
      refine ⟨by rw [encodeOptTemplate_length]; omega, ?_⟩
      intro rest c
      simp only [if_neg (by decide : ¬ ((1 : Nat) = 0))]
      exact parseOptTpl_roundtrip t hwt rest c)
    hpad rfl (by simp only [leftInt, List.length_append]; omega) hfuel
  rw [hloop]
  simp only
  rw [skipRest_pad _ _ pad rest (c + 4 + (tbody Wire.V9.encodeOptTemplate ts).length) rfl
    (by simp only [leftInt, List.length_append]; omega)]
  simp only [encodeSet_length, List.length_append] at hlen ⊢
  have e : c + 4 + (tbody Wire.V9.encodeOptTemplate ts).length + pad.length =
      c + (4 + ((tbody Wire.V9.encodeOptTemplate ts).length + pad.length)) := by omega
  rw [e]

/-! ## Level 3: the whole export packet -/

theorem applySet_acc (addr : Bytes) (recs : List Record) (c : Cache) (s : Wire.V9.FlowSet) :
    Wire.V9.applySet addr (recs, c) s =
      (recs ++ (Wire.V9.applySet addr ([], c) s).1, (Wire.V9.applySet addr ([], c) s).2) := by
  cases s <;> simp [Wire.V9.applySet]

/-- a well-formed flowset is longer than its header and has fewer items than octets -/
theorem wfSet_length (addr : Bytes) (cache : Cache) (s : Wire.V9.FlowSet)
    (hw : Wire.V9.wfSet addr cache s = true) : 4 < (Wire.V9.encodeFlowSet s).length := by
  cases s with
  | tpl ts pad =>
    simp only [Wire.V9.wfSet, Bool.and_eq_true, List.all_eq_true] at hw
    obtain ⟨⟨hne, hts⟩, _⟩ := hw
    have := tbody_length_ge Wire.V9.encodeTemplate ts (by
      intro t ht
      obtain ⟨_, _, _, _, h5, _, _⟩ := (wfTemplate_iff t).1 (hts t ht)
      rw [encodeTemplate_length]; omega)
    cases ts with
    | nil => simp at hne
    | cons t ts =>
      simp only [Wire.V9.encodeFlowSet, Wire.V9.encodeTemplateSet, encodeSet_length]
      simp only [tbody, List.length_cons] at this
      omega
  | optTpl ts pad =>
    simp only [Wire.V9.wfSet, Bool.and_eq_true, List.all_eq_true] at hw
    obtain ⟨⟨hne, hts⟩, _⟩ := hw
    have := tbody_length_ge Wire.V9.encodeOptTemplate ts (by
      intro t ht
      rw [encodeOptTemplate_length]; omega)
    cases ts with
    | nil => simp at hne
    | cons t ts =>
      simp only [Wire.V9.encodeFlowSet, Wire.V9.encodeOptTemplateSet, encodeSet_length]
      simp only [tbody, List.length_cons] at this
      omega
  | data t records pad =>
    simp only [Wire.V9.wfSet, Bool.and_eq_true, decide_eq_true_eq, List.all_eq_true] at hw
    obtain ⟨⟨⟨⟨_, hbig⟩, hne⟩, hrec⟩, _⟩ := hw
    have := body_length_ge t hbig records hrec
    cases records with
    | nil => simp at hne
    | cons x xs =>
      simp only [Wire.V9.encodeFlowSet, Wire.V9.encodeDataSet, encodeSet_length]
      simp only [body, List.length_cons] at this
      omega

/-- **C06 level 2 (any flowset)**: with more fuel than octets in the flowset, `decodeSet` consumes it
entirely and has exactly the effect `applySet` specifies -/
theorem decodeSet_flowSet (addr : Bytes) (s : Wire.V9.FlowSet) (rest : Bytes) (c fuel : Nat)
    (cache : Cache) (recs : List Record)
    (hw : Wire.V9.wfSet addr cache s = true) (hfuel : (Wire.V9.encodeFlowSet s).length < fuel) :
    decodeSet addr fuel ⟨⟨Wire.V9.encodeFlowSet s ++ rest, c⟩, cache, recs⟩ =
      (⟨⟨rest, c + (Wire.V9.encodeFlowSet s).length⟩, (Wire.V9.applySet addr (recs, cache) s).2,
        (Wire.V9.applySet addr (recs, cache) s).1⟩, none) := by
  cases s with
  | tpl ts pad =>
    have hw' := hw
    simp only [Wire.V9.wfSet, Bool.and_eq_true, List.all_eq_true] at hw'
    have := tbody_length_ge Wire.V9.encodeTemplate ts (by
      intro t ht
      obtain ⟨_, _, _, _, h5, _, _⟩ := (wfTemplate_iff t).1 (hw'.1.2 t ht)
      rw [encodeTemplate_length]; omega)
    simp only [Wire.V9.encodeFlowSet, Wire.V9.encodeTemplateSet, encodeSet_length] at hfuel
    simp only [tbody] at this
    exact decodeSet_tpl addr ts pad rest c fuel cache recs hw (by omega)
  | optTpl ts pad =>
    have hw' := hw
    simp only [Wire.V9.wfSet, Bool.and_eq_true, List.all_eq_true] at hw'
    have := tbody_length_ge Wire.V9.encodeOptTemplate ts (by
      intro t ht
      rw [encodeOptTemplate_length]; omega)
    simp only [Wire.V9.encodeFlowSet, Wire.V9.encodeOptTemplateSet, encodeSet_length] at hfuel
    simp only [tbody] at this
    exact decodeSet_optTpl addr ts pad rest c fuel cache recs hw (by omega)
  | data t records pad =>
    have hw' := hw
    simp only [Wire.V9.wfSet, Bool.and_eq_true, decide_eq_true_eq, List.all_eq_true] at hw'
    obtain ⟨⟨⟨⟨_, hbig⟩, _⟩, hrec⟩, _⟩ := hw'
    have := body_length_ge t hbig records hrec
    simp only [Wire.V9.encodeFlowSet, Wire.V9.encodeDataSet, encodeSet_length] at hfuel
    simp only [body] at this
    exact decodeSet_data addr t records pad rest c fuel cache recs hw (by omega)

/-- octets of a list of flowsets -/
def setsBytes (sets : List Wire.V9.FlowSet) : Bytes := (sets.map Wire.V9.encodeFlowSet).flatten

theorem setsBytes_cons (s : Wire.V9.FlowSet) (ss : List Wire.V9.FlowSet) :
    setsBytes (s :: ss) = Wire.V9.encodeFlowSet s ++ setsBytes ss := by simp [setsBytes]

/-- the flowset loop of `Decode` over a well-formed list of flowsets: every flowset is consumed, the
result is the fold of `applySet`, no error of either kind -/
theorem outer_roundtrip (addr : Bytes) : ∀ (sets : List Wire.V9.FlowSet) (cache : Cache)
    (recs : List Record) (c fuel : Nat) (errs : List Err),
    Wire.V9.wfSets addr cache sets = true → sets.length < fuel →
    outer addr fuel ⟨⟨setsBytes sets, c⟩, cache, recs⟩ errs =
      (⟨⟨[], c + (setsBytes sets).length⟩, (sets.foldl (Wire.V9.applySet addr) (recs, cache)).2,
        (sets.foldl (Wire.V9.applySet addr) (recs, cache)).1⟩, none, errs) := by
  intro sets
  induction sets with
  | nil =>
    intro cache recs c fuel errs _ hf
    cases fuel with
    | zero => omega
    | succ n => simp [outer, setsBytes]
  | cons s ss ih =>
    intro cache recs c fuel errs hw hf
    cases fuel with
    | zero => omega
    | succ n =>
      simp only [Wire.V9.wfSets, Bool.and_eq_true] at hw
      obtain ⟨hws, hwss⟩ := hw
      have hlen := wfSet_length addr cache s hws
      simp only [outer, setsBytes_cons]
      rw [if_pos (by simp only [List.length_append]; omega)]
      rw [decodeSet_flowSet addr s (setsBytes ss) c _ cache recs hws
        (by simp only [List.length_append]; omega)]
      simp only
      rw [applySet_acc]
      rw [ih _ _ _ n errs hwss (by simp only [List.length_cons] at hf; omega)]
      simp only [List.foldl_cons, List.length_append, Nat.add_assoc]
      rw [applySet_acc addr recs cache s]

theorem readHeader_roundtrip (m : Wire.V9.Msg) (rest : Bytes)
    (h1 : m.count < 65536) (h2 : m.upTime < 4294967296) (h3 : m.secs < 4294967296)
    (h4 : m.seq < 4294967296) (h5 : m.srcId < 4294967296) :
    readHeader ⟨Wire.V9.encodeHeader m ++ rest, 0⟩ = some (Wire.V9.expectedHdr m, ⟨rest, 20⟩) := by
  simp only [readHeader, Wire.V9.encodeHeader, List.append_assoc]
  rw [rU16_be16 9 (by decide)]
  simp only
  rw [rU16_be16 _ h1]
  simp only
  rw [rU32_be32 _ h2]
  simp only
  rw [rU32_be32 _ h3]
  simp only
  rw [rU32_be32 _ h4]
  simp only
  rw [rU32_be32 _ h5]
  rfl

theorem setsBytes_length_ge (addr : Bytes) : ∀ (sets : List Wire.V9.FlowSet) (cache : Cache),
    Wire.V9.wfSets addr cache sets = true → sets.length ≤ (setsBytes sets).length := by
  intro sets
  induction sets with
  | nil => intro _ _; simp
  | cons s ss ih =>
    intro cache hw
    simp only [Wire.V9.wfSets, Bool.and_eq_true] at hw
    have := ih _ hw.2
    have := wfSet_length addr cache s hw.1
    simp only [setsBytes_cons, List.length_append, List.length_cons]
    omega

/-- **C06 level 3 (packet)**: a well-formed export packet is decoded to its header, exactly the
expected records in order, no non-fatal error, and the cache updated with the packet's templates -/
theorem decode_roundtrip (c : Cache) (addr : Bytes) (m : Wire.V9.Msg)
    (hw : Wire.V9.wfMsg addr c m = true) :
    decode c addr (Wire.V9.encodeMsg m) =
      (.ok (Wire.V9.expectedHdr m, (Wire.V9.expected addr c m).1, []), (Wire.V9.expected addr c m).2) := by
  simp only [Wire.V9.wfMsg, Bool.and_eq_true, decide_eq_true_eq] at hw
  obtain ⟨⟨⟨⟨⟨h1, h2⟩, h3⟩, h4⟩, h5⟩, hsets⟩ := hw
  have hb : (m.sets.map Wire.V9.encodeFlowSet).flatten = setsBytes m.sets := rfl
  simp only [decode, Wire.V9.encodeMsg, hb]
  rw [readHeader_roundtrip m _ h1 h2 h3 h4 h5]
  simp only [Wire.V9.expectedHdr, List.headD_cons, ne_eq, not_true_eq_false, if_false]
  have hl := setsBytes_length_ge addr m.sets c hsets
  rw [outer_roundtrip addr m.sets c [] 20 _ [] hsets
    (by simp only [List.length_append]; omega)]
  simp only [Wire.V9.expected]

end Vflow.V9
