import Vflow.Model.V9
import Vflow.Proofs.WireLemmas
import Vflow.Proofs.EqnsV9
/-!
# C06 — NetFlow v9 round trip: what the RFC 3954 encoder of `Spec/Wire.lean` writes, the decoder
model reads back exactly

Levels: field list → record → record loop → flowset → packet.
-/
namespace Vflow.V9
open Vflow Vflow.Wire

attribute [local irreducible] Vflow.lookupElem

/-! ## Level 1: one data record -/

theorem wfField_iff (s : Spec) (v : Bytes) :
    Wire.V9.wfField s v = true ↔ s.ent = 0 ∧ (lookupElem s.ent s.id).isSome = true ∧ v.length = s.len := by
  simp only [Wire.V9.wfField, Bool.and_eq_true, beq_iff_eq, and_assoc]

theorem expectedField_of_lookup {s : Spec} {v : Bytes} {fid ty : Nat}
    (h : lookupElem s.ent s.id = some (fid, ty)) :
    expectedField s v = ⟨fid, s.ent, interpret v ty⟩ := by
  unfold expectedField
  rw [h]

/-- the field loop reads back a conforming list of values -/
theorem decFields_roundtrip : ∀ (specs : List Spec) (vals : List Bytes) (rest : Bytes) (c : Nat)
    (acc : Record),
    specs.length = vals.length → (List.zipWith Wire.V9.wfField specs vals).all id = true →
    decFields specs ⟨vals.flatten ++ rest, c⟩ acc =
      (.ok (acc ++ List.zipWith expectedField specs vals), ⟨rest, c + vals.flatten.length⟩) := by
  intro specs
  induction specs with
  | nil =>
    intro vals rest c acc hl _
    cases vals with
    | nil => simp [decFields_nil]
    | cons v vs => simp at hl
  | cons f fs ih =>
    intro vals rest c acc hl hw
    cases vals with
    | nil => simp at hl
    | cons v vs =>
      simp only [List.zipWith_cons_cons, List.all_cons, id, Bool.and_eq_true] at hw
      obtain ⟨hwf, hws⟩ := hw
      obtain ⟨hent, hsome, hlen⟩ := (wfField_iff f v).1 hwf
      obtain ⟨⟨fid, ty⟩, hlk⟩ := Option.isSome_iff_exists.1 hsome
      have hlk0 : lookupElem 0 f.id = some (fid, ty) := by rw [← hent]; exact hlk
      have hread : Rd.readN ⟨(v :: vs).flatten ++ rest, c⟩ f.len =
          some (v, ⟨vs.flatten ++ rest, c + f.len⟩) := by
        have := readN_append' v (vs.flatten ++ rest) c f.len hlen
        simpa [List.flatten_cons, List.append_assoc] using this
      rw [decFields_cons, hread]
      simp only [hlk0]
      rw [ih vs rest (c + f.len) _ (by simpa using hl) hws]
      rw [List.zipWith_cons_cons, expectedField_of_lookup (v := v) hlk, hent]
      simp [List.flatten_cons, hlen, Nat.add_assoc]

/-- **C06 level 1 (record)**: a conforming data record is decoded exactly as its template describes,
the reader ends right behind it -/
theorem decodeData_roundtrip (t : Template) (vals : List Bytes) (rest : Bytes) (c : Nat)
    (hw : Wire.V9.wfRecord t vals = true) :
    decodeData t ⟨Wire.V9.encodeRecord t vals ++ rest, c⟩ =
      (.ok (expectedRecord t vals), ⟨rest, c + (Wire.V9.encodeRecord t vals).length⟩) := by
  simp only [Wire.V9.wfRecord, Bool.and_eq_true, beq_iff_eq] at hw
  have := decFields_roundtrip (specsOf t) vals rest c [] hw.1 hw.2
  simpa [decodeData, Wire.V9.encodeRecord, expectedRecord, specsOf] using this

/-- a conforming record occupies exactly the length its template announces -/
theorem wf_flatten_length : ∀ (specs : List Spec) (vals : List Bytes),
    specs.length = vals.length → (List.zipWith Wire.V9.wfField specs vals).all id = true →
    vals.flatten.length = (specs.map (·.len)).sum := by
  intro specs
  induction specs with
  | nil => intro vals hl _; cases vals with
    | nil => rfl
    | cons v vs => simp at hl
  | cons f fs ih =>
    intro vals hl hw
    cases vals with
    | nil => simp at hl
    | cons v vs =>
      simp only [List.zipWith_cons_cons, List.all_cons, id, Bool.and_eq_true] at hw
      obtain ⟨hwf, hws⟩ := hw
      obtain ⟨_, _, hlen⟩ := (wfField_iff f v).1 hwf
      have := ih vs (by simpa using hl) hws
      simp [List.flatten_cons, hlen, this]

theorem encodeRecord_length (t : Template) (vals : List Bytes) (hw : Wire.V9.wfRecord t vals = true) :
    (Wire.V9.encodeRecord t vals).length = Wire.V9.recLen t := by
  simp only [Wire.V9.wfRecord, Bool.and_eq_true, beq_iff_eq] at hw
  exact wf_flatten_length _ _ hw.1 hw.2

/-! ## Level 2: the record loop and a whole data flowset -/

/-- octets of a list of records -/
def body (t : Template) (records : List (List Bytes)) : Bytes :=
  (records.map (Wire.V9.encodeRecord t)).flatten

theorem body_nil (t : Template) : body t [] = [] := rfl
theorem body_cons (t : Template) (x : List Bytes) (xs : List (List Bytes)) :
    body t (x :: xs) = Wire.V9.encodeRecord t x ++ body t xs := by
  simp [body]

/-- **C06 level 2a (record loop)**: over `records ++ pad ++ rest`, with the set header announcing
exactly `records ++ pad`, the loop yields all records in order, stops in front of the padding, reports
no error -/
theorem setLoop_data (ctx : Ctx) (hsid : 255 < ctx.setId) (hbig : 4 < Wire.V9.recLen ctx.tr) :
    ∀ (records : List (List Bytes)) (pad rest : Bytes) (fuel : Nat) (st : St),
      (∀ x ∈ records, Wire.V9.wfRecord ctx.tr x = true) →
      pad.length ≤ 4 →
      st.r.rem = body ctx.tr records ++ (pad ++ rest) →
      leftInt ctx st.r = (((body ctx.tr records).length + pad.length : Nat) : Int) →
      records.length < fuel →
      setLoop ctx fuel st =
        ({ st with r := ⟨pad ++ rest, st.r.cnt + (body ctx.tr records).length⟩,
                   recs := st.recs ++ records.map (expectedRecord ctx.tr) }, none) := by
  intro records
  induction records with
  | nil =>
    intro pad rest fuel st _ hpad hrem hlen hfuel
    cases fuel with
    | zero => omega
    | succ n =>
      simp only [setLoop]
      have hc : contCond ctx st.r = false := by
        simp only [contCond, Bool.and_eq_false_iff, decide_eq_false_iff_not]
        left
        rw [hlen, body_nil]; simp only [List.length_nil]; omega
      rw [hc]
      simp only [body_nil, List.nil_append, List.length_nil, Nat.add_zero, List.map_nil,
        List.append_nil] at hrem ⊢
      cases st with
      | mk r cache rs =>
        cases r with
        | mk rem cnt => simp at hrem ⊢; exact hrem
  | cons x xs ih =>
    intro pad rest fuel st hm hpad hrem hlen hfuel
    cases fuel with
    | zero => simp at hfuel
    | succ n =>
      have hmx : Wire.V9.wfRecord ctx.tr x = true := hm x (by simp)
      have hxlen := encodeRecord_length _ x hmx
      simp only [setLoop]
      rw [body_cons] at hrem hlen
      have hc : contCond ctx st.r = true := by
        simp only [contCond, Bool.and_eq_true, decide_eq_true_eq]
        constructor
        · rw [hlen]; simp only [List.length_append]; omega
        · rw [hrem]; simp only [List.length_append]; omega
      rw [if_pos hc]
      have hn01 : ¬ (ctx.setId = 0 ∨ ctx.setId = 1) := by omega
      have hnres : ¬ (4 ≤ ctx.setId ∧ ctx.setId ≤ 255) := by omega
      rw [if_neg hn01, if_neg hnres]
      have hrem' : st.r = ⟨Wire.V9.encodeRecord ctx.tr x ++ (body ctx.tr xs ++ (pad ++ rest)), st.r.cnt⟩ := by
        cases hst : st.r with
        | mk rem cnt =>
          rw [hst] at hrem
          simp only at hrem ⊢
          rw [hrem, List.append_assoc]
      rw [hrem', decodeData_roundtrip ctx.tr x _ _ hmx]
      simp only
      have hne : ¬ (st.r.cnt + (Wire.V9.encodeRecord ctx.tr x).length = st.r.cnt) := by omega
      rw [if_neg hne]
      have := ih pad rest n
        { st with r := ⟨body ctx.tr xs ++ (pad ++ rest), st.r.cnt + (Wire.V9.encodeRecord ctx.tr x).length⟩,
                  recs := st.recs ++ [expectedRecord ctx.tr x] }
        (fun r hr => hm r (by simp [hr])) hpad rfl
        (by simp only [List.length_append, leftInt] at hlen ⊢; omega)
        (by simp only [List.length_cons] at hfuel; omega)
      rw [this]
      simp only [body_cons, List.length_append, List.map_cons, List.append_assoc,
        List.singleton_append, Nat.add_assoc]

/-- the leftover skip eats exactly the padding the loop stopped in front of -/
theorem skipRest_pad (ctx : Ctx) (st : St) (pad rest : Bytes) (c : Nat)
    (hr : st.r = ⟨pad ++ rest, c⟩) (hleft : leftInt ctx st.r = (pad.length : Int)) :
    skipRest ctx st none = ({ st with r := ⟨rest, c + pad.length⟩ }, none) := by
  simp only [skipRest]
  rw [if_neg (by simp), hleft]
  by_cases hp : pad.length = 0
  · have : pad = [] := List.eq_nil_of_length_eq_zero hp
    subst this
    simp only [List.length_nil, Int.natCast_zero, Int.lt_irrefl, if_false, Nat.add_zero]
    cases st with
    | mk r cache rs => simp at hr ⊢; exact hr
  · have hpos : ((pad.length : Nat) : Int) > 0 := by omega
    rw [if_pos hpos, hr]
    simp only [Int.toNat_natCast]
    rw [readN_append]

theorem body_length_ge (t : Template) (hbig : 4 < Wire.V9.recLen t) :
    ∀ (records : List (List Bytes)), (∀ x ∈ records, Wire.V9.wfRecord t x = true) →
      records.length ≤ (body t records).length := by
  intro records
  induction records with
  | nil => intro _; simp
  | cons x xs ih =>
    intro h
    have := ih (fun r hr => h r (by simp [hr]))
    have hx := encodeRecord_length t x (h x (by simp))
    simp only [body_cons, List.length_append, List.length_cons]
    omega

theorem encodeSet_length (id : Nat) (b pad : Bytes) :
    (Wire.V9.encodeSet id b pad).length = 4 + (b.length + pad.length) := by
  simp [Wire.V9.encodeSet, be16_length]; omega

/-- reading the 4-octet flowset header -/
theorem decodeSet_header (addr : Bytes) (fuel id : Nat) (b pad rest : Bytes) (c : Nat)
    (cache : Cache) (recs : List Record) (hid : id < 65536)
    (hlen : 4 + (b ++ pad).length < 65536) :
    decodeSet addr fuel ⟨⟨Wire.V9.encodeSet id b pad ++ rest, c⟩, cache, recs⟩ =
      setBody addr id (4 + (b ++ pad).length) c fuel ⟨⟨b ++ (pad ++ rest), c + 4⟩, cache, recs⟩ := by
  simp only [decodeSet, Wire.V9.encodeSet, List.append_assoc]
  rw [rU16_be16 id hid]
  simp only
  rw [rU16_be16 _ (by simpa using hlen)]
  simp only
  rw [if_neg (by omega)]

/-- **C06 level 2b (data flowset)**: `decodeSet` consumes the whole encoded data flowset (padding
included), appends exactly the expected records, leaves the cache unchanged, reports no error -/
theorem decodeSet_data (addr : Bytes) (t : Template) (records : List (List Bytes)) (pad rest : Bytes)
    (c fuel : Nat) (cache : Cache) (recs : List Record)
    (hw : Wire.V9.wfSet addr cache (.data t records pad) = true) (hfuel : records.length < fuel) :
    decodeSet addr fuel ⟨⟨Wire.V9.encodeDataSet t records pad ++ rest, c⟩, cache, recs⟩ =
      (⟨⟨rest, c + (Wire.V9.encodeDataSet t records pad).length⟩, cache,
        recs ++ records.map (expectedRecord t)⟩, none) := by
  simp only [Wire.V9.wfSet, Wire.V9.wfSetLen, Bool.and_eq_true, decide_eq_true_eq, beq_iff_eq,
    List.all_eq_true] at hw
  obtain ⟨⟨⟨⟨⟨⟨h255, h64k⟩, hlk⟩, hbig⟩, _⟩, hrec⟩, hpad, hlen⟩ := hw
  unfold Wire.V9.encodeDataSet
  rw [decodeSet_header addr fuel t.tid _ pad rest c cache recs h64k hlen]
  simp only [setBody, lookupTpl, if_pos h255, hlk, Option.getD_some]
  have hb : (records.map (Wire.V9.encodeRecord t)).flatten = body t records := rfl
  rw [hb] at hlen ⊢
  have hloop := setLoop_data ⟨addr, t.tid, 4 + (body t records ++ pad).length, c, t⟩ h255 hbig
    records pad rest fuel ⟨⟨body t records ++ (pad ++ rest), c + 4⟩, cache, recs⟩
    hrec hpad rfl (by simp only [leftInt, List.length_append]; omega) hfuel
  rw [hloop]
  simp only
  rw [skipRest_pad _ _ pad rest (c + 4 + (body t records).length) rfl
    (by simp only [leftInt, List.length_append]; omega)]
  simp only [encodeSet_length, List.length_append] at hlen ⊢
  have e : c + 4 + (body t records).length + pad.length = c + (4 + ((body t records).length + pad.length)) := by omega
  rw [e]

end Vflow.V9
