import Vflow.Proofs.SflowSafe
import Vflow.Proofs.DissectTie
import Vflow.Gen.SflowLayouts
/-!
# The fixed-layout readers of the sFlow model read what the CURRENT source reads

`Gen.SflowLayouts.{datagramHeader, sampleInfo, flowSample, counterSample, sampledHeader, extRouter}` are the
statement-by-statement translations (`go/cmd/factgen/sflow_layouts.go`, on every run) of `sfHeaderDecode`,
`getSampleInfo` and the four `unmarshal` functions that are more than a chain of fixed-width reads: a read is a
`Row.num` / `Row.buf` / `Row.raw`, an assignment a `Row.set` / `Row.setOctets` with its right-hand side as an
`Expr`, a validation a `Row.failIf` / `Row.skipIf` with its condition as an `Expr`.  `DissectIR.run` interprets a
row list over the reader state of the model.  Each theorem below states that a hand-written reader of
`Model/Sflow.lean` IS that interpretation — for every octet string — with the decoded structure built from the
values BY FIELD NAME.  So a reordered, dropped, widened or added read, a changed shift or mask in the 24-bit
index, a changed cap, padding rule, address-length rule or tag split in the Go source breaks a proof here.

The three `switch` dispatches and the named constants are regenerated as tables; the model's dispatch is proved to
be the table lookup.
-/
set_option linter.unusedSimpArgs false
namespace Vflow.SflowTie
open Vflow Vflow.Packet Vflow.Sflow Vflow.DissectIR Vflow.DissectTie

/-- the outcome of a row list as the model's result type -/
def outcomeAs {α : Type} (f : Env → α) : Outcome → Res (α × Bytes)
  | .done ρ r => .ok (f ρ, r)
  | .fail e => failAs e
  | .skip _ _ => .panic
  | .stuck => .panic

theorem failAs_io {α : Type} : (failAs "io" : Res α) = .err .eof := rfl
theorem failAs_version {α : Type} : (failAs "errSFVersionNotSupport" : Res α) = .err .version := rfl
theorem failAs_noLen {α : Type} : (failAs "errDataLengthUnknown" : Res α) = .err .noLen := rfl
theorem failAs_hdrLen {α : Type} : (failAs "errMaxOutEthernetLength" : Res α) = .err .hdrLen := rfl
theorem failAs_rtrLen {α : Type} : (failAs "errExtRouterDataLength" : Res α) = .err .rtrLen := rfl

/-- unfold the interpreter on a generated row list -/
macro "rows_unfold" : tactic => `(tactic|
  try simp only [run, outcomeAs, Env.num, Env.octets, List.lookup_cons, String.reduceBEq, String.reduceEq,
    Option.getD_some, Expr.evalWith, Expr.octetsWith, cond_lt, cond_le, cond_eq, cond_ne, cond_gt, cond_ge, cond_beq0, cond_ble, readThen, unless0,
    cond_true, cond_false, if_true, if_false, ite_true, ite_false, failAs_io,
    failAs_version, failAs_noLen, failAs_hdrLen, failAs_rtrLen, u32, readFields, decide_eq_true_eq, decide_true,
    decide_false, Bool.false_eq_true, Nat.one_ne_zero, ne_eq, not_true_eq_false, not_false_eq_true, reduceIte,
    List.drop_zero, Nat.sub_zero, Nat.not_lt_zero])

/-! ## the datagram header (`SFDecoder.sfHeaderDecode`) -/

/-- `SFDatagram`'s fixed part by field name -/
def headerOf (ρ : Env) : Header :=
  ⟨ρ.num "Version", ρ.num "IPVersion", ρ.octets "IPAddress", ρ.num "AgentSubID", ρ.num "SequenceNo",
   ρ.num "SysUpTime", ρ.num "SamplesNo"⟩

/-- version (must be 5), address type, agent address of 4 octets — 16 when the type is 2 — read with
`Reader.Read`, sub-agent id, sequence number, uptime, sample count -/
theorem decodeHeader_ir (bs : Bytes) :
    decodeHeader bs = outcomeAs headerOf (run Gen.SflowLayouts.datagramHeader {} bs) := by
  simp only [Gen.SflowLayouts.datagramHeader, decodeHeader]
  rows_unfold
  rcases full 4 bs with _ | ⟨b1, r1⟩ <;> rows_unfold
  by_cases hv : beN b1 = 5 <;> simp only [hv] <;> rows_unfold
  rcases full 4 r1 with _ | ⟨b2, r2⟩ <;> rows_unfold
  by_cases h2 : beN b2 = 2 <;> simp only [h2] <;> rows_unfold
  all_goals
    rcases rawRead _ r2 with _ | ⟨b3, r3⟩ <;> rows_unfold
    rcases full 4 r3 with _ | ⟨b4, r4⟩ <;> rows_unfold
    rcases full 4 r4 with _ | ⟨b5, r5⟩ <;> rows_unfold
    rcases full 4 r5 with _ | ⟨b6, r6⟩ <;> rows_unfold
    rcases full 4 r6 with _ | ⟨b7, r7⟩ <;> rows_unfold
    simp only [headerOf]
    rows_unfold

/-! ## the 24-bit source id index (`FlowSample.unmarshal`, `CounterSample.unmarshal`: F19b) -/

/-- `uint32(buf[2]) | uint32(buf[1])<<8 | uint32(buf[0])<<16` over the three octets read is their big-endian value -/
theorem idx24 (b : Bytes) (h : b.length = 3) :
    (oct b 2 ||| oct b 1 <<< 8 % 2 ^ 32) ||| oct b 0 <<< 16 % 2 ^ 32 = beN b := by
  match b, h with
  | [x, y, z], _ =>
    have hx := x.toNat_lt; have hy := y.toNat_lt; have hz := z.toNat_lt
    simp only [oct, List.getD_cons_zero, List.getD_cons_succ, beN, List.foldl_cons, List.foldl_nil]
    simp only [Nat.shiftLeft_eq, Nat.reducePow]
    have e1 : y.toNat * 256 % 4294967296 = y.toNat * 256 := Nat.mod_eq_of_lt (by omega)
    have e2 : x.toNat * 65536 % 4294967296 = x.toNat * 65536 := Nat.mod_eq_of_lt (by omega)
    rw [e1, e2]
    clear e1 e2
    rw [Nat.or_comm z.toNat, or_eq_add (y.toNat * 256) _ 8 (by omega) (by omega), Nat.or_comm,
      or_eq_add (x.toNat * 65536) _ 16 (by omega) (by omega)]
    omega

/-! ## the flow sample header (`FlowSample.unmarshal`) -/

def flowSampleOf (ρ : Env) (recs : FlowRecs) : FlowSample :=
  ⟨ρ.num "SequenceNo", ρ.num "SourceID", ρ.num "SourceIDIdx", ρ.num "SamplingRate", ρ.num "SamplePool", ρ.num "Drops",
   ρ.num "Input", ρ.num "Output", ρ.num "RecordsNo", recs⟩

/-- sequence number, source id type (one octet), the 24-bit index assembled from the next three, sampling rate,
pool, drops, input, output, record count — then the record loop over `RecordsNo` -/
theorem decodeFlowSample_ir (bs : Bytes) :
    decodeFlowSample bs =
      match run Gen.SflowLayouts.flowSample {} bs with
      | .done ρ r1 =>
        (match loopN flowRecord (r1.length + 1) (ρ.num "RecordsNo") r1 with
         | .ok (items, r2) => .ok (flowSampleOf ρ (FlowRecs.ofList items), r2)
         | .err e => .err e
         | .panic => .panic
         | .fuel => .fuel)
      | .fail e => failAs e
      | _ => .panic := by
  simp only [Gen.SflowLayouts.flowSample, decodeFlowSample]
  rows_unfold
  rcases full 4 bs with _ | ⟨b1, r1⟩ <;> rows_unfold
  rcases full 1 r1 with _ | ⟨b2, r2⟩ <;> rows_unfold
  rcases h3 : full 3 r2 with _ | ⟨b3, r3⟩ <;> rows_unfold
  have hidx := idx24 b3 (full_some_length h3).2
  rcases full 4 r3 with _ | ⟨b4, r4⟩ <;> rows_unfold
  rcases full 4 r4 with _ | ⟨b5, r5⟩ <;> rows_unfold
  rcases full 4 r5 with _ | ⟨b6, r6⟩ <;> rows_unfold
  rcases full 4 r6 with _ | ⟨b7, r7⟩ <;> rows_unfold
  rcases full 4 r7 with _ | ⟨b8, r8⟩ <;> rows_unfold
  rcases full 4 r8 with _ | ⟨b9, r9⟩ <;> rows_unfold
  simp only [flowSampleOf]
  rows_unfold
  rw [hidx]
  rfl

/-! ## the counter sample header (`CounterSample.unmarshal`) -/

def counterSampleOf (ρ : Env) (recs : CounterRecs) : CounterSample :=
  ⟨ρ.num "SequenceNo", ρ.num "SourceIDType", ρ.num "SourceIDIdx", ρ.num "RecordsNo", recs⟩

theorem decodeCounterSample_ir (bs : Bytes) :
    decodeCounterSample bs =
      match run Gen.SflowLayouts.counterSample {} bs with
      | .done ρ r1 =>
        (match loopN counterRecord (r1.length + 1) (ρ.num "RecordsNo") r1 with
         | .ok (items, r2) => .ok (counterSampleOf ρ (CounterRecs.ofList items), r2)
         | .err e => .err e
         | .panic => .panic
         | .fuel => .fuel)
      | .fail e => failAs e
      | _ => .panic := by
  simp only [Gen.SflowLayouts.counterSample, decodeCounterSample]
  rows_unfold
  rcases full 4 bs with _ | ⟨b1, r1⟩ <;> rows_unfold
  rcases full 1 r1 with _ | ⟨b2, r2⟩ <;> rows_unfold
  rcases h3 : full 3 r2 with _ | ⟨b3, r3⟩ <;> rows_unfold
  have hidx := idx24 b3 (full_some_length h3).2
  rcases full 4 r3 with _ | ⟨b4, r4⟩ <;> rows_unfold
  simp only [counterSampleOf]
  rows_unfold
  rw [hidx]
  rfl

/-! ## the sample tag (`SFDecoder.getSampleInfo`) and the sample dispatch (`SFDecoder.SFDecode`) -/

/-- the function the `switch` of the regenerated table calls for `fmt` -/
def callee (tbl : List (Nat × String × String)) (fmt : Nat) : Option String := (tbl.lookup fmt).map (·.1)

/-- one iteration of the sample loop: the tag word is split by the regenerated expressions
(`sfTypeEnterprise = sfType >> 12`, `sfTypeFormat = sfType & 0xfff`), an enterprise-specific sample is skipped by
its declared length inside `getSampleInfo` (the `skipIf` row), then filter and the regenerated `switch` -/
theorem sampleStep_ir (f : List Nat) (bs : Bytes) :
    sampleStep f bs =
      match run Gen.SflowLayouts.sampleInfo {} bs with
      | .done ρ r =>
        if ρ.num "sfTypeFormat" ∈ f then .ok (none, r.drop (ρ.num "sfDataLength"))
        else if callee Gen.SflowLayouts.sampleDispatch (ρ.num "sfTypeFormat") = some "decodeFlowSample" then
          (decodeFlowSample r).mapFst (fun s => some (.flow s))
        else if callee Gen.SflowLayouts.sampleDispatch (ρ.num "sfTypeFormat") = some "decodeFlowCounter" then
          (decodeCounterSample r).mapFst (fun c => some (.counter c))
        else .ok (none, r.drop (ρ.num "sfDataLength"))
      | .fail e => failAs e
      | .skip _ r => .ok (none, r)
      | .stuck => .panic := by
  simp only [Gen.SflowLayouts.sampleInfo, sampleStep, sampleInfo]
  rows_unfold
  rcases full 4 bs with _ | ⟨b1, r1⟩ <;> rows_unfold
  rcases full 4 r1 with _ | ⟨b2, r2⟩ <;> rows_unfold
  simp only [Nat.shiftRight_eq_div_pow, and_4095, Nat.reducePow]
  by_cases he : beN b1 / 4096 = 0 <;> simp only [he] <;> rows_unfold
  by_cases hf : beN b1 % 4096 ∈ f <;> simp only [hf] <;> rows_unfold
  by_cases h1 : beN b1 % 4096 = 1
  · simp [h1, callee, Gen.SflowLayouts.sampleDispatch, List.lookup]
  · by_cases h2 : beN b1 % 4096 = 2
    · simp [h2, callee, Gen.SflowLayouts.sampleDispatch, List.lookup]
    · have e1 : (beN b1 % 4096 == 1) = false := by simpa using h1
      have e2 : (beN b1 % 4096 == 2) = false := by simpa using h2
      simp [h1, h2, e1, e2, callee, Gen.SflowLayouts.sampleDispatch, List.lookup]

/-! ## the raw-packet-header record (`SampledHeader.unmarshal`) -/

/-- `tmp := (4 - sh.HeaderLength) % 4` in `uint32` is the XDR padding -/
theorem pad32 (hl : Nat) (h : hl ≤ 1500) :
    (if hl ≤ 4 then 4 - hl else 4 + 2 ^ 32 - hl) % 4 = (4 - hl % 4) % 4 := by
  simp only [Nat.reducePow]
  split <;> omega

/-- the field of the `SampledHeader` just read that the regenerated composite literal `&RawHeader{F: h.G, …}` of
`decodeSampledHeader` fills the record's field `F` from (`""` — a name nothing is read into — when the literal has no
such element) -/
def rawSrc (f : String) : String := (Gen.SflowLayouts.rawHeaderLiteral.lookup f).getD ""

/-- `sflow.RawHeader` by field name, through the regenerated literal (F33) -/
def rawHeaderOf (ρ : Env) (pkt : Option Pkt) : RawHeader :=
  ⟨ρ.num (rawSrc "Protocol"), ρ.num (rawSrc "FrameLength"), ρ.num (rawSrc "Stripped"), ρ.num (rawSrc "HeaderLength"), pkt⟩

/-- protocol, frame length, stripped, header length (at most 1500), then `HeaderLength` plus padding octets read
with `Reader.Read` unless there are none, cut back to `HeaderLength`; the record is built from the four words by
the regenerated literal; the dissector runs on exactly these octets under the protocol read first, its packet is
kept when it succeeds -/
theorem decodeSampledHeader_ir (bs : Bytes) :
    decodeSampledHeader bs =
      match run Gen.SflowLayouts.sampledHeader {} bs with
      | .done ρ r =>
        (match dissect (ρ.octets "Header") (ρ.num "Protocol") with
         | .ok p => .ok (rawHeaderOf ρ (some p), r)
         | .err _ => .ok (rawHeaderOf ρ none, r)
         | .panic => .panic
         | .fuel => .fuel)
      | .fail e => failAs e
      | _ => .panic := by
  simp only [Gen.SflowLayouts.sampledHeader, decodeSampledHeader]
  rows_unfold
  rcases full 4 bs with _ | ⟨b1, r1⟩ <;> rows_unfold
  rcases full 4 r1 with _ | ⟨b2, r2⟩ <;> rows_unfold
  rcases full 4 r2 with _ | ⟨b3, r3⟩ <;> rows_unfold
  rcases full 4 r3 with _ | ⟨b4, r4⟩ <;> rows_unfold
  by_cases hc : beN b4 > 1500 <;> simp only [hc] <;> rows_unfold
  have hle : beN b4 ≤ 1500 := by omega
  have hlen : (beN b4 + (if beN b4 ≤ 4 then 4 - beN b4 else 4 + 2 ^ 32 - beN b4) % 4) % 2 ^ 32 =
      beN b4 + (4 - beN b4 % 4) % 4 := by
    rw [pad32 _ hle]; exact Nat.mod_eq_of_lt (by simp only [Nat.reducePow]; omega)
  rw [hlen]
  rcases hr : readHdr (beN b4 + (4 - beN b4 % 4) % 4) r4 with _ | ⟨buf, r5⟩ <;> rows_unfold
  have hb := (readHdr_some hr).1
  rw [slice?_le (Nat.zero_le _) (by omega)]
  simp only [List.drop_zero, Nat.sub_zero, rawHeaderOf, rawSrc, Gen.SflowLayouts.rawHeaderLiteral]
  rows_unfold
  rfl

/-! ## the extended-router record (`ExtRouterData.unmarshal`) -/

def extRouterOf (ρ : Env) : ExtRouter := ⟨ρ.octets "NextHop", ρ.num "SrcMask", ρ.num "DstMask"⟩

/-- the length rule (16 or 28, else `errExtRouterDataLength`), `l - 8` octets of address type and next hop read
at once, `NextHop = buff[4:]`, the two masks -/
theorem decodeExtRouter_ir (l : Nat) (bs : Bytes) :
    decodeExtRouter l bs =
      outcomeAs extRouterOf (run Gen.SflowLayouts.extRouter { nums := [("l", l)] } bs) := by
  simp only [Gen.SflowLayouts.extRouter, decodeExtRouter]
  rows_unfold
  have tail (n : Nat) (h4 : 4 ≤ n) (ρl : Nat) :
      (match full n bs with
        | none => Res.err Err.eof
        | some (buf, r) =>
          match from? buf 4 with
          | Res.ok hop =>
            match
              match full 4 r with
              | none => none
              | some (b, r) =>
                match
                  match full 4 r with
                  | none => none
                  | some (b, r) => some ([beN b], r) with
                | none => none
                | some (vs, r') => some (beN b :: vs, r') with
            | some ([sm, dm], r') => Res.ok ({ nextHop := hop, srcMask := sm, dstMask := dm }, r')
            | _ => Res.err Err.eof
          | Res.err e => Res.err e
          | Res.panic => Res.panic
          | Res.fuel => Res.fuel) =
      match
        match full n bs with
        | none => Outcome.fail "io"
        | some (b, r) =>
          match full 4 r with
          | none => Outcome.fail "io"
          | some (b_1, r) =>
            match full 4 r with
            | none => Outcome.fail "io"
            | some (b_2, r) =>
              Outcome.done
                { nums := [("DstMask", beN b_2), ("SrcMask", beN b_1), ("l", ρl)],
                  bufs := [("NextHop", List.drop 4 b), ("buff", b)] }
                r with
      | Outcome.done ρ r => Res.ok (extRouterOf ρ, r)
      | Outcome.fail e => failAs e
      | Outcome.skip err rest => Res.panic
      | Outcome.stuck => Res.panic := by
    rcases hf : full n bs with _ | ⟨b1, r1⟩ <;> rows_unfold
    rw [from?_le (by rw [(full_some_length hf).2]; exact h4)]
    simp only []
    rcases full 4 r1 with _ | ⟨b2, r2⟩ <;> rows_unfold
    rcases full 4 r2 with _ | ⟨b3, r3⟩ <;> rows_unfold
    simp only [extRouterOf]
    rows_unfold
  by_cases h16 : l = 16
  · subst h16
    simp only [Nat.reduceEqDiff, not_true_eq_false, false_and, if_false, reduceIte, Nat.reduceLeDiff, Nat.reduceSub]
    exact tail 8 (by omega) 16
  · by_cases h28 : l = 28
    · subst h28
      simp only [Nat.reduceEqDiff, not_true_eq_false, and_false, if_false, reduceIte, Nat.reduceLeDiff,
        Nat.reduceSub, not_false_eq_true]
      exact tail 20 (by omega) 28
    · simp only [h16, h28, not_false_eq_true, and_self, if_true, reduceIte, Nat.one_ne_zero]
      rfl

/-! ## the flow-record and counter-record dispatches -/

/-- the extended-router length rule of the record loop: the regenerated skip condition of case 1002 -/
theorem flowRecordSkip_ir (len : Nat) :
    (Gen.SflowLayouts.flowRecordSkips.map (fun p => (p.1, decide (p.2.evalWith (fun _ => len) [] ≠ 0)))) =
      [(1002, decide (len ≠ 16 ∧ len ≠ 28))] := by
  simp only [Gen.SflowLayouts.flowRecordSkips, List.map, Expr.evalWith, cond_ne]
  by_cases h16 : len = 16 <;> by_cases h28 : len = 28 <;> simp [h16, h28]

/-- one iteration of the record loop of `decodeFlowSample`: format and length words, then the regenerated
`switch` (raw header / extended switch / extended router, anything else skipped by its declared length) -/
theorem flowRecord_ir (bs : Bytes) :
    flowRecord bs =
      match u32 bs with
      | none => .err .eof
      | some (fmt, r1) =>
        match u32 r1 with
        | none => .err .eof
        | some (len, r2) =>
          if callee Gen.SflowLayouts.flowRecordDispatch fmt = some "decodeSampledHeader" then
            (decodeSampledHeader r2).mapFst (fun h => some (.raw h))
          else if callee Gen.SflowLayouts.flowRecordDispatch fmt = some "decodeExtSwitchData" then
            (decodeExtSwitch r2).mapFst (fun s => some (.sw s))
          else if callee Gen.SflowLayouts.flowRecordDispatch fmt = some "decodeExtRouterData" then
            if ((Gen.SflowLayouts.flowRecordSkips.lookup fmt).getD (.unrecognised "")).evalWith (fun _ => len) [] ≠ 0 then
              .ok (none, r2.drop len)
            else (decodeExtRouter len r2).mapFst (fun x => some (.rtr x))
          else .ok (none, r2.drop len) := by
  unfold flowRecord
  rcases u32 bs with _ | ⟨fmt, r1⟩ <;> simp only []
  rcases u32 r1 with _ | ⟨len, r2⟩ <;> simp only []
  by_cases h1 : fmt = 1
  · simp [h1, callee, Gen.SflowLayouts.flowRecordDispatch, List.lookup]
  · by_cases h2 : fmt = 1001
    · simp [h2, callee, Gen.SflowLayouts.flowRecordDispatch, List.lookup]
    · by_cases h3 : fmt = 1002
      · subst h3
        simp only [callee, Gen.SflowLayouts.flowRecordDispatch, Gen.SflowLayouts.flowRecordSkips, List.lookup,
          Expr.evalWith, cond_ne]
        by_cases h16 : len = 16 <;> by_cases h28 : len = 28 <;> simp [h16, h28, Expr.evalWith, cond_ne]
      · have e1 : (fmt == 1) = false := by simpa using h1
        have e2 : (fmt == 1001) = false := by simpa using h2
        have e3 : (fmt == 1002) = false := by simpa using h3
        simp [h1, h2, h3, e1, e2, e3, callee, Gen.SflowLayouts.flowRecordDispatch, List.lookup]

/-- the layout the regenerated tables select for a counter record format: `switch rTypeFormat` → the decoder
function → the struct whose `unmarshal` it runs → that struct's regenerated read sequence -/
def genCounterLayout (fmt : Nat) : Option Layout :=
  ((callee Gen.SflowLayouts.counterDispatch fmt).bind (fun f => List.lookup f Gen.SflowLayouts.counterDecoders)).bind
    (fun t => List.lookup t Gen.SflowLayouts.counterStructs)

set_option maxRecDepth 4000 in
/-- the model's `counterLayout` (six formats, each with its hand-written layout) is the regenerated selection -/
theorem counterLayout_ir (fmt : Nat) : counterLayout fmt = genCounterLayout fmt := by
  unfold counterLayout genCounterLayout callee
  by_cases h1 : fmt = 1
  · subst h1; decide +kernel
  · by_cases h2 : fmt = 2
    · subst h2; decide +kernel
    · by_cases h3 : fmt = 3
      · subst h3; decide +kernel
      · by_cases h4 : fmt = 4
        · subst h4; decide +kernel
        · by_cases h5 : fmt = 5
          · subst h5; decide +kernel
          · by_cases h6 : fmt = 1001
            · subst h6; decide +kernel
            · have e1 : (fmt == 1) = false := by simpa using h1
              have e2 : (fmt == 2) = false := by simpa using h2
              have e3 : (fmt == 3) = false := by simpa using h3
              have e4 : (fmt == 4) = false := by simpa using h4
              have e5 : (fmt == 5) = false := by simpa using h5
              have e6 : (fmt == 1001) = false := by simpa using h6
              simp [h1, h2, h3, h4, h5, h6, e1, e2, e3, e4, e5, e6, Gen.SflowLayouts.counterDispatch, List.lookup]

/-- the value read for the field named `n` of a layout -/
def namedVal (l : Layout) (vs : List Nat) (n : String) : Nat := (((l.map (·.1)).zip vs).lookup n).getD 0

/-- `ExtSwitchData.unmarshal`: the four words by field name (F6 was `DstPriority` landing in `SrcPriority`) -/
theorem decodeExtSwitch_ir (bs : Bytes) :
    decodeExtSwitch bs =
      match readFields (widths Gen.SflowLayouts.extSwitch) bs with
      | some (vs, r) =>
        .ok (⟨namedVal Gen.SflowLayouts.extSwitch vs "SrcVlan", namedVal Gen.SflowLayouts.extSwitch vs "SrcPriority",
              namedVal Gen.SflowLayouts.extSwitch vs "DstVlan", namedVal Gen.SflowLayouts.extSwitch vs "DstPriority"⟩, r)
      | none => .err .eof := by
  simp only [Gen.SflowLayouts.extSwitch, decodeExtSwitch, widths, List.map, readFields]
  rcases full 4 bs with _ | ⟨b1, r1⟩ <;> simp only []
  rcases full 4 r1 with _ | ⟨b2, r2⟩ <;> simp only []
  rcases full 4 r2 with _ | ⟨b3, r3⟩ <;> simp only []
  rcases full 4 r3 with _ | ⟨b4, r4⟩ <;> simp only []
  simp [namedVal, List.lookup]

/-- the dispatch constants by name, the `Records` keys, the default clauses (skip by declared length), what
`getSampleInfo` hands back, and nothing unrecognised in any row list -/
theorem tables :
    Gen.SflowLayouts.consts.lookup "DataFlowSample" = some 1 ∧ Gen.SflowLayouts.consts.lookup "DataCounterSample" = some 2 ∧
    Gen.SflowLayouts.consts.lookup "SFDataRawHeader" = some 1 ∧ Gen.SflowLayouts.consts.lookup "SFDataExtSwitch" = some 1001 ∧
    Gen.SflowLayouts.consts.lookup "SFDataExtRouter" = some 1002 ∧
    Gen.SflowLayouts.consts.lookup "SFGenericInterfaceCounters" = some 1 ∧
    Gen.SflowLayouts.consts.lookup "SFEthernetInterfaceCounters" = some 2 ∧
    Gen.SflowLayouts.consts.lookup "SFTokenRingInterfaceCounters" = some 3 ∧
    Gen.SflowLayouts.consts.lookup "SF100BaseVGInterfaceCounters" = some 4 ∧
    Gen.SflowLayouts.consts.lookup "SFVLANCounters" = some 5 ∧ Gen.SflowLayouts.consts.lookup "SFProcessorCounters" = some 1001 ∧
    Gen.SflowLayouts.flowRecordDispatch.map (fun p => (p.1, p.2.2)) = [(1, "RawHeader"), (1001, "ExtSwitch"), (1002, "ExtRouter")] ∧
    Gen.SflowLayouts.counterDispatch.map (fun p => (p.1, p.2.2)) =
      [(1, "GenInt"), (2, "EthInt"), (3, "TRInt"), (4, "VGInt"), (5, "Vlan"), (1001, "Proc")] ∧
    Gen.SflowLayouts.sampleDispatchDefault = "d.reader.Seek(int64(sfDataLength), 1)" ∧
    Gen.SflowLayouts.flowRecordDispatchDefault = "r.Seek(int64(rTypeLength), 1)" ∧
    Gen.SflowLayouts.counterDispatchDefault = "r.Seek(int64(rTypeLength), 1)" ∧
    Gen.SflowLayouts.sampleInfoReturns = ["sfTypeFormat", "sfDataLength"] ∧
    Gen.SflowLayouts.flowDecoders = [("decodeExtSwitchData", "ExtSwitchData"), ("decodeExtRouterData", "ExtRouterData")] ∧
    Gen.SflowLayouts.sampledHeaderDecoder =
      ["var ( h = new(SampledHeader) err error )", "if err = h.unmarshal(r); err != nil { return nil, err }",
       "rh := &RawHeader{ Protocol: h.Protocol, FrameLength: h.FrameLength, Stripped: h.Stripped, HeaderLength: h.HeaderLength, }",
       "p := packet.NewPacket()", "if d, err := p.Decoder(h.Header, h.Protocol); err == nil { rh.Packet = d }",
       "return rh, nil"] ∧
    Gen.SflowLayouts.rawHeaderLiteral =
      [("Protocol", "Protocol"), ("FrameLength", "FrameLength"), ("Stripped", "Stripped"), ("HeaderLength", "HeaderLength")] ∧
    (Gen.SflowLayouts.datagramHeader ++ Gen.SflowLayouts.sampleInfo ++ Gen.SflowLayouts.flowSample ++
      Gen.SflowLayouts.counterSample ++ Gen.SflowLayouts.sampledHeader ++ Gen.SflowLayouts.extRouter).all Row.known = true := by
  decide +kernel

end Vflow.SflowTie
