import Vflow.Proofs.V9IRSet
import Vflow.Proofs.IpfixIRMsg
/-!
# The translated `Decoder.Decode` of `netflow/v9/decoder.go` is `V9.decode` (as `Proofs/IpfixIRMsg.lean`)
-/
set_option linter.unusedSimpArgs false
namespace Vflow.V9IR
open Vflow Vflow.IpfixIR
attribute [local irreducible] Vflow.lookupElem

/-! ## `Decode` -/

def dc (i : Nat) : Stmt := Gen.V9IR.decode.body.nth i
theorem dc_body : Gen.V9IR.decode.body = blk [dc 0, dc 1, dc 2, dc 3, dc 4, dc 5, dc 6] := rfl
theorem dc5_shape : dc 5 = .loop (dc 5).loopCond (dc 5).loopBody .skip := rfl

/-- the collected non-fatal errors as Go values -/
def nfErrs (errs : List Err) : List GErr := errs.map fun e => ⟨true, e⟩

section
variable (addr : Bytes) (fuel : Nat)

abbrev dcLink : Linkage :=
  [("pktHeaderUnmarshal", V9Prog.pktHeaderUnmarshal addr fuel), ("pktHeaderValidate", V9Prog.pktHeaderValidate addr fuel),
   ("decodeSet", V9Prog.decodeSet addr fuel)]

theorem dc5_cond (st : St) (m e1 e2 l e4 : V) :
    eval addr st [m, e1, e2, l, e4] (dc 5).loopCond = some (.bool (decide (st.r.rem.length > 4))) := by
  ir_simp [dc, Stmt.nth, Stmt.items, Stmt.loopCond, Gen.V9IR.decode]

/-- one round of the set loop of `Decode` -/
theorem dc_body5 (agent : Bytes) (hdr : PHdr) (st : V9.St) (f' K : Nat) (errs : List Err) (e1 e2 e4 : V)
    (hfuel : st.r.rem.length < fuel) (hf' : st.r.rem.length < f') (hc : V9.CacheB K st.cache) (hK : K < fuel) :
    exec addr (dcLink addr fuel) fuel (dc 5).loopBody ⟨st.r, st.cache⟩ [.msg9 agent hdr st.recs, e1, e2, .errs (nfErrs errs), e4] =
      match V9.decodeSet addr f' st with
      | (st', none) => some (.norm, ⟨st'.r, st'.cache⟩, [.msg9 agent hdr st'.recs, e1, e2, .errs (nfErrs errs), .nil])
      | (st', some e) =>
        if e.nonfatal then
          some (.norm, ⟨st'.r, st'.cache⟩, [.msg9 agent hdr st'.recs, e1, e2, .errs (nfErrs (errs ++ [e])), .err ⟨true, e⟩])
        else some (.ret [.nil, .err ⟨false, e⟩], ⟨st'.r, st'.cache⟩, [.msg9 agent hdr st'.recs, e1, e2, .errs (nfErrs errs), .err ⟨false, e⟩]) := by
  have hs := decodeSet_sem addr fuel f' K st agent hdr hfuel hf' hc hK
  rcases hd : V9.decodeSet addr f' st with ⟨st', _ | e⟩
  · simp only [hd, V9Prog.errV] at hs
    ir_simp [dc, Stmt.nth, Stmt.items, Stmt.loopBody, Gen.V9IR.decode, hs]
  · simp only [hd, V9Prog.errV] at hs
    by_cases hn : e.nonfatal = true
    · ir_simp [dc, Stmt.nth, Stmt.items, Stmt.loopBody, Gen.V9IR.decode, hs, hn, nfErrs]
    · ir_simp [dc, Stmt.nth, Stmt.items, Stmt.loopBody, Gen.V9IR.decode, hs, hn]

/-- outcome of the set loop of `Decode` against `V9.outer` -/
def DcLoopOut (agent : Bytes) (hdr : PHdr) (e1 e2 : V) (res : V9.St × Option Err × List Err) (out : Res) : Prop :=
  match res with
  | (st', none, errs') => ∃ e4', out = some (.norm, ⟨st'.r, st'.cache⟩, [.msg9 agent hdr st'.recs, e1, e2, .errs (nfErrs errs'), e4'])
  | (st', some e, _) => ∃ env', out = some (.ret [.nil, .err ⟨false, e⟩], ⟨st'.r, st'.cache⟩, env')

theorem dc_loop5 (agent : Bytes) (hdr : PHdr) (e1 e2 : V) (K L : Nat) (hKL : L / 4 ≤ K) (hK : K < fuel) :
    ∀ (k k' : Nat) (st : V9.St) (errs : List Err) (e4 : V),
    st.r.rem.length < k → st.r.rem.length < k' → st.r.rem.length < fuel → V9.Inv K L st →
    DcLoopOut agent hdr e1 e2 (V9.outer addr k' st errs)
      (loopF (fun st env => eval addr st env (dc 5).loopCond) (exec addr (dcLink addr fuel) fuel (dc 5).loopBody)
        (exec addr (dcLink addr fuel) fuel .skip) k ⟨st.r, st.cache⟩ [.msg9 agent hdr st.recs, e1, e2, .errs (nfErrs errs), e4]) := by
  intro k
  induction k with
  | zero => intro k' st _ _ hk; omega
  | succ k ih =>
    intro k' st errs e4 hk hk' hfuel hinv
    obtain ⟨k', rfl⟩ : ∃ n, k' = n + 1 := ⟨k' - 1, by omega⟩
    simp only [V9.outer, loopF, dc5_cond]
    by_cases hgt : st.r.rem.length > 4
    · simp only [hgt, decide_true, if_true]
      rw [dc_body5 addr fuel agent hdr st (st.r.rem.length + 1) K errs e1 e2 e4 hfuel (Nat.lt_succ_self _) hinv.2.1 hK]
      rcases hd : V9.decodeSet addr (st.r.rem.length + 1) st with ⟨st', _ | e⟩
      · have t1 := V9.decodeSet_fuel (Nat.lt_succ_self _) hd
        have hi' := V9.decodeSet_inv hKL hinv hd
        have hadv := t1.2.1.1
        have hc4 : st.r.cnt + 4 ≤ st'.r.cnt := by
          rcases t1.2.2 with h0 | h0
          · simp at h0
          · exact h0
        have := hadv.1
        simp only [exec_skip_eq]
        exact ih k' st' errs .nil (by omega) (by omega) (by omega) hi'
      · have t1 := V9.decodeSet_fuel (Nat.lt_succ_self _) hd
        have hi' := V9.decodeSet_inv hKL hinv hd
        have hadv := t1.2.1.1
        by_cases hn : e.nonfatal = true
        · have hc4 : st.r.cnt + 4 ≤ st'.r.cnt := by
            rcases t1.2.2 with h0 | h0
            · simp at h0; subst h0; simp [Err.nonfatal] at hn
            · exact h0
          have := hadv.1
          simp only [hn, if_true, exec_skip_eq]
          exact ih k' st' (errs ++ [e]) _ (by omega) (by omega) (by omega) hi'
        · simp only [hn, Bool.false_eq_true, if_false, DcLoopOut]
          exact ⟨_, rfl⟩
    · simp only [hgt, decide_false, if_false, DcLoopOut, Bool.false_eq_true]
      exact ⟨e4, rfl⟩
end
theorem ofHdr_toHdr (h : PHdr) : PHdr.ofHdr h.toHdr = h := rfl

theorem decode_sem (c : Cache) (addr bs : Bytes) (fuel : Nat) (hfuel : bs.length < fuel)
    (hc : ∀ e ∈ c, e.2.scope.length + e.2.fields.length < fuel) :
    ∃ r', V9Prog.decode addr fuel [] ⟨⟨bs, 0⟩, c⟩ =
      some (⟨r', (V9.decode c addr bs).2⟩, [], V9Prog.decodeResult addr (V9.decode c addr bs).1) := by
  unfold V9Prog.decode Func.sem
  have henv : (([] : List V) ++ List.replicate (Gen.V9IR.decode.nslots - ([] : List V).length) V.unset) =
      [.unset, .unset, .unset, .unset, .unset] := rfl
  rw [henv, dc_body]
  have e0 : ∀ (st : St) x0 x1 x2 x3 x4, exec addr (dcLink addr fuel) fuel (dc 0) st [x0, x1, x2, x3, x4] =
      some (.norm, st, [.msg9 [] {} [], x1, x2, x3, x4]) := by
    intros; ir_simp [dc, Stmt.nth, Stmt.items, Gen.V9IR.decode]
  have e3 : ∀ (st : St) a h s x1 x2 x3 x4, exec addr (dcLink addr fuel) fuel (dc 3) st [.msg9 a h s, x1, x2, x3, x4] =
      some (.norm, st, [.msg9 addr h s, x1, x2, x3, x4]) := by
    intros; ir_simp [dc, Stmt.nth, Stmt.items, Gen.V9IR.decode]
  have e4 : ∀ (st : St) x0 x1 x2 x3 x4, exec addr (dcLink addr fuel) fuel (dc 4) st [x0, x1, x2, x3, x4] =
      some (.norm, st, [x0, x1, x2, .errs [], x4]) := by
    intros; ir_simp [dc, Stmt.nth, Stmt.items, Gen.V9IR.decode]
  have e6 : ∀ (st : St) a h s x1 x2 l x4, exec addr (dcLink addr fuel) fuel (dc 6) st [.msg9 a h s, x1, x2, .errs l, x4] =
      some (.ret [.msg9 a h s, .errs l], st, [.msg9 a h s, x1, x2, .errs l, x4]) := by
    intros; ir_simp [dc, Stmt.nth, Stmt.items, Gen.V9IR.decode]
  have hmh := pktHeaderUnmarshal_sem addr fuel ⟨bs, 0⟩ c {}
  unfold V9.decode
  rcases hrh : V9.readHeader ⟨bs, 0⟩ with _ | ⟨h, r5⟩
  · simp only [hrh] at hmh
    obtain ⟨r', h1, hmh⟩ := hmh
    have e1 : ∀ x1 x2 x3 x4, exec addr (dcLink addr fuel) fuel (dc 1) ⟨⟨bs, 0⟩, c⟩ [.msg9 [] {} [], x1, x2, x3, x4] =
        some (.ret [.nil, errReader], ⟨r', c⟩, [.msg9 [] h1 [], errReader, x2, x3, x4]) := by
      intros; ir_simp [dc, Stmt.nth, Stmt.items, Gen.V9IR.decode, hmh]
    refine ⟨r', ?_⟩
    simp only [blk, exec_seq_eq, e0, e1]
    simp [Gen.V9IR.decode, List.filter, ParamKind.hasSlot, readSlots, refSlots, V9Prog.decodeResult, errReader]
  · simp only [hrh] at hmh
    simp only []
    obtain ⟨h1, hh1, hmh⟩ := hmh
    have e1 : ∀ x1 x2 x3 x4, exec addr (dcLink addr fuel) fuel (dc 1) ⟨⟨bs, 0⟩, c⟩ [.msg9 [] {} [], x1, x2, x3, x4] =
        some (.norm, ⟨r5, c⟩, [.msg9 [] h1 [], .nil, x2, x3, x4]) := by
      intros; ir_simp [dc, Stmt.nth, Stmt.items, Gen.V9IR.decode, hmh]
    have hval := pktHeaderValidate_sem addr fuel ⟨r5, c⟩ h1
    by_cases hv : h.headD 0 ≠ 9
    · have e2 : ∀ x1 x2 x3 x4, exec addr (dcLink addr fuel) fuel (dc 2) ⟨r5, c⟩ [.msg9 [] h1 [], x1, x2, x3, x4] =
          some (.ret [.nil, .err ⟨false, .badVersion⟩], ⟨r5, c⟩, [.msg9 [] h1 [], x1, .err ⟨false, .badVersion⟩, x3, x4]) := by
        intros
        rw [hh1, if_pos hv] at hval
        ir_simp [dc, Stmt.nth, Stmt.items, Gen.V9IR.decode, hval]
      refine ⟨r5, ?_⟩
      rw [if_pos hv]
      simp only [blk, exec_seq_eq, e0, e1, e2]
      simp [Gen.V9IR.decode, List.filter, ParamKind.hasSlot, readSlots, refSlots, V9Prog.decodeResult]
    · have e2 : ∀ x1 x2 x3 x4, exec addr (dcLink addr fuel) fuel (dc 2) ⟨r5, c⟩ [.msg9 [] h1 [], x1, x2, x3, x4] =
          some (.norm, ⟨r5, c⟩, [.msg9 [] h1 [], x1, .nil, x3, x4]) := by
        intros
        rw [hh1, if_neg hv] at hval
        ir_simp [dc, Stmt.nth, Stmt.items, Gen.V9IR.decode, hval]
      have ha := V9.readHeader_adv hrh
      have hK : fuel - 1 < fuel := by omega
      have hcb : V9.CacheB (fuel - 1) c := by
        intro e he; have := hc e he; simp only [V9.nfields]; omega
      have hinv : V9.Inv (fuel - 1) bs.length ⟨r5, c, []⟩ :=
        ⟨by have := ha.1; simpa using this, hcb, by simp⟩
      have hlen : r5.rem.length ≤ bs.length := by have := ha.1; have := ha.2; simp only at *; omega
      have hl := dc_loop5 addr fuel addr h1 .nil .nil (fuel - 1) bs.length (by omega) hK fuel (bs.length + 1) ⟨r5, c, []⟩ [] .unset
        (by simp only; omega) (by simp only; omega) (by simp only; omega) hinv
      simp only [blk, exec_seq_eq, e0, e1, e2, e3, e4]
      rw [dc5_shape, exec_loop_eq]
      simp only [nfErrs, List.map_nil] at hl
      rw [if_neg hv]
      rcases ho : V9.outer addr (bs.length + 1) ⟨r5, c, []⟩ [] with ⟨st', _ | e, errs'⟩
      · simp only [ho, DcLoopOut] at hl
        obtain ⟨e4', hl⟩ := hl
        refine ⟨st'.r, ?_⟩
        simp only [hl, exec_skip_eq, e6]
        simp [Gen.V9IR.decode, List.filter, ParamKind.hasSlot, readSlots, refSlots, V9Prog.decodeResult, nfErrs,
          ← hh1, ofHdr_toHdr]
      · simp only [ho, DcLoopOut] at hl
        obtain ⟨env', hl⟩ := hl
        refine ⟨st'.r, ?_⟩
        simp only [hl]
        simp [Gen.V9IR.decode, List.filter, ParamKind.hasSlot, readSlots, refSlots, V9Prog.decodeResult]

end Vflow.V9IR
