import Vflow.Model.Reader
/-!
# Reader lemmas shared by the IPFIX / NetFlow v9 proofs

Position accounting (`tot` = consumed + remaining is constant) and the effect of the
`Nat`-indexed read operations.
-/
namespace Vflow

/-- consumed + remaining -/
def Rd.tot (r : Rd) : Nat := r.cnt + r.rem.length

theorem readN_some {r r' : Rd} {n : Nat} {b : Bytes} (h : r.readN n = some (b, r')) :
    n ≤ r.rem.length ∧ b = r.rem.take n ∧ r' = ⟨r.rem.drop n, r.cnt + n⟩ := by
  unfold Rd.readN at h
  split at h
  · simp at h
  · simp at h; exact ⟨by omega, h.1.symm, h.2.symm⟩

theorem readN_tot {r r' : Rd} {n : Nat} {b : Bytes} (h : r.readN n = some (b, r')) :
    r'.tot = r.tot ∧ r'.cnt = r.cnt + n := by
  obtain ⟨h1, _, rfl⟩ := readN_some h
  simp [Rd.tot]; omega

theorem rU8_tot {r r' : Rd} {v : Nat} (h : r.rU8 = some (v, r')) :
    r'.tot = r.tot ∧ r'.cnt = r.cnt + 1 := by
  simp only [Rd.rU8, Option.map_eq_some_iff] at h
  obtain ⟨⟨b, r1⟩, h1, h2⟩ := h
  simp at h2; obtain ⟨_, rfl⟩ := h2
  exact readN_tot h1

theorem rU16_tot {r r' : Rd} {v : Nat} (h : r.rU16 = some (v, r')) :
    r'.tot = r.tot ∧ r'.cnt = r.cnt + 2 := by
  simp only [Rd.rU16, Option.map_eq_some_iff] at h
  obtain ⟨⟨b, r1⟩, h1, h2⟩ := h
  simp at h2; obtain ⟨_, rfl⟩ := h2
  exact readN_tot h1

theorem rU32_tot {r r' : Rd} {v : Nat} (h : r.rU32 = some (v, r')) :
    r'.tot = r.tot ∧ r'.cnt = r.cnt + 4 := by
  simp only [Rd.rU32, Option.map_eq_some_iff] at h
  obtain ⟨⟨b, r1⟩, h1, h2⟩ := h
  simp at h2; obtain ⟨_, rfl⟩ := h2
  exact readN_tot h1

/-- the reader moved forward inside the same buffer -/
def Adv (r r' : Rd) : Prop := r'.cnt + r'.rem.length = r.cnt + r.rem.length ∧ r.cnt ≤ r'.cnt

theorem Adv.refl (r : Rd) : Adv r r := ⟨rfl, Nat.le_refl _⟩
theorem Adv.trans {a b c : Rd} (h1 : Adv a b) (h2 : Adv b c) : Adv a c :=
  ⟨by rw [h2.1, h1.1], Nat.le_trans h1.2 h2.2⟩

theorem adv_readN {r r' : Rd} {n : Nat} {b : Bytes} (h : r.readN n = some (b, r')) :
    Adv r r' ∧ r'.cnt = r.cnt + n := by
  have := readN_tot h; simp only [Rd.tot] at this; exact ⟨⟨this.1, by omega⟩, this.2⟩
theorem adv_rU16 {r r' : Rd} {v : Nat} (h : r.rU16 = some (v, r')) :
    Adv r r' ∧ r'.cnt = r.cnt + 2 := by
  have := rU16_tot h; simp only [Rd.tot] at this; exact ⟨⟨this.1, by omega⟩, this.2⟩
theorem adv_rU32 {r r' : Rd} {v : Nat} (h : r.rU32 = some (v, r')) :
    Adv r r' ∧ r'.cnt = r.cnt + 4 := by
  have := rU32_tot h; simp only [Rd.tot] at this; exact ⟨⟨this.1, by omega⟩, this.2⟩

/-! ## `Drops`: the reader is a suffix of what it was, at its own offset

`Adv` only accounts for lengths.  The linear allocation bound (C02, finding K4) has to name the template
records a datagram carries by their offset, so it needs to know *which* octets are left: `Drops r r'` says
that `r'` is `r` with `m` octets removed from the front and the count advanced by the same `m`. -/

def Drops (r r' : Rd) : Prop := ∃ m, m ≤ r.rem.length ∧ r' = ⟨r.rem.drop m, r.cnt + m⟩

theorem Drops.refl (r : Rd) : Drops r r := ⟨0, Nat.zero_le _, by simp⟩

theorem Drops.trans {a b c : Rd} (h1 : Drops a b) (h2 : Drops b c) : Drops a c := by
  obtain ⟨m, hm, rfl⟩ := h1
  obtain ⟨n, hn, rfl⟩ := h2
  simp only [List.length_drop] at hn
  exact ⟨m + n, by omega, by simp [List.drop_drop, Nat.add_assoc]⟩

theorem Drops.adv {r r' : Rd} (h : Drops r r') : Adv r r' := by
  obtain ⟨m, hm, rfl⟩ := h
  refine ⟨?_, ?_⟩
  · simp only [List.length_drop]; omega
  · simp only; omega

theorem Drops.cnt_le {r r' : Rd} (h : Drops r r') : r.cnt ≤ r'.cnt := h.adv.2

theorem drops_readN {r r' : Rd} {n : Nat} {b : Bytes} (h : r.readN n = some (b, r')) : Drops r r' := by
  obtain ⟨h1, _, h3⟩ := readN_some h
  exact ⟨n, h1, h3⟩

theorem drops_rU8 {r r' : Rd} {v : Nat} (h : r.rU8 = some (v, r')) : Drops r r' := by
  simp only [Rd.rU8, Option.map_eq_some_iff] at h
  obtain ⟨⟨b, r1⟩, h1, h2⟩ := h
  simp at h2; obtain ⟨_, rfl⟩ := h2
  exact drops_readN h1

theorem drops_rU16 {r r' : Rd} {v : Nat} (h : r.rU16 = some (v, r')) : Drops r r' := by
  simp only [Rd.rU16, Option.map_eq_some_iff] at h
  obtain ⟨⟨b, r1⟩, h1, h2⟩ := h
  simp at h2; obtain ⟨_, rfl⟩ := h2
  exact drops_readN h1

theorem drops_rU32 {r r' : Rd} {v : Nat} (h : r.rU32 = some (v, r')) : Drops r r' := by
  simp only [Rd.rU32, Option.map_eq_some_iff] at h
  obtain ⟨⟨b, r1⟩, h1, h2⟩ := h
  simp at h2; obtain ⟨_, rfl⟩ := h2
  exact drops_readN h1

/-- `r` is a reader over the datagram `bs`: what is left is the suffix of `bs` at the reader's own offset -/
def Sfx (bs : Bytes) (r : Rd) : Prop := r.cnt ≤ bs.length ∧ r.rem = bs.drop r.cnt

theorem Sfx.init (bs : Bytes) : Sfx bs ⟨bs, 0⟩ := ⟨Nat.zero_le _, by simp⟩

theorem Sfx.drops {bs : Bytes} {r r' : Rd} (h : Sfx bs r) (hd : Drops r r') : Sfx bs r' := by
  obtain ⟨m, hm, rfl⟩ := hd
  obtain ⟨h1, h2⟩ := h
  rw [h2, List.length_drop] at hm
  refine ⟨by simp only; omega, ?_⟩
  simp only; rw [h2, List.drop_drop]

/-- a reader over `bs` is determined by its offset -/
theorem Sfx.eq {bs : Bytes} {r : Rd} (h : Sfx bs r) : r = ⟨bs.drop r.cnt, r.cnt⟩ := by
  obtain ⟨rem, cnt⟩ := r
  simp only [Sfx] at h
  simp only [Rd.mk.injEq, and_true]
  exact h.2

end Vflow
