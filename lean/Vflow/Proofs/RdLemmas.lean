import Vflow.Model.Reader
/-!
# Reader lemmas shared by the IPFIX / NetFlow v9 proofs

Position accounting (`tot` = consumed + remaining is constant) and the effect of the
`Nat`-indexed read operations.
-/
namespace Vflow

/-- consumed + remaining -/
def Rd.tot (r : Rd) : Nat := r.cnt + r.rem.length

theorem readN_some {r r' : Rd} {n : Nat} {b : Bytes} (h : r.readN n = some (b, r')) :
    n ≤ r.rem.length ∧ b = r.rem.take n ∧ r' = ⟨r.rem.drop n, r.cnt + n⟩ := by
  unfold Rd.readN at h
  split at h
  · simp at h
  · simp at h; exact ⟨by omega, h.1.symm, h.2.symm⟩

theorem readN_tot {r r' : Rd} {n : Nat} {b : Bytes} (h : r.readN n = some (b, r')) :
    r'.tot = r.tot ∧ r'.cnt = r.cnt + n := by
  obtain ⟨h1, _, rfl⟩ := readN_some h
  simp [Rd.tot]; omega

theorem rU8_tot {r r' : Rd} {v : Nat} (h : r.rU8 = some (v, r')) :
    r'.tot = r.tot ∧ r'.cnt = r.cnt + 1 := by
  simp only [Rd.rU8, Option.map_eq_some_iff] at h
  obtain ⟨⟨b, r1⟩, h1, h2⟩ := h
  simp at h2; obtain ⟨_, rfl⟩ := h2
  exact readN_tot h1

theorem rU16_tot {r r' : Rd} {v : Nat} (h : r.rU16 = some (v, r')) :
    r'.tot = r.tot ∧ r'.cnt = r.cnt + 2 := by
  simp only [Rd.rU16, Option.map_eq_some_iff] at h
  obtain ⟨⟨b, r1⟩, h1, h2⟩ := h
  simp at h2; obtain ⟨_, rfl⟩ := h2
  exact readN_tot h1

theorem rU32_tot {r r' : Rd} {v : Nat} (h : r.rU32 = some (v, r')) :
    r'.tot = r.tot ∧ r'.cnt = r.cnt + 4 := by
  simp only [Rd.rU32, Option.map_eq_some_iff] at h
  obtain ⟨⟨b, r1⟩, h1, h2⟩ := h
  simp at h2; obtain ⟨_, rfl⟩ := h2
  exact readN_tot h1

/-- the reader moved forward inside the same buffer -/
def Adv (r r' : Rd) : Prop := r'.cnt + r'.rem.length = r.cnt + r.rem.length ∧ r.cnt ≤ r'.cnt

theorem Adv.refl (r : Rd) : Adv r r := ⟨rfl, Nat.le_refl _⟩
theorem Adv.trans {a b c : Rd} (h1 : Adv a b) (h2 : Adv b c) : Adv a c :=
  ⟨by rw [h2.1, h1.1], Nat.le_trans h1.2 h2.2⟩

theorem adv_readN {r r' : Rd} {n : Nat} {b : Bytes} (h : r.readN n = some (b, r')) :
    Adv r r' ∧ r'.cnt = r.cnt + n := by
  have := readN_tot h; simp only [Rd.tot] at this; exact ⟨⟨this.1, by omega⟩, this.2⟩
theorem adv_rU16 {r r' : Rd} {v : Nat} (h : r.rU16 = some (v, r')) :
    Adv r r' ∧ r'.cnt = r.cnt + 2 := by
  have := rU16_tot h; simp only [Rd.tot] at this; exact ⟨⟨this.1, by omega⟩, this.2⟩
theorem adv_rU32 {r r' : Rd} {v : Nat} (h : r.rU32 = some (v, r')) :
    Adv r r' ∧ r'.cnt = r.cnt + 4 := by
  have := rU32_tot h; simp only [Rd.tot] at this; exact ⟨⟨this.1, by omega⟩, this.2⟩


end Vflow
