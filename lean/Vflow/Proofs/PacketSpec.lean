import Vflow.Proofs.PacketSafe
/-!
# Specification-side encoders of the sampled packet headers (RFC field positions) and the
field-extraction theorems of the dissector
-/
namespace Vflow.Packet
open Vflow Vflow.Sflow

def b8 (n : Nat) : UInt8 := UInt8.ofNat n

theorem b8_toNat (n : Nat) (h : n < 256) : (b8 n).toNat = n := by
  simp [b8, UInt8.toNat_ofNat']; omega

@[simp] theorem oct_cons_zero (a : UInt8) (l : Bytes) : oct (a :: l) 0 = a.toNat := rfl
@[simp] theorem oct_cons_succ (a : UInt8) (l : Bytes) (n : Nat) : oct (a :: l) (n + 1) = oct l n := by
  simp [oct]

/-- RFC 791: version and header length (IHL, in 32-bit words: 5 for the fixed part plus the options),
type of service, total length, identification, flags / fragment offset, time to live, protocol, header
checksum, source and destination address, then the options (already padded to a multiple of four
octets, as the header length field can only express that) -/
def encIPv4 (h : IPv4Hdr) (opts : Bytes) : Bytes :=
  [b8 (h.version * 16 + (5 + opts.length / 4)), b8 h.tos, b8 (h.totalLen / 256), b8 (h.totalLen % 256),
   b8 (h.id / 256), b8 (h.id % 256),
   b8 (h.flags * 32 + h.fragOff / 256), b8 (h.fragOff % 256), b8 h.ttl, b8 h.protocol,
   b8 (h.checksum / 256), b8 (h.checksum % 256)] ++ (h.src ++ (h.dst ++ opts))

def IPv4Hdr.WF (h : IPv4Hdr) : Prop :=
  h.version < 16 ∧ h.tos < 256 ∧ h.totalLen < 65536 ∧ h.id < 65536 ∧ h.flags < 8 ∧ h.fragOff < 8192 ∧
  h.ttl < 256 ∧ h.protocol < 256 ∧ h.checksum < 65536 ∧ h.src.length = 4 ∧ h.dst.length = 4

/-- IPv4 options as the header length field can announce them: a whole number of 32-bit words, at most
ten (IHL 5 … 15); the content is arbitrary -/
def OptsWF (opts : Bytes) : Prop := opts.length % 4 = 0 ∧ opts.length ≤ 40

theorem ihlOctets_enc (v n : Nat) (h1 : n % 4 = 0) (h2 : n ≤ 40) :
    ihlOctets (v * 16 + (5 + n / 4)) = 20 + n := by
  unfold ihlOctets
  have : (v * 16 + (5 + n / 4)) % 16 = 5 + n / 4 := by omega
  rw [this]
  split <;> omega

theorem encIPv4_length (h : IPv4Hdr) (opts : Bytes) (hs : h.src.length = 4) (hd : h.dst.length = 4) :
    (encIPv4 h opts).length = 20 + opts.length := by
  simp [encIPv4, hs, hd]; omega

/-- **IPv4 with any options**: every field is the value at its RFC 791 position, whatever the option
octets are, and what is handed to the transport layer is what follows the options -/
theorem decodeIPv4_enc (h : IPv4Hdr) (opts rest : Bytes) (hwf : h.WF) (ho : OptsWF opts) :
    decodeIPv4 (encIPv4 h opts ++ rest) = .ok (h, rest) := by
  obtain ⟨h1, h2, h3, h4, h5, h6, h7, h8, h9, h10, h11⟩ := hwf
  obtain ⟨o1, o2⟩ := ho
  have hl := encIPv4_length h opts h10 h11
  have hlen : (encIPv4 h opts ++ rest).length = 20 + opts.length + rest.length := by
    rw [List.length_append, hl]
  have h0 : oct (encIPv4 h opts ++ rest) 0 = h.version * 16 + (5 + opts.length / 4) := by
    simp only [encIPv4, List.cons_append, oct_cons_zero]
    exact b8_toNat _ (by omega)
  have hihl := ihlOctets_enc h.version opts.length o1 o2
  rw [decodeIPv4_eq _ (by omega) (by rw [h0, hihl]; omega), h0, hihl, List.drop_left' hl]
  obtain ⟨version, tos, totalLen, id, flags, fragOff, ttl, protocol, checksum, src, dst⟩ := h
  simp only at h1 h2 h3 h4 h5 h6 h7 h8 h9 h10 h11
  simp only [encIPv4, ipv4At, List.cons_append, List.nil_append, oct_cons_succ, oct_cons_zero,
    List.drop_succ_cons, List.drop_zero, List.append_assoc, List.take_left' h10, List.drop_left' h10,
    List.take_left' h11]
  simp (disch := omega) only [b8_toNat]
  simp only [Res.ok.injEq, Prod.mk.injEq, IPv4Hdr.mk.injEq, and_true, true_and]
  omega

/-- RFC 8200 -/
def encIPv6 (h : IPv6Hdr) : Bytes :=
  [b8 (h.version * 16 + h.trafficClass / 16), b8 ((h.trafficClass % 16) * 16 + h.flowLabel / 65536),
   b8 (h.flowLabel / 256 % 256), b8 (h.flowLabel % 256), b8 (h.payloadLen / 256), b8 (h.payloadLen % 256),
   b8 h.nextHeader, b8 h.hopLimit] ++ (h.src ++ h.dst)

def IPv6Hdr.WF (h : IPv6Hdr) : Prop :=
  h.version < 16 ∧ h.trafficClass < 256 ∧ h.flowLabel < 1048576 ∧ h.payloadLen < 65536 ∧ h.nextHeader < 256 ∧
  h.hopLimit < 256 ∧ h.src.length = 16 ∧ h.dst.length = 16

theorem decodeIPv6_enc (h : IPv6Hdr) (rest : Bytes) (hwf : h.WF) :
    decodeIPv6 (encIPv6 h ++ rest) = .ok (h, rest) := by
  obtain ⟨h1, h2, h3, h4, h5, h6, h7, h8⟩ := hwf
  have hlen : 40 ≤ (encIPv6 h ++ rest).length := by simp [encIPv6, h7, h8]; omega
  rw [decodeIPv6_eq _ hlen]
  obtain ⟨version, tc, fl, pl, nh, hop, src, dst⟩ := h
  simp only at h1 h2 h3 h4 h5 h6 h7 h8
  simp only [encIPv6, ipv6At, List.cons_append, List.nil_append, oct_cons_succ, oct_cons_zero,
    List.drop_succ_cons, List.drop_zero, List.append_assoc, List.take_left' h7, List.drop_left' h7,
    List.take_left' h8, List.drop_left' h8]
  simp (disch := omega) only [b8_toNat]
  have hdrop : List.drop 32 (src ++ (dst ++ rest)) = rest := by
    rw [← List.append_assoc, List.drop_left' (by simp [h7, h8])]
  simp only [Res.ok.injEq, Prod.mk.injEq, IPv6Hdr.mk.injEq, and_true, true_and, hdrop]
  omega

/-- RFC 793 / RFC 3540: ports, sequence and acknowledgement numbers, then in octets 12 and 13 the data offset
(4 bits), the reserved bits `res` (3 bits) and the nine flag bits `fl` (NS | CWR ECE URG ACK PSH RST SYN FIN),
window, checksum, urgent pointer -/
def encTCP (sp dp seq ack off res fl win cs urg : Nat) : Bytes :=
  [b8 (sp / 256), b8 (sp % 256), b8 (dp / 256), b8 (dp % 256),
   b8 (seq / 16777216 % 256), b8 (seq / 65536 % 256), b8 (seq / 256 % 256), b8 (seq % 256),
   b8 (ack / 16777216 % 256), b8 (ack / 65536 % 256), b8 (ack / 256 % 256), b8 (ack % 256),
   b8 (off * 16 + res * 2 + fl / 256), b8 (fl % 256), b8 (win / 256 % 256), b8 (win % 256),
   b8 (cs / 256 % 256), b8 (cs % 256), b8 (urg / 256 % 256), b8 (urg % 256)]

theorem decodeTCP_enc (sp dp seq ack off res fl win cs urg : Nat) (rest : Bytes)
    (hwf : sp < 65536 ∧ dp < 65536 ∧ off < 16 ∧ res < 8 ∧ fl < 512) :
    decodeTCP (encTCP sp dp seq ack off res fl win cs urg ++ rest) = .ok (.tcp sp dp off res fl) := by
  obtain ⟨h1, h2, h3, h3', h4⟩ := hwf
  rw [decodeTCP_eq _ (by simp [encTCP])]
  simp only [encTCP, List.cons_append, List.nil_append, oct_cons_succ, oct_cons_zero]
  simp (disch := omega) only [b8_toNat]
  simp only [Res.ok.injEq, L4.tcp.injEq, and_true, true_and]
  omega

/-- RFC 768 -/
def encUDP (sp dp len cs : Nat) : Bytes :=
  [b8 (sp / 256), b8 (sp % 256), b8 (dp / 256), b8 (dp % 256), b8 (len / 256 % 256), b8 (len % 256),
   b8 (cs / 256 % 256), b8 (cs % 256)]

theorem decodeUDP_enc (sp dp len cs : Nat) (rest : Bytes) (hwf : sp < 65536 ∧ dp < 65536) :
    decodeUDP (encUDP sp dp len cs ++ rest) = .ok (.udp sp dp) := by
  obtain ⟨h1, h2⟩ := hwf
  rw [decodeUDP_eq _ (by simp [encUDP])]
  simp only [encUDP, List.cons_append, List.nil_append, oct_cons_succ, oct_cons_zero]
  simp (disch := omega) only [b8_toNat]
  simp only [Res.ok.injEq, L4.udp.injEq]
  omega

/-- RFC 792: type, code, checksum; then the rest of the header -/
def encICMP (ty code cs : Nat) : Bytes := [b8 ty, b8 code, b8 (cs / 256 % 256), b8 (cs % 256)]

theorem decodeICMP_enc (ty code cs : Nat) (rest : Bytes) (hwf : ty < 256 ∧ code < 256) (hr : 1 ≤ rest.length) :
    decodeICMP (encICMP ty code cs ++ rest) = .ok (.icmp ty code rest) := by
  obtain ⟨h1, h2⟩ := hwf
  rw [decodeICMP_eq _ (by simp [encICMP]; omega)]
  simp only [encICMP, List.cons_append, List.nil_append, oct_cons_succ, oct_cons_zero, List.drop_succ_cons,
    List.drop_zero]
  simp (disch := omega) only [b8_toNat]

/-! ## Ethernet -/

theorem oct_append_right (x y : Bytes) (i n : Nat) (h : x.length = n) : oct (x ++ y) (n + i) = oct y i := by
  subst h
  simp only [oct, List.getD_eq_getElem?_getD]
  rw [List.getElem?_append_right (by omega)]
  simp

/-- IEEE 802.3: destination, source, ethertype -/
def encEth (dst src : Bytes) (et : Nat) : Bytes := dst ++ (src ++ [b8 (et / 256), b8 (et % 256)])

/-- IEEE 802.1Q: destination, source, 0x8100, tag control information, inner ethertype -/
def encEthVlan (dst src : Bytes) (tci et : Nat) : Bytes :=
  dst ++ (src ++ [b8 0x81, b8 0x00, b8 (tci / 256), b8 (tci % 256), b8 (et / 256), b8 (et % 256)])

theorem l2At_eth (dst src : Bytes) (et : Nat) (rest : Bytes) (hd : dst.length = 6) (hs : src.length = 6)
    (he : et < 65536) (hne : et ≠ 0x8100) :
    l2At (dst ++ (src ++ (b8 (et / 256) :: b8 (et % 256) :: rest))) = ⟨src, dst, 0, et⟩ := by
  have o12 : oct (dst ++ (src ++ (b8 (et / 256) :: b8 (et % 256) :: rest))) 12 = et / 256 := by
    rw [show (12 : Nat) = 6 + 6 from rfl, oct_append_right _ _ _ _ hd,
      show (6 : Nat) = 6 + 0 from rfl, oct_append_right _ _ _ _ hs, oct_cons_zero, b8_toNat _ (by omega)]
  have o13 : oct (dst ++ (src ++ (b8 (et / 256) :: b8 (et % 256) :: rest))) 13 = et % 256 := by
    rw [show (13 : Nat) = 6 + 7 from rfl, oct_append_right _ _ _ _ hd,
      show (7 : Nat) = 6 + 1 from rfl, oct_append_right _ _ _ _ hs, oct_cons_succ, oct_cons_zero,
      b8_toNat _ (by omega)]
  have het : et / 256 * 256 + et % 256 = et := by omega
  unfold l2At
  rw [o12, o13, het, if_pos hne]
  simp only [List.take_left' hd, List.drop_left' hd, List.take_left' hs]

theorem decodeEthernet_enc (dst src : Bytes) (et : Nat) (rest : Bytes)
    (hwf : dst.length = 6 ∧ src.length = 6 ∧ et < 65536 ∧ et ≠ 0x8100) :
    decodeEthernet (encEth dst src et ++ rest) = .ok (⟨src, dst, 0, et⟩, rest) := by
  obtain ⟨hd, hs, he, hne⟩ := hwf
  have hlen : (encEth dst src et ++ rest).length = 14 + rest.length := by simp [encEth, hd, hs]; omega
  have hform : encEth dst src et ++ rest = dst ++ (src ++ (b8 (et / 256) :: b8 (et % 256) :: rest)) := by
    simp [encEth]
  unfold decodeEthernet
  rw [if_neg (by omega), decodeIEEE802_eq _ (by omega), hform, l2At_eth dst src et rest hd hs he hne]
  simp only [ok_bind, if_neg hne]
  rw [from?_le (by simp [hd, hs]; omega)]
  have hd14 : (dst ++ (src ++ (b8 (et / 256) :: b8 (et % 256) :: rest))).drop 14 = rest := by
    have : dst ++ (src ++ (b8 (et / 256) :: b8 (et % 256) :: rest)) =
        (dst ++ src ++ [b8 (et / 256), b8 (et % 256)]) ++ rest := by simp
    rw [this, List.drop_left' (by simp [hd, hs])]
  simp only [ok_bind, pure_eq, hd14]

theorem oct_mac (dst src l : Bytes) (i : Nat) (hd : dst.length = 6) (hs : src.length = 6) :
    oct (dst ++ (src ++ l)) (12 + i) = oct l i := by
  rw [show 12 + i = 6 + (6 + i) by omega, oct_append_right _ _ _ _ hd, oct_append_right _ _ _ _ hs]

theorem untag_enc (dst src : Bytes) (a0 a1 a2 a3 a4 a5 : UInt8) (rest : Bytes) (hd : dst.length = 6)
    (hs : src.length = 6) :
    untag (dst ++ (src ++ (a0 :: a1 :: a2 :: a3 :: a4 :: a5 :: rest))) = dst ++ (src ++ (a4 :: a5 :: rest)) := by
  have e1 : dst ++ (src ++ (a0 :: a1 :: a2 :: a3 :: a4 :: a5 :: rest)) =
      (dst ++ src) ++ (a0 :: a1 :: a2 :: a3 :: a4 :: a5 :: rest) := by simp
  have e2 : dst ++ (src ++ (a0 :: a1 :: a2 :: a3 :: a4 :: a5 :: rest)) =
      (dst ++ src ++ [a0, a1, a2, a3]) ++ (a4 :: a5 :: rest) := by simp
  have e3 : dst ++ (src ++ (a0 :: a1 :: a2 :: a3 :: a4 :: a5 :: rest)) =
      (dst ++ src ++ [a0, a1, a2, a3, a4, a5]) ++ rest := by simp
  unfold untag
  rw [List.drop_zero, Nat.sub_zero]
  conv => lhs; arg 1; arg 1; rw [e1, List.take_left' (by simp [hd, hs])]
  conv => lhs; arg 1; arg 2; rw [e2, List.drop_left' (by simp [hd, hs])]
  conv => lhs; arg 2; rw [e3, List.drop_left' (by simp [hd, hs])]
  simp

theorem decodeEthernet_vlan_enc (dst src : Bytes) (tci et : Nat) (rest : Bytes)
    (hwf : dst.length = 6 ∧ src.length = 6 ∧ tci < 65536 ∧ et < 65536 ∧ et ≠ 0x8100) :
    decodeEthernet (encEthVlan dst src tci et ++ rest) = .ok (⟨src, dst, tci % 4096, et⟩, rest) := by
  obtain ⟨hd, hs, ht, he, hne⟩ := hwf
  have hform : encEthVlan dst src tci et ++ rest =
      dst ++ (src ++ (b8 0x81 :: b8 0x00 :: b8 (tci / 256) :: b8 (tci % 256) :: b8 (et / 256) :: b8 (et % 256) :: rest)) := by
    simp [encEthVlan]
  have hlen : (encEthVlan dst src tci et ++ rest).length = 18 + rest.length := by
    rw [hform]; simp [hd, hs]; omega
  have o12 := oct_mac dst src (b8 0x81 :: b8 0x00 :: b8 (tci / 256) :: b8 (tci % 256) :: b8 (et / 256) :: b8 (et % 256) :: rest) 0 hd hs
  have o13 := oct_mac dst src (b8 0x81 :: b8 0x00 :: b8 (tci / 256) :: b8 (tci % 256) :: b8 (et / 256) :: b8 (et % 256) :: rest) 1 hd hs
  have o14 := oct_mac dst src (b8 0x81 :: b8 0x00 :: b8 (tci / 256) :: b8 (tci % 256) :: b8 (et / 256) :: b8 (et % 256) :: rest) 2 hd hs
  have o15 := oct_mac dst src (b8 0x81 :: b8 0x00 :: b8 (tci / 256) :: b8 (tci % 256) :: b8 (et / 256) :: b8 (et % 256) :: rest) 3 hd hs
  simp only [oct_cons_succ, oct_cons_zero, Nat.add_zero] at o12 o13 o14 o15
  rw [b8_toNat _ (by omega)] at o12 o13 o14 o15
  have hl2 : (l2At (encEthVlan dst src tci et ++ rest)).etherType = 0x8100 := by
    rw [hform]; unfold l2At; rw [o12, o13]; simp
  unfold decodeEthernet
  rw [if_neg (by omega), decodeIEEE802_eq _ (by omega)]
  simp only [ok_bind, hl2, if_true]
  rw [decodeVlan_eq _ (by omega), hform, untag_enc _ _ _ _ _ _ _ _ _ hd hs, o14, o15,
    l2At_eth dst src et rest hd hs he hne]
  have hd14 : (dst ++ (src ++ (b8 (et / 256) :: b8 (et % 256) :: rest))).drop 14 = rest := by
    have : dst ++ (src ++ (b8 (et / 256) :: b8 (et % 256) :: rest)) =
        (dst ++ src ++ [b8 (et / 256), b8 (et % 256)]) ++ rest := by simp
    rw [this, List.drop_left' (by simp [hd, hs])]
  have htci : tci / 256 * 256 + tci % 256 = tci := by omega
  rw [hd14, htci]

/-! ## whole headers -/

theorem decodeNext_tcp (d : Bytes) (l4 : L4) (h : decodeTCP d = .ok l4) : decodeNext 6 d = .ok l4 := by
  have hl : 20 ≤ d.length := by
    unfold decodeTCP at h; split at h
    · simp at h
    · omega
  simp (disch := omega) [decodeNext, h, from?_le]

theorem decodeNext_udp (d : Bytes) (l4 : L4) (h : decodeUDP d = .ok l4) : decodeNext 17 d = .ok l4 := by
  have hl : 8 ≤ d.length := by
    unfold decodeUDP at h; split at h
    · simp at h
    · omega
  simp (disch := omega) [decodeNext, h, from?_le]

theorem dissect_eth_ipv4_tcp_enc (dst src : Bytes) (h : IPv4Hdr) (opts : Bytes) (sp dp seq ack off res fl win cs urg : Nat)
    (payload : Bytes) (hm : dst.length = 6 ∧ src.length = 6) (hwf : h.WF) (ho : OptsWF opts) (hp : h.protocol = 6)
    (ht : sp < 65536 ∧ dp < 65536 ∧ off < 16 ∧ res < 8 ∧ fl < 512) :
    dissect (encEth dst src 0x0800 ++ (encIPv4 h opts ++ (encTCP sp dp seq ack off res fl win cs urg ++ payload))) 1 =
      .ok ⟨⟨src, dst, 0, 0x0800⟩, .v4 h, .tcp sp dp off res fl⟩ := by
  simp only [dissect, if_true, dissectEth,
    decodeEthernet_enc dst src 0x0800 _ ⟨hm.1, hm.2, by decide, by decide⟩, ok_bind, dissectV4,
    decodeIPv4_enc h opts _ hwf ho, hp, decodeNext_tcp _ _ (decodeTCP_enc sp dp seq ack off res fl win cs urg payload ht), pure_eq]

theorem dissect_vlan_ipv6_udp_enc (dst src : Bytes) (tci : Nat) (h : IPv6Hdr) (sp dp len cs : Nat)
    (payload : Bytes) (hm : dst.length = 6 ∧ src.length = 6 ∧ tci < 65536) (hwf : h.WF) (hp : h.nextHeader = 17)
    (ht : sp < 65536 ∧ dp < 65536) :
    dissect (encEthVlan dst src tci 0x86DD ++ (encIPv6 h ++ (encUDP sp dp len cs ++ payload))) 1 =
      .ok ⟨⟨src, dst, tci % 4096, 0x86DD⟩, .v6 h, .udp sp dp⟩ := by
  simp only [dissect, if_true, dissectEth,
    decodeEthernet_vlan_enc dst src tci 0x86DD _ ⟨hm.1, hm.2.1, hm.2.2, by decide, by decide⟩, ok_bind,
    show ¬ ((0x86DD : Nat) = 0x0800) by decide, if_false, dissectV6,
    decodeIPv6_enc h _ hwf, hp, decodeNext_udp _ _ (decodeUDP_enc sp dp len cs payload ht), pure_eq]

end Vflow.Packet
