import Vflow.Proofs.PacketSpec
/-!
# The sampled packet header as a whole: abstract header, specification encoder, expected packet,
and the one dissector theorem covering every layer combination

`AHeader` = optional Ethernet layer (absent when the sFlow header protocol is 11 / 12, i.e. the sampled
octets start at the IPv4 / IPv6 header) × network layer (IPv4 with any options the header length field
can announce, IHL 5 … 15 | IPv6) × transport layer (TCP | UDP | ICMP / ICMPv6).  `encodeHeader` lays the fields out at their IEEE 802.3 / 802.1Q, RFC 791,
RFC 8200, RFC 793, RFC 768, RFC 792 / 4443 positions, composing the per-layer encoders of
`Vflow.Proofs.PacketSpec`.
-/
namespace Vflow.Packet
open Vflow Vflow.Sflow

/-- Ethernet layer: addresses and an optional 802.1Q tag `(priority bits, VLAN id)`, where the priority
bits are the top four bits of the tag control information (PCP and DEI) and the VLAN id the low twelve.
The ethertype is not a free field: it is the one of the network layer that follows (0x0800 / 0x86DD) —
any other value makes `decodeEthernetHeader` return `errUnknownEtherType`. -/
structure AEth where
  dst : Bytes
  src : Bytes
  tag : Option (Nat × Nat)

inductive ANet where
  /-- IPv4 header fields and the option octets that follow the destination address (0 … 40 octets, a
  multiple of four: `OptsWF`); the packet struct has no field for them, they only move the transport header -/
  | v4 (h : IPv4Hdr) (opts : Bytes)
  | v6 (h : IPv6Hdr)

inductive ATrans where
  /-- TCP: ports, sequence / acknowledgement numbers, data offset, the three reserved bits, the nine flag bits, … -/
  | tcp (sp dp seq ack off res fl win cs urg : Nat)
  | udp (sp dp len cs : Nat)
  /-- ICMP / ICMPv6: type, code, checksum, and the 4-octet rest of the header -/
  | icmp (ty code cs : Nat) (rest : Bytes)

/-- an abstract sampled header; `eth = none` is header protocol 11 (IPv4) / 12 (IPv6) -/
structure AHeader where
  eth : Option AEth
  net : ANet
  trans : ATrans

def ANet.etherType : ANet → Nat
  | .v4 _ _ => 0x0800
  | .v6 _ => 0x86DD

/-- the protocol / next-header field of the network layer -/
def ANet.proto : ANet → Nat
  | .v4 h _ => h.protocol
  | .v6 h => h.nextHeader

/-- the sFlow header protocol the sampled header is announced with -/
def protoOf (h : AHeader) : Nat :=
  match h.eth, h.net with
  | some _, _ => 1
  | none, .v4 _ _ => 11
  | none, .v6 _ => 12

def encEthL (e : AEth) (et : Nat) : Bytes :=
  match e.tag with
  | none => encEth e.dst e.src et
  | some (prio, vid) => encEthVlan e.dst e.src (prio * 4096 + vid) et

def encNet : ANet → Bytes
  | .v4 h opts => encIPv4 h opts
  | .v6 h => encIPv6 h

def encTrans : ATrans → Bytes
  | .tcp sp dp seq ack off res fl win cs urg => encTCP sp dp seq ack off res fl win cs urg
  | .udp sp dp len cs => encUDP sp dp len cs
  | .icmp ty code cs rest => encICMP ty code cs ++ rest

/-- **the specification encoder of a sampled header** (trailing payload octets are appended by the caller) -/
def encodeHeader (h : AHeader) : Bytes :=
  (match h.eth with
   | some e => encEthL e h.net.etherType
   | none => []) ++ (encNet h.net ++ encTrans h.trans)

/-! ## well-formedness -/

def AEth.WF (e : AEth) : Prop :=
  e.dst.length = 6 ∧ e.src.length = 6 ∧
    match e.tag with
    | none => True
    | some (prio, vid) => prio < 16 ∧ vid < 4096

def ANet.WF : ANet → Prop
  | .v4 h opts => h.WF ∧ OptsWF opts
  | .v6 h => h.WF

/-- field ranges of the transport header; TCP: the three reserved bits take any value 0 … 7 (reported as
`Reserved` since the F19c repair), the nine flag bits are NS CWR ECE URG ACK PSH RST SYN FIN -/
def ATrans.WF : ATrans → Prop
  | .tcp sp dp _ _ off res fl _ _ _ => sp < 65536 ∧ dp < 65536 ∧ off < 16 ∧ res < 8 ∧ fl < 512
  | .udp sp dp _ _ => sp < 65536 ∧ dp < 65536
  | .icmp ty code _ rest => ty < 256 ∧ code < 256 ∧ rest.length = 4

/-- the protocol / next-header value announces the transport header that follows; the code accepts
both 1 (ICMP) and 58 (ICMPv6) after either network layer -/
def ATrans.protoOK : ATrans → Nat → Prop
  | .tcp .., p => p = 6
  | .udp .., p => p = 17
  | .icmp .., p => p = 1 ∨ p = 58

def wfHeader (h : AHeader) : Prop :=
  (match h.eth with
   | some e => e.WF
   | none => True) ∧ h.net.WF ∧ h.trans.WF ∧ h.trans.protoOK h.net.proto

/-! ## expected packet -/

def expEth (e : AEth) (et : Nat) : L2 :=
  { srcMAC := e.src, dstMAC := e.dst, etherType := et,
    vlan := match e.tag with
      | none => 0
      | some (_, vid) => vid }

/-- the IPv4 options do not appear in the decoded packet -/
def expNet : ANet → L3
  | .v4 h _ => .v4 h
  | .v6 h => .v6 h

/-- `RestHeader` of the ICMP struct is `b[4:]`: everything after the checksum up to the end of the
sampled header, i.e. the rest of the header followed by the trailing payload -/
def expTrans : ATrans → Bytes → L4
  | .tcp sp dp _ _ off res fl _ _ _, _ => .tcp sp dp off res fl
  | .udp sp dp _ _, _ => .udp sp dp
  | .icmp ty code _ rest, payload => .icmp ty code (rest ++ payload)

/-- **the packet an abstract header (followed by `payload`) stands for**: with header protocol 11 / 12 the
datalink part is the zero value -/
def expectedPacket (h : AHeader) (payload : Bytes) : Pkt :=
  { l2 := match h.eth with
      | some e => expEth e h.net.etherType
      | none => {},
    l3 := expNet h.net,
    l4 := expTrans h.trans payload }

/-! ## composition -/

theorem decodeNext_icmp (p : Nat) (d : Bytes) (l4 : L4) (hp : p = 1 ∨ p = 58) (h : decodeICMP d = .ok l4) :
    decodeNext p d = .ok l4 := by
  have hl : 5 ≤ d.length := by
    unfold decodeICMP at h; split at h
    · simp at h
    · omega
  simp (disch := omega) [decodeNext, hp, h, from?_le]

/-- transport layer: any of TCP / UDP / ICMP after a matching protocol number -/
theorem decodeNext_enc (t : ATrans) (p : Nat) (payload : Bytes) (hwf : t.WF) (hp : t.protoOK p) :
    decodeNext p (encTrans t ++ payload) = .ok (expTrans t payload) := by
  cases t with
  | tcp sp dp seq ack off res fl win cs urg =>
    simp only [ATrans.protoOK] at hp
    subst hp
    exact decodeNext_tcp _ _ (decodeTCP_enc sp dp seq ack off res fl win cs urg payload hwf)
  | udp sp dp len cs =>
    simp only [ATrans.protoOK] at hp
    subst hp
    exact decodeNext_udp _ _ (decodeUDP_enc sp dp len cs payload hwf)
  | icmp ty code cs rest =>
    obtain ⟨h1, h2, h3⟩ := hwf
    simp only [encTrans, expTrans, List.append_assoc]
    exact decodeNext_icmp p _ _ hp (decodeICMP_enc ty code cs (rest ++ payload) ⟨h1, h2⟩ (by simp [h3]; omega))

/-- network + transport layers after any datalink result -/
theorem dissectNet_enc (l2 : L2) (n : ANet) (t : ATrans) (payload : Bytes) (hn : n.WF) (ht : t.WF)
    (hp : t.protoOK n.proto) :
    (match n with
     | .v4 _ _ => dissectV4 l2 (encNet n ++ (encTrans t ++ payload))
     | .v6 _ => dissectV6 l2 (encNet n ++ (encTrans t ++ payload))) = .ok ⟨l2, expNet n, expTrans t payload⟩ := by
  cases n with
  | v4 h opts =>
    simp only [encNet, dissectV4, decodeIPv4_enc h opts _ hn.1 hn.2, ok_bind, expNet,
      decodeNext_enc t h.protocol payload ht hp, pure_eq]
  | v6 h =>
    simp only [encNet, dissectV6, decodeIPv6_enc h _ hn, ok_bind, expNet,
      decodeNext_enc t h.nextHeader payload ht hp, pure_eq]

/-- datalink layer, tagged or not -/
theorem decodeEthernet_encL (e : AEth) (et : Nat) (rest : Bytes) (he : e.WF) (h1 : et < 65536) (h2 : et ≠ 0x8100) :
    decodeEthernet (encEthL e et ++ rest) = .ok (expEth e et, rest) := by
  obtain ⟨dst, src, tag⟩ := e
  obtain ⟨hd, hs, ht⟩ := he
  cases tag with
  | none => exact decodeEthernet_enc dst src et rest ⟨hd, hs, h1, h2⟩
  | some pv =>
    obtain ⟨prio, vid⟩ := pv
    simp only at ht hd hs
    have := decodeEthernet_vlan_enc dst src (prio * 4096 + vid) et rest ⟨hd, hs, by omega, h1, h2⟩
    have hv : (prio * 4096 + vid) % 4096 = vid := by omega
    simpa only [encEthL, expEth, hv] using this

/-- **every combination at once**: for every well-formed abstract header — Ethernet with or without an
802.1Q tag, or none (header protocol 11 / 12); IPv4 with 0 … 40 octets of options of any content, or IPv6;
TCP, UDP or ICMP / ICMPv6 — and every
trailing payload, dissecting the encoded header under its header protocol yields exactly the expected
packet: each output field is the abstract field that was laid out at its RFC position. -/
theorem dissect_encodeHeader (h : AHeader) (payload : Bytes) (hwf : wfHeader h) :
    dissect (encodeHeader h ++ payload) (protoOf h) = .ok (expectedPacket h payload) := by
  obtain ⟨eth, net, trans⟩ := h
  obtain ⟨he, hn, ht, hp⟩ := hwf
  cases eth with
  | none =>
    cases net with
    | v4 h4 opts =>
      have := dissectNet_enc {} (.v4 h4 opts) trans payload hn ht hp
      simpa only [encodeHeader, protoOf, dissect, expectedPacket, List.nil_append, List.append_assoc,
        show ¬ ((11 : Nat) = 1) by decide, if_false, if_true] using this
    | v6 h6 =>
      have := dissectNet_enc {} (.v6 h6) trans payload hn ht hp
      simpa only [encodeHeader, protoOf, dissect, expectedPacket, List.nil_append, List.append_assoc,
        show ¬ ((12 : Nat) = 1) by decide, show ¬ ((12 : Nat) = 11) by decide, if_false, if_true] using this
  | some e =>
    simp only at he
    cases net with
    | v4 h4 opts =>
      have h2 := dissectNet_enc (expEth e 0x0800) (.v4 h4 opts) trans payload hn ht hp
      simp only at h2
      simp only [encodeHeader, protoOf, dissect, dissectEth, expectedPacket, ANet.etherType, List.append_assoc,
        decodeEthernet_encL e 0x0800 _ he (by decide) (by decide), ok_bind, if_true, h2,
        show (expEth e 0x0800).etherType = 0x0800 from rfl]
    | v6 h6 =>
      have h2 := dissectNet_enc (expEth e 0x86DD) (.v6 h6) trans payload hn ht hp
      simp only at h2
      simp only [encodeHeader, protoOf, dissect, dissectEth, expectedPacket, ANet.etherType, List.append_assoc,
        decodeEthernet_encL e 0x86DD _ he (by decide) (by decide), ok_bind, if_true, if_false, h2,
        show (expEth e 0x86DD).etherType = 0x86DD from rfl, show ¬ ((0x86DD : Nat) = 0x0800) by decide]

theorem encodeHeader_length_pos (h : AHeader) : 0 < (encodeHeader h).length := by
  obtain ⟨eth, net, trans⟩ := h
  cases net <;> simp [encodeHeader, encNet, encIPv4, encIPv6] <;> omega

end Vflow.Packet
