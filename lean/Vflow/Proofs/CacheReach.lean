import Vflow.Proofs.CacheFileLemmas
/-!
# Every cache reachable by decoding has distinct keys

The decoders change the cache only through `Cache.insert`, which keeps keys distinct.
-/
namespace Vflow

theorem Ipfix.setLoop_nodup (ctx : Ipfix.Ctx) :
    ∀ fuel st, NoDupKeys st.cache → NoDupKeys (Ipfix.setLoop ctx fuel st).1.cache := by
  intro fuel
  induction fuel with
  | zero => intro st h; simpa [Ipfix.setLoop] using h
  | succ n ih =>
    intro st h
    unfold Ipfix.setLoop
    repeat' split
    all_goals first
      | exact h
      | exact ih _ (insert_nodup _ _ _ _ h)
      | exact ih _ h

theorem Ipfix.skipRest_cache (ctx : Ipfix.Ctx) (st : Ipfix.St) (e : Option Err) :
    (Ipfix.skipRest ctx st e).1.cache = st.cache := by
  unfold Ipfix.skipRest; simp only; repeat' split
  all_goals rfl

theorem Ipfix.setBody_nodup (addr : Bytes) (sid len start fuel : Nat) (st : Ipfix.St) (h : NoDupKeys st.cache) :
    NoDupKeys (Ipfix.setBody addr sid len start fuel st).1.cache := by
  unfold Ipfix.setBody; simp only
  repeat' split
  all_goals first
    | (rw [Ipfix.skipRest_cache]; first | exact h | exact Ipfix.setLoop_nodup _ _ _ h)
    | exact Ipfix.setLoop_nodup _ _ _ h

theorem Ipfix.decodeSet_nodup (addr : Bytes) (fuel : Nat) (st : Ipfix.St) (h : NoDupKeys st.cache) :
    NoDupKeys (Ipfix.decodeSet addr fuel st).1.cache := by
  unfold Ipfix.decodeSet
  repeat' split
  all_goals first
    | exact h
    | exact Ipfix.setBody_nodup _ _ _ _ _ _ h

theorem Ipfix.outer_nodup (addr : Bytes) :
    ∀ fuel st errs, NoDupKeys st.cache → NoDupKeys (Ipfix.outer addr fuel st errs).1.cache := by
  intro fuel
  induction fuel with
  | zero => intro st errs h; simpa [Ipfix.outer] using h
  | succ n ih =>
    intro st errs h
    unfold Ipfix.outer
    split
    · have hd := Ipfix.decodeSet_nodup addr (st.r.rem.length + 1) st h
      generalize Ipfix.decodeSet addr (st.r.rem.length + 1) st = res at hd
      obtain ⟨st', e⟩ := res
      cases e with
      | none => exact ih _ _ hd
      | some e => simp only; split <;> first | exact ih _ _ hd | exact hd
    · exact h

/-- **reachability (IPFIX)**: decoding any datagram keeps the keys of the cache distinct -/
theorem Ipfix.decode_nodup (c : Cache) (addr bs : Bytes) (h : NoDupKeys c) : NoDupKeys (Ipfix.decode c addr bs).2 := by
  unfold Ipfix.decode
  split
  · exact h
  · split
    · exact h
    · rename_i hh r5 _ _
      have := Ipfix.outer_nodup addr (bs.length + 1) ⟨r5, c, []⟩ [] h
      generalize Ipfix.outer addr (bs.length + 1) ⟨r5, c, []⟩ [] = res at this
      obtain ⟨st, e, errs⟩ := res
      cases e <;> exact this

theorem V9.setLoop_nodup (ctx : V9.Ctx) :
    ∀ fuel st, NoDupKeys st.cache → NoDupKeys (V9.setLoop ctx fuel st).1.cache := by
  intro fuel
  induction fuel with
  | zero => intro st h; simpa [V9.setLoop] using h
  | succ n ih =>
    intro st h
    unfold V9.setLoop
    repeat' split
    all_goals first
      | exact h
      | exact ih _ (insert_nodup _ _ _ _ h)
      | exact ih _ h

theorem V9.skipRest_cache (ctx : V9.Ctx) (st : V9.St) (e : Option Err) :
    (V9.skipRest ctx st e).1.cache = st.cache := by
  unfold V9.skipRest; simp only; repeat' split
  all_goals rfl

theorem V9.setBody_nodup (addr : Bytes) (sid len start fuel : Nat) (st : V9.St) (h : NoDupKeys st.cache) :
    NoDupKeys (V9.setBody addr sid len start fuel st).1.cache := by
  unfold V9.setBody; simp only
  repeat' split
  all_goals first
    | (rw [V9.skipRest_cache]; first | exact h | exact V9.setLoop_nodup _ _ _ h)
    | exact V9.setLoop_nodup _ _ _ h

theorem V9.decodeSet_nodup (addr : Bytes) (fuel : Nat) (st : V9.St) (h : NoDupKeys st.cache) :
    NoDupKeys (V9.decodeSet addr fuel st).1.cache := by
  unfold V9.decodeSet
  repeat' split
  all_goals first
    | exact h
    | exact V9.setBody_nodup _ _ _ _ _ _ h

theorem V9.outer_nodup (addr : Bytes) :
    ∀ fuel st errs, NoDupKeys st.cache → NoDupKeys (V9.outer addr fuel st errs).1.cache := by
  intro fuel
  induction fuel with
  | zero => intro st errs h; simpa [V9.outer] using h
  | succ n ih =>
    intro st errs h
    unfold V9.outer
    split
    · have hd := V9.decodeSet_nodup addr (st.r.rem.length + 1) st h
      generalize V9.decodeSet addr (st.r.rem.length + 1) st = res at hd
      obtain ⟨st', e⟩ := res
      cases e with
      | none => exact ih _ _ hd
      | some e => simp only; split <;> first | exact ih _ _ hd | exact hd
    · exact h

/-- **reachability (NetFlow v9)** -/
theorem V9.decode_nodup (c : Cache) (addr bs : Bytes) (h : NoDupKeys c) : NoDupKeys (V9.decode c addr bs).2 := by
  unfold V9.decode
  split
  · exact h
  · split
    · exact h
    · rename_i hh r6 _ _
      have := V9.outer_nodup addr (bs.length + 1) ⟨r6, c, []⟩ [] h
      generalize V9.outer addr (bs.length + 1) ⟨r6, c, []⟩ [] = res at this
      obtain ⟨st, e, errs⟩ := res
      cases e <;> exact this

end Vflow
