import Vflow.Proofs.PipelineOwn
/-! # Preservation of the ownership invariant by worker steps -/
namespace Vflow.Pipeline
open Vflow
variable {K : Codec}

section
variable {cfg : Cfg} {spec : CountSpec} {s s' : State K} {i : Nat} {w : Worker K}

/-- what `Sim` knows about a decoded worker -/
theorem Sim.dec_info {a : Abs} (hsim : Sim s w a) (hd : a.decoded = true) :
    ∃ d c, w.cur = some d ∧ w.dec = some (c, (K.decode c d.addr d.bytes).1) ∧
      Event.decoded d.id c (K.decode c d.addr d.bytes).1 ∈ s.log := hsim.decoded hd

/-- evaluating a loop condition refines the abstract state soundly -/
theorem cond_sound {a a' : Abs} (hsim : Sim s w a) (c : Cond) (v : Bool) (hv : w.cond c = some v)
    (ha : assume c v a = some a') : Sim s w a' := by
  cases c <;> cases v <;> simp only [assume] at ha <;> split at ha <;> simp at ha <;> subst ha <;>
    rename_i hg
  · -- noMsg false
    obtain ⟨d, c, _, h2, _⟩ := hsim.decoded hg
    simp [Worker.cond, h2] at hv
    exact { hsim with
      kmsg := fun x hx => by
        simp at hx; subst hx
        refine ⟨hg, fun c' r' hr => ?_⟩
        rw [h2] at hr; simp at hr; rw [← hr.2]; simpa using hv }
  · -- noMsg true
    obtain ⟨d, c, _, h2, _⟩ := hsim.decoded hg
    simp [Worker.cond, h2] at hv
    exact { hsim with
      kmsg := fun x hx => by
        simp at hx; subst hx
        refine ⟨hg, fun c' r' hr => ?_⟩
        rw [h2] at hr; simp at hr; rw [← hr.2]; simpa using hv
      kyield := fun x hx => by
        simp at hx; subst hx
        refine ⟨hg, fun c' r' hr => ?_⟩
        rw [h2] at hr; simp at hr; rw [← hr.2, hv]; rfl }
  · -- noData false
    simp at hg
    obtain ⟨hdec, hk⟩ := hsim.kmsg true hg
    obtain ⟨d, c, _, h2, _⟩ := hsim.decoded hdec
    have := hk _ _ h2
    cases hr : (K.decode c d.addr d.bytes).1 with
    | none => rw [hr] at this; simp at this
    | some m =>
      rw [hr] at h2
      simp [Worker.cond, h2] at hv
      exact { hsim with
        kdata := fun x hx => by
          simp at hx; subst hx
          refine ⟨hdec, fun c' m' hm => ?_⟩
          rw [h2] at hm; simp at hm; rw [← hm.2]; exact hv }
  · -- noData true
    simp at hg
    obtain ⟨hdec, hk⟩ := hsim.kmsg true hg
    obtain ⟨d, c, _, h2, _⟩ := hsim.decoded hdec
    have := hk _ _ h2
    cases hr : (K.decode c d.addr d.bytes).1 with
    | none => rw [hr] at this; simp at this
    | some m =>
      rw [hr] at h2
      simp [Worker.cond, h2] at hv
      exact { hsim with
        kdata := fun x hx => by
          simp at hx; subst hx
          refine ⟨hdec, fun c' m' hm => ?_⟩
          rw [h2] at hm; simp at hm; rw [← hm.2]; exact hv
        kyield := fun x hx => by
          simp at hx; subst hx
          refine ⟨hdec, fun c' r' hr' => ?_⟩
          rw [h2] at hr'; simp at hr'; rw [← hr'.2]; simp [outcome, hv] }
  · -- noMsgOrNoData false
    obtain ⟨d, c, _, h2, _⟩ := hsim.decoded hg
    cases hr : (K.decode c d.addr d.bytes).1 with
    | none => rw [hr] at h2; simp [Worker.cond, h2] at hv
    | some m =>
      rw [hr] at h2
      simp [Worker.cond, h2] at hv
      exact { hsim with
        kmsg := fun x hx => by
          simp at hx; subst hx
          refine ⟨hg, fun c' r' hr' => ?_⟩
          rw [h2] at hr'; simp at hr'; rw [← hr'.2]; rfl
        kdata := fun x hx => by
          simp at hx; subst hx
          refine ⟨hg, fun c' m' hm => ?_⟩
          rw [h2] at hm; simp at hm; rw [← hm.2]; exact hv }
  · -- noMsgOrNoData true
    obtain ⟨d, c, _, h2, _⟩ := hsim.decoded hg
    exact { hsim with
      kyield := fun x hx => by
        simp at hx; subst hx
        refine ⟨hg, fun c' r' hr' => ?_⟩
        rw [h2] at hr'; simp at hr'; rw [← hr'.2]
        cases hr : (K.decode c d.addr d.bytes).1 with
        | none => rfl
        | some m =>
          rw [hr] at h2
          simp [Worker.cond, h2] at hv
          simp [outcome, hv] }
  · -- marshalErr false
    obtain ⟨hdec, c, m, h2, hm'⟩ := hsim.marsh hg
    cases hp : K.marshal m with
    | none => rw [hp] at hm'; simp [Worker.cond, hm'] at hv
    | some p =>
      exact { hsim with
        kmar := fun x hx => by
          simp at hx; subst hx
          refine ⟨hg, fun c' m' hm2 => ?_⟩
          rw [h2] at hm2; simp at hm2; rw [← hm2.2, hp]; rfl
        kyield := fun x hx => by
          simp only at hx
          split at hx
          · rename_i hkd
            simp at hkd hx; subst hx
            refine ⟨hdec, fun c' r' hr' => ?_⟩
            rw [h2] at hr'; simp at hr'; rw [← hr'.2]
            have := (hsim.kdata true hkd.2).2 c m h2
            simp [outcome, this, hp]
          · exact hsim.kyield x hx }
  · -- marshalErr true
    obtain ⟨hdec, c, m, h2, hm'⟩ := hsim.marsh hg
    cases hp : K.marshal m with
    | some p =>
      rw [hp] at hm'
      dsimp only at hm'
      by_cases hb : a.benc = true
      · rw [if_pos hb] at hm'; simp [Worker.cond, hm'.1] at hv
      · rw [if_neg hb] at hm'; simp [Worker.cond, hm'] at hv
    | none =>
      exact { hsim with
        kmar := fun x hx => by
          simp at hx; subst hx
          refine ⟨hg, fun c' m' hm2 => ?_⟩
          rw [h2] at hm2; simp at hm2; rw [← hm2.2, hp]; rfl
        kyield := fun x hx => by
          simp at hx; subst hx
          refine ⟨hdec, fun c' r' hr' => ?_⟩
          rw [h2] at hr'; simp at hr'; rw [← hr'.2]
          simp [outcome, hp] }

/-- at a checked publish, `b` is the solo result of the current datagram -/
theorem Sim.publish_info {a : Abs} (hsim : Sim s w a) (hy : a.kYield = some true) (hm : a.kMar = some true)
    {d : Dgram} {p : Bytes} (hd : w.cur = some d) (hp : w.payload = some p) :
    Sol s.log d.id p ∧ (a.benc = false → w.mar = .okVal p) := by
  obtain ⟨hdd, hk⟩ := hsim.kyield true hy
  obtain ⟨d', c, h1, h2, h3⟩ := hsim.decoded hdd
  rw [hd] at h1; simp at h1; subst h1
  have hy' := hk _ _ h2
  obtain ⟨_, c', m, h4, h5⟩ := hsim.marsh (hsim.kmar true hm).1
  rw [h2] at h4; simp at h4
  obtain ⟨hcc, hr⟩ := h4; subst hcc
  rw [hr] at hy' h3
  cases hp0 : outcome K (some m) with
  | none => rw [hp0] at hy'; simp at hy'
  | some p0 =>
    have hp0' := hp0
    simp only [outcome, Option.bind_some] at hp0
    split at hp0 <;> try (simp at hp0; done)
    rw [hp0] at h5
    dsimp only at h5
    have hpp : p = p0 ∧ (a.benc = false → w.mar = .okVal p) := by
      by_cases hb : a.benc = true
      · rw [if_pos hb] at h5
        simp [Worker.payload, h5.1, h5.2] at hp
        exact ⟨hp.symm, fun hb' => by rw [hb] at hb'; simp at hb'⟩
      · rw [if_neg hb] at h5
        simp [Worker.payload, h5] at hp
        exact ⟨hp.symm, fun _ => by rw [h5, hp]⟩
    refine ⟨⟨d, c, hsim.cur_recv d hd, rfl, by rw [hr]; exact h3, ?_⟩, hpp.2⟩
    rw [hr, hpp.1]; exact hp0'

/-- `Put(msg.body)` by a worker that owns its buffer -/
theorem inv_put {a : Abs} (h : Inv cfg spec s) (hi : s.workers[i]? = some w) (hsim : Sim s w a)
    (ho : a.owns = true) {b : BufId} (hb : w.msg = some b) (pc' : List Instr)
    (hchk : check spec (headAbs cfg.prog) pc' { a with owns := false } = true) :
    Inv cfg spec { s.setW i { w with pc := pc', owns := false } with pool := b :: s.pool } := by
  have hwo : w.owns = true := by rw [hsim.owns_eq]; exact ho
  have key : ∀ x, refs { s.setW i { w with pc := pc', owns := false } with pool := b :: s.pool } x = refs s x := by
    intro x
    have h1 := wsum_set hi { w with pc := pc', owns := false } x
    have h2 : wref { w with pc := pc', owns := false } x = 0 := wref_of_not_owns rfl x
    have h3 : wref w x = if b = x then 1 else 0 := by
      simp only [wref, hwo, hb, true_and, Option.some.injEq]
    simp only [refs, State.setW, count_cons']; omega
  refine inv_worker_step h hi rfl (fun x => by rw [key]; exact h.uniq x)
    (fun x hx => by rw [key] at hx; exact h.fresh x hx) (fun _ he => he) (fun x hx => absurd rfl hx)
    (fun _ _ hq => hq) (fun _ _ hq => .inl hq) rfl ?_ (fun _ hit => .inl hit) rfl (fun _ _ hp => .inl hp)
    (fun _ _ hp => hp)
  refine .inr ⟨{ a with owns := false }, ?_, hchk⟩
  exact { hsim with
    owns_eq := rfl
    buf_ok := fun _ _ ho => by simp at ho
    owns_msg := fun ho => by simp at ho }

theorem wstep_inv (hc : Canonical spec cfg.prog) (h : Inv cfg spec s) (hi : s.workers[i]? = some w)
    (hh : w.halted = false) (quit : Bool) (mb : Option (Option BufId))
    (hs : wstep cfg s i w quit mb = some s') : Inv cfg spec s' := by
  rcases h.wk i w hi with ⟨hhalt, _⟩ | ⟨a, hsim, hchk⟩
  · rw [hh] at hhalt; exact absurd hhalt (by simp)
  unfold wstep at hs
  split at hs
  · -- end of iteration
    rename_i hpc
    simp at hs; subst hs
    rw [hpc] at hchk
    simp only [check, atEnd, Bool.and_eq_true, beq_iff_eq] at hchk
    refine inv_local h hi _ _ rfl ⟨rfl, rfl, rfl, rfl, rfl, rfl, rfl, rfl⟩ (fun x => Nat.le_refl _) (fun _ he => he) ?_
      (fun _ _ hp => hp) (fun _ _ hp => hp)
    refine .inr ⟨headAbs cfg.prog, ?_, hc⟩
    constructor <;> simp [headAbs]
    · rw [hsim.owns_eq]; exact hchk.1.1
    · intro ho; exact hsim.owns_msg ho
  · -- putBack
    rename_i rest hpc
    rw [hpc] at hchk
    simp only [check, trans] at hchk
    split at hchk <;> try (simp at hchk; done)
    rename_i a' ha'
    split at ha' <;> simp at ha'
    rename_i hown; subst ha'
    split at hs <;> simp at hs
    rename_i b hb; subst hs
    exact inv_put h hi hsim hown hb rest hchk
  · -- resetEnc
    rename_i rest hpc
    rw [hpc] at hchk
    simp only [check, trans] at hchk
    split at hchk <;> try (simp at hchk; done)
    rename_i a' ha'
    split at ha' <;> simp at ha'
    rename_i hnm; subst ha'
    simp at hs; subst hs
    refine inv_local h hi _ _ rfl ⟨rfl, rfl, rfl, rfl, rfl, rfl, rfl, rfl⟩ (fun x => Nat.le_refl _) (fun _ he => he) ?_
      (fun _ _ hp => hp) (fun _ _ hp => hp)
    refine .inr ⟨_, ?_, hchk⟩
    exact { hsim with
      clean := fun _ => rfl
      marsh := fun hm => by simp at hm; rw [hm] at hnm; simp at hnm }
  · -- recvOrQuit
    rename_i rest hpc
    rw [hpc] at hchk
    simp only [check, trans] at hchk
    split at hchk <;> try (simp at hchk; done)
    rename_i a' ha'
    split at ha' <;> simp at ha'
    rename_i hnc; subst ha'
    have hcn : w.cur = none := by
      have := hsim.cur_eq
      cases hc' : w.cur with
      | none => rfl
      | some d0 => rw [hc'] at this; simp at this; rw [← this] at hnc; simp at hnc
    split at hs
    · -- quit
      simp at hs; subst hs
      exact inv_local h hi _ _ rfl ⟨rfl, rfl, rfl, rfl, rfl, rfl, rfl, rfl⟩ (fun x => Nat.le_refl _) (fun _ he => he)
        (.inl ⟨rfl, hcn⟩) (fun _ _ hp => hp) (fun _ _ hp => hp)
    · split at hs <;> simp at hs
      rename_i b d q hq; subst hs
      have hbd := h.qmem b d (by rw [hq]; simp)
      have key : ∀ x, refs { s.setW i { w with pc := rest, msg := some b, owns := true, cur := some d, dec := none, mar := .none, nDec := 0, nCnt := 0, nPub := 0 } with udpq := q } x ≤ refs s x := by
        intro x
        have h1 := wsum_set hi { w with pc := rest, msg := some b, owns := true, cur := some d, dec := none, mar := .none, nDec := 0, nCnt := 0, nPub := 0 } x
        have h3 : wref (K := K) { w with pc := rest, msg := some b, owns := true, cur := some d, dec := none, mar := .none, nDec := 0, nCnt := 0, nPub := 0 } x = if b = x then 1 else 0 := by
          simp only [wref, true_and, Option.some.injEq]
        simp only [refs, State.setW, hq, qcount_cons]; omega
      refine inv_worker_step h hi rfl (fun x => Nat.le_trans (key x) (h.uniq x))
        (fun x hx => h.fresh x (Nat.le_trans hx (key x))) (fun _ he => he) (fun x hx => absurd rfl hx)
        (fun b' d' hq' => by rw [hq]; exact List.mem_cons_of_mem _ hq') (fun _ _ hq' => .inl hq') rfl ?_
        (fun _ hit => .inl hit) rfl (fun _ _ hp => .inl hp) (fun _ _ hp => hp)
      refine .inr ⟨_, ?_, hchk⟩
      constructor <;> simp
      · exact hbd.2
      · exact hbd.1
      · exact hsim.clean
  · -- log
    rename_i rest hpc
    rw [hpc] at hchk
    simp only [check, trans] at hchk
    simp at hs; subst hs
    exact inv_local h hi _ _ rfl ⟨rfl, rfl, rfl, rfl, rfl, rfl, rfl, rfl⟩ (fun x => Nat.le_refl _) (fun _ he => he)
      (.inr ⟨a, { hsim with }, hchk⟩) (fun _ _ hp => hp) (fun _ _ hp => hp)
  · -- mirrorCopy
    rename_i rest hpc
    rw [hpc] at hchk
    simp only [check, trans] at hchk
    split at hchk <;> try (simp at hchk; done)
    rename_i a' ha'
    split at ha' <;> simp at ha'
    rename_i hoc; subst ha'
    simp at hoc
    split at hs
    · -- mirror off
      simp at hs; subst hs
      exact inv_local h hi _ _ rfl ⟨rfl, rfl, rfl, rfl, rfl, rfl, rfl, rfl⟩ (fun x => Nat.le_refl _) (fun _ he => he)
        (.inr ⟨a, { hsim with }, hchk⟩) (fun _ _ hp => hp) (fun _ _ hp => hp)
    · rename_i g
      split at hs <;> try (simp at hs; done)
      rename_i b d hb hd
      have hwo : w.owns = true := by rw [hsim.owns_eq]; exact hoc.1
      have hmem := hsim.buf_ok b d hwo hb hd
      have hrecv := hsim.cur_recv d hd
      have hwb : wref w b = 1 := wref_pos hwo hb
      have hwle := wref_le_wsum hi b
      have hsim' : Sim s { w with pc := rest } a := { hsim with }
      have hwr : ∀ x, wref (K := K) { w with pc := rest } x = wref w x := fun x => rfl
      split at hs
      · -- pooled buffer
        rename_i b'
        split at hs <;> try (simp at hs; done)
        rename_i hb'
        have hne : b ≠ b' := by
          intro e; subst e
          have := h.uniq b
          have := List.count_pos_iff.mpr hb'
          simp only [refs] at *; omega
        have hw' : ∀ s'' : State K, s''.mem = (fun x => if x = b' then s.mem b else s.mem x) → s''.log = s.log →
            WInv cfg spec s'' { w with pc := rest } := by
          intro s'' hm hl
          refine .inr ⟨a, hsim'.frame ?_ (by rw [hl]; exact fun _ he => he), hchk⟩
          intro x ho hm'
          have : x = b := by
            have : w.msg = some x := hm'
            rw [hb] at this; simp at this; exact this.symm
          subst this
          rw [hm]; simp [hne]
        simp at hs
        split at hs
        · subst hs
          have key : ∀ x, refs { s.setW i { w with pc := rest } with pool := s.pool.erase b', mem := (fun x => if x = b' then s.mem b else s.mem x), mirq := s.mirq ++ [(b', d)] } x = refs s x := by
            intro x
            have h1 := wsum_set hi { w with pc := rest } x
            have h2 := count_erase' hb' x
            simp only [refs, State.setW, qcount_append, h2, hwr] at *; omega
          refine inv_worker_step h hi rfl (fun x => by rw [key]; exact h.uniq x)
            (fun x hx => by rw [key] at hx; exact h.fresh x hx) (fun _ he => he) ?_
            (fun _ _ hq => hq) ?_ rfl (hw' _ rfl rfl) (fun _ hit => .inl hit) rfl (fun _ _ hp => .inl hp)
            (fun _ _ hp => hp)
          · intro x hx
            left
            by_cases hxb : x = b'
            · subst hxb; exact List.count_pos_iff.mpr hb'
            · simp [hxb] at hx
          · intro b2 d2 hq
            simp only [List.mem_append, List.mem_singleton, Prod.mk.injEq] at hq
            rcases hq with hq | ⟨rfl, rfl⟩
            · exact .inl hq
            · right; simp; exact ⟨hmem, hrecv⟩
        · subst hs
          have key : ∀ x, refs { s.setW i { w with pc := rest } with pool := s.pool.erase b', mem := (fun x => if x = b' then s.mem b else s.mem x) } x ≤ refs s x := by
            intro x
            have h1 := wsum_set hi { w with pc := rest } x
            have h2 := count_erase' hb' x
            simp only [refs, State.setW, h2, hwr] at *; omega
          refine inv_worker_step h hi rfl (fun x => Nat.le_trans (key x) (h.uniq x))
            (fun x hx => h.fresh x (Nat.le_trans hx (key x))) (fun _ he => he) ?_
            (fun _ _ hq => hq) (fun _ _ hq => .inl hq) rfl (hw' _ rfl rfl) (fun _ hit => .inl hit) rfl
            (fun _ _ hp => .inl hp) (fun _ _ hp => hp)
          intro x hx
          left
          by_cases hxb : x = b'
          · subst hxb; exact List.count_pos_iff.mpr hb'
          · simp [hxb] at hx
      · -- fresh buffer
        have hz := refs_zero_of_next h
        have hne : b ≠ s.next := by
          intro e
          have := h.fresh b (by simp only [refs]; omega)
          rw [e] at this; exact Nat.lt_irrefl _ this
        have hw' : ∀ s'' : State K, s''.mem = (fun x => if x = s.next then s.mem b else s.mem x) → s''.log = s.log →
            WInv cfg spec s'' { w with pc := rest } := by
          intro s'' hm hl
          refine .inr ⟨a, hsim'.frame ?_ (by rw [hl]; exact fun _ he => he), hchk⟩
          intro x ho hm'
          have : x = b := by
            have : w.msg = some x := hm'
            rw [hb] at this; simp at this; exact this.symm
          subst this
          rw [hm]; simp [hne]
        simp at hs
        split at hs
        · subst hs
          have key : ∀ x, refs { s.setW i { w with pc := rest } with next := s.next + 1, mem := (fun x => if x = s.next then s.mem b else s.mem x), mirq := s.mirq ++ [(s.next, d)] } x = refs s x + (if s.next = x then 1 else 0) := by
            intro x
            have h1 := wsum_set hi { w with pc := rest } x
            simp only [refs, State.setW, qcount_append, hwr] at *; omega
          refine inv_worker_step h hi rfl ?_ ?_ (fun _ he => he) ?_
            (fun _ _ hq => hq) ?_ rfl (hw' _ rfl rfl) (fun _ hit => .inl hit) rfl (fun _ _ hp => .inl hp)
            (fun _ _ hp => hp)
          · intro x; rw [key]
            by_cases hx : s.next = x
            · subst hx; simp [hz]
            · simp [hx]; exact h.uniq x
          · intro x hx; rw [key] at hx
            by_cases hx' : s.next = x
            · subst hx'; simp
            · simp only [if_neg hx', Nat.add_zero] at hx; exact Nat.lt_succ_of_lt (h.fresh x hx)
          · intro x hx
            right
            by_cases hxb : x = s.next
            · subst hxb; exact Nat.le_refl _
            · simp [hxb] at hx
          · intro b2 d2 hq
            simp only [List.mem_append, List.mem_singleton, Prod.mk.injEq] at hq
            rcases hq with hq | ⟨rfl, rfl⟩
            · exact .inl hq
            · right; simp; exact ⟨hmem, hrecv⟩
        · subst hs
          have key : ∀ x, refs { s.setW i { w with pc := rest } with next := s.next + 1, mem := (fun x => if x = s.next then s.mem b else s.mem x) } x = refs s x := by
            intro x
            have h1 := wsum_set hi { w with pc := rest } x
            simp only [refs, State.setW, hwr] at *; omega
          refine inv_worker_step h hi rfl (fun x => by rw [key]; exact h.uniq x)
            (fun x hx => by rw [key] at hx; exact Nat.lt_succ_of_lt (h.fresh x hx)) (fun _ he => he) ?_
            (fun _ _ hq => hq) (fun _ _ hq => .inl hq) rfl (hw' _ rfl rfl) (fun _ hit => .inl hit) rfl
            (fun _ _ hp => .inl hp) (fun _ _ hp => hp)
          intro x hx
          right
          by_cases hxb : x = s.next
          · subst hxb; exact Nat.le_refl _
          · simp [hxb] at hx
  · -- mirrorAlias: never canonical
    rename_i rest hpc
    rw [hpc] at hchk
    simp [check, trans] at hchk
  · -- decode
    rename_i rest hpc
    rw [hpc] at hchk
    simp only [check, trans] at hchk
    split at hchk <;> try (simp at hchk; done)
    rename_i a' ha'
    split at ha' <;> simp at ha'
    rename_i hoc; subst ha'
    simp at hoc
    split at hs <;> try (simp at hs; done)
    rename_i b d hb hd
    simp at hs; subst hs
    have hwo : w.owns = true := by rw [hsim.owns_eq]; exact hoc.1.1
    have hmem := hsim.buf_ok b d hwo hb hd
    rw [hmem]
    have hl : ∀ e, e ∈ s.log → e ∈ Event.decoded d.id s.cache (K.decode s.cache d.addr d.bytes).1 :: s.log := mem_cons_log _
    refine inv_local h hi _ _ rfl ⟨rfl, rfl, rfl, rfl, rfl, rfl, rfl, rfl⟩ (fun x => Nat.le_refl _) hl ?_
      (fun _ _ hp => by simpa using hp) (fun _ _ hp => by simpa using hp)
    refine .inr ⟨_, ?_, hchk⟩
    have hnd : a.decoded = false := by simpa using hoc.2
    exact { hsim with
      cur_recv := fun d' hd' => hl _ (hsim.cur_recv d' hd')
      buf_ok := fun b' d' ho hb' hd' => hsim.buf_ok b' d' ho hb' hd'
      decoded := fun _ => ⟨d, s.cache, hd, rfl, List.mem_cons_self⟩
      cnt_dec := by have := hsim.cnt_dec; simp [hnd] at this; simp [this]
      kmsg := fun x hx => by have := (hsim.kmsg x hx).1; rw [hnd] at this; simp at this
      kdata := fun x hx => by have := (hsim.kdata x hx).1; rw [hnd] at this; simp at this
      marsh := fun hm => by have := (hsim.marsh hm).1; rw [hnd] at this; simp at this
      kmar := fun x hx => by
        have := (hsim.marsh (hsim.kmar x hx).1).1; rw [hnd] at this; simp at this
      kyield := fun x hx => by have := (hsim.kyield x hx).1; rw [hnd] at this; simp at this }
  · -- contIf
    rename_i c put rest hpc
    rw [hpc] at hchk
    simp only [check, Bool.and_eq_true] at hchk
    obtain ⟨hT, hF⟩ := hchk
    split at hs <;> try (simp at hs; done)
    · -- condition false
      rename_i hv
      simp at hs; subst hs
      split at hF <;> try (simp at hF; done)
      rename_i aF haF
      have hsimF := cond_sound hsim c false hv haF
      exact inv_local h hi _ _ rfl ⟨rfl, rfl, rfl, rfl, rfl, rfl, rfl, rfl⟩ (fun x => Nat.le_refl _) (fun _ he => he)
        (.inr ⟨aF, { hsimF with }, hF⟩) (fun _ _ hp => hp) (fun _ _ hp => hp)
    · -- condition true
      rename_i hv
      split at hT <;> try (simp at hT; done)
      rename_i aT haT
      have hsimT := cond_sound hsim c true hv haT
      split at hs
      · rename_i hput
        simp only [hput, if_true, Bool.and_eq_true] at hT
        split at hs <;> simp at hs
        rename_i b hb; subst hs
        exact inv_put h hi hsimT hT.1 hb [] (by simpa [check] using hT.2)
      · rename_i hput
        simp only [hput] at hT
        simp at hs; subst hs
        exact inv_local h hi _ _ rfl ⟨rfl, rfl, rfl, rfl, rfl, rfl, rfl, rfl⟩ (fun x => Nat.le_refl _) (fun _ he => he)
          (.inr ⟨aT, { hsimT with }, by simpa [check] using hT⟩) (fun _ _ hp => hp) (fun _ _ hp => hp)
  · -- countDecoded
    rename_i rest hpc
    rw [hpc] at hchk
    simp only [check, trans] at hchk
    split at hchk <;> try (simp at hchk; done)
    rename_i a' ha'
    split at ha' <;> simp at ha'
    rename_i hoc; subst ha'
    split at hs <;> try (simp at hs; done)
    rename_i d hd
    simp at hs; subst hs
    have hl : ∀ e, e ∈ s.log → e ∈ Event.countDecoded (K := K) d.id :: s.log := mem_cons_log _
    refine inv_local h hi _ _ rfl ⟨rfl, rfl, rfl, rfl, rfl, rfl, rfl, rfl⟩ (fun x => Nat.le_refl _) hl ?_
      (fun _ _ hp => by simpa using hp) (fun _ _ hp => by simpa using hp)
    refine .inr ⟨_, ?_, hchk⟩
    have hsim' : Sim s { w with pc := rest, nCnt := w.nCnt + 1 } { a with counted := true } :=
      { hsim with cnt_cnt := by have := hsim.cnt_cnt; simp at hoc; simp [hoc.2] at this; simp [this] }
    exact hsim'.frame (fun _ _ _ => rfl) hl
  · -- marshal
    rename_i own rest hpc
    rw [hpc] at hchk
    simp only [check, trans] at hchk
    split at hchk <;> try (simp at hchk; done)
    rename_i a' ha'
    split at ha' <;> simp at ha'
    rename_i hoc; subst ha'
    simp at hoc
    obtain ⟨⟨⟨⟨hown, hcur⟩, hkm⟩, hnm⟩, hcl⟩ := hoc
    split at hs <;> try (simp at hs; done)
    rename_i b d c m0 hb hd hdec
    have hwo : w.owns = true := by rw [hsim.owns_eq]; exact hown
    have hmem := hsim.buf_ok b d hwo hb hd
    obtain ⟨hdd, hk⟩ := hsim.kmsg true hkm
    obtain ⟨d', c', h1, h2, h3⟩ := hsim.decoded hdd
    rw [hd] at h1; simp at h1; subst h1
    rw [hdec] at h2; simp at h2
    obtain ⟨hcc, hm0⟩ := h2; subst hcc
    rw [hmem, ← hm0] at hs
    simp only [Option.bind_some] at hs
    have hnm' : a.marshalled = false := by simpa using hnm
    have base : ∀ (w' : Worker K) (a' : Abs), w'.halted = w.halted → w'.pc = rest →
        Sim s w' a' → check spec (headAbs cfg.prog) rest a' = true → wref w' = wref w →
        Inv cfg spec (s.setW i w') := by
      intro w' a' _ hpc' hs' hc' hwr
      refine inv_local h hi _ _ rfl ⟨rfl, rfl, rfl, rfl, rfl, rfl, rfl, rfl⟩ (fun x => by rw [hwr]; exact Nat.le_refl _)
        (fun _ he => he) (.inr ⟨a', hs'.frame (fun _ _ _ => rfl) (fun _ he => he), by rw [hpc']; exact hc'⟩) (fun _ _ hp => hp) (fun _ _ hp => hp)
    split at hs
    · -- marshal error
      rename_i hmar
      simp at hs; subst hs
      refine base _ _ rfl rfl ?_ hchk rfl
      exact { hsim with
        clean := fun hc' => by simp at hc'; exact hsim.clean hc'.1
        marsh := fun _ => ⟨hdd, c, m0, hdec, by rw [hmar]⟩
        kmar := fun x hx => by have := (hsim.kmar x hx).1; rw [hnm'] at this; simp at this }
    · rename_i p hmar
      split at hs
      · -- own encode buffer
        rename_i hown'
        simp at hs; subst hs
        subst hown'
        have hce : w.enc = [] := hsim.clean (by simpa using hcl)
        refine base _ _ rfl rfl ?_ hchk rfl
        exact { hsim with
          clean := fun hc' => by simp at hc'
          marsh := fun _ => ⟨hdd, c, m0, hdec, by rw [hmar]; simp [hce]⟩
          kmar := fun x hx => by have := (hsim.kmar x hx).1; rw [hnm'] at this; simp at this }
      · rename_i hown'
        simp at hs; subst hs
        have : own = false := by simpa using hown'
        subst this
        refine base _ _ rfl rfl ?_ hchk rfl
        exact { hsim with
          clean := fun hc' => by simp at hc'; exact hsim.clean hc'
          marsh := fun _ => ⟨hdd, c, m0, hdec, by rw [hmar]; simp⟩
          kmar := fun x hx => by have := (hsim.kmar x hx).1; rw [hnm'] at this; simp at this }
  · -- publishCopy
    rename_i rest hpc
    rw [hpc] at hchk
    simp only [check, trans] at hchk
    split at hchk <;> try (simp at hchk; done)
    rename_i a' ha'
    split at ha' <;> simp at ha'
    rename_i hoc; subst ha'
    simp at hoc
    obtain ⟨⟨⟨hcur, hky⟩, hkm⟩, hnp⟩ := hoc
    split at hs <;> try (simp at hs; done)
    rename_i d p hd hp
    obtain ⟨hsol, _⟩ := hsim.publish_info hky hkm hd hp
    have hsim' : Sim s { w with pc := rest, nPub := w.nPub + 1 } { a with pubd := true } :=
      { hsim with cnt_pub := by have := hsim.cnt_pub; simp [hnp] at this; simp [this] }
    have hwr : ∀ x, wref (K := K) { w with pc := rest, nPub := w.nPub + 1 } x = wref w x := fun x => rfl
    have key : ∀ s'' : State K, s''.pool = s.pool → s''.rx = s.rx → s''.udpq = s.udpq → s''.mirq = s.mirq →
        s''.workers = s.workers.set i { w with pc := rest, nPub := w.nPub + 1 } → ∀ x, refs s'' x = refs s x := by
      intro s'' e1 e2 e3 e4 e5 x
      have h1 := wsum_set hi { w with pc := rest, nPub := w.nPub + 1 } x
      simp only [refs, e1, e2, e3, e4, e5, hwr] at *; omega
    simp at hs
    split at hs
    · subst hs
      have hl : ∀ e, e ∈ s.log → e ∈ Event.published d.id p :: s.log := mem_cons_log _
      refine inv_worker_step h hi rfl (fun x => by rw [key _ (by rfl) (by rfl) (by rfl) (by rfl) (by rfl)]; exact h.uniq x)
        (fun x hx => by rw [key _ (by rfl) (by rfl) (by rfl) (by rfl) (by rfl)] at hx; exact h.fresh x hx) hl (fun x hx => absurd rfl hx)
        (fun _ _ hq => hq) (fun _ _ hq => .inl hq) rfl (.inr ⟨_, hsim'.frame (fun _ _ _ => rfl) hl, hchk⟩) ?_ rfl ?_
        (fun _ _ hp' => by simpa using hp')
      · intro it hit
        simp only [List.mem_append, List.mem_singleton] at hit
        rcases hit with hit | rfl
        · exact .inl hit
        · exact .inr ⟨d.id, p, rfl, hsol.mono hl⟩
      · intro id p' hp'
        simp at hp'
        rcases hp' with ⟨rfl, rfl⟩ | hp'
        · exact .inr (hsol.mono hl)
        · exact .inl hp'
    · subst hs
      have hl : ∀ e, e ∈ s.log → e ∈ Event.dropped d.id p :: s.log := mem_cons_log _
      refine inv_worker_step h hi rfl (fun x => by rw [key _ (by rfl) (by rfl) (by rfl) (by rfl) (by rfl)]; exact h.uniq x)
        (fun x hx => by rw [key _ (by rfl) (by rfl) (by rfl) (by rfl) (by rfl)] at hx; exact h.fresh x hx) hl (fun x hx => absurd rfl hx)
        (fun _ _ hq => hq) (fun _ _ hq => .inl hq) rfl (.inr ⟨_, hsim'.frame (fun _ _ _ => rfl) hl, hchk⟩)
        (fun _ hit => .inl hit) rfl (fun _ _ hp' => .inl (by simpa using hp'))
        (fun _ _ hp' => by simpa using hp')
  · -- publishAlias (only accepted when `b` is a fresh slice)
    rename_i rest hpc
    rw [hpc] at hchk
    simp only [check, trans] at hchk
    split at hchk <;> try (simp at hchk; done)
    rename_i a' ha'
    split at ha' <;> simp at ha'
    rename_i hoc; subst ha'
    simp at hoc
    obtain ⟨⟨⟨⟨hcur, hky⟩, hkm⟩, hnp⟩, hnb⟩ := hoc
    split at hs <;> try (simp at hs; done)
    rename_i d p hd hp
    obtain ⟨hsol, hval⟩ := hsim.publish_info hky hkm hd hp
    have hmar := hval hnb
    have hsim' : Sim s { w with pc := rest, nPub := w.nPub + 1 } { a with pubd := true } :=
      { hsim with cnt_pub := by have := hsim.cnt_pub; simp [hnp] at this; simp [this] }
    have hwr : ∀ x, wref (K := K) { w with pc := rest, nPub := w.nPub + 1 } x = wref w x := fun x => rfl
    have key : ∀ s'' : State K, s''.pool = s.pool → s''.rx = s.rx → s''.udpq = s.udpq → s''.mirq = s.mirq →
        s''.workers = s.workers.set i { w with pc := rest, nPub := w.nPub + 1 } → ∀ x, refs s'' x = refs s x := by
      intro s'' e1 e2 e3 e4 e5 x
      have h1 := wsum_set hi { w with pc := rest, nPub := w.nPub + 1 } x
      simp only [refs, e1, e2, e3, e4, e5, hwr] at *; omega
    simp at hs
    split at hs
    · subst hs
      have hl : ∀ e, e ∈ s.log → e ∈ Event.published d.id p :: s.log := mem_cons_log _
      refine inv_worker_step h hi rfl (fun x => by rw [key _ (by rfl) (by rfl) (by rfl) (by rfl) (by rfl)]; exact h.uniq x)
        (fun x hx => by rw [key _ (by rfl) (by rfl) (by rfl) (by rfl) (by rfl)] at hx; exact h.fresh x hx) hl (fun x hx => absurd rfl hx)
        (fun _ _ hq => hq) (fun _ _ hq => .inl hq) rfl (.inr ⟨_, hsim'.frame (fun _ _ _ => rfl) hl, hchk⟩) ?_ rfl ?_
        (fun _ _ hp' => by simpa using hp')
      · intro it hit
        simp only [List.mem_append, List.mem_singleton] at hit
        rcases hit with hit | rfl
        · exact .inl hit
        · exact .inr ⟨d.id, p, by rw [hmar], hsol.mono hl⟩
      · intro id p' hp'
        simp at hp'
        rcases hp' with ⟨rfl, rfl⟩ | hp'
        · exact .inr (hsol.mono hl)
        · exact .inl hp'
    · subst hs
      have hl : ∀ e, e ∈ s.log → e ∈ Event.dropped d.id p :: s.log := mem_cons_log _
      refine inv_worker_step h hi rfl (fun x => by rw [key _ (by rfl) (by rfl) (by rfl) (by rfl) (by rfl)]; exact h.uniq x)
        (fun x hx => by rw [key _ (by rfl) (by rfl) (by rfl) (by rfl) (by rfl)] at hx; exact h.fresh x hx) hl (fun x hx => absurd rfl hx)
        (fun _ _ hq => hq) (fun _ _ hq => .inl hq) rfl (.inr ⟨_, hsim'.frame (fun _ _ _ => rfl) hl, hchk⟩)
        (fun _ hit => .inl hit) rfl (fun _ _ hp' => .inl (by simpa using hp'))
        (fun _ _ hp' => by simpa using hp')
  · -- unrecognised
    simp at hs

end
end Vflow.Pipeline

namespace Vflow.Pipeline
variable {K : Codec} {cfg : Cfg} {spec : CountSpec}

/-- every step preserves the ownership invariant -/
theorem step_inv (hc : Canonical spec cfg.prog) {s s' : State K} (h : Inv cfg spec s) (hs : Step cfg s s') :
    Inv cfg spec s' := by
  obtain ⟨a, ha⟩ := hs
  by_cases hw : ∃ i q mb, a = .work i q mb
  · obtain ⟨i, q, mb, rfl⟩ := hw
    simp only [step] at ha
    split at ha <;> try (simp at ha; done)
    rename_i w hi
    split at ha <;> try (simp at ha; done)
    rename_i hh
    exact wstep_inv hc h hi (by simpa using hh) q mb ha
  · exact step_inv_env hc h a (fun i q mb e => hw ⟨i, q, mb, e⟩) ha

/-- the invariant holds in every reachable state, whatever the schedule -/
theorem reach_inv (hc : Canonical spec cfg.prog) {c : K.Cache} {mem0 : BufId → Bytes} {s : State K}
    (hr : Reach cfg (init K c mem0) s) : Inv cfg spec s := by
  induction hr with
  | refl => exact init_inv cfg spec c mem0
  | step _ st ih => exact step_inv hc ih st

end Vflow.Pipeline
