import Vflow.Proofs.PipelineWork
/-!
# Accounting in the pipeline (the invariant behind C13)

Every datagram id is in at most one place (read loop, UDP channel, one worker, `fin`), events about a
datagram are only appended by its holder, and the event counts of a datagram are a function of where
it is: `Cnts log id u e c p` = number of `countUDP` / `decoded` / `countDecoded` / publish-attempt
(`published` or `dropped`) events about `id`.
-/
namespace Vflow.Pipeline
open Vflow
variable {K : Codec}

/-- (kind, datagram id) of the accounting events: 0 countUDP, 1 decoded, 2 countDecoded, 3 publish attempt -/
def tag : Event K → Option (Nat × Nat)
  | .countUDP id => some (0, id)
  | .decoded id _ _ => some (1, id)
  | .countDecoded id => some (2, id)
  | .published id _ => some (3, id)
  | .dropped id _ => some (3, id)
  | .received _ => none
  | .mirrored _ _ => none

def nK (k : Nat) (log : List (Event K)) (id : Nat) : Nat := log.countP (fun e => tag e == some (k, id))

theorem nK_cons (k : Nat) (e0 : Event K) (log : List (Event K)) (id : Nat) :
    nK k (e0 :: log) id = nK k log id + if tag e0 = some (k, id) then 1 else 0 := by
  simp only [nK, List.countP_cons, beq_iff_eq]

theorem nK_zero {k : Nat} {log : List (Event K)} {id : Nat} (h : ∀ e, e ∈ log → tag e ≠ some (k, id)) :
    nK k log id = 0 := by
  simp only [nK, List.countP_eq_zero, beq_iff_eq]
  exact h

def Cnts (log : List (Event K)) (id u e c p : Nat) : Prop :=
  nK 0 log id = u ∧ nK 1 log id = e ∧ nK 2 log id = c ∧ nK 3 log id = p

/-- an event that is not about `id` does not change its counts -/
theorem Cnts.cons_other {log : List (Event K)} {id u e c p : Nat} (e0 : Event K)
    (h : ∀ k, tag e0 ≠ some (k, id)) : Cnts (e0 :: log) id u e c p ↔ Cnts log id u e c p := by
  simp only [Cnts, nK_cons, h, if_false, Nat.add_zero]

/-- the code's own notion of "decoded" -/
def counts (K : Codec) (spec : CountSpec) (r : Option K.Msg) : Bool :=
  match spec with
  | .onMsg => r.isSome
  | .onYield => (outcome K r).isSome

/-- the complete account of a datagram whose iteration is over -/
def Final (spec : CountSpec) (log : List (Event K)) (d : Dgram) : Prop :=
  Event.received d ∈ log ∧
  ∃ c, Event.decoded d.id c (K.decode c d.addr d.bytes).1 ∈ log ∧
    Cnts log d.id 1 1 (if counts K spec (K.decode c d.addr d.bytes).1 = true then 1 else 0)
      (if (outcome K (K.decode c d.addr d.bytes).1).isSome = true then 1 else 0)

/-! ## where a datagram is -/

def rxd : RxPhase → Nat → Nat
  | .read _ d, id => if d.id = id then 1 else 0
  | .counted _ d, id => if d.id = id then 1 else 0
  | _, _ => 0

def qd (q : List (BufId × Dgram)) (id : Nat) : Nat := (q.map (·.2.id)).count id
def wd (w : Worker K) (id : Nat) : Nat :=
  match w.cur with
  | some d => if d.id = id then 1 else 0
  | none => 0
def wdsum (ws : List (Worker K)) (id : Nat) : Nat := (ws.map (fun w => wd w id)).sum
def fd (fin : List Dgram) (id : Nat) : Nat := (fin.map (·.id)).count id

def drefs (s : State K) (id : Nat) : Nat := rxd s.rx id + qd s.udpq id + wdsum s.workers id + fd s.fin id

theorem qd_cons (p : BufId × Dgram) (q) (x : Nat) : qd (p :: q) x = qd q x + if p.2.id = x then 1 else 0 := by
  simp only [qd, List.map_cons, count_cons']

theorem qd_append (q : List (BufId × Dgram)) (p : BufId × Dgram) (x : Nat) :
    qd (q ++ [p]) x = qd q x + if p.2.id = x then 1 else 0 := by
  simp only [qd, List.map_append, List.count_append, List.map_cons, List.map_nil, count_cons',
    List.count_nil, Nat.zero_add]

theorem qd_pos {q : List (BufId × Dgram)} {b d} (h : (b, d) ∈ q) : 1 ≤ qd q d.id :=
  List.count_pos_iff.mpr (List.mem_map.mpr ⟨(b, d), h, rfl⟩)

theorem fd_pos {fin : List Dgram} {d} (h : d ∈ fin) : 1 ≤ fd fin d.id :=
  List.count_pos_iff.mpr (List.mem_map.mpr ⟨d, h, rfl⟩)

theorem wdsum_set {ws : List (Worker K)} {i : Nat} {w : Worker K} (h : ws[i]? = some w) (w' : Worker K) (x : Nat) :
    wdsum (ws.set i w') x + wd w x = wdsum ws x + wd w' x :=
  sum_map_set (fun w => wd w x) ws i w w' h

theorem wdsum_append (ws : List (Worker K)) (w : Worker K) (x : Nat) :
    wdsum (ws ++ [w]) x = wdsum ws x + wd w x :=
  sum_map_append_single (fun w => wd w x) ws w

theorem wd_le_wdsum : ∀ {ws : List (Worker K)} {i : Nat} {w : Worker K}, ws[i]? = some w →
    ∀ x, wd w x ≤ wdsum ws x
  | [], i, w, h, b => by simp at h
  | a :: l, 0, w, h, b => by
      simp at h; subst h; simp [wdsum]
  | a :: l, i+1, w, h, b => by
      simp at h
      have := wd_le_wdsum h b
      simp only [wdsum, List.map_cons, List.sum_cons] at this ⊢; omega

theorem wd_cur {w : Worker K} {d : Dgram} (h : w.cur = some d) : wd w d.id = 1 := by simp [wd, h]

def inPlace (s : State K) (d : Dgram) : Prop :=
  (∃ b, s.rx = .read b d ∨ s.rx = .counted b d) ∨ (∃ b, (b, d) ∈ s.udpq) ∨
  (∃ (i : Nat) (w : Worker K), s.workers[i]? = some w ∧ w.cur = some d) ∨ d ∈ s.fin

def isCountUDP : Event K → Bool
  | .countUDP _ => true
  | _ => false
def isCountDecoded : Event K → Bool
  | .countDecoded _ => true
  | _ => false

def decInc : Option (Event K) → Nat
  | some e => if isCountDecoded e then 1 else 0
  | none => 0

/-- the accounting invariant -/
structure Acct (spec : CountSpec) (s : State K) : Prop where
  dlive : ∀ id, drefs s id ≤ 1
  dfresh : ∀ id, 1 ≤ drefs s id → id < s.nextId
  evfresh : ∀ e, e ∈ s.log → ∀ k id, tag e = some (k, id) → id < s.nextId
  rxR : ∀ b d, s.rx = .read b d → Cnts s.log d.id 0 0 0 0
  rxC : ∀ b d, s.rx = .counted b d → Cnts s.log d.id 1 0 0 0
  qA : ∀ b d, (b, d) ∈ s.udpq → Cnts s.log d.id 1 0 0 0
  wA : ∀ (i : Nat) (w : Worker K), s.workers[i]? = some w → ∀ d, w.cur = some d →
      Cnts s.log d.id 1 w.nDec w.nCnt w.nPub
  finA : ∀ d, d ∈ s.fin → Final spec s.log d
  totU : s.udpCount = s.log.countP isCountUDP
  totD : s.decCount = s.log.countP isCountDecoded
  place : ∀ d, Event.received d ∈ s.log → inPlace s d

theorem Final.mono_other {spec : CountSpec} {log : List (Event K)} {d : Dgram} (e0 : Event K)
    (h : ∀ k, tag e0 ≠ some (k, d.id)) (hf : Final spec log d) : Final spec (e0 :: log) d := by
  obtain ⟨h1, c, h2, h3⟩ := hf
  exact ⟨List.mem_cons_of_mem _ h1, c, List.mem_cons_of_mem _ h2, (Cnts.cons_other e0 h).mpr h3⟩

theorem init_acct (spec : CountSpec) (c : K.Cache) (mem0 : BufId → Bytes) : Acct spec (init K c mem0) := by
  refine ⟨?_, ?_, ?_, ?_, ?_, ?_, ?_, ?_, ?_, ?_, ?_⟩ <;> simp [init, drefs, rxd, qd, wdsum, fd]

section
variable {cfg : Cfg} {spec : CountSpec} {s : State K}

/-- a step that appends the event `e0` (about datagram `id0`, or about none) and does not move any
datagram; the holder of `id0` re-establishes its own counts (`hrx`…`hw`) -/
theorem acct_frame (h : Acct spec s) (s' : State K) (e0 : Option (Event K))
    (hlog : s'.log = e0.toList ++ s.log)
    (hsame : s'.rx = s.rx ∧ s'.udpq = s.udpq ∧ s'.fin = s.fin ∧ s'.nextId = s.nextId)
    (i : Nat) (w w' : Worker K) (hi : s.workers[i]? = some w) (hW : s'.workers = s.workers.set i w')
    (hcur : w'.cur = w.cur)
    (id0 : Nat) (htag : ∀ e, e0 = some e → ∀ k id, tag e = some (k, id) → id = id0 ∧ k ≠ 0)
    (hown : ∀ e, e0 = some e → ∃ d, w.cur = some d ∧ d.id = id0)
    (hnr : ∀ d, e0 ≠ some (.received d))
    (hw : ∀ d, w.cur = some d → Cnts s'.log d.id 1 w'.nDec w'.nCnt w'.nPub)
    (hU : s'.udpCount = s.udpCount)
    (hD : s'.decCount = s.decCount + decInc e0) :
    Acct spec s' := by
  obtain ⟨e1, e2, e3, e4⟩ := hsame
  have hdr : ∀ id, drefs s' id = drefs s id := by
    intro id
    have h1 := wdsum_set hi w' id
    have h2 : wd w' id = wd w id := by simp [wd, hcur]
    simp only [drefs, e1, e2, e3, hW]; omega
  have hmem : ∀ e, e ∈ s.log → e ∈ s'.log := by
    intro e he; rw [hlog]; exact List.mem_append_right _ he
  -- counts of a datagram that is not the event's datagram are unchanged
  have other : ∀ id u e c p, (∀ ev, e0 = some ev → id ≠ id0) → Cnts s.log id u e c p → Cnts s'.log id u e c p := by
    intro id u e c p hne hc
    rw [hlog]
    cases e0 with
    | none => simpa using hc
    | some ev =>
      simp only [Option.toList_some, List.singleton_append]
      refine (Cnts.cons_other ev ?_).mpr hc
      intro k hk
      exact hne ev rfl (htag ev rfl k id hk).1
  have finO : ∀ d, (∀ ev, e0 = some ev → d.id ≠ id0) → Final spec s.log d → Final spec s'.log d := by
    intro d hne hf
    rw [hlog]
    cases e0 with
    | none => simpa using hf
    | some ev =>
      simp only [Option.toList_some, List.singleton_append]
      refine Final.mono_other ev ?_ hf
      intro k hk
      exact hne ev rfl (htag ev rfl k d.id hk).1
  -- the holder of id0 is worker i: every other place has a different id
  have hne_of : ∀ id, (∀ ev, e0 = some ev → rxd s.rx id + qd s.udpq id + fd s.fin id ≥ 1 ∨
      (∃ (j : Nat) (x : Worker K), j ≠ i ∧ s.workers[j]? = some x ∧ wd x id = 1) → id ≠ id0) := by
    intro id ev hev hpl heq
    subst heq
    obtain ⟨d, hd, hdid⟩ := hown ev hev
    have hl := h.dlive id
    have h1 := wd_le_wdsum hi id
    have h2 : wd w id = 1 := by rw [← hdid]; exact wd_cur hd
    rcases hpl with hpl | ⟨j, x, hj, hx, hx1⟩
    · simp only [drefs] at hl; omega
    · -- two different workers with the same id
      have h3 := wdsum_set hi { w with cur := none } id
      have h4 : wd (K := K) { w with cur := none } id = 0 := by simp [wd]
      have h5 : (s.workers.set i { w with cur := none })[j]? = some x := by
        rw [List.getElem?_set_ne (fun e => hj e.symm)]; exact hx
      have h6 := wd_le_wdsum h5 id
      simp only [drefs] at hl; omega
  refine ⟨fun id => by rw [hdr]; exact h.dlive id, fun id hid => by rw [hdr] at hid; rw [e4]; exact h.dfresh id hid,
    ?_, ?_, ?_, ?_, ?_, ?_, ?_, ?_, ?_⟩
  · intro e he k id ht
    rw [hlog] at he
    rw [e4]
    rcases List.mem_append.mp he with he | he
    · cases e0 with
      | none => simp at he
      | some ev =>
        simp at he; subst he
        obtain ⟨d, hd, hdid⟩ := hown e rfl
        have := (htag e rfl k id ht).1
        rw [this, ← hdid]
        exact h.dfresh d.id (by
          have h1 := wd_le_wdsum hi d.id
          rw [wd_cur hd] at h1
          simp only [drefs]; omega)
    · exact h.evfresh e he k id ht
  · intro b d hrx
    rw [e1] at hrx
    refine other _ _ _ _ _ (fun ev hev => hne_of d.id ev hev (.inl ?_)) (h.rxR b d hrx)
    have : rxd s.rx d.id = 1 := by simp [hrx, rxd]
    omega
  · intro b d hrx
    rw [e1] at hrx
    refine other _ _ _ _ _ (fun ev hev => hne_of d.id ev hev (.inl ?_)) (h.rxC b d hrx)
    have : rxd s.rx d.id = 1 := by simp [hrx, rxd]
    omega
  · intro b d hq
    rw [e2] at hq
    refine other _ _ _ _ _ (fun ev hev => hne_of d.id ev hev (.inl ?_)) (h.qA b d hq)
    have := qd_pos hq; omega
  · intro j x hj d hd
    rw [hW] at hj
    rcases getElem?_set_cases hj with ⟨_, rfl⟩ | ⟨hji, hj'⟩
    · exact hw d (by rw [← hcur]; exact hd)
    · exact other _ _ _ _ _ (fun ev hev => hne_of d.id ev hev (.inr ⟨j, x, hji, hj', wd_cur hd⟩)) (h.wA j x hj' d hd)
  · intro d hd
    rw [e3] at hd
    refine finO d (fun ev hev => hne_of d.id ev hev (.inl ?_)) (h.finA d hd)
    have := fd_pos hd; omega
  · rw [hU, h.totU, hlog]
    cases e0 with
    | none => simp
    | some ev =>
      simp only [Option.toList_some, List.singleton_append, List.countP_cons]
      have : isCountUDP ev = false := by
        cases ev <;> simp [isCountUDP]
        rename_i id
        exact absurd rfl (htag _ rfl 0 id rfl).2
      simp [this]
  · rw [hD, h.totD, hlog]
    cases e0 with
    | none => simp [decInc]
    | some ev =>
      simp only [Option.toList_some, List.singleton_append, List.countP_cons, decInc]
  · intro d hd
    rw [hlog] at hd
    have hd' : Event.received d ∈ s.log := by
      rcases List.mem_append.mp hd with hd | hd
      · cases e0 with
        | none => simp at hd
        | some ev =>
          simp at hd; subst hd
          exact absurd rfl (hnr d)
      · exact hd
    rcases h.place d hd' with hp | hp | ⟨j, x, hj, hx⟩ | hp
    · exact .inl (by rw [e1]; exact hp)
    · exact .inr (.inl (by rw [e2]; exact hp))
    · refine .inr (.inr (.inl ?_))
      by_cases hji : j = i
      · subst hji
        rw [hi] at hj; simp at hj; subst hj
        exact ⟨j, w', by rw [hW]; simp [List.getElem?_set_self', hi], by rw [hcur]; exact hx⟩
      · exact ⟨j, x, by rw [hW, List.getElem?_set_ne (fun e => hji e.symm)]; exact hj, hx⟩
    · exact .inr (.inr (.inr (by rw [e3]; exact hp)))

end
end Vflow.Pipeline

namespace Vflow.Pipeline
variable {K : Codec} {cfg : Cfg} {spec : CountSpec} {s s' : State K}

theorem Final.cons_none {log : List (Event K)} {d : Dgram} (e0 : Event K) (h : tag e0 = none)
    (hf : Final spec log d) : Final spec (e0 :: log) d :=
  Final.mono_other e0 (fun k hk => by rw [h] at hk; simp at hk) hf

theorem Cnts.cons_none {log : List (Event K)} {id u e c p : Nat} (e0 : Event K) (h : tag e0 = none) :
    Cnts (e0 :: log) id u e c p ↔ Cnts log id u e c p :=
  Cnts.cons_other e0 (fun k hk => by rw [h] at hk; simp at hk)

theorem inPlace_of_workers {s s' : State K} {d : Dgram} (hp : inPlace s d)
    (hrx : ∀ b, (s.rx = .read b d ∨ s.rx = .counted b d) → inPlace s' d)
    (hq : ∀ b, (b, d) ∈ s.udpq → inPlace s' d)
    (hw : ∀ (i : Nat) (w : Worker K), s.workers[i]? = some w → w.cur = some d → inPlace s' d)
    (hf : d ∈ s.fin → inPlace s' d) : inPlace s' d := by
  rcases hp with ⟨b, hp⟩ | ⟨b, hp⟩ | ⟨i, w, h1, h2⟩ | hp
  · exact hrx b hp
  · exact hq b hp
  · exact hw i w h1 h2
  · exact hf hp

/-- steps of the environment (read loop, mirror, MQ consumer, worker start) preserve `Acct` -/
theorem acct_env (h : Acct spec s) (a : Action) (hw : ∀ i q mb, a ≠ .work i q mb)
    (hs : step cfg s a = some s') : Acct spec s' := by
  cases a with
  | work i q mb => exact absurd rfl (hw i q mb)
  | spawn g =>
    have key : ∀ (w0 : Worker K) (s'' : State K), w0.cur = none → s''.workers = s.workers ++ [w0] →
        s''.rx = s.rx → s''.udpq = s.udpq → s''.fin = s.fin → s''.nextId = s.nextId → s''.log = s.log →
        s''.udpCount = s.udpCount → s''.decCount = s.decCount → Acct spec s'' := by
      intro w0 s'' hc0 e1 e2 e3 e4 e5 e6 e7 e8
      have hdr : ∀ id, drefs s'' id = drefs s id := by
        intro id; simp [drefs, e1, e2, e3, e4, wdsum_append, wd, hc0]
      refine ⟨fun id => by rw [hdr]; exact h.dlive id, fun id hid => by rw [hdr] at hid; rw [e5]; exact h.dfresh id hid,
        by rw [e6, e5]; exact h.evfresh, by rw [e2, e6]; exact h.rxR, by rw [e2, e6]; exact h.rxC,
        by rw [e3, e6]; exact h.qA, ?_, by rw [e4, e6]; exact h.finA, by rw [e7, e6]; exact h.totU,
        by rw [e8, e6]; exact h.totD, ?_⟩
      · intro j x hj d hd
        rw [e1] at hj
        rcases getElem?_append_single hj with hj | rfl
        · rw [e6]; exact h.wA j x hj d hd
        · rw [hc0] at hd; simp at hd
      · intro d hd
        rw [e6] at hd
        refine inPlace_of_workers (h.place d hd) (fun b hb => .inl ⟨b, by rw [e2]; exact hb⟩)
          (fun b hb => .inr (.inl ⟨b, by rw [e3]; exact hb⟩)) ?_ (fun hf => .inr (.inr (.inr (by rw [e4]; exact hf))))
        intro j x hj hx
        refine .inr (.inr (.inl ⟨j, x, ?_, hx⟩))
        rw [e1, List.getElem?_append_left]
        · exact hj
        · rcases Nat.lt_or_ge j s.workers.length with hl | hl
          · exact hl
          · simp [List.getElem?_eq_none hl] at hj
    simp only [step] at hs
    repeat' split at hs
    all_goals first
      | (simp at hs; done)
      | (simp at hs; subst hs; exact key _ _ rfl rfl rfl rfl rfl rfl rfl rfl rfl)
  | rxGetPool b =>
    simp only [step] at hs
    split at hs <;> try (simp at hs; done)
    rename_i hrx
    split at hs <;> simp at hs
    subst hs
    exact ⟨fun id => by have := h.dlive id; simp only [drefs, hrx, rxd] at *; exact this,
      fun id hid => h.dfresh id (by simp only [drefs, hrx, rxd] at *; exact hid), h.evfresh,
      fun _ _ hh => by simp at hh, fun _ _ hh => by simp at hh, h.qA, h.wA, h.finA, h.totU, h.totD,
      fun d hd => inPlace_of_workers (h.place d hd) (fun b hb => by rw [hrx] at hb; simp at hb)
        (fun b hb => .inr (.inl ⟨b, hb⟩)) (fun i w h1 h2 => .inr (.inr (.inl ⟨i, w, h1, h2⟩)))
        (fun hf => .inr (.inr (.inr hf)))⟩
  | rxGetNew =>
    simp only [step] at hs
    split at hs <;> simp at hs
    rename_i hrx
    subst hs
    exact ⟨fun id => by have := h.dlive id; simp only [drefs, hrx, rxd] at *; exact this,
      fun id hid => h.dfresh id (by simp only [drefs, hrx, rxd] at *; exact hid), h.evfresh,
      fun _ _ hh => by simp at hh, fun _ _ hh => by simp at hh, h.qA, h.wA, h.finA, h.totU, h.totD,
      fun d hd => inPlace_of_workers (h.place d hd) (fun b hb => by rw [hrx] at hb; simp at hb)
        (fun b hb => .inr (.inl ⟨b, hb⟩)) (fun i w h1 h2 => .inr (.inr (.inl ⟨i, w, h1, h2⟩)))
        (fun hf => .inr (.inr (.inr hf)))⟩
  | rxRead dg =>
    simp only [step] at hs
    split at hs <;> try (simp at hs; done)
    rename_i b hrx
    split at hs
    · simp at hs; subst hs
      exact ⟨fun id => by have := h.dlive id; simp only [drefs, hrx, rxd] at *; exact this,
        fun id hid => h.dfresh id (by simp only [drefs, hrx, rxd] at *; exact hid), h.evfresh,
        fun _ _ hh => by simp at hh, fun _ _ hh => by simp at hh, h.qA, h.wA, h.finA, h.totU, h.totD,
        fun d hd => inPlace_of_workers (h.place d hd) (fun b hb => by rw [hrx] at hb; simp at hb)
          (fun b hb => .inr (.inl ⟨b, hb⟩)) (fun i w h1 h2 => .inr (.inr (.inl ⟨i, w, h1, h2⟩)))
          (fun hf => .inr (.inr (.inr hf)))⟩
    · rename_i addr bytes
      simp at hs; subst hs
      have hz : drefs s s.nextId = 0 := by
        by_cases hc : 1 ≤ drefs s s.nextId
        · exact absurd (h.dfresh _ hc) (Nat.lt_irrefl _)
        · omega
      have hdr : ∀ id, drefs { s with mem := (fun x => if x = b then bytes else s.mem x), rx := .read b ⟨s.nextId, addr, bytes⟩, nextId := s.nextId + 1, log := .received ⟨s.nextId, addr, bytes⟩ :: s.log } id = drefs s id + if s.nextId = id then 1 else 0 := by
        intro id; simp only [drefs, hrx, rxd]; omega
      have ht : tag (Event.received (K := K) ⟨s.nextId, addr, bytes⟩) = none := rfl
      refine ⟨?_, ?_, ?_, ?_, fun _ _ hh => by simp at hh, ?_, ?_, ?_, ?_, ?_, ?_⟩
      · intro id; rw [hdr]
        by_cases hx : s.nextId = id
        · subst hx; simp [hz]
        · simp [hx]; exact h.dlive id
      · intro id hid; rw [hdr] at hid
        by_cases hx : s.nextId = id
        · subst hx; simp
        · simp only [if_neg hx, Nat.add_zero] at hid; exact Nat.lt_succ_of_lt (h.dfresh id hid)
      · intro e he k id hk
        simp at he
        rcases he with rfl | he
        · simp [tag] at hk
        · exact Nat.lt_succ_of_lt (h.evfresh e he k id hk)
      · intro b' d' hh
        simp at hh
        obtain ⟨_, rfl⟩ := hh
        refine (Cnts.cons_none _ ht).mpr ?_
        have hz' : ∀ k, nK k s.log s.nextId = 0 := fun k => nK_zero (fun e he hk =>
          Nat.lt_irrefl _ (h.evfresh e he k _ hk))
        exact ⟨hz' 0, hz' 1, hz' 2, hz' 3⟩
      · intro b' d' hq; exact (Cnts.cons_none _ ht).mpr (h.qA b' d' hq)
      · intro j x hj d' hd'; exact (Cnts.cons_none _ ht).mpr (h.wA j x hj d' hd')
      · intro d' hd'; exact Final.cons_none _ ht (h.finA d' hd')
      · simp [isCountUDP]; exact h.totU
      · simp [isCountDecoded]; exact h.totD
      · intro d' hd'
        simp at hd'
        rcases hd' with rfl | hd'
        · exact .inl ⟨b, .inl rfl⟩
        · exact inPlace_of_workers (h.place d' hd') (fun b hb => by rw [hrx] at hb; simp at hb)
            (fun b hb => .inr (.inl ⟨b, hb⟩)) (fun i w h1 h2 => .inr (.inr (.inl ⟨i, w, h1, h2⟩)))
            (fun hf => .inr (.inr (.inr hf)))
  | rxCount =>
    simp only [step] at hs
    split at hs <;> try (simp at hs; done)
    rename_i b d hrx
    simp at hs; subst hs
    have hrd : rxd s.rx d.id = 1 := by simp [hrx, rxd]
    have hl := h.dlive d.id
    have hdr : ∀ id, drefs { s with rx := .counted b d, udpCount := s.udpCount + 1, log := .countUDP d.id :: s.log } id = drefs s id := by
      intro id; simp only [drefs, hrx, rxd]
    have hoth : ∀ id, id ≠ d.id → ∀ k, tag (Event.countUDP (K := K) d.id) ≠ some (k, id) := by
      intro id hne k hk; simp [tag] at hk; exact hne hk.2.symm
    refine ⟨fun id => by rw [hdr]; exact h.dlive id, fun id hid => by rw [hdr] at hid; exact h.dfresh id hid,
      ?_, fun _ _ hh => by simp at hh, ?_, ?_, ?_, ?_, ?_, ?_, ?_⟩
    · intro e he k id hk
      simp at he
      rcases he with rfl | he
      · simp [tag] at hk
        rw [← hk.2]
        exact h.dfresh d.id (by simp only [drefs]; omega)
      · exact h.evfresh e he k id hk
    · intro b' d' hh
      simp at hh
      obtain ⟨_, rfl⟩ := hh
      obtain ⟨h0, h1, h2, h3⟩ := h.rxR b d hrx
      refine ⟨?_, ?_, ?_, ?_⟩ <;> simp [nK_cons, tag, h0, h1, h2, h3]
    · intro b' d' hq
      have : 1 ≤ qd s.udpq d'.id := qd_pos hq
      refine (Cnts.cons_other _ (hoth d'.id ?_)).mpr (h.qA b' d' hq)
      intro e; rw [e] at this; simp only [drefs] at hl; omega
    · intro j x hj d' hd'
      have h1 : wd x d'.id ≤ wdsum s.workers d'.id := wd_le_wdsum hj d'.id
      rw [wd_cur hd'] at h1
      refine (Cnts.cons_other _ (hoth d'.id ?_)).mpr (h.wA j x hj d' hd')
      intro e; rw [e] at h1; simp only [drefs] at hl; omega
    · intro d' hd'
      have : 1 ≤ fd s.fin d'.id := fd_pos hd'
      refine Final.mono_other _ (hoth d'.id ?_) (h.finA d' hd')
      intro e; rw [e] at this; simp only [drefs] at hl; omega
    · simp only [List.countP_cons, isCountUDP, if_true]; rw [h.totU]
    · simp [isCountDecoded]; exact h.totD
    · intro d' hd'
      simp at hd'
      exact inPlace_of_workers (h.place d' hd')
        (fun b' hb => by
          rw [hrx] at hb; simp at hb
          obtain ⟨rfl, rfl⟩ := hb
          exact .inl ⟨_, .inr rfl⟩)
        (fun b hb => .inr (.inl ⟨b, hb⟩)) (fun i w h1 h2 => .inr (.inr (.inl ⟨i, w, h1, h2⟩)))
        (fun hf => .inr (.inr (.inr hf)))
  | rxEnqueue =>
    simp only [step] at hs
    split at hs <;> try (simp at hs; done)
    rename_i b d hrx
    split at hs <;> simp at hs
    subst hs
    have hdr : ∀ id, drefs { s with rx := .idle, udpq := s.udpq ++ [(b, d)] } id = drefs s id := by
      intro id; simp only [drefs, hrx, rxd, qd_append]; omega
    refine ⟨fun id => by rw [hdr]; exact h.dlive id, fun id hid => by rw [hdr] at hid; exact h.dfresh id hid,
      h.evfresh, fun _ _ hh => by simp at hh, fun _ _ hh => by simp at hh, ?_, h.wA, h.finA, h.totU, h.totD, ?_⟩
    · intro b' d' hq
      simp only [List.mem_append, List.mem_singleton, Prod.mk.injEq] at hq
      rcases hq with hq | ⟨rfl, rfl⟩
      · exact h.qA b' d' hq
      · exact h.rxC _ _ hrx
    · intro d' hd'
      exact inPlace_of_workers (h.place d' hd')
        (fun b' hb => by
          rw [hrx] at hb; simp at hb
          obtain ⟨rfl, rfl⟩ := hb
          exact .inr (.inl ⟨_, List.mem_append_right _ (List.mem_singleton.mpr rfl)⟩))
        (fun b hb => .inr (.inl ⟨b, List.mem_append_left _ hb⟩)) (fun i w h1 h2 => .inr (.inr (.inl ⟨i, w, h1, h2⟩)))
        (fun hf => .inr (.inr (.inr hf)))
  | mirConsume =>
    simp only [step] at hs
    split at hs <;> try (simp at hs; done)
    rename_i b d q hq
    simp at hs; subst hs
    have ht : tag (Event.mirrored (K := K) d.id (s.mem b)) = none := rfl
    refine ⟨h.dlive, h.dfresh, ?_, fun b' d' hh => (Cnts.cons_none _ ht).mpr (h.rxR b' d' hh),
      fun b' d' hh => (Cnts.cons_none _ ht).mpr (h.rxC b' d' hh),
      fun b' d' hh => (Cnts.cons_none _ ht).mpr (h.qA b' d' hh),
      fun j x hj d' hd' => (Cnts.cons_none _ ht).mpr (h.wA j x hj d' hd'),
      fun d' hd' => Final.cons_none _ ht (h.finA d' hd'), ?_, ?_, ?_⟩
    · intro e he k id hk
      simp at he
      rcases he with rfl | he
      · simp [tag] at hk
      · exact h.evfresh e he k id hk
    · simp [isCountUDP]; exact h.totU
    · simp [isCountDecoded]; exact h.totD
    · intro d' hd'
      simp at hd'
      exact h.place d' hd'
  | mqConsume =>
    simp only [step] at hs
    split at hs <;> try (simp at hs; done)
    simp at hs; subst hs
    exact ⟨h.dlive, h.dfresh, h.evfresh, h.rxR, h.rxC, h.qA, h.wA, h.finA, h.totU, h.totD, h.place⟩

end Vflow.Pipeline

namespace Vflow.Pipeline
variable {K : Codec} {cfg : Cfg} {spec : CountSpec} {s s' : State K} {i : Nat} {w : Worker K}

theorem getElem?_set_self_some {α} {l : List α} {i : Nat} {x y : α} (h : l[i]? = some x) :
    (l.set i y)[i]? = some y := by
  simp [List.getElem?_set_self', h]

/-- a worker step that logs nothing and keeps the worker's datagram and ghost counters -/
theorem acct_local (h : Acct spec s) (hi : s.workers[i]? = some w) (s' : State K) (w' : Worker K)
    (hW : s'.workers = s.workers.set i w')
    (hsame : s'.rx = s.rx ∧ s'.udpq = s.udpq ∧ s'.fin = s.fin ∧ s'.nextId = s.nextId ∧ s'.log = s.log ∧
      s'.udpCount = s.udpCount ∧ s'.decCount = s.decCount)
    (hcur : w'.cur = w.cur) (hc : w'.nDec = w.nDec ∧ w'.nCnt = w.nCnt ∧ w'.nPub = w.nPub) : Acct spec s' := by
  obtain ⟨e1, e2, e3, e4, e5, e6, e7⟩ := hsame
  refine acct_frame h s' none (by simp [e5]) ⟨e1, e2, e3, e4⟩ i w w' hi hW hcur 0 (fun _ he => by simp at he)
    (fun _ he => by simp at he) (fun _ he => by simp at he) ?_ e6 (by simp [decInc, e7])
  intro d hd
  rw [e5, hc.1, hc.2.1, hc.2.2]
  exact h.wA i w hi d hd

/-- a worker step that logs one accounting event about its own datagram -/
theorem acct_event (h : Acct spec s) (hi : s.workers[i]? = some w) {d : Dgram} (hd : w.cur = some d)
    (s' : State K) (w' : Worker K) (ev : Event K) (k : Nat) (hk : k = 1 ∨ k = 2 ∨ k = 3)
    (htag : tag ev = some (k, d.id))
    (hW : s'.workers = s.workers.set i w')
    (hsame : s'.rx = s.rx ∧ s'.udpq = s.udpq ∧ s'.fin = s.fin ∧ s'.nextId = s.nextId ∧ s'.log = ev :: s.log ∧
      s'.udpCount = s.udpCount ∧ s'.decCount = s.decCount + if isCountDecoded ev then 1 else 0)
    (hcur : w'.cur = w.cur)
    (hc : w'.nDec = w.nDec + (if k = 1 then 1 else 0) ∧ w'.nCnt = w.nCnt + (if k = 2 then 1 else 0) ∧
      w'.nPub = w.nPub + (if k = 3 then 1 else 0)) : Acct spec s' := by
  obtain ⟨e1, e2, e3, e4, e5, e6, e7⟩ := hsame
  refine acct_frame h s' (some ev) (by simp [e5]) ⟨e1, e2, e3, e4⟩ i w w' hi hW hcur d.id ?_ ?_ ?_ ?_ e6
    (by simp [decInc, e7])
  · intro e he k' id ht
    simp at he; subst he
    rw [htag] at ht; simp at ht
    refine ⟨ht.2.symm, ?_⟩
    rw [← ht.1]; rcases hk with rfl | rfl | rfl <;> simp
  · intro e _; exact ⟨d, hd, rfl⟩
  · intro d' he
    simp at he; subst he
    simp [tag] at htag
  · intro d' hd'
    rw [hd] at hd'; simp at hd'; subst hd'
    obtain ⟨h0, h1, h2, h3⟩ := h.wA i w hi d hd
    rw [e5, hc.1, hc.2.1, hc.2.2]
    refine ⟨?_, ?_, ?_, ?_⟩ <;> rw [nK_cons, htag] <;> rcases hk with rfl | rfl | rfl <;> simp [h0, h1, h2, h3]

end Vflow.Pipeline

namespace Vflow.Pipeline
variable {K : Codec} {cfg : Cfg} {spec : CountSpec} {s s' : State K} {i : Nat} {w : Worker K}

theorem acct_wstep (hinv : Inv cfg spec s) (h : Acct spec s) (hi : s.workers[i]? = some w)
    (hh : w.halted = false) (quit : Bool) (mb : Option (Option BufId))
    (hs : wstep cfg s i w quit mb = some s') : Acct spec s' := by
  rcases hinv.wk i w hi with ⟨hhalt, _⟩ | ⟨a, hsim, hchk⟩
  · rw [hh] at hhalt; exact absurd hhalt (by simp)
  have local_tac : ∀ (s'' : State K) (w' : Worker K), s''.workers = s.workers.set i w' →
      (s''.rx = s.rx ∧ s''.udpq = s.udpq ∧ s''.fin = s.fin ∧ s''.nextId = s.nextId ∧ s''.log = s.log ∧
        s''.udpCount = s.udpCount ∧ s''.decCount = s.decCount) →
      w'.cur = w.cur → (w'.nDec = w.nDec ∧ w'.nCnt = w.nCnt ∧ w'.nPub = w.nPub) → Acct spec s'' :=
    fun s'' w' a1 a2 a3 a4 => acct_local h hi s'' w' a1 a2 a3 a4
  unfold wstep at hs
  split at hs
  · -- end of iteration: the datagram moves to `fin`
    rename_i hpc
    simp at hs; subst hs
    rw [hpc] at hchk
    cases hd : w.cur with
    | none =>
      refine local_tac _ _ rfl ⟨rfl, rfl, by simp [hd], rfl, rfl, rfl, rfl⟩ (by simp [hd]) ?_
      have h1 := hsim.cnt_dec; have h2 := hsim.cnt_cnt; have h3 := hsim.cnt_pub
      have hc : a.cur = false := by rw [← hsim.cur_eq, hd]; rfl
      simp [check, atEnd, hc] at hchk
    | some d =>
      -- the account of `d` is complete
      simp only [check, atEnd, Bool.and_eq_true, beq_iff_eq] at hchk
      obtain ⟨⟨_, hcur⟩, hy⟩ := hchk
      have hfin : Final spec s.log d := by
        split at hy <;> try (simp at hy; done)
        rename_i y hky
        simp only [Bool.and_eq_true, beq_iff_eq] at hy
        obtain ⟨hdd, hk⟩ := hsim.kyield y hky
        obtain ⟨d', c, h1, h2, h3⟩ := hsim.decoded hdd
        rw [hd] at h1; simp at h1; subst h1
        have hyy := hk _ _ h2
        obtain ⟨c0, c1, c2, c3⟩ := h.wA i w hi d hd
        refine ⟨hsim.cur_recv d hd, c, h3, c0, ?_, ?_, ?_⟩
        · rw [c1, hsim.cnt_dec, hdd]; rfl
        · rw [c2, hsim.cnt_cnt]
          have : counts K spec (K.decode c d.addr d.bytes).1 = a.counted := by
            cases spec with
            | onMsg =>
              simp only at hy
              have := (hsim.kmsg a.counted (by simpa using hy.2)).2 _ _ h2
              simpa [counts] using this
            | onYield =>
              simp only at hy
              simp only [counts]; rw [hyy]; simp at hy; exact hy.2.symm
          rw [this]
        · rw [c3, hsim.cnt_pub, hyy]; simp [hy.1]
      have hdr : ∀ id, drefs { s.setW i { w with pc := cfg.prog.loop, cur := none, dec := none, mar := .none, nDec := 0, nCnt := 0, nPub := 0 } with fin := (some d).toList ++ s.fin } id = drefs s id := by
        intro id
        have h1 := wdsum_set hi { w with pc := cfg.prog.loop, cur := none, dec := none, mar := .none, nDec := 0, nCnt := 0, nPub := 0 } id
        have h2 : wd (K := K) { w with pc := cfg.prog.loop, cur := none, dec := none, mar := .none, nDec := 0, nCnt := 0, nPub := 0 } id = 0 := by simp [wd]
        have h3 : wd w id = if d.id = id then 1 else 0 := by simp [wd, hd]
        simp only [drefs, State.setW, fd, Option.toList_some, List.singleton_append, List.map_cons, count_cons'] at *
        omega
      refine ⟨fun id => by rw [hdr]; exact h.dlive id, fun id hid => by rw [hdr] at hid; exact h.dfresh id hid,
        h.evfresh, h.rxR, h.rxC, h.qA, ?_, ?_, h.totU, h.totD, ?_⟩
      · intro j x hj d' hd'
        simp only [State.setW] at hj
        rcases getElem?_set_cases hj with ⟨_, rfl⟩ | ⟨_, hj'⟩
        · simp at hd'
        · exact h.wA j x hj' d' hd'
      · intro d' hd'
        simp at hd'
        rcases hd' with rfl | hd'
        · exact hfin
        · exact h.finA d' hd'
      · intro d' hd'
        refine inPlace_of_workers (h.place d' hd') (fun b hb => .inl ⟨b, hb⟩) (fun b hb => .inr (.inl ⟨b, hb⟩)) ?_
          (fun hf => .inr (.inr (.inr (by simp [hf]))))
        intro j x hj hx
        by_cases hji : j = i
        · subst hji
          rw [hi] at hj; simp at hj; subst hj
          rw [hd] at hx; simp at hx; subst hx
          exact .inr (.inr (.inr (by simp)))
        · refine .inr (.inr (.inl ⟨j, x, ?_, hx⟩))
          simp only [State.setW]
          rw [List.getElem?_set_ne (fun e => hji e.symm)]; exact hj
  · -- putBack
    repeat' split at hs
    all_goals first
      | (simp at hs; done)
      | (simp at hs; subst hs; exact local_tac _ _ rfl ⟨rfl, rfl, rfl, rfl, rfl, rfl, rfl⟩ rfl ⟨rfl, rfl, rfl⟩)
  · -- resetEnc
    simp at hs; subst hs; exact local_tac _ _ rfl ⟨rfl, rfl, rfl, rfl, rfl, rfl, rfl⟩ rfl ⟨rfl, rfl, rfl⟩
  · -- recvOrQuit
    rename_i rest hpc
    split at hs
    · simp at hs; subst hs; exact local_tac _ _ rfl ⟨rfl, rfl, rfl, rfl, rfl, rfl, rfl⟩ rfl ⟨rfl, rfl, rfl⟩
    · split at hs <;> simp at hs
      rename_i b d q hq; subst hs
      -- a canonical worker has no current datagram when it receives
      have hcn : w.cur = none := by
        rw [hpc] at hchk
        simp only [check, trans] at hchk
        split at hchk <;> try (simp at hchk; done)
        rename_i a' ha'
        split at ha' <;> simp at ha'
        rename_i hnc
        have := hsim.cur_eq
        cases hc : w.cur with
        | none => rfl
        | some d0 => rw [hc] at this; simp at this; rw [← this] at hnc; simp at hnc
      have hdr : ∀ id, drefs { s.setW i { w with pc := rest, msg := some b, owns := true, cur := some d, dec := none, mar := .none, nDec := 0, nCnt := 0, nPub := 0 } with udpq := q } id = drefs s id := by
        intro id
        have h1 := wdsum_set hi { w with pc := rest, msg := some b, owns := true, cur := some d, dec := none, mar := .none, nDec := 0, nCnt := 0, nPub := 0 } id
        have h2 : wd (K := K) { w with pc := rest, msg := some b, owns := true, cur := some d, dec := none, mar := .none, nDec := 0, nCnt := 0, nPub := 0 } id = if d.id = id then 1 else 0 := by simp [wd]
        have h3 : wd w id = 0 := by simp [wd, hcn]
        simp only [drefs, State.setW, hq, qd_cons] at *
        omega
      refine ⟨fun id => by rw [hdr]; exact h.dlive id, fun id hid => by rw [hdr] at hid; exact h.dfresh id hid,
        h.evfresh, h.rxR, h.rxC, fun b' d' hq' => h.qA b' d' (by rw [hq]; exact List.mem_cons_of_mem _ hq'),
        ?_, h.finA, h.totU, h.totD, ?_⟩
      · intro j x hj d' hd'
        simp only [State.setW] at hj
        rcases getElem?_set_cases hj with ⟨_, rfl⟩ | ⟨_, hj'⟩
        · simp at hd'; subst hd'
          exact h.qA b d (by rw [hq]; simp)
        · exact h.wA j x hj' d' hd'
      · intro d' hd'
        refine inPlace_of_workers (h.place d' hd') (fun b hb => .inl ⟨b, hb⟩) ?_ ?_ (fun hf => .inr (.inr (.inr hf)))
        · intro b' hb'
          rw [hq] at hb'
          simp at hb'
          rcases hb' with ⟨rfl, rfl⟩ | hb'
          · exact .inr (.inr (.inl ⟨i, _, getElem?_set_self_some hi, rfl⟩))
          · exact .inr (.inl ⟨b', hb'⟩)
        · intro j x hj hx
          by_cases hji : j = i
          · subst hji
            rw [hi] at hj; simp at hj; subst hj
            rw [hcn] at hx; simp at hx
          · refine .inr (.inr (.inl ⟨j, x, ?_, hx⟩))
            simp only [State.setW]
            rw [List.getElem?_set_ne (fun e => hji e.symm)]; exact hj
  · -- log
    simp at hs; subst hs; exact local_tac _ _ rfl ⟨rfl, rfl, rfl, rfl, rfl, rfl, rfl⟩ rfl ⟨rfl, rfl, rfl⟩
  · -- mirrorCopy
    repeat' split at hs
    all_goals first
      | (simp at hs; done)
      | (simp at hs; subst hs; exact local_tac _ _ rfl ⟨rfl, rfl, rfl, rfl, rfl, rfl, rfl⟩ rfl ⟨rfl, rfl, rfl⟩)
  · -- mirrorAlias
    repeat' split at hs
    all_goals first
      | (simp at hs; done)
      | (simp at hs; subst hs; exact local_tac _ _ rfl ⟨rfl, rfl, rfl, rfl, rfl, rfl, rfl⟩ rfl ⟨rfl, rfl, rfl⟩)
  · -- decode
    split at hs <;> try (simp at hs; done)
    rename_i b d hb hd
    simp at hs; subst hs
    exact acct_event h hi hd _ _ _ 1 (.inl rfl) rfl rfl ⟨rfl, rfl, rfl, rfl, rfl, rfl, by simp [isCountDecoded, State.setW]⟩ rfl
      ⟨rfl, rfl, rfl⟩
  · -- contIf
    repeat' split at hs
    all_goals first
      | (simp at hs; done)
      | (simp at hs; subst hs; exact local_tac _ _ rfl ⟨rfl, rfl, rfl, rfl, rfl, rfl, rfl⟩ rfl ⟨rfl, rfl, rfl⟩)
  · -- countDecoded
    split at hs <;> try (simp at hs; done)
    rename_i d hd
    simp at hs; subst hs
    exact acct_event h hi hd _ _ _ 2 (.inr (.inl rfl)) rfl rfl ⟨rfl, rfl, rfl, rfl, rfl, rfl, by simp [isCountDecoded, State.setW]⟩ rfl
      ⟨rfl, rfl, rfl⟩
  · -- marshal
    repeat' split at hs
    all_goals first
      | (simp at hs; done)
      | (simp at hs; subst hs; exact local_tac _ _ rfl ⟨rfl, rfl, rfl, rfl, rfl, rfl, rfl⟩ rfl ⟨rfl, rfl, rfl⟩)
  · -- publishCopy
    split at hs <;> try (simp at hs; done)
    rename_i d p hd hp
    simp at hs
    split at hs
    · subst hs
      exact acct_event h hi hd _ _ (.published d.id p) 3 (.inr (.inr rfl)) rfl rfl
        ⟨rfl, rfl, rfl, rfl, rfl, rfl, by simp [isCountDecoded, State.setW]⟩ rfl ⟨rfl, rfl, rfl⟩
    · subst hs
      exact acct_event h hi hd _ _ (.dropped d.id p) 3 (.inr (.inr rfl)) rfl rfl
        ⟨rfl, rfl, rfl, rfl, rfl, rfl, by simp [isCountDecoded, State.setW]⟩ rfl ⟨rfl, rfl, rfl⟩
  · -- publishAlias
    split at hs <;> try (simp at hs; done)
    rename_i d p hd hp
    simp at hs
    split at hs
    · subst hs
      exact acct_event h hi hd _ _ (.published d.id p) 3 (.inr (.inr rfl)) rfl rfl
        ⟨rfl, rfl, rfl, rfl, rfl, rfl, by simp [isCountDecoded, State.setW]⟩ rfl ⟨rfl, rfl, rfl⟩
    · subst hs
      exact acct_event h hi hd _ _ (.dropped d.id p) 3 (.inr (.inr rfl)) rfl rfl
        ⟨rfl, rfl, rfl, rfl, rfl, rfl, by simp [isCountDecoded, State.setW]⟩ rfl ⟨rfl, rfl, rfl⟩
  · simp at hs

end Vflow.Pipeline

namespace Vflow.Pipeline
variable {K : Codec} {cfg : Cfg} {spec : CountSpec} {s s' : State K}

/-- the payloads handed to the MQ channel, newest first -/
def pubList : List (Event K) → List (Nat × Bytes)
  | [] => []
  | .published id p :: l => (id, p) :: pubList l
  | .received _ :: l => pubList l
  | .countUDP _ :: l => pubList l
  | .decoded _ _ _ :: l => pubList l
  | .countDecoded _ :: l => pubList l
  | .dropped _ _ :: l => pubList l
  | .mirrored _ _ :: l => pubList l

def itemPair : MQItem → Nat × Bytes
  | .val id p => (id, p)
  | .ref id _ => (id, [])

/-- what was enqueued on the MQ channel is what is still queued plus what the consumer has read -/
def PubInv (s : State K) : Prop := pubList s.log = (s.mq.reverse.map itemPair) ++ s.delivered

theorem mem_pubList {log : List (Event K)} {id : Nat} {p : Bytes} :
    (id, p) ∈ pubList log ↔ Event.published id p ∈ log := by
  induction log with
  | nil => simp [pubList]
  | cons e l ih => cases e <;> simp [pubList, ih]

theorem pub_step (hinv : Inv cfg spec s) (h : PubInv s) (a : Action) (hs : step cfg s a = some s') : PubInv s' := by
  cases a with
  | work i q mb =>
    simp only [step] at hs
    split at hs <;> try (simp at hs; done)
    rename_i w hi
    split at hs <;> try (simp at hs; done)
    rename_i hh
    rcases hinv.wk i w hi with ⟨hhalt, _⟩ | ⟨a, hsim, hchk⟩
    · rw [hhalt] at hh; simp at hh
    unfold wstep at hs
    split at hs
    case h_13 =>
      -- publishAlias: only accepted when `b` is a fresh slice
      rename_i rest hpc
      rw [hpc] at hchk
      simp only [check, trans] at hchk
      split at hchk <;> try (simp at hchk; done)
      rename_i a' ha'
      split at ha' <;> simp at ha'
      rename_i hoc
      simp at hoc
      obtain ⟨⟨⟨⟨hcur, hky⟩, hkm⟩, hnp⟩, hnb⟩ := hoc
      split at hs <;> try (simp at hs; done)
      rename_i d p hd hp
      obtain ⟨_, hval⟩ := hsim.publish_info hky hkm hd hp
      have hmar := hval hnb
      simp at hs
      split at hs
      · subst hs
        simp only [PubInv, pubList, State.setW, List.reverse_append, List.reverse_cons, List.reverse_nil,
          List.nil_append, List.map_cons, List.cons_append, List.singleton_append] at h ⊢
        rw [h, hmar]; rfl
      · subst hs
        simpa [PubInv, pubList, State.setW] using h
    all_goals
      repeat' split at hs
      all_goals first
        | (simp at hs; done)
        | (simp at hs; subst hs; simpa [PubInv, pubList, State.setW, itemPair] using h)
  | mqConsume =>
    simp only [step] at hs
    split at hs <;> try (simp at hs; done)
    rename_i it q hq
    simp at hs; subst hs
    obtain ⟨id, p, rfl, _⟩ := hinv.mqOk it (by rw [hq]; simp)
    simp only [PubInv, hq, List.reverse_cons, List.map_append, List.map_cons, List.map_nil, resolve,
      List.append_assoc, List.singleton_append, itemPair] at h ⊢
    exact h
  | spawn g =>
    simp only [step] at hs
    repeat' split at hs
    all_goals first
      | (simp at hs; done)
      | (simp at hs; subst hs; simpa [PubInv, pubList] using h)
  | rxGetPool b =>
    simp only [step] at hs
    repeat' split at hs
    all_goals first
      | (simp at hs; done)
      | (simp at hs; subst hs; simpa [PubInv, pubList] using h)
  | rxGetNew =>
    simp only [step] at hs
    repeat' split at hs
    all_goals first
      | (simp at hs; done)
      | (simp at hs; subst hs; simpa [PubInv, pubList] using h)
  | rxRead dg =>
    simp only [step] at hs
    repeat' split at hs
    all_goals first
      | (simp at hs; done)
      | (simp at hs; subst hs; simpa [PubInv, pubList] using h)
  | rxCount =>
    simp only [step] at hs
    repeat' split at hs
    all_goals first
      | (simp at hs; done)
      | (simp at hs; subst hs; simpa [PubInv, pubList] using h)
  | rxEnqueue =>
    simp only [step] at hs
    repeat' split at hs
    all_goals first
      | (simp at hs; done)
      | (simp at hs; subst hs; simpa [PubInv, pubList] using h)
  | mirConsume =>
    simp only [step] at hs
    repeat' split at hs
    all_goals first
      | (simp at hs; done)
      | (simp at hs; subst hs; simpa [PubInv, pubList] using h)

end Vflow.Pipeline

namespace Vflow.Pipeline
variable {K : Codec} {cfg : Cfg} {spec : CountSpec}

theorem acct_step {s s' : State K} (hinv : Inv cfg spec s) (h : Acct spec s) (hs : Step cfg s s') : Acct spec s' := by
  obtain ⟨a, ha⟩ := hs
  by_cases hw : ∃ i q mb, a = .work i q mb
  · obtain ⟨i, q, mb, rfl⟩ := hw
    simp only [step] at ha
    split at ha <;> try (simp at ha; done)
    rename_i w hi
    split at ha <;> try (simp at ha; done)
    rename_i hh
    exact acct_wstep hinv h hi (by simpa using hh) q mb ha
  · exact acct_env h a (fun i q mb e => hw ⟨i, q, mb, e⟩) ha

/-- all three invariants hold in every reachable state, whatever the schedule -/
theorem reach_all (hc : Canonical spec cfg.prog) {c : K.Cache} {mem0 : BufId → Bytes} {s : State K}
    (hr : Reach cfg (init K c mem0) s) : Inv cfg spec s ∧ Acct spec s ∧ PubInv s := by
  induction hr with
  | refl => exact ⟨init_inv cfg spec c mem0, init_acct spec c mem0, by simp [PubInv, init, pubList]⟩
  | step _ st ih =>
    obtain ⟨a, ha⟩ := st
    exact ⟨step_inv hc ih.1 ⟨a, ha⟩, acct_step ih.1 ih.2.1 ⟨a, ha⟩, pub_step ih.1 ih.2.2 a ha⟩

/-- a `dropped` event is appended only by a publish step that finds the MQ channel full -/
theorem dropped_only_when_full {s s' : State K} (hs : Step cfg s s') (id : Nat) (p : Bytes)
    (hd : Event.dropped id p ∈ s'.log) : Event.dropped id p ∈ s.log ∨ cfg.mqCap ≤ s.mq.length := by
  obtain ⟨a, ha⟩ := hs
  cases a <;> simp only [step] at ha
  case work i q mb =>
    split at ha <;> try (simp at ha; done)
    split at ha <;> try (simp at ha; done)
    unfold wstep at ha
    repeat' split at ha
    all_goals first
      | (simp at ha; done)
      | (simp at ha; subst ha; simp [State.setW] at hd; first | (left; exact hd) | (right; omega) |
          (rcases hd with hd | hd; · right; omega
           · left; exact hd))
  all_goals
    repeat' split at ha
    all_goals first
      | (simp at ha; done)
      | (simp at ha; subst ha; simp at hd; left; exact hd)

/-- a `published` event is appended only by a publish step that finds room, and it enqueues the payload -/
theorem published_only_with_room {s s' : State K} (hs : Step cfg s s') (id : Nat) (p : Bytes)
    (hd : Event.published id p ∈ s'.log) : Event.published id p ∈ s.log ∨ s.mq.length < cfg.mqCap := by
  obtain ⟨a, ha⟩ := hs
  cases a <;> simp only [step] at ha
  case work i q mb =>
    split at ha <;> try (simp at ha; done)
    split at ha <;> try (simp at ha; done)
    unfold wstep at ha
    repeat' split at ha
    all_goals first
      | (simp at ha; done)
      | (simp at ha; subst ha; simp [State.setW] at hd; first | (left; exact hd) | (right; assumption) |
          (rcases hd with hd | hd; · right; assumption
           · left; exact hd))
  all_goals
    repeat' split at ha
    all_goals first
      | (simp at ha; done)
      | (simp at ha; subst ha; simp at hd; left; exact hd)

end Vflow.Pipeline

namespace Vflow.Pipeline
variable {K : Codec} {cfg : Cfg} {spec : CountSpec}

/-! ## uniqueness helpers -/

theorem uniq_of_countP_le_one {α} {p : α → Bool} : ∀ {l : List α}, l.countP p ≤ 1 → ∀ {a b}, a ∈ l → b ∈ l →
    p a = true → p b = true → a = b
  | [], _, a, b, ha, _, _, _ => by simp at ha
  | x :: t, h, a, b, ha, hb, pa, pb => by
      simp only [List.countP_cons] at h
      have pos : ∀ y, y ∈ t → p y = true → 0 < t.countP p := fun y hy py => List.countP_pos_iff.mpr ⟨y, hy, py⟩
      rcases List.mem_cons.mp ha with rfl | ha' <;> rcases List.mem_cons.mp hb with rfl | hb'
      · rfl
      · have := pos b hb' pb; rw [if_pos pa] at h; omega
      · have := pos a ha' pa; rw [if_pos pb] at h; omega
      · exact uniq_of_countP_le_one (by split at h <;> omega) ha' hb' pa pb

/-- received datagrams have distinct ids below `nextId` -/
def RecvUniq (s : State K) : Prop :=
  (∀ d, Event.received d ∈ s.log → d.id < s.nextId) ∧
  (∀ d1 d2, Event.received d1 ∈ s.log → Event.received d2 ∈ s.log → d1.id = d2.id → d1 = d2)

theorem recvUniq_step {s s' : State K} (h : RecvUniq s) (hs : Step cfg s s') : RecvUniq s' := by
  obtain ⟨a, ha⟩ := hs
  cases a <;> simp only [step] at ha
  case work i q mb =>
    split at ha <;> try (simp at ha; done)
    split at ha <;> try (simp at ha; done)
    unfold wstep at ha
    repeat' split at ha
    all_goals first
      | (simp at ha; done)
      | (simp at ha; subst ha; simpa [RecvUniq, State.setW] using h)
  case rxRead dg =>
    split at ha <;> try (simp at ha; done)
    split at ha
    · simp at ha; subst ha; exact h
    · rename_i addr bytes
      simp at ha; subst ha
      refine ⟨?_, ?_⟩
      · intro d hd
        simp at hd
        rcases hd with rfl | hd
        · simp
        · exact Nat.lt_succ_of_lt (h.1 d hd)
      · intro d1 d2 h1 h2 he
        simp at h1 h2
        rcases h1 with rfl | h1 <;> rcases h2 with rfl | h2
        · rfl
        · have := h.1 d2 h2; simp at he; omega
        · have := h.1 d1 h1; simp at he; omega
        · exact h.2 d1 d2 h1 h2 he
  all_goals
    repeat' split at ha
    all_goals first
      | (simp at ha; done)
      | (simp at ha; subst ha; simpa [RecvUniq] using h)

theorem reach_recvUniq {c : K.Cache} {mem0 : BufId → Bytes} {s : State K}
    (hr : Reach cfg (init K c mem0) s) : RecvUniq s := by
  induction hr with
  | refl => simp [RecvUniq, init]
  | step _ st ih => exact recvUniq_step ih st

/-- published messages about `id` are publish attempts about `id` -/
theorem count_pubList_le (log : List (Event K)) (id : Nat) :
    ((pubList log).map (·.1)).count id ≤ nK 3 log id := by
  induction log with
  | nil => simp [pubList, nK]
  | cons e l ih =>
    rw [nK_cons]
    cases e <;> simp only [pubList, tag, List.map_cons, count_cons'] <;> (try simp) <;> (try omega)

end Vflow.Pipeline
