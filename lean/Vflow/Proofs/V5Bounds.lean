import Vflow.Model.V5
/-!
# NetFlow v5: the flow loop consumes what it emits (for C02)
-/
namespace Vflow.V5

theorem readN_len {r r' : Rd} {n : Nat} {b : Bytes} (h : r.readN n = some (b, r')) :
    r'.rem.length + n = r.rem.length := by
  unfold Rd.readN at h
  split at h
  · simp at h
  · simp only [Option.some.injEq, Prod.mk.injEq] at h
    rw [← h.2]; simp; omega

theorem readFields_len : ∀ (ws : List Nat) (r r' : Rd) (vs : List Nat),
    readFields ws r = some (vs, r') → r'.rem.length + ws.sum = r.rem.length := by
  intro ws
  induction ws with
  | nil => intro r r' vs h; simp [readFields] at h; rw [← h.2]; simp
  | cons w ws ih =>
    intro r r' vs h
    unfold readFields at h
    split at h
    · simp at h
    · rename_i b r1 h1
      split at h
      · simp at h
      · rename_i vs' r2 h2
        simp only [Option.some.injEq, Prod.mk.injEq] at h
        have := ih _ _ _ h2
        have := readN_len h1
        rw [← h.2]; simp [List.sum_cons]; omega

theorem readFlows_bound (rec : List Nat) : ∀ (n : Nat) (r : Rd) (acc fs : List (List Nat)) (ok : Bool),
    readFlows rec n r acc = (fs, ok) →
      fs.length ≤ acc.length + n ∧ (fs.length - acc.length) * rec.sum ≤ r.rem.length ∧ acc.length ≤ fs.length := by
  intro n
  induction n with
  | zero => intro r acc fs ok h; simp [readFlows] at h; rw [← h.1]; simp
  | succ n ih =>
    intro r acc fs ok h
    unfold readFlows at h
    split at h
    · simp only [Prod.mk.injEq] at h; rw [← h.1]; simp
    · rename_i f r' hf
      have hl := readFields_len _ _ _ _ hf
      obtain ⟨h1, h2, h3⟩ := ih _ _ _ _ h
      simp only [List.length_append, List.length_cons, List.length_nil, Nat.zero_add] at h1 h2 h3
      refine ⟨by omega, ?_, by omega⟩
      have h4 : fs.length - acc.length = (fs.length - (acc.length + 1)) + 1 := by omega
      rw [h4, Nat.add_mul, Nat.one_mul]
      omega

end Vflow.V5
