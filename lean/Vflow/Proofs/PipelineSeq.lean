import Vflow.Proofs.PipelineAcct
/-!
# Order of decoding in the pipeline (the invariant behind `C04.one_worker_in_order`, finding K5)

The template cache is shared by all workers and a worker decodes whatever datagram it has taken from the UDP
channel, whenever the scheduler lets it: with several workers the order in which the datagrams of one exporter
are decoded is not the order in which they arrived (K5).  With at most ONE worker it is: the UDP channel is a
FIFO, the worker holds at most one undecoded datagram, and the cache in the state is the fold of `K.decode`
over the datagrams decoded so far — `Seq`.

`arrivals log` / `decodes log` read the ghost log (newest first) oldest first.
-/
namespace Vflow.Pipeline
open Vflow
variable {K : Codec}

/-- the datagram of a `received` event -/
def Event.dgram? : Event K → Option Dgram
  | .received d => some d
  | _ => none

/-- (datagram id, cache the datagram was decoded against, result) of a `decoded` event -/
def Event.decoded? : Event K → Option (Nat × K.Cache × Option K.Msg)
  | .decoded id c r => some (id, c, r)
  | _ => none

/-- the received datagrams in arrival order (oldest first) -/
def arrivals (log : List (Event K)) : List Dgram := (log.filterMap Event.dgram?).reverse

/-- the `decoded` events in the order in which the decodes happened (oldest first) -/
def decodes (log : List (Event K)) : List (Nat × K.Cache × Option K.Msg) := (log.filterMap Event.decoded?).reverse

/-- the sequential semantics: decode the datagrams one after the other, threading the cache; the entry of a
datagram is (its id, the cache it is decoded against, the result) -/
def decodeAll (K : Codec) (c : K.Cache) : List Dgram → List (Nat × K.Cache × Option K.Msg)
  | [] => []
  | d :: ds => (d.id, c, (K.decode c d.addr d.bytes).1) :: decodeAll K (K.decode c d.addr d.bytes).2 ds

/-- the cache after decoding the datagrams in order -/
def cacheAfter (K : Codec) (c : K.Cache) (ds : List Dgram) : K.Cache :=
  ds.foldl (fun c d => (K.decode c d.addr d.bytes).2) c

theorem decodeAll_append (c : K.Cache) (ds es : List Dgram) :
    decodeAll K c (ds ++ es) = decodeAll K c ds ++ decodeAll K (cacheAfter K c ds) es := by
  induction ds generalizing c with
  | nil => rfl
  | cons d ds ih => simp [decodeAll, cacheAfter, ih]

theorem cacheAfter_append (c : K.Cache) (ds es : List Dgram) :
    cacheAfter K c (ds ++ es) = cacheAfter K (cacheAfter K c ds) es := by
  simp [cacheAfter]

theorem decodeAll_length (c : K.Cache) (ds : List Dgram) : (decodeAll K c ds).length = ds.length := by
  induction ds generalizing c with
  | nil => rfl
  | cons d ds ih => simp [decodeAll, ih]

theorem decodeAll_take (c : K.Cache) (ds es : List Dgram) :
    decodeAll K c ds = (decodeAll K c (ds ++ es)).take ds.length := by
  rw [decodeAll_append, List.take_left' (decodeAll_length c ds)]

/-- the `k`-th entry of the sequential semantics -/
theorem decodeAll_getElem? (c : K.Cache) (ds : List Dgram) (k : Nat) :
    (decodeAll K c ds)[k]? = (ds[k]?).map (fun d =>
      (d.id, cacheAfter K c (ds.take k), (K.decode (cacheAfter K c (ds.take k)) d.addr d.bytes).1)) := by
  induction ds generalizing c k with
  | nil => simp [decodeAll]
  | cons d ds ih =>
    cases k with
    | zero => simp [decodeAll, cacheAfter]
    | succ k => simp [decodeAll, ih, cacheAfter]

/-! ## what has not been decoded yet -/

/-- the datagram a worker holds and has not decoded yet -/
def pendW (w : Worker K) : List Dgram :=
  match w.cur with
  | some d => if w.nDec = 0 then [d] else []
  | none => []

/-- the datagram the read loop has read and not enqueued yet -/
def pendRx : RxPhase → List Dgram
  | .read _ d => [d]
  | .counted _ d => [d]
  | _ => []

/-- the received, not yet decoded datagrams: held by a worker, in the UDP channel, in the read loop -/
def pending (s : State K) : List Dgram :=
  s.workers.flatMap pendW ++ s.udpq.map (·.2) ++ pendRx s.rx

/-- **the sequencing invariant** (for at most one worker): the arrivals are the decoded datagrams followed by the
pending ones, in this order; the decodes are the sequential semantics of the decoded ones; the shared cache is
the cache the sequential semantics leaves -/
def Seq (c0 : K.Cache) (s : State K) : Prop :=
  ∃ done, arrivals s.log = done ++ pending s ∧ decodes s.log = decodeAll K c0 done ∧ s.cache = cacheAfter K c0 done

theorem flatMap_set_same {α β} (f : α → List β) : ∀ (l : List α) (i : Nat) (x y : α), l[i]? = some x → f y = f x →
    (l.set i y).flatMap f = l.flatMap f
  | [], _, _, _, h, _ => by simp at h
  | a :: l, 0, x, y, h, hf => by
      simp at h; subst h; simp [hf]
  | a :: l, i+1, x, y, h, hf => by
      simp at h
      simp [flatMap_set_same f l i x y h hf]

/-- a step that leaves the arrivals, the decodes, the cache, the UDP channel, the read loop and what worker `i`
has pending alone preserves `Seq` -/
theorem seq_local {c0 : K.Cache} {s s' : State K} {i : Nat} {w : Worker K} (h : Seq c0 s)
    (hi : s.workers[i]? = some w) (w' : Worker K)
    (hW : s'.workers = s.workers.set i w') (hp : pendW w' = pendW w)
    (ha : arrivals s'.log = arrivals s.log) (hd : decodes s'.log = decodes s.log)
    (hsame : s'.cache = s.cache ∧ s'.udpq = s.udpq ∧ s'.rx = s.rx) : Seq c0 s' := by
  obtain ⟨done, h1, h2, h3⟩ := h
  obtain ⟨e1, e2, e3⟩ := hsame
  refine ⟨done, ?_, by rw [hd]; exact h2, by rw [e1]; exact h3⟩
  rw [ha, h1]
  simp only [pending, hW, e2, e3, flatMap_set_same pendW _ _ _ _ hi hp]

/-- a step of the environment that does not touch the workers' data -/
theorem seq_env {c0 : K.Cache} {s s' : State K} (h : Seq c0 s)
    (hW : s'.workers.flatMap pendW = s.workers.flatMap pendW)
    (ha : arrivals s'.log = arrivals s.log) (hd : decodes s'.log = decodes s.log)
    (hc : s'.cache = s.cache) (hq : s'.udpq.map (·.2) ++ pendRx s'.rx = s.udpq.map (·.2) ++ pendRx s.rx) :
    Seq c0 s' := by
  obtain ⟨done, h1, h2, h3⟩ := h
  refine ⟨done, ?_, by rw [hd]; exact h2, by rw [hc]; exact h3⟩
  rw [ha, h1]
  simp only [pending, hW, List.append_assoc, hq]

theorem arrivals_cons_received (d : Dgram) (log : List (Event K)) :
    arrivals (Event.received d :: log) = arrivals log ++ [d] := by
  simp [arrivals, Event.dgram?]

theorem decodes_cons_decoded (id : Nat) (c : K.Cache) (r : Option K.Msg) (log : List (Event K)) :
    decodes (Event.decoded id c r :: log) = decodes log ++ [(id, c, r)] := by
  simp [decodes, Event.decoded?]

/-- read loop, mirror consumer, MQ consumer, worker start -/
theorem seq_step_env {cfg : Cfg} {c0 : K.Cache} {s s' : State K} (h : Seq c0 s) (a : Action)
    (hw : ∀ i q mb, a ≠ .work i q mb) (hs : step cfg s a = some s') : Seq c0 s' := by
  cases a with
  | work i q mb => exact absurd rfl (hw i q mb)
  | spawn g =>
    simp only [step] at hs
    repeat' split at hs
    all_goals first
      | (simp at hs; done)
      | (simp at hs; subst hs
         exact seq_env h (by simp [pendW]) rfl rfl rfl rfl)
  | rxGetPool b =>
    simp only [step] at hs
    split at hs <;> try (simp at hs; done)
    rename_i hrx
    split at hs <;> simp at hs
    subst hs
    exact seq_env h rfl rfl rfl rfl (by simp [hrx, pendRx])
  | rxGetNew =>
    simp only [step] at hs
    split at hs <;> simp at hs
    rename_i hrx
    subst hs
    exact seq_env h rfl rfl rfl rfl (by simp [hrx, pendRx])
  | rxRead dg =>
    simp only [step] at hs
    split at hs <;> try (simp at hs; done)
    rename_i b hrx
    split at hs
    · simp at hs; subst hs
      exact seq_env h rfl rfl rfl rfl (by simp [hrx, pendRx])
    · rename_i addr bytes
      simp at hs; subst hs
      obtain ⟨done, h1, h2, h3⟩ := h
      refine ⟨done, ?_, h2, h3⟩
      show arrivals (Event.received _ :: s.log) = _
      rw [arrivals_cons_received, h1]
      simp [pending, hrx, pendRx]
  | rxCount =>
    simp only [step] at hs
    split at hs <;> try (simp at hs; done)
    rename_i b d hrx
    simp at hs; subst hs
    exact seq_env h rfl rfl rfl rfl (by simp [hrx, pendRx])
  | rxEnqueue =>
    simp only [step] at hs
    split at hs <;> try (simp at hs; done)
    rename_i b d hrx
    split at hs <;> simp at hs
    subst hs
    exact seq_env h rfl rfl rfl rfl (by simp [hrx, pendRx])
  | mirConsume =>
    simp only [step] at hs
    split at hs <;> try (simp at hs; done)
    simp at hs; subst hs
    exact seq_env h rfl rfl rfl rfl rfl
  | mqConsume =>
    simp only [step] at hs
    split at hs <;> try (simp at hs; done)
    simp at hs; subst hs
    exact seq_env h rfl rfl rfl rfl rfl

/-- with at most one worker, worker `i` is the only one -/
theorem workers_eq_singleton {s : State K} {i : Nat} {w : Worker K} (h1 : s.workers.length ≤ 1)
    (hi : s.workers[i]? = some w) : s.workers = [w] ∧ i = 0 := by
  cases hws : s.workers with
  | nil => rw [hws] at hi; simp at hi
  | cons x xs =>
    rw [hws] at h1 hi
    cases xs with
    | cons _ _ => simp at h1
    | nil =>
      cases i with
      | zero => simp at hi; subst hi; exact ⟨rfl, rfl⟩
      | succ _ => simp at hi

/-- a worker step, in a state with at most one worker -/
theorem seq_wstep {cfg : Cfg} {spec : CountSpec} {c0 : K.Cache} {s s' : State K} {i : Nat} {w : Worker K}
    (hinv : Inv cfg spec s) (h : Seq c0 s) (h1 : s.workers.length ≤ 1)
    (hi : s.workers[i]? = some w) (hh : w.halted = false) (quit : Bool) (mb : Option (Option BufId))
    (hs : wstep cfg s i w quit mb = some s') : Seq c0 s' := by
  rcases hinv.wk i w hi with ⟨hhalt, _⟩ | ⟨a, hsim, hchk⟩
  · rw [hh] at hhalt; exact absurd hhalt (by simp)
  obtain ⟨hws, rfl⟩ := workers_eq_singleton h1 hi
  unfold wstep at hs
  split at hs
  · -- end of the iteration: the datagram (if any) has been decoded
    rename_i hpc
    simp at hs; subst hs
    rw [hpc] at hchk
    refine seq_local h hi _ rfl ?_ rfl rfl ⟨rfl, rfl, rfl⟩
    simp only [check, atEnd, Bool.and_eq_true, beq_iff_eq] at hchk
    obtain ⟨_, hy⟩ := hchk
    split at hy <;> try (simp at hy; done)
    rename_i y hky
    have hdd := (hsim.kyield y hky).1
    have hn : w.nDec = 1 := by rw [hsim.cnt_dec, hdd]; rfl
    simp only [pendW, hn]
    cases w.cur <;> simp
  · -- putBack
    repeat' split at hs
    all_goals first
      | (simp at hs; done)
      | (simp at hs; subst hs; exact seq_local h hi _ rfl rfl rfl rfl ⟨rfl, rfl, rfl⟩)
  · -- resetEnc
    simp at hs; subst hs; exact seq_local h hi _ rfl rfl rfl rfl ⟨rfl, rfl, rfl⟩
  · -- recvOrQuit
    rename_i rest hpc
    rw [hpc] at hchk
    simp only [check, trans] at hchk
    split at hchk <;> try (simp at hchk; done)
    rename_i a' ha'
    split at ha' <;> simp at ha'
    rename_i hnc
    have hcn : w.cur = none := by
      have := hsim.cur_eq
      cases hc' : w.cur with
      | none => rfl
      | some d0 => rw [hc'] at this; simp at this; rw [← this] at hnc; simp at hnc
    split at hs
    · simp at hs; subst hs; exact seq_local h hi _ rfl rfl rfl rfl ⟨rfl, rfl, rfl⟩
    · split at hs <;> simp at hs
      rename_i b d q hq; subst hs
      obtain ⟨done, e1, e2, e3⟩ := h
      refine ⟨done, ?_, e2, e3⟩
      show arrivals s.log = _
      rw [e1]
      simp [pending, State.setW, hws, hq, pendW, hcn]
  · -- log
    simp at hs; subst hs; exact seq_local h hi _ rfl rfl rfl rfl ⟨rfl, rfl, rfl⟩
  · -- mirrorCopy
    repeat' split at hs
    all_goals first
      | (simp at hs; done)
      | (simp at hs; subst hs; exact seq_local h hi _ rfl rfl rfl rfl ⟨rfl, rfl, rfl⟩)
  · -- mirrorAlias
    repeat' split at hs
    all_goals first
      | (simp at hs; done)
      | (simp at hs; subst hs; exact seq_local h hi _ rfl rfl rfl rfl ⟨rfl, rfl, rfl⟩)
  · -- decode: the head of the pending datagrams is decoded against the cache of the sequential semantics
    rename_i rest hpc
    rw [hpc] at hchk
    simp only [check, trans] at hchk
    split at hchk <;> try (simp at hchk; done)
    rename_i a' ha'
    split at ha' <;> simp at ha'
    rename_i hg
    simp at hg
    obtain ⟨⟨hown, _⟩, hnd⟩ := hg
    split at hs <;> try (simp at hs; done)
    rename_i b d hb hd
    simp at hs; subst hs
    have hwo : w.owns = true := by rw [hsim.owns_eq]; exact hown
    have hmem := hsim.buf_ok b d hwo hb hd
    have hn : w.nDec = 0 := by rw [hsim.cnt_dec, hnd]; rfl
    obtain ⟨done, e1, e2, e3⟩ := h
    refine ⟨done ++ [d], ?_, ?_, ?_⟩
    · show arrivals (Event.decoded _ _ _ :: s.log) = _
      have : arrivals (Event.decoded d.id s.cache (K.decode s.cache d.addr (s.mem b)).1 :: s.log) = arrivals s.log := rfl
      rw [this, e1]
      simp [pending, State.setW, hws, pendW, hd, hn]
    · show decodes (Event.decoded _ _ _ :: s.log) = _
      rw [decodes_cons_decoded, e2, decodeAll_append, hmem, e3]
      rfl
    · show (K.decode s.cache d.addr (s.mem b)).2 = _
      rw [cacheAfter_append, hmem, e3]
      rfl
  · -- contIf
    repeat' split at hs
    all_goals first
      | (simp at hs; done)
      | (simp at hs; subst hs; exact seq_local h hi _ rfl rfl rfl rfl ⟨rfl, rfl, rfl⟩)
  · -- countDecoded
    repeat' split at hs
    all_goals first
      | (simp at hs; done)
      | (simp at hs; subst hs; exact seq_local h hi _ rfl rfl rfl rfl ⟨rfl, rfl, rfl⟩)
  · -- marshal
    repeat' split at hs
    all_goals first
      | (simp at hs; done)
      | (simp at hs; subst hs; exact seq_local h hi _ rfl rfl rfl rfl ⟨rfl, rfl, rfl⟩)
  · -- publishCopy
    repeat' split at hs
    all_goals first
      | (simp at hs; done)
      | (simp at hs; subst hs; exact seq_local h hi _ rfl rfl rfl rfl ⟨rfl, rfl, rfl⟩)
  · -- publishAlias
    repeat' split at hs
    all_goals first
      | (simp at hs; done)
      | (simp at hs; subst hs; exact seq_local h hi _ rfl rfl rfl rfl ⟨rfl, rfl, rfl⟩)
  · simp at hs

/-! ## the number of workers -/

/-- the scheduler choice "a new worker starts" -/
def Action.isSpawn : Action → Bool
  | .spawn _ => true
  | _ => false

/-- workers are only ever added, by `spawn`, one at a time (a worker that quits stays in the list, halted) -/
theorem step_workers_length {cfg : Cfg} {s s' : State K} {a : Action} (hs : step cfg s a = some s') :
    s'.workers.length = s.workers.length + (if a.isSpawn then 1 else 0) := by
  cases a <;> simp only [step] at hs
  case work i q mb =>
    split at hs <;> try (simp at hs; done)
    split at hs <;> try (simp at hs; done)
    unfold wstep at hs
    repeat' split at hs
    all_goals first
      | (simp at hs; done)
      | (simp at hs; subst hs; simp [State.setW, Action.isSpawn])
  all_goals
    repeat' split at hs
    all_goals first
      | (simp at hs; done)
      | (simp at hs; subst hs; simp [Action.isSpawn])

theorem run_workers_length (cfg : Cfg) (s : State K) (acts : List Action) :
    (run cfg s acts).workers.length ≤ s.workers.length + acts.countP Action.isSpawn := by
  induction acts generalizing s with
  | nil => simp [run]
  | cons a as ih =>
    simp only [run, List.countP_cons]
    split
    · rename_i s' hs
      have h1 := step_workers_length hs
      have h2 := ih s'
      split at h1 <;> rename_i hsp <;> simp [hsp] <;> omega
    · have h2 := ih s
      omega

/-! ## at most one worker: decoding is sequential -/

/-- **at most one worker ⇒ `Seq`**, in every reachable state, whatever the schedule -/
theorem reach_seq {cfg : Cfg} {spec : CountSpec} (hc : Canonical spec cfg.prog) {c0 : K.Cache} {mem0 : BufId → Bytes}
    {s : State K} (hr : Reach cfg (init K c0 mem0) s) : s.workers.length ≤ 1 → Seq c0 s := by
  induction hr with
  | refl => intro _; exact ⟨[], by simp [init, arrivals, pending, pendRx], by simp [init, decodes, decodeAll], rfl⟩
  | @step b c' hr' st ih =>
    intro h1
    obtain ⟨a, ha⟩ := st
    have hlen := step_workers_length ha
    have h1' : b.workers.length ≤ 1 := by rw [hlen] at h1; exact Nat.le_trans (Nat.le_add_right _ _) h1
    have hseq := ih h1'
    by_cases hw : ∃ i q mb, a = .work i q mb
    · obtain ⟨i, q, mb, rfl⟩ := hw
      simp only [step] at ha
      split at ha <;> try (simp at ha; done)
      rename_i w hi
      split at ha <;> try (simp at ha; done)
      rename_i hh
      exact seq_wstep (reach_inv (spec := spec) hc hr') hseq h1' hi (by simpa using hh) q mb ha
    · exact seq_step_env hseq a (fun i q mb e => hw ⟨i, q, mb, e⟩) ha

theorem mem_arrivals {log : List (Event K)} {d : Dgram} : d ∈ arrivals log ↔ Event.received d ∈ log := by
  simp only [arrivals, List.mem_reverse, List.mem_filterMap]
  constructor
  · rintro ⟨e, he, hd⟩
    cases e <;> simp [Event.dgram?] at hd
    subst hd; exact he
  · intro h; exact ⟨_, h, rfl⟩

theorem mem_decodes {log : List (Event K)} {id : Nat} {c : K.Cache} {r : Option K.Msg} :
    (id, c, r) ∈ decodes log ↔ Event.decoded id c r ∈ log := by
  simp only [decodes, List.mem_reverse, List.mem_filterMap]
  constructor
  · rintro ⟨e, he, hd⟩
    cases e <;> simp [Event.decoded?] at hd
    obtain ⟨rfl, rfl, rfl⟩ := hd; exact he
  · intro h; exact ⟨_, h, rfl⟩

/-- `Seq`, read as a statement about the log alone -/
theorem Seq.in_order {c0 : K.Cache} {s : State K} (h : Seq c0 s) :
    ∃ n, n ≤ (arrivals s.log).length ∧
      decodes s.log = (decodeAll K c0 (arrivals s.log)).take n ∧
      s.cache = cacheAfter K c0 ((arrivals s.log).take n) ∧
      (arrivals s.log).drop n = pending s := by
  obtain ⟨done, h1, h2, h3⟩ := h
  refine ⟨done.length, by rw [h1]; simp, ?_, ?_, ?_⟩
  · rw [h2, h1]; exact decodeAll_take c0 done _
  · rw [h3, h1, List.take_left' rfl]
  · rw [h1, List.drop_left' rfl]

/-- at most one worker: what is published for a datagram is what the sequential semantics yields for it -/
theorem published_sequential {cfg : Cfg} {spec : CountSpec} (hc : Canonical spec cfg.prog) {c0 : K.Cache}
    {mem0 : BufId → Bytes} {s : State K} (hr : Reach cfg (init K c0 mem0) s) (h1 : s.workers.length ≤ 1)
    {id : Nat} {p : Bytes} (hp : Event.published id p ∈ s.log) :
    ∃ k d, (arrivals s.log)[k]? = some d ∧ d.id = id ∧
      outcome K (K.decode (cacheAfter K c0 ((arrivals s.log).take k)) d.addr d.bytes).1 = some p := by
  obtain ⟨d, c, hrecv, hid, hdec, hout⟩ := (reach_inv (spec := spec) hc hr).pubOk id p hp
  obtain ⟨n, _, hn, _, _⟩ := (reach_seq hc hr h1).in_order
  have hm : (id, c, (K.decode c d.addr d.bytes).1) ∈ decodes s.log := mem_decodes.mpr hdec
  rw [hn] at hm
  obtain ⟨k, hk⟩ := List.getElem?_of_mem (List.mem_of_mem_take hm)
  rw [decodeAll_getElem?] at hk
  cases hd' : (arrivals s.log)[k]? with
  | none => rw [hd'] at hk; simp at hk
  | some d' =>
    rw [hd'] at hk
    simp only [Option.map_some, Option.some.injEq, Prod.mk.injEq] at hk
    obtain ⟨e1, e2, _⟩ := hk
    have hrecv' : Event.received d' ∈ s.log := mem_arrivals.mp (List.mem_of_getElem? hd')
    have : d' = d := (reach_recvUniq hr).2 d' d hrecv' hrecv (by rw [e1, hid])
    subst this
    exact ⟨k, d', hd', hid, by rw [e2]; exact hout⟩

end Vflow.Pipeline
