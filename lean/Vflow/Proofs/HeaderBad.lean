import Vflow.Proofs.HeaderSpec
/-!
# Sampled headers that cannot be broken down (specification side of F19a)

A sampler keeps a fixed number of octets of every frame, whatever the frame is.  The packet structs can
represent Ethernet (± one 802.1Q tag) / IPv4 | IPv6 / TCP | UDP | ICMP; every other sampled header has no
breakdown, and `packet.Decoder` must say so with an error — upon which the sFlow decoder leaves the
raw-header record out and goes on (instead of failing the datagram, which was F19a).  `ABad` lists such
headers on the abstract side:

* `cut h payload k` — a well-formed header followed by payload, of which only the first `k` octets were
  sampled, with `k` less than what the three layers need (`needLen`): cut inside the Ethernet header or
  the tag, inside the fixed IPv4 / IPv6 header, inside the IPv4 options, inside the TCP / UDP header, or
  before the fifth ICMP octet; `k = 0` is the empty sampled header;
* `etherType e et rest` — an Ethernet frame of another ether type (ARP, LACP, LLDP, MPLS, an 802.1ad tag,
  or a second 802.1Q tag behind the first: QinQ);
* `ipProto eth n rest` — an IPv4 protocol / first IPv6 next header other than TCP, UDP, ICMP, ICMPv6
  (GRE, ESP, IP-in-IP, OSPF, SCTP, every IPv6 extension header, …);
* `hdrProto proto octets` — an sFlow header protocol other than 1 (Ethernet), 11 (IPv4), 12 (IPv6).

`dissect_bad`: each of them is an *error* of the dissector — never a panic, never a packet.
-/
namespace Vflow.Packet
open Vflow Vflow.Sflow

theorem oct_take (d : Bytes) (i k : Nat) (h : i < k) : oct (d.take k) i = oct d i := by
  simp only [oct, List.getD_eq_getElem?_getD, List.getElem?_take_of_lt h]

theorem take_append_ge (x y : Bytes) (k n : Nat) (hx : x.length = n) (hk : n ≤ k) :
    (x ++ y).take k = x ++ y.take (k - n) := by
  subst hx
  rw [List.take_append, List.take_of_length_le hk]

/-! ## transport layer -/

/-- octets of the transport header the structs are filled from: the fixed TCP header, the UDP header,
and for ICMP type, code, checksum and one octet more (`RestHeader` is everything after the checksum) -/
def ATrans.need : ATrans → Nat
  | .tcp .. => 20
  | .udp .. => 8
  | .icmp .. => 5

theorem decodeNext_short (p : Nat) (d : Bytes) (h1 : (p = 1 ∨ p = 58) → d.length < 5)
    (h6 : p = 6 → d.length < 20) (h17 : p = 17 → d.length < 8) : ∃ e, decodeNext p d = .err e := by
  unfold decodeNext
  split
  · rename_i hp
    have := h1 hp
    exact ⟨.icmpShort, by simp [decodeICMP, this]⟩
  · split
    · rename_i hp
      have := h6 hp
      exact ⟨.tcpShort, by simp [decodeTCP, this]⟩
    · split
      · rename_i hp
        have := h17 hp
        exact ⟨.udpShort, by simp [decodeUDP, this]⟩
      · exact ⟨.l4Unknown, rfl⟩

/-- fewer octets than the announced transport header needs: an error -/
theorem decodeNext_cut (t : ATrans) (p : Nat) (x : Bytes) (hp : t.protoOK p) (hx : x.length < t.need) :
    ∃ e, decodeNext p x = .err e := by
  cases t with
  | tcp sp dp seq ack off res fl win cs urg =>
    simp only [ATrans.protoOK] at hp
    simp only [ATrans.need] at hx
    subst hp
    exact decodeNext_short 6 x (by intro h; omega) (fun _ => hx) (by intro h; omega)
  | udp sp dp len cs =>
    simp only [ATrans.protoOK] at hp
    simp only [ATrans.need] at hx
    subst hp
    exact decodeNext_short 17 x (by intro h; omega) (by intro h; omega) (fun _ => hx)
  | icmp ty code cs rest =>
    simp only [ATrans.protoOK] at hp
    simp only [ATrans.need] at hx
    exact decodeNext_short p x (fun _ => hx) (by intro h; omega) (by intro h; omega)

/-- a protocol number without a struct: `errUnknownTransportLayer` -/
theorem decodeNext_unknown (p : Nat) (d : Bytes) (h : p ≠ 1 ∧ p ≠ 58 ∧ p ≠ 6 ∧ p ≠ 17) :
    decodeNext p d = .err .l4Unknown := by
  simp [decodeNext, h]

/-! ## network layer -/

/-- length of the encoded network header: 20 + options, or 40 -/
def netLen : ANet → Nat
  | .v4 _ opts => 20 + opts.length
  | .v6 _ => 40

theorem encNet_length (n : ANet) (hn : n.WF) : (encNet n).length = netLen n := by
  cases n with
  | v4 h opts => exact encIPv4_length h opts hn.1.2.2.2.2.2.2.2.2.2.1 hn.1.2.2.2.2.2.2.2.2.2.2
  | v6 h => simp [encNet, encIPv6, netLen, hn.2.2.2.2.2.2.1, hn.2.2.2.2.2.2.2]

theorem oct0_encIPv4 (h : IPv4Hdr) (opts rest : Bytes) (hv : h.version < 16) (ho : opts.length ≤ 40) :
    oct (encIPv4 h opts ++ rest) 0 = h.version * 16 + (5 + opts.length / 4) := by
  simp only [encIPv4, List.cons_append, oct_cons_zero]
  exact b8_toNat _ (by omega)

/-- IPv4 + transport, cut before the end of the transport header: an error -/
theorem dissectV4_cut (l2 : L2) (h : IPv4Hdr) (opts : Bytes) (t : ATrans) (payload : Bytes) (j : Nat)
    (hn : (ANet.v4 h opts).WF) (hp : t.protoOK h.protocol) (hj : j < 20 + opts.length + t.need) :
    ∃ e, dissectV4 l2 ((encIPv4 h opts ++ (encTrans t ++ payload)).take j) = .err e := by
  obtain ⟨hwf, ho⟩ := hn
  have hl := encIPv4_length h opts hwf.2.2.2.2.2.2.2.2.2.1 hwf.2.2.2.2.2.2.2.2.2.2
  by_cases h20 : j < 20
  · refine ⟨.ip4Short, ?_⟩
    have : ((encIPv4 h opts ++ (encTrans t ++ payload)).take j).length < 20 := by
      rw [List.length_take]; omega
    simp [dissectV4, decodeIPv4_short _ this]
  · by_cases hopt : j < 20 + opts.length
    · refine ⟨.ip4Short, ?_⟩
      have hlen : ((encIPv4 h opts ++ (encTrans t ++ payload)).take j).length = j := by
        rw [List.length_take, List.length_append, hl]; omega
      have h0 : oct ((encIPv4 h opts ++ (encTrans t ++ payload)).take j) 0 = h.version * 16 + (5 + opts.length / 4) := by
        rw [oct_take _ _ _ (by omega), oct0_encIPv4 h opts _ hwf.1 ho.2]
      have hihl := ihlOctets_enc h.version opts.length ho.1 ho.2
      have := decodeIPv4_shortOpts ((encIPv4 h opts ++ (encTrans t ++ payload)).take j) (by omega)
        (by rw [h0, hihl, hlen]; exact hopt)
      simp [dissectV4, this]
    · rw [take_append_ge _ _ j (20 + opts.length) hl (by omega)]
      obtain ⟨e, he⟩ := decodeNext_cut t h.protocol ((encTrans t ++ payload).take (j - (20 + opts.length))) hp
        (by rw [List.length_take]; omega)
      exact ⟨e, by simp only [dissectV4, decodeIPv4_enc h opts _ hwf ho, ok_bind, he, err_bind]⟩

/-- IPv6 + transport, cut before the end of the transport header: an error -/
theorem dissectV6_cut (l2 : L2) (h : IPv6Hdr) (t : ATrans) (payload : Bytes) (j : Nat)
    (hn : h.WF) (hp : t.protoOK h.nextHeader) (hj : j < 40 + t.need) :
    ∃ e, dissectV6 l2 ((encIPv6 h ++ (encTrans t ++ payload)).take j) = .err e := by
  have hl : (encIPv6 h).length = 40 := by simp [encIPv6, hn.2.2.2.2.2.2.1, hn.2.2.2.2.2.2.2]
  by_cases h40 : j < 40
  · refine ⟨.ip6Short, ?_⟩
    have : ((encIPv6 h ++ (encTrans t ++ payload)).take j).length < 40 := by
      rw [List.length_take]; omega
    simp [dissectV6, decodeIPv6_short _ this]
  · rw [take_append_ge _ _ j 40 hl (by omega)]
    obtain ⟨e, he⟩ := decodeNext_cut t h.nextHeader ((encTrans t ++ payload).take (j - 40)) hp
      (by rw [List.length_take]; omega)
    exact ⟨e, by simp only [dissectV6, decodeIPv6_enc h _ hn, ok_bind, he, err_bind]⟩

/-! ## datalink layer -/

/-- length of the encoded Ethernet header: 14, or 18 with an 802.1Q tag -/
def ethLenE (e : AEth) : Nat :=
  match e.tag with
  | none => 14
  | some _ => 18

theorem encEthL_length (e : AEth) (et : Nat) (he : e.WF) : (encEthL e et).length = ethLenE e := by
  obtain ⟨dst, src, tag⟩ := e
  obtain ⟨hd, hs, _⟩ := he
  simp only at hd hs
  cases tag with
  | none => simp [encEthL, encEth, ethLenE, hd, hs]
  | some pv => obtain ⟨prio, vid⟩ := pv; simp [encEthL, encEthVlan, ethLenE, hd, hs]

/-- an Ethernet header cut inside the addresses, the ether type or the 802.1Q tag: `errShortEthernetHeaderLength` -/
theorem decodeEthernet_cut (e : AEth) (et : Nat) (x : Bytes) (k : Nat) (he : e.WF) (hk : k < ethLenE e) :
    decodeEthernet ((encEthL e et ++ x).take k) = .err .ethShort := by
  have hlen := encEthL_length e et he
  by_cases h14 : k < 14
  · have : ((encEthL e et ++ x).take k).length < 14 := by rw [List.length_take]; omega
    unfold decodeEthernet
    rw [if_pos this]
  · obtain ⟨dst, src, tag⟩ := e
    obtain ⟨hd, hs, _⟩ := he
    simp only at hd hs
    cases tag with
    | none => simp only [ethLenE] at hk; omega
    | some pv =>
      obtain ⟨prio, vid⟩ := pv
      simp only [ethLenE] at hk hlen
      have hform : encEthL ⟨dst, src, some (prio, vid)⟩ et ++ x =
          dst ++ (src ++ (b8 0x81 :: b8 0x00 :: b8 ((prio * 4096 + vid) / 256) :: b8 ((prio * 4096 + vid) % 256) ::
            b8 (et / 256) :: b8 (et % 256) :: x)) := by
        simp [encEthL, encEthVlan]
      have hl : ((encEthL ⟨dst, src, some (prio, vid)⟩ et ++ x).take k).length = k := by
        rw [List.length_take, List.length_append, hlen]; omega
      have o12 := oct_mac dst src (b8 0x81 :: b8 0x00 :: b8 ((prio * 4096 + vid) / 256) :: b8 ((prio * 4096 + vid) % 256) ::
            b8 (et / 256) :: b8 (et % 256) :: x) 0 hd hs
      have o13 := oct_mac dst src (b8 0x81 :: b8 0x00 :: b8 ((prio * 4096 + vid) / 256) :: b8 ((prio * 4096 + vid) % 256) ::
            b8 (et / 256) :: b8 (et % 256) :: x) 1 hd hs
      simp only [oct_cons_succ, oct_cons_zero, Nat.add_zero] at o12 o13
      rw [b8_toNat _ (by omega)] at o12 o13
      have hl2 : (l2At ((encEthL ⟨dst, src, some (prio, vid)⟩ et ++ x).take k)).etherType = 0x8100 := by
        unfold l2At
        rw [oct_take _ _ _ (by omega), oct_take _ _ _ (by omega), hform, o12, o13]
        simp
      unfold decodeEthernet
      rw [if_neg (by omega), decodeIEEE802_eq _ (by omega)]
      simp only [ok_bind, hl2, if_true]
      have : ((encEthL ⟨dst, src, some (prio, vid)⟩ et ++ x).take k).length < 18 := by omega
      unfold decodeVlan
      rw [if_pos this]

/-- what `decodeEthernet` makes of a second 802.1Q tag behind the first (QinQ): the frame is untagged
once, the ether type it then sees is 0x8100 again -/
theorem decodeEthernet_qinq (dst src : Bytes) (tci : Nat) (rest : Bytes) (hd : dst.length = 6) (hs : src.length = 6) :
    ∃ l2 r, decodeEthernet (encEthVlan dst src tci 0x8100 ++ rest) = .ok (l2, r) ∧ l2.etherType = 0x8100 := by
  have hform : encEthVlan dst src tci 0x8100 ++ rest =
      dst ++ (src ++ (b8 0x81 :: b8 0x00 :: b8 (tci / 256) :: b8 (tci % 256) :: b8 (0x8100 / 256) :: b8 (0x8100 % 256) :: rest)) := by
    simp [encEthVlan]
  have hlen : (encEthVlan dst src tci 0x8100 ++ rest).length = 18 + rest.length := by
    rw [hform]; simp [hd, hs]; omega
  have o12 := oct_mac dst src (b8 0x81 :: b8 0x00 :: b8 (tci / 256) :: b8 (tci % 256) :: b8 (0x8100 / 256) :: b8 (0x8100 % 256) :: rest) 0 hd hs
  have o13 := oct_mac dst src (b8 0x81 :: b8 0x00 :: b8 (tci / 256) :: b8 (tci % 256) :: b8 (0x8100 / 256) :: b8 (0x8100 % 256) :: rest) 1 hd hs
  simp only [oct_cons_succ, oct_cons_zero, Nat.add_zero] at o12 o13
  rw [b8_toNat _ (by omega)] at o12 o13
  have hl2 : (l2At (encEthVlan dst src tci 0x8100 ++ rest)).etherType = 0x8100 := by
    rw [hform]; unfold l2At; rw [o12, o13]; simp
  have i12 := oct_mac dst src (b8 (0x8100 / 256) :: b8 (0x8100 % 256) :: rest) 0 hd hs
  have i13 := oct_mac dst src (b8 (0x8100 / 256) :: b8 (0x8100 % 256) :: rest) 1 hd hs
  simp only [oct_cons_succ, oct_cons_zero, Nat.add_zero] at i12 i13
  rw [b8_toNat _ (by omega)] at i12 i13
  have hin : (l2At (dst ++ (src ++ (b8 (0x8100 / 256) :: b8 (0x8100 % 256) :: rest)))).etherType = 0x8100 := by
    unfold l2At; rw [i12, i13]; simp
  have hdec : decodeEthernet (encEthVlan dst src tci 0x8100 ++ rest) =
      .ok ({ l2At (untag (encEthVlan dst src tci 0x8100 ++ rest)) with
              vlan := (oct (encEthVlan dst src tci 0x8100 ++ rest) 14 * 256 + oct (encEthVlan dst src tci 0x8100 ++ rest) 15) % 4096 },
           (untag (encEthVlan dst src tci 0x8100 ++ rest)).drop 14) := by
    unfold decodeEthernet
    rw [if_neg (by omega), decodeIEEE802_eq _ (by omega)]
    simp only [ok_bind, hl2, if_true]
    rw [decodeVlan_eq _ (by omega)]
  refine ⟨_, _, hdec, ?_⟩
  show (l2At (untag (encEthVlan dst src tci 0x8100 ++ rest))).etherType = 0x8100
  rw [hform, untag_enc _ _ _ _ _ _ _ _ _ hd hs]
  exact hin

/-! ## whole headers -/

/-- octets the dissector needs of the encoded header: Ethernet (14 / 18), network header (options
included), and `ATrans.need` of the transport header -/
def needLen (h : AHeader) : Nat :=
  (match h.eth with
   | some e => ethLenE e
   | none => 0) + netLen h.net + h.trans.need

theorem dissectNet_cut (l2 : L2) (n : ANet) (t : ATrans) (payload : Bytes) (j : Nat) (hn : n.WF)
    (hp : t.protoOK n.proto) (hj : j < netLen n + t.need) :
    ∃ e, (match n with
      | .v4 _ _ => dissectV4 l2 ((encNet n ++ (encTrans t ++ payload)).take j)
      | .v6 _ => dissectV6 l2 ((encNet n ++ (encTrans t ++ payload)).take j)) = .err e := by
  cases n with
  | v4 h opts => exact dissectV4_cut l2 h opts t payload j hn hp hj
  | v6 h => exact dissectV6_cut l2 h t payload j hn hp hj

/-- **a sampled header cut short at any layer**: for every well-formed abstract header and payload, the
first `k` octets with `k < needLen h` — nothing at all, a piece of the Ethernet header or of the tag, the
IP header cut inside its fixed part or inside the options, the transport header cut — are an error of the
dissector under the header's own header protocol -/
theorem dissect_cut (h : AHeader) (payload : Bytes) (k : Nat) (hwf : wfHeader h) (hk : k < needLen h) :
    ∃ e, dissect ((encodeHeader h ++ payload).take k) (protoOf h) = .err e := by
  obtain ⟨eth, net, trans⟩ := h
  obtain ⟨he, hn, _, hp⟩ := hwf
  cases eth with
  | none =>
    simp only [needLen, Nat.zero_add] at hk
    have := dissectNet_cut {} net trans payload k hn hp hk
    cases net with
    | v4 h4 opts =>
      simpa only [encodeHeader, protoOf, dissect, List.nil_append, List.append_assoc,
        show ¬ ((11 : Nat) = 1) by decide, if_false, if_true] using this
    | v6 h6 =>
      simpa only [encodeHeader, protoOf, dissect, List.nil_append, List.append_assoc,
        show ¬ ((12 : Nat) = 1) by decide, show ¬ ((12 : Nat) = 11) by decide, if_false, if_true] using this
  | some e =>
    simp only at he
    simp only [needLen] at hk
    have hform : encodeHeader ⟨some e, net, trans⟩ ++ payload =
        encEthL e net.etherType ++ (encNet net ++ (encTrans trans ++ payload)) := by
      simp [encodeHeader, List.append_assoc]
    have hproto : protoOf ⟨some e, net, trans⟩ = 1 := by cases net <;> rfl
    rw [hform, hproto]
    simp only [dissect, if_true, dissectEth]
    by_cases hke : k < ethLenE e
    · exact ⟨.ethShort, by rw [decodeEthernet_cut e _ _ k he hke]; rfl⟩
    · rw [take_append_ge _ _ k (ethLenE e) (encEthL_length e _ he) (by omega)]
      have hj : k - ethLenE e < netLen net + trans.need := by omega
      cases net with
      | v4 h4 opts =>
        obtain ⟨x, hx⟩ := dissectV4_cut (expEth e 0x0800) h4 opts trans payload (k - ethLenE e) hn hp hj
        refine ⟨x, ?_⟩
        simp only [ANet.etherType, encNet, decodeEthernet_encL e 0x0800 _ he (by decide) (by decide), ok_bind,
          show (expEth e 0x0800).etherType = 0x0800 from rfl, if_true, hx]
      | v6 h6 =>
        obtain ⟨x, hx⟩ := dissectV6_cut (expEth e 0x86DD) h6 trans payload (k - ethLenE e) hn hp hj
        refine ⟨x, ?_⟩
        simp only [ANet.etherType, encNet, decodeEthernet_encL e 0x86DD _ he (by decide) (by decide), ok_bind,
          show (expEth e 0x86DD).etherType = 0x86DD from rfl, show ¬ ((0x86DD : Nat) = 0x0800) by decide,
          if_true, if_false, hx]

/-- **an Ethernet frame that is not IP**: any ether type other than 0x0800 / 0x86DD — behind an 802.1Q tag
also 0x8100 (a second tag: QinQ) — is `errUnknownEtherType`, whatever follows -/
theorem dissect_etherType (e : AEth) (et : Nat) (rest : Bytes) (he : e.WF) (h1 : et < 65536)
    (h2 : et ≠ 0x0800) (h3 : et ≠ 0x86DD) (h4 : e.tag = none → et ≠ 0x8100) :
    dissect (encEthL e et ++ rest) 1 = .err .etherType := by
  by_cases h81 : et = 0x8100
  · obtain ⟨dst, src, tag⟩ := e
    obtain ⟨hd, hs, ht⟩ := he
    cases tag with
    | none => exact absurd h81 (h4 rfl)
    | some pv =>
      obtain ⟨prio, vid⟩ := pv
      simp only at hd hs ht
      subst h81
      obtain ⟨l2, r, hdec, het⟩ := decodeEthernet_qinq dst src (prio * 4096 + vid) rest hd hs
      simp only [dissect, if_true, dissectEth, encEthL, hdec, ok_bind, het,
        show ¬ ((0x8100 : Nat) = 0x0800) by decide, show ¬ ((0x8100 : Nat) = 0x86DD) by decide, if_false]
  · simp only [dissect, if_true, dissectEth, decodeEthernet_encL e et rest he h1 h81, ok_bind,
      show (expEth e et).etherType = et from rfl, h2, h3, if_false]

/-- the sFlow header protocol of a layer stack: 1 with an Ethernet layer, else 11 / 12 -/
def protoOfLayers (eth : Option AEth) (n : ANet) : Nat :=
  match eth, n with
  | some _, _ => 1
  | none, .v4 _ _ => 11
  | none, .v6 _ => 12

theorem protoOf_layers (h : AHeader) : protoOf h = protoOfLayers h.eth h.net := by
  obtain ⟨eth, net, trans⟩ := h
  cases eth <;> cases net <;> rfl

/-- the Ethernet and network layers of a header, whatever follows them -/
def encLayers (eth : Option AEth) (n : ANet) : Bytes :=
  (match eth with
   | some e => encEthL e n.etherType
   | none => []) ++ encNet n

/-- **an IP protocol without a struct**: a well-formed Ethernet (or none) and IPv4 / IPv6 header whose
protocol / first next-header field is not TCP, UDP, ICMP or ICMPv6 — GRE, ESP, OSPF, SCTP, an IPv6
extension header, … — is `errUnknownTransportLayer`, whatever follows -/
theorem dissect_ipProto (eth : Option AEth) (n : ANet) (rest : Bytes)
    (he : match eth with | some e => e.WF | none => True) (hn : n.WF)
    (hp : n.proto ≠ 1 ∧ n.proto ≠ 58 ∧ n.proto ≠ 6 ∧ n.proto ≠ 17) :
    dissect (encLayers eth n ++ rest) (protoOfLayers eth n) = .err .l4Unknown := by
  have hnet : ∀ l2, (match n with
      | .v4 _ _ => dissectV4 l2 (encNet n ++ rest)
      | .v6 _ => dissectV6 l2 (encNet n ++ rest)) = .err .l4Unknown := by
    intro l2
    cases n with
    | v4 h opts =>
      simp only [ANet.proto] at hp
      simp only [encNet, dissectV4, decodeIPv4_enc h opts _ hn.1 hn.2, ok_bind, decodeNext_unknown _ _ hp, err_bind]
    | v6 h =>
      simp only [ANet.proto] at hp
      simp only [encNet, dissectV6, decodeIPv6_enc h _ hn, ok_bind, decodeNext_unknown _ _ hp, err_bind]
  cases eth with
  | none =>
    cases n with
    | v4 h opts =>
      have := hnet {}
      simpa only [encLayers, protoOfLayers, dissect, List.nil_append, show ¬ ((11 : Nat) = 1) by decide,
        if_false, if_true] using this
    | v6 h =>
      have := hnet {}
      simpa only [encLayers, protoOfLayers, dissect, List.nil_append, show ¬ ((12 : Nat) = 1) by decide,
        show ¬ ((12 : Nat) = 11) by decide, if_false, if_true] using this
  | some e =>
    simp only at he
    cases n with
    | v4 h opts =>
      have := hnet (expEth e 0x0800)
      simp only at this
      simp only [encLayers, protoOfLayers, dissect, if_true, dissectEth, ANet.etherType, List.append_assoc,
        decodeEthernet_encL e 0x0800 _ he (by decide) (by decide), ok_bind,
        show (expEth e 0x0800).etherType = 0x0800 from rfl, this]
    | v6 h =>
      have := hnet (expEth e 0x86DD)
      simp only at this
      simp only [encLayers, protoOfLayers, dissect, if_true, dissectEth, ANet.etherType, List.append_assoc,
        decodeEthernet_encL e 0x86DD _ he (by decide) (by decide), ok_bind,
        show (expEth e 0x86DD).etherType = 0x86DD from rfl, show ¬ ((0x86DD : Nat) = 0x0800) by decide,
        if_true, if_false, this]

/-- **another sFlow header protocol** (token ring, FDDI, PPP, MPLS, …): `errUnknownHeaderProtocol` -/
theorem dissect_hdrProto (proto : Nat) (octets : Bytes) (h : proto ≠ 1 ∧ proto ≠ 11 ∧ proto ≠ 12) :
    dissect octets proto = .err .hdrProto := by
  simp [dissect, h]

/-! ## the abstract undissectable header -/

inductive ABad where
  /-- the first `k` octets of a well-formed header followed by `payload`, `k < needLen h` -/
  | cut (h : AHeader) (payload : Bytes) (k : Nat)
  /-- an Ethernet frame (± 802.1Q tag) of an ether type other than IPv4 / IPv6 -/
  | etherType (e : AEth) (et : Nat) (rest : Bytes)
  /-- (Ethernet ±tag) + IPv4 / IPv6 carrying a protocol other than TCP / UDP / ICMP / ICMPv6 -/
  | ipProto (eth : Option AEth) (n : ANet) (rest : Bytes)
  /-- any octets under an sFlow header protocol other than 1 / 11 / 12 -/
  | hdrProto (proto : Nat) (octets : Bytes)

/-- the sFlow header protocol the record announces -/
def ABad.proto : ABad → Nat
  | .cut h _ _ => protoOf h
  | .etherType _ _ _ => 1
  | .ipProto eth n _ => protoOfLayers eth n
  | .hdrProto p _ => p

/-- the sampled octets -/
def ABad.octets : ABad → Bytes
  | .cut h payload k => (encodeHeader h ++ payload).take k
  | .etherType e et rest => encEthL e et ++ rest
  | .ipProto eth n rest => encLayers eth n ++ rest
  | .hdrProto _ o => o

def ABad.WF : ABad → Prop
  | .cut h _ k => wfHeader h ∧ k < needLen h
  | .etherType e et _ => e.WF ∧ et < 65536 ∧ et ≠ 0x0800 ∧ et ≠ 0x86DD ∧ (e.tag = none → et ≠ 0x8100)
  | .ipProto eth n _ => (match eth with | some e => e.WF | none => True) ∧ n.WF ∧
      n.proto ≠ 1 ∧ n.proto ≠ 58 ∧ n.proto ≠ 6 ∧ n.proto ≠ 17
  | .hdrProto p _ => p ≠ 1 ∧ p ≠ 11 ∧ p ≠ 12

/-- **every abstract undissectable header is an error of the dissector** (never a panic, never a packet) -/
theorem dissect_bad (b : ABad) (hwf : b.WF) : ∃ e, dissect b.octets b.proto = .err e := by
  cases b with
  | cut h payload k => exact dissect_cut h payload k hwf.1 hwf.2
  | etherType e et rest =>
    obtain ⟨he, h1, h2, h3, h4⟩ := hwf
    exact ⟨_, dissect_etherType e et rest he h1 h2 h3 h4⟩
  | ipProto eth n rest =>
    obtain ⟨he, hn, hp⟩ := hwf
    exact ⟨_, dissect_ipProto eth n rest he hn hp⟩
  | hdrProto p o => exact ⟨_, dissect_hdrProto p o hwf⟩

theorem protoOfLayers_lt (eth : Option AEth) (n : ANet) : protoOfLayers eth n < 256 ^ 4 := by
  cases eth <;> cases n <;> simp [protoOfLayers]

end Vflow.Packet
