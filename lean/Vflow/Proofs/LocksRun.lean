import Vflow.Proofs.Locks
/-! Run-level lemmas: what a step changes, the write log, completed critical sections, the
two-phase (lock point) snapshot lemma. Core Lean only. -/
namespace Vflow
namespace Locks

/-! ### what one step changes -/

theorem step_other {σ σ' : Sys} {i j : Nat} {a : Act} (st : Step σ i a σ') (h : j ≠ i) :
    σ'.threads[j]? = σ.threads[j]? := by
  obtain ⟨t, p, _, _, _, rfl⟩ := st
  simp only [after]
  exact List.getElem?_set_ne (Ne.symm h)

theorem step_self {σ σ' : Sys} {i : Nat} {a : Act} (st : Step σ i a σ') :
    ∃ t p, σ.threads[i]? = some t ∧ t.prog = a :: p ∧
      σ'.threads[i]? = some ⟨heldAfter t.held a, p, obsAfter σ.mem t.obs a⟩ := by
  obtain ⟨t, p, hi, hp, _, rfl⟩ := st
  refine ⟨t, p, hi, hp, ?_⟩
  simp only [after]
  rw [List.getElem?_set_self (List.getElem?_eq_some_iff.mp hi).1]

theorem step_mem {σ σ' : Sys} {i : Nat} {a : Act} (st : Step σ i a σ') : σ'.mem = memAfter σ.mem a := by
  obtain ⟨t, p, _, _, _, rfl⟩ := st
  rfl

theorem memAfter_ne {m : Mem} {a : Act} {s : Nat} (h : ∀ k v, a ≠ .wr s k v) : memAfter m a s = m s := by
  cases a <;> try rfl
  case wr s' k v =>
    funext k'
    simp only [memAfter]
    have : s ≠ s' := fun hc => h k v (by rw [hc])
    simp [this]

theorem run_linv' {init cur : Sys} {hist : List Ev} (h0 : LInv init) (hr : Run init hist cur) : LInv cur := by
  induction hr with
  | start => exact h0
  | step _ st ih => exact step_preserves ih st

/-- a run can be cut at any of its steps -/
theorem run_split {init cur : Sys} {hist : List Ev} (hr : Run init hist cur) :
    ∀ (post pre : List Ev) (e : Ev), hist = post ++ e :: pre →
      Run init pre e.pre ∧ ∃ σ', Step e.pre e.tid e.act σ' := by
  induction hr with
  | start => intro post pre e h; simp at h
  | @step hist0 cur0 nxt i a hr0 st ih =>
    intro post pre e h
    cases post with
    | nil =>
      simp at h
      obtain ⟨rfl, rfl⟩ := h
      exact ⟨hr0, nxt, st⟩
    | cons x post' =>
      simp at h
      exact ih post' pre e h.2

/-! ### the write log -/

/-- value of the most recent write to `(s, k)` in the history (newest first), else the initial content -/
def lastWrite (m0 : Mem) : List Ev → Nat → Nat → Option Val
  | [], s, k => m0 s k
  | e :: es, s, k =>
    match e.act with
    | .wr s' k' v => if s = s' ∧ k = k' then some v else lastWrite m0 es s k
    | _ => lastWrite m0 es s k

/-- the shard maps are exactly the write log -/
theorem run_mem {init cur : Sys} {hist : List Ev} (hr : Run init hist cur) :
    ∀ s k, cur.mem s k = lastWrite init.mem hist s k := by
  induction hr with
  | start => intro s k; rfl
  | @step hist0 cur0 nxt i a _ st ih =>
    intro s k
    rw [step_mem st]
    cases a <;> simp only [memAfter, lastWrite, ih]

/-- a value written before an older write is never the last one -/
theorem lastWrite_mid (m0 : Mem) (s k : Nat) (v2 : Val) (σ2 : Sys) (j : Nat) (old : List Ev) :
    ∀ mid : List Ev,
      lastWrite m0 (mid ++ ⟨σ2, j, .wr s k v2⟩ :: old) s k = some v2 ∨
      ∃ e ∈ mid, ∃ v, e.act = .wr s k v ∧ lastWrite m0 (mid ++ ⟨σ2, j, .wr s k v2⟩ :: old) s k = some v := by
  intro mid
  induction mid with
  | nil => left; simp [lastWrite]
  | cons e es ih =>
    cases he : e.act with
    | wr s' k' v =>
      by_cases hc : s = s' ∧ k = k'
      · right
        refine ⟨e, List.mem_cons_self, v, ?_, ?_⟩
        · rw [he, hc.1, hc.2]
        · simp [lastWrite, he, hc]
      · have : lastWrite m0 ((e :: es) ++ ⟨σ2, j, .wr s k v2⟩ :: old) s k =
            lastWrite m0 (es ++ ⟨σ2, j, .wr s k v2⟩ :: old) s k := by
          simp only [List.cons_append, lastWrite, he]
          simp [hc]
        rw [this]
        rcases ih with h | ⟨e', he', v', h1, h2⟩
        · left; exact h
        · right; exact ⟨e', List.mem_cons_of_mem _ he', v', h1, h2⟩
    | lock _ | unlock _ | rlock _ | runlock _ | rd _ _ | iter _ =>
      have : lastWrite m0 ((e :: es) ++ ⟨σ2, j, .wr s k v2⟩ :: old) s k =
          lastWrite m0 (es ++ ⟨σ2, j, .wr s k v2⟩ :: old) s k := by
        simp only [List.cons_append, lastWrite, he]
      rw [this]
      rcases ih with h | ⟨e', he', v', h1, h2⟩
      · left; exact h
      · right; exact ⟨e', List.mem_cons_of_mem _ he', v', h1, h2⟩

/-! ### a writer that has not unlocked still holds the lock -/

theorem heldAfter_keeps_w {h : Held} {a : Act} {s : Nat} (hs : s ∈ h.w) (ha : a ≠ .unlock s) :
    s ∈ (heldAfter h a).w := by
  cases a <;> simp only [heldAfter] <;> try exact hs
  case lock s' => exact List.mem_cons_of_mem _ hs
  case unlock s' =>
    have : s ≠ s' := fun hc => ha (by rw [hc])
    exact (List.mem_erase_of_ne this).mpr hs

theorem wrote_holds {init cur : Sys} {hist : List Ev} (h0 : LInv init) (hr : Run init hist cur) :
    ∀ (p2 p1 : List Ev) (σ' : Sys) (j s k : Nat) (v : Val), hist = p2 ++ ⟨σ', j, .wr s k v⟩ :: p1 →
      (∀ e ∈ p2, ¬ (e.tid = j ∧ e.act = .unlock s)) →
      ∃ tj, cur.threads[j]? = some tj ∧ s ∈ tj.held.w := by
  induction hr with
  | start => intro p2 p1 σ' j s k v h; simp at h
  | @step hist0 cur0 nxt i a hr0 st ih =>
    intro p2 p1 σ' j s k v h hno
    have hinv := run_linv' h0 hr0
    cases p2 with
    | nil =>
      simp at h
      obtain ⟨⟨rfl, rfl, rfl⟩, rfl⟩ := h
      obtain ⟨t, p, hi, hp, hi'⟩ := step_self st
      refine ⟨_, hi', ?_⟩
      have w := hinv.wbAll t (List.mem_of_getElem? hi)
      rw [hp] at w
      exact wb_wr w
    | cons x p2' =>
      simp at h
      obtain ⟨rfl, h⟩ := h
      obtain ⟨tj, htj, hs⟩ := ih p2' p1 σ' j s k v h (fun e he => hno e (List.mem_cons_of_mem _ he))
      by_cases hij : j = i
      · subst hij
        obtain ⟨t, p, hi, hp, hi'⟩ := step_self st
        rw [htj] at hi
        injection hi with hi
        subst hi
        refine ⟨_, hi', ?_⟩
        have hne : a ≠ .unlock s := fun hc => hno ⟨cur0, j, a⟩ List.mem_cons_self ⟨rfl, hc⟩
        exact heldAfter_keeps_w hs hne
      · exact ⟨tj, by rw [step_other st hij]; exact htj, hs⟩

/-! ### the lock point: after its last acquisition a read-only thread sees frozen shards -/

theorem heldAfter_quiet_sub {h : Held} {a : Act} (hq : quiet a = true) {s : Nat}
    (hs : s ∈ (heldAfter h a).w ∨ s ∈ (heldAfter h a).r) : s ∈ h.w ∨ s ∈ h.r := by
  cases a <;> simp [quiet] at hq <;> simp only [heldAfter] at hs
  case unlock s' =>
    rcases hs with hs | hs
    · exact Or.inl (List.mem_of_mem_erase hs)
    · exact Or.inr hs
  case runlock s' =>
    rcases hs with hs | hs
    · exact Or.inl hs
    · exact Or.inr (List.mem_of_mem_erase hs)
  all_goals exact hs

/-- an action of a well-bracketed thread reads only shards the thread holds -/
theorem obsOf_stable {m m' : Mem} {h : Held} {a : Act} {p : List Act} (hw : wb h (a :: p) = true)
    (hm : ∀ s, (s ∈ h.w ∨ s ∈ h.r) → m s = m' s) : obsOf m a = obsOf m' a := by
  cases a <;> simp only [obsOf]
  case rd s k => rw [hm s (wb_rd hw)]
  case iter s => rw [hm s (wb_iter hw)]

/-- **lock-point lemma**: from a state `σ` in which thread `i` has only quiet actions left (no more
lock acquisitions, no writes), in every continuation every shard it still holds has the content
it had at `σ`, and what it has recorded since is exactly what reading `σ`'s memory gives -/
theorem frozen {σ cur : Sys} {hist : List Ev} (hinv : LInv σ) (hr : Run σ hist cur)
    {i : Nat} {tσ : Thread} (hi : σ.threads[i]? = some tσ) (hq : ∀ a ∈ tσ.prog, quiet a = true) :
    ∃ t done, cur.threads[i]? = some t ∧ tσ.prog = done ++ t.prog ∧
      (∀ s, (s ∈ t.held.w ∨ s ∈ t.held.r) → cur.mem s = σ.mem s) ∧
      t.obs = (done.filterMap (obsOf σ.mem)).reverse ++ tσ.obs := by
  induction hr with
  | start => exact ⟨tσ, [], hi, rfl, fun _ _ => rfl, by simp⟩
  | @step hist0 cur0 nxt j a hr0 st ih =>
    obtain ⟨t, done, ht, hprog, hmem, hobs⟩ := ih
    have hinv0 := run_linv' hinv hr0
    by_cases hji : j = i
    · subst hji
      obtain ⟨t', p, hi', hp, hn⟩ := step_self st
      rw [ht] at hi'
      injection hi' with hi'
      subst hi'
      have hqa : quiet a = true := hq a (by rw [hprog, hp]; simp)
      have hw := hinv0.wbAll t (List.mem_of_getElem? ht)
      rw [hp] at hw
      refine ⟨_, done ++ [a], hn, by rw [hprog, hp]; simp, ?_, ?_⟩
      · intro s hs
        have hnw : ∀ k v, a ≠ .wr s k v := by
          intro k v hc; rw [hc] at hqa; simp [quiet] at hqa
        rw [step_mem st, memAfter_ne hnw]
        exact hmem s (heldAfter_quiet_sub hqa hs)
      · have hst : obsOf cur0.mem a = obsOf σ.mem a := obsOf_stable hw hmem
        simp only [obsAfter, hst, List.filterMap_append, List.reverse_append]
        cases ho : obsOf σ.mem a with
        | none => simp [ho, hobs]
        | some x => simp [ho, hobs]
    · refine ⟨t, done, by rw [step_other st (Ne.symm hji)]; exact ht, hprog, ?_, hobs⟩
      intro s hs
      have hnw : ∀ k v, a ≠ .wr s k v := by
        intro k v hc
        subst hc
        obtain ⟨tj, p, hj, hp, _⟩ := step_self st
        have hw := hinv0.wbAll tj (List.mem_of_getElem? hj)
        rw [hp] at hw
        have := hinv0.excl j i tj t s hj ht hji (wb_wr hw)
        rcases hs with hs | hs
        · exact this.1 hs
        · exact this.2 hs
      rw [step_mem st, memAfter_ne hnw]
      exact hmem s hs

/-- the states a run has visited: every pre-state of a step, and the current one -/
def Visited (σ : Sys) (hist : List Ev) (cur : Sys) : Prop := σ = cur ∨ ∃ e ∈ hist, e.pre = σ

/-- **two-phase snapshot**: a thread whose program is `acq ++ rest` — `acq` only lock acquisitions,
`rest` quiet — has, at any point of any run, either not yet passed its lock point and recorded
nothing, or there is one visited state `σ` (its lock point) such that everything it has recorded is
exactly what executing the finished part of `rest` against `σ`'s memory gives -/
theorem two_phase {init cur : Sys} {hist : List Ev} (h0 : Init init) (hr : Run init hist cur)
    {i : Nat} {t0 : Thread} {acq rest : List Act} (hi0 : init.threads[i]? = some t0)
    (hprog : t0.prog = acq ++ rest) (hacq : ∀ a ∈ acq, isAcq a = true) (hrest : ∀ a ∈ rest, quiet a = true) :
    ∃ t, cur.threads[i]? = some t ∧
      ((t.obs = [] ∧ ∃ acq', acq' ≠ [] ∧ t.prog = acq' ++ rest) ∨
       (∃ σ done, Visited σ hist cur ∧ rest = done ++ t.prog ∧
          (∀ s, (s ∈ t.held.w ∨ s ∈ t.held.r) → cur.mem s = σ.mem s) ∧
          t.obs = (done.filterMap (obsOf σ.mem)).reverse)) := by
  -- invariant: before the lock point nothing is recorded; after it, `frozen` applies from there
  suffices h : ∃ t, cur.threads[i]? = some t ∧
      ((t.obs = [] ∧ ∃ acq', acq' ≠ [] ∧ (∀ a ∈ acq', isAcq a = true) ∧ t.prog = acq' ++ rest) ∨
       (∃ σ h2 tσ, Visited σ hist cur ∧ LInv σ ∧ Run σ h2 cur ∧ σ.threads[i]? = some tσ ∧
          tσ.prog = rest ∧ tσ.obs = [])) by
    obtain ⟨t, ht, h⟩ := h
    rcases h with ⟨ho, acq', hne, _, hp⟩ | ⟨σ, h2, tσ, hv, hl, hr2, hiσ, hpσ, hoσ⟩
    · exact ⟨t, ht, Or.inl ⟨ho, acq', hne, hp⟩⟩
    · obtain ⟨t', done, ht', hp', hm', ho'⟩ := frozen hl hr2 hiσ (by rw [hpσ]; exact hrest)
      rw [ht] at ht'
      injection ht' with ht'
      subst ht'
      exact ⟨t, ht, Or.inr ⟨σ, done, hv, by rw [← hpσ]; exact hp', hm', by rw [ho', hoσ]; simp⟩⟩
  induction hr with
  | start =>
    refine ⟨t0, hi0, ?_⟩
    have hobs := (h0 t0 (List.mem_of_getElem? hi0)).2.1
    cases acq with
    | nil =>
      right
      exact ⟨init, [], t0, Or.inl rfl, linv_init h0, Run.start, hi0, by simpa using hprog, hobs⟩
    | cons b bs => left; exact ⟨hobs, b :: bs, by simp, hacq, hprog⟩
  | @step hist0 cur0 nxt j a hr0 st ih =>
    obtain ⟨t, ht, h⟩ := ih
    rcases h with ⟨ho, acq', hne, hall, hp⟩ | ⟨σ, h2, tσ, hv, hl, hr2, hiσ, hpσ, hoσ⟩
    · by_cases hji : j = i
      · subst hji
        obtain ⟨t', p, hi', hp', hn⟩ := step_self st
        rw [ht] at hi'
        injection hi' with hi'
        subst hi'
        cases acq' with
        | nil => exact absurd rfl hne
        | cons b bs =>
          rw [hp] at hp'
          simp at hp'
          obtain ⟨rfl, rfl⟩ := hp'
          have hb : isAcq b = true := hall b List.mem_cons_self
          have hob : obsAfter cur0.mem t.obs b = [] := by
            cases b <;> simp [isAcq] at hb <;> simp [obsAfter, obsOf, ho]
          refine ⟨_, hn, ?_⟩
          cases bs with
          | nil =>
            right
            refine ⟨nxt, [], _, Or.inl rfl, step_preserves (run_linv h0 hr0) st, Run.start, hn, by simp, hob⟩
          | cons c cs =>
            left
            exact ⟨hob, c :: cs, by simp, fun x hx => hall x (List.mem_cons_of_mem _ hx), rfl⟩
      · refine ⟨t, by rw [step_other st (Ne.symm hji)]; exact ht, Or.inl ⟨ho, acq', hne, hall, hp⟩⟩
    · have hr2' : Run σ (⟨cur0, j, a⟩ :: h2) nxt := Run.step hr2 st
      have hv' : Visited σ (⟨cur0, j, a⟩ :: hist0) nxt := by
        right
        rcases hv with rfl | ⟨e, he, hpre⟩
        · exact ⟨⟨σ, j, a⟩, List.mem_cons_self, rfl⟩
        · exact ⟨e, List.mem_cons_of_mem _ he, hpre⟩
      obtain ⟨t', _, ht', _, _, _⟩ := frozen hl hr2' hiσ (by rw [hpσ]; exact hrest)
      exact ⟨t', ht', Or.inr ⟨σ, _, tσ, hv', hl, hr2', hiσ, hpσ, hoσ⟩⟩

end Locks
end Vflow
