import Vflow.Model.Mirror
/-! helper lemmas for C16 (core Lean only) -/
namespace Vflow.Mirror
open Vflow

@[simp] theorem ok_bind {α β : Type} (a : α) (f : α → Res β) : (Res.ok a >>= f) = f a := rfl
@[simp] theorem ok_bind' {α β : Type} (a : α) (f : α → Res β) : (Res.ok a).bind f = f a := rfl
@[simp] theorem pure_eq {α : Type} (a : α) : (pure a : Res α) = .ok a := rfl

theorem encBE_two (v : Nat) : encBE 2 v = [UInt8.ofNat (v / 256 % 256), UInt8.ofNat (v % 256)] := by
  simp [encBE]

theorem len4 (l : Bytes) (h : l.length = 4) : ∃ a b c d, l = [a, b, c, d] := by
  match l, h with
  | [a, b, c, d], _ => exact ⟨a, b, c, d, rfl⟩

/-- `copy(buf[lo:hi], src)` where `buf = a ++ r` and `a` has `lo` octets -/
theorem copyInto_at (a r src : Bytes) (lo hi : Nat) (ha : a.length = lo) (hlo : lo ≤ hi)
    (hhi : hi ≤ lo + r.length) :
    copyInto (a ++ r) lo hi src = .ok (a ++ src.take (hi - lo) ++ r.drop (src.take (hi - lo)).length) := by
  subst ha
  unfold copyInto
  have h1 : a.length ≤ hi ∧ hi ≤ (a ++ r).length := ⟨hlo, by simpa using hhi⟩
  simp only [h1, and_self, ↓reduceIte]
  congr 2
  · simp
  · simp [List.drop_append]

theorem ipv4Tpl_val : ipv4Tpl 17 = .ok [0x45,0,0,0,0,0,0,0,64,17,0,0,0,0,0,0,0,0,0,0] := by decide

theorem udpMarshal_val (sport port : Nat) :
    udpMarshal sport port = .ok (encBE 2 (sport % 65536) ++ encBE 2 (port % 65536) ++ [0, 8, 0, 0]) := by
  simp [udpMarshal, makeBytes, putU16, encBE_two, udpHLen]

theorem setAddrs_val (s0 s1 s2 s3 d0 d1 d2 d3 : UInt8) (src dst : Bytes)
    (hs : to4 src = some [s0, s1, s2, s3]) (hd : to4 dst = some [d0, d1, d2, d3]) :
    setAddrs [0x45,0,0,0,0,0,0,0,64,17,0,0,0,0,0,0,0,0,0,0] src dst =
      .ok [0x45,0,0,0,0,0,0,0,64,17,0,0,s0,s1,s2,s3,d0,d1,d2,d3] := by
  simp [setAddrs, hs, hd, copyInto]

theorem be2 (v : Nat) (h : v < 65536) : beN (encBE 2 v) = v := by
  simp [encBE_two, beN]
  omega

end Vflow.Mirror
