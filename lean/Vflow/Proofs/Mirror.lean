import Vflow.Model.Mirror
/-! helper lemmas for C16 (core Lean only) -/
namespace Vflow.Mirror
open Vflow

@[simp] theorem ok_bind {α β : Type} (a : α) (f : α → Res β) : (Res.ok a >>= f) = f a := rfl
@[simp] theorem ok_bind' {α β : Type} (a : α) (f : α → Res β) : (Res.ok a).bind f = f a := rfl
@[simp] theorem pure_eq {α : Type} (a : α) : (pure a : Res α) = .ok a := rfl

theorem encBE_two (v : Nat) : encBE 2 v = [UInt8.ofNat (v / 256 % 256), UInt8.ofNat (v % 256)] := by
  simp [encBE]

theorem len4 (l : Bytes) (h : l.length = 4) : ∃ a b c d, l = [a, b, c, d] := by
  match l, h with
  | [a, b, c, d], _ => exact ⟨a, b, c, d, rfl⟩

/-- `copy(buf[lo:hi], src)` where `buf = a ++ r` and `a` has `lo` octets -/
theorem copyInto_at (a r src : Bytes) (lo hi : Nat) (ha : a.length = lo) (hlo : lo ≤ hi)
    (hhi : hi ≤ lo + r.length) :
    copyInto (a ++ r) lo hi src = .ok (a ++ src.take (hi - lo) ++ r.drop (src.take (hi - lo)).length) := by
  subst ha
  unfold copyInto
  have h1 : a.length ≤ hi ∧ hi ≤ (a ++ r).length := ⟨hlo, by simpa using hhi⟩
  simp only [h1, and_self, ↓reduceIte]
  congr 2
  · simp
  · simp [List.drop_append]

theorem ipv4Tpl_val : ipv4Tpl 17 = .ok [0x45,0,0,0,0,0,0,0,64,17,0,0,0,0,0,0,0,0,0,0] := by decide

theorem udpMarshal_val (sport port : Nat) :
    udpMarshal sport port = .ok (encBE 2 (sport % 65536) ++ encBE 2 (port % 65536) ++ [0, 8, 0, 0]) := by
  simp [udpMarshal, makeBytes, putU16, encBE_two, udpHLen]

theorem setAddrs_val (s0 s1 s2 s3 d0 d1 d2 d3 : UInt8) (src dst : Bytes)
    (hs : to4 src = some [s0, s1, s2, s3]) (hd : to4 dst = some [d0, d1, d2, d3]) :
    setAddrs [0x45,0,0,0,0,0,0,0,64,17,0,0,0,0,0,0,0,0,0,0] src dst =
      .ok [0x45,0,0,0,0,0,0,0,64,17,0,0,s0,s1,s2,s3,d0,d1,d2,d3] := by
  simp [setAddrs, hs, hd, copyInto]

theorem be2 (v : Nat) (h : v < 65536) : beN (encBE 2 v) = v := by
  simp [encBE_two, beN]
  omega

theorem to4_isV4 {ip a : Bytes} (h : IsV4 ip a) : to4 ip = some a := by
  obtain ⟨h4, h | h⟩ := h
  · subst h; simp [to4, h4]
  · obtain ⟨a, b, c, d, rfl⟩ := len4 a h4
    subst h
    simp [to4, mapped]

/-- the buffers of a worker that has handled any number of messages: template octets in place, ports
in place, arbitrary length fields / addresses / packet contents from earlier messages -/
def Ready (sport port m : Nat) (w : Worker) : Prop :=
  (∃ t0 t1 a0 a1 a2 a3 b0 b1 b2 b3,
    w.ipHdr = [0x45, 0, t0, t1, 0, 0, 0, 0, 64, 17, 0, 0, a0, a1, a2, a3, b0, b1, b2, b3]) ∧
  (∃ u0 u1, w.udpHdr = encBE 2 sport ++ encBE 2 port ++ [u0, u1, 0, 0]) ∧
  w.packet.length = 48 + m

theorem init_ready (sport m : Nat) (dst dst4 : Bytes) (port : Nat) (hd : IsV4 dst dst4)
    (hsp : sport < 65536) (hp : port < 65536) :
    ∃ w, Worker.init sport (m : Int) dst port = .ok w ∧ Ready sport port m w := by
  have hd4 := to4_isV4 hd
  have hmk : makeBytes ((bufExtra : Nat) + (m : Int)) = .ok (List.replicate (48 + m) 0) := by
    simp only [makeBytes, bufExtra, ipv6HLen, udpHLen]
    have : ¬ ((((40 + 8 : Nat) : Int)) + (m : Int) < 0) := by omega
    simp only [this, ↓reduceIte]
    congr 2
  refine ⟨⟨[0x45,0,0,0,0,0,0,0,64,17,0,0,0,0,0,0,0,0,0,0],
    encBE 2 (sport % 65536) ++ encBE 2 (port % 65536) ++ [0, 8, 0, 0], List.replicate (48 + m) 0⟩, ?_, ?_⟩
  · simp only [Worker.init, hmk, ok_bind, udpMarshal_val, hd4, Option.isNone_some, Bool.false_eq_true,
      ↓reduceIte, ipv4Tpl_val, udpProto]
  · refine ⟨⟨0, 0, 0, 0, 0, 0, 0, 0, 0, 0, rfl⟩, ⟨0, 8, ?_⟩, by simp⟩
    simp [Nat.mod_eq_of_lt hsp, Nat.mod_eq_of_lt hp]

/-- the octets a loop iteration hands to `Send`, with the two length fields as the code computes them
(`IPv4HLen+uint16(n)` in 16 bits, `uint16(UDPHLen+n)`): for `28 + length ≤ 65535` this is `ipv4udp` -/
def wire (src4 dst4 : Bytes) (sport port : Nat) (payload : Bytes) : Bytes :=
  [0x45, 0] ++ encBE 2 ((ipv4HLen + (payload.length + udpHLen) % 65536) % 65536) ++
  [0, 0, 0, 0, 64, 17, 0, 0] ++ src4 ++ dst4 ++
  encBE 2 sport ++ encBE 2 port ++ encBE 2 ((udpHLen + payload.length) % 65536) ++ [0, 0] ++ payload

theorem wire_eq_ipv4udp (src4 dst4 : Bytes) (sport port : Nat) (payload : Bytes)
    (hlen : 28 + payload.length ≤ 65535) :
    wire src4 dst4 sport port payload = ipv4udp src4 dst4 sport port payload := by
  have hT : (ipv4HLen + (payload.length + udpHLen) % 65536) % 65536 = 20 + 8 + payload.length := by
    simp only [ipv4HLen, udpHLen]; omega
  have hU : (udpHLen + payload.length) % 65536 = 8 + payload.length := by
    simp only [udpHLen]; omega
  simp [wire, ipv4udp, hT, hU]

theorem wire_length (src4 dst4 : Bytes) (sport port : Nat) (payload : Bytes)
    (hs : src4.length = 4) (hd : dst4.length = 4) :
    (wire src4 dst4 sport port payload).length = 28 + payload.length := by
  simp [wire, encBE_two, hs, hd]; omega

theorem ipv4udp_length (src4 dst4 : Bytes) (sport port : Nat) (payload : Bytes)
    (hs : src4.length = 4) (hd : dst4.length = 4) :
    (ipv4udp src4 dst4 sport port payload).length = 28 + payload.length := by
  simp [ipv4udp, encBE_two, hs, hd]; omega

/-- one loop iteration on the buffers of a worker that has handled any number of messages: never a panic,
for a payload of ANY length up to `max` (beyond 65507 octets the length fields wrap, see `wire`) -/
theorem step_spec (sport port m : Nat) (w : Worker) (src dst src4 dst4 payload : Bytes)
    (hw : Ready sport port m w) (hs : IsV4 src src4) (hd : IsV4 dst dst4) (hm : payload.length ≤ m) :
    ∃ w', w.step (m : Int) dst src payload = .ok (w', wire src4 dst4 sport port payload) ∧
      Ready sport port m w' := by
  have hs4 := to4_isV4 hs
  have hd4 := to4_isV4 hd
  obtain ⟨s0, s1, s2, s3, rfl⟩ := len4 src4 hs.1
  obtain ⟨d0, d1, d2, d3, rfl⟩ := len4 dst4 hd.1
  obtain ⟨ipHdr, udpHdr, packet⟩ := w
  obtain ⟨⟨t0, t1, a0, a1, a2, a3, b0, b1, b2, b3, hi⟩, ⟨u0, u1, hu⟩, hpk⟩ := hw
  simp only at hi hu hpk
  subst hi; subst hu
  generalize hT : (ipv4HLen + (payload.length + udpHLen) % 65536) % 65536 = T
  generalize hU : (udpHLen + payload.length) % 65536 = U'
  have hsa : setAddrs [0x45, 0, t0, t1, 0, 0, 0, 0, 64, 17, 0, 0, a0, a1, a2, a3, b0, b1, b2, b3] src dst
      = .ok [0x45, 0, t0, t1, 0, 0, 0, 0, 64, 17, 0, 0, s0, s1, s2, s3, d0, d1, d2, d3] := by
    simp [setAddrs, hs4, hd4, copyInto]
  have hsl : setLen4 [0x45, 0, t0, t1, 0, 0, 0, 0, 64, 17, 0, 0, s0, s1, s2, s3, d0, d1, d2, d3] (payload.length + udpHLen)
      = .ok ([0x45, 0] ++ encBE 2 T ++ [0, 0, 0, 0, 64, 17, 0, 0, s0, s1, s2, s3, d0, d1, d2, d3]) := by
    simp [setLen4, putU16, hT]
  have hul : udpSetLen (encBE 2 sport ++ encBE 2 port ++ [u0, u1, 0, 0]) payload.length
      = .ok (encBE 2 sport ++ encBE 2 port ++ encBE 2 U' ++ [0, 0]) := by
    simp [udpSetLen, putU16, hU, encBE_two]
  unfold Worker.step
  simp only [hsa, hsl, hul, ok_bind]
  generalize hH : ([0x45, 0] ++ encBE 2 T ++
      [0, 0, 0, 0, 64, 17, 0, 0, s0, s1, s2, s3, d0, d1, d2, d3] : Bytes) = H
  generalize hUh : (encBE 2 sport ++ encBE 2 port ++ encBE 2 U' ++ [0, 0] : Bytes) = U
  have hHl : H.length = 20 := by subst hH; simp [encBE_two]
  have hUl : U.length = 8 := by subst hUh; simp [encBE_two]
  have c1 : copyInto packet 0 ipv4HLen H = .ok (H ++ packet.drop 20) := by
    have := copyInto_at [] packet H 0 20 rfl (by omega) (by omega)
    simp only [List.nil_append, Nat.sub_zero] at this
    rw [ipv4HLen, this, List.take_of_length_le (by omega), hHl]
  have c2 : copyInto (H ++ packet.drop 20) ipv4HLen (ipv4HLen + 8) U
      = .ok ((H ++ U) ++ packet.drop 28) := by
    have := copyInto_at H (packet.drop 20) U 20 28 hHl (by omega) (by simp; omega)
    rw [ipv4HLen, this, List.take_of_length_le (by omega), hUl, List.drop_drop]
  have c3 : copyInto ((H ++ U) ++ packet.drop 28) (ipv4HLen + 8)
      ((H ++ U) ++ packet.drop 28).length payload
      = .ok (((H ++ U) ++ payload) ++ packet.drop (28 + payload.length)) := by
    have hl : ((H ++ U) ++ packet.drop 28).length = 48 + m := by simp [hHl, hUl]; omega
    have := copyInto_at (H ++ U) (packet.drop 28) payload 28 (48 + m) (by simp [hHl, hUl]) (by omega) (by simp; omega)
    rw [hl, ipv4HLen, this, List.take_of_length_le (by omega), List.drop_drop]
  rw [c1]; simp only [ok_bind]
  rw [c2]; simp only [ok_bind]
  rw [c3]; simp only [ok_bind]
  have hb : ¬ ((m : Int) < 0 ∨ bodyCap (m : Int) payload.length < (m : Int)) := by
    unfold bodyCap
    split <;> omega
  simp only [hb, ↓reduceIte]
  unfold slice
  have hsl2 : 0 ≤ ipv4HLen + 8 + payload.length ∧ ipv4HLen + 8 + payload.length ≤
      (((H ++ U) ++ payload) ++ packet.drop (28 + payload.length)).length := by
    simp [hHl, hUl, ipv4HLen]; omega
  simp only [hsl2, and_self, ↓reduceIte, List.drop_zero, Nat.sub_zero, ok_bind]
  have htk : ipv4HLen + 8 + payload.length = ((H ++ U) ++ payload).length := by simp [hHl, hUl, ipv4HLen]; omega
  rw [htk, List.take_left']
  · refine ⟨⟨H, U, H ++ U ++ payload ++ List.drop (28 + payload.length) packet⟩, ?_, ?_⟩
    · subst hH; subst hUh; subst hT; subst hU
      simp [wire, encBE_two]
    · subst hH; subst hUh
      refine ⟨?_, ?_, ?_⟩
      · simp only [encBE_two]
        exact ⟨_, _, s0, s1, s2, s3, d0, d1, d2, d3, rfl⟩
      · simp only [encBE_two]
        exact ⟨_, _, rfl⟩
      · simp [encBE_two]; omega
  · rfl


theorem v4of_isV4 {ip a : Bytes} (h : IsV4 ip a) : v4of ip = a := by
  obtain ⟨h4, h | h⟩ := h
  · subst h; simp [v4of, h4]
  · obtain ⟨a, b, c, d, rfl⟩ := len4 a h4
    subst h
    simp [v4of, mapped]

/-- the loop on the buffers of a ready worker, for EVERY send function and every sequence of IPv4-sourced
messages up to `max`: what went out are the packets the kernel took, in order; a refused packet costs
only itself -/
theorem run_spec (send : Bytes → Bool) (sport port m : Nat) (dst dst4 : Bytes) (hd : IsV4 dst dst4)
    (msgs : List (Bytes × Bytes)) (w : Worker) (hw : Ready sport port m w)
    (hv : ∀ x ∈ msgs, IsV4 x.1 (v4of x.1) ∧ x.2.length ≤ m) :
    w.run send (m : Int) dst msgs =
      .ok ((msgs.map (fun x => wire (v4of x.1) dst4 sport port x.2)).filter send) := by
  induction msgs generalizing w with
  | nil => rfl
  | cons x rest ih =>
    obtain ⟨src, payload⟩ := x
    have hx := hv (src, payload) (by simp)
    obtain ⟨w', hstep, hw'⟩ := step_spec sport port m w src dst (v4of src) dst4 payload hw hx.1 hd hx.2
    simp only [Worker.run, hstep, ok_bind, List.map_cons]
    rw [ih w' hw' (fun y hy => hv y (by simp [hy]))]
    simp only [ok_bind, List.filter_cons]

/-- two packet functions that agree wherever the kernel takes either packet give the same emissions -/
theorem filter_map_congr {α : Type} (send : Bytes → Bool) (f g : α → Bytes) (l : List α)
    (h : ∀ x ∈ l, f x = g x ∨ (send (f x) = false ∧ send (g x) = false)) :
    (l.map f).filter send = (l.map g).filter send := by
  induction l with
  | nil => rfl
  | cons a t ih =>
    have iht := ih (fun y hy => h y (by simp [hy]))
    rcases h a (by simp) with he | ⟨h1, h2⟩
    · simp only [List.map_cons, List.filter_cons, he, iht]
    · simp only [List.map_cons, List.filter_cons, h1, h2, iht]
      rfl

theorem isV4_of_to4 {ip : Bytes} (h : (to4 ip).isSome = true) : IsV4 ip (v4of ip) := by
  unfold to4 at h
  split at h
  · rename_i h4
    exact ⟨by simp [v4of, h4], .inl (by simp [v4of, h4])⟩
  · split at h
    · rename_i h16
      obtain ⟨hl, hz, hf⟩ := h16
      refine ⟨by simp [v4of, hl], .inr ?_⟩
      have e : ip = ip.take 10 ++ ((ip.drop 10).take 2 ++ ip.drop 12) := by
        have h12 : ip.drop 12 = (ip.drop 10).drop 2 := by rw [List.drop_drop]
        rw [h12, List.take_append_drop, List.take_append_drop]
      rw [hz, hf] at e
      simp only [v4of, hl, mapped]
      rw [List.append_assoc]
      exact e
    · simp at h

theorem to4_isSome_iff (ip : Bytes) : (to4 ip).isSome = true ↔ IsV4 ip (v4of ip) :=
  ⟨isV4_of_to4, fun h => by rw [to4_isV4 h]; rfl⟩

end Vflow.Mirror
