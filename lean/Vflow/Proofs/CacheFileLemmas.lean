import Vflow.Proofs.CacheLemmas
import Vflow.Model.CacheFile
import Vflow.Model.Ipfix
import Vflow.Model.V9
/-!
# Lemmas for C11: caches have distinct keys; lookup by key is permutation-invariant; save/load
-/
namespace Vflow
open CacheFile

/-- every key occurs at most once -/
def NoDupKeys (c : Cache) : Prop := (c.map (·.1)).Nodup

theorem find?_key_none {l : Cache} {k : Nat} (h : ∀ e ∈ l, e.1 ≠ k) : l.find? (fun e => e.1 = k) = none := by
  rw [List.find?_eq_none]; intro e he; simpa using h e he

theorem find?_key_some {l : Cache} (hnd : NoDupKeys l) {e : Nat × Template} (he : e ∈ l) :
    l.find? (fun x => x.1 = e.1) = some e := by
  induction l with
  | nil => cases he
  | cons x xs ih =>
    unfold NoDupKeys at hnd
    rw [List.map_cons, List.nodup_cons] at hnd
    rcases List.mem_cons.mp he with h | h
    · subst h; simp [List.find?]
    · have hx : x.1 ≠ e.1 := by
        intro hh; apply hnd.1; rw [hh]; exact List.mem_map_of_mem h
      simp only [List.find?, hx, decide_false]
      exact ih hnd.2 h

/-- with distinct keys, lookup by key depends only on the set of entries -/
theorem lookupKey_perm {l₁ l₂ : Cache} (hp : l₁.Perm l₂) (hnd : NoDupKeys l₁) (k : Nat) :
    Cache.lookupKey l₁ k = Cache.lookupKey l₂ k := by
  have hnd2 : NoDupKeys l₂ := by
    unfold NoDupKeys at *; exact (hp.map _).nodup_iff.mp hnd
  unfold Cache.lookupKey
  by_cases h : ∃ e ∈ l₁, e.1 = k
  · obtain ⟨e, he, hk⟩ := h
    subst hk
    rw [find?_key_some hnd he, find?_key_some hnd2 (hp.mem_iff.mp he)]
  · have h1 : ∀ e ∈ l₁, e.1 ≠ k := fun e he hk => h ⟨e, he, hk⟩
    have h2 : ∀ e ∈ l₂, e.1 ≠ k := fun e he => h1 e (hp.mem_iff.mpr he)
    rw [find?_key_none h1, find?_key_none h2]

theorem insertKey_nodup (c : Cache) (k : Nat) (t : Template) (h : NoDupKeys c) : NoDupKeys (c.insertKey k t) := by
  unfold NoDupKeys Cache.insertKey at *
  rw [List.map_cons, List.nodup_cons]
  constructor
  · intro hm
    obtain ⟨e, he, hk⟩ := List.mem_map.mp hm
    have := (List.mem_filter.mp he).2
    simp at this; exact this hk
  · exact (List.filter_sublist.map _).nodup h

theorem insert_nodup (c : Cache) (a : Bytes) (id : Nat) (t : Template) (h : NoDupKeys c) :
    NoDupKeys (c.insert a id t) := insertKey_nodup c _ t h

/-! ## the insertion sort of `dumpJson` is a permutation -/

theorem insertSorted_perm (e : Nat × Template) (l : List (Nat × Template)) : (insertSorted e l).Perm (e :: l) := by
  induction l with
  | nil => exact List.Perm.refl _
  | cons x xs ih =>
    unfold insertSorted
    split
    · exact List.Perm.refl _
    · exact (List.Perm.cons x ih).trans (List.Perm.swap e x xs)

theorem sortEntries_perm (l : List (Nat × Template)) : (sortEntries l).Perm l := by
  induction l with
  | nil => exact List.Perm.refl _
  | cons x xs ih =>
    show (insertSorted x (sortEntries xs)).Perm (x :: xs)
    exact (insertSorted_perm x _).trans (List.Perm.cons x ih)

/-! ## loading: `foldl insertKey` over a list with distinct keys is lookup-equivalent to the list -/

theorem lookupKey_foldl_insertKey (l : Cache) (hnd : NoDupKeys l) :
    ∀ (acc : Cache) (k : Nat),
      Cache.lookupKey (l.foldl (fun c e => CacheFile.insertKey c e.1 e.2) acc) k =
        (match Cache.lookupKey l k with | some t => some t | none => Cache.lookupKey acc k) := by
  induction l with
  | nil => intro acc k; rfl
  | cons x xs ih =>
    intro acc k
    unfold NoDupKeys at hnd
    rw [List.map_cons, List.nodup_cons] at hnd
    rw [List.foldl_cons, ih hnd.2]
    have hins : CacheFile.insertKey acc x.1 x.2 = Cache.insertKey acc x.1 x.2 := rfl
    rw [hins, Cache.lookupKey_insertKey]
    by_cases hk : k = x.1
    · subst hk
      have : Cache.lookupKey xs x.1 = none := by
        unfold Cache.lookupKey
        rw [find?_key_none]; rfl
        intro e he hh; apply hnd.1; rw [← hh]; exact List.mem_map_of_mem he
      have h2 : Cache.lookupKey (x :: xs) x.1 = some x.2 := by simp [Cache.lookupKey, List.find?]
      rw [this, h2]; simp
    · have hk' : ¬ (x.1 = k) := fun h => hk h.symm
      have h2 : Cache.lookupKey (x :: xs) k = Cache.lookupKey xs k := by simp [Cache.lookupKey, List.find?, hk']
      rw [h2]; simp [hk]

end Vflow

namespace Vflow
open CacheFile

theorem flatMap_congr' {α β : Type} (l : List α) (f g : α → List β) (h : ∀ a ∈ l, f a = g a) :
    l.flatMap f = l.flatMap g := by
  induction l with
  | nil => rfl
  | cons a as ih =>
    simp only [List.flatMap_cons]
    rw [h a (List.mem_cons_self ..), ih (fun x hx => h x (List.mem_cons_of_mem _ hx))]

theorem perm_flatMap_left {α β : Type} (l : List α) (f g : α → List β) (h : ∀ a ∈ l, (f a).Perm (g a)) :
    (l.flatMap f).Perm (l.flatMap g) := by
  induction l with
  | nil => exact List.Perm.refl _
  | cons a as ih =>
    simp only [List.flatMap_cons]
    exact List.Perm.append (h a (List.mem_cons_self ..)) (ih (fun x hx => h x (List.mem_cons_of_mem _ hx)))

/-- adding `x` to exactly one bucket `j` of a bucket family adds it to the concatenation, up to permutation -/
theorem flatMap_insert_bucket {α : Type} (x : α) (g : Nat → List α) (j : Nat) :
    ∀ (l : List Nat), l.Nodup → j ∈ l →
      (l.flatMap fun i => if i = j then x :: g i else g i).Perm (x :: l.flatMap g) := by
  intro l
  induction l with
  | nil => intro _ h; cases h
  | cons a as ih =>
    intro hnd hj
    rw [List.nodup_cons] at hnd
    simp only [List.flatMap_cons]
    by_cases ha : a = j
    · subst ha
      have hrest : (as.flatMap fun i => if i = a then x :: g i else g i) = as.flatMap g := by
        apply flatMap_congr'
        intro i hi
        have : i ≠ a := fun h => hnd.1 (h ▸ hi)
        simp [this]
      simp [hrest]
    · have hj' : j ∈ as := by
        rcases List.mem_cons.mp hj with h | h
        · exact absurd h.symm ha
        · exact h
      simp only [ha, if_false]
      have := ih hnd.2 hj'
      exact (List.Perm.append_left (g a) this).trans (List.perm_middle)

/-- splitting a list into buckets by `key % n` and concatenating the buckets is a permutation -/
theorem buckets_perm (n : Nat) (hn : 0 < n) (c : Cache) :
    ((List.range n).flatMap fun i => c.filter fun e => e.1 % n = i).Perm c := by
  induction c with
  | nil => simp
  | cons x xs ih =>
    have hj : x.1 % n ∈ List.range n := List.mem_range.mpr (Nat.mod_lt _ hn)
    have hfun : (fun i => (x :: xs).filter fun e => e.1 % n = i) =
        fun i => if i = x.1 % n then x :: (xs.filter fun e => e.1 % n = i) else xs.filter fun e => e.1 % n = i := by
      funext i
      by_cases h : i = x.1 % n
      · simp [List.filter, h]
      · have : ¬ (x.1 % n = i) := fun hh => h hh.symm
        simp [List.filter, h, this]
    rw [hfun]
    exact (flatMap_insert_bucket x _ _ _ (List.nodup_range) hj).trans (List.Perm.cons x ih)

/-- the entries of the document written for a cache are a permutation of the cache -/
theorem docEntries_docOf_perm (c : Cache) : (docEntries (docOf c)).Perm c := by
  unfold docEntries docOf
  simp only [List.flatMap_map]
  refine List.Perm.trans ?_ (buckets_perm 32 (by decide) c)
  apply perm_flatMap_left
  intro i _
  exact sortEntries_perm _

theorem docUsable_docOf (c : Cache) : docUsable (docOf c) = true := by
  simp [docUsable, docOf]

end Vflow
