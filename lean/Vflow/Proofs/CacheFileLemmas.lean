import Vflow.Proofs.CacheLemmas
import Vflow.Model.CacheFile
import Vflow.Model.Ipfix
import Vflow.Model.V9
/-!
# Lemmas for C11: caches have distinct keys; lookup by key is permutation-invariant; save/load
-/
namespace Vflow
open CacheFile

/-- every key occurs at most once -/
def NoDupKeys (c : Cache) : Prop := (c.map (·.1)).Nodup

theorem find?_key_none {l : Cache} {k : CKey} (h : ∀ e ∈ l, e.1 ≠ k) : l.find? (fun e => e.1 = k) = none := by
  rw [List.find?_eq_none]; intro e he; simpa using h e he

theorem find?_key_some {l : Cache} (hnd : NoDupKeys l) {e : CKey × Template} (he : e ∈ l) :
    l.find? (fun x => x.1 = e.1) = some e := by
  induction l with
  | nil => cases he
  | cons x xs ih =>
    unfold NoDupKeys at hnd
    rw [List.map_cons, List.nodup_cons] at hnd
    rcases List.mem_cons.mp he with h | h
    · subst h; simp [List.find?]
    · have hx : x.1 ≠ e.1 := by
        intro hh; apply hnd.1; rw [hh]; exact List.mem_map_of_mem h
      simp only [List.find?, hx, decide_false]
      exact ih hnd.2 h

/-- with distinct keys, lookup by key depends only on the set of entries -/
theorem lookupKey_perm {l₁ l₂ : Cache} (hp : l₁.Perm l₂) (hnd : NoDupKeys l₁) (k : CKey) :
    Cache.lookupKey l₁ k = Cache.lookupKey l₂ k := by
  have hnd2 : NoDupKeys l₂ := by
    unfold NoDupKeys at *; exact (hp.map _).nodup_iff.mp hnd
  unfold Cache.lookupKey
  by_cases h : ∃ e ∈ l₁, e.1 = k
  · obtain ⟨e, he, hk⟩ := h
    subst hk
    rw [find?_key_some hnd he, find?_key_some hnd2 (hp.mem_iff.mp he)]
  · have h1 : ∀ e ∈ l₁, e.1 ≠ k := fun e he hk => h ⟨e, he, hk⟩
    have h2 : ∀ e ∈ l₂, e.1 ≠ k := fun e he => h1 e (hp.mem_iff.mpr he)
    rw [find?_key_none h1, find?_key_none h2]

theorem insertKey_nodup (c : Cache) (k : CKey) (t : Template) (h : NoDupKeys c) : NoDupKeys (c.insertKey k t) := by
  unfold NoDupKeys Cache.insertKey at *
  rw [List.map_cons, List.nodup_cons]
  constructor
  · intro hm
    obtain ⟨e, he, hk⟩ := List.mem_map.mp hm
    have := (List.mem_filter.mp he).2
    simp at this; exact this hk
  · exact (List.filter_sublist.map _).nodup h

theorem insert_nodup (c : Cache) (a : Bytes) (id : Nat) (t : Template) (h : NoDupKeys c) :
    NoDupKeys (c.insert a id t) := insertKey_nodup c _ t h

/-! ## the insertion sort of `dumpJson` is a permutation -/

theorem insertSorted_perm (e : CKey × Template) (l : List (CKey × Template)) : (insertSorted e l).Perm (e :: l) := by
  induction l with
  | nil => exact List.Perm.refl _
  | cons x xs ih =>
    unfold insertSorted
    split
    · exact List.Perm.refl _
    · exact (List.Perm.cons x ih).trans (List.Perm.swap e x xs)

theorem sortEntries_perm (l : List (CKey × Template)) : (sortEntries l).Perm l := by
  induction l with
  | nil => exact List.Perm.refl _
  | cons x xs ih =>
    show (insertSorted x (sortEntries xs)).Perm (x :: xs)
    exact (insertSorted_perm x _).trans (List.Perm.cons x ih)

/-! ## loading: `foldl insertKey` over a list with distinct keys is lookup-equivalent to the list -/

theorem lookupKey_foldl_insertKey (l : Cache) (hnd : NoDupKeys l) :
    ∀ (acc : Cache) (k : CKey),
      Cache.lookupKey (l.foldl (fun c e => CacheFile.insertKey c e.1 e.2) acc) k =
        (match Cache.lookupKey l k with | some t => some t | none => Cache.lookupKey acc k) := by
  induction l with
  | nil => intro acc k; rfl
  | cons x xs ih =>
    intro acc k
    unfold NoDupKeys at hnd
    rw [List.map_cons, List.nodup_cons] at hnd
    rw [List.foldl_cons, ih hnd.2]
    have hins : CacheFile.insertKey acc x.1 x.2 = Cache.insertKey acc x.1 x.2 := rfl
    rw [hins, Cache.lookupKey_insertKey]
    by_cases hk : k = x.1
    · subst hk
      have : Cache.lookupKey xs x.1 = none := by
        unfold Cache.lookupKey
        rw [find?_key_none]; rfl
        intro e he hh; apply hnd.1; rw [← hh]; exact List.mem_map_of_mem he
      have h2 : Cache.lookupKey (x :: xs) x.1 = some x.2 := by simp [Cache.lookupKey, List.find?]
      rw [this, h2]; simp
    · have hk' : ¬ (x.1 = k) := fun h => hk h.symm
      have h2 : Cache.lookupKey (x :: xs) k = Cache.lookupKey xs k := by simp [Cache.lookupKey, List.find?, hk']
      rw [h2]; simp [hk]

end Vflow

namespace Vflow
open CacheFile

theorem flatMap_congr' {α β : Type} (l : List α) (f g : α → List β) (h : ∀ a ∈ l, f a = g a) :
    l.flatMap f = l.flatMap g := by
  induction l with
  | nil => rfl
  | cons a as ih =>
    simp only [List.flatMap_cons]
    rw [h a (List.mem_cons_self ..), ih (fun x hx => h x (List.mem_cons_of_mem _ hx))]

theorem perm_flatMap_left {α β : Type} (l : List α) (f g : α → List β) (h : ∀ a ∈ l, (f a).Perm (g a)) :
    (l.flatMap f).Perm (l.flatMap g) := by
  induction l with
  | nil => exact List.Perm.refl _
  | cons a as ih =>
    simp only [List.flatMap_cons]
    exact List.Perm.append (h a (List.mem_cons_self ..)) (ih (fun x hx => h x (List.mem_cons_of_mem _ hx)))

/-- adding `x` to exactly one bucket `j` of a bucket family adds it to the concatenation, up to permutation -/
theorem flatMap_insert_bucket {α : Type} (x : α) (g : Nat → List α) (j : Nat) :
    ∀ (l : List Nat), l.Nodup → j ∈ l →
      (l.flatMap fun i => if i = j then x :: g i else g i).Perm (x :: l.flatMap g) := by
  intro l
  induction l with
  | nil => intro _ h; cases h
  | cons a as ih =>
    intro hnd hj
    rw [List.nodup_cons] at hnd
    simp only [List.flatMap_cons]
    by_cases ha : a = j
    · subst ha
      have hrest : (as.flatMap fun i => if i = a then x :: g i else g i) = as.flatMap g := by
        apply flatMap_congr'
        intro i hi
        have : i ≠ a := fun h => hnd.1 (h ▸ hi)
        simp [this]
      simp [hrest]
    · have hj' : j ∈ as := by
        rcases List.mem_cons.mp hj with h | h
        · exact absurd h.symm ha
        · exact h
      simp only [ha, if_false]
      have := ih hnd.2 hj'
      exact (List.Perm.append_left (g a) this).trans (List.perm_middle)

/-- splitting a list into the buckets `0 … n-1` by shard index and concatenating the buckets is a permutation of the
entries whose shard index is below `n` -/
theorem buckets_perm (n : Nat) (c : Cache) :
    ((List.range n).flatMap fun i => c.filter fun e => e.1.1 = i).Perm (c.filter fun e => e.1.1 < n) := by
  induction c with
  | nil => simp
  | cons x xs ih =>
    by_cases hx : x.1.1 < n
    · have hj : x.1.1 ∈ List.range n := List.mem_range.mpr hx
      have hfun : (fun i => (x :: xs).filter fun e => e.1.1 = i) =
          fun i => if i = x.1.1 then x :: (xs.filter fun e => e.1.1 = i) else xs.filter fun e => e.1.1 = i := by
        funext i
        by_cases h : i = x.1.1
        · simp [List.filter, h]
        · have : ¬ (x.1.1 = i) := fun hh => h hh.symm
          simp [List.filter, h, this]
      rw [hfun]
      have hr : (x :: xs).filter (fun e => e.1.1 < n) = x :: xs.filter (fun e => e.1.1 < n) := by
        simp [List.filter, hx]
      rw [hr]
      exact (flatMap_insert_bucket x _ _ _ (List.nodup_range) hj).trans (List.Perm.cons x ih)
    · have hfun : ∀ i ∈ List.range n, ((x :: xs).filter fun e => e.1.1 = i) = xs.filter fun e => e.1.1 = i := by
        intro i hi
        have : ¬ (x.1.1 = i) := fun hh => hx (hh ▸ List.mem_range.mp hi)
        simp [List.filter, this]
      rw [flatMap_congr' _ _ _ hfun]
      have hr : (x :: xs).filter (fun e => e.1.1 < n) = xs.filter (fun e => e.1.1 < n) := by
        simp [List.filter, hx]
      rw [hr]
      exact ih

theorem docEntriesFrom_map (f : Nat → DocShard) : ∀ (n i : Nat),
    docEntriesFrom i ((List.range' i n).map f) = (List.range' i n).flatMap fun j => shardEntries j (f j)
  | 0, _ => rfl
  | n+1, i => by
    simp only [List.range'_succ, List.map_cons, docEntriesFrom, List.flatMap_cons]
    rw [docEntriesFrom_map f n (i + 1)]

/-- the entries of one shard of `docOf c`, put back under (shard, key text), are the sorted bucket itself
(the bucket's entries all carry the shard index `i`) -/
theorem shardEntries_docOf (l : List (CKey × Template)) (i : Nat) (h : ∀ e ∈ l, e.1.1 = i) :
    shardEntries i (some (some (l.map fun e => (e.1.2, e.2)))) = l := by
  simp only [shardEntries, List.map_map]
  have : ∀ e ∈ l, ((fun e : Bytes × Template => ((i, e.1), e.2)) ∘ fun e : CKey × Template => (e.1.2, e.2)) e = id e := by
    intro e he
    have := h e he
    obtain ⟨⟨s, k⟩, t⟩ := e
    simp only at this
    simp [this]
  rw [List.map_congr_left this, List.map_id]

/-- the entries of the document written for a cache are a permutation of the cache's entries (those of the shards
0 … 31: a cache built by `insert` / `loadDoc` has no others, `ShardsOk`) -/
theorem docEntries_docOf_perm (c : Cache) : (docEntries (docOf c)).Perm (c.filter fun e => e.1.1 < 32) := by
  unfold docEntries docOf
  simp only
  rw [List.range_eq_range', docEntriesFrom_map]
  rw [← List.range_eq_range']
  refine List.Perm.trans ?_ (buckets_perm 32 c)
  apply perm_flatMap_left
  intro i _
  have hb : ∀ e ∈ sortEntries (c.filter fun e => e.1.1 = i), e.1.1 = i := by
    intro e he
    have := (sortEntries_perm _).mem_iff.mp he
    simpa using (List.mem_filter.mp this).2
  rw [shardEntries_docOf _ i hb]
  exact sortEntries_perm _

theorem docUsable_docOf (c : Cache) : docUsable (docOf c) = true := by
  simp [docUsable, docOf]

end Vflow
