import Vflow.Model.Pipeline
/-!
# Buffer ownership in the pipeline (helper lemmas and the invariant behind C12)

`refs s b` counts the live references to receive buffer `b` (pool, read loop, UDP channel, workers,
mirror channel). The invariant `Inv` says: at most one reference per buffer, referenced buffers were
allocated, a buffer that travels with a datagram still contains it, every worker is at a program
point the `Canonical` checker accepted with an abstract state that describes its locals (`Sim`), and
everything on the MQ channel is a private copy of the solo result (`Sol`).
-/
namespace Vflow.Pipeline
open Vflow

variable {K : Codec}

/-! ## counting lemmas -/

theorem count_cons' (b x : BufId) (l : List BufId) : (b :: l).count x = l.count x + if b = x then 1 else 0 := by
  by_cases hx : b = x
  · subst hx; simp
  · have : (b == x) = false := by simpa using hx
    simp [hx]

theorem count_erase' {l : List BufId} {b} (h : b ∈ l) (x : BufId) :
    l.count x = (l.erase b).count x + (if b = x then 1 else 0) := by
  have := (List.perm_cons_erase h).count_eq x
  rw [this, count_cons']

def qcount (q : List (BufId × Dgram)) (b : BufId) : Nat := (q.map (·.1)).count b

theorem qcount_nil (b : BufId) : qcount [] b = 0 := rfl

theorem qcount_cons (p : BufId × Dgram) (q) (x : BufId) :
    qcount (p :: q) x = qcount q x + if p.1 = x then 1 else 0 := by
  simp only [qcount, List.map_cons, count_cons']

theorem qcount_append (q : List (BufId × Dgram)) (p : BufId × Dgram) (x : BufId) :
    qcount (q ++ [p]) x = qcount q x + if p.1 = x then 1 else 0 := by
  simp only [qcount, List.map_append, List.count_append, List.map_cons, List.map_nil, count_cons',
    List.count_nil, Nat.zero_add]

theorem qcount_pos {q : List (BufId × Dgram)} {b d} (h : (b, d) ∈ q) : 1 ≤ qcount q b :=
  List.count_pos_iff.mpr (List.mem_map.mpr ⟨(b, d), h, rfl⟩)

theorem sum_map_set {α} (f : α → Nat) : ∀ (l : List α) (i : Nat) (x y : α), l[i]? = some x →
    ((l.set i y).map f).sum + f x = (l.map f).sum + f y
  | [], i, x, y, h => by simp at h
  | a :: l, 0, x, y, h => by
      simp at h; subst h
      simp only [List.set_cons_zero, List.map_cons, List.sum_cons]; omega
  | a :: l, i+1, x, y, h => by
      simp at h
      have := sum_map_set f l i x y h
      simp only [List.set_cons_succ, List.map_cons, List.sum_cons]; omega

theorem sum_map_append_single {α} (f : α → Nat) (l : List α) (x : α) :
    ((l ++ [x]).map f).sum = (l.map f).sum + f x := by
  simp [List.sum_append]

/-! ## references -/

def wref (w : Worker K) (b : BufId) : Nat := if w.owns = true ∧ w.msg = some b then 1 else 0

def rxref : RxPhase → BufId → Nat
  | .idle, _ => 0
  | .got b, x => if b = x then 1 else 0
  | .read b _, x => if b = x then 1 else 0
  | .counted b _, x => if b = x then 1 else 0

def wsum (ws : List (Worker K)) (b : BufId) : Nat := (ws.map (fun w => wref w b)).sum

def refs (s : State K) (b : BufId) : Nat :=
  s.pool.count b + rxref s.rx b + qcount s.udpq b + wsum s.workers b + qcount s.mirq b

theorem wsum_set {ws : List (Worker K)} {i : Nat} {w : Worker K} (h : ws[i]? = some w) (w' : Worker K) (b : BufId) :
    wsum (ws.set i w') b + wref w b = wsum ws b + wref w' b :=
  sum_map_set (fun w => wref w b) ws i w w' h

theorem wsum_append (ws : List (Worker K)) (w : Worker K) (b : BufId) :
    wsum (ws ++ [w]) b = wsum ws b + wref w b :=
  sum_map_append_single (fun w => wref w b) ws w

theorem wref_le_wsum : ∀ {ws : List (Worker K)} {i : Nat} {w : Worker K}, ws[i]? = some w →
    ∀ b, wref w b ≤ wsum ws b
  | [], i, w, h, b => by simp at h
  | a :: l, 0, w, h, b => by
      simp at h; subst h; simp [wsum]
  | a :: l, i+1, w, h, b => by
      simp at h
      have := wref_le_wsum h b
      simp only [wsum, List.map_cons, List.sum_cons] at this ⊢; omega

/-! ## the solo result -/

/-- `p` is the solo result of the received datagram `id`: it was received, decoded once under some
cache `c`, and `p` is `marshal (decode c addr octets)` of ITS octets -/
def Sol (log : List (Event K)) (id : Nat) (p : Bytes) : Prop :=
  ∃ d c, Event.received d ∈ log ∧ d.id = id ∧
    Event.decoded id c (K.decode c d.addr d.bytes).1 ∈ log ∧
    outcome K (K.decode c d.addr d.bytes).1 = some p

theorem Sol.mono {l l' : List (Event K)} (h : ∀ e, e ∈ l → e ∈ l') {id p} : Sol l id p → Sol l' id p
  | ⟨d, c, h1, h2, h3, h4⟩ => ⟨d, c, h _ h1, h2, h _ h3, h4⟩

/-! ## worker simulation -/

/-- the abstract state `a` describes worker `w` in state `s` -/
structure Sim (s : State K) (w : Worker K) (a : Abs) : Prop where
  owns_eq : w.owns = a.owns
  cur_eq : w.cur.isSome = a.cur
  cur_recv : ∀ d, w.cur = some d → Event.received d ∈ s.log
  buf_ok : ∀ b d, w.owns = true → w.msg = some b → w.cur = some d → s.mem b = d.bytes
  owns_msg : w.owns = true → ∃ b, w.msg = some b
  clean : a.clean = true → w.enc = []
  decoded : a.decoded = true → ∃ d c, w.cur = some d ∧ w.dec = some (c, (K.decode c d.addr d.bytes).1) ∧
      Event.decoded d.id c (K.decode c d.addr d.bytes).1 ∈ s.log
  kmsg : ∀ x, a.kMsg = some x → a.decoded = true ∧ ∀ c r, w.dec = some (c, r) → r.isSome = x
  kdata : ∀ x, a.kData = some x → a.decoded = true ∧ ∀ c m, w.dec = some (c, some m) → K.hasData m = x
  marsh : a.marshalled = true → a.decoded = true ∧ ∃ c m, w.dec = some (c, some m) ∧
      match K.marshal m with
      | none => w.mar = .err
      | some p => if a.benc = true then w.mar = .okEnc ∧ w.enc = p else w.mar = .okVal p
  kmar : ∀ x, a.kMar = some x → a.marshalled = true ∧ ∀ c m, w.dec = some (c, some m) → (K.marshal m).isSome = x
  kyield : ∀ x, a.kYield = some x → a.decoded = true ∧ ∀ c r, w.dec = some (c, r) → (outcome K r).isSome = x
  cnt_dec : w.nDec = if a.decoded = true then 1 else 0
  cnt_cnt : w.nCnt = if a.counted = true then 1 else 0
  cnt_pub : w.nPub = if a.pubd = true then 1 else 0

/-- `Sim` only depends on the buffer the worker owns and on the (growing) log -/
theorem Sim.frame {s s' : State K} {w : Worker K} {a : Abs} (h : Sim s w a)
    (hm : ∀ b, w.owns = true → w.msg = some b → s'.mem b = s.mem b)
    (hl : ∀ e, e ∈ s.log → e ∈ s'.log) : Sim s' w a :=
  { h with
    cur_recv := fun d hd => hl _ (h.cur_recv d hd)
    buf_ok := fun b d ho hb hd => by rw [hm b ho hb]; exact h.buf_ok b d ho hb hd
    decoded := fun hd => by
      obtain ⟨d, c, h1, h2, h3⟩ := h.decoded hd
      exact ⟨d, c, h1, h2, hl _ h3⟩ }

/-- the per-worker invariant: halted (between iterations), or at a checked program point -/
def WInv (cfg : Cfg) (spec : CountSpec) (s : State K) (w : Worker K) : Prop :=
  (w.halted = true ∧ w.cur = none) ∨ ∃ a, Sim s w a ∧ check spec (headAbs cfg.prog) w.pc a = true

theorem WInv.frame {cfg : Cfg} {spec : CountSpec} {s s' : State K} {w : Worker K} (h : WInv cfg spec s w)
    (hm : ∀ b, w.owns = true → w.msg = some b → s'.mem b = s.mem b)
    (hl : ∀ e, e ∈ s.log → e ∈ s'.log) : WInv cfg spec s' w := by
  rcases h with h | ⟨a, h1, h2⟩
  · exact .inl h
  · exact .inr ⟨a, h1.frame hm hl, h2⟩

/-- the ownership invariant -/
structure Inv (cfg : Cfg) (spec : CountSpec) (s : State K) : Prop where
  uniq : ∀ b, refs s b ≤ 1
  fresh : ∀ b, 1 ≤ refs s b → b < s.next
  qmem : ∀ b d, (b, d) ∈ s.udpq → s.mem b = d.bytes ∧ Event.received d ∈ s.log
  mmem : ∀ b d, (b, d) ∈ s.mirq → s.mem b = d.bytes ∧ Event.received d ∈ s.log
  rxmem : ∀ b d, (s.rx = .read b d ∨ s.rx = .counted b d) → s.mem b = d.bytes ∧ Event.received d ∈ s.log
  wk : ∀ (i : Nat) (w : Worker K), s.workers[i]? = some w → WInv cfg spec s w
  mqOk : ∀ it, it ∈ s.mq → ∃ id p, it = .val id p ∧ Sol s.log id p
  delOk : ∀ id p, (id, p) ∈ s.delivered → Sol s.log id p
  pubOk : ∀ id p, Event.published id p ∈ s.log → Sol s.log id p
  mirOk : ∀ id p, Event.mirrored id p ∈ s.log → ∃ d, Event.received d ∈ s.log ∧ d.id = id ∧ p = d.bytes

end Vflow.Pipeline

namespace Vflow.Pipeline
variable {K : Codec}

theorem getElem?_append_single {α} {l : List α} {x w : α} {i : Nat} (h : (l ++ [x])[i]? = some w) :
    l[i]? = some w ∨ w = x := by
  rcases Nat.lt_or_ge i l.length with hl | hl
  · left; rwa [List.getElem?_append_left hl] at h
  · right
    rw [List.getElem?_append_right hl] at h
    cases hk : i - l.length with
    | zero => rw [hk] at h; simp at h; exact h.symm
    | succ k => rw [hk] at h; simp at h

theorem mem_cons_log {l : List (Event K)} (e0 : Event K) : ∀ e, e ∈ l → e ∈ e0 :: l :=
  fun _ h => List.mem_cons_of_mem _ h

theorem refs_zero_of_next {cfg : Cfg} {spec : CountSpec} {s : State K} (h : Inv cfg spec s) : refs s s.next = 0 := by
  by_cases hc : 1 ≤ refs s s.next
  · exact absurd (h.fresh s.next hc) (Nat.lt_irrefl _)
  · omega

/-- a buffer the worker owns is referenced -/
theorem wref_pos {w : Worker K} {b : BufId} (ho : w.owns = true) (hm : w.msg = some b) : wref w b = 1 := by
  simp [wref, ho, hm]

theorem init_inv (cfg : Cfg) (spec : CountSpec) (c : K.Cache) (mem0 : BufId → Bytes) : Inv cfg spec (init K c mem0) := by
  refine ⟨?_, ?_, ?_, ?_, ?_, ?_, ?_, ?_, ?_, ?_⟩ <;> simp [init, refs, rxref, qcount, wsum]

/-- the steps of the read loop, the mirror and the MQ consumer, and worker start -/
theorem step_inv_env {cfg : Cfg} {spec : CountSpec} (hc : Canonical spec cfg.prog) {s s' : State K}
    (h : Inv cfg spec s) (a : Action) (hw : ∀ i q mb, a ≠ .work i q mb) (hs : step cfg s a = some s') :
    Inv cfg spec s' := by
  cases a with
  | work i q mb => exact absurd rfl (hw i q mb)
  | spawn g =>
    simp only [step] at hs
    split at hs
    · rename_i hig
      split at hs
      · rename_i b
        split at hs
        · rename_i hb
          simp at hs; subst hs
          have key : ∀ x, refs { s with pool := s.pool.erase b, workers := s.workers ++ [{ pc := cfg.prog.loop, msg := some b, owns := true }] } x = refs s x := by
            intro x
            have := count_erase' hb x
            simp only [refs, wsum_append, wref, this]
            by_cases hx : b = x <;> simp [hx]
            omega
          refine ⟨fun x => by rw [key]; exact h.uniq x, fun x hx => by rw [key] at hx; exact h.fresh x hx,
            h.qmem, h.mmem, h.rxmem, ?_, h.mqOk, h.delOk, h.pubOk, h.mirOk⟩
          intro i w hi
          rcases getElem?_append_single hi with hi | rfl
          · exact (h.wk i w hi).frame (fun _ _ _ => rfl) (fun _ he => he)
          · refine .inr ⟨headAbs cfg.prog, ?_, hc⟩
            constructor <;> simp [headAbs, hig]
        · simp at hs
      · simp at hs; subst hs
        have hz := refs_zero_of_next h
        have key : ∀ x, refs { s with next := s.next + 1, workers := s.workers ++ [{ pc := cfg.prog.loop, msg := some s.next, owns := true }] } x = refs s x + (if s.next = x then 1 else 0) := by
          intro x
          simp only [refs, wsum_append, wref]
          by_cases hx : s.next = x <;> simp [hx]
          omega
        refine ⟨?_, ?_, h.qmem, h.mmem, h.rxmem, ?_, h.mqOk, h.delOk, h.pubOk, h.mirOk⟩
        · intro x; rw [key]
          by_cases hx : s.next = x
          · subst hx; simp [hz]
          · simp [hx]; exact h.uniq x
        · intro x hx; rw [key] at hx
          by_cases hx' : s.next = x
          · subst hx'; simp
          · simp only [if_neg hx', Nat.add_zero] at hx; exact Nat.lt_succ_of_lt (h.fresh x hx)
        · intro i w hi
          rcases getElem?_append_single hi with hi | rfl
          · exact (h.wk i w hi).frame (fun _ _ _ => rfl) (fun _ he => he)
          · refine .inr ⟨headAbs cfg.prog, ?_, hc⟩
            constructor <;> simp [headAbs, hig]
    · rename_i hig
      simp at hs; subst hs
      have key : ∀ x, refs { s with workers := s.workers ++ [{ pc := cfg.prog.loop }] } x = refs s x := by
        intro x; simp [refs, wsum_append, wref]
      refine ⟨fun x => by rw [key]; exact h.uniq x, fun x hx => by rw [key] at hx; exact h.fresh x hx,
        h.qmem, h.mmem, h.rxmem, ?_, h.mqOk, h.delOk, h.pubOk, h.mirOk⟩
      intro i w hi
      rcases getElem?_append_single hi with hi | rfl
      · exact (h.wk i w hi).frame (fun _ _ _ => rfl) (fun _ he => he)
      · refine .inr ⟨headAbs cfg.prog, ?_, hc⟩
        constructor <;> simp [headAbs, hig]
  | rxGetPool b =>
    simp only [step] at hs
    split at hs <;> try (simp at hs; done)
    rename_i hrx
    split at hs <;> simp at hs
    rename_i hb; subst hs
    have key : ∀ x, refs { s with pool := s.pool.erase b, rx := .got b } x = refs s x := by
      intro x
      have := count_erase' hb x
      simp only [refs, hrx, rxref, this]; omega
    exact ⟨fun x => by rw [key]; exact h.uniq x, fun x hx => by rw [key] at hx; exact h.fresh x hx,
      h.qmem, h.mmem, fun b d hh => by simp at hh, fun i w hi => (h.wk i w hi).frame (fun _ _ _ => rfl) (fun _ he => he),
      h.mqOk, h.delOk, h.pubOk, h.mirOk⟩
  | rxGetNew =>
    simp only [step] at hs
    split at hs <;> simp at hs
    rename_i hrx; subst hs
    have hz := refs_zero_of_next h
    have key : ∀ x, refs { s with next := s.next + 1, rx := .got s.next } x = refs s x + (if s.next = x then 1 else 0) := by
      intro x
      simp only [refs, hrx, rxref]; omega
    refine ⟨?_, ?_, h.qmem, h.mmem, fun b d hh => by simp at hh,
      fun i w hi => (h.wk i w hi).frame (fun _ _ _ => rfl) (fun _ he => he), h.mqOk, h.delOk, h.pubOk, h.mirOk⟩
    · intro x; rw [key]
      by_cases hx : s.next = x
      · subst hx; simp [hz]
      · simp [hx]; exact h.uniq x
    · intro x hx; rw [key] at hx
      by_cases hx' : s.next = x
      · subst hx'; simp
      · simp only [if_neg hx', Nat.add_zero] at hx; exact Nat.lt_succ_of_lt (h.fresh x hx)
  | rxRead dg =>
    simp only [step] at hs
    split at hs <;> try (simp at hs; done)
    rename_i b hrx
    split at hs
    · -- read error: the buffer is dropped
      simp at hs; subst hs
      have key : ∀ x, refs { s with rx := .idle } x ≤ refs s x := by
        intro x; simp only [refs, hrx, rxref]; omega
      exact ⟨fun x => Nat.le_trans (key x) (h.uniq x), fun x hx => h.fresh x (Nat.le_trans hx (key x)),
        h.qmem, h.mmem, fun b d hh => by simp at hh, fun i w hi => (h.wk i w hi).frame (fun _ _ _ => rfl) (fun _ he => he),
        h.mqOk, h.delOk, h.pubOk, h.mirOk⟩
    · rename_i addr bytes
      simp at hs; subst hs
      have key : ∀ x, refs { s with mem := (fun x => if x = b then bytes else s.mem x), rx := .read b ⟨s.nextId, addr, bytes⟩, nextId := s.nextId + 1, log := .received ⟨s.nextId, addr, bytes⟩ :: s.log } x = refs s x := by
        intro x; simp only [refs, hrx, rxref]
      have hrb : rxref s.rx b = 1 := by simp [hrx, rxref]
      have hl : ∀ e, e ∈ s.log → e ∈ Event.received ⟨s.nextId, addr, bytes⟩ :: s.log := mem_cons_log _
      refine ⟨fun x => by rw [key]; exact h.uniq x, fun x hx => by rw [key] at hx; exact h.fresh x hx,
        ?_, ?_, ?_, ?_, ?_, ?_, ?_, ?_⟩
      · intro b' d' hq
        have hne : b' ≠ b := by
          intro heq; subst heq
          have := h.uniq b'; have := qcount_pos hq; simp only [refs] at *; omega
        simp only [if_neg hne]
        exact ⟨(h.qmem b' d' hq).1, hl _ (h.qmem b' d' hq).2⟩
      · intro b' d' hq
        have hne : b' ≠ b := by
          intro heq; subst heq
          have := h.uniq b'; have := qcount_pos hq; simp only [refs] at *; omega
        simp only [if_neg hne]
        exact ⟨(h.mmem b' d' hq).1, hl _ (h.mmem b' d' hq).2⟩
      · intro b' d' hh
        simp at hh
        obtain ⟨rfl, rfl⟩ := hh
        simp
      · intro i w hi
        refine (h.wk i w hi).frame ?_ hl
        intro b' ho hm
        have hne : b' ≠ b := by
          intro heq; subst heq
          have := h.uniq b'; have := wref_le_wsum hi b'; have := wref_pos ho hm; simp only [refs] at *; omega
        simp only [if_neg hne]
      · intro it hit
        obtain ⟨id, p, h1, h2⟩ := h.mqOk it hit
        exact ⟨id, p, h1, h2.mono hl⟩
      · intro id p hd; exact (h.delOk id p hd).mono hl
      · intro id p hd
        simp at hd
        exact (h.pubOk id p hd).mono hl
      · intro id p hd
        simp at hd
        obtain ⟨d, h1, h2, h3⟩ := h.mirOk id p hd
        exact ⟨d, hl _ h1, h2, h3⟩
  | rxCount =>
    simp only [step] at hs
    split at hs <;> try (simp at hs; done)
    rename_i b d hrx
    simp at hs; subst hs
    have key : ∀ x, refs { s with rx := .counted b d, udpCount := s.udpCount + 1, log := .countUDP d.id :: s.log } x = refs s x := by
      intro x; simp only [refs, hrx, rxref]
    have hl : ∀ e, e ∈ s.log → e ∈ Event.countUDP d.id :: s.log := mem_cons_log _
    refine ⟨fun x => by rw [key]; exact h.uniq x, fun x hx => by rw [key] at hx; exact h.fresh x hx,
      fun b' d' hq => ⟨(h.qmem b' d' hq).1, hl _ (h.qmem b' d' hq).2⟩,
      fun b' d' hq => ⟨(h.mmem b' d' hq).1, hl _ (h.mmem b' d' hq).2⟩, ?_,
      fun i w hi => (h.wk i w hi).frame (fun _ _ _ => rfl) hl, ?_,
      fun id p hd => (h.delOk id p hd).mono hl, ?_, ?_⟩
    · intro b' d' hh
      simp at hh
      obtain ⟨rfl, rfl⟩ := hh
      have := h.rxmem b d (.inl hrx)
      exact ⟨this.1, hl _ this.2⟩
    · intro it hit
      obtain ⟨id, p, h1, h2⟩ := h.mqOk it hit
      exact ⟨id, p, h1, h2.mono hl⟩
    · intro id p hd
      simp at hd
      exact (h.pubOk id p hd).mono hl
    · intro id p hd
      simp at hd
      obtain ⟨d, h1, h2, h3⟩ := h.mirOk id p hd
      exact ⟨d, hl _ h1, h2, h3⟩
  | rxEnqueue =>
    simp only [step] at hs
    split at hs <;> try (simp at hs; done)
    rename_i b d hrx
    split at hs <;> simp at hs
    subst hs
    have key : ∀ x, refs { s with rx := .idle, udpq := s.udpq ++ [(b, d)] } x = refs s x := by
      intro x; simp only [refs, hrx, rxref, qcount_append]; omega
    refine ⟨fun x => by rw [key]; exact h.uniq x, fun x hx => by rw [key] at hx; exact h.fresh x hx,
      ?_, h.mmem, fun b d hh => by simp at hh, fun i w hi => (h.wk i w hi).frame (fun _ _ _ => rfl) (fun _ he => he),
      h.mqOk, h.delOk, h.pubOk, h.mirOk⟩
    intro b' d' hq
    simp only [List.mem_append, List.mem_singleton, Prod.mk.injEq] at hq
    rcases hq with hq | ⟨rfl, rfl⟩
    · exact h.qmem b' d' hq
    · exact h.rxmem b' d' (.inr hrx)
  | mirConsume =>
    simp only [step] at hs
    split at hs <;> try (simp at hs; done)
    rename_i b d q hq
    simp at hs; subst hs
    have key : ∀ x, refs { s with mirq := q, pool := b :: s.pool, log := .mirrored d.id (s.mem b) :: s.log } x = refs s x := by
      intro x; simp only [refs, hq, qcount_cons, count_cons']; omega
    have hl : ∀ e, e ∈ s.log → e ∈ Event.mirrored d.id (s.mem b) :: s.log := mem_cons_log _
    have hbd := h.mmem b d (by rw [hq]; simp)
    refine ⟨fun x => by rw [key]; exact h.uniq x, fun x hx => by rw [key] at hx; exact h.fresh x hx,
      fun b' d' hq' => ⟨(h.qmem b' d' hq').1, hl _ (h.qmem b' d' hq').2⟩,
      fun b' d' hq' => by
        have := h.mmem b' d' (by rw [hq]; exact List.mem_cons_of_mem _ hq')
        exact ⟨this.1, hl _ this.2⟩,
      fun b' d' hh => ⟨(h.rxmem b' d' hh).1, hl _ (h.rxmem b' d' hh).2⟩,
      fun i w hi => (h.wk i w hi).frame (fun _ _ _ => rfl) hl, ?_,
      fun id p hd => (h.delOk id p hd).mono hl, ?_, ?_⟩
    · intro it hit
      obtain ⟨id, p, h1, h2⟩ := h.mqOk it hit
      exact ⟨id, p, h1, h2.mono hl⟩
    · intro id p hd
      simp at hd
      exact (h.pubOk id p hd).mono hl
    · intro id p hd
      simp at hd
      rcases hd with ⟨rfl, rfl⟩ | hd
      · exact ⟨d, hl _ hbd.2, rfl, hbd.1⟩
      · obtain ⟨d', h1, h2, h3⟩ := h.mirOk id p hd
        exact ⟨d', hl _ h1, h2, h3⟩
  | mqConsume =>
    simp only [step] at hs
    split at hs <;> try (simp at hs; done)
    rename_i it q hq
    simp at hs; subst hs
    have key : ∀ x, refs { s with mq := q, delivered := resolve s it :: s.delivered } x = refs s x := by
      intro x; simp only [refs]
    refine ⟨fun x => by rw [key]; exact h.uniq x, fun x hx => by rw [key] at hx; exact h.fresh x hx,
      h.qmem, h.mmem, h.rxmem, fun i w hi => (h.wk i w hi).frame (fun _ _ _ => rfl) (fun _ he => he),
      fun it' hit => h.mqOk it' (by rw [hq]; exact List.mem_cons_of_mem _ hit), ?_, h.pubOk, h.mirOk⟩
    intro id p hd
    simp at hd
    rcases hd with hd | hd
    · obtain ⟨id', p', h1, h2⟩ := h.mqOk it (by rw [hq]; simp)
      subst h1
      simp [resolve] at hd
      obtain ⟨rfl, rfl⟩ := hd
      exact h2
    · exact h.delOk id p hd

end Vflow.Pipeline

namespace Vflow.Pipeline
variable {K : Codec}

theorem getElem?_set_cases {α} {l : List α} {i j : Nat} {x y : α} (h : (l.set i x)[j]? = some y) :
    (j = i ∧ y = x) ∨ (j ≠ i ∧ l[j]? = some y) := by
  by_cases hj : i = j
  · subst hj
    left
    rw [List.getElem?_set_self'] at h
    cases hl : l[i]? <;> simp [hl] at h
    exact ⟨rfl, h.symm⟩
  · right
    rw [List.getElem?_set_ne hj] at h
    exact ⟨fun e => hj e.symm, h⟩

/-- a referenced buffer is not in the pool twice / is allocated: helpers -/
theorem refs_ge_pool (s : State K) (x : BufId) : s.pool.count x ≤ refs s x := by simp only [refs]; omega

/-- generic preservation lemma for a step of worker `i` -/
theorem inv_worker_step {cfg : Cfg} {spec : CountSpec} {s s' : State K} (h : Inv cfg spec s)
    {i : Nat} {w w' : Worker K} (hi : s.workers[i]? = some w)
    (hW : s'.workers = s.workers.set i w')
    (hU : ∀ x, refs s' x ≤ 1) (hF : ∀ x, 1 ≤ refs s' x → x < s'.next)
    (hL : ∀ e, e ∈ s.log → e ∈ s'.log)
    (hM : ∀ x, s'.mem x ≠ s.mem x → 1 ≤ s.pool.count x ∨ s.next ≤ x)
    (hq : ∀ b d, (b, d) ∈ s'.udpq → (b, d) ∈ s.udpq)
    (hmi : ∀ b d, (b, d) ∈ s'.mirq → (b, d) ∈ s.mirq ∨ (s'.mem b = d.bytes ∧ Event.received d ∈ s'.log))
    (hrx : s'.rx = s.rx)
    (hw' : WInv cfg spec s' w')
    (hmq : ∀ it, it ∈ s'.mq → it ∈ s.mq ∨ ∃ id p, it = .val id p ∧ Sol s'.log id p)
    (hdel : s'.delivered = s.delivered)
    (hpub : ∀ id p, Event.published id p ∈ s'.log → Event.published id p ∈ s.log ∨ Sol s'.log id p)
    (hmir : ∀ id p, Event.mirrored id p ∈ s'.log → Event.mirrored id p ∈ s.log) :
    Inv cfg spec s' := by
  -- a buffer referenced outside the pool keeps its content
  have keep : ∀ x, 1 ≤ refs s x → s.pool.count x = 0 → s'.mem x = s.mem x := by
    intro x hx hp
    apply Classical.byContradiction
    intro hne
    rcases hM x hne with h1 | h1
    · omega
    · exact absurd (h.fresh x hx) (Nat.not_lt.mpr h1)
  refine ⟨hU, hF, ?_, ?_, ?_, ?_, ?_, ?_, ?_, ?_⟩
  · intro b d hbd
    have hbd' := hq b d hbd
    have h1 := h.qmem b d hbd'
    have hc := qcount_pos hbd'
    have hu := h.uniq b
    rw [keep b (by simp only [refs]; omega) (by simp only [refs] at hu; omega)]
    exact ⟨h1.1, hL _ h1.2⟩
  · intro b d hbd
    rcases hmi b d hbd with hbd' | hnew
    · have h1 := h.mmem b d hbd'
      have hc := qcount_pos hbd'
      have hu := h.uniq b
      rw [keep b (by simp only [refs]; omega) (by simp only [refs] at hu; omega)]
      exact ⟨h1.1, hL _ h1.2⟩
    · exact hnew
  · intro b d hbd
    rw [hrx] at hbd
    have h1 := h.rxmem b d hbd
    have hc : rxref s.rx b = 1 := by rcases hbd with e | e <;> simp [e, rxref]
    have hu := h.uniq b
    rw [keep b (by simp only [refs]; omega) (by simp only [refs] at hu; omega)]
    exact ⟨h1.1, hL _ h1.2⟩
  · intro j x hj
    rw [hW] at hj
    rcases getElem?_set_cases hj with ⟨_, rfl⟩ | ⟨_, hj'⟩
    · exact hw'
    · refine (h.wk j x hj').frame ?_ hL
      intro b ho hm
      have hc := wref_le_wsum hj' b
      rw [wref_pos ho hm] at hc
      have hu := h.uniq b
      exact keep b (by simp only [refs]; omega) (by simp only [refs] at hu; omega)
  · intro it hit
    rcases hmq it hit with h1 | h1
    · obtain ⟨id, p, e, hsol⟩ := h.mqOk it h1
      exact ⟨id, p, e, hsol.mono hL⟩
    · exact h1
  · intro id p hd
    rw [hdel] at hd
    exact (h.delOk id p hd).mono hL
  · intro id p hd
    rcases hpub id p hd with h1 | h1
    · exact (h.pubOk id p h1).mono hL
    · exact h1
  · intro id p hd
    obtain ⟨d, h1, h2, h3⟩ := h.mirOk id p (hmir id p hd)
    exact ⟨d, hL _ h1, h2, h3⟩

end Vflow.Pipeline

namespace Vflow.Pipeline
variable {K : Codec}

theorem wref_of_not_owns {w : Worker K} (h : w.owns = false) (x : BufId) : wref w x = 0 := by simp [wref, h]

/-- refs after replacing worker `i` -/
theorem refs_setW {s : State K} {i : Nat} {w : Worker K} (hi : s.workers[i]? = some w) (w' : Worker K) (x : BufId) :
    refs (s.setW i w') x + wref w x = refs s x + wref w' x := by
  have := wsum_set hi w' x
  simp only [refs, State.setW]; omega

section
variable {cfg : Cfg} {spec : CountSpec} {s : State K} {i : Nat} {w : Worker K}

/-- steps that only touch worker `i`'s locals (same buffer reference or fewer) and append to the log -/
theorem inv_local (h : Inv cfg spec s) (hi : s.workers[i]? = some w) (w' : Worker K) (s' : State K)
    (hW : s'.workers = s.workers.set i w')
    (hsame : s'.pool = s.pool ∧ s'.rx = s.rx ∧ s'.udpq = s.udpq ∧ s'.mirq = s.mirq ∧ s'.mem = s.mem ∧
      s'.next = s.next ∧ s'.mq = s.mq ∧ s'.delivered = s.delivered)
    (hle : ∀ x, wref w' x ≤ wref w x)
    (hL : ∀ e, e ∈ s.log → e ∈ s'.log)
    (hw' : WInv cfg spec s' w')
    (hpub : ∀ id p, Event.published id p ∈ s'.log → Event.published id p ∈ s.log)
    (hmir : ∀ id p, Event.mirrored id p ∈ s'.log → Event.mirrored id p ∈ s.log) :
    Inv cfg spec s' := by
  obtain ⟨h1, h2, h3, h4, h5, h6, h7, h8⟩ := hsame
  have key : ∀ x, refs s' x ≤ refs s x := by
    intro x
    have := wsum_set hi w' x
    have := hle x
    simp only [refs, h1, h2, h3, h4, hW]; omega
  refine inv_worker_step h hi hW (fun x => Nat.le_trans (key x) (h.uniq x))
    (fun x hx => by rw [h6]; exact h.fresh x (Nat.le_trans hx (key x))) hL
    (fun x hx => by rw [h5] at hx; exact absurd rfl hx) (fun b d hb => by rwa [h3] at hb)
    (fun b d hb => by rw [h4] at hb; exact .inl hb) h2 hw' (fun it hit => by rw [h7] at hit; exact .inl hit) h8
    (fun id p hp => .inl (hpub id p hp)) hmir

end
end Vflow.Pipeline
