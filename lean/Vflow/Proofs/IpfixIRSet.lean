import Vflow.Proofs.IpfixIRTpl
import Vflow.Proofs.AllocIpfix
/-!
# The translated `Decoder.decodeSet` is `Ipfix.decodeSet`

`setIter` is one round of the model's record loop; `ds_body9` relates the translated loop body to it for each kind of
set id (template / options template records with the padding test, reserved ids, id 0, data records with the
zero-length rule and the non-fatal / fatal split of `decodeData`'s errors); `ds_loop9` is the loop lemma — by induction
on the interpreter's fuel with the model's fuel carried along, both only required to exceed the octets left (a round
that continues consumes at least one octet) —, `ds_pre1` / `ds_pre2` the statements in front of the loop (header,
length test, template lookup, `minLen`), `ds_tail` the leftover skip with its 16-bit wrap-around.
-/
set_option linter.unusedSimpArgs false
namespace Vflow.IpfixIR
open Vflow
attribute [local irreducible] Vflow.lookupElem

/-! ## `decodeSet` -/

def ds (i : Nat) : Stmt := Gen.IpfixIR.decodeSet.body.nth i
theorem ds_body : Gen.IpfixIR.decodeSet.body =
    blk [ds 0, ds 1, ds 2, ds 3, ds 4, ds 5, ds 6, ds 7, ds 8, ds 9, ds 10, ds 11, ds 12] := rfl
theorem ds9_shape : ds 9 = .loop (ds 9).loopCond (ds 9).loopBody .skip := rfl

/-- one round of `Ipfix.setLoop` (after the loop condition) -/
inductive IterOut where
  | cont (st : Ipfix.St)
  | stop (st : Ipfix.St) (e : Option Err) (direct : Bool)

def setIter (ctx : Ipfix.Ctx) (st : Ipfix.St) : IterOut :=
  if ctx.setId = 2 ∨ ctx.setId = 3 then
    if st.r.peek16 = some 0 then .stop st none false else
    match (if ctx.setId = 2 then Ipfix.parseTpl st.r else Ipfix.parseOptTpl st.r) with
    | (.ok t, r') => .cont { st with r := r', cache := st.cache.insert ctx.addr t.tid t }
    | (.error e, r') => .stop { st with r := r' } (some e) false
  else if 4 ≤ ctx.setId ∧ ctx.setId ≤ 255 then .stop st none false
  else if ctx.setId = 0 then .stop st (some .invalidSet) true
  else
    match Ipfix.decodeData ctx.tr st.r with
    | (.ok fs, r') =>
      if r'.cnt = st.r.cnt then .stop { st with r := r' } (some .zeroRec) false
      else .cont { st with r := r', recs := st.recs ++ [fs] }
    | (.error e, r') =>
      if Ipfix.nonfatalErr e then .stop { st with r := r' } (some e) false else .stop { st with r := r' } (some e) true

theorem setLoop_succ (ctx : Ipfix.Ctx) (k : Nat) (st : Ipfix.St) :
    Ipfix.setLoop ctx (k + 1) st =
      if Ipfix.contCond ctx st.r then
        match setIter ctx st with
        | .cont st' => Ipfix.setLoop ctx k st'
        | .stop st' e d => (st', e, d)
      else (st, none, false) := by
  rw [Ipfix.setLoop]
  unfold setIter
  by_cases hc : Ipfix.contCond ctx st.r = true
  · simp only [hc, if_true]
    by_cases h23 : ctx.setId = 2 ∨ ctx.setId = 3
    · simp only [h23, if_true]
      by_cases hp : st.r.peek16 = some 0
      · simp only [hp, if_true]
      · simp only [hp, if_false]
        generalize (if ctx.setId = 2 then Ipfix.parseTpl st.r else Ipfix.parseOptTpl st.r) = p
        rcases p with ⟨e | t, r'⟩ <;> rfl
    · simp only [h23, if_false]
      by_cases h4 : 4 ≤ ctx.setId ∧ ctx.setId ≤ 255
      · simp only [h4, and_self, if_true]
      · simp only [h4, if_false]
        by_cases h0 : ctx.setId = 0
        · simp only [h0, if_true]
        · simp only [h0, if_false]
          generalize Ipfix.decodeData ctx.tr st.r = p
          rcases p with ⟨e | fs, r'⟩
          · simp only []
            by_cases hn : Ipfix.nonfatalErr e = true <;> simp only [hn, if_true, if_false] <;> simp
          · simp only []
            by_cases hz : r'.cnt = st.r.cnt <;> simp only [hz, if_true, if_false]
  · simp only [hc, if_false]; simp

section
variable (addr : Bytes) (fuel : Nat)

abbrev dsLink : Linkage :=
  [("setHeaderUnmarshal", IpfixProg.setHeaderUnmarshal addr fuel), ("minRecordLen", IpfixProg.minRecordLen addr fuel),
   ("tplRecordUnmarshal", IpfixProg.tplRecordUnmarshal addr fuel), ("tplRecordUnmarshalOpts", IpfixProg.tplRecordUnmarshalOpts addr fuel),
   ("decodeData", IpfixProg.decodeData addr fuel)]

/-- the decoder state of the IR for a model state -/
abbrev S (st : Ipfix.St) : St := ⟨st.r, st.cache⟩

/-- the locals of `decodeSet` while the record loop runs: `msg`, `startCount`, `setHeader`, the header `err` (nil), `tr`,
`err`, `ok`, `minLen`, then `setID`, `templateID`, its `err`, the inner `tr`, `data`, `recordStart` (dead between
rounds), `leftoverBytes` and `skipErr` (not yet declared) -/
abbrev dsEnv (agent : Bytes) (hdr : MHdr) (recs : List Record) (ctx : Ipfix.Ctx) (err ok j8 j9 j10 j11 j12 j13 : V) : Env :=
  [.msg agent hdr recs, .int ctx.start, .shdr ctx.setId ctx.len, .nil, .tpl ctx.tr, err, ok, .int (Ipfix.minLeft ctx),
   j8, j9, j10, j11, j12, j13, .unset, .unset]

/-- a `return`: the results, the decoder state and the by-pointer `msg` in slot 0 (the other locals are dead) -/
def RetOut (out : Res) (vs : List V) (s : St) (m : V) : Prop :=
  out.map (fun p => (p.1, p.2.1, p.2.2[0]?)) = some (.ret vs, s, some m)

/-- outcome of the translated loop body for one round of the model -/
def DsBodyOut (agent : Bytes) (hdr : MHdr) (ctx : Ipfix.Ctx) (ok : V) (it : IterOut) (out : Res) : Prop :=
  match it with
  | .cont st' => ∃ j8 j9 j10 j11 j12 j13,
      out = some (.norm, S st', dsEnv agent hdr st'.recs ctx .nil ok j8 j9 j10 j11 j12 j13)
  | .stop st' none d => d = false ∧ ∃ j8 j9 j10 j11 j12 j13,
      out = some (.brk, S st', dsEnv agent hdr st'.recs ctx .nil ok j8 j9 j10 j11 j12 j13)
  | .stop st' (some e) false => ∃ j8 j9 j10 j11 j12 j13,
      out = some (.brk, S st', dsEnv agent hdr st'.recs ctx (IpfixProg.errV (some e)) ok j8 j9 j10 j11 j12 j13) ∨
      out = some (.norm, S st', dsEnv agent hdr st'.recs ctx (IpfixProg.errV (some e)) ok j8 j9 j10 j11 j12 j13)
  | .stop st' (some e) true => RetOut out [IpfixProg.errV (some e)] (S st') (.msg agent hdr st'.recs)

theorem ds_body9_reserved (agent : Bytes) (hdr : MHdr) (ctx : Ipfix.Ctx) (st : Ipfix.St) (ok j8 j9 j10 j11 j12 j13 : V)
    (h : 4 ≤ ctx.setId ∧ ctx.setId ≤ 255) :
    DsBodyOut agent hdr ctx ok (setIter ctx st)
      (exec addr (dsLink addr fuel) fuel (ds 9).loopBody (S st) (dsEnv agent hdr st.recs ctx .nil ok j8 j9 j10 j11 j12 j13)) := by
  have h2 : ctx.setId ≠ 2 := by omega
  have h3 : ctx.setId ≠ 3 := by omega
  simp only [setIter, h2, h3, or_self, if_false, h, and_self, if_true, DsBodyOut, true_and]
  refine ⟨.int ctx.setId, j9, j10, j11, j12, j13, ?_⟩
  ir_simp [ds, Stmt.nth, Stmt.items, Stmt.loopBody, Gen.IpfixIR.decodeSet, h2, h3, h.1, h.2]

theorem ds_body9_zero (agent : Bytes) (hdr : MHdr) (ctx : Ipfix.Ctx) (st : Ipfix.St) (ok j8 j9 j10 j11 j12 j13 : V)
    (h : ctx.setId = 0) :
    DsBodyOut agent hdr ctx ok (setIter ctx st)
      (exec addr (dsLink addr fuel) fuel (ds 9).loopBody (S st) (dsEnv agent hdr st.recs ctx .nil ok j8 j9 j10 j11 j12 j13)) := by
  have e : setIter ctx st = .stop st (some .invalidSet) true := by simp [setIter, h]
  simp only [e, DsBodyOut, RetOut]
  ir_simp [ds, Stmt.nth, Stmt.items, Stmt.loopBody, Gen.IpfixIR.decodeSet, h, IpfixProg.errV, Ipfix.nonfatalErr, Err.nonfatal]

theorem ds_body9_tpl2 (agent : Bytes) (hdr : MHdr) (ctx : Ipfix.Ctx) (st : Ipfix.St) (ok j8 j9 j10 j11 j12 j13 : V)
    (h : ctx.setId = 2) (haddr : ctx.addr = addr) (hfuel : st.r.rem.length < fuel) :
    DsBodyOut agent hdr ctx ok (setIter ctx st)
      (exec addr (dsLink addr fuel) fuel (ds 9).loopBody (S st) (dsEnv agent hdr st.recs ctx .nil ok j8 j9 j10 j11 j12 j13)) := by
  have ht := tplRecordUnmarshal_sem addr fuel st.r st.cache hfuel
  rcases hp : st.r.peek16 with _ | v
  · rcases hpt : Ipfix.parseTpl st.r with ⟨e | t, r'⟩
    · have he := Ipfix.parseTpl_err hpt; subst he
      simp only [hpt, TplOut, Ipfix.emptyTpl] at ht
      obtain ⟨t', ht⟩ := ht
      have e : setIter ctx st = .stop { st with r := r' } (some .short) false := by simp [setIter, h, hp, hpt]
      simp only [e, DsBodyOut]
      refine ⟨.int 2, .int 0, errReader, .tpl t', j12, j13, Or.inr ?_⟩
      ir_simp [ds, Stmt.nth, Stmt.items, Stmt.loopBody, Gen.IpfixIR.decodeSet, h, hp, ht, Ipfix.emptyTpl, IpfixProg.errV, Ipfix.nonfatalErr, Err.nonfatal]
    · simp only [hpt, TplOut, Ipfix.emptyTpl] at ht
      have e : setIter ctx st = .cont { st with r := r', cache := st.cache.insert ctx.addr t.tid t } := by simp [setIter, h, hp, hpt]
      simp only [e, DsBodyOut]
      refine ⟨.int 2, .int 0, errReader, .tpl t, j12, j13, ?_⟩
      ir_simp [ds, Stmt.nth, Stmt.items, Stmt.loopBody, Gen.IpfixIR.decodeSet, h, hp, ht, Ipfix.emptyTpl, haddr]
  · by_cases hv : v = 0
    · subst hv
      have e : setIter ctx st = .stop st none false := by simp [setIter, h, hp]
      simp only [e, DsBodyOut, true_and]
      refine ⟨.int 2, .int 0, .nil, j11, j12, j13, ?_⟩
      ir_simp [ds, Stmt.nth, Stmt.items, Stmt.loopBody, Gen.IpfixIR.decodeSet, h, hp]
    · rcases hpt : Ipfix.parseTpl st.r with ⟨e | t, r'⟩
      · have he := Ipfix.parseTpl_err hpt; subst he
        simp only [hpt, TplOut, Ipfix.emptyTpl] at ht
        obtain ⟨t', ht⟩ := ht
        have e : setIter ctx st = .stop { st with r := r' } (some .short) false := by simp [setIter, h, hp, hpt, hv]
        simp only [e, DsBodyOut]
        refine ⟨.int 2, .int v, .nil, .tpl t', j12, j13, Or.inr ?_⟩
        ir_simp [ds, Stmt.nth, Stmt.items, Stmt.loopBody, Gen.IpfixIR.decodeSet, h, hp, hv, ht, Ipfix.emptyTpl, IpfixProg.errV, Ipfix.nonfatalErr, Err.nonfatal]
      · simp only [hpt, TplOut, Ipfix.emptyTpl] at ht
        have e : setIter ctx st = .cont { st with r := r', cache := st.cache.insert ctx.addr t.tid t } := by simp [setIter, h, hp, hpt, hv]
        simp only [e, DsBodyOut]
        refine ⟨.int 2, .int v, .nil, .tpl t, j12, j13, ?_⟩
        ir_simp [ds, Stmt.nth, Stmt.items, Stmt.loopBody, Gen.IpfixIR.decodeSet, h, hp, hv, ht, Ipfix.emptyTpl, haddr]

theorem ds_body9_tpl3 (agent : Bytes) (hdr : MHdr) (ctx : Ipfix.Ctx) (st : Ipfix.St) (ok j8 j9 j10 j11 j12 j13 : V)
    (h : ctx.setId = 3) (haddr : ctx.addr = addr) (hfuel : st.r.rem.length < fuel) :
    DsBodyOut agent hdr ctx ok (setIter ctx st)
      (exec addr (dsLink addr fuel) fuel (ds 9).loopBody (S st) (dsEnv agent hdr st.recs ctx .nil ok j8 j9 j10 j11 j12 j13)) := by
  have ht := tplRecordUnmarshalOpts_sem addr fuel st.r st.cache hfuel
  rcases hp : st.r.peek16 with _ | v
  · rcases hpt : Ipfix.parseOptTpl st.r with ⟨e | t, r'⟩
    · have he := Ipfix.parseOptTpl_err hpt; subst he
      simp only [hpt, TplOut, Ipfix.emptyTpl] at ht
      obtain ⟨t', ht⟩ := ht
      have e : setIter ctx st = .stop { st with r := r' } (some .short) false := by simp [setIter, h, hp, hpt]
      simp only [e, DsBodyOut]
      refine ⟨.int 3, .int 0, errReader, .tpl t', j12, j13, Or.inr ?_⟩
      ir_simp [ds, Stmt.nth, Stmt.items, Stmt.loopBody, Gen.IpfixIR.decodeSet, h, hp, ht, Ipfix.emptyTpl, IpfixProg.errV, Ipfix.nonfatalErr, Err.nonfatal]
    · simp only [hpt, TplOut, Ipfix.emptyTpl] at ht
      have e : setIter ctx st = .cont { st with r := r', cache := st.cache.insert ctx.addr t.tid t } := by simp [setIter, h, hp, hpt]
      simp only [e, DsBodyOut]
      refine ⟨.int 3, .int 0, errReader, .tpl t, j12, j13, ?_⟩
      ir_simp [ds, Stmt.nth, Stmt.items, Stmt.loopBody, Gen.IpfixIR.decodeSet, h, hp, ht, Ipfix.emptyTpl, haddr]
  · by_cases hv : v = 0
    · subst hv
      have e : setIter ctx st = .stop st none false := by simp [setIter, h, hp]
      simp only [e, DsBodyOut, true_and]
      refine ⟨.int 3, .int 0, .nil, j11, j12, j13, ?_⟩
      ir_simp [ds, Stmt.nth, Stmt.items, Stmt.loopBody, Gen.IpfixIR.decodeSet, h, hp]
    · rcases hpt : Ipfix.parseOptTpl st.r with ⟨e | t, r'⟩
      · have he := Ipfix.parseOptTpl_err hpt; subst he
        simp only [hpt, TplOut, Ipfix.emptyTpl] at ht
        obtain ⟨t', ht⟩ := ht
        have e : setIter ctx st = .stop { st with r := r' } (some .short) false := by simp [setIter, h, hp, hpt, hv]
        simp only [e, DsBodyOut]
        refine ⟨.int 3, .int v, .nil, .tpl t', j12, j13, Or.inr ?_⟩
        ir_simp [ds, Stmt.nth, Stmt.items, Stmt.loopBody, Gen.IpfixIR.decodeSet, h, hp, hv, ht, Ipfix.emptyTpl, IpfixProg.errV, Ipfix.nonfatalErr, Err.nonfatal]
      · simp only [hpt, TplOut, Ipfix.emptyTpl] at ht
        have e : setIter ctx st = .cont { st with r := r', cache := st.cache.insert ctx.addr t.tid t } := by simp [setIter, h, hp, hpt, hv]
        simp only [e, DsBodyOut]
        refine ⟨.int 3, .int v, .nil, .tpl t, j12, j13, ?_⟩
        ir_simp [ds, Stmt.nth, Stmt.items, Stmt.loopBody, Gen.IpfixIR.decodeSet, h, hp, hv, ht, Ipfix.emptyTpl, haddr]

theorem ds_body9_data1 (agent : Bytes) (hdr : MHdr) (ctx : Ipfix.Ctx) (st : Ipfix.St) (ok j8 j9 j10 j11 j12 j13 : V)
    (h : ctx.setId = 1) (hs : ctx.tr.scope.length < fuel) (hf : ctx.tr.fields.length < fuel) :
    DsBodyOut agent hdr ctx ok (setIter ctx st)
      (exec addr (dsLink addr fuel) fuel (ds 9).loopBody (S st) (dsEnv agent hdr st.recs ctx .nil ok j8 j9 j10 j11 j12 j13)) := by
  have hdd := decodeData_sem addr fuel st.r st.cache ctx.tr hs hf
  have h2 : ctx.setId ≠ 2 := by omega
  have h3 : ctx.setId ≠ 3 := by omega
  have h0 : ctx.setId ≠ 0 := by omega
  have h4 : ¬ (4 ≤ ctx.setId) := by omega
  rcases hd : Ipfix.decodeData ctx.tr st.r with ⟨e | fs, r'⟩
  · simp only [hd, IpfixProg.recResult] at hdd
    by_cases hn : Ipfix.nonfatalErr e = true
    · have e' : setIter ctx st = .stop { st with r := r' } (some e) false := by simp [setIter, h2, h3, h0, h4, hd, hn]
      simp only [e', DsBodyOut]
      refine ⟨.int ctx.setId, j9, j10, j11, .nil, .int st.r.cnt, Or.inr ?_⟩
      ir_simp [ds, Stmt.nth, Stmt.items, Stmt.loopBody, Gen.IpfixIR.decodeSet, h2, h3, h0, h4, hdd, hn, IpfixProg.errV]
    · have e' : setIter ctx st = .stop { st with r := r' } (some e) true := by simp [setIter, h2, h3, h0, h4, hd, hn]
      simp only [e', DsBodyOut, RetOut]
      ir_simp [ds, Stmt.nth, Stmt.items, Stmt.loopBody, Gen.IpfixIR.decodeSet, h2, h3, h0, h4, hdd, hn, IpfixProg.errV]
  · simp only [hd, IpfixProg.recResult] at hdd
    by_cases hz : r'.cnt = st.r.cnt
    · have e' : setIter ctx st = .stop { st with r := r' } (some .zeroRec) false := by simp [setIter, h2, h3, h0, h4, hd, hz]
      simp only [e', DsBodyOut]
      refine ⟨.int ctx.setId, j9, j10, j11, .drec fs, .int st.r.cnt, Or.inl ?_⟩
      ir_simp [ds, Stmt.nth, Stmt.items, Stmt.loopBody, Gen.IpfixIR.decodeSet, h2, h3, h0, h4, hdd, hz, IpfixProg.errV, Ipfix.nonfatalErr, Err.nonfatal]
    · have e' : setIter ctx st = .cont { st with r := r', recs := st.recs ++ [fs] } := by simp [setIter, h2, h3, h0, h4, hd, hz]
      simp only [e', DsBodyOut]
      refine ⟨.int ctx.setId, j9, j10, j11, .drec fs, .int st.r.cnt, ?_⟩
      ir_simp [ds, Stmt.nth, Stmt.items, Stmt.loopBody, Gen.IpfixIR.decodeSet, h2, h3, h0, h4, hdd, hz]

theorem ds_body9_dataBig (agent : Bytes) (hdr : MHdr) (ctx : Ipfix.Ctx) (st : Ipfix.St) (ok j8 j9 j10 j11 j12 j13 : V)
    (h : ctx.setId > 255) (hs : ctx.tr.scope.length < fuel) (hf : ctx.tr.fields.length < fuel) :
    DsBodyOut agent hdr ctx ok (setIter ctx st)
      (exec addr (dsLink addr fuel) fuel (ds 9).loopBody (S st) (dsEnv agent hdr st.recs ctx .nil ok j8 j9 j10 j11 j12 j13)) := by
  have hdd := decodeData_sem addr fuel st.r st.cache ctx.tr hs hf
  have h2 : ctx.setId ≠ 2 := by omega
  have h3 : ctx.setId ≠ 3 := by omega
  have h0 : ctx.setId ≠ 0 := by omega
  have h4 : 4 ≤ ctx.setId := by omega
  have h5 : ¬ (ctx.setId ≤ 255) := by omega
  rcases hd : Ipfix.decodeData ctx.tr st.r with ⟨e | fs, r'⟩
  · simp only [hd, IpfixProg.recResult] at hdd
    by_cases hn : Ipfix.nonfatalErr e = true
    · have e' : setIter ctx st = .stop { st with r := r' } (some e) false := by simp [setIter, h2, h3, h0, h4, h5, hd, hn]
      simp only [e', DsBodyOut]
      refine ⟨.int ctx.setId, j9, j10, j11, .nil, .int st.r.cnt, Or.inr ?_⟩
      ir_simp [ds, Stmt.nth, Stmt.items, Stmt.loopBody, Gen.IpfixIR.decodeSet, h2, h3, h0, h4, h5, hdd, hn, IpfixProg.errV]
    · have e' : setIter ctx st = .stop { st with r := r' } (some e) true := by simp [setIter, h2, h3, h0, h4, h5, hd, hn]
      simp only [e', DsBodyOut, RetOut]
      ir_simp [ds, Stmt.nth, Stmt.items, Stmt.loopBody, Gen.IpfixIR.decodeSet, h2, h3, h0, h4, h5, hdd, hn, IpfixProg.errV]
  · simp only [hd, IpfixProg.recResult] at hdd
    by_cases hz : r'.cnt = st.r.cnt
    · have e' : setIter ctx st = .stop { st with r := r' } (some .zeroRec) false := by simp [setIter, h2, h3, h0, h4, h5, hd, hz]
      simp only [e', DsBodyOut]
      refine ⟨.int ctx.setId, j9, j10, j11, .drec fs, .int st.r.cnt, Or.inl ?_⟩
      ir_simp [ds, Stmt.nth, Stmt.items, Stmt.loopBody, Gen.IpfixIR.decodeSet, h2, h3, h0, h4, h5, hdd, hz, IpfixProg.errV, Ipfix.nonfatalErr, Err.nonfatal]
    · have e' : setIter ctx st = .cont { st with r := r', recs := st.recs ++ [fs] } := by simp [setIter, h2, h3, h0, h4, h5, hd, hz]
      simp only [e', DsBodyOut]
      refine ⟨.int ctx.setId, j9, j10, j11, .drec fs, .int st.r.cnt, ?_⟩
      ir_simp [ds, Stmt.nth, Stmt.items, Stmt.loopBody, Gen.IpfixIR.decodeSet, h2, h3, h0, h4, h5, hdd, hz]

theorem ds9_cond_nil (agent : Bytes) (hdr : MHdr) (recs : List Record) (ctx : Ipfix.Ctx) (r : Rd) (c : Cache) (ok j8 j9 j10 j11 j12 j13 : V)
    (hstart : ctx.start ≤ r.cnt) :
    eval addr ⟨r, c⟩ (dsEnv agent hdr recs ctx .nil ok j8 j9 j10 j11 j12 j13) (ds 9).loopCond =
      some (.bool (Ipfix.contCond ctx r)) := by
  have hs1 := subV_int r.cnt ctx.start hstart
  have hs2 := subAt_u16_lt ctx.len ((r.cnt - ctx.start) % 65536) (Nat.mod_lt _ (by decide))
  unfold Ipfix.contCond Ipfix.consumed16
  by_cases hA : ctx.len > (r.cnt - ctx.start) % 65536 <;> by_cases hB : r.rem.length ≥ Ipfix.minLeft ctx <;>
    by_cases hC : (ctx.len + 65536 - (r.cnt - ctx.start) % 65536) % 65536 ≥ Ipfix.minLeft ctx <;>
    ir_simp [ds, Stmt.nth, Stmt.items, Stmt.loopCond, Gen.IpfixIR.decodeSet, hs1, hs2, hA, hB, hC]

theorem ds9_cond_err (agent : Bytes) (hdr : MHdr) (recs : List Record) (ctx : Ipfix.Ctx) (st : St) (g : GErr) (ok j8 j9 j10 j11 j12 j13 : V) :
    eval addr st (dsEnv agent hdr recs ctx (.err g) ok j8 j9 j10 j11 j12 j13) (ds 9).loopCond = some (.bool false) := by
  ir_simp [ds, Stmt.nth, Stmt.items, Stmt.loopCond, Gen.IpfixIR.decodeSet]

theorem minLeft_pos (ctx : Ipfix.Ctx) : 1 ≤ Ipfix.minLeft ctx := by
  unfold Ipfix.minLeft Ipfix.minRecLen
  split
  · simp only []; split <;> omega
  · omega

/-- a round that continues has consumed at least one octet -/
theorem setIter_cont {ctx : Ipfix.Ctx} {st st' : Ipfix.St} (h : setIter ctx st = .cont st') :
    Adv st.r st'.r ∧ st.r.cnt < st'.r.cnt := by
  unfold setIter at h
  split at h
  · split at h
    · cases h
    · generalize hp : (if ctx.setId = 2 then Ipfix.parseTpl st.r else Ipfix.parseOptTpl st.r) = pr at h
      obtain ⟨res, r'⟩ := pr
      have ht : Adv st.r r' ∧ ∀ t, res = .ok t → st.r.cnt + 4 + 4 * Ipfix.nfields t ≤ r'.cnt := by
        by_cases h0 : ctx.setId = 2
        · simp only [h0, if_true] at hp; exact Ipfix.parseTpl_adv hp
        · simp only [h0, if_false] at hp; exact Ipfix.parseOptTpl_adv hp
      rcases res with e | t
      · cases h
      · simp only [IterOut.cont.injEq] at h
        subst h
        exact ⟨ht.1, by have := ht.2 t rfl; simp only; omega⟩
  · split at h
    · cases h
    · split at h
      · cases h
      · generalize hd : Ipfix.decodeData ctx.tr st.r = dr at h
        obtain ⟨res, r'⟩ := dr
        have ha := (Ipfix.decodeData_adv hd).1
        rcases res with e | fs
        · simp only [] at h; split at h <;> cases h
        · simp only [] at h
          split at h
          · cases h
          · rename_i hne
            simp only [IterOut.cont.injEq] at h
            subst h
            exact ⟨ha, by have := ha.2; simp only; omega⟩

/-- outcome of the record loop -/
def DsLoopOut (agent : Bytes) (hdr : MHdr) (ctx : Ipfix.Ctx) (ok : V) (res : Ipfix.St × Option Err × Bool) (out : Res) : Prop :=
  match res with
  | (st', e, false) => ∃ j8 j9 j10 j11 j12 j13,
      out = some (.norm, S st', dsEnv agent hdr st'.recs ctx (IpfixProg.errV e) ok j8 j9 j10 j11 j12 j13)
  | (st', e, true) => RetOut out [IpfixProg.errV e] (S st') (.msg agent hdr st'.recs)

theorem ds_body9 (agent : Bytes) (hdr : MHdr) (ctx : Ipfix.Ctx) (st : Ipfix.St) (ok j8 j9 j10 j11 j12 j13 : V)
    (haddr : ctx.addr = addr) (hfuel : st.r.rem.length < fuel)
    (hs : ctx.tr.scope.length < fuel) (hf : ctx.tr.fields.length < fuel) :
    DsBodyOut agent hdr ctx ok (setIter ctx st)
      (exec addr (dsLink addr fuel) fuel (ds 9).loopBody (S st) (dsEnv agent hdr st.recs ctx .nil ok j8 j9 j10 j11 j12 j13)) := by
  by_cases h0 : ctx.setId = 0
  · exact ds_body9_zero addr fuel agent hdr ctx st ok j8 j9 j10 j11 j12 j13 h0
  by_cases h1 : ctx.setId = 1
  · exact ds_body9_data1 addr fuel agent hdr ctx st ok j8 j9 j10 j11 j12 j13 h1 hs hf
  by_cases h2 : ctx.setId = 2
  · exact ds_body9_tpl2 addr fuel agent hdr ctx st ok j8 j9 j10 j11 j12 j13 h2 haddr hfuel
  by_cases h3 : ctx.setId = 3
  · exact ds_body9_tpl3 addr fuel agent hdr ctx st ok j8 j9 j10 j11 j12 j13 h3 haddr hfuel
  by_cases h4 : ctx.setId ≤ 255
  · exact ds_body9_reserved addr fuel agent hdr ctx st ok j8 j9 j10 j11 j12 j13 ⟨by omega, h4⟩
  · exact ds_body9_dataBig addr fuel agent hdr ctx st ok j8 j9 j10 j11 j12 j13 (by omega) hs hf

theorem ds_loop9 (agent : Bytes) (hdr : MHdr) (ctx : Ipfix.Ctx) (ok : V) (haddr : ctx.addr = addr)
    (hs : ctx.tr.scope.length < fuel) (hf : ctx.tr.fields.length < fuel) :
    ∀ (k k' : Nat) (st : Ipfix.St) (j8 j9 j10 j11 j12 j13 : V),
    st.r.rem.length < k → st.r.rem.length < k' → st.r.rem.length < fuel → ctx.start ≤ st.r.cnt →
    DsLoopOut agent hdr ctx ok (Ipfix.setLoop ctx k' st)
      (loopF (fun st env => eval addr st env (ds 9).loopCond) (exec addr (dsLink addr fuel) fuel (ds 9).loopBody)
        (exec addr (dsLink addr fuel) fuel .skip) k (S st) (dsEnv agent hdr st.recs ctx .nil ok j8 j9 j10 j11 j12 j13)) := by
  intro k
  induction k with
  | zero => intro k' st _ _ _ _ _ _ hk; omega
  | succ k ih =>
    intro k' st j8 j9 j10 j11 j12 j13 hk hk' hfuel hstart
    obtain ⟨k', rfl⟩ : ∃ n, k' = n + 1 := ⟨k' - 1, by omega⟩
    rw [setLoop_succ]
    simp only [loopF, ds9_cond_nil addr agent hdr st.recs ctx st.r st.cache ok j8 j9 j10 j11 j12 j13 hstart]
    by_cases hc : Ipfix.contCond ctx st.r = true
    · simp only [hc, if_true]
      have hlen : Ipfix.minLeft ctx ≤ st.r.rem.length := by
        simp only [Ipfix.contCond, Bool.and_eq_true, decide_eq_true_eq] at hc; exact hc.1.2
      have hpos := minLeft_pos ctx
      obtain ⟨k2, rfl⟩ : ∃ n, k = n + 1 := ⟨k - 1, by omega⟩
      have hb := ds_body9 addr fuel agent hdr ctx st ok j8 j9 j10 j11 j12 j13 haddr hfuel hs hf
      rcases hit : setIter ctx st with st' | ⟨st', e, d⟩
      · simp only [hit, DsBodyOut] at hb
        obtain ⟨i8, i9, i10, i11, i12, i13, hb⟩ := hb
        have hp := setIter_cont hit
        have := hp.1.1; have := hp.1.2
        simp only [hb, exec]
        exact ih k' st' i8 i9 i10 i11 i12 i13 (by omega) (by omega) (by omega) (by omega)
      · rcases e with _ | e
        · simp only [hit, DsBodyOut] at hb
          obtain ⟨rfl, i8, i9, i10, i11, i12, i13, hb⟩ := hb
          simp only [hb, DsLoopOut, IpfixProg.errV]
          exact ⟨i8, i9, i10, i11, i12, i13, rfl⟩
        · cases d
          · simp only [hit, DsBodyOut] at hb
            obtain ⟨i8, i9, i10, i11, i12, i13, hb | hb⟩ := hb
            · simp only [hb, DsLoopOut]
              exact ⟨i8, i9, i10, i11, i12, i13, rfl⟩
            · simp only [hb, exec, loopF, IpfixProg.errV, ds9_cond_err, DsLoopOut]
              exact ⟨i8, i9, i10, i11, i12, i13, rfl⟩
          · simp only [hit, DsBodyOut, RetOut] at hb
            simp only [DsLoopOut, RetOut]
            rcases hout : exec addr (dsLink addr fuel) fuel (ds 9).loopBody (S st) (dsEnv agent hdr st.recs ctx .nil ok j8 j9 j10 j11 j12 j13) with _ | ⟨f, s', env'⟩
            · simp [hout] at hb
            · simp only [hout, Option.map_some, Option.some.injEq, Prod.mk.injEq] at hb
              obtain ⟨rfl, rfl, henv⟩ := hb
              simp only [Option.map_some, henv]
    · simp only [hc, Bool.false_eq_true, if_false, DsLoopOut, IpfixProg.errV]
      exact ⟨j8, j9, j10, j11, j12, j13, rfl⟩

theorem exec_blk_append (link : Linkage) (a b : List Stmt) (st : St) (env : Env) :
    exec addr link fuel (blk (a ++ b)) st env =
      match exec addr link fuel (blk a) st env with
      | some (.norm, st1, env1) => exec addr link fuel (blk b) st1 env1
      | r => r := by
  induction a generalizing st env with
  | nil => simp [blk, exec]
  | cons s a ih =>
    simp only [List.cons_append, blk, exec]
    rcases exec addr link fuel s st env with _ | ⟨f, st1, env1⟩
    · rfl
    · cases f <;> simp only [ih]

/-- the set header part of `decodeSet`: `startCount`, the header reads, the length test -/
theorem ds_pre1 (agent : Bytes) (hdr : MHdr) (st : Ipfix.St) :
    exec addr (dsLink addr fuel) fuel (blk [ds 0, ds 1, ds 2, ds 3]) (S st)
        [.msg agent hdr st.recs, .unset, .unset, .unset, .unset, .unset, .unset, .unset, .unset, .unset, .unset, .unset,
         .unset, .unset, .unset, .unset] =
      match st.r.rU16 with
      | none => some (.ret [errReader], S st, [.msg agent hdr st.recs, .int st.r.cnt, .shdr 0 0, errReader, .unset, .unset,
          .unset, .unset, .unset, .unset, .unset, .unset, .unset, .unset, .unset, .unset])
      | some (sid, r1) =>
        match r1.rU16 with
        | none => some (.ret [errReader], ⟨r1, st.cache⟩, [.msg agent hdr st.recs, .int st.r.cnt, .shdr sid 0, errReader,
            .unset, .unset, .unset, .unset, .unset, .unset, .unset, .unset, .unset, .unset, .unset, .unset])
        | some (len, r2) =>
          if len < 4 then some (.ret [.err ⟨false, .badSetLen⟩], ⟨r2, st.cache⟩, [.msg agent hdr st.recs, .int st.r.cnt,
            .shdr sid len, .nil, .unset, .unset, .unset, .unset, .unset, .unset, .unset, .unset, .unset, .unset, .unset, .unset])
          else some (.norm, ⟨r2, st.cache⟩, [.msg agent hdr st.recs, .int st.r.cnt, .shdr sid len, .nil, .unset, .unset,
            .unset, .unset, .unset, .unset, .unset, .unset, .unset, .unset, .unset, .unset]) := by
  have hh := setHeaderUnmarshal_sem addr fuel st.r st.cache 0 0
  rcases h1 : st.r.rU16 with _ | ⟨sid, r1⟩
  · simp only [h1] at hh
    ir_simp [ds, Stmt.nth, Stmt.items, Gen.IpfixIR.decodeSet, hh]
  · simp only []
    rcases h2 : r1.rU16 with _ | ⟨len, r2⟩
    · simp only [h1, h2] at hh
      ir_simp [ds, Stmt.nth, Stmt.items, Gen.IpfixIR.decodeSet, hh]
    · simp only [h1, h2] at hh
      by_cases hl : len < 4 <;> ir_simp [ds, Stmt.nth, Stmt.items, Gen.IpfixIR.decodeSet, hh, hl]

/-- the template lookup and `minLen`: the locals with which the record loop starts -/
theorem ds_pre2 (agent : Bytes) (hdr : MHdr) (recs : List Record) (r2 : Rd) (c : Cache) (sid len start : Nat) :
    ∃ ok, exec addr (dsLink addr fuel) fuel (blk [ds 4, ds 5, ds 6, ds 7, ds 8]) ⟨r2, c⟩
        [.msg agent hdr recs, .int start, .shdr sid len, .nil, .unset, .unset, .unset, .unset, .unset, .unset, .unset,
         .unset, .unset, .unset, .unset, .unset] =
      some (.norm, ⟨r2, c⟩, dsEnv agent hdr recs ⟨addr, sid, len, start, (Ipfix.lookupTpl c addr sid).1.getD Ipfix.emptyTpl⟩
        (IpfixProg.errV (Ipfix.lookupTpl c addr sid).2) ok .unset .unset .unset .unset .unset .unset) := by
  unfold Ipfix.lookupTpl
  by_cases hs : sid > 255
  · rcases hl : c.lookup addr sid with _ | t
    · refine ⟨.bool false, ?_⟩
      ir_simp [ds, Stmt.nth, Stmt.items, Gen.IpfixIR.decodeSet, hs, hl, minRecordLen_sem, Ipfix.minLeft, Ipfix.emptyTpl,
        IpfixProg.errV, Ipfix.nonfatalErr, Err.nonfatal]
    · refine ⟨.bool true, ?_⟩
      ir_simp [ds, Stmt.nth, Stmt.items, Gen.IpfixIR.decodeSet, hs, hl, minRecordLen_sem, Ipfix.minLeft, Ipfix.emptyTpl,
        IpfixProg.errV]
  · refine ⟨.unset, ?_⟩
    ir_simp [ds, Stmt.nth, Stmt.items, Gen.IpfixIR.decodeSet, hs, Ipfix.minLeft, Ipfix.emptyTpl, IpfixProg.errV]

/-- the leftover skip and the `return err` at the end of `decodeSet` against `Ipfix.skipRest` -/
theorem ds_tail (agent : Bytes) (hdr : MHdr) (ctx : Ipfix.Ctx) (st1 : Ipfix.St) (e1 : Option Err) (ok j8 j9 j10 j11 j12 j13 : V)
    (hstart : ctx.start ≤ st1.r.cnt) :
    RetOut (exec addr (dsLink addr fuel) fuel (blk [ds 10, ds 11, ds 12]) (S st1)
        (dsEnv agent hdr st1.recs ctx (IpfixProg.errV e1) ok j8 j9 j10 j11 j12 j13))
      [IpfixProg.errV (Ipfix.skipRest ctx st1 e1).2] (S (Ipfix.skipRest ctx st1 e1).1)
      (.msg agent hdr (Ipfix.skipRest ctx st1 e1).1.recs) := by
  have hs1 := subV_int st1.r.cnt ctx.start hstart
  have hs2 := subAt_u16_lt ctx.len ((st1.r.cnt - ctx.start) % 65536) (Nat.mod_lt _ (by decide))
  unfold Ipfix.skipRest Ipfix.consumed16 RetOut
  by_cases hl : (ctx.len + 65536 - (st1.r.cnt - ctx.start) % 65536) % 65536 > 0
  · rcases hr : st1.r.readN ((ctx.len + 65536 - (st1.r.cnt - ctx.start) % 65536) % 65536) with _ | ⟨b, r'⟩
    · cases e1 <;> ir_simp [ds, Stmt.nth, Stmt.items, Gen.IpfixIR.decodeSet, hs1, hs2, hl, hr, IpfixProg.errV, Ipfix.nonfatalErr, Err.nonfatal]
    · cases e1 <;> ir_simp [ds, Stmt.nth, Stmt.items, Gen.IpfixIR.decodeSet, hs1, hs2, hl, hr, IpfixProg.errV]
  · cases e1 <;> ir_simp [ds, Stmt.nth, Stmt.items, Gen.IpfixIR.decodeSet, hs1, hs2, hl, IpfixProg.errV]
end

theorem exec_seq_eq (addr : Bytes) (link : Linkage) (fuel : Nat) (a b : Stmt) (st : St) (env : Env) :
    exec addr link fuel (.seq a b) st env =
      match exec addr link fuel a st env with
      | some (.norm, st1, env1) => exec addr link fuel b st1 env1
      | r => r := by rw [exec]; rfl

theorem exec_loop_eq (addr : Bytes) (link : Linkage) (fuel : Nat) (c : Expr) (body post : Stmt) (st : St) (env : Env) :
    exec addr link fuel (.loop c body post) st env =
      loopF (fun st env => eval addr st env c) (exec addr link fuel body) (exec addr link fuel post) fuel st env := by
  rw [exec]

theorem exec_skip_eq (addr : Bytes) (link : Linkage) (fuel : Nat) (st : St) (env : Env) :
    exec addr link fuel .skip st env = some (.norm, st, env) := by rw [exec]

theorem retOut_of_eq {out : Res} {vs : List V} {s : St} {env : Env} {m : V} (h : out = some (.ret vs, s, env))
    (h0 : env[0]? = some m) : RetOut out vs s m := by
  subst h; simp [RetOut, h0]

theorem ds_exec (addr : Bytes) (fuel f' K : Nat) (st : Ipfix.St) (agent : Bytes) (hdr : MHdr)
    (hfuel : st.r.rem.length < fuel) (hf' : st.r.rem.length < f') (hc : Ipfix.CacheB K st.cache) (hK : K < fuel) :
    RetOut (exec addr (dsLink addr fuel) fuel Gen.IpfixIR.decodeSet.body (S st)
        [.msg agent hdr st.recs, .unset, .unset, .unset, .unset, .unset, .unset, .unset, .unset, .unset, .unset, .unset,
         .unset, .unset, .unset, .unset])
      [IpfixProg.errV (Ipfix.decodeSet addr f' st).2] (S (Ipfix.decodeSet addr f' st).1)
      (.msg agent hdr (Ipfix.decodeSet addr f' st).1.recs) := by
  have hsplit : Gen.IpfixIR.decodeSet.body =
      blk ([ds 0, ds 1, ds 2, ds 3] ++ ([ds 4, ds 5, ds 6, ds 7, ds 8] ++ ([ds 9] ++ [ds 10, ds 11, ds 12]))) := rfl
  rw [hsplit, exec_blk_append, ds_pre1]
  unfold Ipfix.decodeSet
  rcases h1 : st.r.rU16 with _ | ⟨sid, r1⟩
  · exact retOut_of_eq rfl rfl
  · simp only []
    rcases h2 : r1.rU16 with _ | ⟨len, r2⟩
    · exact retOut_of_eq rfl rfl
    · simp only []
      by_cases hl : len < 4
      · simp only [hl, if_true]; exact retOut_of_eq rfl rfl
      · simp only [hl, if_false]
        have a1 := (adv_rU16 h1).1; have a2 := (adv_rU16 h2).1
        have := a1.1; have := a1.2; have := a2.1; have := a2.2
        obtain ⟨ok, hp2⟩ := ds_pre2 addr fuel agent hdr st.recs r2 st.cache sid len st.r.cnt
        rw [exec_blk_append, hp2]
        simp only []
        rw [exec_blk_append]
        unfold Ipfix.setBody
        simp only []
        generalize hctx : (⟨addr, sid, len, st.r.cnt, (Ipfix.lookupTpl st.cache addr sid).1.getD Ipfix.emptyTpl⟩ : Ipfix.Ctx) = ctx
        have hstart : ctx.start ≤ r2.cnt := by rw [← hctx]; simp only; omega
        have haddr : ctx.addr = addr := by rw [← hctx]
        have e9 : blk [ds 9] = .seq (ds 9) .skip := rfl
        rw [e9, exec_seq_eq, ds9_shape, exec_loop_eq]
        rcases hlook : (Ipfix.lookupTpl st.cache addr sid).2 with _ | e
        · -- the record loop runs
          have htr : ctx.tr.scope.length < fuel ∧ ctx.tr.fields.length < fuel := by
            rw [← hctx]; simp only
            unfold Ipfix.lookupTpl
            split
            · rcases hlk : st.cache.lookup addr sid with _ | t
              · simp [Ipfix.emptyTpl]; omega
              · have := hc.lookup hlk
                simp only [Ipfix.nfields] at this
                simp only [Option.getD_some]; omega
            · simp [Ipfix.emptyTpl]; omega
          have hloop := ds_loop9 addr fuel agent hdr ctx ok haddr htr.1 htr.2 fuel f' { st with r := r2 }
            .unset .unset .unset .unset .unset .unset (by simp only; omega) (by simp only; omega) (by simp only; omega) hstart
          rcases hres : Ipfix.setLoop ctx f' { st with r := r2 } with ⟨st1, e1, d⟩
          have hs1 : ctx.start ≤ st1.r.cnt := by
            have := (Ipfix.setLoop_fuel ctx f' _ _ _ _ (by simp only; omega) hres).2.1.2
            simp only at this; omega
          cases d
          · simp only [hres, DsLoopOut] at hloop
            obtain ⟨i8, i9, i10, i11, i12, i13, hloop⟩ := hloop
            simp only [IpfixProg.errV, S] at hloop ⊢
            rw [hloop]
            simp only [exec_skip_eq, Bool.false_eq_true, if_false]
            exact ds_tail addr fuel agent hdr ctx st1 e1 ok i8 i9 i10 i11 i12 i13 hs1
          · simp only [hres, DsLoopOut] at hloop
            simp only [if_true]
            simp only [IpfixProg.errV, S, RetOut] at hloop ⊢
            rcases hout : loopF (fun st env => eval addr st env (ds 9).loopCond) (exec addr (dsLink addr fuel) fuel (ds 9).loopBody)
                (exec addr (dsLink addr fuel) fuel .skip) fuel ⟨r2, st.cache⟩
                (dsEnv agent hdr st.recs ctx .nil ok .unset .unset .unset .unset .unset .unset) with _ | ⟨f, s', env'⟩
            · simp [hout] at hloop
            · simp only [hout, Option.map_some, Option.some.injEq, Prod.mk.injEq] at hloop
              obtain ⟨rfl, rfl, henv⟩ := hloop
              simp only [Option.map_some, henv]
        · -- unknown template: the loop condition fails at once, the set is skipped
          obtain ⟨k, rfl⟩ : ∃ n, fuel = n + 1 := ⟨fuel - 1, by omega⟩
          simp only [IpfixProg.errV, loopF, ds9_cond_err, exec_skip_eq]
          exact ds_tail addr (k + 1) agent hdr ctx { st with r := r2 } (some e) ok .unset .unset .unset .unset .unset .unset hstart

end Vflow.IpfixIR
