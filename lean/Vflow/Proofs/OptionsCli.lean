import Vflow.Model.Options
import Vflow.Proofs.OptionsCfg
/-!
# What the command line says against what package `flag` reads (helper lemmas for C17, F31)

* `parse_full`: when `FlagSet.Parse` succeeds and leaves no positional argument (`strayArgs … = []`), the
  assignments it makes are, one by one and in order, the mentions `cliGiven` reads off the whole token
  list, each read through the key table (`assignOf`).
* `cliSource_eq_lastOf`: then the command line as a source is the same from both readings.
* `mention_assigned`: the last mention of a key decides the key's field (distinct keys have distinct fields).
* `wordOf_key`: the words read as a key `name` are `-name`, `--name`, `-name=v`, `--name=v`.
-/
namespace Vflow.Options
open Vflow

theorem boolIn_of_find {regs : List FlagReg} {k : String} {reg : FlagReg}
    (h : regs.find? (fun r => r.name = k) = some reg) : boolIn regs k = (reg.kind == .bool) := by
  simp [boolIn, h]

theorem assignOf_of_find {regs : List FlagReg} {k v : String} {reg : FlagReg} {val : Val}
    (h : regs.find? (fun r => r.name = k) = some reg) (hv : flagValue reg.kind v = some val) :
    assignOf regs (k, v) = some (reg.target, val) := by
  simp [assignOf, h, hv]

theorem flagValue_bool_true : flagValue .bool "true" = some (.bool true) := by decide

/-- a command line that is parsed without a positional argument left does not begin with a non-flag word -/
theorem not_nonflag_of_no_stray {regs : List FlagReg} {fuel : Nat} {w : String} {rest : List String}
    (h : strayArgs regs (fuel + 1) (w :: rest) = []) : wordOf w ≠ .nonflag := by
  intro hw
  simp [strayArgs, hw] at h

/-- **a parse that consumes every word reads what the command line says**: if `FlagSet.Parse` succeeds
(`parseArgs … = .ok l`) and leaves no positional argument, its assignments `l` are exactly the mentions of
`cliGiven`, in order, each one the mention's text read as a value of the key's kind and bound to the key's
field. -/
theorem parse_full {regs : List FlagReg} :
    ∀ (fuel : Nat) (args : List String) (l : List (Option String × Val)), args.length < fuel →
      parseArgs regs fuel args = .ok l → strayArgs regs fuel args = [] →
      (cliGiven (boolIn regs) args).map (assignOf regs) = l.map some := by
  intro fuel
  induction fuel with
  | zero => intro args l hlen; exact absurd hlen (Nat.not_lt_zero _)
  | succ fuel ih =>
    intro args l hlen hp hs
    cases args with
    | nil =>
      simp only [parseArgs] at hp
      injection hp with hp; subst hp
      simp [cliGiven]
    | cons s rest =>
      have hlen' : rest.length < fuel := by simp only [List.length_cons] at hlen; omega
      rcases parseArgs_step hp with ⟨hw, hl⟩ | ⟨name, v?, reg, val, rest', l', hw, hreg, hp', hl, hshape⟩
      · rcases hw with hw | hw
        · simp [strayArgs, hw] at hs
        · simp only [strayArgs, hw] at hs
          subst hs; subst hl
          simp [cliGiven, hw]
      · rcases hshape with ⟨hr, hcase⟩ | ⟨hv, hnb, v, hrest, hval⟩
        · subst hr
          rcases hcase with ⟨hv, hk, hval⟩ | ⟨v, hv, hval⟩
          · -- a bare boolean
            subst hv; subst hval
            have hs' : strayArgs regs fuel rest' = [] := by
              simpa [strayArgs, hw, hreg, hk] using hs
            have ih' := ih rest' l' hlen' hp' hs'
            have hb : boolIn regs name = true := by simp [boolIn_of_find hreg, hk]
            have ha : assignOf regs (name, "true") = some (reg.target, .bool true) :=
              assignOf_of_find hreg (by rw [hk]; exact flagValue_bool_true)
            cases rest' with
            | nil =>
              have : l' = [] := by
                cases fuel <;> simp only [parseArgs] at hp' <;> injection hp' with hp' <;> exact hp'.symm
              subst this; subst hl
              simp [cliGiven, hw, hb, ha]
            | cons w rest2 =>
              obtain ⟨f', rfl⟩ : ∃ f', fuel = f' + 1 := by
                cases fuel with
                | zero => simp at hlen'
                | succ f' => exact ⟨f', rfl⟩
              have hwn := not_nonflag_of_no_stray hs'
              subst hl
              simp only [cliGiven, hw, hb, Bool.true_and, bne_iff_ne, ne_eq, hwn, not_false_eq_true,
                ↓reduceIte, List.map_cons, ha, List.cons.injEq, true_and]
              exact ih'
          · -- an inline value
            subst hv
            have hs' : strayArgs regs fuel rest' = [] := by
              cases hk : reg.kind <;> simpa [strayArgs, hw, hreg, hk] using hs
            have ih' := ih rest' l' hlen' hp' hs'
            have ha : assignOf regs (name, v) = some (reg.target, val) := assignOf_of_find hreg hval
            cases rest' with
            | nil =>
              have : l' = [] := by
                cases fuel <;> simp only [parseArgs] at hp' <;> injection hp' with hp' <;> exact hp'.symm
              subst this; subst hl
              simp [cliGiven, hw, ha]
            | cons w rest2 =>
              subst hl
              simp only [cliGiven, hw, List.map_cons, ha, List.cons.injEq, true_and]
              exact ih'
        · -- the value is the next word
          subst hv; subst hrest
          have hlen'' : rest'.length < fuel := by simp only [List.length_cons] at hlen'; omega
          obtain ⟨f', rfl⟩ : ∃ f', fuel = f' + 1 := by
            cases fuel with
            | zero => simp at hlen'
            | succ f' => exact ⟨f', rfl⟩
          have hs' : strayArgs regs (f' + 1) rest' = [] := by
            cases hk : reg.kind with
            | bool => exact absurd hk hnb
            | int => simpa [strayArgs, hw, hreg, hk] using hs
            | str => simpa [strayArgs, hw, hreg, hk] using hs
            | other t => simpa [strayArgs, hw, hreg, hk] using hs
          have ih' := ih rest' l' hlen'' hp' hs'
          have hb : boolIn regs name = false := by
            rw [boolIn_of_find hreg]
            cases hk : reg.kind <;> first | rfl | exact absurd hk hnb
          have ha : assignOf regs (name, v) = some (reg.target, val) := assignOf_of_find hreg hval
          subst hl
          simp only [cliGiven, hw, hb, Bool.false_and, Bool.false_eq_true, ↓reduceIte, List.map_cons, ha,
            List.cons.injEq, true_and]
          exact ih'

theorem filterMap_of_map_eq_some {α β : Type} (f : α → Option β) :
    ∀ (g : List α) (l : List β), g.map f = l.map some → g.filterMap f = l := by
  intro g
  induction g with
  | nil => intro l h; cases l with
    | nil => rfl
    | cons b l => simp at h
  | cons a g ih =>
    intro l h
    cases l with
    | nil => simp at h
    | cons b l =>
      simp only [List.map_cons, List.cons.injEq] at h
      simp [h.1, ih l h.2]

/-- **the two readings give the same source**: when the parse succeeds and leaves no positional argument,
what the command line says (`cliSource`) is what package `flag` assigned -/
theorem cliSource_eq_lastOf (tbl : List Row) (args : List String) (l : List (Option String × Val))
    (hp : parseArgs (configReg :: regsOf tbl) (args.length + 1) args = .ok l)
    (hs : strayArgs (configReg :: regsOf tbl) (args.length + 1) args = []) :
    cliSource tbl args = lastOf l := by
  unfold cliSource boolKey
  rw [filterMap_of_map_eq_some _ _ l (parse_full _ _ _ (Nat.lt_succ_self _) hp hs)]

/-- a function whose values on a list are pairwise distinct is injective on the list -/
theorem eq_of_nodup_map {α β : Type} (f : α → β) :
    ∀ (l : List α), (l.map f).Nodup → ∀ a, a ∈ l → ∀ b, b ∈ l → f a = f b → a = b := by
  intro l
  induction l with
  | nil => intro _ a ha; cases ha
  | cons x xs ih =>
    intro hn a ha b hb hab
    simp only [List.map_cons, List.nodup_cons, List.mem_map, not_exists, not_and] at hn
    rcases List.mem_cons.mp ha with rfl | ha' <;> rcases List.mem_cons.mp hb with rfl | hb'
    · rfl
    · exact absurd hab.symm (hn.1 b hb')
    · exact absurd hab (hn.1 a ha')
    · exact ih hn.2 a ha' b hb' hab

/-- distinct keys have distinct fields -/
def KeysToFields (regs : List FlagReg) : Prop :=
  ∀ r1, r1 ∈ regs → ∀ r2, r2 ∈ regs → r1.target = r2.target → r1.target ≠ none → r1.name = r2.name

/-- in a table whose field names are pairwise distinct, distinct keys have distinct fields -/
theorem keysToFields_table (tbl : List Row) (hd : (tbl.map (·.field)).Nodup) :
    KeysToFields (configReg :: regsOf tbl) := by
  intro r1 h1 r2 h2 ht hne
  have hcfg : configReg.target = none := rfl
  rcases List.mem_cons.mp h1 with rfl | h1
  · exact absurd hcfg hne
  · rcases List.mem_cons.mp h2 with rfl | h2
    · rw [ht] at hne; exact absurd hcfg hne
    · simp only [regsOf, List.mem_map, List.mem_filter] at h1 h2
      obtain ⟨a, ⟨ha, _⟩, rfl⟩ := h1
      obtain ⟨b, ⟨hb, _⟩, rfl⟩ := h2
      simp only [Option.some.injEq] at ht
      have := eq_of_nodup_map (·.field) tbl hd a ha b hb ht
      subst this; rfl

/-- **the first mention found decides its key's field**: mentions `g` and assignments `l` that correspond one
by one (`g.map (assignOf regs) = l.map some`): the first mention of a key `k` in `g` is of a registered key,
its text is a value of the key's kind, and the first assignment in `l` to the key's field is that value
(applied to the reversed lists: the last mention, the last assignment). -/
theorem mention_assigned {regs : List FlagReg} (hinj : KeysToFields regs) :
    ∀ (g : List (String × String)) (l : List (Option String × Val)), g.map (assignOf regs) = l.map some →
      ∀ (k : String) (p : String × String), g.find? (fun p => p.1 = k) = some p →
        ∃ reg val, regs.find? (fun r => r.name = k) = some reg ∧ flagValue reg.kind p.2 = some val ∧
          ∀ f, reg.target = some f → (l.find? (fun q => q.1 = some f)).map (·.2) = some val := by
  intro g
  induction g with
  | nil => intro l _ k p h; cases h
  | cons a g ih =>
    intro l h k p hf
    cases l with
    | nil => simp at h
    | cons b l =>
      simp only [List.map_cons, List.cons.injEq] at h
      obtain ⟨ha, hrest⟩ := h
      -- the first mention as an assignment
      have ha' : ∃ rega, regs.find? (fun r => r.name = a.1) = some rega ∧
          ∃ vala, flagValue rega.kind a.2 = some vala ∧ b = (rega.target, vala) := by
        unfold assignOf at ha
        split at ha
        · rename_i rega hra
          cases hv : flagValue rega.kind a.2 with
          | none => simp [hv] at ha
          | some vala =>
            simp only [hv, Option.map_some, Option.some.injEq] at ha
            exact ⟨rega, hra, vala, hv, ha.symm⟩
        · cases ha
      obtain ⟨rega, hra, vala, hva, hb⟩ := ha'
      by_cases hk : a.1 = k
      · simp only [List.find?_cons, hk, decide_true] at hf
        injection hf with hf; subst hf
        refine ⟨rega, vala, by rw [← hk]; exact hra, hva, fun f hf => ?_⟩
        simp [hb, hf]
      · simp only [List.find?_cons, hk, decide_false] at hf
        obtain ⟨reg, val, hr, hv, hl⟩ := ih l hrest k p hf
        refine ⟨reg, val, hr, hv, fun f hf => ?_⟩
        have hne : b.1 ≠ some f := by
          intro e
          rw [hb] at e
          have e' : rega.target = some f := e
          have hn := hinj rega (List.mem_of_find?_eq_some hra) reg (List.mem_of_find?_eq_some hr)
            (by rw [e', hf]) (by rw [e']; simp)
          have h1 : rega.name = a.1 := by simpa using List.find?_some hra
          have h2 : reg.name = k := by simpa using List.find?_some hr
          exact hk (by rw [← h1, hn, h2])
        simp only [List.find?_cons, hne, decide_false]
        exact hl f hf

/-- a flag name as `flagSet` registers them: not empty, does not begin with `-` or `=`, holds no `=` -/
def keyShape (n : String) : Bool :=
  match n.toList with
  | [] => false
  | c :: r => c != '-' && c != '=' && !(c :: r).contains '='

/-- **how a key is spelt**: for a name of that shape the words package `flag` (and `cliGiven`) read as the key
are exactly the documented ones: `-name`, `--name` (no inline value), `-name=v`, `--name=v` (inline value `v`,
whatever `v` is) -/
theorem wordOf_key {n : String} (h : keyShape n = true) :
    wordOf ("-" ++ n) = .flag n none ∧ wordOf ("--" ++ n) = .flag n none ∧
    ∀ v : String, wordOf ("-" ++ n ++ "=" ++ v) = .flag n (some v) ∧ wordOf ("--" ++ n ++ "=" ++ v) = .flag n (some v) := by
  unfold keyShape at h
  cases hn : n.toList with
  | nil => simp [hn] at h
  | cons c r =>
    simp only [hn, Bool.and_eq_true, bne_iff_ne, ne_eq, Bool.not_eq_eq_eq_not, Bool.not_true,
      List.contains_eq_mem, decide_eq_false_iff_not] at h
    obtain ⟨⟨h1, h2⟩, he⟩ := h
    have hname : String.ofList (c :: r) = n := by rw [← hn, String.ofList_toList]
    have hsp : splitEq (c :: r) = (c :: r, none) := splitEq_of_name he
    have hspv : ∀ v : List Char, splitEq (c :: (r ++ '=' :: v)) = (c :: r, some v) := fun v => by
      have := splitEq_of_name_eq (n := c :: r) (v := v) he
      simpa using this
    refine ⟨?_, ?_, fun v => ⟨?_, ?_⟩⟩
    · rw [wordOf_one_dash (s := "-" ++ n) (c := c) (r := r) (by simp [String.toList_append, hn]) h1 h2, hsp, hname]
      rfl
    · rw [wordOf_two_dash (s := "--" ++ n) (c := c) (r := r) (by simp [String.toList_append, hn]) h1 h2, hsp, hname]
      rfl
    · rw [wordOf_one_dash (s := "-" ++ n ++ "=" ++ v) (c := c) (r := r ++ '=' :: v.toList)
        (by simp [String.toList_append, hn]) h1 h2, hspv, hname]
      simp [String.ofList_toList]
    · rw [wordOf_two_dash (s := "--" ++ n ++ "=" ++ v) (c := c) (r := r ++ '=' :: v.toList)
        (by simp [String.toList_append, hn]) h1 h2, hspv, hname]
      simp [String.ofList_toList]
end Vflow.Options
