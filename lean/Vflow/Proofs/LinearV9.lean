import Vflow.Proofs.FuelV9
import Vflow.Proofs.LinearBase
/-!
# C02 (model part), linear allocation bound for the NetFlow v9 model

As `LinearIpfix`: `AllocV9` proves the product bound `fields ≤ octets × largest template`; the product is real
(finding K4: a specifier of length 0 is decoded without consuming an octet) but it is the only source of
super-linearity.  NetFlow v9 has no variable-length fields: a specifier of length `n ≥ 1` reads exactly `n`
octets, hence

* per record (`decodeData_lin`): `fields ≤ octets consumed + zeroSpecs tr`;
* per message (`decode_linear`): `fields ≤ bs.length + records × Z`, `Z` a bound on `zeroSpecs` of every
  template in force at some point of the decode (`CacheZ` for the cache before the datagram, `TplZ` for every
  template record that parses at some offset of the datagram).
-/
namespace Vflow.V9
open Vflow

/-! ## `Drops` for every reader-transforming function -/

theorem readSpec_drops (r : Rd) : Drops r (readSpec r).2 := by
  simp only [readSpec]
  split
  · exact Drops.refl _
  · rename_i id r1 h1
    have d1 := drops_rU16 h1
    split
    · exact d1
    · rename_i len r2 h2
      exact d1.trans (drops_rU16 h2)

theorem readSpecs_drops : ∀ (n : Nat) (r : Rd) (acc : List Spec), Drops r (readSpecs n r acc).2 := by
  intro n
  induction n with
  | zero => intro r acc; exact Drops.refl _
  | succ n ih =>
    intro r acc
    simp only [readSpecs]
    have d := readSpec_drops r
    split
    · rename_i e r' h; rw [h] at d; exact d
    · rename_i s r' h; rw [h] at d; exact d.trans (ih _ _)

theorem parseTpl_drops (r : Rd) : Drops r (parseTpl r).2 := by
  simp only [parseTpl]
  split
  · exact Drops.refl _
  · rename_i tid r1 h1
    have d1 := drops_rU16 h1
    split
    · exact d1
    · rename_i n r2 h2
      have d2 := d1.trans (drops_rU16 h2)
      have d3 := readSpecs_drops n r2 []
      split
      · rename_i fs r3 h3; rw [h3] at d3; exact d2.trans d3
      · rename_i e r3 h3; rw [h3] at d3; exact d2.trans d3

theorem parseOptTpl_drops (r : Rd) : Drops r (parseOptTpl r).2 := by
  simp only [parseOptTpl]
  split
  · exact Drops.refl _
  · rename_i tid r1 h1
    have d1 := drops_rU16 h1
    split
    · exact d1
    · rename_i sl r2 h2
      have d2 := d1.trans (drops_rU16 h2)
      split
      · exact d2
      · rename_i ol r3 h3
        have d3 := d2.trans (drops_rU16 h3)
        have d4 := readSpecs_drops (sl / 4) r3 []
        split
        · rename_i e r4 h4; rw [h4] at d4; exact d3.trans d4
        · rename_i scs r4 h4
          rw [h4] at d4
          have d5 := readSpecs_drops (ol / 4) r4 []
          split
          · rename_i e r5 h5; rw [h5] at d5; exact (d3.trans d4).trans d5
          · rename_i fs r5 h5; rw [h5] at d5; exact (d3.trans d4).trans d5

theorem decFields_drops : ∀ (fs : List Spec) (r : Rd) (acc : Record), Drops r (decFields fs r acc).2 := by
  intro fs
  induction fs with
  | nil => intro r acc; rw [decFields_nil]; exact Drops.refl _
  | cons f fs ih =>
    intro r acc
    rw [decFields_cons]
    split
    · exact Drops.refl _
    · rename_i b r1 h1
      have d1 := drops_readN h1
      generalize lookupElem 0 f.id = le
      cases le with
      | none => exact d1
      | some p => exact d1.trans (ih _ _)

theorem decodeData_drops (tr : Template) (r : Rd) : Drops r (decodeData tr r).2 :=
  decFields_drops _ _ _

/-! ## Per record: a specifier whose length is not 0 costs that many octets -/

theorem decFields_lin : ∀ (fs : List Spec) (r : Rd) (acc l : Record) (r' : Rd),
    decFields fs r acc = (.ok l, r') → r.cnt + fs.length ≤ r'.cnt + zeroCount fs := by
  intro fs
  induction fs with
  | nil =>
    intro r acc l r' h
    rw [decFields_nil] at h
    simp at h; rw [← h.2]; simp
  | cons f fs ih =>
    intro r acc l r' h
    rw [decFields_cons] at h
    split at h
    · simp at h
    · rename_i b r1 h1
      have t1 := (adv_readN h1).2
      generalize lookupElem 0 f.id = le at h
      cases le with
      | none => simp at h
      | some p =>
        have t3 := ih _ _ _ _ h
        rw [zeroCount_cons, List.length_cons]
        by_cases hz : f.len = 0
        · simp only [hz, if_true]; omega
        · simp only [hz, if_false]; omega

/-- **per record (NetFlow v9)**: a decoded record has at most as many fields as it consumed octets, plus the
zero-length specifiers of its template (K4) -/
theorem decodeData_lin {tr : Template} {r r' : Rd} {fs : Record}
    (h : decodeData tr r = (.ok fs, r')) : fs.length ≤ (r'.cnt - r.cnt) + zeroSpecs tr := by
  have hlen := (decodeData_adv h).2 fs rfl
  have t := decFields_lin _ _ _ _ _ h
  rw [hlen, zeroSpecs_eq]
  simp only [nfields, List.length_append] at t ⊢
  omega

/-! ## Per message -/

/-- the hypothesis on the datagram's own template records: whatever parses as a template record or an options
template record at some offset of `bs` has at most `Z` zero-length specifiers -/
def TplZ (bs : Bytes) (Z : Nat) : Prop :=
  ∀ k t r', k ≤ bs.length →
    (parseTpl ⟨bs.drop k, k⟩ = (.ok t, r') ∨ parseOptTpl ⟨bs.drop k, k⟩ = (.ok t, r')) → zeroSpecs t ≤ Z

/-- the invariant: the reader is the suffix of the datagram at its own offset, every cached template has at
most `Z` zero-length specifiers, and the decoded fields are paid for by the octets consumed so far plus `Z`
per record -/
def LInv (bs : Bytes) (Z : Nat) (st : St) : Prop :=
  Sfx bs st.r ∧ CacheZ Z st.cache ∧ fieldSum st.recs ≤ st.r.cnt + st.recs.length * Z

theorem LInv.move {bs : Bytes} {Z : Nat} {st st' : St} (h : LInv bs Z st) (hd : Drops st.r st'.r)
    (hc : st'.cache = st.cache) (hr : st'.recs = st.recs) : LInv bs Z st' := by
  refine ⟨h.1.drops hd, by rw [hc]; exact h.2.1, ?_⟩
  rw [hr]; have := hd.cnt_le; have := h.2.2; omega

theorem setLoop_linv (ctx : Ctx) (bs : Bytes) (Z : Nat) (hP : TplZ bs Z) (htr : zeroSpecs ctx.tr ≤ Z) :
    ∀ (fuel : Nat) (st st' : St) (e : Option Err),
    LInv bs Z st → setLoop ctx fuel st = (st', e) → LInv bs Z st' := by
  intro fuel
  induction fuel with
  | zero => intro st st' e hi h; simp [setLoop] at h; rw [← h.1]; exact hi
  | succ n ih =>
    intro st st' e hi h
    simp only [setLoop] at h
    split at h
    · split at h
      · generalize hp : (if ctx.setId = 0 then parseTpl st.r else parseOptTpl st.r) = pr at h
        obtain ⟨res, r'⟩ := pr
        have hd : Drops st.r r' := by
          by_cases h0 : ctx.setId = 0
          · simp only [h0, if_true] at hp; have := parseTpl_drops st.r; rw [hp] at this; exact this
          · simp only [h0, if_false] at hp; have := parseOptTpl_drops st.r; rw [hp] at this; exact this
        cases res with
        | error x =>
          simp at h; rw [← h.1]
          exact hi.move (st' := { st with r := r' }) hd rfl rfl
        | ok t =>
          simp only at h
          have hz : zeroSpecs t ≤ Z := by
            have he := hi.1.eq
            by_cases h0 : ctx.setId = 0
            · simp only [h0, if_true] at hp; rw [he] at hp; exact hP _ _ _ hi.1.1 (Or.inl hp)
            · simp only [h0, if_false] at hp; rw [he] at hp; exact hP _ _ _ hi.1.1 (Or.inr hp)
          refine ih _ _ _ ?_ h
          refine ⟨hi.1.drops hd, hi.2.1.insert _ _ _ hz, ?_⟩
          have := hd.cnt_le; have := hi.2.2; simp only; omega
      · split at h
        · simp at h; rw [← h.1]; exact hi
        · generalize hd : decodeData ctx.tr st.r = dr at h
          obtain ⟨res, r'⟩ := dr
          have hdr : Drops st.r r' := by
            have := decodeData_drops ctx.tr st.r; rw [hd] at this; exact this
          cases res with
          | error x =>
            simp at h; rw [← h.1]
            exact hi.move (st' := { st with r := r' }) hdr rfl rfl
          | ok fs =>
            simp only at h
            split at h
            · simp at h; rw [← h.1]
              exact hi.move (st' := { st with r := r' }) hdr rfl rfl
            · refine ih _ _ _ ?_ h
              have hl := decodeData_lin hd
              have hc := hdr.cnt_le
              have h3 := hi.2.2
              refine ⟨hi.1.drops hdr, hi.2.1, ?_⟩
              simp only [fieldSum_snoc, List.length_append, List.length_singleton]
              rw [Nat.add_mul, Nat.one_mul]
              omega
    · simp at h; rw [← h.1]; exact hi

theorem skipRest_drops {ctx : Ctx} {st st' : St} {e e' : Option Err}
    (h : skipRest ctx st e = (st', e')) :
    Drops st.r st'.r ∧ st'.recs = st.recs ∧ st'.cache = st.cache := by
  simp only [skipRest] at h
  split at h
  · simp at h; rw [← h.1]; exact ⟨Drops.refl _, rfl, rfl⟩
  · split at h
    · split at h
      · simp at h; rw [← h.1]; exact ⟨Drops.refl _, rfl, rfl⟩
      · rename_i b r' hr
        simp at h; rw [← h.1]
        exact ⟨drops_readN hr, rfl, rfl⟩
    · simp at h; rw [← h.1]; exact ⟨Drops.refl _, rfl, rfl⟩

theorem setBody_linv {bs : Bytes} {Z : Nat} (hP : TplZ bs Z) {addr : Bytes} {sid len start fuel : Nat}
    {st st' : St} {e : Option Err}
    (hi : LInv bs Z st) (h : setBody addr sid len start fuel st = (st', e)) : LInv bs Z st' := by
  simp only [setBody] at h
  split at h
  · have t := skipRest_drops h
    exact hi.move t.1 t.2.2 t.2.1
  · rename_i hnone
    generalize hl : setLoop _ fuel st = res at h
    obtain ⟨st1, e1⟩ := res
    have htr : zeroSpecs ((lookupTpl st.cache addr sid).1.getD emptyTpl) ≤ Z := by
      simp only [lookupTpl]
      split
      · split
        · rename_i t hlk; simp only [Option.getD_some]; exact hi.2.1.lookup hlk
        · simp [emptyTpl, zeroSpecs]
      · simp [emptyTpl, zeroSpecs]
    have h1 := setLoop_linv _ bs Z hP htr _ _ _ _ hi hl
    have t := skipRest_drops h
    exact h1.move t.1 t.2.2 t.2.1

theorem decodeSet_linv {bs : Bytes} {Z : Nat} (hP : TplZ bs Z) {addr : Bytes} {fuel : Nat} {st st' : St}
    {e : Option Err} (hi : LInv bs Z st) (h : decodeSet addr fuel st = (st', e)) : LInv bs Z st' := by
  simp only [decodeSet] at h
  split at h
  · simp at h; rw [← h.1]; exact hi
  · rename_i sid r1 h1
    have t1 := drops_rU16 h1
    split at h
    · simp at h; rw [← h.1]
      exact hi.move (st' := { st with r := r1 }) t1 rfl rfl
    · rename_i len r2 h2
      have t2 := drops_rU16 h2
      have hi2 : LInv bs Z { st with r := r2 } :=
        hi.move (st' := { st with r := r2 }) (t1.trans t2) rfl rfl
      split at h
      · simp at h; rw [← h.1]; exact hi2
      · exact setBody_linv hP hi2 h

theorem outer_linv {bs : Bytes} {Z : Nat} (hP : TplZ bs Z) (addr : Bytes) : ∀ (fuel : Nat) (st : St)
    (errs : List Err) (st' : St) (e : Option Err) (errs' : List Err),
    LInv bs Z st → outer addr fuel st errs = (st', e, errs') → LInv bs Z st' := by
  intro fuel
  induction fuel with
  | zero => intro st errs st' e errs' hi h; simp [outer] at h; rw [← h.1]; exact hi
  | succ n ih =>
    intro st errs st' e errs' hi h
    simp only [outer] at h
    split at h
    · generalize hd : decodeSet addr (st.r.rem.length + 1) st = res at h
      obtain ⟨st1, e1⟩ := res
      have h1 := decodeSet_linv hP hi hd
      cases e1 with
      | none => exact ih _ _ _ _ _ h1 h
      | some e0 =>
        simp only at h
        split at h
        · exact ih _ _ _ _ _ h1 h
        · simp at h; rw [← h.1]; exact h1
    · simp at h; rw [← h.1]; exact hi

theorem readHeader_drops {r r' : Rd} {h : Hdr} (hh : readHeader r = some (h, r')) : Drops r r' := by
  simp only [readHeader] at hh
  split at hh
  · simp at hh
  · rename_i _ r1 h1
    split at hh
    · simp at hh
    · rename_i _ r2 h2
      split at hh
      · simp at hh
      · rename_i _ r3 h3
        split at hh
        · simp at hh
        · rename_i _ r4 h4
          split at hh
          · simp at hh
          · rename_i _ r5 h5
            split at hh
            · simp at hh
            · rename_i _ r6 h6
              simp at hh; rw [← hh.2]
              exact ((((((drops_rU16 h1).trans (drops_rU16 h2)).trans (drops_rU32 h3)).trans
                (drops_rU32 h4)).trans (drops_rU32 h5)).trans (drops_rU32 h6))

/-- **C02 linear allocation bound (NetFlow v9)**: if every cached template and every template record that
parses at some offset of the datagram has at most `Z` zero-length specifiers, then so has every template of
the cache afterwards, and the number of decoded fields is at most the datagram's length plus `Z` per record -/
theorem decode_linear (c : Cache) (addr bs : Bytes) (Z : Nat) (hc : CacheZ Z c) (hP : TplZ bs Z) :
    CacheZ Z (decode c addr bs).2 ∧
    fieldSum (recordsOf (decode c addr bs).1) ≤ bs.length + (recordsOf (decode c addr bs).1).length * Z := by
  simp only [decode]
  split
  · exact ⟨hc, by simp [recordsOf, fieldSum]⟩
  · rename_i h r6 hh
    split
    · exact ⟨hc, by simp [recordsOf, fieldSum]⟩
    · have hd := readHeader_drops hh
      generalize ho : outer addr (bs.length + 1) ⟨r6, c, []⟩ [] = res
      obtain ⟨st, e, errs⟩ := res
      have hi : LInv bs Z ⟨r6, c, []⟩ := ⟨(Sfx.init bs).drops hd, hc, by simp [fieldSum]⟩
      have t := outer_linv hP addr _ _ _ _ _ _ hi ho
      cases e with
      | some e0 => exact ⟨t.2.1, by simp [recordsOf, fieldSum]⟩
      | none =>
        refine ⟨t.2.1, ?_⟩
        simp only [recordsOf]
        have h1 := t.2.2
        have h2 := t.1.1
        omega

/-- `TplZ` from a decidable check over the offsets of a concrete datagram (used by the non-vacuity examples) -/
theorem TplZ.of_check {bs : Bytes} {Z : Nat}
    (h : ∀ k, k ≤ bs.length →
      (tplZok Z (parseTpl ⟨bs.drop k, k⟩) && tplZok Z (parseOptTpl ⟨bs.drop k, k⟩)) = true) : TplZ bs Z := by
  intro k t r' hk hp
  have := h k hk
  simp only [Bool.and_eq_true] at this
  rcases hp with hp | hp
  · exact tplZok_ok this.1 hp
  · exact tplZok_ok this.2 hp

end Vflow.V9
