import Vflow.Model.LockIR
/-! Lifting the decidable check on a generated region to every shard, key and value. -/
namespace Vflow
namespace Locks

/-- the lock discipline does not look at keys and values -/
theorem wb_fill (k : Nat) (v : Val) : ∀ (l : List Sh) (h : Held),
    wb h (l.map (fill k v)) = wb h (l.map (fill 0 0)) := by
  intro l
  induction l with
  | nil => intro h; rfl
  | cons x xs ih =>
    intro h
    cases x <;> simp [fill, wb, ih]

/-- a region accepted by `wbRegion n` yields a well-bracketed program on every shard `s < n`,
    for every key and value -/
theorem wbRegion_sound {n : Nat} {r : Region} (hr : wbRegion n r = true) {s k : Nat} {v : Val}
    (hs : s < n) : ∃ p, progOf n s k v r = some p ∧ wb ⟨[], []⟩ p = true := by
  unfold wbRegion at hr
  rw [List.all_eq_true] at hr
  have h := hr s (List.mem_range.mpr hs)
  unfold progOf at h ⊢
  cases he : expandS n s r with
  | none => simp [he] at h
  | some l =>
    simp [he] at h
    refine ⟨l.map (fill k v), by simp, ?_⟩
    rw [wb_fill]; exact h

theorem isAcq_fill (k : Nat) (v : Val) (x : Sh) : isAcq (fill k v x) = isAcq (fill 0 0 x) := by
  cases x <;> rfl

theorem quiet_fill (k : Nat) (v : Val) (x : Sh) : quiet (fill k v x) = quiet (fill 0 0 x) := by
  cases x <;> rfl

theorem twoPhase_fill (k : Nat) (v : Val) : ∀ l : List Sh,
    twoPhase (l.map (fill k v)) = twoPhase (l.map (fill 0 0)) := by
  intro l
  induction l with
  | nil => rfl
  | cons x xs ih =>
    unfold twoPhase at ih ⊢
    simp only [List.map_cons, List.dropWhile_cons]
    rw [isAcq_fill k v x]
    split
    · exact ih
    · simp only [List.all_cons, List.all_map, quiet_fill k v x]
      congr 1
      apply List.all_congr rfl
      intro y
      exact quiet_fill k v y

theorem mem_takeWhile_true {α : Type} (p : α → Bool) : ∀ (l : List α) (a : α), a ∈ l.takeWhile p → p a = true := by
  intro l
  induction l with
  | nil => intro a h; simp at h
  | cons x xs ih =>
    intro a h
    rw [List.takeWhile_cons] at h
    split at h
    · rcases List.mem_cons.mp h with rfl | h
      · assumption
      · exact ih a h
    · simp at h

theorem twoPhase_split {p : List Act} (h : twoPhase p = true) :
    ∃ acq rest, p = acq ++ rest ∧ (∀ a ∈ acq, isAcq a = true) ∧ (∀ a ∈ rest, quiet a = true) := by
  refine ⟨p.takeWhile isAcq, p.dropWhile isAcq, (List.takeWhile_append_dropWhile).symm, ?_, ?_⟩
  · intro a ha; exact mem_takeWhile_true _ _ a ha
  · intro a ha
    unfold twoPhase at h
    rw [List.all_eq_true] at h
    exact h a ha

/-- a region accepted by `twoPhaseRegion n` yields, on every shard and for every key and value, a
    program that takes all its locks first and then only reads, iterates and releases -/
theorem twoPhaseRegion_sound {n : Nat} {r : Region} (hr : twoPhaseRegion n r = true) {s k : Nat} {v : Val}
    {p : List Act} (hs : s < n) (hp : progOf n s k v r = some p) :
    ∃ acq rest, p = acq ++ rest ∧ (∀ a ∈ acq, isAcq a = true) ∧ (∀ a ∈ rest, quiet a = true) := by
  unfold twoPhaseRegion at hr
  rw [List.all_eq_true] at hr
  have h := hr s (List.mem_range.mpr hs)
  unfold progOf at h hp
  cases he : expandS n s r with
  | none => simp [he] at h
  | some l =>
    simp [he] at h hp
    subst hp
    apply twoPhase_split
    rw [twoPhase_fill]; exact h

theorem dumpShape_fill (n k : Nat) (v : Val) : (dumpShape n).map (fill k v) = dumpProg n := by
  simp [dumpShape, dumpProg, List.map_append, List.map_map, Function.comp_def, fill]

theorem isDumpRegion_sound {n : Nat} {r : Region} (hr : isDumpRegion n r = true) {s k : Nat} {v : Val}
    (hs : s < n) : progOf n s k v r = some (dumpProg n) := by
  unfold isDumpRegion at hr
  rw [List.all_eq_true] at hr
  have h := hr s (List.mem_range.mpr hs)
  simp at h
  simp [progOf, h, dumpShape_fill]

end Locks
end Vflow
