import Vflow.Model.LockIR
/-! Lifting the decidable check on a generated region to every shard, key and value. -/
namespace Vflow
namespace Locks

/-- the lock discipline does not look at keys and values -/
theorem wb_fill (k : Nat) (v : Val) : ∀ (l : List Sh) (h : Held),
    wb h (l.map (fill k v)) = wb h (l.map (fill 0 0)) := by
  intro l
  induction l with
  | nil => intro h; rfl
  | cons x xs ih =>
    intro h
    cases x <;> simp [fill, wb, ih]

/-- a region accepted by `wbRegion n` yields a well-bracketed program on every shard `s < n`,
    for every key and value -/
theorem wbRegion_sound {n : Nat} {r : Region} (hr : wbRegion n r = true) {s k : Nat} {v : Val}
    (hs : s < n) : ∃ p, progOf n s k v r = some p ∧ wb ⟨[], []⟩ p = true := by
  unfold wbRegion at hr
  rw [List.all_eq_true] at hr
  have h := hr s (List.mem_range.mpr hs)
  unfold progOf at h ⊢
  cases he : expandS n s r with
  | none => simp [he] at h
  | some l =>
    simp [he] at h
    refine ⟨l.map (fill k v), by simp, ?_⟩
    rw [wb_fill]; exact h

end Locks
end Vflow
