import Vflow.Model.Flow
/-!
# Lemmas about the template cache (an association list keyed by (shard, key text)); the key determines the pair
-/
namespace Vflow

/-- lookup by raw key -/
def Cache.lookupKey (c : Cache) (k : CKey) : Option Template := (c.find? (fun e => e.1 = k)).map (·.2)

theorem Cache.lookup_eq (c : Cache) (a : Bytes) (id : Nat) : c.lookup a id = c.lookupKey (cacheKey a id) := rfl

/-- insert by raw key -/
def Cache.insertKey (c : Cache) (k : CKey) (t : Template) : Cache := (k, t) :: c.filter (fun e => e.1 ≠ k)

theorem Cache.insert_eq (c : Cache) (a : Bytes) (id : Nat) (t : Template) :
    c.insert a id t = c.insertKey (cacheKey a id) t := rfl

theorem find?_filter_ne {c : Cache} {k k' : CKey} (h : k' ≠ k) :
    (c.filter (fun e => e.1 ≠ k)).find? (fun e => e.1 = k') = c.find? (fun e => e.1 = k') := by
  rw [List.find?_filter]
  congr 1
  funext e
  by_cases he : e.1 = k'
  · simp [he, h]
  · simp [he]

/-- the map law of the cache at the key level -/
theorem Cache.lookupKey_insertKey (c : Cache) (k k' : CKey) (t : Template) :
    (c.insertKey k t).lookupKey k' = if k' = k then some t else c.lookupKey k' := by
  unfold Cache.lookupKey Cache.insertKey
  by_cases h : k' = k
  · subst h; simp [List.find?]
  · have h2 : ¬ (k = k') := fun e => h e.symm
    simp only [List.find?, h2, decide_false, h, if_false]
    rw [find?_filter_ne h]

/-- the map law of the cache at the (address, id) level -/
theorem Cache.lookup_insert (c : Cache) (a a' : Bytes) (id id' : Nat) (t : Template) :
    (c.insert a id t).lookup a' id' =
      if cacheKey a' id' = cacheKey a id then some t else c.lookup a' id' := by
  rw [Cache.insert_eq, Cache.lookup_eq, Cache.lookup_eq, Cache.lookupKey_insertKey]

/-! ## The key determines the (exporter, template id) pair -/

theorem hexLower_inj {m n : Nat} (hm : m < 16) (hn : n < 16) (h : hexLower m = hexLower n) : m = n := by
  have : ∀ m : Fin 16, ∀ n : Fin 16, hexLower m.1 = hexLower n.1 → m = n := by decide
  have := this ⟨m, hm⟩ ⟨n, hn⟩ h
  exact Fin.mk.inj this

theorem hexBytes_inj : ∀ (a b : Bytes), hexBytes a = hexBytes b → a = b
  | [], [], _ => rfl
  | [], _ :: _, h => by simp [hexBytes] at h
  | _ :: _, [], h => by simp [hexBytes] at h
  | x :: xs, y :: ys, h => by
    simp only [hexBytes, List.cons.injEq] at h
    have h1 := hexLower_inj (Nat.div_lt_of_lt_mul (by have := x.toNat_lt; omega))
      (Nat.div_lt_of_lt_mul (by have := y.toNat_lt; omega)) h.1
    have h2 := hexLower_inj (Nat.mod_lt _ (by decide)) (Nat.mod_lt _ (by decide)) h.2.1
    have hxy : x = y := by
      apply UInt8.toNat_inj.mp
      omega
    rw [hxy, hexBytes_inj xs ys h.2.2]

theorem encBE_length : ∀ (n v : Nat), (encBE n v).length = n
  | 0, _ => rfl
  | n+1, v => by simp [encBE, encBE_length n]

/-- equal key octets: the same exporter address and the same 16-bit template id -/
theorem keyOctets_inj {a a' : Bytes} {id id' : Nat} (h : keyOctets a id = keyOctets a' id') :
    a = a' ∧ encBE 2 id = encBE 2 id' := by
  unfold keyOctets at h
  have hl := congrArg List.length h
  simp only [List.length_append, encBE_length] at hl
  exact List.append_inj h (by omega)

theorem encBE2_inj {id id' : Nat} (hid : id < 65536) (hid' : id' < 65536) (h : encBE 2 id = encBE 2 id') : id = id' := by
  simp only [encBE, List.nil_append, List.cons_append, List.cons.injEq, and_true] at h
  have h1 := congrArg UInt8.toNat h.1
  have h2 := congrArg UInt8.toNat h.2
  simp only [UInt8.toNat_ofNat'] at h1 h2
  omega

/-- **the key text determines the exporter address** (whatever the ids) -/
theorem keyText_addr {a a' : Bytes} {id id' : Nat} (h : keyText a id = keyText a' id') : a = a' :=
  (keyOctets_inj (hexBytes_inj _ _ h)).1

/-- **the key text determines the pair**: template ids are 16-bit (`uint16` in the code) -/
theorem keyText_inj {a a' : Bytes} {id id' : Nat} (hid : id < 65536) (hid' : id' < 65536)
    (h : keyText a id = keyText a' id') : a = a' ∧ id = id' :=
  have := keyOctets_inj (hexBytes_inj _ _ h)
  ⟨this.1, encBE2_inj hid hid' this.2⟩

/-- **the cache key determines the pair** — the statement that was false of the hash-only key (K1) -/
theorem cacheKey_inj {a a' : Bytes} {id id' : Nat} (hid : id < 65536) (hid' : id' < 65536)
    (h : cacheKey a id = cacheKey a' id') : a = a' ∧ id = id' :=
  keyText_inj hid hid' (congrArg Prod.snd h)

theorem cacheKey_addr {a a' : Bytes} {id id' : Nat} (h : cacheKey a id = cacheKey a' id') : a = a' :=
  keyText_addr (congrArg Prod.snd h)

theorem shardOf_lt (a : Bytes) (id : Nat) : shardOf a id < 32 := Nat.mod_lt _ (by decide)

end Vflow
