import Vflow.Model.Flow
/-!
# Lemmas about the template cache (an association list keyed by the FNV-1 hash)
-/
namespace Vflow

/-- lookup by raw key -/
def Cache.lookupKey (c : Cache) (k : Nat) : Option Template := (c.find? (fun e => e.1 = k)).map (·.2)

theorem Cache.lookup_eq (c : Cache) (a : Bytes) (id : Nat) : c.lookup a id = c.lookupKey (cacheKey a id) := rfl

/-- insert by raw key -/
def Cache.insertKey (c : Cache) (k : Nat) (t : Template) : Cache := (k, t) :: c.filter (fun e => e.1 ≠ k)

theorem Cache.insert_eq (c : Cache) (a : Bytes) (id : Nat) (t : Template) :
    c.insert a id t = c.insertKey (cacheKey a id) t := rfl

theorem find?_filter_ne {c : Cache} {k k' : Nat} (h : k' ≠ k) :
    (c.filter (fun e => e.1 ≠ k)).find? (fun e => e.1 = k') = c.find? (fun e => e.1 = k') := by
  rw [List.find?_filter]
  congr 1
  funext e
  by_cases he : e.1 = k'
  · simp [he, h]
  · simp [he]

/-- the map law of the cache at the key level -/
theorem Cache.lookupKey_insertKey (c : Cache) (k k' : Nat) (t : Template) :
    (c.insertKey k t).lookupKey k' = if k' = k then some t else c.lookupKey k' := by
  unfold Cache.lookupKey Cache.insertKey
  by_cases h : k' = k
  · subst h; simp [List.find?]
  · have h2 : ¬ (k = k') := fun e => h e.symm
    simp only [List.find?, h2, decide_false, h, if_false]
    rw [find?_filter_ne h]

/-- the map law of the cache at the (address, id) level -/
theorem Cache.lookup_insert (c : Cache) (a a' : Bytes) (id id' : Nat) (t : Template) :
    (c.insert a id t).lookup a' id' =
      if cacheKey a' id' = cacheKey a id then some t else c.lookup a' id' := by
  rw [Cache.insert_eq, Cache.lookup_eq, Cache.lookup_eq, Cache.lookupKey_insertKey]

end Vflow
