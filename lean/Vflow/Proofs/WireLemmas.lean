import Vflow.Spec.Wire
import Vflow.Proofs.RdLemmas
/-!
# Reading back what the spec encoders wrote: integers, octet strings, cache lookups
-/
namespace Vflow.Wire
open Vflow

theorem encBE_length : ∀ (k v : Nat), (encBE k v).length = k := by
  intro k
  induction k with
  | zero => intro v; rfl
  | succ k ih => intro v; simp [encBE, ih]

theorem beN_append_singleton (a : Bytes) (x : UInt8) : beN (a ++ [x]) = beN a * 256 + x.toNat := by
  simp [beN, List.foldl_append]

theorem beN_encBE : ∀ (k v : Nat), v < 256 ^ k → beN (encBE k v) = v := by
  intro k
  induction k with
  | zero => intro v h; simp at h; subst h; rfl
  | succ k ih =>
    intro v h
    have h1 : v / 256 < 256 ^ k := by
      rw [Nat.div_lt_iff_lt_mul (by decide)]; rw [Nat.pow_succ] at h; exact h
    have h2 : (UInt8.ofNat (v % 256)).toNat = v % 256 := by
      simp [UInt8.toNat_ofNat']
    rw [encBE, beN_append_singleton, ih _ h1, h2]
    omega

theorem be16_length (n : Nat) : (be16 n).length = 2 := encBE_length 2 n
theorem be32_length (n : Nat) : (be32 n).length = 4 := encBE_length 4 n

theorem readN_append (b rest : Bytes) (c : Nat) :
    Rd.readN ⟨b ++ rest, c⟩ b.length = some (b, ⟨rest, c + b.length⟩) := by
  simp [Rd.readN]

theorem readN_append' (b rest : Bytes) (c n : Nat) (h : b.length = n) :
    Rd.readN ⟨b ++ rest, c⟩ n = some (b, ⟨rest, c + n⟩) := by
  subst h; exact readN_append b rest c

theorem rU16_be16 (n : Nat) (h : n < 65536) (rest : Bytes) (c : Nat) :
    Rd.rU16 ⟨be16 n ++ rest, c⟩ = some (n, ⟨rest, c + 2⟩) := by
  simp only [Rd.rU16, readN_append' (be16 n) rest c 2 (be16_length n), Option.map_some]
  rw [be16, beN_encBE 2 n (by simpa using h)]

theorem rU32_be32 (n : Nat) (h : n < 4294967296) (rest : Bytes) (c : Nat) :
    Rd.rU32 ⟨be32 n ++ rest, c⟩ = some (n, ⟨rest, c + 4⟩) := by
  simp only [Rd.rU32, readN_append' (be32 n) rest c 4 (be32_length n), Option.map_some]
  rw [be32, beN_encBE 4 n (by simpa using h)]

theorem rU8_byte (n : Nat) (h : n < 256) (rest : Bytes) (c : Nat) :
    Rd.rU8 ⟨UInt8.ofNat n :: rest, c⟩ = some (n, ⟨rest, c + 1⟩) := by
  have := readN_append' [UInt8.ofNat n] rest c 1 rfl
  simp only [List.singleton_append] at this
  simp only [Rd.rU8, this, Option.map_some]
  simp [beN, UInt8.toNat_ofNat']
  omega

/-- the template just inserted under (exporter, id) is the one a lookup of the same key returns -/
theorem lookup_insert (c : Cache) (addr : Bytes) (id : Nat) (t : Template) :
    Cache.lookup (c.insert addr id t) addr id = some t := by
  simp [Cache.lookup, Cache.insert]

end Vflow.Wire
