import Vflow.Proofs.TruncIpfix
/-!
# IPFIX: decoding commutes with moving the reader's count

`consumed16` is `(count - start) % 65536`: moving both by `k` leaves it unchanged.
-/
namespace Vflow.Ipfix
open Vflow

theorem readSpec_shifts : Shifts readSpec := by
  intro k r
  simp only [readSpec, rU16_shift]
  cases h1 : r.rU16 with
  | none => rfl
  | some p1 =>
    obtain ⟨id, r1⟩ := p1
    simp only [Option.map_some, rU16_shift]
    cases h2 : r1.rU16 with
    | none => rfl
    | some p2 =>
      obtain ⟨len, r2⟩ := p2
      simp only [Option.map_some]
      by_cases hent : id > 0x8000
      · rw [if_pos hent, if_pos hent, rU32_shift]
        cases h3 : r2.rU32 with
        | none => rfl
        | some p3 => rfl
      · rw [if_neg hent, if_neg hent]

theorem readSpecs_shifts (n : Nat) (acc : List Spec) : Shifts (fun r => readSpecs n r acc) := by
  induction n generalizing acc with
  | zero => intro k r; rfl
  | succ n ih =>
    intro k r
    simp only [readSpecs, readSpec_shifts k r]
    generalize readSpec r = p
    obtain ⟨res, r1⟩ := p
    cases res with
    | error e => rfl
    | ok sp => exact ih _ k r1

theorem parseTpl_shifts : Shifts parseTpl := by
  intro k r
  simp only [parseTpl, rU16_shift]
  cases h1 : r.rU16 with
  | none => rfl
  | some p1 =>
    obtain ⟨tid, r1⟩ := p1
    simp only [Option.map_some, rU16_shift]
    cases h2 : r1.rU16 with
    | none => rfl
    | some p2 =>
      obtain ⟨n, r2⟩ := p2
      simp only [Option.map_some, readSpecs_shifts n [] k r2]
      generalize readSpecs n r2 [] = p
      obtain ⟨res, r3⟩ := p
      cases res <;> rfl

theorem parseOptTplM_shifts (M : Nat) : Shifts (parseOptTplM M) := by
  intro k r
  simp only [parseOptTplM, rU16_shift]
  cases h1 : r.rU16 with
  | none => rfl
  | some p1 =>
    obtain ⟨tid, r1⟩ := p1
    simp only [Option.map_some, rU16_shift]
    cases h2 : r1.rU16 with
    | none => rfl
    | some p2 =>
      obtain ⟨n, r2⟩ := p2
      simp only [Option.map_some, rU16_shift]
      cases h3 : r2.rU16 with
      | none => rfl
      | some p3 =>
        obtain ⟨sc, r3⟩ := p3
        simp only [Option.map_some, readSpecs_shifts sc [] k r3]
        generalize (n + M - sc) % M = nf
        generalize readSpecs sc r3 [] = p
        obtain ⟨res, r4⟩ := p
        cases res with
        | error e => rfl
        | ok scs =>
          simp only [readSpecs_shifts nf [] k r4]
          generalize readSpecs nf r4 [] = q
          obtain ⟨res2, r5⟩ := q
          cases res2 <;> rfl

/-- (proved on the copy `parseOptTplM`, see there) -/
theorem parseOptTpl_shifts : Shifts parseOptTpl := parseOptTplM_shifts 65536

theorem dataLen_shifts (specLen : Nat) : Shifts (fun r => dataLen r specLen) := by
  intro k r
  simp only [dataLen]
  by_cases hv : specLen = 65535
  · rw [if_pos hv, if_pos hv, rU8_shift]
    cases h1 : r.rU8 with
    | none => rfl
    | some p1 =>
      obtain ⟨l8, r1⟩ := p1
      simp only [Option.map_some]
      by_cases h255 : l8 = 255
      · rw [if_pos h255, if_pos h255, rU16_shift]
        cases h2 : r1.rU16 with
        | none => rfl
        | some p2 => rfl
      · rw [if_neg h255, if_neg h255]
  · rw [if_neg hv, if_neg hv]

theorem decFields_shifts (fs : List Spec) (acc : Record) : Shifts (fun r => decFields fs r acc) := by
  induction fs generalizing acc with
  | nil => intro k r; rfl
  | cons x xs ih =>
    intro k r
    simp only [decFields_cons]
    cases lookupElem x.ent x.id with
    | none => rfl
    | some q =>
      obtain ⟨fid, ty⟩ := q
      simp only
      have hsh : dataLen (r.shift k) x.len = ((dataLen r x.len).1, (dataLen r x.len).2.shift k) :=
        dataLen_shifts x.len k r
      generalize dataLen r x.len = p at hsh ⊢
      obtain ⟨res, r1⟩ := p
      simp only at hsh
      rw [hsh]
      cases res with
      | error e => rfl
      | ok n =>
        simp only [readN_shift]
        cases h2 : r1.readN n with
        | none => rfl
        | some p2 =>
          obtain ⟨b, r2⟩ := p2
          exact ih _ k r2

theorem decodeData_shifts (tr : Template) : Shifts (decodeData tr) := by
  intro k r
  simp only [decodeData]
  have hsh : decFields (tr.scope ++ tr.fields) (r.shift k) [] =
      ((decFields (tr.scope ++ tr.fields) r []).1, (decFields (tr.scope ++ tr.fields) r []).2.shift k) :=
    decFields_shifts (tr.scope ++ tr.fields) [] k r
  generalize decFields (tr.scope ++ tr.fields) r [] = p at hsh ⊢
  obtain ⟨res, r1⟩ := p
  simp only at hsh
  rw [hsh]
  cases res with
  | error e => rfl
  | ok fs =>
    simp only
    split <;> rfl

def St.shift (st : St) (k : Nat) : St := { st with r := st.r.shift k }
def Ctx.shift (ctx : Ctx) (k : Nat) : Ctx := { ctx with start := ctx.start + k }

theorem consumed16_shift (ctx : Ctx) (r : Rd) (k : Nat) :
    consumed16 (ctx.shift k) (r.shift k) = consumed16 ctx r := by
  simp only [consumed16, Ctx.shift, Rd.shift_cnt]
  congr 1; omega

theorem contCond_shift (ctx : Ctx) (r : Rd) (k : Nat) : contCond (ctx.shift k) (r.shift k) = contCond ctx r := by
  unfold contCond; rw [consumed16_shift]; rfl

theorem setLoop_shift (ctx : Ctx) (k : Nat) : ∀ (fuel : Nat) (st : St),
    setLoop (ctx.shift k) fuel (st.shift k) = ((setLoop ctx fuel st).1.shift k, (setLoop ctx fuel st).2) := by
  intro fuel
  induction fuel with
  | zero => intro st; rfl
  | succ n ih =>
    intro st
    simp only [setLoop]
    have hcc : contCond (ctx.shift k) (st.shift k).r = contCond ctx st.r := contCond_shift ctx st.r k
    rw [hcc]
    by_cases hc : contCond ctx st.r = true
    · rw [if_pos hc, if_pos hc]
      have hid : (ctx.shift k).setId = ctx.setId := rfl
      have haddr : (ctx.shift k).addr = ctx.addr := rfl
      have htr : (ctx.shift k).tr = ctx.tr := rfl
      have hr : (st.shift k).r = st.r.shift k := rfl
      rw [hid, haddr, htr, hr]
      by_cases h23 : ctx.setId = 2 ∨ ctx.setId = 3
      · rw [if_pos h23, if_pos h23, peek16_shift]
        by_cases hpad : st.r.peek16 = some 0
        · rw [if_pos hpad, if_pos hpad]
        · rw [if_neg hpad, if_neg hpad]
          have hsh : (if ctx.setId = 2 then parseTpl (st.r.shift k) else parseOptTpl (st.r.shift k)) =
              ((if ctx.setId = 2 then parseTpl st.r else parseOptTpl st.r).1,
               (if ctx.setId = 2 then parseTpl st.r else parseOptTpl st.r).2.shift k) := by
            by_cases h0 : ctx.setId = 2
            · simp only [h0, if_true]; exact parseTpl_shifts k st.r
            · simp only [h0, if_false]; exact parseOptTpl_shifts k st.r
          rw [hsh]
          generalize (if ctx.setId = 2 then parseTpl st.r else parseOptTpl st.r) = p
          obtain ⟨res, r'⟩ := p
          cases res with
          | error e => rfl
          | ok tp => exact ih { st with r := r', cache := st.cache.insert ctx.addr tp.tid tp }
      · rw [if_neg h23, if_neg h23]
        by_cases hres : 4 ≤ ctx.setId ∧ ctx.setId ≤ 255
        · rw [if_pos hres, if_pos hres]
        · rw [if_neg hres, if_neg hres]
          by_cases hz : ctx.setId = 0
          · rw [if_pos hz, if_pos hz]
          · rw [if_neg hz, if_neg hz]
            have hsh := decodeData_shifts ctx.tr k st.r
            generalize decodeData ctx.tr st.r = p at hsh ⊢
            obtain ⟨res, r'⟩ := p
            simp only at hsh
            rw [hsh]
            cases res with
            | error e =>
              simp only
              split <;> rfl
            | ok fs =>
              simp only
              by_cases he : r'.cnt = st.r.cnt
              · have he' : (r'.shift k).cnt = (st.r.shift k).cnt := by
                  show r'.cnt + k = st.r.cnt + k
                  omega
                rw [if_pos he, if_pos he']; rfl
              · have he' : ¬ (r'.shift k).cnt = (st.r.shift k).cnt := by
                  show ¬ r'.cnt + k = st.r.cnt + k
                  omega
                rw [if_neg he, if_neg he']
                exact ih { st with r := r', recs := st.recs ++ [fs] }
    · rw [if_neg hc, if_neg hc]

theorem skipRest_shift (ctx : Ctx) (k : Nat) (st : St) (e1 : Option Err) :
    skipRest (ctx.shift k) (st.shift k) e1 = ((skipRest ctx st e1).1.shift k, (skipRest ctx st e1).2) := by
  simp only [skipRest]
  have hr : (st.shift k).r = st.r.shift k := rfl
  have hl : (ctx.shift k).len = ctx.len := rfl
  rw [hr, hl, consumed16_shift]
  by_cases hpos : (ctx.len + 65536 - consumed16 ctx st.r) % 65536 > 0
  · rw [if_pos hpos, if_pos hpos, readN_shift]
    cases st.r.readN ((ctx.len + 65536 - consumed16 ctx st.r) % 65536) with
    | none => rfl
    | some p => rfl
  · rw [if_neg hpos, if_neg hpos]

theorem setBody_shift (addr : Bytes) (sid len start fuel k : Nat) (st : St) :
    setBody addr sid len (start + k) fuel (st.shift k) =
      ((setBody addr sid len start fuel st).1.shift k, (setBody addr sid len start fuel st).2) := by
  simp only [setBody]
  have hc : (st.shift k).cache = st.cache := rfl
  rw [hc]
  generalize lookupTpl st.cache addr sid = look
  obtain ⟨lt, le⟩ := look
  cases le with
  | some x => exact skipRest_shift ⟨addr, sid, len, start, lt.getD emptyTpl⟩ k st (some x)
  | none =>
    simp only
    have := setLoop_shift ⟨addr, sid, len, start, lt.getD emptyTpl⟩ k fuel st
    simp only [Ctx.shift] at this
    rw [this]
    simp only
    split
    · rfl
    · exact skipRest_shift ⟨addr, sid, len, start, lt.getD emptyTpl⟩ k _ _

theorem decodeSet_shift (addr : Bytes) (fuel k : Nat) (st : St) :
    decodeSet addr fuel (st.shift k) = ((decodeSet addr fuel st).1.shift k, (decodeSet addr fuel st).2) := by
  simp only [decodeSet]
  have hr : (st.shift k).r = st.r.shift k := rfl
  rw [hr, rU16_shift]
  cases h1 : st.r.rU16 with
  | none => rfl
  | some p1 =>
    obtain ⟨sid, r1⟩ := p1
    simp only [Option.map_some, rU16_shift]
    cases h2 : r1.rU16 with
    | none => rfl
    | some p2 =>
      obtain ⟨len, r2⟩ := p2
      simp only [Option.map_some]
      by_cases hl : len < 4
      · rw [if_pos hl, if_pos hl]; rfl
      · rw [if_neg hl, if_neg hl]
        exact setBody_shift addr sid len st.r.cnt fuel k { st with r := r2 }

theorem outer_shift (addr : Bytes) (k : Nat) : ∀ (fuel : Nat) (st : St) (errs : List Err),
    outer addr fuel (st.shift k) errs = ((outer addr fuel st errs).1.shift k, (outer addr fuel st errs).2) := by
  intro fuel
  induction fuel with
  | zero => intro st errs; rfl
  | succ n ih =>
    intro st errs
    simp only [outer]
    have hrem : (st.shift k).r.rem = st.r.rem := rfl
    rw [hrem]
    by_cases hl : st.r.rem.length > 4
    · rw [if_pos hl, if_pos hl, decodeSet_shift]
      generalize decodeSet addr (st.r.rem.length + 1) st = d
      obtain ⟨st', e⟩ := d
      cases e with
      | none => exact ih st' errs
      | some x =>
        simp only
        by_cases hn : nonfatalErr x = true
        · rw [if_pos hn, if_pos hn]; exact ih st' _
        · rw [if_neg hn, if_neg hn]
    · rw [if_neg hl, if_neg hl]

end Vflow.Ipfix
