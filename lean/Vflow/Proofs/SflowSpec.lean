import Vflow.Proofs.SflowFilter
/-!
# The sFlow v5 wire encoder (specification side) and the round trip, from the leaves upward

`encodeSflow : ADatagram → Bytes` follows the sFlow v5 XDR layout: datagram header with a 4- or
16-octet agent address; samples `(type, length, body)`; flow samples with records
`(format, length, body)`; raw packet header records padded to a multiple of 4; extended switch;
extended router with an IPv4 or IPv6 next hop; counter samples with the counter records laid out
by `counterLayout`; unknown samples / records as opaque bodies.

Since the F19 repairs the abstract datagram covers every sampled header (any octets, 0 … 1500 of them, under
any header protocol); since F33 every raw-header record is reported with its own four words — header protocol,
frame length, stripped, header length — and carries the packet iff the dissector can break the header down
(`dissected`); a
flow-sample source id with its 24-bit index, and extended-router records of any length (only the two
lengths of an IPv4 / IPv6 next hop are decoded, the others are skipped like a record of an unknown format).
-/
namespace Vflow.Sflow
open Vflow Vflow.Packet

def be32 (v : Nat) : Bytes := encBE 4 v

/-- XDR padding to a multiple of four -/
def pad (n : Nat) : Nat := (4 - n % 4) % 4

/-- concatenation of the encodings of a list -/
def encList {A : Type} (enc : A → Bytes) : List A → Bytes
  | [] => []
  | a :: as => enc a ++ encList enc as

/-! ## abstract datagram -/

inductive AFlowRec where
  /-- raw packet header: header protocol, frame length, stripped, and the sampled octets — any octets -/
  | raw (proto frameLen stripped : Nat) (hdr : Bytes)
  | sw (s : ExtSwitch)
  /-- extended router with an IPv4 or IPv6 next hop (address type 1 / 2: record length 16 / 28) -/
  | rtr (r : ExtRouter)
  /-- a record this decoder skips by its declared length: a format it does not know, or an extended-router
  record (format 1002) of any other length (address type 0 = unknown has no address octets: 12) -/
  | unknown (fmt : Nat) (body : Bytes)

inductive ACounterRec where
  | known (fmt : Nat) (vals : List Nat)
  | unknown (fmt : Nat) (body : Bytes)

inductive ASample where
  | flow (seq srcType srcIdx rate pool drops inp out : Nat) (recs : List AFlowRec)
  | counter (seq srcType srcIdx : Nat) (recs : List ACounterRec)
  /-- any other type: expanded samples, unknown formats, enterprise-specific samples -/
  | unknown (type : Nat) (body : Bytes)

structure ADatagram where
  agent : Bytes
  subID : Nat
  seqNo : Nat
  upTime : Nat
  samples : List ASample

/-! ## encoders -/

def encFlowRec : AFlowRec → Bytes
  | .raw proto fl st hdr =>
    be32 1 ++ be32 (16 + hdr.length + pad hdr.length) ++
      (encFields [4, 4, 4, 4] [proto, fl, st, hdr.length] ++ ((hdr ++ List.replicate (pad hdr.length) 0)))
  | .sw s => be32 1001 ++ be32 16 ++ encFields [4, 4, 4, 4] [s.srcVlan, s.srcPriority, s.dstVlan, s.dstPriority]
  | .rtr r => be32 1002 ++ be32 (r.nextHop.length + 12) ++
      ((be32 (if r.nextHop.length = 4 then 1 else 2) ++ r.nextHop) ++ encFields [4, 4] [r.srcMask, r.dstMask])
  | .unknown fmt body => be32 fmt ++ be32 body.length ++ body

def encCounterRec : ACounterRec → Bytes
  | .known fmt vals =>
    match counterLayout fmt with
    | some l => be32 fmt ++ be32 (widths l).sum ++ encFields (widths l) vals
    | none => []
  | .unknown fmt body => be32 fmt ++ be32 body.length ++ body

def encSampleBody : ASample → Bytes
  | .flow seq ty idx rate pool drops inp out recs =>
    encFields [4, 1] [seq, ty] ++ (encBE 3 idx ++
      (encFields [4, 4, 4, 4, 4, 4] [rate, pool, drops, inp, out, recs.length] ++ encList encFlowRec recs))
  | .counter seq ty idx recs =>
    encFields [4, 1, 3, 4] [seq, ty, idx, recs.length] ++ encList encCounterRec recs
  | .unknown _ body => body

def ASample.type : ASample → Nat
  | .flow .. => 1
  | .counter .. => 2
  | .unknown t _ => t

def encSample (s : ASample) : Bytes :=
  be32 s.type ++ be32 (encSampleBody s).length ++ encSampleBody s

def encodeSflow (d : ADatagram) : Bytes :=
  be32 5 ++ be32 (if d.agent.length = 16 then 2 else 1) ++
    (d.agent ++ (encFields [4, 4, 4, 4] [d.subID, d.seqNo, d.upTime, d.samples.length] ++ encList encSample d.samples))

/-! ## well-formedness: values fit their fields, lengths fit 32 bits, header ≤ 1500 octets -/

/-- a raw-header record is well-formed when its four words fit and the sampled header has at most 1500 octets:
nothing is asked of the octets themselves or of the header protocol (F19a), and the header may be empty -/
def AFlowRec.WF : AFlowRec → Prop
  | .raw proto fl st hdr => Fits [4, 4, 4, 4] [proto, fl, st, hdr.length] ∧ hdr.length ≤ 1500
  | .sw s => Fits [4, 4, 4, 4] [s.srcVlan, s.srcPriority, s.dstVlan, s.dstPriority]
  | .rtr r => (r.nextHop.length = 4 ∨ r.nextHop.length = 16) ∧ Fits [4, 4] [r.srcMask, r.dstMask]
  | .unknown fmt body => fmt ≠ 1 ∧ fmt ≠ 1001 ∧ (fmt = 1002 → body.length ≠ 16 ∧ body.length ≠ 28) ∧
      fmt < 256 ^ 4 ∧ body.length < 256 ^ 4

def ACounterRec.WF : ACounterRec → Prop
  | .known fmt vals => ∃ l, counterLayout fmt = some l ∧ Fits (widths l) vals
  | .unknown fmt body => counterLayout fmt = none ∧ fmt < 256 ^ 4 ∧ body.length < 256 ^ 4

def ASample.WF : ASample → Prop
  | .flow seq ty idx rate pool drops inp out recs =>
    Fits [4, 1] [seq, ty] ∧ idx < 256 ^ 3 ∧ Fits [4, 4, 4, 4, 4, 4] [rate, pool, drops, inp, out, recs.length] ∧
      (∀ r ∈ recs, r.WF) ∧ (encSampleBody (.flow seq ty idx rate pool drops inp out recs)).length < 256 ^ 4
  | .counter seq ty idx recs =>
    Fits [4, 1, 3, 4] [seq, ty, idx, recs.length] ∧ (∀ r ∈ recs, r.WF) ∧
      (encSampleBody (.counter seq ty idx recs)).length < 256 ^ 4
  | .unknown t body => (t / 4096 ≠ 0 ∨ (t % 4096 ≠ 1 ∧ t % 4096 ≠ 2)) ∧ t < 256 ^ 4 ∧ body.length < 256 ^ 4

def ADatagram.WF (d : ADatagram) : Prop :=
  (d.agent.length = 4 ∨ d.agent.length = 16) ∧ Fits [4, 4, 4, 4] [d.subID, d.seqNo, d.upTime, d.samples.length] ∧
    ∀ s ∈ d.samples, s.WF

/-! ## expected decode -/

/-- what a sampled header contributes: the packet it dissects to, nothing when the dissector rejects it
(`dissect` never panics: `Packet.dissect_safe`) -/
def dissected (hdr : Bytes) (proto : Nat) : Option Pkt :=
  match dissect hdr proto with
  | .ok p => some p
  | _ => none

theorem dissected_ok {hdr : Bytes} {proto : Nat} {p : Pkt} (h : dissect hdr proto = .ok p) :
    dissected hdr proto = some p := by simp [dissected, h]

theorem dissected_err {hdr : Bytes} {proto : Nat} {e : Err} (h : dissect hdr proto = .err e) :
    dissected hdr proto = none := by simp [dissected, h]

/-- F33: a raw-header record is reported whatever its octets are — header protocol, frame length, stripped and
the number of sampled octets as they are on the wire, and the packet the octets dissect to, if any -/
def expFlowRec : AFlowRec → Option FlowRec
  | .raw proto fl st hdr => some (.raw ⟨proto, fl, st, hdr.length, dissected hdr proto⟩)
  | .sw s => some (.sw s)
  | .rtr r => some (.rtr r)
  | .unknown _ _ => none

def expCounterRec : ACounterRec → Option (Nat × List Nat)
  | .known fmt vals => some (fmt, vals)
  | .unknown _ _ => none

def expSample : ASample → Option Sample
  | .flow seq ty idx rate pool drops inp out recs =>
    some (.flow ⟨seq, ty, idx, rate, pool, drops, inp, out, recs.length, FlowRecs.ofList (recs.map expFlowRec)⟩)
  | .counter seq ty idx recs =>
    some (.counter ⟨seq, ty, idx, recs.length, CounterRecs.ofList (recs.map expCounterRec)⟩)
  | .unknown _ _ => none

/-- the decoded datagram the abstract datagram stands for: header fields, agent address, and in wire
order every flow sample and every counter sample with all its fields -/
def expected (d : ADatagram) : Datagram :=
  mkDatagram ⟨5, if d.agent.length = 16 then 2 else 1, d.agent, d.subID, d.seqNo, d.upTime, d.samples.length⟩
    (d.samples.map expSample)

/-! ## generic loop round trip -/

theorem loopN_encList {α A : Type} (step : Bytes → Res (α × Bytes)) (enc : A → Bytes) (exp : A → α)
    (WF : A → Prop) (hstep : ∀ a t, WF a → step (enc a ++ t) = .ok (exp a, t)) :
    ∀ (as : List A) (fuel : Nat) (t : Bytes), (∀ a ∈ as, WF a) → as.length ≤ fuel →
      loopN step fuel as.length (encList enc as ++ t) = .ok (as.map exp, t) := by
  intro as
  induction as with
  | nil => intro fuel t _ _; simp [loopN_zero, encList]
  | cons a as ih =>
    intro fuel t hwf hf
    cases fuel with
    | zero => simp at hf
    | succ fuel =>
      simp only [List.length_cons, loopN, encList, List.append_assoc]
      rw [hstep a _ (hwf a List.mem_cons_self)]
      simp only
      rw [ih fuel t (fun x hx => hwf x (List.mem_cons_of_mem _ hx)) (by simpa using hf)]
      simp

theorem encList_length_ge {A : Type} (enc : A → Bytes) (as : List A) (h : ∀ a ∈ as, 1 ≤ (enc a).length) :
    as.length ≤ (encList enc as).length := by
  induction as with
  | nil => simp [encList]
  | cons a as ih =>
    have h1 := h a List.mem_cons_self
    have h2 := ih (fun x hx => h x (List.mem_cons_of_mem _ hx))
    simp [encList]; omega

theorem be32_length (v : Nat) : (be32 v).length = 4 := encBE_length 4 v

theorem u32_be32 (v : Nat) (t : Bytes) (h : v < 256 ^ 4) : u32 (be32 v ++ t) = some (v, t) := u32_enc v t h

theorem rawRead_append (x t : Bytes) (n : Nat) (h : x.length = n) (hn : 0 < n) :
    rawRead n (x ++ t) = some (x, t) := by
  subst h
  unfold rawRead
  have : ¬ (x ++ t).length = 0 := by rw [List.length_append]; omega
  rw [if_neg this]
  simp

/-- the header octets are read whole, whatever follows — also when there are none and nothing follows -/
theorem readHdr_append (x t : Bytes) (n : Nat) (h : x.length = n) : readHdr n (x ++ t) = some (x, t) := by
  unfold readHdr
  split
  · rename_i h0
    have hx : x = [] := List.eq_nil_of_length_eq_zero (by omega)
    subst hx
    simp
  · exact rawRead_append x t n h (by omega)

/-! ## records -/

/-- **raw packet header, any octets**: the record (four words, the sampled octets, XDR padding) is consumed
exactly, whatever the octets are; the result is the four words with the packet the octets dissect to, or with none -/
theorem decodeSampledHeader_enc (proto fl st : Nat) (hdr : Bytes) (t : Bytes)
    (hwf : (AFlowRec.raw proto fl st hdr).WF) :
    decodeSampledHeader (encFields [4, 4, 4, 4] [proto, fl, st, hdr.length] ++
      ((hdr ++ List.replicate (pad hdr.length) 0) ++ t)) =
      .ok (⟨proto, fl, st, hdr.length, dissected hdr proto⟩, t) := by
  obtain ⟨hfit, hle⟩ := hwf
  unfold decodeSampledHeader
  rw [readFields_enc _ _ _ hfit]
  simp only
  have h1 : ¬ hdr.length > 1500 := by omega
  simp only [h1, if_false]
  rw [show (4 - hdr.length % 4) % 4 = pad hdr.length from rfl]
  rw [readHdr_append _ t (hdr.length + pad hdr.length) (by simp)]
  simp only
  rw [slice?_le (Nat.zero_le _) (by simp)]
  simp only [List.drop_zero, Nat.sub_zero, List.take_left' rfl]
  have hs := dissect_safe hdr proto
  unfold dissected
  cases hx : dissect hdr proto with
  | ok p => rfl
  | err e => rfl
  | panic => exact absurd hx hs.1
  | fuel => exact absurd hx hs.2

theorem decodeExtSwitch_enc (s : ExtSwitch) (t : Bytes) (hwf : (AFlowRec.sw s).WF) :
    decodeExtSwitch (encFields [4, 4, 4, 4] [s.srcVlan, s.srcPriority, s.dstVlan, s.dstPriority] ++ t) = .ok (s, t) := by
  unfold decodeExtSwitch
  rw [readFields_enc _ _ _ hwf]

theorem decodeExtRouter_enc (r : ExtRouter) (t : Bytes) (hwf : (AFlowRec.rtr r).WF) :
    decodeExtRouter (r.nextHop.length + 12)
      ((be32 (if r.nextHop.length = 4 then 1 else 2) ++ r.nextHop) ++ (encFields [4, 4] [r.srcMask, r.dstMask] ++ t)) =
      .ok (r, t) := by
  obtain ⟨hl, hfit⟩ := hwf
  unfold decodeExtRouter
  have h1 : ¬ (r.nextHop.length + 12 ≠ 16 ∧ r.nextHop.length + 12 ≠ 28) := by omega
  simp only [h1, if_false]
  rw [full_append _ _ _ (by simp [be32_length]; omega)]
  simp only
  rw [from?_le (by simp [be32_length])]
  simp only [List.drop_left' (be32_length _)]
  rw [readFields_enc _ _ _ hfit]

/-- **flow record round trip**: raw header (XDR padding included), extended switch, extended router
(IPv4 / IPv6 next hop), and unknown formats skipped by their declared length -/
theorem flowRecord_enc (a : AFlowRec) (t : Bytes) (hwf : a.WF) :
    flowRecord (encFlowRec a ++ t) = .ok (expFlowRec a, t) := by
  cases a with
  | raw proto fl st hdr =>
    have hlen : 16 + hdr.length + pad hdr.length < 256 ^ 4 := by
      have := hwf.2; simp [pad]; omega
    simp only [encFlowRec, flowRecord, List.append_assoc, u32_be32 1 _ (by decide), u32_be32 _ _ hlen, if_true]
    rw [← List.append_assoc hdr, decodeSampledHeader_enc proto fl st hdr t hwf]
    rfl
  | sw s =>
    simp only [encFlowRec, flowRecord, List.append_assoc, u32_be32 1001 _ (by decide), u32_be32 16 _ (by decide),
      show ¬ (1001 = 1) by decide, if_false, if_true]
    rw [decodeExtSwitch_enc s t hwf]
    rfl
  | rtr r =>
    have hlen : r.nextHop.length + 12 < 256 ^ 4 := by
      have := hwf.1; omega
    have hl2 : ¬ (r.nextHop.length + 12 ≠ 16 ∧ r.nextHop.length + 12 ≠ 28) := by
      have := hwf.1; omega
    have := decodeExtRouter_enc r t hwf
    simp only [List.append_assoc] at this
    simp only [encFlowRec, flowRecord, List.append_assoc, u32_be32 1002 _ (by decide), u32_be32 _ _ hlen,
      show ¬ (1002 = 1) by decide, show ¬ (1002 = 1001) by decide, if_false, if_true, hl2, this]
    rfl
  | unknown fmt body =>
    obtain ⟨h1, h2, h3, hf, hb⟩ := hwf
    simp only [encFlowRec, flowRecord, List.append_assoc, u32_be32 fmt _ hf, u32_be32 _ _ hb,
      h1, h2, if_false, List.drop_left' rfl]
    by_cases h1002 : fmt = 1002
    · have := h3 h1002
      simp [h1002, this, expFlowRec]
    · simp [h1002, expFlowRec]

/-- **counter record round trip**, generic in the layout: every format `counterLayout` knows
(generic interface, Ethernet, token ring, 100BaseVG, VLAN, processor) is read field by field in layout
order; unknown formats are skipped by their declared length -/
theorem counterRecord_enc (a : ACounterRec) (t : Bytes) (hwf : a.WF) :
    counterRecord (encCounterRec a ++ t) = .ok (expCounterRec a, t) := by
  cases a with
  | known fmt vals =>
    obtain ⟨l, hl, hfit⟩ := hwf
    have hf : fmt < 256 ^ 4 := by
      unfold counterLayout at hl
      repeat (split at hl; · omega)
      simp at hl
    have hs : (widths l).sum < 256 ^ 4 := by
      unfold counterLayout at hl
      repeat (split at hl; · simp at hl; subst hl; decide)
      simp at hl
    simp only [encCounterRec, hl, counterRecord, List.append_assoc, u32_be32 fmt _ hf, u32_be32 _ _ hs,
      readFields_enc _ _ _ hfit]
    rfl
  | unknown fmt body =>
    obtain ⟨hl, hf, hb⟩ := hwf
    simp only [encCounterRec, counterRecord, List.append_assoc, u32_be32 fmt _ hf, u32_be32 _ _ hb, hl,
      List.drop_left' rfl]
    rfl

/-! ## samples -/

theorem encFlowRec_length_pos (a : AFlowRec) : 1 ≤ (encFlowRec a).length := by
  cases a <;> simp [encFlowRec, be32_length] <;> omega

theorem encCounterRec_length_pos (a : ACounterRec) (h : a.WF) : 1 ≤ (encCounterRec a).length := by
  cases a with
  | known fmt vals => obtain ⟨l, hl, _⟩ := h; simp [encCounterRec, hl, be32_length]; omega
  | unknown fmt body => simp [encCounterRec, be32_length]; omega

theorem encSample_length_pos (a : ASample) : 1 ≤ (encSample a).length := by
  simp [encSample, be32_length]; omega

/-- **flow sample round trip**: the nine header fields (source-id type and 24-bit index included) and every record -/
theorem decodeFlowSample_enc (seq ty idx rate pool drops inp out : Nat) (recs : List AFlowRec) (t : Bytes)
    (hwf : (ASample.flow seq ty idx rate pool drops inp out recs).WF) :
    decodeFlowSample (encSampleBody (.flow seq ty idx rate pool drops inp out recs) ++ t) =
      .ok (⟨seq, ty, idx, rate, pool, drops, inp, out, recs.length, FlowRecs.ofList (recs.map expFlowRec)⟩, t) := by
  obtain ⟨h1, hidx, h2, hr, _⟩ := hwf
  have hfit : Fits [4, 1, 3, 4, 4, 4, 4, 4, 4] [seq, ty, idx, rate, pool, drops, inp, out, recs.length] :=
    ⟨h1.1, h1.2.1, hidx, h2⟩
  have henc : encFields [4, 1] [seq, ty] ++ (encBE 3 idx ++
      (encFields [4, 4, 4, 4, 4, 4] [rate, pool, drops, inp, out, recs.length] ++ (encList encFlowRec recs ++ t))) =
      encFields [4, 1, 3, 4, 4, 4, 4, 4, 4] [seq, ty, idx, rate, pool, drops, inp, out, recs.length] ++
        (encList encFlowRec recs ++ t) := by
    simp [encFields, List.append_assoc]
  unfold decodeFlowSample
  simp only [encSampleBody, List.append_assoc]
  rw [henc, readFields_enc _ _ _ hfit]
  simp only
  rw [loopN_encList flowRecord encFlowRec expFlowRec AFlowRec.WF flowRecord_enc recs _ t hr
    (by have := encList_length_ge encFlowRec recs (fun a _ => encFlowRec_length_pos a); simp; omega)]

/-- **counter sample round trip**: the four header fields and every record -/
theorem decodeCounterSample_enc (seq ty idx : Nat) (recs : List ACounterRec) (t : Bytes)
    (hwf : (ASample.counter seq ty idx recs).WF) :
    decodeCounterSample (encSampleBody (.counter seq ty idx recs) ++ t) =
      .ok (⟨seq, ty, idx, recs.length, CounterRecs.ofList (recs.map expCounterRec)⟩, t) := by
  obtain ⟨h1, hr, _⟩ := hwf
  unfold decodeCounterSample
  simp only [encSampleBody, List.append_assoc, readFields_enc _ _ _ h1]
  rw [loopN_encList counterRecord encCounterRec expCounterRec ACounterRec.WF counterRecord_enc recs _ t hr
    (by have := encList_length_ge encCounterRec recs (fun a ha => encCounterRec_length_pos a (hr a ha)); simp; omega)]

/-- **one sample, any filter**: a flow / counter sample is decoded field for field unless its type is
filtered; every other type is skipped by its declared length -/
theorem sampleStep_enc (f : List Nat) (s : ASample) (t : Bytes) (hwf : s.WF) :
    sampleStep f (encSample s ++ t) = .ok (keep f (expSample s), t) := by
  cases s with
  | flow seq ty idx rate pool drops inp out recs =>
    have hl := hwf.2.2.2.2
    have hd := decodeFlowSample_enc seq ty idx rate pool drops inp out recs t hwf
    simp only [sampleStep, sampleInfo, encSample, ASample.type, List.append_assoc, u32_be32 1 _ (by decide),
      u32_be32 _ _ hl, show (1 / 4096 ≠ 0) = False by decide, show 1 % 4096 = 1 by decide, if_false, if_true]
    by_cases hf : 1 ∈ f
    · simp [hf, keep, expSample, Sample.type]
    · simp [hf, hd, Res.mapFst, keep, expSample, Sample.type]
  | counter seq ty idx recs =>
    have hl := hwf.2.2
    have hd := decodeCounterSample_enc seq ty idx recs t hwf
    simp only [sampleStep, sampleInfo, encSample, ASample.type, List.append_assoc, u32_be32 2 _ (by decide),
      u32_be32 _ _ hl, show (2 / 4096 ≠ 0) = False by decide, show 2 % 4096 = 2 by decide,
      show ¬ (2 = 1) by decide, if_false, if_true]
    by_cases hf : 2 ∈ f
    · simp [hf, keep, expSample, Sample.type]
    · simp [hf, hd, Res.mapFst, keep, expSample, Sample.type]
  | unknown ty body =>
    obtain ⟨hty, ht, hb⟩ := hwf
    simp only [sampleStep, sampleInfo, encSample, ASample.type, encSampleBody, List.append_assoc,
      u32_be32 ty _ ht, u32_be32 _ _ hb, List.drop_left' rfl, keep, expSample, Option.bind]
    by_cases he : ty / 4096 ≠ 0
    · simp [he]
    · have h12 := hty.resolve_left he
      simp [he, h12.1, h12.2]

/-! ## datagram -/

theorem encodeSflow_samples_le (d : ADatagram) : d.samples.length ≤ (encodeSflow d).length + 1 := by
  have := encList_length_ge encSample d.samples (fun a _ => encSample_length_pos a)
  simp [encodeSflow]; omega

/-- **datagram round trip, any filter**: header fields, agent address (IPv4 or IPv6), every flow and
counter sample in wire order with all fields, minus the filtered types; unknown samples skipped -/
theorem decode_enc (f : List Nat) (d : ADatagram) (hwf : d.WF) :
    decode f (encodeSflow d) = .ok (dropTypes f (expected d)) := by
  obtain ⟨ha, hfit, hs⟩ := hwf
  have hloop := loopN_encList (sampleStep f) encSample (fun s => keep f (expSample s)) ASample.WF
    (sampleStep_enc f) d.samples ((encodeSflow d).length + 1) [] hs (encodeSflow_samples_le d)
  rw [List.append_nil] at hloop
  have hraw : rawRead (if (if d.agent.length = 16 then 2 else 1) = 2 then 16 else 4)
      (d.agent ++ (encFields [4, 4, 4, 4] [d.subID, d.seqNo, d.upTime, d.samples.length] ++ encList encSample d.samples)) =
      some (d.agent, encFields [4, 4, 4, 4] [d.subID, d.seqNo, d.upTime, d.samples.length] ++ encList encSample d.samples) := by
    rcases ha with h4 | h16
    · rw [rawRead_append _ _ _ (by simp [h4]) (by simp [h4])]
    · rw [rawRead_append _ _ _ (by simp [h16]) (by simp [h16])]
  have hver : (if d.agent.length = 16 then 2 else 1) < 256 ^ 4 := by split <;> decide
  have hhdr : decodeHeader (encodeSflow d) =
      .ok (⟨5, if d.agent.length = 16 then 2 else 1, d.agent, d.subID, d.seqNo, d.upTime, d.samples.length⟩,
           encList encSample d.samples) := by
    simp only [decodeHeader, encodeSflow, List.append_assoc, u32_be32 5 _ (by decide), u32_be32 _ _ hver,
      show ¬ (5 ≠ 5) by decide, if_false, hraw, readFields_enc _ _ _ hfit]
  unfold decode
  rw [hhdr]
  simp only
  rw [hloop]
  simp only
  have hmap : d.samples.map (fun s => keep f (expSample s)) = (d.samples.map expSample).map (keep f) := by
    rw [List.map_map]; rfl
  rw [hmap, mkDatagram_keep]
  rfl

end Vflow.Sflow
