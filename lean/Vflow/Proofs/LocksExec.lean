import Vflow.Proofs.Locks
/-! The executable twin used by the driver is sound for the step relation: what the scheduler
runs is a run, what it reports as a race is a race. Core Lean only. -/
namespace Vflow
namespace Locks

theorem writerHeldB_iff (σ : Sys) (s : Nat) : writerHeldB σ s = true ↔ writerHeld σ s := by
  simp [writerHeldB, writerHeld]

theorem readerHeldB_iff (σ : Sys) (s : Nat) : readerHeldB σ s = true ↔ readerHeld σ s := by
  simp [readerHeldB, readerHeld]

theorem enabledB_sound {σ : Sys} {a : Act} (h : enabledB σ a = true) : Enabled σ a := by
  cases a <;> simp only [enabledB, Enabled] at * <;> try trivial
  case lock s =>
    simp at h
    exact ⟨fun hc => by simp [(writerHeldB_iff σ s).mpr hc] at h,
           fun hc => by simp [(readerHeldB_iff σ s).mpr hc] at h⟩
  case rlock s =>
    simp at h
    exact fun hc => by simp [(writerHeldB_iff σ s).mpr hc] at h

/-- a step of the executable model is a step of the relation -/
theorem step?_sound {σ σ' : Sys} {i : Nat} (h : step? σ i = some σ') : ∃ a, Step σ i a σ' := by
  unfold step? at h
  cases hi : σ.threads[i]? with
  | none => simp [hi] at h
  | some t =>
    simp only [hi] at h
    cases hp : t.prog with
    | nil => simp [hp] at h
    | cons a p =>
      simp only [hp] at h
      split at h
      · rename_i hen
        injection h with h
        exact ⟨a, t, p, hi, hp, enabledB_sound hen, h.symm⟩
      · simp at h

theorem conflictB_sound {a b : Act} (h : conflictB a b = true) : conflict a b := by
  cases a <;> cases b <;> simp [conflictB] at h <;> simp [conflict, h]

/-- what the executable check reports as a race is a race -/
theorem raceB_sound {σ : Sys} (h : raceB σ = true) : Race σ := by
  simp only [raceB, List.any_eq_true, List.mem_range, List.length_map] at h
  obtain ⟨i, _, j, _, h⟩ := h
  simp only [Bool.and_eq_true, bne_iff_ne, ne_eq] at h
  obtain ⟨hij, h⟩ := h
  simp only [List.getElem?_map] at h
  cases hi : σ.threads[i]? with
  | none => simp [hi] at h
  | some ti =>
    cases hj : σ.threads[j]? with
    | none => simp [hi, hj] at h
    | some tj =>
      simp only [hi, hj, Option.map_some] at h
      cases ha : ti.prog.head? with
      | none => simp [ha] at h
      | some a =>
        cases hb : tj.prog.head? with
        | none => simp [ha, hb] at h
        | some b =>
          simp only [ha, hb] at h
          exact ⟨i, j, ti, tj, a, b, hij, hi, hj, ha, hb, conflictB_sound h⟩

/-- the scheduler only follows steps: its final state is reachable, and a reported race is one -/
theorem schedule_sound (pick : Nat → Nat) : ∀ (fuel n : Nat) (init σ : Sys) (hist : List Ev),
    Run init hist σ → ∃ hist', Run init hist' (schedule pick fuel n σ).2 ∧
      ((schedule pick fuel n σ).1 = .race → Race (schedule pick fuel n σ).2) := by
  intro fuel
  induction fuel with
  | zero => intro n init σ hist hr; exact ⟨hist, by simpa [schedule] using hr, by simp [schedule]⟩
  | succ f ih =>
    intro n init σ hist hr
    unfold schedule
    split
    · rename_i hrace
      exact ⟨hist, hr, fun _ => raceB_sound hrace⟩
    · split
      · exact ⟨hist, hr, by simp⟩
      · simp only []
        split
        · rename_i σ' hfind
          obtain ⟨d, _, hd⟩ := List.exists_of_findSome?_eq_some hfind
          simp only [Option.map_eq_some_iff] at hd
          obtain ⟨σ'', hst, rfl⟩ := hd
          obtain ⟨a, st⟩ := step?_sound hst
          exact ih (n + 1) init _ _ (Run.step hr st)
        · exact ⟨hist, hr, by simp⟩

theorem orElse_some {α : Type} {a b : Option α} {x : α} (h : (a <|> b) = some x) : a = some x ∨ b = some x := by
  cases a with
  | none => right; simpa using h
  | some y => left; simpa using h

theorem scheduleFreeze_sound (i : Nat) : ∀ (fuel : Nat) (init σ : Sys) (hist : List Ev),
    Run init hist σ → ∃ hist', Run init hist' (scheduleFreeze i fuel σ).2 ∧
      ((scheduleFreeze i fuel σ).1 = .race → Race (scheduleFreeze i fuel σ).2) := by
  intro fuel
  induction fuel with
  | zero => intro init σ hist hr; exact ⟨hist, by simpa [scheduleFreeze] using hr, by simp [scheduleFreeze]⟩
  | succ f ih =>
    intro init σ hist hr
    unfold scheduleFreeze
    split
    · rename_i hrace
      exact ⟨hist, hr, fun _ => raceB_sound hrace⟩
    · split
      · exact ⟨hist, hr, by simp⟩
      · simp only []
        split
        · rename_i σ' hnext
          have hstep : ∃ j, step? σ j = some σ' := by
            have hoth : ∀ x, (List.range σ.threads.length).findSome?
                (fun j => if j = i then none else step? σ j) = some x → ∃ j, step? σ j = some x := by
              intro x hx
              obtain ⟨j, _, hj⟩ := List.exists_of_findSome?_eq_some hx
              split at hj
              · simp at hj
              · exact ⟨j, hj⟩
            split at hnext
            · rcases orElse_some hnext with h | h
              · exact hoth _ h
              · exact ⟨i, h⟩
            · rcases orElse_some hnext with h | h
              · exact ⟨i, h⟩
              · exact hoth _ h
          obtain ⟨j, hj⟩ := hstep
          obtain ⟨a, st⟩ := step?_sound hj
          exact ih init _ _ (Run.step hr st)
        · exact ⟨hist, hr, by simp⟩

end Locks
end Vflow
