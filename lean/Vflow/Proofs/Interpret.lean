import Vflow.Spec.Wire
/-!
# `interpret` on integer fields = the RFC's value of the field's octets (F24)

`Wire.unsignedValue` / `Wire.signedValue` are written from RFC 7011 §6.1.1 / §6.1.2 (most significant octet
first, two's complement over all the bits of the field).  Here: for the eight integer types, a field at least as
long as the type and at most 8 octets long is decoded to exactly that number; longer than 8 octets, or shorter
than the type, to its raw octets.  Statements are re-exported in `Props/C03` and `Props/C06`.
-/
namespace Vflow.Interp
open Vflow Vflow.Wire

theorem beN_foldl (b : Bytes) (a : Nat) :
    b.foldl (fun a x => a * 256 + x.toNat) a = a * 256 ^ b.length + unsignedValue b := by
  induction b generalizing a with
  | nil => simp [unsignedValue]
  | cons x xs ih =>
    simp only [List.foldl_cons, ih, unsignedValue, List.length_cons, Nat.pow_succ]
    rw [Nat.add_mul, Nat.mul_assoc, Nat.mul_comm (256 ^ xs.length) 256, Nat.add_assoc]

/-- the model's `beN` (a left fold, as `binary.BigEndian.UintK` / the loop of `wideUint` compute it) is the
positional value of the octets -/
theorem beN_eq_unsignedValue (b : Bytes) : beN b = unsignedValue b := by
  simp [beN, beN_foldl]

theorem unsignedValue_lt (b : Bytes) : unsignedValue b < 256 ^ b.length := by
  induction b with
  | nil => simp [unsignedValue]
  | cons x xs ih =>
    simp only [unsignedValue, List.length_cons, Nat.pow_succ]
    have hx : x.toNat < 256 := UInt8.toNat_lt x
    have : x.toNat * 256 ^ xs.length + 256 ^ xs.length ≤ 256 * 256 ^ xs.length := by
      rw [← Nat.succ_mul]; exact Nat.mul_le_mul_right _ hx
    rw [Nat.mul_comm (256 ^ xs.length) 256]
    omega

theorem take_all (b : Bytes) (k : Nat) (h : b.length = k) : b.take k = b := by
  subst h; exact List.take_length

/-! ## unsigned -/

/-- an unsigned field of exactly the type's size keeps the Go type of that size; a longer one (≤ 8) is `uint64` -/
theorem interpret_unsigned (b : Bytes) (t k : Nat) (ht : uintSize? t = some k)
    (hk : k ≤ b.length) (h8 : b.length ≤ 8) :
    intOf (interpret b t) = some (unsignedValue b : Int) ∧
    (interpret b t).kind = (if b.length = k then "u" ++ toString (8 * k) else "u64") := by
  have hcases : (t = 1 ∧ k = 1) ∨ (t = 2 ∧ k = 2) ∨ (t = 3 ∧ k = 4) ∨ (t = 4 ∧ k = 8) := by
    unfold uintSize? at ht
    split at ht <;> simp at ht <;> simp_all
  by_cases he : b.length = k
  · rw [if_pos he]
    rcases hcases with ⟨rfl, rfl⟩ | ⟨rfl, rfl⟩ | ⟨rfl, rfl⟩ | ⟨rfl, rfl⟩ <;>
      simp [interpret, minLen, isUintT, isIntT, he, take_all b _ he, intOf, Val.kind,
        beN_eq_unsignedValue] <;> rfl
  · rw [if_neg he]
    have hgt : k < b.length := by omega
    have h8' : ¬ b.length > 8 := by omega
    rcases hcases with ⟨rfl, rfl⟩ | ⟨rfl, rfl⟩ | ⟨rfl, rfl⟩ | ⟨rfl, rfl⟩ <;>
      (try (exfalso; omega)) <;>
      simp [interpret, minLen, isUintT, wideUint, intOf, Val.kind, beN_eq_unsignedValue, hgt, h8',
        Nat.not_lt.mpr (Nat.le_of_lt hgt)]

/-! ## signed -/

theorem signed_eq_signedValue (b : Bytes) (bound : Nat) (hb : bound = 256 ^ b.length) (hpos : 0 < b.length) :
    signed (unsignedValue b) bound = signedValue b := by
  subst hb
  unfold signed signedValue
  have heven : 256 ^ b.length = 2 * (256 ^ b.length / 2) := by
    obtain ⟨n, hn⟩ : ∃ n, b.length = n + 1 := ⟨b.length - 1, by omega⟩
    rw [hn, Nat.pow_succ]; omega
  by_cases h : 256 ^ b.length ≤ 2 * unsignedValue b
  · rw [if_pos h, if_pos (by omega)]
  · rw [if_neg h, if_neg (by omega)]

/-- `int64(v<<shift) >> shift` is the sign extension of the `8·len` bits: for 1 ≤ len ≤ 8 octets the value
`wideInt` computes is the two's-complement value of all octets -/
theorem wideInt_value (b : Bytes) (h1 : 1 ≤ b.length) (h8 : b.length ≤ 8) :
    wideInt b = .i64 (signedValue b) := by
  have hlt := unsignedValue_lt b
  have hne : ¬ b.length > 8 := by omega
  unfold wideInt
  rw [if_neg hne, beN_eq_unsignedValue]
  congr 1
  unfold signed signedValue
  generalize unsignedValue b = v at hlt ⊢
  have hl : b.length = 1 ∨ b.length = 2 ∨ b.length = 3 ∨ b.length = 4 ∨ b.length = 5 ∨ b.length = 6 ∨
      b.length = 7 ∨ b.length = 8 := by omega
  rcases hl with hl | hl | hl | hl | hl | hl | hl | hl <;> rw [hl] at hlt ⊢ <;>
    simp only [Nat.reducePow, Nat.reduceMul, Nat.reduceSub, Nat.reduceDiv] at hlt ⊢ <;>
    (split <;> split <;> omega)

/-- a signed field of exactly the type's size keeps the Go type of that size; a longer one (≤ 8) is `int64` -/
theorem interpret_signed (b : Bytes) (t k : Nat) (ht : intSize? t = some k)
    (hk : k ≤ b.length) (h8 : b.length ≤ 8) :
    intOf (interpret b t) = some (signedValue b) ∧
    (interpret b t).kind = (if b.length = k then "i" ++ toString (8 * k) else "i64") := by
  have hcases : (t = 5 ∧ k = 1) ∨ (t = 6 ∧ k = 2) ∨ (t = 7 ∧ k = 4) ∨ (t = 8 ∧ k = 8) := by
    unfold intSize? at ht
    split at ht <;> simp at ht <;> simp_all
  have hpos : 0 < b.length := by
    rcases hcases with ⟨_, rfl⟩ | ⟨_, rfl⟩ | ⟨_, rfl⟩ | ⟨_, rfl⟩ <;> omega
  by_cases he : b.length = k
  · rw [if_pos he]
    rcases hcases with ⟨rfl, rfl⟩ | ⟨rfl, rfl⟩ | ⟨rfl, rfl⟩ | ⟨rfl, rfl⟩ <;>
      simp only [interpret, minLen, isUintT, isIntT, he, take_all b _ he, intOf, Val.kind,
        beN_eq_unsignedValue, Nat.lt_irrefl, if_false, gt_iff_lt, decide_false, Bool.false_and,
        Bool.false_eq_true] <;>
      refine ⟨congrArg some (signed_eq_signedValue b _ (by rw [he]) hpos), by rfl⟩
  · rw [if_neg he]
    have hgt : k < b.length := by omega
    have hw := wideInt_value b (by omega) h8
    rcases hcases with ⟨rfl, rfl⟩ | ⟨rfl, rfl⟩ | ⟨rfl, rfl⟩ | ⟨rfl, rfl⟩ <;>
      (try (exfalso; omega)) <;>
      simp [interpret, minLen, isUintT, isIntT, hw, intOf, Val.kind, hgt,
        Nat.not_lt.mpr (Nat.le_of_lt hgt)]

/-! ## outside the integer range: raw octets -/

/-- an integer field of more than 8 octets is reported as its octets -/
theorem interpret_integer_too_long (b : Bytes) (t : Nat) (ht : (uintSize? t).isSome ∨ (intSize? t).isSome)
    (h : 8 < b.length) : interpret b t = .raw b := by
  have hcases : t = 1 ∨ t = 2 ∨ t = 3 ∨ t = 4 ∨ t = 5 ∨ t = 6 ∨ t = 7 ∨ t = 8 := by
    rcases ht with ht | ht
    · unfold uintSize? at ht; split at ht <;> simp_all
    · unfold intSize? at ht; split at ht <;> simp_all
  have h1 : ¬ b.length < 1 := by omega
  have h2 : ¬ b.length < 2 := by omega
  have h4 : ¬ b.length < 4 := by omega
  have h8 : ¬ b.length < 8 := by omega
  have g1 : 1 < b.length := by omega
  have g2 : 2 < b.length := by omega
  have g4 : 4 < b.length := by omega
  rcases hcases with rfl | rfl | rfl | rfl | rfl | rfl | rfl | rfl <;>
    simp [interpret, minLen, isUintT, isIntT, wideUint, wideInt, h, h1, h2, h4, h8, g1, g2, g4]

/-- a field shorter than the type's size is reported as its octets (every type) -/
theorem interpret_too_short (b : Bytes) (t : Nat) (h : b.length < minLen t) : interpret b t = .raw b := by
  simp [interpret, h]

/-! ## the same, for the field a collector must report (`Wire.expectedField`, the right-hand side of the record
round trips of C03 / C06) -/

attribute [local irreducible] Vflow.lookupElem

theorem expectedField_of_lookup {s : Spec} {v : Bytes} {fid ty : Nat}
    (h : lookupElem s.ent s.id = some (fid, ty)) :
    expectedField s v = ⟨fid, s.ent, interpret v ty⟩ := by
  unfold expectedField
  rw [h]

/-- an unsigned element (unsigned8 … unsigned64) sent in `k ≤ n ≤ 8` octets, `k` the type's size, is reported with
the element id, the enterprise number and the RFC value of ALL `n` octets -/
theorem expected_unsigned (s : Spec) (v : Bytes) (fid ty k : Nat)
    (hl : lookupElem s.ent s.id = some (fid, ty)) (ht : uintSize? ty = some k)
    (hk : k ≤ v.length) (h8 : v.length ≤ 8) :
    (expectedField s v).id = fid ∧ (expectedField s v).ent = s.ent ∧
    intOf (expectedField s v).val = some (unsignedValue v : Int) := by
  rw [expectedField_of_lookup hl]
  exact ⟨rfl, rfl, (interpret_unsigned v ty k ht hk h8).1⟩

/-- a signed element (signed8 … signed64) likewise: the two's-complement value of all `n` octets -/
theorem expected_signed (s : Spec) (v : Bytes) (fid ty k : Nat)
    (hl : lookupElem s.ent s.id = some (fid, ty)) (ht : intSize? ty = some k)
    (hk : k ≤ v.length) (h8 : v.length ≤ 8) :
    (expectedField s v).id = fid ∧ (expectedField s v).ent = s.ent ∧
    intOf (expectedField s v).val = some (signedValue v) := by
  rw [expectedField_of_lookup hl]
  exact ⟨rfl, rfl, (interpret_signed v ty k ht hk h8).1⟩

/-- outside that range — shorter than the type (any type), or an integer of more than 8 octets — the field's octets -/
theorem expected_raw (s : Spec) (v : Bytes) (fid ty : Nat)
    (hl : lookupElem s.ent s.id = some (fid, ty))
    (h : v.length < minLen ty ∨ (((uintSize? ty).isSome ∨ (intSize? ty).isSome) ∧ 8 < v.length)) :
    expectedField s v = ⟨fid, s.ent, .raw v⟩ := by
  rw [expectedField_of_lookup hl]
  rcases h with h | ⟨ht, h⟩
  · rw [interpret_too_short v ty h]
  · rw [interpret_integer_too_long v ty ht h]

end Vflow.Interp
