import Vflow.Proofs.SflowSafe
/-!
# The type filter: step-wise and loop-wise agreement of the filtered and the unfiltered decoder
-/
namespace Vflow.Sflow
open Vflow Vflow.Packet

/-- what the filter leaves of one loop item -/
def keep (f : List Nat) (o : Option Sample) : Option Sample :=
  o.bind fun s => if s.type ∈ f then none else some s

/-- the datagram without the samples of the listed types (flow samples are type 1, counter samples type 2) -/
def dropTypes (f : List Nat) (d : Datagram) : Datagram :=
  { d with samples := if 1 ∈ f then [] else d.samples, counters := if 2 ∈ f then [] else d.counters }

/-- map over the value of a `Res` -/
def Res.map {α β : Type} (g : α → β) : Res α → Res β
  | .ok a => .ok (g a)
  | .err e => .err e
  | .panic => .panic
  | .fuel => .fuel

/-- the sample at the head of `bs` is a standard one whose format is in `f` -/
def HeadFiltered (f : List Nat) (bs : Bytes) : Prop :=
  ∃ fmt len r, sampleInfo bs = .ok ((0, fmt, len), r) ∧ fmt ∈ f

/-- the sample at the head of `bs` is *framed*: if it is a flow or counter sample, decoding its body
succeeds and ends exactly where its declared length says -/
def HeadFramed (bs : Bytes) : Prop :=
  ∀ fmt len r, sampleInfo bs = .ok ((0, fmt, len), r) →
    (fmt = 1 → ∃ s, decodeFlowSample r = .ok (s, r.drop len)) ∧
    (fmt = 2 → ∃ c, decodeCounterSample r = .ok (c, r.drop len))

/-- along the (unfiltered) sample loop, every sample the filter would skip is framed -/
def Framed (f : List Nat) : Nat → Nat → Bytes → Prop
  | _, 0, _ => True
  | 0, _ + 1, _ => True
  | fuel + 1, n + 1, bs =>
    (HeadFiltered f bs → HeadFramed bs) ∧ ∀ a r, sampleStep [] bs = .ok (a, r) → Framed f fuel n r

theorem mapFst_mapFst {α β γ : Type} (g : α → β) (h : β → γ) (x : Res (α × Bytes)) :
    (x.mapFst g).mapFst h = x.mapFst (h ∘ g) := by
  cases x with
  | ok p => obtain ⟨a, r⟩ := p; rfl
  | _ => rfl

/-- one iteration: with the filter the step yields what the unfiltered step yields, filtered -/
theorem sampleStep_filter (f : List Nat) (bs : Bytes) (h : HeadFiltered f bs → HeadFramed bs) :
    sampleStep f bs = (sampleStep [] bs).mapFst (keep f) := by
  unfold sampleStep
  cases hx : sampleInfo bs with
  | ok p =>
    obtain ⟨⟨ent, fmt, len⟩, r⟩ := p
    simp only [List.not_mem_nil, if_false]
    by_cases he : ent ≠ 0
    · simp [he, Res.mapFst, keep]
    · have he0 : ent = 0 := by omega
      subst he0
      simp only [ne_eq, not_true_eq_false, if_false]
      by_cases hf : fmt ∈ f
      · simp only [hf, if_true]
        have hfr := h ⟨fmt, len, r, hx, hf⟩ fmt len r hx
        by_cases h1 : fmt = 1
        · obtain ⟨s, hs⟩ := hfr.1 h1
          subst h1
          simp [hs, Res.mapFst, keep, Sample.type, hf]
        · by_cases h2 : fmt = 2
          · obtain ⟨c, hc⟩ := hfr.2 h2
            subst h2
            simp [hc, Res.mapFst, keep, Sample.type, hf]
          · simp [h1, h2, Res.mapFst, keep]
      · simp only [hf, if_false]
        by_cases h1 : fmt = 1
        · subst h1
          simp only [if_true, mapFst_mapFst]
          congr 1
          funext s
          simp [keep, Sample.type, hf]
        · by_cases h2 : fmt = 2
          · subst h2
            simp only [h1, if_false, if_true, mapFst_mapFst]
            congr 1
            funext c
            simp [keep, Sample.type, hf]
          · simp [h1, h2, Res.mapFst, keep]
  | err e => rfl
  | panic => rfl
  | fuel => rfl

/-- the whole loop, by induction over it -/
theorem loopN_filter (f : List Nat) :
    ∀ fuel n bs, Framed f fuel n bs →
      loopN (sampleStep f) fuel n bs = (loopN (sampleStep []) fuel n bs).mapFst (List.map (keep f)) := by
  intro fuel
  induction fuel with
  | zero =>
    intro n bs _
    cases n with
    | zero => simp [loopN_zero, Res.mapFst]
    | succ n => simp [loopN, Res.mapFst]
  | succ fuel ih =>
    intro n bs hfr
    cases n with
    | zero => simp [loopN_zero, Res.mapFst]
    | succ n =>
      obtain ⟨hhead, hrest⟩ := hfr
      simp only [loopN]
      rw [sampleStep_filter f bs hhead]
      cases hs : sampleStep [] bs with
      | ok p =>
        obtain ⟨a, r⟩ := p
        simp only [Res.mapFst]
        rw [ih n r (hrest a r hs)]
        cases loopN (sampleStep []) fuel n r with
        | ok q => obtain ⟨as, r'⟩ := q; simp [Res.mapFst]
        | err e => simp [Res.mapFst]
        | panic => simp [Res.mapFst]
        | fuel => simp [Res.mapFst]
      | err e => simp [Res.mapFst]
      | panic => simp [Res.mapFst]
      | fuel => simp [Res.mapFst]

theorem fm_flow_none (t : List (Option Sample)) :
    (none :: t).filterMap (fun o => o.bind Sample.flow?) = t.filterMap (fun o => o.bind Sample.flow?) :=
  List.filterMap_cons_none rfl
theorem fm_flow_counter (c : CounterSample) (t : List (Option Sample)) :
    (some (.counter c) :: t).filterMap (fun o => o.bind Sample.flow?) = t.filterMap (fun o => o.bind Sample.flow?) :=
  List.filterMap_cons_none rfl
theorem fm_flow_flow (s : FlowSample) (t : List (Option Sample)) :
    (some (.flow s) :: t).filterMap (fun o => o.bind Sample.flow?) = s :: t.filterMap (fun o => o.bind Sample.flow?) :=
  List.filterMap_cons_some rfl
theorem fm_counter_none (t : List (Option Sample)) :
    (none :: t).filterMap (fun o => o.bind Sample.counter?) = t.filterMap (fun o => o.bind Sample.counter?) :=
  List.filterMap_cons_none rfl
theorem fm_counter_flow (s : FlowSample) (t : List (Option Sample)) :
    (some (.flow s) :: t).filterMap (fun o => o.bind Sample.counter?) = t.filterMap (fun o => o.bind Sample.counter?) :=
  List.filterMap_cons_none rfl
theorem fm_counter_counter (c : CounterSample) (t : List (Option Sample)) :
    (some (.counter c) :: t).filterMap (fun o => o.bind Sample.counter?) = c :: t.filterMap (fun o => o.bind Sample.counter?) :=
  List.filterMap_cons_some rfl

theorem keep_none (f : List Nat) : keep f none = none := rfl
theorem keep_flow (f : List Nat) (s : FlowSample) : keep f (some (.flow s)) = if 1 ∈ f then none else some (.flow s) := rfl
theorem keep_counter (f : List Nat) (c : CounterSample) :
    keep f (some (.counter c)) = if 2 ∈ f then none else some (.counter c) := rfl

theorem filterMap_keep_flow (f : List Nat) (items : List (Option Sample)) :
    (items.map (keep f)).filterMap (fun o => o.bind Sample.flow?) =
      if 1 ∈ f then [] else items.filterMap (fun o => o.bind Sample.flow?) := by
  induction items with
  | nil => simp
  | cons x t ih =>
    cases x with
    | none => simp only [List.map_cons, keep_none, fm_flow_none, ih]
    | some s =>
      cases s with
      | flow s =>
        by_cases h : 1 ∈ f
        · simp only [List.map_cons, keep_flow, h, if_true, fm_flow_none, ih]
        · simp only [List.map_cons, keep_flow, h, if_false, fm_flow_flow, ih]
      | counter c =>
        by_cases h : 2 ∈ f
        · simp only [List.map_cons, keep_counter, h, if_true, fm_flow_none, fm_flow_counter, ih]
        · simp only [List.map_cons, keep_counter, h, if_false, fm_flow_counter, ih]

theorem filterMap_keep_counter (f : List Nat) (items : List (Option Sample)) :
    (items.map (keep f)).filterMap (fun o => o.bind Sample.counter?) =
      if 2 ∈ f then [] else items.filterMap (fun o => o.bind Sample.counter?) := by
  induction items with
  | nil => simp
  | cons x t ih =>
    cases x with
    | none => simp only [List.map_cons, keep_none, fm_counter_none, ih]
    | some s =>
      cases s with
      | flow s =>
        by_cases h : 1 ∈ f
        · simp only [List.map_cons, keep_flow, h, if_true, fm_counter_none, fm_counter_flow, ih]
        · simp only [List.map_cons, keep_flow, h, if_false, fm_counter_flow, ih]
      | counter c =>
        by_cases h : 2 ∈ f
        · simp only [List.map_cons, keep_counter, h, if_true, fm_counter_none, ih]
        · simp only [List.map_cons, keep_counter, h, if_false, fm_counter_counter, ih]

theorem mkDatagram_keep (f : List Nat) (h : Header) (items : List (Option Sample)) :
    mkDatagram h (items.map (keep f)) = dropTypes f (mkDatagram h items) := by
  simp only [mkDatagram, dropTypes, filterMap_keep_flow, filterMap_keep_counter]

/-- a filter that lists neither flow (1) nor counter (2) samples needs no framing at all -/
theorem framed_of_unsupported (f : List Nat) (h1 : 1 ∉ f) (h2 : 2 ∉ f) : ∀ fuel n bs, Framed f fuel n bs := by
  intro fuel
  induction fuel with
  | zero => intro n bs; cases n <;> simp [Framed]
  | succ fuel ih =>
    intro n bs
    cases n with
    | zero => simp [Framed]
    | succ n =>
      refine ⟨?_, fun a r _ => ih n r⟩
      intro ⟨fmt, len, r, hx, hf⟩ fmt' len' r' hx'
      rw [hx] at hx'
      simp at hx'
      obtain ⟨⟨rfl, rfl⟩, rfl⟩ := hx'
      exact ⟨fun h => absurd (h ▸ hf) h1, fun h => absurd (h ▸ hf) h2⟩

end Vflow.Sflow
