import Vflow.Spec.JsonText
import Vflow.Proofs.JsonLex
/-!
# The scanner accepts every rendered tree and no proper prefix of a rendered object / array

About `Vflow.Spec.jsonValid` (the port of Go's `encoding/json` scanner, `Spec/JsonText.lean`) and the
RFC 8259 trees of `Spec/Json.lean`:

* `render_valid` — for every well-formed tree `j` nested at most `maxNestingDepth` (= Go's limit, 10000) deep,
  `jsonValid (render j) = true`.  By structural recursion over the tree (`run_value` and companions): reading
  `render j` from a state that expects a value leaves the parse stack as it was and ends in a state in which a
  value has just ended; the lexical lemmas `run_number` / `run_strBody` connect `isNumber` / `isStrBody` with
  the number and string states.
* `valid_prefix_rejected` — a general fact about the scanner: if a text that begins with `{` or `[` and does not
  end in whitespace is accepted, every proper prefix of it is rejected.  (After the opening bracket the parse
  stack is non-empty until the matching bracket empties it and moves the scanner to `endTop`
  (`Open` is an invariant of `step`); with a non-empty stack the end-of-input rule never accepts; from
  `endTop` anything but whitespace is an error, and errors are final.)
* `render_prefix_rejected` — the two combined, for objects and arrays.

(`Vflow.Proofs.JsonLex` is imported although only `Spec` is used: both modules run `fun_induction` / `split` on
`isStrBody`, `isNumber`, …, which creates auxiliary declarations on demand; created independently in two modules
that are later imported together they clash, created once in the imported module they are shared.)
-/
namespace Vflow.JsonScan
open Vflow Vflow.Spec

theorem run_append (s : Scan) (a b : Bytes) : run s (a ++ b) = run (run s a) b := List.foldl_append ..
theorem run_cons (s : Scan) (c : UInt8) (t : Bytes) : run s (c :: t) = run (step s c) t := rfl
theorem run_nil (s : Scan) : run s [] = s := rfl

theorem digit_cases {c : UInt8} (h : isDigit c = true) :
    c = 48 ∨ c = 49 ∨ c = 50 ∨ c = 51 ∨ c = 52 ∨ c = 53 ∨ c = 54 ∨ c = 55 ∨ c = 56 ∨ c = 57 := by
  simp only [isDigit, Bool.and_eq_true, decide_eq_true_eq, UInt8.le_iff_toNat_le] at h
  simp only [← UInt8.toNat_inj]
  have e48 : (48 : UInt8).toNat = 48 := rfl
  have e57 : (57 : UInt8).toNat = 57 := rfl
  rw [e48, e57] at h
  have : (49 : UInt8).toNat = 49 := rfl
  have : (50 : UInt8).toNat = 50 := rfl
  have : (51 : UInt8).toNat = 51 := rfl
  have : (52 : UInt8).toNat = 52 := rfl
  have : (53 : UInt8).toNat = 53 := rfl
  have : (54 : UInt8).toNat = 54 := rfl
  have : (55 : UInt8).toNat = 55 := rfl
  have : (56 : UInt8).toNat = 56 := rfl
  omega

/-- a property of all ten digits -/
theorem forall_digit {P : UInt8 → Prop} (h : P 48 ∧ P 49 ∧ P 50 ∧ P 51 ∧ P 52 ∧ P 53 ∧ P 54 ∧ P 55 ∧ P 56 ∧ P 57)
    {c : UInt8} (hc : isDigit c = true) : P c := by
  obtain ⟨h0, h1, h2, h3, h4, h5, h6, h7, h8, h9⟩ := h
  rcases digit_cases hc with r|r|r|r|r|r|r|r|r|r <;> subst r <;> assumption

theorem mem_takeWhile_digit {x : UInt8} : ∀ {l : Bytes}, x ∈ l.takeWhile isDigit → isDigit x = true
  | [], h => by simp at h
  | c :: t, h => by
    by_cases hc : isDigit c = true
    · rw [List.takeWhile_cons_of_pos hc] at h
      rcases List.mem_cons.mp h with rfl | h
      · exact hc
      · exact mem_takeWhile_digit h
    · rw [List.takeWhile_cons_of_neg hc] at h
      simp at h

def NumEnd (st : St) : Prop := st = .n0 ∨ st = .n1 ∨ st = .dot0 ∨ st = .e0

theorem digits1_all : ∀ l, digits1 l = true → l ≠ [] ∧ ∀ c ∈ l, isDigit c = true
  | [], h => by simp [digits1] at h
  | [c], h => by simpa [digits1] using h
  | c :: d :: t, h => by
    simp only [digits1, Bool.and_eq_true] at h
    have ih := digits1_all (d :: t) h.2
    refine ⟨by simp, ?_⟩
    intro x hx
    rcases List.mem_cons.mp hx with rfl | hx
    · exact h.1
    · exact ih.2 x hx

theorem run_stay (s : Scan) (l : Bytes) (h : ∀ c ∈ l, step s c = s) : run s l = s := by
  induction l with
  | nil => rfl
  | cons c t ih =>
    rw [run_cons, h c (List.mem_cons_self ..)]
    exact ih fun x hx => h x (List.mem_cons_of_mem _ hx)

theorem step_n1_digit (σ : List PS) {c : UInt8} (h : isDigit c = true) : step ⟨.n1, σ⟩ c = ⟨.n1, σ⟩ := by
  simp [step, h]
theorem step_dot0_digit (σ : List PS) {c : UInt8} (h : isDigit c = true) : step ⟨.dot0, σ⟩ c = ⟨.dot0, σ⟩ := by
  simp [step, h]
theorem step_e0_digit (σ : List PS) {c : UInt8} (h : isDigit c = true) : step ⟨.e0, σ⟩ c = ⟨.e0, σ⟩ := by
  simp [step, h]
theorem step_dot_digit (σ : List PS) {c : UInt8} (h : isDigit c = true) : step ⟨.dot, σ⟩ c = ⟨.dot0, σ⟩ := by
  simp [step, h]
theorem step_eSign_digit (σ : List PS) {c : UInt8} (h : isDigit c = true) : step ⟨.eSign, σ⟩ c = ⟨.e0, σ⟩ := by
  simp [step, stepESign, h]
theorem step_e_digit (σ : List PS) {c : UInt8} (h : isDigit c = true) : step ⟨.e, σ⟩ c = ⟨.e0, σ⟩ :=
  forall_digit (P := fun c => step ⟨.e, σ⟩ c = ⟨.e0, σ⟩) ⟨rfl, rfl, rfl, rfl, rfl, rfl, rfl, rfl, rfl, rfl⟩ h

/-- one or more digits: the first one moves `a` to `b`, the others stay in `b` -/
theorem run_digits1 (σ : List PS) (a b : St)
    (hab : ∀ c, isDigit c = true → step ⟨a, σ⟩ c = ⟨b, σ⟩) (hbb : ∀ c, isDigit c = true → step ⟨b, σ⟩ c = ⟨b, σ⟩)
    (l : Bytes) (hne : l ≠ []) (hl : ∀ c ∈ l, isDigit c = true) : run ⟨a, σ⟩ l = ⟨b, σ⟩ := by
  cases l with
  | nil => exact absurd rfl hne
  | cons c t =>
    rw [run_cons, hab c (hl c (List.mem_cons_self ..))]
    exact run_stay _ _ fun x hx => hbb x (hl x (List.mem_cons_of_mem _ hx))

theorem run_expOpt (σ : List PS) (st : St) (hst : st = .n0 ∨ st = .n1 ∨ st = .dot0) (l : Bytes)
    (h : isExpOpt l = true) : ∃ st', NumEnd st' ∧ run ⟨st, σ⟩ l = ⟨st', σ⟩ := by
  cases l with
  | nil => exact ⟨st, by rcases hst with r|r|r <;> simp [NumEnd, r], rfl⟩
  | cons c t =>
    simp only [isExpOpt, Bool.and_eq_true, Bool.or_eq_true, beq_iff_eq] at h
    obtain ⟨hc, ht⟩ := h
    have e1 : step ⟨st, σ⟩ c = ⟨.e, σ⟩ := by
      rcases hst with r|r|r <;> rcases hc with r'|r' <;> subst r <;> subst r' <;> rfl
    refine ⟨.e0, Or.inr (Or.inr (Or.inr rfl)), ?_⟩
    rw [run_cons, e1]
    split at ht
    · rename_i s t'
      split at ht
      · rename_i hs
        have e2 : step ⟨.e, σ⟩ s = ⟨.eSign, σ⟩ := by
          rcases hs with r|r <;> subst r <;> rfl
        rw [run_cons, e2]
        have := digits1_all _ ht
        exact run_digits1 σ .eSign .e0 (fun c => step_eSign_digit σ) (fun c => step_e0_digit σ) _ this.1 this.2
      · have := digits1_all _ ht
        exact run_digits1 σ .e .e0 (fun c => step_e_digit σ) (fun c => step_e0_digit σ) _ this.1 this.2
    · simp at ht

theorem run_fracExpOpt (σ : List PS) (st : St) (hst : st = .n0 ∨ st = .n1) (l : Bytes)
    (h : isFracExpOpt l = true) : ∃ st', NumEnd st' ∧ run ⟨st, σ⟩ l = ⟨st', σ⟩ := by
  unfold isFracExpOpt at h
  split at h
  · rename_i t
    simp only [Bool.and_eq_true, Bool.not_eq_true', List.isEmpty_eq_false_iff] at h
    have e1 : step ⟨st, σ⟩ 46 = ⟨.dot, σ⟩ := by rcases hst with r|r <;> subst r <;> rfl
    have hds : ∀ c ∈ t.takeWhile isDigit, isDigit c = true := fun c hc => mem_takeWhile_digit hc
    have e2 := run_digits1 σ .dot .dot0 (fun c => step_dot_digit σ) (fun c => step_dot0_digit σ) _ h.1 hds
    obtain ⟨st', hn, hr⟩ := run_expOpt σ .dot0 (Or.inr (Or.inr rfl)) _ h.2
    refine ⟨st', hn, ?_⟩
    rw [run_cons, e1, ← List.takeWhile_append_dropWhile (p := isDigit) (l := t), run_append, e2]
    exact hr
  · exact run_expOpt σ st (by rcases hst with r|r <;> simp [r]) _ h

theorem run_unsigned (σ : List PS) (st : St) (hst : st = .beginValue ∨ st = .neg) (l : Bytes)
    (h : isUnsignedNumber l = true) : ∃ st', NumEnd st' ∧ run ⟨st, σ⟩ l = ⟨st', σ⟩ := by
  unfold isUnsignedNumber at h
  split at h
  · rename_i t
    have e1 : step ⟨st, σ⟩ 48 = ⟨.n0, σ⟩ := by rcases hst with r|r <;> subst r <;> rfl
    rw [run_cons, e1]
    exact run_fracExpOpt σ .n0 (Or.inl rfl) _ h
  · rename_i c t _
    simp only [Bool.and_eq_true, decide_eq_true_eq] at h
    obtain ⟨⟨h1, h2⟩, ht⟩ := h
    have hd : isDigit c = true := by
      simp only [isDigit, Bool.and_eq_true, decide_eq_true_eq]
      exact ⟨UInt8.le_trans (by decide) h1, h2⟩
    have e1 : step ⟨st, σ⟩ c = ⟨.n1, σ⟩ := by
      rcases digit_cases hd with r|r|r|r|r|r|r|r|r|r <;> subst r <;> rcases hst with r|r <;> subst r <;>
        first | rfl | (exact absurd h1 (by decide))
    have hds : ∀ x ∈ t.takeWhile isDigit, isDigit x = true := fun x hx => mem_takeWhile_digit hx
    have e2 : run ⟨.n1, σ⟩ (t.takeWhile isDigit) = ⟨.n1, σ⟩ :=
      run_stay _ _ fun x hx => step_n1_digit σ (hds x hx)
    obtain ⟨st', hn, hr⟩ := run_fracExpOpt σ .n1 (Or.inr rfl) _ ht
    refine ⟨st', hn, ?_⟩
    rw [run_cons, e1, ← List.takeWhile_append_dropWhile (p := isDigit) (l := t), run_append, e2]
    exact hr
  · simp at h

/-- a number text, read from a state that expects a value, ends in one of the four states in which a
number may end; the parse stack is untouched -/
theorem run_number (σ : List PS) (d : Bytes) (h : isNumber d = true) :
    ∃ st', NumEnd st' ∧ run ⟨.beginValue, σ⟩ d = ⟨st', σ⟩ := by
  unfold isNumber at h
  split at h
  · rename_i t
    have e1 : step ⟨.beginValue, σ⟩ 45 = ⟨.neg, σ⟩ := rfl
    rw [run_cons, e1]
    exact run_unsigned σ .neg (Or.inr rfl) _ h
  · exact run_unsigned σ .beginValue (Or.inl rfl) _ h

theorem step_hex {c : UInt8} (h : isHexDigit c = true) (σ : List PS) :
    step ⟨.escU, σ⟩ c = ⟨.escU1, σ⟩ ∧ step ⟨.escU1, σ⟩ c = ⟨.escU12, σ⟩ ∧
    step ⟨.escU12, σ⟩ c = ⟨.escU123, σ⟩ ∧ step ⟨.escU123, σ⟩ c = ⟨.inString, σ⟩ := by
  simp [step, h]

theorem run_strBody (σ : List PS) : ∀ s, isStrBody s = true → run ⟨.inString, σ⟩ s = ⟨.inString, σ⟩ := by
  intro s
  fun_induction isStrBody s with
  | case1 => intro; rfl
  | case2 a b c d t ih =>
    intro h
    simp only [Bool.and_eq_true] at h
    obtain ⟨⟨⟨⟨ha, hb⟩, hc⟩, hd⟩, ht⟩ := h
    have e1 : step ⟨.inString, σ⟩ 92 = ⟨.inStringEsc, σ⟩ := rfl
    have e2 : step ⟨.inStringEsc, σ⟩ 117 = ⟨.escU, σ⟩ := rfl
    rw [run_cons, e1, run_cons, e2, run_cons, (step_hex ha σ).1, run_cons, (step_hex hb σ).2.1,
      run_cons, (step_hex hc σ).2.2.1, run_cons, (step_hex hd σ).2.2.2]
    exact ih ht
  | case3 e t hne ih =>
    intro h
    simp only [Bool.and_eq_true] at h
    obtain ⟨he, ht⟩ := h
    have e1 : step ⟨.inString, σ⟩ 92 = ⟨.inStringEsc, σ⟩ := rfl
    have : isEscLetter e = true := by
      simp only [Bool.or_eq_true, beq_iff_eq] at he
      rcases he with ((((((h|h)|h)|h)|h)|h)|h)|h <;> subst h <;> rfl
    have e2 : step ⟨.inStringEsc, σ⟩ e = ⟨.inString, σ⟩ := by simp [step, this]
    rw [run_cons, e1, run_cons, e2]
    exact ih ht
  | case4 c t h1 h2 ih =>
    intro h
    simp only [Bool.and_eq_true, bne_iff_ne, ne_eq, decide_eq_true_eq] at h
    obtain ⟨⟨⟨h34, h92⟩, h32⟩, ht⟩ := h
    have : ¬ c < 32 := by simpa using h32
    have e1 : step ⟨.inString, σ⟩ c = ⟨.inString, σ⟩ := by simp [step, h34, h92, this]
    rw [run_cons, e1]
    exact ih ht

/-- `"body"` from a state that has just read the opening quote -/
theorem run_string (σ : List PS) (s : Bytes) (h : isStrBody s = true) :
    run ⟨.inString, σ⟩ (s ++ [q]) = ⟨.endValue, σ⟩ := by
  rw [run_append, run_strBody σ s h]; rfl


/-! ## Trees -/

mutual
/-- bracket nesting depth of a tree's rendering -/
def depth : Json → Nat
  | .arr xs => depthL xs + 1
  | .obj ms => depthM ms + 1
  | _ => 0
def depthL : JList → Nat
  | .nil => 0
  | .cons x xs => max (depth x) (depthL xs)
def depthM : JMembers → Nat
  | .nil => 0
  | .cons _ v ms => max (depth v) (depthM ms)
end

/-- `,x` for every element -/
def commaList : JList → Bytes
  | .nil => []
  | .cons x xs => [44] ++ render x ++ commaList xs

/-- `,"k":v` for every member -/
def commaMembers : JMembers → Bytes
  | .nil => []
  | .cons k v ms => [44] ++ (q :: k ++ [q]) ++ [58] ++ render v ++ commaMembers ms

theorem renderList_cons : ∀ (x : Json) (xs : JList), renderList (.cons x xs) = render x ++ commaList xs
  | x, .nil => by simp [renderList, commaList]
  | x, .cons y ys => by
    have ih := renderList_cons y ys
    simp only [renderList, commaList, ih, List.append_assoc]

theorem renderMembers_cons : ∀ (k : Bytes) (v : Json) (ms : JMembers),
    renderMembers (.cons k v ms) = (q :: k ++ [q]) ++ [58] ++ render v ++ commaMembers ms
  | k, v, .nil => by simp [renderMembers, commaMembers]
  | k, v, .cons k' v' ms => by
    have ih := renderMembers_cons k' v' ms
    simp only [renderMembers, commaMembers, ih, List.append_assoc, List.cons_append]

/-- states in which a value has just ended (`endValue`, or a number that the next octet may end) -/
def EndLike (st : St) : Prop := st = .endValue ∨ NumEnd st

/-- a complete value has been read: `EndLike`, or — at top level only — `endTop` after a closing bracket -/
def Done (st : St) (σ : List PS) : Prop := EndLike st ∨ (st = .endTop ∧ σ = [])

/-- state after `popParseState` -/
def afterPop (σ : List PS) : St := match σ with | [] => .endTop | _ => .endValue

theorem pop_cons (st : St) (p : PS) (σ : List PS) : pop ⟨st, p :: σ⟩ = ⟨afterPop σ, σ⟩ := by
  cases σ <;> rfl

theorem done_afterPop (σ : List PS) : Done (afterPop σ) σ := by
  cases σ with
  | nil => exact Or.inr ⟨rfl, rfl⟩
  | cons p r => exact Or.inl (Or.inl rfl)

theorem EndLike.cases {st : St} (h : EndLike st) :
    st = .endValue ∨ st = .n0 ∨ st = .n1 ∨ st = .dot0 ∨ st = .e0 := h

/-- `,` after an array element -/
theorem step_comma_arr {st : St} (h : EndLike st) (σ : List PS) :
    step ⟨st, .arr :: σ⟩ 44 = ⟨.beginValue, .arr :: σ⟩ := by
  rcases h.cases with r|r|r|r|r <;> subst r <;> rfl
/-- `]` after an array element -/
theorem step_close_arr {st : St} (h : EndLike st) (σ : List PS) :
    step ⟨st, .arr :: σ⟩ 93 = ⟨afterPop σ, σ⟩ := by
  rw [← pop_cons st .arr σ]
  rcases h.cases with r|r|r|r|r <;> subst r <;> rfl
/-- `,` after a member value -/
theorem step_comma_obj {st : St} (h : EndLike st) (σ : List PS) :
    step ⟨st, .val :: σ⟩ 44 = ⟨.beginString, .key :: σ⟩ := by
  rcases h.cases with r|r|r|r|r <;> subst r <;> rfl
/-- `}` after a member value -/
theorem step_close_obj {st : St} (h : EndLike st) (σ : List PS) :
    step ⟨st, .val :: σ⟩ 125 = ⟨afterPop σ, σ⟩ := by
  rw [← pop_cons st .val σ]
  rcases h.cases with r|r|r|r|r <;> subst r <;> rfl

/-- `"key":` read from a state that expects a key -/
theorem run_key (σ : List PS) (st : St) (hst : st = .beginString ∨ st = .beginStringOrEmpty) (k : Bytes)
    (hk : isStrBody k = true) : run ⟨st, .key :: σ⟩ ((q :: k ++ [q]) ++ [58]) = ⟨.beginValue, .val :: σ⟩ := by
  have e1 : step ⟨st, .key :: σ⟩ q = ⟨.inString, .key :: σ⟩ := by rcases hst with r|r <;> subst r <;> rfl
  have e2 : run ⟨st, .key :: σ⟩ (q :: k ++ [q]) = ⟨.endValue, .key :: σ⟩ := by
    rw [List.cons_append, run_cons, e1, run_string _ k hk]
  rw [run_append, e2]
  rfl

theorem run_key' (σ : List PS) (st : St) (hst : st = .beginString ∨ st = .beginStringOrEmpty) (k : Bytes)
    (hk : isStrBody k = true) (rest : Bytes) :
    run ⟨st, .key :: σ⟩ (q :: (k ++ q :: 58 :: rest)) = run ⟨.beginValue, .val :: σ⟩ rest := by
  have : q :: (k ++ q :: 58 :: rest) = ((q :: k ++ [q]) ++ [58]) ++ rest := by simp
  rw [this, run_append, run_key σ st hst k hk]

theorem push_ok (st : St) (σ : List PS) (p : PS) (succ : St) (h : σ.length + 1 ≤ maxNestingDepth) :
    push ⟨st, σ⟩ p succ = ⟨succ, p :: σ⟩ := by
  simp [push, h]

theorem number_head {d : Bytes} (h : isNumber d = true) : ∃ c t, d = c :: t ∧ (c = 45 ∨ isDigit c = true) := by
  unfold isNumber at h
  split at h
  · exact ⟨45, _, rfl, Or.inl rfl⟩
  · unfold isUnsignedNumber at h
    split at h
    · exact ⟨48, _, rfl, Or.inr rfl⟩
    · rename_i c t _ _
      simp only [Bool.and_eq_true, decide_eq_true_eq] at h
      refine ⟨c, t, rfl, Or.inr ?_⟩
      simp only [isDigit, Bool.and_eq_true, decide_eq_true_eq]
      exact ⟨UInt8.le_trans (by decide) h.1.1, h.1.2⟩
    · simp at h

/-- the first octet of a value's text is not `]` and not whitespace, so `beginValueOrEmpty` treats it as `beginValue` does -/
theorem run_bvoe (j : Json) (hwf : WF j) (σ : List PS) :
    run ⟨.beginValueOrEmpty, σ⟩ (render j) = run ⟨.beginValue, σ⟩ (render j) := by
  cases j with
  | null => rfl
  | bool b => cases b <;> rfl
  | num d =>
    simp only [WF] at hwf
    obtain ⟨c, t, rfl, hc⟩ := number_head hwf
    simp only [render, run_cons]
    congr 1
    rcases hc with r | hc
    · subst r; rfl
    · rcases digit_cases hc with r|r|r|r|r|r|r|r|r|r <;> subst r <;> rfl
  | str s => rfl
  | arr xs => rfl
  | obj ms => rfl

theorem Done.endLike {st : St} {p : PS} {σ : List PS} (h : Done st (p :: σ)) : EndLike st := by
  rcases h with h | ⟨_, h⟩
  · exact h
  · cases h

mutual
theorem run_value : ∀ (j : Json), WF j → ∀ (σ : List PS), σ.length + depth j ≤ maxNestingDepth →
    ∃ st, Done st σ ∧ run ⟨.beginValue, σ⟩ (render j) = ⟨st, σ⟩
  | .null, _, σ, _ => ⟨.endValue, Or.inl (Or.inl rfl), rfl⟩
  | .bool true, _, σ, _ => ⟨.endValue, Or.inl (Or.inl rfl), rfl⟩
  | .bool false, _, σ, _ => ⟨.endValue, Or.inl (Or.inl rfl), rfl⟩
  | .num d, h, σ, _ => by
    obtain ⟨st, hn, hr⟩ := run_number σ d h
    exact ⟨st, Or.inl (Or.inr hn), hr⟩
  | .str s, h, σ, _ => by
    refine ⟨.endValue, Or.inl (Or.inl rfl), ?_⟩
    simp only [render]
    rw [List.cons_append, run_cons]
    exact run_string σ s h
  | .arr xs, h, σ, hd => by
    refine ⟨afterPop σ, done_afterPop σ, ?_⟩
    simp only [depth] at hd
    have e1 : step ⟨.beginValue, σ⟩ 91 = ⟨.beginValueOrEmpty, .arr :: σ⟩ := push_ok _ σ _ _ (by omega)
    simp only [render, List.cons_append, List.nil_append]
    rw [run_cons, e1]
    exact run_elems xs h σ (by omega)
  | .obj ms, h, σ, hd => by
    refine ⟨afterPop σ, done_afterPop σ, ?_⟩
    simp only [depth] at hd
    have e1 : step ⟨.beginValue, σ⟩ 123 = ⟨.beginStringOrEmpty, .key :: σ⟩ := push_ok _ σ _ _ (by omega)
    simp only [render, List.cons_append, List.nil_append]
    rw [run_cons, e1]
    exact run_members ms h σ (by omega)
theorem run_elems : ∀ (xs : JList), WFL xs → ∀ (σ : List PS), σ.length + 1 + depthL xs ≤ maxNestingDepth →
    run ⟨.beginValueOrEmpty, .arr :: σ⟩ (renderList xs ++ [93]) = ⟨afterPop σ, σ⟩
  | .nil, _, σ, _ => by
    rw [← pop_cons .beginValueOrEmpty .arr σ]; rfl
  | .cons x xs, h, σ, hd => by
    simp only [depthL] at hd
    obtain ⟨st1, hd1, hr1⟩ := run_value x h.1 (.arr :: σ) (by simp only [List.length_cons]; omega)
    obtain ⟨st2, hd2, hr2⟩ := run_commaList xs h.2 σ st1 hd1.endLike (by omega)
    rw [renderList_cons, List.append_assoc, run_append, run_bvoe x h.1, hr1, run_append, hr2]
    exact step_close_arr hd2 σ
theorem run_commaList : ∀ (xs : JList), WFL xs → ∀ (σ : List PS) (st : St), EndLike st →
    σ.length + 1 + depthL xs ≤ maxNestingDepth →
    ∃ st', EndLike st' ∧ run ⟨st, .arr :: σ⟩ (commaList xs) = ⟨st', .arr :: σ⟩
  | .nil, _, σ, st, he, _ => ⟨st, he, rfl⟩
  | .cons x xs, h, σ, st, he, hd => by
    simp only [depthL] at hd
    obtain ⟨st1, hd1, hr1⟩ := run_value x h.1 (.arr :: σ) (by simp only [List.length_cons]; omega)
    obtain ⟨st2, hd2, hr2⟩ := run_commaList xs h.2 σ st1 hd1.endLike (by omega)
    refine ⟨st2, hd2, ?_⟩
    simp only [commaList, List.cons_append, List.nil_append]
    rw [run_cons, step_comma_arr he, run_append, hr1, hr2]
theorem run_members : ∀ (ms : JMembers), WFM ms → ∀ (σ : List PS), σ.length + 1 + depthM ms ≤ maxNestingDepth →
    run ⟨.beginStringOrEmpty, .key :: σ⟩ (renderMembers ms ++ [125]) = ⟨afterPop σ, σ⟩
  | .nil, _, σ, _ => by
    rw [← pop_cons .beginStringOrEmpty .val σ]; rfl
  | .cons k v ms, h, σ, hd => by
    simp only [depthM] at hd
    obtain ⟨st1, hd1, hr1⟩ := run_value v h.2.1 (.val :: σ) (by simp only [List.length_cons]; omega)
    obtain ⟨st2, hd2, hr2⟩ := run_commaMembers ms h.2.2 σ st1 hd1.endLike (by omega)
    simp only [renderMembers_cons, List.append_assoc, List.cons_append, List.nil_append]
    rw [run_key' σ _ (Or.inr rfl) k h.1, run_append, hr1, run_append, hr2]
    exact step_close_obj hd2 σ
theorem run_commaMembers : ∀ (ms : JMembers), WFM ms → ∀ (σ : List PS) (st : St), EndLike st →
    σ.length + 1 + depthM ms ≤ maxNestingDepth →
    ∃ st', EndLike st' ∧ run ⟨st, .val :: σ⟩ (commaMembers ms) = ⟨st', .val :: σ⟩
  | .nil, _, σ, st, he, _ => ⟨st, he, rfl⟩
  | .cons k v ms, h, σ, st, he, hd => by
    simp only [depthM] at hd
    obtain ⟨st1, hd1, hr1⟩ := run_value v h.2.1 (.val :: σ) (by simp only [List.length_cons]; omega)
    obtain ⟨st2, hd2, hr2⟩ := run_commaMembers ms h.2.2 σ st1 hd1.endLike (by omega)
    refine ⟨st2, hd2, ?_⟩
    simp only [commaMembers, List.append_assoc, List.cons_append, List.nil_append]
    rw [run_cons, step_comma_obj he, run_key' σ _ (Or.inl rfl) k h.1, run_append, hr1, hr2]
end

/-! ## Every rendered tree is accepted -/

theorem accept_done {st : St} (h : Done st []) : accept ⟨st, []⟩ = true := by
  rcases h with h | ⟨h, _⟩
  · rcases h.cases with r|r|r|r|r <;> subst r <;> rfl
  · subst h; rfl

/-- **every well-formed tree renders to a text the scanner accepts** (nesting within Go's limit) -/
theorem render_valid (j : Json) (hwf : WF j) (hd : depth j ≤ maxNestingDepth) : jsonValid (render j) = true := by
  obtain ⟨st, hdone, hr⟩ := run_value j hwf [] (by simpa using hd)
  simp only [jsonValid, Scan.init, hr]
  exact accept_done hdone

/-! ## No proper prefix of an accepted bracketed text is accepted -/

/-- after the opening bracket: the parse stack is non-empty, or the top-level value is complete, or the scan has failed -/
def Open (s : Scan) : Prop := s.stack ≠ [] ∨ s.st = .endTop ∨ s.st = .error

/-- the step leaves the parse stack as it is, or re-establishes `Open` by itself -/
def Keeps (σ : List PS) (s' : Scan) : Prop := s'.stack = σ ∨ Open s'

theorem open_push (s : Scan) (p : PS) (st : St) : Open (push s p st) := by
  unfold push; split <;> exact Or.inl (by simp)

theorem open_pop (s : Scan) : Open (pop s) := by
  unfold pop; split
  · exact Or.inr (Or.inr rfl)
  · exact Or.inr (Or.inl rfl)
  · rename_i r hr _
    exact Or.inl fun h => hr h

theorem open_stepEndTop (s : Scan) (c : UInt8) : Open (stepEndTop s c) := by
  unfold stepEndTop; split
  · exact Or.inr (Or.inl rfl)
  · exact Or.inr (Or.inr rfl)

theorem open_stepEndValue (s : Scan) (c : UInt8) : Open (stepEndValue s c) := by
  unfold stepEndValue
  split
  · exact open_stepEndTop s c
  · rename_i p r hs
    have hne : s.stack ≠ [] := by rw [hs]; simp
    repeat' split
    all_goals first
      | exact open_pop s
      | exact Or.inl hne
      | exact Or.inl (by simp)

theorem keeps_stepBeginValue (s : Scan) (c : UInt8) : Keeps s.stack (stepBeginValue s c) := by
  unfold stepBeginValue
  repeat' split
  all_goals first
    | exact Or.inl rfl
    | exact Or.inr (open_push ..)

theorem keeps_stepBeginString (s : Scan) (c : UInt8) : Keeps s.stack (stepBeginString s c) := by
  unfold stepBeginString
  repeat' split
  all_goals exact Or.inl rfl

theorem keeps_step0 (s : Scan) (c : UInt8) : Keeps s.stack (step0 s c) := by
  unfold step0
  repeat' split
  all_goals first
    | exact Or.inl rfl
    | exact Or.inr (open_stepEndValue ..)

theorem keeps_stepESign (s : Scan) (c : UInt8) : Keeps s.stack (stepESign s c) := by
  unfold stepESign
  split <;> exact Or.inl rfl

theorem keeps_expect (s : Scan) (c w : UInt8) (nx : St) : Keeps s.stack (expect s c w nx) := by
  unfold expect
  split <;> exact Or.inl rfl

theorem keeps_step (s : Scan) (c : UInt8) : Keeps s.stack (step s c) := by
  unfold step
  split
  all_goals repeat' split
  all_goals first
    | exact keeps_stepBeginValue s c
    | exact keeps_stepBeginString s c
    | exact keeps_step0 s c
    | exact keeps_stepESign s c
    | exact keeps_expect ..
    | exact Or.inr (open_stepEndValue _ c)
    | exact Or.inr (open_stepEndTop s c)
    | exact Or.inl rfl

theorem open_step {s : Scan} (h : Open s) (c : UInt8) : Open (step s c) := by
  rcases h with hne | he | he
  · rcases keeps_step s c with hk | ho
    · exact Or.inl (hk ▸ hne)
    · exact ho
  · obtain ⟨st, σ⟩ := s
    subst he
    exact open_stepEndTop _ c
  · obtain ⟨st, σ⟩ := s
    subst he
    exact Or.inr (Or.inr rfl)

theorem open_run : ∀ (l : Bytes) {s : Scan}, Open s → Open (run s l)
  | [], _, h => h
  | c :: t, _, h => open_run t (open_step h c)

/-- with a non-empty parse stack the end-of-input rule does not accept -/
theorem step_space_not_endTop {s : Scan} (hne : s.stack ≠ []) (hst : s.st ≠ .endTop) :
    (step s 32).st ≠ .endTop := by
  obtain ⟨st, σ⟩ := s
  cases σ with
  | nil => exact absurd rfl hne
  | cons p r =>
    cases st <;> first
      | exact absurd rfl hst
      | (intro h; cases h)

theorem run_error (σ : List PS) (l : Bytes) : run ⟨.error, σ⟩ l = ⟨.error, σ⟩ :=
  run_stay _ _ fun _ _ => rfl

/-- after the top-level value anything but whitespace is an error -/
theorem run_endTop_nonspace (σ : List PS) : ∀ (l : Bytes), (∃ x ∈ l, isSpace x = false) →
    run ⟨.endTop, σ⟩ l = ⟨.error, σ⟩
  | [], h => by obtain ⟨x, hx, _⟩ := h; cases hx
  | c :: t, h => by
    rw [run_cons]
    by_cases hc : isSpace c = true
    · have e : step ⟨.endTop, σ⟩ c = ⟨.endTop, σ⟩ := by simp [step, stepEndTop, hc]
      rw [e]
      obtain ⟨x, hx, hs⟩ := h
      rcases List.mem_cons.mp hx with r | hx
      · subst r; rw [hc] at hs; cases hs
      · exact run_endTop_nonspace σ t ⟨x, hx, hs⟩
    · have e : step ⟨.endTop, σ⟩ c = ⟨.error, σ⟩ := by simp [step, stepEndTop, hc, Scan.err]
      rw [e]
      exact run_error σ t

theorem mem_of_suffix_last {p r l : Bytes} {z : UInt8} (hr : r ≠ []) (h : p ++ r = l ++ [z]) : z ∈ r := by
  have h' := congrArg List.reverse h
  simp only [List.reverse_append, List.reverse_cons, List.reverse_nil, List.nil_append, List.cons_append] at h'
  cases hrr : r.reverse with
  | nil => exact absurd (List.reverse_eq_nil_iff.mp hrr) hr
  | cons a b =>
    rw [hrr] at h'
    have : a = z := by injection h'
    have hz : z ∈ r.reverse := by rw [hrr, this]; exact List.mem_cons_self ..
    exact List.mem_reverse.mp hz

/-- **no proper prefix of an accepted bracketed text is accepted**: `d` begins with `{` or `[`, does not end in
whitespace, and is accepted; then every proper prefix of `d` is rejected -/
theorem valid_prefix_rejected (d : Bytes) (c0 : UInt8) (t : Bytes) (hd : d = c0 :: t) (hc0 : c0 = 123 ∨ c0 = 91)
    (l : Bytes) (z : UInt8) (hlast : d = l ++ [z]) (hz : isSpace z = false) (hv : jsonValid d = true)
    (n : Nat) (hn : n < d.length) : jsonValid (d.take n) = false := by
  cases n with
  | zero => rfl
  | succ m =>
    have hsplit : d.take (m + 1) ++ d.drop (m + 1) = d := List.take_append_drop ..
    have hrne : d.drop (m + 1) ≠ [] := by
      intro h
      have := congrArg List.length h
      simp only [List.length_drop, List.length_nil] at this
      omega
    have hzr : z ∈ d.drop (m + 1) := mem_of_suffix_last hrne (hsplit.trans hlast)
    have hopen : Open (run .init (d.take (m + 1))) := by
      rw [hd, List.take_succ_cons, run_cons]
      apply open_run
      rcases hc0 with r | r <;> subst r
      · exact open_push .init .key .beginStringOrEmpty
      · exact open_push .init .arr .beginValueOrEmpty
    have hrun : run .init d = run (run .init (d.take (m + 1))) (d.drop (m + 1)) := by
      rw [← run_append, hsplit]
    simp only [jsonValid] at hv ⊢
    rw [hrun] at hv
    generalize run .init (d.take (m + 1)) = s at hopen hv
    obtain ⟨st, σ⟩ := s
    cases hacc : accept ⟨st, σ⟩ with
    | false => rfl
    | true =>
      exfalso
      by_cases htop : st = .endTop
      · subst htop
        rw [run_endTop_nonspace σ _ ⟨z, hzr, hz⟩] at hv
        cases hv
      · rcases hopen with hne | he | he
        · have := step_space_not_endTop (s := ⟨st, σ⟩) hne htop
          simp only [accept, Bool.or_eq_true, beq_iff_eq] at hacc
          rcases hacc with h | h
          · exact htop h
          · exact this h
        · exact htop he
        · simp only at he
          subst he
          cases hacc

/-- objects and arrays -/
def isContainer : Json → Bool
  | .arr _ => true
  | .obj _ => true
  | _ => false

/-- **no proper prefix of a rendered object or array is accepted** -/
theorem render_prefix_rejected (j : Json) (hwf : WF j) (hdep : depth j ≤ maxNestingDepth)
    (hc : isContainer j = true) (n : Nat) (hn : n < (render j).length) :
    jsonValid ((render j).take n) = false := by
  have hv := render_valid j hwf hdep
  cases j with
  | arr xs =>
    exact valid_prefix_rejected _ 91 (renderList xs ++ [93]) (by simp [render]) (Or.inr rfl)
      ([91] ++ renderList xs) 93 (by simp [render]) rfl hv n hn
  | obj ms =>
    exact valid_prefix_rejected _ 123 (renderMembers ms ++ [125]) (by simp [render]) (Or.inl rfl)
      ([123] ++ renderMembers ms) 125 (by simp [render]) rfl hv n hn
  | _ => cases hc

/-! ## Non-vacuity -/

example : jsonValid [123, 34, 97, 34, 58, 91, 49, 44, 116, 114, 117, 101, 93, 125] = true := by decide   -- {"a":[1,true]}
example : jsonValid [123, 34, 97, 34, 58, 91, 49, 44, 116, 114, 117, 101, 93] = false := by decide       -- {"a":[1,true]
example : jsonValid [49, 50] = true ∧ jsonValid [49] = true := by decide   -- a top-level number has accepted proper prefixes
example : jsonValid [91, 48, 49, 93] = false := by decide                  -- [01]
example : jsonValid [34, 92, 117, 100, 56, 48, 48, 34] = true := by decide  -- "\ud800": a lone surrogate is accepted

end Vflow.JsonScan
