import Vflow.Model.Shutdown
/-!
# Structural facts about the interleaving model of `Vflow.Model.Shutdown`

How the two optional timing assumptions act on the step relation, proved once for every program instead of being
re-enumerated per program in `Props/C15`:
* the hand-off hypothesis only guards a `closeQueue` statement of `shutdown()`: a program whose `shutdown()` has none
  has the same steps, hence the same reachable states, with and without it (`reachable_handoff`);
* the fact about the two 1 s constants only disables a step (`sleep1s` while a read armed before `stop` is pending):
  every state reachable with it lies in any set that contains the initial state and is closed under the steps taken
  without it (`reachable_deadlines_subset`).
-/
namespace Vflow.Shutdown

theorem shutdownSteps_handoff (p : Prog) (hq : SStep.closeQueue ∉ p.shutdown) (d : Bool) (s : St) :
    shutdownSteps p ⟨true, d⟩ s = shutdownSteps p ⟨false, d⟩ s := by
  unfold shutdownSteps
  cases h : p.shutdown[s.spc]? with
  | none => rfl
  | some st =>
    cases st <;> try rfl
    exact absurd (List.mem_of_getElem? h) hq

theorem next_handoff (p : Prog) (hq : SStep.closeQueue ∉ p.shutdown) (d : Bool) :
    next p ⟨true, d⟩ = next p ⟨false, d⟩ := by
  funext s; simp only [next, shutdownSteps_handoff p hq d s]

theorem reach_congr {p : Prog} {a b : Assume} (h : next p a = next p b) :
    ∀ n seen fr, reach p a n seen fr = reach p b n seen fr := by
  intro n
  induction n with
  | zero => intros; rfl
  | succ n ih => intro seen fr; simp only [reach, h, ih]

/-- without a `closeQueue` in `shutdown()` the hand-off hypothesis changes neither the reachable states nor a step -/
theorem reachable_handoff (p : Prog) (hq : SStep.closeQueue ∉ p.shutdown) (d : Bool) :
    reachable p ⟨true, d⟩ = reachable p ⟨false, d⟩ ∧ ∀ s, next p ⟨true, d⟩ s = next p ⟨false, d⟩ s :=
  ⟨reach_congr (next_handoff p hq d) _ _ _, fun s => congrFun (next_handoff p hq d) s⟩

theorem shutdownSteps_deadlines (p : Prog) (h : Bool) (s t : St) (ht : t ∈ shutdownSteps p ⟨h, true⟩ s) :
    t ∈ shutdownSteps p ⟨h, false⟩ s := by
  unfold shutdownSteps at ht ⊢
  cases hs : p.shutdown[s.spc]? with
  | none => simp [hs] at ht
  | some st =>
    cases st <;> simp only [hs] at ht ⊢ <;> try exact ht
    -- sleep1s: with the assumption the step is either disabled or the one taken without it
    split at ht
    · simp at ht
    · simpa using ht

theorem next_deadlines (p : Prog) (h : Bool) (s t : St) (ht : t ∈ next p ⟨h, true⟩ s) : t ∈ next p ⟨h, false⟩ s := by
  simp only [next, List.mem_append] at ht ⊢
  exact ht.imp id (shutdownSteps_deadlines p h s t)

/-- the breadth-first closure never leaves a set that holds what it starts from and is closed under the steps -/
theorem reach_subset {p : Prog} {a : Assume} (C : List St) (hC : ∀ s ∈ C, ∀ t ∈ next p a s, t ∈ C) :
    ∀ n seen fr, (∀ s ∈ seen, s ∈ C) → (∀ s ∈ fr, s ∈ C) → ∀ s ∈ reach p a n seen fr, s ∈ C := by
  intro n
  induction n with
  | zero => intro seen fr hs _ s h; exact hs s h
  | succ n ih =>
    intro seen fr hs hf s h
    simp only [reach] at h
    split at h
    · exact hs s h
    · refine ih _ _ ?_ ?_ s h
      · intro x hx
        rcases List.mem_append.mp hx with hx | hx
        · exact hs x hx
        · have := (List.mem_filter.mp (List.mem_eraseDups.mp hx)).1
          obtain ⟨y, hy, hxy⟩ := List.mem_flatMap.mp this
          exact hC y (hf y hy) x hxy
      · intro x hx
        have := (List.mem_filter.mp (List.mem_eraseDups.mp hx)).1
        obtain ⟨y, hy, hxy⟩ := List.mem_flatMap.mp this
        exact hC y (hf y hy) x hxy

theorem mem_reach_of_mem_seen {p : Prog} {a : Assume} :
    ∀ n seen fr, ∀ s ∈ seen, s ∈ reach p a n seen fr := by
  intro n
  induction n with
  | zero => intro seen fr s h; exact h
  | succ n ih =>
    intro seen fr s h
    simp only [reach]
    split
    · exact h
    · exact ih _ _ s (List.mem_append.mpr (Or.inl h))

theorem init_mem_reachable (p : Prog) (a : Assume) : ({} : St) ∈ reachable p a :=
  mem_reach_of_mem_seen _ _ _ _ (by simp)

/-- what `closedUnderNext` computes -/
theorem closed_of_closedUnderNext {p : Prog} {a : Assume} (h : closedUnderNext p a = true) :
    ∀ s ∈ reachable p a, ∀ t ∈ next p a s, t ∈ reachable p a := by
  intro s hs t ht
  simp only [closedUnderNext, List.all_eq_true] at h
  exact List.contains_iff_mem.mp (h s hs t ht)

/-- every state reachable under the fact about the 1 s constants is reachable without it -/
theorem reachable_deadlines_subset (p : Prog) (h : Bool) (hc : closedUnderNext p ⟨h, false⟩ = true) :
    ∀ s ∈ reachable p ⟨h, true⟩, s ∈ reachable p ⟨h, false⟩ := by
  have hC := closed_of_closedUnderNext hc
  refine reach_subset (reachable p ⟨h, false⟩) (fun s hs t ht => hC s hs t (next_deadlines p h s t ht)) _ _ _ ?_ ?_
  · intro s hs; simp at hs; subst hs; exact init_mem_reachable p _
  · intro s hs; simp at hs; subst hs; exact init_mem_reachable p _

end Vflow.Shutdown
