import Vflow.Proofs.JsonScan
import Vflow.Proofs.JsonTree
import Vflow.Proofs.SflowJsonTree
/-!
# Every published message is accepted by the ported `encoding/json` scanner

`Spec.jsonValid` is the Lean port of Go's `scanner.go` (tied to the real `json.Valid` by the
`jsonvalid` correspondence of C11).  `JsonScan.render_valid` accepts the rendering of every
well-formed tree whose nesting stays below Go's limit of 10000; this file bounds the nesting of the
four message trees (IPFIX / NetFlow v9: 4, NetFlow v5: 3, sFlow: 6) so that the hypothesis disappears.
-/
namespace Vflow.JsonAccepted
open Vflow Vflow.Spec Vflow.JsonScan

/-! ## nesting of the tree builders of `Proofs/JsonTree` -/

theorem depthL_listOf (l : List Json) (k : Nat) (h : ∀ x ∈ l, depth x ≤ k) : depthL (JsonTree.listOf l) ≤ k := by
  induction l with
  | nil => simp [JsonTree.listOf, depthL]
  | cons x xs ih =>
    simp only [JsonTree.listOf, depthL]
    exact Nat.max_le.mpr ⟨h x (List.mem_cons_self ..), ih fun y hy => h y (List.mem_cons_of_mem _ hy)⟩

theorem depthM_objOf (l : List (Bytes × Json)) (k : Nat) (h : ∀ p ∈ l, depth p.2 ≤ k) : depthM (JsonTree.objOf l) ≤ k := by
  induction l with
  | nil => simp [JsonTree.objOf, depthM]
  | cons p ps ih =>
    obtain ⟨a, v⟩ := p
    simp only [JsonTree.objOf, depthM]
    exact Nat.max_le.mpr ⟨h (a, v) (List.mem_cons_self ..), ih fun y hy => h y (List.mem_cons_of_mem _ hy)⟩

theorem depth_valJson (v : Val) (t : Bytes) : depth (JsonTree.valJson v t) = 0 := by
  cases v <;> simp only [JsonTree.valJson, depth] <;> split <;> rfl

theorem depth_jnum (n : Nat) : depth (JsonTree.jnum n) = 0 := rfl

theorem depth_fieldTree (f : JField) : depth (JsonTree.fieldTree f) ≤ 1 := by
  simp only [JsonTree.fieldTree, depth]
  apply Nat.succ_le_succ
  apply depthM_objOf
  intro p hp
  simp only [List.mem_append, List.mem_cons, List.not_mem_nil, or_false] at hp
  rcases hp with (rfl | rfl) | hp
  · simp [depth_jnum]
  · simp [depth_valJson]
  · split at hp
    · simp only [List.mem_cons, List.not_mem_nil, or_false] at hp; subst hp; simp [depth_jnum]
    · cases hp

theorem depth_recordTree (r : List JField) : depth (JsonTree.recordTree r) ≤ 2 := by
  simp only [JsonTree.recordTree, depth]
  apply Nat.succ_le_succ
  apply depthL_listOf
  intro x hx
  obtain ⟨f, _, rfl⟩ := List.mem_map.mp hx
  exact depth_fieldTree f

theorem depth_dataSetsTree (recs : List (List JField)) : depth (JsonTree.dataSetsTree recs) ≤ 3 := by
  simp only [JsonTree.dataSetsTree, depth]
  apply Nat.succ_le_succ
  apply depthL_listOf
  intro x hx
  obtain ⟨r, _, rfl⟩ := List.mem_map.mp hx
  exact depth_recordTree r

theorem depth_memberTree (fk : FK) (v : Nat) : depth (JsonTree.memberTree fk v) = 0 := by
  cases fk <;> rfl

theorem depthM_membersOf (ks : List (Bytes × FK)) (i : Nat) (vals : List Nat) : depthM (JsonTree.membersOf ks i vals) = 0 := by
  induction ks generalizing i with
  | nil => rfl
  | cons p ps ih =>
    obtain ⟨k, fk⟩ := p
    simp [JsonTree.membersOf, depthM, depth_memberTree, ih]

theorem depth_flowMsgTree (keys : List (Bytes × FK)) (a : Bytes) (hdr : List Nat) (recs : List (List JField)) :
    depth (JsonTree.flowMsgTree keys a hdr recs) ≤ 4 := by
  have h := depth_dataSetsTree recs
  simp only [JsonTree.flowMsgTree, depth, depthM, depthM_membersOf]
  omega

theorem depth_v5Tree (a : Bytes) (m : V5.Msg) : depth (JsonTree.v5Tree a m) ≤ 3 := by
  have h : depthL (JsonTree.listOf (m.flows.map JsonTree.v5FlowTree)) ≤ 1 := by
    apply depthL_listOf
    intro x hx
    obtain ⟨f, _, rfl⟩ := List.mem_map.mp hx
    rw [JsonTree.v5FlowTree_eq]
    simp [depth, depthM_membersOf]
  rw [JsonTree.v5Tree_eq]
  simp only [depth, depthM, depthM_membersOf]
  omega

/-! ## nesting of the sFlow tree builders (`Model/SflowJson`) -/
open Vflow.Sflow Vflow.Sflow.Json Vflow.Packet

theorem depthL_sflistOf (l : List Json) (k : Nat) (h : ∀ x ∈ l, depth x ≤ k) : depthL (listOf l) ≤ k := by
  induction l with
  | nil => simp [listOf, depthL]
  | cons x xs ih =>
    simp only [listOf, depthL]
    exact Nat.max_le.mpr ⟨h x (List.mem_cons_self ..), ih fun y hy => h y (List.mem_cons_of_mem _ hy)⟩

theorem depth_obj (fs : List (String × Json)) (k : Nat) (h : ∀ p ∈ fs, depth p.2 ≤ k) : depth (obj fs) ≤ k + 1 := by
  simp only [obj, depth]
  apply Nat.succ_le_succ
  induction fs with
  | nil => simp [membersOf, depthM]
  | cons p ps ih =>
    obtain ⟨n, v⟩ := p
    simp only [membersOf, depthM]
    exact Nat.max_le.mpr ⟨h (n, v) (List.mem_cons_self ..), ih fun y hy => h y (List.mem_cons_of_mem _ hy)⟩

theorem depth_numObj (ns : List String) (vs : List Nat) : depth (numObj ns vs) ≤ 1 := by
  refine depth_obj _ 0 ?_
  intro p hp
  obtain ⟨q, _, rfl⟩ := List.mem_map.mp hp
  exact Nat.le_refl 0

theorem depth_l2Tree (d : L2) : depth (l2Tree d) ≤ 1 := by
  refine depth_obj _ 0 ?_; intro p hp
  simp only [List.mem_cons, List.not_mem_nil, or_false] at hp
  rcases hp with rfl | rfl | rfl | rfl <;> exact Nat.le_refl 0

theorem depth_l3Tree (x : L3) : depth (l3Tree x) ≤ 1 := by
  cases x with
  | none => simp [l3Tree, depth]
  | v4 h =>
    refine depth_obj _ 0 ?_; intro p hp
    simp only [List.mem_cons, List.not_mem_nil, or_false] at hp
    rcases hp with rfl | rfl | rfl | rfl | rfl | rfl | rfl | rfl | rfl | rfl | rfl <;> exact Nat.le_refl 0
  | v6 h =>
    refine depth_obj _ 0 ?_; intro p hp
    simp only [List.mem_cons, List.not_mem_nil, or_false] at hp
    rcases hp with rfl | rfl | rfl | rfl | rfl | rfl | rfl | rfl <;> exact Nat.le_refl 0

theorem depth_l4Tree (x : L4) : depth (l4Tree x) ≤ 1 := by
  cases x with
  | none => simp [l4Tree, depth]
  | icmp t c rest =>
    refine depth_obj _ 0 ?_; intro p hp
    simp only [List.mem_cons, List.not_mem_nil, or_false] at hp
    rcases hp with rfl | rfl | rfl <;> exact Nat.le_refl 0
  | tcp s d off res fl => exact depth_numObj _ _
  | udp s d => exact depth_numObj _ _

theorem depth_pktMembers (p : Pkt) : ∀ q ∈ pktMembers p, depth q.2 ≤ 1 := by
  intro q hq
  simp only [pktMembers, List.mem_cons, List.not_mem_nil, or_false] at hq
  rcases hq with rfl | rfl | rfl
  · exact depth_l2Tree _
  · exact depth_l3Tree _
  · exact depth_l4Tree _

theorem depth_pktTree (p : Pkt) : depth (pktTree p) ≤ 2 := depth_obj _ 1 (depth_pktMembers p)

/-- the raw-header record with its own four words (F33) is no deeper than the packet alone: the words are members
of the same object as `L2` / `L3` / `L4` -/
theorem depth_rawHeaderTree (h : RawHeader) : depth (rawHeaderTree h) ≤ 2 := by
  refine depth_obj _ 1 ?_; intro q hq
  rw [List.mem_append] at hq
  rcases hq with hq | hq
  · simp only [rawHeaderWords, List.mem_cons, List.not_mem_nil, or_false] at hq
    rcases hq with rfl | rfl | rfl | rfl <;> exact Nat.zero_le _
  · cases hp : h.pkt with
    | none => rw [hp] at hq; simp at hq
    | some p => rw [hp] at hq; exact depth_pktMembers p q hq

theorem depth_extRouterTree (x : ExtRouter) : depth (extRouterTree x) ≤ 1 := by
  refine depth_obj _ 0 ?_; intro p hp
  simp only [List.mem_cons, List.not_mem_nil, or_false] at hp
  rcases hp with rfl | rfl | rfl <;> exact Nat.le_refl 0

theorem depth_entry {α : Type} (k : String) (f : α → Json) (o : Option α) (n : Nat) (h : ∀ x, depth (f x) ≤ n) :
    ∀ p ∈ entry k f o, depth p.2 ≤ n := by
  intro p hp
  cases o with
  | none => cases hp
  | some x => simp only [entry, List.mem_cons, List.not_mem_nil, or_false] at hp; subst hp; exact h x

theorem depth_flowRecsTree (m : FlowRecs) : depth (flowRecsTree m) ≤ 3 := by
  refine depth_obj _ 2 ?_; intro p hp
  simp only [List.mem_append] at hp
  rcases hp with (hp | hp) | hp
  · exact depth_entry _ _ _ 2 (fun x => Nat.le_trans (depth_extRouterTree x) (by omega)) p hp
  · exact depth_entry _ _ _ 2 (fun x => Nat.le_trans (depth_numObj _ _) (by omega)) p hp
  · exact depth_entry _ _ _ 2 depth_rawHeaderTree p hp

theorem depth_flowSampleTree (s : FlowSample) : depth (flowSampleTree s) ≤ 4 := by
  refine depth_obj _ 3 ?_; intro p hp
  simp only [List.mem_cons, List.not_mem_nil, or_false] at hp
  rcases hp with rfl | rfl | rfl | rfl | rfl | rfl | rfl | rfl | rfl | rfl
  all_goals first | exact depth_flowRecsTree _ | exact Nat.zero_le _

theorem depth_counterRecsTree (m : CounterRecs) : depth (counterRecsTree m) ≤ 2 := by
  refine depth_obj _ 1 ?_; intro p hp
  simp only [List.mem_append] at hp
  rcases hp with ((((hp | hp) | hp) | hp) | hp) | hp <;>
    exact depth_entry _ _ _ 1 (fun x => depth_numObj _ x) p hp

theorem depth_counterSampleTree (c : CounterSample) : depth (counterSampleTree c) ≤ 3 := by
  refine depth_obj _ 2 ?_; intro p hp
  simp only [List.mem_cons, List.not_mem_nil, or_false] at hp
  rcases hp with rfl | rfl | rfl | rfl | rfl
  all_goals first | exact depth_counterRecsTree _ | exact Nat.zero_le _

theorem depth_sflowTree (d : Datagram) : depth (sflowTree d) ≤ 6 := by
  refine depth_obj _ 5 ?_; intro p hp
  simp only [List.mem_cons, List.not_mem_nil, or_false] at hp
  rcases hp with rfl | rfl | rfl | rfl | rfl | rfl | rfl | rfl | rfl | rfl
  case inr.inr.inr.inr.inr.inr.inl =>
    simp only [depth]
    apply Nat.succ_le_succ
    apply depthL_sflistOf
    intro x hx
    obtain ⟨s, _, rfl⟩ := List.mem_map.mp hx
    exact depth_flowSampleTree s
  case inr.inr.inr.inr.inr.inr.inr.inl =>
    simp only [depth]
    apply Nat.succ_le_succ
    apply depthL_sflistOf
    intro x hx
    obtain ⟨s, _, rfl⟩ := List.mem_map.mp hx
    exact Nat.le_trans (depth_counterSampleTree s) (by omega)
  all_goals exact Nat.zero_le _

end Vflow.JsonAccepted
