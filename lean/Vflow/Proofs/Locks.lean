import Vflow.Model.Locks
/-! The lock-discipline invariant and its preservation by every step (core Lean only). -/
namespace Vflow
namespace Locks

/-- invariant: every thread's remaining program is well bracketed from what it holds; nobody holds
    a lock twice; a write lock excludes every other holder -/
structure LInv (σ : Sys) : Prop where
  wbAll : ∀ t ∈ σ.threads, wb t.held t.prog = true
  nodup : ∀ t ∈ σ.threads, t.held.w.Nodup ∧ t.held.r.Nodup ∧ ∀ s, s ∈ t.held.w → s ∉ t.held.r
  excl : ∀ (i j : Nat) (ti tj : Thread) (s : Nat), σ.threads[i]? = some ti → σ.threads[j]? = some tj →
           i ≠ j → s ∈ ti.held.w → s ∉ tj.held.w ∧ s ∉ tj.held.r

/-! ### what `wb` says about the first action -/

theorem wb_cons {h : Held} {a : Act} {p : List Act} (hw : wb h (a :: p) = true) :
    wb (heldAfter h a) p = true := by
  cases a <;> simp [wb] at hw <;> simp [heldAfter] <;> first | exact hw.2 | exact hw

theorem wb_lock {h : Held} {s : Nat} {p : List Act} (hw : wb h (.lock s :: p) = true) :
    (∀ x ∈ h.w, x < s) ∧ (∀ x ∈ h.r, x < s) := by
  simp [wb] at hw
  exact hw.1

theorem wb_rlock {h : Held} {s : Nat} {p : List Act} (hw : wb h (.rlock s :: p) = true) :
    (∀ x ∈ h.w, x < s) ∧ (∀ x ∈ h.r, x < s) := by
  simp [wb] at hw
  exact hw.1

theorem wb_unlock {h : Held} {s : Nat} {p : List Act} (hw : wb h (.unlock s :: p) = true) : s ∈ h.w := by
  simp [wb] at hw; exact hw.1

theorem wb_runlock {h : Held} {s : Nat} {p : List Act} (hw : wb h (.runlock s :: p) = true) : s ∈ h.r := by
  simp [wb] at hw; exact hw.1

theorem wb_wr {h : Held} {s k : Nat} {v : Val} {p : List Act} (hw : wb h (.wr s k v :: p) = true) : s ∈ h.w := by
  simp [wb] at hw; exact hw.1

theorem wb_rd {h : Held} {s k : Nat} {p : List Act} (hw : wb h (.rd s k :: p) = true) : s ∈ h.w ∨ s ∈ h.r := by
  simp [wb] at hw; exact hw.1

theorem wb_iter {h : Held} {s : Nat} {p : List Act} (hw : wb h (.iter s :: p) = true) : s ∈ h.w ∨ s ∈ h.r := by
  simp [wb] at hw; exact hw.1

theorem wb_nil {h : Held} (hw : wb h [] = true) : h.w = [] ∧ h.r = [] := by
  simpa [wb] using hw

/-! ### list plumbing -/

theorem getElem?_set_cases {α} (l : List α) (i j : Nat) (a b : α) (h : (l.set i a)[j]? = some b) :
    (j = i ∧ b = a ∧ i < l.length) ∨ (j ≠ i ∧ l[j]? = some b) := by
  by_cases hji : j = i
  · subst hji
    left
    rw [List.getElem?_set_self'] at h
    cases hl : l[j]? with
    | none => simp [hl] at h
    | some x =>
      simp [hl] at h
      exact ⟨rfl, h.symm, (List.getElem?_eq_some_iff.mp hl).1⟩
  · right
    rw [List.getElem?_set_ne (by omega)] at h
    exact ⟨hji, h⟩

theorem mem_set_cases {α} (l : List α) (i : Nat) (a b : α) (h : b ∈ l.set i a) : b = a ∨ b ∈ l := by
  rcases List.mem_or_eq_of_mem_set h with h | h
  · right; exact h
  · left; exact h

/-- updating thread `i` keeps the invariant provided the new thread is well bracketed and its
    holdings stay exclusive -/
theorem linv_set (σ : Sys) (h : LInv σ) (i : Nat) (t' : Thread) (m' : Mem)
    (hwb : wb t'.held t'.prog = true)
    (hnd : t'.held.w.Nodup ∧ t'.held.r.Nodup ∧ ∀ s, s ∈ t'.held.w → s ∉ t'.held.r)
    (hout : ∀ j tj s, σ.threads[j]? = some tj → j ≠ i → s ∈ t'.held.w → s ∉ tj.held.w ∧ s ∉ tj.held.r)
    (hin : ∀ j tj s, σ.threads[j]? = some tj → j ≠ i → s ∈ tj.held.w → s ∉ t'.held.w ∧ s ∉ t'.held.r) :
    LInv ⟨σ.threads.set i t', m'⟩ := by
  refine ⟨?_, ?_, ?_⟩
  · intro x hx
    rcases mem_set_cases _ _ _ _ hx with rfl | hx
    · exact hwb
    · exact h.wbAll x hx
  · intro x hx
    rcases mem_set_cases _ _ _ _ hx with rfl | hx
    · exact hnd
    · exact h.nodup x hx
  · intro a b ta tb s ha hb hab hs
    rcases getElem?_set_cases _ _ _ _ _ ha with ⟨rfl, rfl, _⟩ | ⟨hai, ha'⟩
    · rcases getElem?_set_cases _ _ _ _ _ hb with ⟨hba, _, _⟩ | ⟨hbi, hb'⟩
      · exact absurd hba.symm hab
      · exact hout b tb s hb' hbi hs
    · rcases getElem?_set_cases _ _ _ _ _ hb with ⟨rfl, rfl, _⟩ | ⟨hbi, hb'⟩
      · exact hin a ta s ha' hai hs
      · exact h.excl a b ta tb s ha' hb' hab hs

/-- **every step keeps the invariant** -/
theorem step_preserves {σ σ' : Sys} {i : Nat} {a : Act} (h : LInv σ) (st : Step σ i a σ') : LInv σ' := by
  obtain ⟨t, p, hi, hp, hen, rfl⟩ := st
  have hm : t ∈ σ.threads := List.mem_of_getElem? hi
  have w := h.wbAll t hm
  rw [hp] at w
  have w' := wb_cons w
  obtain ⟨ndw, ndr, ndd⟩ := h.nodup t hm
  unfold after
  apply linv_set σ h i _ _ w'
  all_goals cases a
  -- nodup goals
  case lock s =>
    have ⟨lw, lr⟩ := wb_lock w
    refine ⟨List.nodup_cons.mpr ⟨fun hc => Nat.lt_irrefl _ (lw s hc), ndw⟩, ndr, ?_⟩
    intro x hx hxr
    simp [heldAfter] at hx hxr
    rcases hx with rfl | hx
    · exact Nat.lt_irrefl _ (lr _ hxr)
    · exact ndd x hx hxr
  case unlock s =>
    refine ⟨ndw.erase s, ndr, ?_⟩
    intro x hx hxr
    exact ndd x (List.mem_of_mem_erase hx) hxr
  case rlock s =>
    have ⟨lw, lr⟩ := wb_rlock w
    refine ⟨ndw, List.nodup_cons.mpr ⟨fun hc => Nat.lt_irrefl _ (lr s hc), ndr⟩, ?_⟩
    intro x hx hxr
    simp [heldAfter] at hx hxr
    rcases hxr with rfl | hxr
    · exact Nat.lt_irrefl _ (lw _ hx)
    · exact ndd x hx hxr
  case runlock s =>
    refine ⟨ndw, ndr.erase s, ?_⟩
    intro x hx hxr
    exact ndd x hx (List.mem_of_mem_erase hxr)
  case rd s k => exact ⟨ndw, ndr, ndd⟩
  case wr s k v => exact ⟨ndw, ndr, ndd⟩
  case iter s => exact ⟨ndw, ndr, ndd⟩
  -- hout goals: what the moved thread now write-holds is held by nobody else
  case lock s =>
    intro j tj s' hj hji hs'
    simp [heldAfter] at hs'
    rcases hs' with rfl | hs'
    · exact ⟨fun hc => hen.1 ⟨tj, List.mem_of_getElem? hj, hc⟩, fun hc => hen.2 ⟨tj, List.mem_of_getElem? hj, hc⟩⟩
    · exact h.excl i j t tj s' hi hj (Ne.symm hji) hs'
  case unlock s =>
    intro j tj s' hj hji hs'
    exact h.excl i j t tj s' hi hj (Ne.symm hji) (List.mem_of_mem_erase hs')
  case rlock s => intro j tj s' hj hji hs'; exact h.excl i j t tj s' hi hj (Ne.symm hji) hs'
  case runlock s => intro j tj s' hj hji hs'; exact h.excl i j t tj s' hi hj (Ne.symm hji) hs'
  case rd s k => intro j tj s' hj hji hs'; exact h.excl i j t tj s' hi hj (Ne.symm hji) hs'
  case wr s k v => intro j tj s' hj hji hs'; exact h.excl i j t tj s' hi hj (Ne.symm hji) hs'
  case iter s => intro j tj s' hj hji hs'; exact h.excl i j t tj s' hi hj (Ne.symm hji) hs'
  -- hin goals: what another thread write-holds, the moved thread does not hold afterwards
  case lock s =>
    intro j tj s' hj hji hs'
    have := h.excl j i tj t s' hj hi hji hs'
    simp [heldAfter]
    refine ⟨⟨?_, this.1⟩, this.2⟩
    rintro rfl
    exact hen.1 ⟨tj, List.mem_of_getElem? hj, hs'⟩
  case unlock s =>
    intro j tj s' hj hji hs'
    have := h.excl j i tj t s' hj hi hji hs'
    exact ⟨fun hc => this.1 (List.mem_of_mem_erase hc), this.2⟩
  case rlock s =>
    intro j tj s' hj hji hs'
    have := h.excl j i tj t s' hj hi hji hs'
    simp [heldAfter]
    refine ⟨this.1, ?_, this.2⟩
    rintro rfl
    exact hen ⟨tj, List.mem_of_getElem? hj, hs'⟩
  case runlock s =>
    intro j tj s' hj hji hs'
    have := h.excl j i tj t s' hj hi hji hs'
    exact ⟨this.1, fun hc => this.2 (List.mem_of_mem_erase hc)⟩
  case rd s k => intro j tj s' hj hji hs'; exact h.excl j i tj t s' hj hi hji hs'
  case wr s k v => intro j tj s' hj hji hs'; exact h.excl j i tj t s' hj hi hji hs'
  case iter s => intro j tj s' hj hji hs'; exact h.excl j i tj t s' hj hi hji hs'

theorem linv_init {σ : Sys} (h0 : Init σ) : LInv σ := by
  refine ⟨?_, ?_, ?_⟩
  · intro t ht; rw [(h0 t ht).1]; exact (h0 t ht).2.2
  · intro t ht; rw [(h0 t ht).1]; simp
  · intro i j ti tj s hi _ _ hs
    rw [(h0 ti (List.mem_of_getElem? hi)).1] at hs; simp at hs

theorem run_linv {init cur : Sys} {hist : List Ev} (h0 : Init init) (hr : Run init hist cur) : LInv cur := by
  induction hr with
  | start => exact linv_init h0
  | step _ st ih => exact step_preserves ih st

/-- under the invariant no two threads are about to touch the same shard map with one writing -/
theorem inv_no_race {σ : Sys} (h : LInv σ) : ¬ Race σ := by
  rintro ⟨i, j, ti, tj, a, b, hij, hi, hj, ha, hb, hc⟩
  have hmi : ti ∈ σ.threads := List.mem_of_getElem? hi
  have hmj : tj ∈ σ.threads := List.mem_of_getElem? hj
  have wi := h.wbAll ti hmi
  have wj := h.wbAll tj hmj
  cases hpi : ti.prog with
  | nil => simp [hpi] at ha
  | cons a' pi =>
    cases hpj : tj.prog with
    | nil => simp [hpj] at hb
    | cons b' pj =>
      simp [hpi] at ha; simp [hpj] at hb
      subst ha; subst hb
      rw [hpi] at wi; rw [hpj] at wj
      cases a' <;> cases b' <;> simp [conflict] at hc
      all_goals subst hc
      all_goals have hsi := wb_wr wi
      all_goals have hex := h.excl i j ti tj _ hi hj hij hsi
      · rcases wb_rd wj with h1 | h1
        · exact hex.1 h1
        · exact hex.2 h1
      · exact hex.1 (wb_wr wj)
      · rcases wb_iter wj with h1 | h1
        · exact hex.1 h1
        · exact hex.2 h1

end Locks
end Vflow
