import Vflow.Model.Ipfix
import Vflow.Model.V9
import Vflow.Model.V5
import Vflow.Gen.Layouts
/-!
# The fixed-layout readers of the IPFIX / NetFlow v9 models read the REGENERATED layouts

`Gen.Layouts.*` is re-extracted on every run from the `unmarshal` functions of `ipfix/decoder.go`
and `netflow/v9/decoder.go` (ordered `(field, octets)` chains; anything else is `!unrecognised`).
Each lemma states that the model's hand-written reader is `V5.readFields` (the generic "read these
widths in this order, big endian") over the regenerated layout, so a reordered, dropped, widened
or added header field in the Go source breaks a proof here rather than going unnoticed.
-/
namespace Vflow.HeaderLayouts
open Vflow

section
variable (r : Rd)

theorem ipfix_header : Ipfix.readHeader r = V5.readFields (V5.widths Gen.Layouts.ipfixHeader) r := by
  simp only [Gen.Layouts.ipfixHeader, V5.widths, List.map, V5.readFields, Ipfix.readHeader, Rd.rU16, Rd.rU32]
  rcases h1 : r.readN 2 with _ | ⟨x1, r1⟩ <;> simp only [Option.map]
  rcases h2 : r1.readN 2 with _ | ⟨x2, r2⟩ <;> simp only []
  rcases h3 : r2.readN 4 with _ | ⟨x3, r3⟩ <;> simp only []
  rcases h4 : r3.readN 4 with _ | ⟨x4, r4⟩ <;> simp only []
  rcases h5 : r4.readN 4 with _ | ⟨x5, r5⟩ <;> simp only []

theorem v9_header : V9.readHeader r = V5.readFields (V5.widths Gen.Layouts.v9Header) r := by
  simp only [Gen.Layouts.v9Header, V5.widths, List.map, V5.readFields, V9.readHeader, Rd.rU16, Rd.rU32]
  rcases h1 : r.readN 2 with _ | ⟨x1, r1⟩ <;> simp only [Option.map]
  rcases h2 : r1.readN 2 with _ | ⟨x2, r2⟩ <;> simp only []
  rcases h3 : r2.readN 4 with _ | ⟨x3, r3⟩ <;> simp only []
  rcases h4 : r3.readN 4 with _ | ⟨x4, r4⟩ <;> simp only []
  rcases h5 : r4.readN 4 with _ | ⟨x5, r5⟩ <;> simp only []
  rcases h6 : r5.readN 4 with _ | ⟨x6, r6⟩ <;> simp only []
end

/-- two 16-bit fields read through the generic reader -/
theorem readFields_22 (r : Rd) :
    V5.readFields [2, 2] r =
      (match r.rU16 with
       | none => none
       | some (a, r1) => match r1.rU16 with
         | none => none
         | some (b, r2) => some ([a, b], r2)) := by
  simp only [V5.readFields, Rd.rU16]
  rcases h1 : r.readN 2 with _ | ⟨x1, r1⟩ <;> simp only [Option.map]
  rcases h2 : r1.readN 2 with _ | ⟨x2, r2⟩ <;> simp only []

theorem readFields_222 (r : Rd) :
    V5.readFields [2, 2, 2] r =
      (match r.rU16 with
       | none => none
       | some (a, r1) => match r1.rU16 with
         | none => none
         | some (b, r2) => match r2.rU16 with
           | none => none
           | some (c, r3) => some ([a, b, c], r3)) := by
  simp only [V5.readFields, Rd.rU16]
  rcases h1 : r.readN 2 with _ | ⟨x1, r1⟩ <;> simp only [Option.map]
  rcases h2 : r1.readN 2 with _ | ⟨x2, r2⟩ <;> simp only []
  rcases h3 : r2.readN 2 with _ | ⟨x3, r3⟩ <;> simp only []

theorem gen_two_u16 :
    V5.widths Gen.Layouts.ipfixSetHeader = [2, 2] ∧ V5.widths Gen.Layouts.v9SetHeader = [2, 2] ∧
    V5.widths Gen.Layouts.ipfixTplHeader = [2, 2] ∧ V5.widths Gen.Layouts.v9TplHeader = [2, 2] ∧
    V5.widths Gen.Layouts.v9FieldSpec = [2, 2] ∧
    V5.widths Gen.Layouts.ipfixOptTplHeader = [2, 2, 2] ∧ V5.widths Gen.Layouts.v9OptTplHeader = [2, 2, 2] := by
  decide

/-! ## set headers -/

theorem ipfix_setHeader_short (addr : Bytes) (fuel : Nat) (st : Ipfix.St)
    (h : V5.readFields (V5.widths Gen.Layouts.ipfixSetHeader) st.r = none) :
    (Ipfix.decodeSet addr fuel st).2 = some .short := by
  rw [gen_two_u16.1, readFields_22] at h
  unfold Ipfix.decodeSet
  rcases h1 : st.r.rU16 with _ | ⟨a, r1⟩
  · rfl
  · rw [h1] at h; simp only [] at h ⊢
    rcases h2 : r1.rU16 with _ | ⟨b, r2⟩
    · rfl
    · rw [h2] at h; cases h

theorem ipfix_setHeader_read (addr : Bytes) (fuel : Nat) (st : Ipfix.St) (sid len : Nat) (r2 : Rd)
    (h : V5.readFields (V5.widths Gen.Layouts.ipfixSetHeader) st.r = some ([sid, len], r2)) :
    Ipfix.decodeSet addr fuel st =
      if len < 4 then ({ st with r := r2 }, some .badSetLen)
      else Ipfix.setBody addr sid len st.r.cnt fuel { st with r := r2 } := by
  rw [gen_two_u16.1, readFields_22] at h
  unfold Ipfix.decodeSet
  rcases h1 : st.r.rU16 with _ | ⟨a, r1⟩
  · rw [h1] at h; cases h
  · rw [h1] at h; simp only [] at h ⊢
    rcases h2 : r1.rU16 with _ | ⟨b, r2'⟩
    · rw [h2] at h; cases h
    · rw [h2] at h; simp only [Option.some.injEq, Prod.mk.injEq, List.cons.injEq, and_true] at h
      obtain ⟨⟨rfl, rfl⟩, rfl⟩ := h; rfl

theorem v9_setHeader_short (addr : Bytes) (fuel : Nat) (st : V9.St)
    (h : V5.readFields (V5.widths Gen.Layouts.v9SetHeader) st.r = none) :
    (V9.decodeSet addr fuel st).2 = some .short := by
  rw [gen_two_u16.2.1, readFields_22] at h
  unfold V9.decodeSet
  rcases h1 : st.r.rU16 with _ | ⟨a, r1⟩
  · rfl
  · rw [h1] at h; simp only [] at h ⊢
    rcases h2 : r1.rU16 with _ | ⟨b, r2⟩
    · rfl
    · rw [h2] at h; cases h

theorem v9_setHeader_read (addr : Bytes) (fuel : Nat) (st : V9.St) (sid len : Nat) (r2 : Rd)
    (h : V5.readFields (V5.widths Gen.Layouts.v9SetHeader) st.r = some ([sid, len], r2)) :
    V9.decodeSet addr fuel st =
      if len < 4 then ({ st with r := r2 }, some .badSetLen)
      else V9.setBody addr sid len st.r.cnt fuel { st with r := r2 } := by
  rw [gen_two_u16.2.1, readFields_22] at h
  unfold V9.decodeSet
  rcases h1 : st.r.rU16 with _ | ⟨a, r1⟩
  · rw [h1] at h; cases h
  · rw [h1] at h; simp only [] at h ⊢
    rcases h2 : r1.rU16 with _ | ⟨b, r2'⟩
    · rw [h2] at h; cases h
    · rw [h2] at h; simp only [Option.some.injEq, Prod.mk.injEq, List.cons.injEq, and_true] at h
      obtain ⟨⟨rfl, rfl⟩, rfl⟩ := h; rfl

/-! ## template record headers -/

theorem ipfix_tplHeader_read (r : Rd) (tid n : Nat) (r2 : Rd)
    (h : V5.readFields (V5.widths Gen.Layouts.ipfixTplHeader) r = some ([tid, n], r2)) :
    Ipfix.parseTpl r = (match Ipfix.readSpecs n r2 [] with
      | (.ok fs, r3) => (.ok ⟨tid, n, 0, [], fs⟩, r3)
      | (.error e, r3) => (.error e, r3)) := by
  rw [gen_two_u16.2.2.1, readFields_22] at h
  unfold Ipfix.parseTpl
  rcases h1 : r.rU16 with _ | ⟨a, r1⟩
  · rw [h1] at h; cases h
  · rw [h1] at h; simp only [] at h ⊢
    rcases h2 : r1.rU16 with _ | ⟨b, r2'⟩
    · rw [h2] at h; cases h
    · rw [h2] at h; simp only [Option.some.injEq, Prod.mk.injEq, List.cons.injEq, and_true] at h
      obtain ⟨⟨rfl, rfl⟩, rfl⟩ := h; rfl

theorem ipfix_tplHeader_short (r : Rd)
    (h : V5.readFields (V5.widths Gen.Layouts.ipfixTplHeader) r = none) :
    (Ipfix.parseTpl r).1 = .error .short := by
  rw [gen_two_u16.2.2.1, readFields_22] at h
  unfold Ipfix.parseTpl
  rcases h1 : r.rU16 with _ | ⟨a, r1⟩
  · rfl
  · rw [h1] at h; simp only [] at h ⊢
    rcases h2 : r1.rU16 with _ | ⟨b, r2⟩
    · rfl
    · rw [h2] at h; cases h

theorem v9_tplHeader_read (r : Rd) (tid n : Nat) (r2 : Rd)
    (h : V5.readFields (V5.widths Gen.Layouts.v9TplHeader) r = some ([tid, n], r2)) :
    V9.parseTpl r = (match V9.readSpecs n r2 [] with
      | (.ok fs, r3) => (.ok ⟨tid, n, 0, [], fs⟩, r3)
      | (.error e, r3) => (.error e, r3)) := by
  rw [gen_two_u16.2.2.2.1, readFields_22] at h
  unfold V9.parseTpl
  rcases h1 : r.rU16 with _ | ⟨a, r1⟩
  · rw [h1] at h; cases h
  · rw [h1] at h; simp only [] at h ⊢
    rcases h2 : r1.rU16 with _ | ⟨b, r2'⟩
    · rw [h2] at h; cases h
    · rw [h2] at h; simp only [Option.some.injEq, Prod.mk.injEq, List.cons.injEq, and_true] at h
      obtain ⟨⟨rfl, rfl⟩, rfl⟩ := h; rfl

theorem v9_tplHeader_short (r : Rd)
    (h : V5.readFields (V5.widths Gen.Layouts.v9TplHeader) r = none) :
    (V9.parseTpl r).1 = .error .short := by
  rw [gen_two_u16.2.2.2.1, readFields_22] at h
  unfold V9.parseTpl
  rcases h1 : r.rU16 with _ | ⟨a, r1⟩
  · rfl
  · rw [h1] at h; simp only [] at h ⊢
    rcases h2 : r1.rU16 with _ | ⟨b, r2⟩
    · rfl
    · rw [h2] at h; cases h

/-- NetFlow v9 field specifier -/
theorem v9_fieldSpec_read (r : Rd) (id len : Nat) (r2 : Rd)
    (h : V5.readFields (V5.widths Gen.Layouts.v9FieldSpec) r = some ([id, len], r2)) :
    V9.readSpec r = (.ok ⟨id, len, 0⟩, r2) := by
  rw [gen_two_u16.2.2.2.2.1, readFields_22] at h
  unfold V9.readSpec
  rcases h1 : r.rU16 with _ | ⟨a, r1⟩
  · rw [h1] at h; cases h
  · rw [h1] at h; simp only [] at h ⊢
    rcases h2 : r1.rU16 with _ | ⟨b, r2'⟩
    · rw [h2] at h; cases h
    · rw [h2] at h; simp only [Option.some.injEq, Prod.mk.injEq, List.cons.injEq, and_true] at h
      obtain ⟨⟨rfl, rfl⟩, rfl⟩ := h; rfl

theorem v9_fieldSpec_short (r : Rd)
    (h : V5.readFields (V5.widths Gen.Layouts.v9FieldSpec) r = none) :
    (V9.readSpec r).1 = .error .short := by
  rw [gen_two_u16.2.2.2.2.1, readFields_22] at h
  unfold V9.readSpec
  rcases h1 : r.rU16 with _ | ⟨a, r1⟩
  · rfl
  · rw [h1] at h; simp only [] at h ⊢
    rcases h2 : r1.rU16 with _ | ⟨b, r2⟩
    · rfl
    · rw [h2] at h; cases h

/-! ## options template record headers -/

theorem ipfix_optTplHeader_short (r : Rd)
    (h : V5.readFields (V5.widths Gen.Layouts.ipfixOptTplHeader) r = none) :
    (Ipfix.parseOptTpl r).1 = .error .short := by
  rw [gen_two_u16.2.2.2.2.2.1, readFields_222] at h
  unfold Ipfix.parseOptTpl
  rcases h1 : r.rU16 with _ | ⟨a, r1⟩
  · rfl
  · rw [h1] at h; simp only [] at h ⊢
    rcases h2 : r1.rU16 with _ | ⟨b, r2⟩
    · rfl
    · rw [h2] at h; simp only [] at h ⊢
      rcases h3 : r2.rU16 with _ | ⟨c, r3⟩
      · rfl
      · rw [h3] at h; cases h

theorem v9_optTplHeader_short (r : Rd)
    (h : V5.readFields (V5.widths Gen.Layouts.v9OptTplHeader) r = none) :
    (V9.parseOptTpl r).1 = .error .short := by
  rw [gen_two_u16.2.2.2.2.2.2, readFields_222] at h
  unfold V9.parseOptTpl
  rcases h1 : r.rU16 with _ | ⟨a, r1⟩
  · rfl
  · rw [h1] at h; simp only [] at h ⊢
    rcases h2 : r1.rU16 with _ | ⟨b, r2⟩
    · rfl
    · rw [h2] at h; simp only [] at h ⊢
      rcases h3 : r2.rU16 with _ | ⟨c, r3⟩
      · rfl
      · rw [h3] at h; cases h

/-- IPFIX options template header (TemplateID, FieldCount, ScopeFieldCount) in the regenerated order -/
theorem ipfix_optTplHeader_read (r : Rd) (tid n sc : Nat) (r3 : Rd)
    (h : V5.readFields (V5.widths Gen.Layouts.ipfixOptTplHeader) r = some ([tid, n, sc], r3)) :
    Ipfix.parseOptTpl r =
      (match Ipfix.readSpecs sc r3 [] with
       | (.error e, r4) => (.error e, r4)
       | (.ok scs, r4) =>
         match Ipfix.readSpecs ((n + 65536 - sc) % 65536) r4 [] with
         | (.error e, r5) => (.error e, r5)
         | (.ok fs, r5) => (.ok ⟨tid, n, sc, scs, fs⟩, r5)) := by
  rw [gen_two_u16.2.2.2.2.2.1, readFields_222] at h
  unfold Ipfix.parseOptTpl
  rcases h1 : r.rU16 with _ | ⟨a, r1⟩
  · rw [h1] at h; cases h
  · rw [h1] at h; simp only [] at h ⊢
    rcases h2 : r1.rU16 with _ | ⟨b, r2⟩
    · rw [h2] at h; cases h
    · rw [h2] at h; simp only [] at h ⊢
      rcases h3 : r2.rU16 with _ | ⟨c, r3'⟩
      · rw [h3] at h; cases h
      · rw [h3] at h; simp only [Option.some.injEq, Prod.mk.injEq, List.cons.injEq, and_true] at h
        obtain ⟨⟨rfl, rfl, rfl⟩, rfl⟩ := h; rfl

/-- NetFlow v9 options template header (TemplateID, OptionScopeLen, OptionLen — lengths in octets) -/
theorem v9_optTplHeader_read (r : Rd) (tid sl ol : Nat) (r3 : Rd)
    (h : V5.readFields (V5.widths Gen.Layouts.v9OptTplHeader) r = some ([tid, sl, ol], r3)) :
    V9.parseOptTpl r =
      (match V9.readSpecs (sl / 4) r3 [] with
       | (.error e, r4) => (.error e, r4)
       | (.ok scs, r4) =>
         match V9.readSpecs (ol / 4) r4 [] with
         | (.error e, r5) => (.error e, r5)
         | (.ok fs, r5) => (.ok ⟨tid, 0, 0, scs, fs⟩, r5)) := by
  rw [gen_two_u16.2.2.2.2.2.2, readFields_222] at h
  unfold V9.parseOptTpl
  rcases h1 : r.rU16 with _ | ⟨a, r1⟩
  · rw [h1] at h; cases h
  · rw [h1] at h; simp only [] at h ⊢
    rcases h2 : r1.rU16 with _ | ⟨b, r2⟩
    · rw [h2] at h; cases h
    · rw [h2] at h; simp only [] at h ⊢
      rcases h3 : r2.rU16 with _ | ⟨c, r3'⟩
      · rw [h3] at h; cases h
      · rw [h3] at h; simp only [Option.some.injEq, Prod.mk.injEq, List.cons.injEq, and_true] at h
        obtain ⟨⟨rfl, rfl, rfl⟩, rfl⟩ := h; rfl

/-- the field NAMES of the regenerated layouts (a renamed / swapped field with the same width is caught here) -/
theorem gen_field_names :
    Gen.Layouts.ipfixHeader.map (·.1) = ["Version", "Length", "ExportTime", "SequenceNo", "DomainID"] ∧
    Gen.Layouts.ipfixSetHeader.map (·.1) = ["SetID", "Length"] ∧
    Gen.Layouts.ipfixTplHeader.map (·.1) = ["TemplateID", "FieldCount"] ∧
    Gen.Layouts.ipfixOptTplHeader.map (·.1) = ["TemplateID", "FieldCount", "ScopeFieldCount"] ∧
    Gen.Layouts.v9Header.map (·.1) = ["Version", "Count", "SysUpTime", "UNIXSecs", "SeqNum", "SrcID"] ∧
    Gen.Layouts.v9SetHeader.map (·.1) = ["FlowSetID", "Length"] ∧
    Gen.Layouts.v9TplHeader.map (·.1) = ["TemplateID", "FieldCount"] ∧
    Gen.Layouts.v9OptTplHeader.map (·.1) = ["TemplateID", "OptionScopeLen", "OptionLen"] ∧
    Gen.Layouts.v9FieldSpec.map (·.1) = ["ElementID", "Length"] := by decide

end Vflow.HeaderLayouts
